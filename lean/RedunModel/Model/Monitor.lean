/-
Model of the monitor-thread start/stop protocol of redun's remote executors
(redun/executors/docker.py, aws_batch.py, k8s.py, gcp_batch.py, aws_glue.py) as a transition
system over thread interleavings (core Lean only).

Threads: `S` — the scheduler thread submitting jobs (`_submit` tail + `_start`); `M k` — the k-th
monitor thread created by `_start` (`_monitor` + the `stop()` it calls when its loop ends); for
AWS Glue `U k` — the k-th submission thread (`_submission_thread`); for the executors that use the
job arrayer (AWS Batch, K8S, GCP Batch) `A` — the array-monitor thread, modelled coarsely: one
step = one poll that hands every queued job to the executor (`stale_time < 0`), created by
`add_job`, ended by `arrayer.stop()` (its line-level behaviour is property C11's model).

One transition per LINE event of `_start`, `_monitor`, `stop` (and `_submission_thread`), plus the
insert line and the `self._start()` line of `_submit`.  The five executors are five values of
`Variant`: the protocol phases are shared, the runs of lines that do not touch the protocol state
("nops") are data (lists of line labels), and so is the order of the operations of `stop()`.
The fake cloud API completes every job it is asked about.
-/
namespace RedunModel.Monitor

abbrev Job := Nat
abbrev Lbl := Nat

/-- operations of the monitor's exit path (`self.log(...)`, `self.stop()` and the body of `stop()`) -/
inductive PostOp where
  | nop
  | clearFlag      -- `self.is_running = False`
  | arrStop        -- `self.arrayer.stop()`
  | tSet           -- `self._thread`                                  (first conjunct of the join guard)
  | tAlive         -- `and self._thread.is_alive()`
  | tNotMe         -- `and threading.get_ident() != self._thread.ident`
  | join           -- `self._thread.join()`
  deriving DecidableEq, Repr

structure Variant where
  arr : Bool            -- submissions go to the arrayer first; monitor loop also tests `arrayer.num_pending`
  glue : Bool           -- Glue: queue + submission thread; `_start` restarts threads by liveness
  testThread : Bool     -- `_start` guard is `not self._thread or not self._thread.is_alive()` (GCP)
  retLine : Option Lbl  -- explicit `return` line when already running (K8S)
  lIns : Lbl            -- `_submit`: the line that records the job (pending map / add_job / append)
  lCall : Lbl           -- `_submit`: `self._start()`
  sPre : List Lbl       -- `_start`: lines before the guard
  lTest : Lbl
  sSetPre : List Lbl    -- lines between the guard and `is_running = True`
  lSet : Lbl
  sNewPre : List Lbl    -- lines between `is_running = True` and the thread creation
  lNew : Lbl
  lStart : Lbl
  lTestMon : Lbl := 0   -- Glue: `if not self._monitor_thread.is_alive():`
  lTestSub : Lbl := 0   -- Glue: `if not self._submit_thread.is_alive():`
  lNewSub : Lbl := 0
  lStartSub : Lbl := 0
  mPre : List Lbl       -- `_monitor`: lines before the loop
  lLoop : Lbl           -- `while self.is_running and (...)`
  mBodyPre : List Lbl   -- loop body lines before the snapshot of the pending keys
  lSnap : Lbl
  mSnapPost : List Lbl
  lFor : Lbl
  mProcPre : List Lbl   -- for-body lines before the status is processed
  lProc : Lbl
  mProcPostFirst : List Lbl  -- for-body lines after it when `i % 100 == 0`
  mProcPost : List Lbl       -- ... otherwise
  mSleep : List Lbl     -- lines after the for loop
  mExc : List Lbl       -- `except Exception as error:` ... `reject_job(None, error)`
  post : List (Lbl × PostOp)
  uPre : List Lbl := []     -- Glue `_submission_thread`
  lUOuter : Lbl := 0
  lUFc : Lbl := 0
  lUInner : Lbl := 0
  lUPop : Lbl := 0
  uMid : List Lbl := []
  lUPromote : Lbl := 0
  uPost : List Lbl := []
  uSleep : List Lbl := []
  reunite : Bool := false   -- `_submit` reunites a job with a listed in-flight cloud job of an earlier execution (modelled for AWS Batch)
  lReunite : Lbl := 0       -- `self.pending_batch_jobs[batch_job_id] = job`
  popFirst : Bool := true   -- `_process_job_status` removes the job from the pending map before its cloud calls (all but Glue)
  arrMax : Nat := 0         -- arrayer `max_array_size` (0 = larger than any group): a poll hands over at most this many
                            -- jobs of the (single) group and puts the remainder back, still stale

/-! ### thread states -/
inductive SPh where
  | ins | call | pre (r : List Lbl) | test | ret | setPre (r : List Lbl) | set | testMon
  | newPre (r : List Lbl) | new | start | testSub | newSub | startSub | done
  deriving DecidableEq, Repr

inductive MPh where
  | unstarted
  | pre (r : List Lbl) | loop | bodyPre (r : List Lbl) | snap | snapPost (r : List Lbl) | forHead
  | procPre (r : List Lbl) | proc | procPost (r : List Lbl) | sleep (r : List Lbl)
  | exc (r : List Lbl)
  | post (r : List (Lbl × PostOp))
  | dead
  deriving DecidableEq, Repr

structure Mon where
  ph : MPh
  iter : List Job := []
  cur : Job := 0
  idx : Nat := 0
  deriving DecidableEq, Repr

inductive UPh where
  | unstarted
  | pre (r : List Lbl) | outer | fc | inner | pop | mid (r : List Lbl) | promote | post (r : List Lbl)
  | sleep (r : List Lbl)
  | dead
  deriving DecidableEq, Repr

structure Sub where
  ph : UPh
  cur : Job := 0
  deriving DecidableEq, Repr

structure State where
  flag : Bool := false              -- is_running
  pending : List Job := []          -- jobs the monitor polls (pending map; Glue: running_glue_jobs)
  queue : List Job := []            -- arrayer.pending / Glue pending_glue_jobs
  arrAlive : Bool := false          -- coarse arrayer thread
  reported : List Job := []         -- done_job / reject_job(job, ..) calls, in order
  crashes : Nat := 0                -- reject_job(None, error) calls from a monitor
  submitted : List Job := []        -- ghost: jobs recorded by `_submit` so far
  hit : Bool := false               -- ghost: some job was recorded while a monitor was leaving
  sph : SPh
  cur : Job := 0
  todo : List Job := []
  old : List Mon := []              -- monitor threads created before the current one, in creation order
  mon : Option Mon := none          -- the thread `self._thread` (Glue: `self._monitor_thread`) refers to
  oldSubs : List Sub := []          -- Glue: earlier submission threads
  sub : Option Sub := none          -- Glue: `self._submit_thread`
  armed : Bool := false             -- environment: the next status processing hits one transient cloud error (throttling)
  faulted : Bool := false           -- ghost: such an error has been injected at some point
  dropped : List Job := []          -- ghost: jobs removed from the pending map by a processing step that then failed
  pre : List Job := []              -- environment: jobs for which the cloud listed an in-flight job of an earlier execution
                                    -- (`preexisting_batch_jobs`, filled by the first submission)
  gone : List Job := []             -- environment: listed cloud jobs the API no longer knows (describe returns nothing)
  deriving Repr

/-- all monitor / submission threads in creation order (thread `M k` / `U k` is element `k`) -/
def State.mons (s : State) : List Mon := s.old ++ s.mon.toList
def State.subs (s : State) : List Sub := s.oldSubs ++ s.sub.toList

def init (jobs : List Job) : State :=
  match jobs with
  | [] => { sph := .done }
  | j :: r => { sph := .ins, cur := j, todo := r }

/-! ### helpers -/
def monAlive (m : Mon) : Bool := m.ph != .unstarted && m.ph != .dead
def subAlive (u : Sub) : Bool := u.ph != .unstarted && u.ph != .dead

def lastMonAlive (s : State) : Bool :=
  match s.mon with
  | some m => monAlive m
  | none => false

def lastSubAlive (s : State) : Bool :=
  match s.sub with
  | some u => subAlive u
  | none => false

/-- the monitor has decided to leave its loop and a later `_start` may still take it for running -/
def exiting (V : Variant) (m : Mon) : Bool :=
  match m.ph with
  | .post r => V.testThread || V.glue || r.any (fun x => x.2 == .clearFlag)
  | .exc _ => true
  | _ => false

def sNops (r : List Lbl) (k : List Lbl → SPh) (next : SPh) : SPh :=
  match r with
  | [] => next
  | _ :: _ => k r

def mNops (r : List Lbl) (k : List Lbl → MPh) (next : MPh) : MPh :=
  match r with
  | [] => next
  | _ :: _ => k r

def mPost (r : List (Lbl × PostOp)) : MPh :=
  match r with
  | [] => .dead
  | _ :: _ => .post r

def uNops (r : List Lbl) (k : List Lbl → UPh) (next : UPh) : UPh :=
  match r with
  | [] => next
  | _ :: _ => k r

/-- end of the current `_submit` call -/
def finishS (s : State) : State :=
  match s.todo with
  | [] => { s with sph := .done }
  | j :: r => { s with sph := .ins, cur := j, todo := r }

/-! ### the scheduler thread -/
def stepS (V : Variant) (s : State) : Option State :=
  match s.sph with
  | .ins =>
    let s := { s with submitted := s.submitted ++ [s.cur], hit := s.hit || s.mons.any (exiting V), sph := .call }
    if V.reunite && s.pre.contains s.cur && !s.gone.contains s.cur then
      -- the old cloud job still exists (whatever its status): the job is monitored under the old id
      some { s with pending := s.pending ++ [s.cur], pre := s.pre.erase s.cur }
    else
    let s := { s with pre := s.pre.erase s.cur }
    if V.glue then some { s with queue := s.queue ++ [s.cur] }
    else if V.arr then some { s with queue := s.queue ++ [s.cur], arrAlive := true }
    else some { s with pending := s.pending ++ [s.cur] }
  | .call => some { s with sph := sNops V.sPre .pre .test }
  | .pre r => some { s with sph := sNops r.tail .pre .test }
  | .test =>
    let guard := if V.testThread then !lastMonAlive s else !s.flag
    if guard then some { s with sph := sNops V.sSetPre .setPre .set }
    else if V.glue then some { s with sph := .testMon }
    else match V.retLine with
      | some _ => some { s with sph := .ret }
      | none => some (finishS s)
  | .ret => some (finishS s)
  | .setPre r => some { s with sph := sNops r.tail .setPre .set }
  | .set =>
    if V.glue then some { s with flag := true, sph := .testMon }
    else some { s with flag := true, sph := sNops V.sNewPre .newPre .new }
  | .testMon => if lastMonAlive s then some { s with sph := .testSub } else some { s with sph := .new }
  | .newPre r => some { s with sph := sNops r.tail .newPre .new }
  | .new => some { s with old := s.old ++ s.mon.toList, mon := some { ph := .unstarted }, sph := .start }
  | .start =>
    -- Thread.start() of the thread object created by the line before (a started thread cannot be started again)
    let s := { s with mon := s.mon.map (fun m => if m.ph = .unstarted then { m with ph := mNops V.mPre .pre .loop } else m) }
    if V.glue then some { s with sph := .testSub } else some (finishS s)
  | .testSub => if lastSubAlive s then some (finishS s) else some { s with sph := .newSub }
  | .newSub => some { s with oldSubs := s.oldSubs ++ s.sub.toList, sub := some { ph := .unstarted }, sph := .startSub }
  | .startSub =>
    some (finishS { s with sub := s.sub.map (fun u => if u.ph = .unstarted then { u with ph := uNops V.uPre .pre .outer } else u) })
  | .done => none

/-! ### a monitor thread -/
def stepMon (V : Variant) (s : State) (isLast : Bool) (m : Mon) : Option (State × Mon) :=
  match m.ph with
  | .unstarted => none
  | .dead => none
  | .pre r => some (s, { m with ph := mNops r.tail .pre .loop })
  | .loop =>
    if s.flag && (!s.pending.isEmpty || !s.queue.isEmpty) then
      some (s, { m with ph := mNops V.mBodyPre .bodyPre .snap })
    else some (s, { m with ph := mPost V.post })
  | .bodyPre r => some (s, { m with ph := mNops r.tail .bodyPre .snap })
  | .snap => some (s, { m with iter := s.pending, idx := 0, ph := mNops V.mSnapPost .snapPost .forHead })
  | .snapPost r => some (s, { m with ph := mNops r.tail .snapPost .forHead })
  | .forHead =>
    match m.iter with
    | [] => some (s, { m with ph := mNops V.mSleep .sleep .loop })
    | j :: r => some (s, { m with cur := j, iter := r, ph := mNops V.mProcPre .procPre .proc })
  | .procPre r => some (s, { m with ph := mNops r.tail .procPre .proc })
  | .proc =>
    if s.armed then
      -- a cloud call inside `_process_job_status` raises (throttling): nothing is reported, the exception leaves the for
      -- loop and reaches `except Exception` of `_monitor`; the job has already been popped where the pop comes first
      let s1 := if V.popFirst && s.pending.contains m.cur then
          { s with pending := s.pending.erase m.cur, dropped := s.dropped ++ [m.cur] } else s
      some ({ s1 with armed := false }, { m with ph := mNops V.mExc .exc (mPost V.post) })
    else if s.pending.contains m.cur then
      some ({ s with pending := s.pending.erase m.cur, reported := s.reported ++ [m.cur] },
            { m with idx := m.idx + 1,
                     ph := mNops (if m.idx % 100 == 0 then V.mProcPostFirst else V.mProcPost) .procPost .forHead })
    else some (s, { m with ph := mNops V.mExc .exc (mPost V.post) })     -- KeyError / AssertionError
  | .procPost r => some (s, { m with ph := mNops r.tail .procPost .forHead })
  | .sleep r => some (s, { m with ph := mNops r.tail .sleep .loop })
  | .exc r =>
    match r.tail with
    | [] => some ({ s with crashes := s.crashes + 1 }, { m with ph := mPost V.post })   -- reject_job(None, error)
    | r' => some (s, { m with ph := .exc r' })
  | .post r =>
    match r with
    | [] => none
    | (_, op) :: r' =>
      match op with
      | .nop => some (s, { m with ph := mPost r' })
      | .clearFlag => some ({ s with flag := false }, { m with ph := mPost r' })
      | .arrStop => some ({ s with arrAlive := false }, { m with ph := mPost r' })
      | .tSet => some (s, { m with ph := mPost r' })
      | .tAlive => if lastMonAlive s then some (s, { m with ph := mPost r' }) else some (s, { m with ph := .dead })
      | .tNotMe => if !isLast then some (s, { m with ph := mPost r' }) else some (s, { m with ph := .dead })
      | .join => if lastMonAlive s then none else some (s, { m with ph := mPost r' })

def stepM (V : Variant) (s : State) (k : Nat) : Option State :=
  match s.old[k]? with
  | some m =>
    match stepMon V s false m with
    | none => none
    | some (s', m') => some { s' with old := s'.old.set k m' }
  | none =>
    if k = s.old.length then
      match s.mon with
      | none => none
      | some m =>
        match stepMon V s true m with
        | none => none
        | some (s', m') => some { s' with mon := some m' }
    else none

/-! ### a Glue submission thread -/
def stepSub (V : Variant) (s : State) (u : Sub) : Option (State × Sub) :=
  match u.ph with
  | .unstarted => none
  | .dead => none
  | .pre r => some (s, { u with ph := uNops r.tail .pre .outer })
  | .outer => if s.flag && !s.queue.isEmpty then some (s, { u with ph := .fc }) else some (s, { u with ph := .dead })
  | .fc => some (s, { u with ph := .inner })
  | .inner => if !s.queue.isEmpty then some (s, { u with ph := .pop }) else some (s, { u with ph := uNops V.uSleep .sleep .outer })
  | .pop =>
    match s.queue with
    | [] => none
    | j :: r => some ({ s with queue := r }, { u with cur := j, ph := uNops V.uMid .mid .promote })
  | .mid r => some (s, { u with ph := uNops r.tail .mid .promote })
  | .promote => some ({ s with pending := s.pending ++ [u.cur] }, { u with ph := uNops V.uPost .post .inner })
  | .post r => some (s, { u with ph := uNops r.tail .post .inner })
  | .sleep r => some (s, { u with ph := uNops r.tail .sleep .outer })

def stepU (V : Variant) (s : State) (k : Nat) : Option State :=
  match s.oldSubs[k]? with
  | some u =>
    match stepSub V s u with
    | none => none
    | some (s', u') => some { s' with oldSubs := s'.oldSubs.set k u' }
  | none =>
    if k = s.oldSubs.length then
      match s.sub with
      | none => none
      | some u =>
        match stepSub V s u with
        | none => none
        | some (s', u') => some { s' with sub := some u' }
    else none

/-- one poll of the (coarse) arrayer thread: the queued group is handed to the executor, at most
`max_array_size` jobs of it (`submit_pending_jobs` re-queues the remainder under its old timestamp);
`arrayer.num_pending` is the length of the queue before and after the step -/
def stepA (V : Variant) (s : State) : Option State :=
  let n := if V.arrMax = 0 then s.queue.length else V.arrMax
  if s.arrAlive then some { s with pending := s.pending ++ s.queue.take n, queue := s.queue.drop n } else none

inductive Ev where
  | S
  | M (k : Nat)
  | U (k : Nat)
  | A
  | F                      -- environment: arm one transient cloud error
  | L (j : Job)            -- environment: the listing taken by the first submission contains an in-flight cloud job for j
  | O (j : Job) (gone : Bool)   -- environment: that cloud job changes state; `gone` = the API no longer describes it
  deriving DecidableEq, Repr

def step (V : Variant) (s : State) : Ev → Option State
  | .S => stepS V s
  | .M k => stepM V s k
  | .U k => stepU V s k
  | .A => stepA V s
  | .F => if s.armed then none else some { s with armed := true, faulted := true }
  | .L j => if s.submitted.isEmpty then some { s with pre := s.pre ++ [j] } else none
  | .O j g => some { s with gone := if g then j :: s.gone else s.gone.filter (fun x => x != j) }

def run (V : Variant) : State → List Ev → State
  | s, [] => s
  | s, e :: es => match step V s e with
    | some s' => run V s' es
    | none => run V s es

inductive Reachable (V : Variant) (jobs : List Job) : State → Prop where
  | init : Reachable V jobs (init jobs)
  | step {s s' : State} (e : Ev) : Reachable V jobs s → step V s e = some s' → Reachable V jobs s'

/-! ### labels (for the line-by-line tie) -/
def labelS (V : Variant) (s : State) : Option Lbl :=
  match s.sph with
  | .ins => (if V.reunite && s.pre.contains s.cur && !s.gone.contains s.cur then some V.lReunite else some V.lIns) | .call => some V.lCall | .pre r => r.head? | .test => some V.lTest
  | .ret => V.retLine | .setPre r => r.head? | .set => some V.lSet | .testMon => some V.lTestMon
  | .newPre r => r.head? | .new => some V.lNew | .start => some V.lStart | .testSub => some V.lTestSub
  | .newSub => some V.lNewSub | .startSub => some V.lStartSub | .done => none

def labelM (V : Variant) (m : Mon) : Option Lbl :=
  match m.ph with
  | .unstarted | .dead => none
  | .pre r | .bodyPre r | .snapPost r | .procPre r | .procPost r | .sleep r | .exc r => r.head?
  | .loop => some V.lLoop | .snap => some V.lSnap | .forHead => some V.lFor | .proc => some V.lProc
  | .post r => r.head?.map Prod.fst

def labelU (V : Variant) (u : Sub) : Option Lbl :=
  match u.ph with
  | .unstarted | .dead => none
  | .pre r | .mid r | .post r | .sleep r => r.head?
  | .outer => some V.lUOuter | .fc => some V.lUFc | .inner => some V.lUInner | .pop => some V.lUPop
  | .promote => some V.lUPromote

/-! ### observables -/
/-- no thread can take a step any more (an arrayer thread with an empty queue only spins) -/
def quiescent (s : State) : Bool :=
  s.sph == .done && s.mons.all (fun m => !monAlive m) && s.subs.all (fun u => !subAlive u)
    && (!s.arrAlive || s.queue.isEmpty)

/-- jobs that were recorded by the executor and will never be reported -/
def lost (s : State) : List Job := if quiescent s then s.pending ++ s.queue else []

/-! ### the five executors (labels are indices into the harness's table of source lines) -/
def stopJoin (a b c d : Lbl) : List (Lbl × PostOp) := [(a, .tSet), (b, .tAlive), (c, .tNotMe), (d, .join)]

def docker : Variant where
  arr := false
  glue := false
  testThread := false
  retLine := none
  lIns := 1
  lCall := 2
  sPre := [3]
  lTest := 4
  sSetPre := []
  lSet := 5
  sNewPre := []
  lNew := 6
  lStart := 7
  mPre := [10, 11]
  lLoop := 12
  mBodyPre := []
  lSnap := 13
  mSnapPost := []
  lFor := 14
  mProcPre := []
  lProc := 15
  mProcPostFirst := []
  mProcPost := []
  mSleep := [16]
  mExc := [17, 18]
  post := [(19, .nop), (20, .nop), (21, .clearFlag)] ++ stopJoin 22 23 24 25

def awsBatch : Variant where
  arr := true
  glue := false
  testThread := false
  retLine := none
  reunite := true
  lReunite := 36
  lIns := 1
  lCall := 2
  sPre := []
  lTest := 4
  sSetPre := [3]
  lSet := 5
  sNewPre := []
  lNew := 6
  lStart := 7
  mPre := [10, 8, 9, 11]
  lLoop := 12
  mBodyPre := [26, 27]
  lSnap := 13
  mSnapPost := [28, 29, 27]
  lFor := 14
  mProcPre := []
  lProc := 15
  mProcPostFirst := [30, 31]
  mProcPost := [30]
  mSleep := [16]
  mExc := [17, 18]
  post := [(19, .nop), (20, .nop), (32, .nop), (33, .arrStop), (21, .clearFlag)] ++ stopJoin 22 23 24 25

def k8s : Variant where
  arr := true
  glue := false
  testThread := false
  retLine := some 3
  lIns := 1
  lCall := 2
  sPre := []
  lTest := 4
  sSetPre := []
  lSet := 5
  sNewPre := [8, 9]
  lNew := 6
  lStart := 7
  mPre := [10, 11]
  lLoop := 12
  mBodyPre := [26, 27, 28, 26, 29, 30, 31, 30, 28, 29]
  lSnap := 13
  mSnapPost := [32]
  lFor := 14
  mProcPre := []
  lProc := 15
  mProcPostFirst := []
  mProcPost := []
  mSleep := [16]
  mExc := [17, 34, 18]
  post := [(19, .nop), (20, .nop), (33, .arrStop), (21, .clearFlag)]

def gcpBatch : Variant where
  arr := true
  glue := false
  testThread := true
  retLine := none
  lIns := 1
  lCall := 2
  sPre := []
  lTest := 4
  sSetPre := []
  lSet := 5
  sNewPre := []
  lNew := 6
  lStart := 7
  mPre := [10, 8, 11]
  lLoop := 12
  mBodyPre := [26]
  lSnap := 13
  mSnapPost := []
  lFor := 14
  mProcPre := [27, 28]
  lProc := 15
  mProcPostFirst := []
  mProcPost := []
  mSleep := [16]
  mExc := [35, 17, 18]
  post := [(19, .nop), (20, .nop), (21, .clearFlag), (32, .nop), (33, .arrStop)] ++ stopJoin 22 23 24 25

def glue : Variant where
  arr := false
  glue := true
  testThread := false
  retLine := none
  lIns := 1
  lCall := 2
  sPre := []
  lTest := 4
  sSetPre := []
  lSet := 5
  sNewPre := []
  lNew := 6
  lStart := 7
  lTestMon := 8
  lTestSub := 9
  lNewSub := 26
  lStartSub := 27
  mPre := [10, 28, 11]
  lLoop := 12
  mBodyPre := [29]
  lSnap := 13
  mSnapPost := [30, 31, 29]
  lFor := 14
  mProcPre := []
  lProc := 15
  mProcPostFirst := []
  mProcPost := []
  mSleep := [16]
  mExc := [17, 18]
  post := [(20, .nop), (21, .clearFlag)]
  popFirst := false
  uPre := [40, 41]
  lUOuter := 42
  lUFc := 43
  lUInner := 44
  lUPop := 45
  uMid := [46, 47]
  lUPromote := 48
  uPost := [43]
  uSleep := [49]

end RedunModel.Monitor
