/-
Model of redun's result caching across executions that share one backend (C02):
`Scheduler._exec_job_main_thread` / `_get_cache` / `_is_valid_value` / `set_cache` /
`_done_job_main_thread` / `_resolve_job_main_thread` / `_reject_job_main_thread` and `catch`'s private
caching (redun/scheduler.py), `RedunBackendDb.check_cache` (CSE -> ultimate reduction when
`check_valid="shallow"` -> single reduction), `get_eval_cache`, `set_eval_cache`, `_get_call_node`,
`record_call_node` (redun/backends/db/__init__.py), `hash_args_eval` / `hash_eval` (cache key),
`Task._calc_hash` (code version), `TaskExpression.is_valid`, `File.is_valid`.  Core Lean only.

Hashes are symbolic.  A task hash is its pre-image `(name, version)` (`TH`; `Task._calc_hash` hashes the
full name and the source text or the `version=` string: "version" stands for either); the key of the
Evaluation table is `(task hash, argument value)` (`hash_eval`'s pre-image, one positional argument).
A task body is a function of the task *hash* (C17: equal hash, equal code), the argument and the file
system (a body may stat a file: `File(path)` takes size/mtime at construction).  What a body returns is an
expression over task *names* (a `TaskExpression` stores `task_name`, resolved in the registry when it is
evaluated) - that is why replaying a single reduction under edited code is sound, and why `catch`'s own
cache entry (keyed by the hash of the *expression*) is not.

`Variant` selects between the code as it was found and the repaired code for three defects
(`harness/findings_proposed/C02-*.fix.diff`, `C03-subtree-tasks.fix.diff`); see `Props/C02.lean`.
-/
namespace RedunModel.CacheHist

/-- pre-image of a task hash: `["Task", fullname, "version"|"source", version|source text]` -/
structure TH where
  name : Nat
  ver : Nat
  deriving DecidableEq, Repr, Inhabited

/-- values: ints, `File(path)` with the (size, mtime) stamp it had when constructed, an exception object (what
`catch` hands to the recover task), and primitives of another type that compare equal to an int in Python
(`prim 1 z` = `float(z)`, `prim 2 0` = `-0.0`, `prim 3 z` = `bool(z)`): different values with different value hashes -/
inductive Val where
  | int (z : Int)
  | file (p s : Nat)
  | exc (c : Nat)
  | prim (tag : Nat) (z : Int)
  deriving DecidableEq, Repr, Inhabited

/-- outcome of an evaluation: a value, or an error of class `c` -/
inductive Res where
  | ok (v : Val)
  | err (c : Nat)
  deriving DecidableEq, Repr, Inhabited

/-- lazy expressions: a concrete value, the lazy operator `+` (`SimpleExpression('add')`), a task call by
*name* (`TaskExpression`), `catch(expr, error_class, recover_task)` (`SchedulerExpression`) -/
inductive Expr where
  | lit (v : Val)
  | add (a b : Expr)
  | call (n : Nat) (arg : Expr)
  | catch (e : Expr) (cls : Nat) (rc : TH)
  deriving DecidableEq, Repr, Inhabited

/-- the file system as the cache sees it: path -> (size, mtime) stamp -/
abbrev FS := Nat → Nat

/-- what a task function can observe besides its argument, and what `is_valid` compares cached values with:
the stamp of each file (`File(path)` built in the body) and the registry's current version of each task
(a `Task` object mentioned in the body, e.g. the recover task handed to `catch`, is pickled with its hash) -/
structure World where
  fs : FS
  ver : Nat → Nat
  /-- tasks defined with an explicit `version=`: a pickled `Task` of such a task re-computes its hash from its own
  pickled version string, so `Task.is_valid` cannot see that the registry moved on -/
  pinned : Nat → Bool

/-- what running a task function gives: an expression (the single reduction) or a raised error -/
inductive Out where
  | ret (e : Expr)
  | raise (c : Nat)
  deriving DecidableEq, Repr, Inhabited

/-- the code universe: the body belonging to each task hash (C17) -/
structure Prog where
  body : TH → Val → World → Out

/-- the task registry at one moment: current version of each task name and its `check_valid` option
(a base option: it is not part of the task hash) -/
structure Code where
  ver : Nat → Nat
  shallow : Nat → Bool
  /-- the task is defined with an explicit `version=` (see `World.pinned`) -/
  pinned : Nat → Bool := fun _ => false

def Code.th (c : Code) (n : Nat) : TH := ⟨n, c.ver n⟩

/-- `subtree task hashes <= scheduler_task_hashes`: a task hash contains the task's name and the registry
holds one task per name, so `h` is in the registry iff the registry's version of `h.name` is `h.ver` -/
def Code.current (c : Code) (s : List TH) : Bool := s.all fun h => c.ver h.name == h.ver

structure Variant where
  /-- `SimpleExpression.is_valid` checks its arguments (repaired) / is always true (as found) -/
  simpleExprValid : Bool
  /-- a CSE-served job contributes its call node's recorded subtree tasks (repaired, C03 diff) / only its
  own task (as found) to the parent's `subtree_tasks` -/
  cseSubtreeFromDb : Bool
  /-- `catch` without its private Evaluation entry (no repair of this kind is proposed: it is the reference
  design the stale-recovery finding is measured against) / with it (as found) -/
  noCatchCache : Bool
  deriving DecidableEq, Repr, Inhabited

/-- the code as it is after the proposed repairs (`catch` keeps its private cache) -/
def Variant.repaired : Variant := ⟨true, true, false⟩

/-- `File.is_valid`: the recorded stamp is still the file's stamp -/
def validV (w : World) : Val → Bool
  | .file p s => w.fs p == s
  | _ => true

/-- `_is_valid_value` on a cached single reduction: `TaskExpression.is_valid` checks every `Value` among the
arguments (recursively for nested expressions); `SimpleExpression` inherits `Value.is_valid` = True as found -/
def validE (V : Variant) (w : World) : Expr → Bool
  | .lit v => validV w v
  | .add a b => if V.simpleExprValid then validE V w a && validE V w b else true
  | .call _ a => validE V w a
  | .catch e _ rc => (w.pinned rc.name || w.ver rc.name == rc.ver) && validE V w e   -- `Task.is_valid`

abbrev Key := TH × Val

/-- a `CallNode` row with its `CallSubtreeTask` rows (children are not modelled: C20/C07) -/
structure Node where
  key : Key
  res : Res
  sub : List TH
  deriving DecidableEq, Repr, Inhabited

/-- pre-image of the eval hash `catch` computes for itself: `hash_args_eval(catch, (expr, error_class,
recover))`.  The hash of `expr` (an `Expression`) contains task *names*; the hash of `recover` (a `Task`) is
its task hash. -/
structure CKey where
  e : Expr
  cls : Nat
  rc : TH
  deriving DecidableEq, Repr, Inhabited

structure St where
  /-- table Evaluation: eval hash -> single reduction (newest entry first; an update shadows) -/
  evals : List (Key × Expr) := []
  /-- the Evaluation rows written by `catch` -/
  catches : List (CKey × Expr) := []
  /-- table CallNode + CallSubtreeTask, newest first -/
  nodes : List Node := []
  /-- what the CSE query of `check_cache` can see: jobs of *this* execution that ended with a call hash:
  key, result, and the subtree task set a job served from it passes to its parent -/
  cse : List (Key × Res × List TH) := []
  /-- task functions actually called in this execution, oldest first (observable, not used by the cache) -/
  log : List Key := []
  /-- scheduling fact of the running execution: the failed jobs whose rejection the event loop still processed
  (`_reject_job_main_thread` records the error CallNode; the loop stops as soon as the root promise is rejected,
  so which of several queued rejections are processed depends on their order in the queue) -/
  errRec : List Key := []
  deriving DecidableEq, Repr, Inhabited

def lookup {α β : Type} [DecidableEq α] (k : α) : List (α × β) → Option β
  | [] => none
  | (k', v) :: r => if k' = k then some v else lookup k r

/-- `record_call_node`: nothing happens when the call hash exists (the old row keeps its timestamp) -/
def addNode (st : St) (nd : Node) : St :=
  if nd ∈ st.nodes then st else { st with nodes := nd :: st.nodes }

/-- `_get_call_node`: newest CallNode of this task hash and args hash whose subtree tasks are all current -/
def findNode (c : Code) (k : Key) (nodes : List Node) : Option Node :=
  nodes.find? fun nd => decide (nd.key = k) && c.current nd.sub

def insertTH (h : TH) (l : List TH) : List TH := if h ∈ l then l else h :: l
def unionTH (a b : List TH) : List TH := a.foldr insertTH b

def typeErr : Nat := 99

/-- Python `+` on two evaluated operands (the generator only builds int + int) -/
def addV : Val → Val → Res
  | .int x, .int y => .ok (.int (x + y))
  | _, _ => .err typeErr

abbrev R := Option (St × Res × List TH)

/-- is the CallNode of a job that ended with `r` recorded?  (always for a result; for an error see `St.errRec`) -/
def recorded (st : St) (k : Key) : Res → Bool
  | .ok _ => true
  | .err _ => decide (k ∈ st.errRec)

/-- what a CSE hit on this job's call node will pass on as subtree tasks -/
def cseSub (V : Variant) (h : TH) (sub : List TH) : List TH := if V.cseSubtreeFromDb then sub else [h]

/-- end of a job whose (cached or fresh) single reduction has been evaluated to `r` with children's subtree
tasks `ue`: `_resolve_job_main_thread` / `_reject_job_main_thread` -/
def finishJob (V : Variant) (st : St) (k : Key) (r : Res) (ue : List TH) : St × Res × List TH :=
  let sub := insertTH k.1 ue
  let st1 := if recorded st k r then addNode st ⟨k, r, sub⟩ else st
  ({ st1 with cse := (k, r, cseSub V k.1 sub) :: st1.cse }, r, sub)

/-- cache miss: submit the job; the task function runs (`done_job` -> `set_cache`, or `reject_job`) -/
def runBody (V : Variant) (P : Prog) (w : World) (ev : St → Expr → R) (st : St) (k : Key) : R :=
  let st0 := { st with log := st.log ++ [k] }
  match P.body k.1 k.2 w with
  | .raise cl => some (finishJob V st0 k (.err cl) [])
  | .ret e =>
    match ev { st0 with evals := (k, e) :: st0.evals } e with
    | none => none
    | some (st2, r, ue) => some (finishJob V st2 k r ue)

/-- one job: `_exec_job_main_thread` from the cache lookup on, for the call of task `nm` on value `va` -/
def jobStep (V : Variant) (P : Prog) (c : Code) (w : World) (ev : St → Expr → R) (st : St) (nm : Nat)
    (va : Val) : R :=
  let h := c.th nm
  let k : Key := (h, va)
  match lookup k st.cse with
  | some (r, sub) =>
    -- CSE hit: the result (or error) is final.  A rejected cached job records an error node of its own.
    match r with
    | .ok _ => some (st, r, sub)
    | .err _ => some (if recorded st k r then addNode st ⟨k, r, [h]⟩ else st, r, sub)
  | none =>
    match (if c.shallow nm then findNode c k st.nodes else none) with
    | some nd =>
      -- ultimate reduction: errors and invalid values are not used, and the single reduction is not tried
      match nd.res with
      | .ok v =>
        if validV w v then some ({ st with cse := (k, .ok v, nd.sub) :: st.cse }, .ok v, nd.sub)
        else runBody V P w ev st k
      | .err _ => runBody V P w ev st k
    | none =>
      match lookup k st.evals with
      | some e =>
        if validE V w e then
          match ev st e with
          | none => none
          | some (st2, r, ue) => some (finishJob V st2 k r ue)
        else runBody V P w ev st k
      | none => runBody V P w ev st k

/-- The evaluator (`Scheduler.evaluate` under one parent job), sequential, left to right, aborting at the
first error as the execution does.  Returns the new backend state, the outcome and the subtree task hashes
of the jobs that ended under this expression.  `none` = out of fuel. -/
def eval (V : Variant) (P : Prog) (c : Code) (w : World) : Nat → St → Expr → R
  | 0, _, _ => none
  | _ + 1, st, .lit v => some (st, .ok v, [])
  | n + 1, st, .add a b =>
    match eval V P c w n st a with
    | none => none
    | some (st1, .err x, u1) => some (st1, .err x, u1)
    | some (st1, .ok va, u1) =>
      match eval V P c w n st1 b with
      | none => none
      | some (st2, .err x, u2) => some (st2, .err x, unionTH u1 u2)
      | some (st2, .ok vb, u2) => some (st2, addV va vb, unionTH u1 u2)
  | n + 1, st, .call nm a =>
    match eval V P c w n st a with
    | none => none
    | some (st1, .err x, u1) => some (st1, .err x, u1)
    | some (st1, .ok va, u1) =>
      match jobStep V P c w (eval V P c w n) st1 nm va with
      | none => none
      | some (st2, r, u2) => some (st2, r, unionTH u1 u2)
  | n + 1, st, .catch e cls rc =>
    let ck : CKey := ⟨e, cls, rc⟩
    let recover (st1 : St) (u1 : List TH) : R :=
      -- promise_catch: recover_expr = recover(error); cached under catch's key once it succeeded (on_recover)
      let re := Expr.call rc.name (.lit (.exc cls))
      match eval V P c w n st1 re with
      | none => none
      | some (st2, .ok v, u2) => some ({ st2 with catches := (ck, re) :: st2.catches }, .ok v, unionTH u1 u2)
      | some (st2, .err x, u2) => some (st2, .err x, unionTH u1 u2)
    match (if V.noCatchCache then none else lookup ck st.catches) with
    | some ce =>
      -- cached expression (`expr` or `recover_expr`): evaluated without a validity check, `.catch(promise_catch)`
      match eval V P c w n st ce with
      | none => none
      | some (st1, .ok v, u1) => some (st1, .ok v, u1)
      | some (st1, .err x, u1) => if x = cls then recover st1 u1 else some (st1, .err x, u1)
    | none =>
      match eval V P c w n st e with
      | none => none
      | some (st1, .ok v, u1) => some ({ st1 with catches := (ck, e) :: st1.catches }, .ok v, u1)   -- on_success
      | some (st1, .err x, u1) => if x = cls then recover st1 u1 else some (st1, .err x, u1)

/-! ### Histories -/

/-- one execution: the registry and file system it runs under (i.e. after the edits made since the
previous execution), the root expression (argument changes) and the fuel -/
structure RunIn where
  code : Code
  fs : FS
  root : Expr
  fuel : Nat
  /-- see `St.errRec` -/
  errRec : List Key := []

/-- a new `Scheduler.run`: new execution id (nothing of earlier executions is visible to the CSE query) -/
def St.newExec (st : St) (errRec : List Key := []) : St := { st with cse := [], log := [], errRec := errRec }

def RunIn.world (ri : RunIn) : World := ⟨ri.fs, ri.code.ver, ri.code.pinned⟩

def runOne (V : Variant) (P : Prog) (st : St) (ri : RunIn) : R :=
  eval V P ri.code ri.world ri.fuel (st.newExec ri.errRec) ri.root

/-- the same execution against an empty backend (the property's oracle) -/
def fresh (V : Variant) (P : Prog) (ri : RunIn) (fuel : Nat) : Option Res :=
  (eval V P ri.code ri.world fuel {} ri.root).map fun x => x.2.1

/-- run a history on one backend; collects each execution's outcome -/
def runHist (V : Variant) (P : Prog) : St → List RunIn → Option (St × List Res)
  | st, [] => some (st, [])
  | st, ri :: rest =>
    match runOne V P st ri with
    | none => none
    | some (st1, r, _) =>
      match runHist V P st1 rest with
      | none => none
      | some (st2, rs) => some (st2, r :: rs)

/-! ### Task bodies given by templates (what the driver and the generated workflows use) -/

inductive Tm where
  | arg                       -- the task's argument, passed on as it is
  | numarg                    -- its number: the int itself / the content of the file (a function of the stamp)
  | kindarg                   -- what kind of value it is (type and sign): 0 for an int, the tag of a `prim`
  | lit (z : Int)
  | file (p : Nat)            -- `File(PATH[p])` constructed in the body: stats the file now
  | add (a b : Tm)
  | call (n : Nat) (t : Tm)
  | catch (t : Tm) (cls : Nat) (rc : Nat)
  deriving DecidableEq, Repr, Inhabited

def num : Val → Int
  | .int z => z
  | .file _ s => s
  | .exc c => c
  | .prim _ z => z

def kindOf : Val → Int
  | .int _ => 0
  | .prim t _ => t
  | .exc _ => 8
  | .file _ _ => 9

/-- Python builds the returned expression: `+` on two concrete ints is computed at once, anything involving
an Expression stays lazy -/
def inst (a : Val) (w : World) : Tm → Expr
  | .arg => .lit a
  | .numarg => .lit (.int (num a))
  | .kindarg => .lit (.int (kindOf a))
  | .lit z => .lit (.int z)
  | .file p => .lit (.file p (w.fs p))
  | .add s t =>
    match inst a w s, inst a w t with
    | .lit (.int x), .lit (.int y) => .lit (.int (x + y))
    | es, et => .add es et
  | .call n t => .call n (inst a w t)
  | .catch t cls rc => .catch (inst a w t) cls ⟨rc, w.ver rc⟩

inductive Spec where
  | ret (t : Tm)
  | raise (c : Nat)
  deriving DecidableEq, Repr, Inhabited

/-- program given by a finite table task hash -> body template (a missing entry raises class 98) -/
def tableProg (tbl : List (TH × Spec)) : Prog where
  body h a w :=
    match lookup h tbl with
    | some (.ret t) => .ret (inst a w t)
    | some (.raise c) => .raise c
    | none => .raise 98

end RedunModel.CacheHist
