/-
Line-protocol rendering and parsing of symbolic pre-images (used by the C15/C17/C18 drivers only;
nothing is proved about it).
  str s  ↦ s<hex utf-8>     val n ↦ v<n>      opts d ↦ (O (s<k> i<n>)*)
  hash p ↦ (H p)            list  ↦ (L p*)    dict   ↦ (D (s<k> p)*)
-/
import RedunModel.Proto
import RedunModel.Model.Pre
namespace RedunModel.Pre
open RedunModel

mutual
  partial def Pre.toSexp : Pre → Sexp
    | .str s => .atom (atomOfStr s)
    | .val n => .atom ("v" ++ toString n)
    | .opts d => .list (.atom "O" :: d.map (fun kv => .list [.atom (atomOfStr kv.1), .atom (atomOfInt kv.2)]))
    | .hash p => .list [.atom "H", p.toSexp]
    | .list l => .list (.atom "L" :: l.map Pre.toSexp)
    | .dict d => .list (.atom "D" :: d.map (fun kv => .list [.atom (atomOfStr kv.1), kv.2.toSexp]))
end

def Pre.render (p : Pre) : String := (Pre.toSexp p).render

def optsOfSexp : List Sexp → Option (List (String × Nat))
  | [] => some []
  | .list [.atom k, .atom n] :: t => do
    let k' ← strOfAtom k
    let n' ← natOfAtom n
    let t' ← optsOfSexp t
    pure ((k', n') :: t')
  | _ => none

partial def Pre.ofSexp : Sexp → Option Pre
  | .atom a =>
    match a.toList with
    | 's' :: _ => (strOfAtom a).map .str
    | 'v' :: r => (String.ofList r).toNat?.map .val
    | _ => none
  | .list (.atom "O" :: d) => (optsOfSexp d).map .opts
  | .list [.atom "H", p] => (Pre.ofSexp p).map .hash
  | .list (.atom "L" :: l) => (l.mapM Pre.ofSexp).map .list
  | .list (.atom "D" :: d) =>
    (d.mapM (fun (kv : Sexp) => match kv with
      | Sexp.list [Sexp.atom k, v] => do
        let k' ← strOfAtom k
        let v' ← Pre.ofSexp v
        pure (k', v')
      | _ => (none : Option (String × Pre)))).map .dict
  | _ => none

end RedunModel.Pre
