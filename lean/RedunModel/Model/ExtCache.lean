/-
C04 — a cached task result that contains external values, and the validity branch of `Scheduler._get_cache`.

Mirrors (read from /repo):
* scheduler.py `_get_cache`: backend hit (single reduction / ultimate reduction) → `_is_valid_value(result)`
  → replay, else log "Cached result is no longer valid" and treat as a miss; a miss executes the task and
  `set_eval_cache` overwrites the entry; a failing task caches nothing (errors are never replayed).
* value.py `TypeRegistry.is_valid_nested = all(map(is_valid, iter_nested_value(v)))`; plain leaves are
  `ProxyValue`s whose `is_valid` is True.
* file.py `is_valid` of each class on an unpickled value (`_hash` = recorded hash): `FileSys.validRec`.
* a result is recorded by pickling: `__getstate__` takes `self.hash`, i.e. the hash is computed (if it was not
  yet) after the task body returned: `record` hashes the returned values in the filesystem the body left behind.

* `check_valid="shallow"` (ultimate reduction, backends/db `_get_call_node` + `record_call_node`): the lookup takes the
  CallNode with the newest *creation* timestamp for (task, args); `record_call_node` inserts nothing (and refreshes no
  timestamp) when a node with the same call hash — i.e. for a leaf task: the same result value — already exists.
  `nodes` is that table, newest first.  A found-but-invalid node is a miss (no fall-back to the Evaluation row).

The task body is a parameter (`Body`): any function from the filesystem to an error or a new filesystem and
the list of returned leaves (`none` = a plain, non-external leaf).  The driver instantiates it with
"write these files at clock t, return these values".
One cache entry = the Evaluation row of one (task, arguments) key.
-/
import RedunModel.Model.FileSys
namespace RedunModel.ExtCache
open RedunModel.FileSys

inductive Leaf
  | ext (v : Val) (h : H)
  | plain
  deriving DecidableEq, Repr

abbrev Body (ε : Type) := FS → Except ε (FS × List (Option Val))

structure St where
  fs : FS
  /-- the Evaluation row (single reduction) of the (task, args) key -/
  cache : Option (List Leaf)
  /-- the CallNode rows of the (task, args) key, newest creation first (a node is identified by its result) -/
  nodes : List (List Leaf)
  execs : Nat

inductive Outcome (ε : Type)
  | replay (ls : List Leaf)
  | exec (ls : List Leaf)
  | failed (e : ε)

def Outcome.isReplay {ε : Type} : Outcome ε → Bool
  | .replay _ => true
  | _ => false

/-- the result handed back to the caller (none when the task failed) -/
def Outcome.leaves {ε : Type} : Outcome ε → Option (List Leaf)
  | .replay ls => some ls
  | .exec ls => some ls
  | .failed _ => none

def leafValid (U : List Path) (fs : FS) : Leaf → Bool
  | .ext v h => validRec U fs v h
  | .plain => true

/-- `is_valid_nested` -/
def allValid (U : List Path) (fs : FS) (ls : List Leaf) : Bool := ls.all (leafValid U fs)

/-- what gets pickled for the returned values: each external value with its hash in the filesystem `fs` -/
def record (U : List Path) (fs : FS) (outs : List (Option Val)) : List Leaf :=
  outs.map fun
    | some v => .ext v (calcHash U fs v)
    | none => .plain

def execute {ε : Type} (U : List Path) (body : Body ε) (s : St) : St × Outcome ε :=
  match body s.fs with
  | .error e => ({ s with execs := s.execs + 1 }, .failed e)
  | .ok (fs', outs) =>
    let ls := record U fs' outs
    ({ fs := fs', cache := some ls, nodes := if ls ∈ s.nodes then s.nodes else ls :: s.nodes, execs := s.execs + 1 },
      .exec ls)

/-- what `check_cache` finds: the Evaluation row, or (shallow) the newest CallNode, falling back to the Evaluation
row only when there is no CallNode at all -/
def cached (shallow : Bool) (s : St) : Option (List Leaf) :=
  if shallow then
    match s.nodes with
    | n :: _ => some n
    | [] => s.cache
  else s.cache

/-- one `scheduler.run(task(args))` against the same backend -/
def run {ε : Type} (U : List Path) (shallow : Bool) (body : Body ε) (s : St) : St × Outcome ε :=
  match cached shallow s with
  | some ls => if allValid U s.fs ls then (s, .replay ls) else execute U body s
  | none => execute U body s

/-- the concrete body used by the correspondence: write `writes` (all at mtime `t`), return `outs` -/
def writeAll (fs : FS) (t : Int) : List (Path × Bytes) → FS
  | [] => fs
  | (p, b) :: ws => writeAll (fs.write p b t) t ws

def writerBody (writes : List (Path × Bytes)) (outs : List (Option Val)) (t : Int) : Body Empty :=
  fun fs => .ok (writeAll fs t writes, outs)

/-- external mutations used by histories (not through redun) -/
def FS.utimeIfExists (fs : FS) (p : Path) (t : Int) : FS :=
  match fs p with
  | some n => fs.set p (some ⟨n.bytes, t⟩)
  | none => fs
def FS.truncIfExists (fs : FS) (p : Path) (t : Int) : FS :=
  match fs p with
  | some _ => fs.set p (some ⟨[], t⟩)
  | none => fs

/-- histories: external mutations of the filesystem interleaved with runs (any bodies) -/
inductive HOp (ε : Type)
  | mutate (f : FS → FS)
  | run (shallow : Bool) (body : Body ε)

def hstep {ε : Type} (U : List Path) (s : St) : HOp ε → St
  | .mutate f => { s with fs := f s.fs }
  | .run sh b => (run U sh b s).1

def hrun {ε : Type} (U : List Path) (s : St) (ops : List (HOp ε)) : St := ops.foldl (hstep U) s

/-! ### a downstream task consuming the result (`consume(make())`)

The consumer's cache key is the hash of its argument, i.e. of the nested value returned upstream: a function of
the recorded leaf hashes.  The consumer observes the filesystem through the values it was given
(`observe`: size of a File / ContentFile, number of member files of a Dir / FileSet; nothing for immutable and
staging values, which by contract never change). -/

def observe (U : List Path) (fs : FS) : Val → Int
  | .file .imm _ => 0
  | .file _ p => match fs p with
    | some n => n.bytes.length
    | none => -1
  | .fset .imm _ _ => 0
  | .fset _ d r => (members U fs (sel d r)).length
  | .dir .imm _ => 0
  | .dir _ p => (members U fs (under p)).length
  | .staging .. => 0

def observeLeaf (U : List Path) (fs : FS) : Leaf → Int
  | .ext v _ => observe U fs v
  | .plain => 0

def lookupL (k : List Leaf) : List (List Leaf × List Int) → Option (List Int)
  | [] => none
  | (a, b) :: t => if a = k then some b else lookupL k t

structure CSt where
  base : St
  /-- the consumer's Evaluation rows: argument (recorded leaves) ↦ result -/
  ccache : List (List Leaf × List Int)
  cexecs : Nat

/-- one `scheduler.run(consume(make()))`: upstream outcome, then `some (executed?, answer)` of the consumer -/
def runChain {ε : Type} (U : List Path) (shallow : Bool) (body : Body ε) (c : CSt) : CSt × Outcome ε × Option (Bool × List Int) :=
  let r := run U shallow body c.base
  match r.2.leaves with
  | none => ({ c with base := r.1 }, r.2, none)
  | some ls =>
    match lookupL ls c.ccache with
    | some sm => ({ c with base := r.1 }, r.2, some (false, sm))
    | none =>
      let sm := ls.map (observeLeaf U r.1.fs)
      ({ base := r.1, ccache := (ls, sm) :: c.ccache, cexecs := c.cexecs + 1 }, r.2, some (true, sm))

end RedunModel.ExtCache
