/-
`map_nested_value` (redun/utils.py) at the level of Python operations that can raise.

`Nested.mapNV` is the structural map.  The real function rebuilds a dataclass instance in three steps
(constructor call with the `init` fields, attribute assignment for the non-`init` fields, copy of extra
`__dict__` entries); the attribute primitives can raise.  `mapWith p` is the function written over a
choice `p` of those primitives:

* `primsNew` — the code as repaired (`object.__setattr__`, `__dict__` copy guarded by `hasattr`),
* `primsOld` — the code before the repair (`setattr`, unguarded `value.__dict__`).

Sub-results are computed for every child and then *sequenced* in the order in which Python evaluates
them, so the first error in evaluation order is the one that is raised.
Core Lean only.
-/
import RedunModel.Model.Nested
namespace RedunModel.NestedMap
open RedunModel.Nested RedunModel.Nested.NV

inductive PyErr where
  | frozenInstanceError     -- dataclasses.FrozenInstanceError
  | attributeError          -- AttributeError: no `__dict__`
  deriving DecidableEq, Repr, Inhabited

/-- `setattr(obj, name, v)` on a dataclass instance: a frozen dataclass's `__setattr__` raises. -/
def pySetattr (c : DClass) : Except PyErr Unit :=
  if c.frozen then .error .frozenInstanceError else .ok ()

/-- `object.__setattr__(obj, name, v)`: bypasses the frozen check (what dataclasses' own `__init__` uses). -/
def pyObjectSetattr (_ : DClass) : Except PyErr Unit := .ok ()

/-- Evaluating `obj.__dict__`: raises for a `slots=True` dataclass. -/
def pyGetDict (c : DClass) : Except PyErr Unit :=
  if c.hasDict then .ok () else .error .attributeError

/-- The two places of the dataclass branch that can raise. -/
structure Prims where
  /-- executed once after mapping each non-`init` field -/
  setNonInit : DClass → Except PyErr Unit
  /-- the `__dict__` copy loop -/
  copyDict : DClass → Except PyErr Unit

/-- before the repair -/
def primsOld : Prims := ⟨pySetattr, pyGetDict⟩
/-- the repaired code: `object.__setattr__`; `if hasattr(value, "__dict__"): …` -/
def primsNew : Prims := ⟨pyObjectSetattr, fun c => if c.hasDict then pyGetDict c else .ok ()⟩

/-- Evaluate a list of computations left to right; the first error wins. -/
def seqAll {ε γ : Type} : List (Except ε γ) → Except ε (List γ)
  | [] => .ok []
  | r :: rs =>
    match r with
    | .error e => .error e
    | .ok y => match seqAll rs with
      | .error e => .error e
      | .ok ys => .ok (y :: ys)

/-- run `act` after a successful `r` (the `setattr` after mapping a non-init field) -/
def andThen {ε γ : Type} (act : Except ε Unit) (r : Except ε γ) : Except ε γ :=
  match r with
  | .error e => .error e
  | .ok y => match act with
    | .error e => .error e
    | .ok () => .ok y

variable {α β : Type}

mutual
  def mapWith (p : Prims) (f : α → β) : NV α → Except PyErr (NV β)
    | .leaf a => .ok (.leaf (f a))
    | .list xs => (seqAll (mapWithEach p f xs)).map .list
    | .tuple xs => (seqAll (mapWithEach p f xs)).map .tuple
    | .ntuple c xs => (seqAll (mapWithEach p f xs)).map (.ntuple c)
    | .set xs => (seqAll (mapWithEach p f xs)).map .set
    | .dict ks vs =>
      -- evaluation order key₁ value₁ key₂ value₂ …
      match seqAll (interleave (mapWithEach p f ks) (mapWithEach p f vs)) with
      | .error e => .error e
      | .ok _ =>
        match seqAll (mapWithEach p f ks), seqAll (mapWithEach p f vs) with
        | .ok ks', .ok vs' => .ok (.dict ks' vs')
        | .error e, _ => .error e
        | _, .error e => .error e
    | .dcls c xs =>
      let rs := mapWithEach p f xs
      -- 1. constructor call: the `init` fields, in declaration order
      match seqAll (pick true c.initFlags rs) with
      | .error e => .error e
      | .ok _ =>
        -- 2. the non-`init` fields: map, then assign
        match seqAll ((pick false c.initFlags rs).map (andThen (p.setNonInit c))) with
        | .error e => .error e
        | .ok _ =>
          -- 3. copy of extra `__dict__` entries
          match p.copyDict c with
          | .error e => .error e
          | .ok () => (seqAll rs).map (.dcls c)
  def mapWithEach (p : Prims) (f : α → β) : List (NV α) → List (Except PyErr (NV β))
    | [] => []
    | x :: xs => mapWith p f x :: mapWithEach p f xs
end

/-- `map_nested_value(func, value)` of the repaired code. -/
def mapPy (f : α → β) (v : NV α) : Except PyErr (NV β) := mapWith primsNew f v
/-- `map_nested_value(func, value)` before the repair. -/
def mapOld (f : α → β) (v : NV α) : Except PyErr (NV β) := mapWith primsOld f v

mutual
  /-- Values on which the unrepaired code works: every dataclass instance has a `__dict__`, and a
  frozen one has no non-`init` field. -/
  def OldOk : NV α → Prop
    | .leaf _ => True
    | .list xs => OldOks xs
    | .tuple xs => OldOks xs
    | .ntuple _ xs => OldOks xs
    | .set xs => OldOks xs
    | .dict ks vs => OldOks ks ∧ OldOks vs
    | .dcls c xs => c.hasDict = true ∧ (c.frozen = true → pick false c.initFlags xs = []) ∧ OldOks xs
  def OldOks : List (NV α) → Prop
    | [] => True
    | x :: xs => OldOk x ∧ OldOks xs
end

end RedunModel.NestedMap
