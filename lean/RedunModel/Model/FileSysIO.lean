/-
Line-protocol parsing / rendering of paths, values and symbolic hashes, shared by the C04 and C30 drivers.
   <path> ::= (s<hex>*)   <val> ::= (file fam <path>) | (fset fam <path> T|F) | (dir fam <path>)
                                  | (staging T|F fam <path> <path>)     fam ::= plain|imm|content
   <H> ::= (stat <path> i<size> i<mtime>) | (content <path> N|b<hex>) | (imm <cls> <path>)
         | (coll <cls> <path> (<H>*)) | (staging <cls> <path> <path>)
-/
import RedunModel.Proto
import RedunModel.Model.FileSys
namespace RedunModel.FileSys

def pPath : Sexp → Option Path
  | .list l => l.mapM fun | .atom a => strOfAtom a | _ => none
  | _ => none

def pFam : Sexp → Option Fam
  | .atom "plain" => some .plain
  | .atom "imm" => some .imm
  | .atom "content" => some .content
  | _ => none

def pBool : Sexp → Option Bool
  | .atom "T" => some true
  | .atom "F" => some false
  | _ => none

def pNat : Sexp → Option Nat
  | .atom a => natOfAtom a
  | _ => none
def pInt : Sexp → Option Int
  | .atom a => intOfAtom a
  | _ => none
def pBytes : Sexp → Option Bytes
  | .atom a => bytesOfAtom a
  | _ => none

def pVal : Sexp → Option Val
  | .list [.atom "file", f, p] => do pure (.file (← pFam f) (← pPath p))
  | .list [.atom "fset", f, p, r] => do pure (.fset (← pFam f) (← pPath p) (← pBool r))
  | .list [.atom "dir", f, p] => do pure (.dir (← pFam f) (← pPath p))
  | .list [.atom "staging", d, f, l, r] => do pure (.staging (← pBool d) (← pFam f) (← pPath l) (← pPath r))
  | _ => none

def rPath (p : Path) : String := "(" ++ " ".intercalate (p.map atomOfStr) ++ ")"

def rHF : HF → String
  | .stat p sz mt => s!"(stat {rPath p} {atomOfInt sz} {atomOfInt mt})"
  | .content p none => s!"(content {rPath p} N)"
  | .content p (some b) => s!"(content {rPath p} {atomOfBytes b})"

def rH : H → String
  | .f h => rHF h
  | .imm c p => s!"(imm {c} {rPath p})"
  | .coll c p ms => s!"(coll {c} {rPath p} ({" ".intercalate (ms.map rHF)}))"
  | .staging c l r => s!"(staging {c} {rPath l} {rPath r})"

end RedunModel.FileSys
