/-
Model of redun's database backend (`redun/backends/db/__init__.py`) as finite relations.
Core Lean only.  Shared by C03 / C22 / C23 (and meant to be importable by C02, C20, C21).

* hashes and uuids are symbolic (`H = Nat`; the harness interns the real digests in first-occurrence order)
* a table is a `List` of rows; a SQLAlchemy session is `Sess` = durable tables + pending (added, not yet
  committed) row operations + the log of durable states (one entry per writing commit, in code order)
* the model has NO foreign-key enforcement at all: referential closure of every durable state is a theorem
  about the recording code (C22), not something inherited from sqlite
* `Variant` carries one flag per defect found in the recording code; `Variant.current` mirrors the unrepaired
  tree, `Variant.repaired` the tree with the proposed `fix:` diffs applied.  The harness probes which flags the
  working tree has and drives the model with exactly those.
-/
namespace RedunModel.Db

abbrev H := Nat

/-! ### rows -/

inductive VKind where
  | plain | task | file
  deriving DecidableEq, Repr

structure ValueRow where
  hash : H
  kind : VKind
  deriving DecidableEq, Repr

/-- `CallNode(call_hash, task_hash, args_hash, value_hash, timestamp)`; `ts` is a logical clock. -/
structure NodeRow where
  call : H
  task : H
  args : H
  value : H
  ts : Nat
  deriving DecidableEq, Repr

structure EdgeRow where
  parent : H
  child : H
  order : Nat
  deriving DecidableEq, Repr

/-- `Argument`: `slot` encodes `(arg_position, arg_key)`. -/
structure ArgRow where
  call : H
  slot : Nat
  value : H
  deriving DecidableEq, Repr

structure ArgResRow where
  call : H
  slot : Nat
  result : H
  deriving DecidableEq, Repr

structure SubRow where
  call : H
  task : H
  deriving DecidableEq, Repr

structure EvalRow where
  eval : H
  task : H
  args : H
  value : H
  deriving DecidableEq, Repr

structure JobRow where
  id : H
  task : H
  parent : Option H
  exec : H
  call : Option H
  cached : Bool
  ended : Bool
  deriving DecidableEq, Repr

structure ExecRow where
  id : H
  job : H
  deriving DecidableEq, Repr

structure TagRow where
  tag : H
  etype : Nat
  entity : H
  key : H
  value : H
  current : Bool
  deriving DecidableEq, Repr

structure TagEditRow where
  parent : H
  child : H
  deriving DecidableEq, Repr

structure SubvalueRow where
  child : H
  parent : H
  deriving DecidableEq, Repr

structure Db where
  values : List ValueRow := []
  tasks : List H := []
  files : List H := []
  subvalues : List SubvalueRow := []
  nodes : List NodeRow := []
  edges : List EdgeRow := []
  args : List ArgRow := []
  argRes : List ArgResRow := []
  subtree : List SubRow := []
  evals : List EvalRow := []
  jobs : List JobRow := []
  execs : List ExecRow := []
  tags : List TagRow := []
  tagEdits : List TagEditRow := []
  deriving DecidableEq, Repr

/-- One flag per repaired defect (`true` = repaired behaviour). -/
structure Variant where
  /-- `record_value`: File/Task row committed together with the Value row -/
  atomicValue : Bool
  /-- `record_call_node`: values first, then CallNode + edges + arguments + subtree rows in ONE commit -/
  atomicCallNode : Bool
  /-- `record_call_node` on an existing CallNode without subtree rows records them -/
  healSubtree : Bool
  /-- `_get_call_node`: an empty recorded subtree set is never current -/
  emptyNotCurrent : Bool
  /-- `_resolve_job_main_thread`: a CSE hit takes its subtree tasks from the backend, not `{task}` -/
  cseSubtreeFromDb : Bool
  /-- `record_job_start`: pending Execution forgotten only after the commit -/
  execKeep : Bool
  deriving DecidableEq, Repr

def Variant.current : Variant := ⟨false, false, false, false, false, false⟩
def Variant.repaired : Variant := ⟨true, true, true, true, true, true⟩
/-- the tree with the proposed small `fix:` diffs: everything repaired except the two-commit `record_call_node` -/
def Variant.proposed : Variant := ⟨true, false, true, true, true, true⟩

/-! ### queries (pure functions of the tables) -/

def hasValue (db : Db) (h : H) : Bool := db.values.any (fun r => r.hash == h)
def hasNode (db : Db) (c : H) : Bool := db.nodes.any (fun n => n.call == c)
def hasJob (db : Db) (j : H) : Bool := db.jobs.any (fun r => r.id == j)
def hasExec (db : Db) (e : H) : Bool := db.execs.any (fun r => r.id == e)
def hasTag (db : Db) (t : H) : Bool := db.tags.any (fun r => r.tag == t)

/-- `get_subtree_tasks(call_hash)` -/
def subtreeOf (db : Db) (c : H) : List H := (db.subtree.filter (fun r => r.call == c)).map (·.task)

/-- the `<=` test of `_get_call_node` (with the optional non-emptiness requirement) -/
def nodeCurrent (v : Variant) (db : Db) (reg : List H) (n : NodeRow) : Bool :=
  (!v.emptyNotCurrent || !(subtreeOf db n.call).isEmpty) &&
    (subtreeOf db n.call).all (fun t => reg.contains t)

/-- first row with the greatest `ts` (`ORDER BY timestamp DESC` + `[0]`) -/
def pickNewest : List NodeRow → Option NodeRow
  | [] => none
  | n :: rest =>
    match pickNewest rest with
    | none => some n
    | some m => if m.ts > n.ts then some m else some n

/-- `_get_call_node(task_hash, args_hash, scheduler_task_hashes)` (no context) -/
def getCallNode (v : Variant) (db : Db) (task args : H) (reg : List H) : Option NodeRow :=
  pickNewest ((db.nodes.filter (fun n => n.task == task && n.args == args)).filter (nodeCurrent v db reg))

/-- `get_call_cache`: the result value hash of a call node whose Value row exists -/
def getCallCache (db : Db) (c : H) : Option H :=
  match db.nodes.find? (fun n => n.call == c) with
  | some n => if hasValue db n.value then some n.value else none
  | none => none

/-- `get_eval_cache` -/
def getEvalCache (db : Db) (e : H) : Option H :=
  match db.evals.find? (fun r => r.eval == e) with
  | some r => if hasValue db r.value then some r.value else none
  | none => none

inductive Scope where
  | none | cse | backend
  deriving DecidableEq, Repr

inductive CacheKind where
  | miss | cse | ultimate | single
  deriving DecidableEq, Repr

structure CacheAns where
  value : Option H
  call : Option H
  kind : CacheKind
  deriving DecidableEq, Repr

/-- last finished job of this execution with this task whose call node has these args
(`ORDER BY Job.start_time DESC` + `first()`; jobs are kept in start order) -/
def cseNode (db : Db) (task args exec : H) : Option H :=
  let js := db.jobs.filter (fun j => j.task == task && j.exec == exec &&
    match j.call with
    | some c => db.nodes.any (fun n => n.call == c && n.args == args)
    | none => false)
  match js.getLast? with
  | some j => j.call
  | none => none

/-- `check_cache` (without context).  `allowCse/allowUlt/allowSingle` = `allowed_cache_results`. -/
def checkCache (v : Variant) (db : Db) (task args eval exec : H) (reg : List H) (scope : Scope)
    (shallow allowCse allowUlt allowSingle : Bool) : CacheAns :=
  if scope == .none then ⟨none, none, .miss⟩ else
  let cse : Option (H × H) :=
    if allowCse then
      match cseNode db task args exec with
      | some c => (getCallCache db c).map (fun r => (r, c))
      | none => none
    else none
  match cse with
  | some (r, c) => ⟨some r, some c, .cse⟩
  | none =>
    -- ultimate reduction
    let ult : Option H :=
      if scope == .backend && shallow && allowUlt then (getCallNode v db task args reg).map (·.call) else none
    let ultRes : Option H := match ult with
      | some c => getCallCache db c
      | none => none
    match ultRes with
    | some r => ⟨some r, ult, .ultimate⟩
    | none =>
      if scope == .backend && allowSingle then
        match getEvalCache db eval with
        | some r => ⟨some r, ult, .single⟩     -- `call_hash` keeps the ultimate candidate (code quirk)
        | none => ⟨none, none, .miss⟩
      else ⟨none, none, .miss⟩

/-! ### referential closure (the schema's foreign keys) -/

def fkOk (db : Db) : Bool :=
  db.tasks.all (fun t => hasValue db t) &&
  db.files.all (fun t => hasValue db t) &&
  db.subvalues.all (fun r => hasValue db r.child && hasValue db r.parent) &&
  db.nodes.all (fun n => db.tasks.contains n.task && hasValue db n.value) &&
  db.edges.all (fun e => hasNode db e.parent && hasNode db e.child) &&
  db.args.all (fun a => hasNode db a.call && hasValue db a.value) &&
  db.argRes.all (fun a => db.args.any (fun b => b.call == a.call && b.slot == a.slot) && hasNode db a.result) &&
  db.subtree.all (fun r => hasNode db r.call && db.tasks.contains r.task) &&
  db.evals.all (fun e => db.tasks.contains e.task && hasValue db e.value) &&
  db.jobs.all (fun j => db.tasks.contains j.task && hasExec db j.exec &&
    (match j.parent with | some p => hasJob db p | none => true) &&
    (match j.call with | some c => hasNode db c | none => true)) &&
  db.execs.all (fun e => hasJob db e.job) &&
  db.tagEdits.all (fun e => hasTag db e.parent && hasTag db e.child)

/-- every Task-typed Value has its Task row (what `record_value`'s early exit silently relies on) -/
def taskComplete (db : Db) : Bool :=
  db.values.all (fun r => r.kind != .task || db.tasks.contains r.hash)

/-! ### sessions -/

inductive RowOp where
  | value (r : ValueRow)
  | task (h : H)
  | file (h : H)
  | subvalue (r : SubvalueRow)
  | node (r : NodeRow)
  | edge (r : EdgeRow)
  | arg (r : ArgRow)
  | argRes (r : ArgResRow)
  | sub (r : SubRow)
  | eval (r : EvalRow)
  | evalSet (eval value : H)
  | job (r : JobRow)
  | jobEnd (id : H) (call : Option H) (cached : Bool)
  | exec (r : ExecRow)
  | tag (r : TagRow)
  | tagEdit (r : TagEditRow)
  | tagStale (tag : H)
  deriving DecidableEq, Repr

def applyOp (db : Db) : RowOp → Db
  | .value r => { db with values := db.values ++ [r] }
  | .task h => { db with tasks := db.tasks ++ [h] }
  | .file h => { db with files := db.files ++ [h] }
  | .subvalue r => { db with subvalues := db.subvalues ++ [r] }
  | .node r => { db with nodes := db.nodes ++ [r] }
  | .edge r => { db with edges := db.edges ++ [r] }
  | .arg r => { db with args := db.args ++ [r] }
  | .argRes r => { db with argRes := db.argRes ++ [r] }
  | .sub r => { db with subtree := db.subtree ++ [r] }
  | .eval r => { db with evals := db.evals ++ [r] }
  | .evalSet e val => { db with evals := db.evals.map (fun r => if r.eval == e then { r with value := val } else r) }
  | .job r => { db with jobs := db.jobs ++ [r] }
  | .jobEnd id call cached =>
    { db with jobs := db.jobs.map (fun r => if r.id == id then { r with call := call, cached := cached, ended := true } else r) }
  | .exec r => { db with execs := db.execs ++ [r] }
  | .tag r => { db with tags := db.tags ++ [r] }
  | .tagEdit r => { db with tagEdits := db.tagEdits ++ [r] }
  | .tagStale t => { db with tags := db.tags.map (fun r => if r.tag == t then { r with current := false } else r) }

def applyOps (db : Db) (ops : List RowOp) : Db := ops.foldl applyOp db

/-- A durable state together with the backend's in-memory `_executions` keys at the time of the commit. -/
structure Snap where
  db : Db
  execs : List H
  deriving DecidableEq, Repr

structure Sess where
  /-- durable tables -/
  db : Db
  /-- rows added to the session and not yet committed (a crash / rollback loses them) -/
  pend : List RowOp := []
  /-- durable states, one per writing commit, oldest first -/
  log : List Snap := []
  /-- `backend._executions`: executions announced by `record_execution` and not yet written -/
  pendingExecs : List H := []
  deriving DecidableEq, Repr

/-- what a query inside the session sees (autoflush) -/
def Sess.view (s : Sess) : Db := applyOps s.db s.pend

def Sess.add (s : Sess) (op : RowOp) : Sess := { s with pend := s.pend ++ [op] }
def Sess.addAll (s : Sess) (ops : List RowOp) : Sess := { s with pend := s.pend ++ ops }

/-- `session.commit()`; a commit with nothing to write leaves no trace -/
def Sess.commit (s : Sess) : Sess :=
  if s.pend.isEmpty then s
  else { s with db := s.view, pend := [], log := s.log ++ [⟨s.view, s.pendingExecs⟩] }

/-- process death / `session.rollback()`: pending rows are gone -/
def Sess.rollback (s : Sess) : Sess := { s with pend := [] }

def Sess.ofDb (db : Db) : Sess := { db := db }

/-! ### recording operations, statement by statement -/

def specialMissing (db : Db) (r : ValueRow) : List RowOp :=
  match r.kind with
  | .plain => []
  | .task => if db.tasks.contains r.hash then [] else [.task r.hash]
  | .file => if db.files.contains r.hash then [] else [.file r.hash]

/-- the Value row and its File/Task row (`record_value` up to `_record_special_redun_values`) -/
def recordValueCore (v : Variant) (r : ValueRow) (s : Sess) : Sess :=
  let s1 := s.add (.value r)
  if v.atomicValue then
    (s1.addAll (specialMissing s1.view r)).commit
  else
    let s2 := s1.commit
    (s2.addAll (specialMissing s2.view r)).commit

/-- new Value rows of `_record_subvalues` (`seen` = hashes added earlier in the same call) -/
def newSubValues (db : Db) : List H → List ValueRow → List RowOp
  | _, [] => []
  | seen, r :: rs =>
    if hasValue db r.hash || seen.contains r.hash then newSubValues db seen rs
    else .value r :: newSubValues db (seen ++ [r.hash]) rs

/-- new Subvalue (child, parent) links of `_record_subvalues` -/
def newSubLinks (db : Db) (parent : H) : List H → List ValueRow → List RowOp
  | _, [] => []
  | seen, r :: rs =>
    if db.subvalues.any (fun l => l.child == r.hash && l.parent == parent) || seen.contains r.hash then
      newSubLinks db parent seen rs
    else .subvalue ⟨r.hash, parent⟩ :: newSubLinks db parent (seen ++ [r.hash]) rs

/-- File/Task rows of the subvalues (`_record_special_redun_values(subvalues, ...)`; `seenF` / `seenT` are the
hashes added to `existing_file_hashes` / `existing_task_hashes` earlier in the same call) -/
def subSpecialOps (db : Db) : List H → List H → List ValueRow → List RowOp
  | _, _, [] => []
  | seenF, seenT, r :: rs =>
    match r.kind with
    | .plain => subSpecialOps db seenF seenT rs
    | .task =>
      if db.tasks.contains r.hash || seenT.contains r.hash then subSpecialOps db seenF seenT rs
      else .task r.hash :: subSpecialOps db seenF (seenT ++ [r.hash]) rs
    | .file =>
      if db.files.contains r.hash || seenF.contains r.hash then subSpecialOps db seenF seenT rs
      else .file r.hash :: subSpecialOps db (seenF ++ [r.hash]) seenT rs

/-- `_record_subvalues(subvalues, parent_value_hash)`: two commits (values + links, then File/Task rows) -/
def recordSubvalues (parent : H) (subs : List ValueRow) (s : Sess) : Sess :=
  if subs.isEmpty then s
  else
    let s1 := (s.addAll (newSubValues s.view [] subs ++ newSubLinks s.view parent [] subs)).commit
    (s1.addAll (subSpecialOps s1.view [] [] subs)).commit

/-- a value to record: its own row and its (flattened) subvalues -/
structure ValueSpec where
  row : ValueRow
  subs : List ValueRow := []
  deriving DecidableEq, Repr

/-- all rows of one value: its Value row, its File/Task row, new subvalue Values, links and their File/Task rows
(each query sees the rows added before it: autoflush) -/
def valueOps (db : Db) (x : ValueSpec) : List RowOp :=
  let o1 := [RowOp.value x.row]
  let d1 := applyOps db o1
  let o2 := specialMissing d1 x.row
  let d2 := applyOps d1 o2
  if x.subs.isEmpty then o1 ++ o2
  else
    let o3 := newSubValues d2 [] x.subs ++ newSubLinks d2 x.row.hash [] x.subs
    let d3 := applyOps d2 o3
    o1 ++ o2 ++ o3 ++ subSpecialOps d3 [] [] x.subs

/-- `record_value`.  Unrepaired: up to four commits (Value / its File-Task row / subvalues + links / their
File-Task rows).  Repaired (`atomicValue`): one commit. -/
def recordValue (v : Variant) (x : ValueSpec) (s : Sess) : Sess :=
  if hasValue s.view x.row.hash then s
  else if v.atomicValue then (s.addAll (valueOps s.view x)).commit
  else recordSubvalues x.row.hash x.subs (recordValueCore v x.row s)

def recordValues (v : Variant) (rs : List ValueSpec) (s : Sess) : Sess :=
  rs.foldl (fun s r => recordValue v r s) s

/-- `set_eval_cache(eval_hash, task_hash, args_hash, value)` -/
def setEvalCache (v : Variant) (e : EvalRow) (val : ValueSpec) (s : Sess) : Sess :=
  let s := recordValue v val s
  match s.view.evals.find? (fun r => r.eval == e.eval) with
  | some old => if old.value == e.value then s else (s.add (.evalSet e.eval e.value)).commit
  | none => (s.add (.eval e)).commit

inductive Err where
  | keyError
  deriving DecidableEq, Repr

/-- `record_job_start(job)`; `root` = the job has no parent job. -/
def recordJobStart (v : Variant) (j : JobRow) (root : Bool) (s : Sess) : Except Err Sess :=
  let s := recordValue v ⟨⟨j.task, .task⟩, []⟩ s
  if root then
    if s.pendingExecs.contains j.exec then
      let s1 : Sess := if v.execKeep then s else { s with pendingExecs := s.pendingExecs.erase j.exec }
      let s2 := ((s1.add (.exec ⟨j.exec, j.id⟩)).add (.job j)).commit
      .ok { s2 with pendingExecs := s2.pendingExecs.erase j.exec }
    else .error .keyError
  else .ok (s.add (.job j)).commit

/-- `record_job_end(job)` for a job whose start was recorded -/
def recordJobEnd (id : H) (call : Option H) (cached : Bool) (s : Sess) : Sess :=
  (s.add (.jobEnd id call cached)).commit

/-- `record_tags(entity, tags)` as the scheduler uses it (no parents): new Tag rows, then a commit.  `commit = false` is
NOT what the code does: it is the seeded design "leave the tags pending for the caller's next commit", kept to state
what goes wrong with it (C22.pending_tags_lost_on_retry). -/
def recordTags (commit : Bool) (tags : List TagRow) (s : Sess) : Sess :=
  let s1 := s.addAll ((tags.filter (fun t => !hasTag s.view t.tag)).map RowOp.tag)
  if commit then s1.commit else s1

/-! ### `db_retry`: which of the nested decorated calls retries -/

/-- The flag logic of `db_retry.wrapper` for one decorated call: given `_db_retry_active` at entry, returns
(does THIS call catch OperationalError, roll back and retry?, the flag after the call returned). -/
def retryWrapper (active : Bool) : Bool × Bool :=
  if active then (false, true)      -- nested: run the body, leave the flag alone
  else (true, false)                -- outermost: set the flag, retry, clear it in `finally`

/-- the seeded variant: one try/finally for both cases, the `finally` always clears the flag -/
def retryWrapperMerged (active : Bool) : Bool × Bool := (!active, false)

/-- the decisions of `n` decorated calls made one after the other INSIDE an operation (flag at the start: `active`) -/
def nestedRetriers (w : Bool → Bool × Bool) : Nat → Bool → List Bool
  | 0, _ => []
  | n + 1, active => (w active).1 :: nestedRetriers w n (w active).2

/-- one evaluated argument: slot, value, upstream call hashes (already a set) -/
structure ArgSpec where
  slot : Nat
  value : ValueSpec
  upstream : List H
  deriving DecidableEq, Repr

structure CallArgs where
  node : NodeRow
  children : List H
  args : List ArgSpec
  /-- `subtree_tasks` (task hashes, already a set) -/
  subtree : List H
  deriving DecidableEq, Repr

/-- the loop of `_record_args` (its final `commit` is issued by the caller below) -/
def recordArgs (v : Variant) (c : H) : List ArgSpec → Sess → Sess
  | [], s => s
  | a :: rest, s =>
    let s := recordValue v a.value s
    let s := s.add (.arg ⟨c, a.slot, a.value.row.hash⟩)
    let s := s.addAll (a.upstream.map (fun u => RowOp.argRes ⟨c, a.slot, u⟩))
    recordArgs v c rest s

def edgeOps (db : Db) (c : H) (children : List H) : List RowOp :=
  (children.zipIdx.filter (fun p => hasNode db p.1)).map (fun p => RowOp.edge ⟨c, p.1, p.2⟩)

def subOps (c : H) (tasks : List H) : List RowOp := tasks.map (fun t => RowOp.sub ⟨c, t⟩)

def taskValues (tasks : List H) : List ValueSpec := tasks.map (fun t => ⟨⟨t, .task⟩, []⟩)

/-- `record_call_node` -/
def recordCallNode (v : Variant) (a : CallArgs) (s : Sess) : Sess :=
  let c := a.node.call
  if hasNode s.view c then
    if v.healSubtree && (subtreeOf s.view c).isEmpty then
      let s := recordValues v (taskValues a.subtree) s
      (s.addAll (subOps c a.subtree)).commit
    else s
  else if v.atomicCallNode then
    let s := recordValues v (a.args.map (·.value)) s
    let s := if a.children.any (fun ch => !hasNode s.view ch) then recordValues v (taskValues a.subtree) s else s
    let s := s.add (.node a.node)
    let s := s.addAll (edgeOps s.view c a.children)
    let s := s.addAll (subOps c a.subtree)
    let s := recordArgs v c a.args s
    s.commit
  else
    let s := s.add (.node a.node)
    let s := s.addAll (edgeOps s.view c a.children)
    let s := (recordArgs v c a.args s).commit
    let s := if a.children.any (fun ch => !hasNode s.view ch) then recordValues v (taskValues a.subtree) s else s
    (s.addAll (subOps c a.subtree)).commit

/-! ### the scheduler's subtree-task bookkeeping (`Job.calc_subtree_tasks`, `_get_subtree_tasks`) -/

/-- what a parent job sees of a finished child job -/
structure JobRes where
  call : Option H
  sub : List H
  deriving DecidableEq, Repr

/-- `calc_subtree_tasks` of a job that was evaluated (own task + the sets of the children that finished) -/
def execSubtree (task : H) (children : List JobRes) : List H :=
  task :: children.flatMap (fun r => if r.call.isSome then r.sub else [])

/-- `subtree_tasks` of a job whose `call_hash` came from the cache (CSE or ultimate reduction) -/
def cachedSubtree (v : Variant) (db : Db) (reg : List H) (task : H) (shallow : Bool) (c : H) : List H :=
  if v.cseSubtreeFromDb then task :: (subtreeOf db c).filter (fun t => reg.contains t)
  else if shallow then (subtreeOf db c).filter (fun t => reg.contains t)
  else [task]

/-! ### faults -/

/-- the durable state a process death before the `k`-th new commit (0-based) of `s' = op s` leaves behind -/
def crashDb (s s' : Sess) (k : Nat) : Db :=
  match k with
  | 0 => s.db
  | k + 1 => match (s'.log.drop s.log.length)[k]? with
    | some snap => snap.db
    | none => s'.db

/-- number of writing commits `op` performed -/
def newCommits (s s' : Sess) : Nat := s'.log.length - s.log.length

/-- `db_retry` after a single transient `OperationalError` raised by the `k`-th new commit (0-based) of the
top-level operation: rollback, then run the operation again on the durable state (in-memory `_executions` as
they were when the commit was attempted). -/
def retryState (s s' : Sess) (k : Nat) : Sess :=
  { db := crashDb s s' k, pend := [], log := [],
    pendingExecs := match (s'.log.drop s.log.length)[k]? with
      | some snap => snap.execs
      | none => s'.pendingExecs }

/-! ### record transfer (`iter_record_ids`, `get_records`, `put_records`) -/

/-- serialized records (`serializers.py`): each carries the rows it owns -/
inductive Rec where
  | exec (r : ExecRow)
  | job (r : JobRow)
  | node (r : NodeRow) (children : List H) (args : List (ArgRow × List H))
  | value (r : ValueRow) (subvalues : List H) (isTask isFile : Bool)
  | tag (r : TagRow) (parents : List H)
  deriving DecidableEq, Repr

def Rec.id : Rec → H
  | .exec r => r.id
  | .job r => r.id
  | .node r _ _ => r.call
  | .value r _ _ _ => r.hash
  | .tag r _ => r.tag

/-- ownership edges walked by `get_child_record_ids` for one record id -/
def childIds (db : Db) (id : H) : List H :=
  (db.execs.filter (fun e => e.id == id)).map (·.job) ++
  (db.jobs.filter (fun j => j.id == id)).flatMap (fun j => j.task :: j.call.toList) ++
  (db.jobs.filter (fun j => j.parent == some id)).map (·.id) ++
  (db.nodes.filter (fun n => n.call == id)).flatMap (fun n => [n.task, n.value]) ++
  (db.args.filter (fun a => a.call == id)).map (·.value) ++
  (db.argRes.filter (fun a => a.call == id)).map (·.result) ++
  (db.edges.filter (fun e => e.parent == id)).map (·.child) ++
  (db.subvalues.filter (fun r => r.parent == id)).map (·.child) ++
  (db.tagEdits.filter (fun e => e.child == id)).map (·.parent) ++
  (db.tagEdits.filter (fun e => e.parent == id)).map (·.child) ++
  (db.tags.filter (fun t => t.entity == id)).map (·.tag)

/-- an id that names a record of one of the five transferable models -/
def isRecordId (db : Db) (id : H) : Bool :=
  hasExec db id || hasJob db id || hasNode db id || hasValue db id || hasTag db id

def dedupInto (seen : List H) : List H → List H × List H     -- (new ids in order, seen')
  | [] => ([], seen)
  | x :: xs =>
    if seen.contains x then dedupInto seen xs
    else
      let (nw, seen') := dedupInto (seen ++ [x]) xs
      (x :: nw, seen')

/-- `iter_record_ids`: layer-wise breadth-first walk with a `seen` set; `fuel` bounds the number of layers -/
def bfs (db : Db) : Nat → List H → List H → List H
  | 0, _, _ => []
  | fuel + 1, seen, frontier =>
    let (nw, seen') := dedupInto seen frontier
    if nw.isEmpty then [] else nw ++ bfs db fuel seen' (nw.flatMap (childIds db))

def allIds (db : Db) : List H :=
  db.execs.map (·.id) ++ db.jobs.map (·.id) ++ db.nodes.map (·.call) ++ db.values.map (·.hash) ++
  db.tags.map (·.tag) ++ db.tasks

def iterRecordIds (db : Db) (roots : List H) : List H :=
  bfs db ((allIds db).length + 2) [] (roots.filter (isRecordId db))

/-- `RecordSerializer.serialize` of the record with this id (models in `_model_pks` order) -/
def getRecord (db : Db) (id : H) : List Rec :=
  (db.execs.filter (fun e => e.id == id)).map Rec.exec ++
  (db.jobs.filter (fun j => j.id == id)).map Rec.job ++
  (db.nodes.filter (fun n => n.call == id)).map (fun n =>
    Rec.node n ((db.edges.filter (fun e => e.parent == id)).map (·.child))
      ((db.args.filter (fun a => a.call == id)).map (fun a =>
        (a, (db.argRes.filter (fun r => r.call == id && r.slot == a.slot)).map (·.result))))) ++
  (db.values.filter (fun r => r.hash == id)).map (fun r =>
    Rec.value r ((db.subvalues.filter (fun sv => sv.parent == id)).map (·.child))
      (db.tasks.contains id) (db.files.contains id)) ++
  (db.tags.filter (fun t => t.tag == id)).map (fun t =>
    Rec.tag t ((db.tagEdits.filter (fun e => e.child == id)).map (·.parent)))

def getRecords (db : Db) (ids : List H) : List Rec := ids.flatMap (getRecord db)

/-- `Serializer.deserialize`: the rows one record turns into -/
def recOps : Rec → List RowOp
  | .exec r => [.exec r]
  | .job r => [.job r]
  | .node r children args =>
    .node r :: (children.zipIdx.map (fun p => RowOp.edge ⟨r.call, p.1, p.2⟩)) ++
      args.map (fun a => RowOp.arg a.1) ++
      args.flatMap (fun a => a.2.map (fun u => RowOp.argRes ⟨a.1.call, a.1.slot, u⟩))
  | .value r subs isTask isFile =>
    .value r :: subs.map (fun c => RowOp.subvalue ⟨c, r.hash⟩) ++
      (if isFile then [.file r.hash] else []) ++ (if isTask then [.task r.hash] else [])
  | .tag r parents => .tag { r with current := true } :: parents.map (fun p => RowOp.tagEdit ⟨p, r.tag⟩)

/-- records of `rs` whose id is neither in the database nor earlier in the list -/
def newRecords (db : Db) : List H → List Rec → List Rec
  | _, [] => []
  | seen, r :: rs =>
    if isRecordId db r.id || seen.contains r.id then newRecords db seen rs
    else r :: newRecords db (seen ++ [r.id]) rs

/-- `_postprocess_new_records`: a Tag that has a child edit is not current -/
def postprocessTags (db : Db) : Db :=
  { db with tags := db.tags.map (fun t =>
      if db.tagEdits.any (fun e => e.parent == t.tag) then { t with current := false } else t) }

/-- `put_records` (one commit, constraints deferred) -/
def putRecords (rs : List Rec) (s : Sess) : Sess :=
  let nw := newRecords s.view [] rs
  let s1 := s.addAll (nw.flatMap recOps)
  if s1.pend.isEmpty then s1
  else
    let d := postprocessTags s1.view
    { s1 with db := d, pend := [], log := s1.log ++ [⟨d, s1.pendingExecs⟩] }

/-- push / pull / export+import of the records reachable from `roots` -/
def transfer (src : Db) (roots : List H) (dst : Sess) : Sess :=
  putRecords (getRecords src (iterRecordIds src roots)) dst

end RedunModel.Db
