/-
Model of the call-graph recorder of redun (C20): `Scheduler._resolve_job_main_thread`,
`_reject_job_main_thread`, `Job.collapse`, `_record_job_tags` (redun/scheduler.py),
`RedunBackendDb.record_call_node`, `record_job_start`, `record_job_end`, `record_tags`
(redun/backends/db/__init__.py) and `hash_call_node` (redun/hashing.py).  Core Lean only.

Hashes are symbolic: a call hash *is* its pre-image `["CallNode", task, args, result, sorted kids]`
(`H.call`); task / argument / value hashes are opaque atoms (`Nat`).
-/
namespace RedunModel.Merkle

/-- A call hash, as the structure fed to `hash_struct` by `hash_call_node`. -/
inductive H where
  | call (task args result : Nat) (kids : List H)
  deriving Repr, Inhabited

namespace H
mutual
  /-- A structural total order on call hashes (stands for the order of the hex digests that
  `sorted(child_call_hashes)` uses; the theorems only need that it is a total order). -/
  def cmp : H → H → Ordering
    | .call t a r k, .call t' a' r' k' =>
      (compare t t').then ((compare a a').then ((compare r r').then (cmpL k k')))
  def cmpL : List H → List H → Ordering
    | [], [] => .eq
    | [], _ :: _ => .lt
    | _ :: _, [] => .gt
    | x :: xs, y :: ys => (cmp x y).then (cmpL xs ys)
end

def le (a b : H) : Bool := cmp a b != .gt
def eqb (a b : H) : Bool := cmp a b == .eq
end H

/-- `sorted(child_call_hashes)` (Python's sort and `List.mergeSort` are both stable). -/
def sortH (l : List H) : List H := l.mergeSort H.le

/-- `hash_call_node(task_hash, args_hash, result_hash, child_call_hashes)` -/
def hashCallNode (task args result : Nat) (kids : List H) : H := .call task args result (sortH kids)

/-! ### The job tree the scheduler built -/

/-- How a job ended. `ok` / `fail`: it computed its own call hash (a failed job only when it records
provenance). `hit h`: it ended — with a value in `_resolve_job_main_thread`, or with an error in
`_reject_job_main_thread` (`job.was_cached and job.call_hash`) — already carrying call hash `h`:
a CSE / ultimate-reduction cache hit, or a `Job.collapse` onto a twin (successful or failing). Such a
job shares the twin's CallNode; nothing is recorded for it but its tags and its Job row. -/
inductive Fin where
  | ok | fail | hit (h : H) | unfinished
  deriving Repr, Inhabited

/-- Entity a tag is attached to (`TagEntity` + id). -/
inductive Ent where
  | value (vh : Nat) | job (jid : Nat) | exec (eid : Nat) | task (th : Nat)
  deriving DecidableEq, Repr, Inhabited

structure Tag where
  ent : Ent
  key : Nat
  val : Nat
  deriving DecidableEq, Repr, Inhabited

structure Info where
  jid : Nat
  task : Nat
  args : Nat
  result : Nat
  /-- `job.recording_provenance()` -/
  prov : Bool
  /-- `job.was_cached` when the job ended -/
  cached : Bool
  fin : Fin
  /-- `job.value_tags` (from `apply_tags(..., tags=…)` evaluated in this job): value hash, key, value -/
  vtags : List (Nat × Nat × Nat)
  /-- the task option `tags` and `job.job_tags` -/
  jtags : List (Nat × Nat)
  /-- `job.execution_tags` -/
  etags : List (Nat × Nat)
  /-- the task's own option `tags` (attached to the task hash) -/
  ttags : List (Nat × Nat)
  deriving Repr, Inhabited

/-- One entry of the tree.  `job i listed seen kids`: a job created under its parent; `listed` is
false for a job that `Job.collapse` replaced in `parent.child_jobs` (the twin takes its slot, see
`ref`); `seen` is false when the parent ended (was rejected) before this job had a call hash.
`ref h`: a slot of `child_jobs` holding a job that belongs to another parent (the CSE twin);
`h` is that job's `call_hash` when the parent ended. -/
inductive JT where
  | job (i : Info) (listed seen : Bool) (kids : List JT)
  | ref (h : Option H)
  deriving Repr, Inhabited

/-- The call hash of a job given the child hashes its `child_jobs` showed when it ended. -/
def finHash (i : Info) (ks : List H) : Option H :=
  match i.fin with
  | .hit h => some h
  | .ok => some (hashCallNode i.task i.args i.result ks)
  | .fail => if i.prov then some (hashCallNode i.task i.args i.result ks) else none
  | .unfinished => none

def JT.visible : JT → Bool
  | .ref _ => true
  | .job _ l s _ => l && s

mutual
  /-- `job.call_hash` after the job ended (`none`: failed without provenance, or never ended). -/
  def callHash : JT → Option H
    | .ref h => h
    | .job i _ _ kids => finHash i (views kids)
  /-- `[child.call_hash for child in job.child_jobs if child.call_hash]` -/
  def views : List JT → List H
    | [] => []
    | k :: ks => (if k.visible then (callHash k).toList else []) ++ views ks
end

/-! ### The database (only the tables C20 speaks about) -/

structure NodeRow where
  id : H
  task : Nat
  args : Nat
  result : Nat
  deriving Repr, Inhabited

structure JobRow where
  jid : Nat
  parent : Option Nat
  exec : Nat
  task : Nat
  call : Option H
  cached : Bool
  ended : Bool
  deriving Repr, Inhabited

structure Db where
  nodes : List NodeRow := []
  /-- `CallEdge(parent_id, child_id, call_order)` -/
  edges : List (H × H × Nat) := []
  jobs : List JobRow := []
  /-- `Execution(id, job_id)` -/
  execs : List (Nat × Nat) := []
  tags : List Tag := []
  deriving Repr, Inhabited

def hasNodeL (nodes : List NodeRow) (h : H) : Bool := nodes.any fun r => H.eqb r.id h
def Db.hasNode (db : Db) (h : H) : Bool := hasNodeL db.nodes h

/-- The `CallEdge` rows `record_call_node` adds: one per position of `child_call_hashes` whose hash
is a recorded `CallNode`. -/
def newEdges (nodes : List NodeRow) (h : H) (kids : List H) : List (H × H × Nat) :=
  (kids.zipIdx.filter fun p => hasNodeL nodes p.1).map fun p => (h, p.1, p.2)

/-- `record_call_node`: nothing happens when the hash is already recorded (first writer wins). -/
def recordCallNode (db : Db) (task args result : Nat) (kids : List H) : Db × H :=
  let h := hashCallNode task args result kids
  if db.hasNode h then (db, h)
  else
    let nodes := db.nodes ++ [{ id := h, task := task, args := args, result := result }]
    ({ db with nodes := nodes, edges := db.edges ++ newEdges nodes h kids }, h)

/-- The durable states `record_call_node` can leave behind — what a process death, or a retry after a
rolled-back transient error, finds — in commit order: nothing written yet; after the commit at the end of
`_record_args`: the CallNode together with ALL its CallEdges (and its Argument rows, not in this model),
because the node and the edges are added to the session before `_record_args` is called; after the final
commit: additionally the CallSubtreeTask rows (not in this model), the call graph is unchanged.
There is no durable state with the node but without its edges. -/
def recordCallNodeDurable (db : Db) (task args result : Nat) (kids : List H) : List Db :=
  [db, (recordCallNode db task args result kids).1, (recordCallNode db task args result kids).1]

/-- For contrast only (NOT the code): a recorder that commits the CallNode before adding the edges. -/
def splitDurable (db : Db) (task args result : Nat) (kids : List H) : List Db :=
  let h := hashCallNode task args result kids
  if db.hasNode h then [db] else
  [db, { db with nodes := db.nodes ++ [{ id := h, task := task, args := args, result := result }] },
   (recordCallNode db task args result kids).1]

def addTag (tags : List Tag) (t : Tag) : List Tag := if t ∈ tags then tags else tags ++ [t]

/-- The tags `_record_job_tags` writes for a job. -/
def jobTags (eid : Nat) (i : Info) : List Tag :=
  i.vtags.map (fun p => ⟨.value p.1, p.2.1, p.2.2⟩) ++
  i.jtags.map (fun p => ⟨.job i.jid, p.1, p.2⟩) ++
  i.etags.map (fun p => ⟨.exec eid, p.1, p.2⟩) ++
  i.ttags.map (fun p => ⟨.task i.task, p.1, p.2⟩)

def recordJobTags (db : Db) (eid : Nat) (i : Info) : Db :=
  { db with tags := (jobTags eid i).foldl addTag db.tags }

/-- `record_job_start` (called only for jobs recording provenance). -/
def jobStart (db : Db) (eid : Nat) (parent : Option Nat) (i : Info) : Db :=
  let row : JobRow := { jid := i.jid, parent := parent, exec := eid, task := i.task, call := none,
                        cached := false, ended := false }
  { db with jobs := db.jobs ++ [row],
            execs := match parent with
              | none => db.execs ++ [(eid, i.jid)]
              | some _ => db.execs }

def setEnd (jobs : List JobRow) (jid : Nat) (call : Option H) (cached : Bool) : List JobRow :=
  jobs.map fun r => if r.jid = jid then { r with call := call, cached := cached, ended := true } else r

/-- `record_job_end` (creates the row first when it is missing). -/
def jobEnd (db : Db) (eid : Nat) (parent : Option Nat) (i : Info) (call : Option H) : Db :=
  let db := if db.jobs.any (fun r => r.jid = i.jid) then db else jobStart db eid parent i
  { db with jobs := setEnd db.jobs i.jid call i.cached }

/-- What the end of a job writes: `_resolve_job_main_thread` / `_reject_job_main_thread`
(an error served by CSE takes the `hit` branch: tags + `record_job_end`, no new CallNode). -/
def finishJob (db : Db) (eid : Nat) (parent : Option Nat) : JT → Db
  | .ref _ => db
  | .job i _ _ kids =>
    if !i.prov then db else
    match i.fin with
    | .unfinished => db
    | .hit h => jobEnd (recordJobTags db eid i) eid parent i (some h)
    | .ok | .fail =>
      let r := recordCallNode db i.task i.args i.result (views kids)
      jobEnd (recordJobTags r.1 eid i) eid parent i (some r.2)

def startJob (db : Db) (eid : Nat) (parent : Option Nat) : JT → Db
  | .ref _ => db
  | .job i _ _ _ => if i.prov then jobStart db eid parent i else db

/-- Scheduler events that write to the database, in the order they happened. -/
inductive Ev where
  | start (eid : Nat) (parent : Option Nat) (t : JT)
  | finish (eid : Nat) (parent : Option Nat) (t : JT)
  deriving Repr, Inhabited

def step (db : Db) : Ev → Db
  | .start e p t => startJob db e p t
  | .finish e p t => finishJob db e p t

def run (db : Db) (evs : List Ev) : Db := evs.foldl step db

def JT.jid? : JT → Option Nat
  | .job i _ _ _ => some i.jid
  | .ref _ => none

mutual
  /-- The recorder as a fold over the job tree: every job starts, its children run to completion
  left to right, then it ends (one admissible order; `run` accepts any). -/
  def events (eid : Nat) (parent : Option Nat) : JT → List Ev
    | .ref _ => []
    | .job i l s kids =>
      Ev.start eid parent (.job i l s kids) :: (eventsL eid (some i.jid) kids ++ [Ev.finish eid parent (.job i l s kids)])
  def eventsL (eid : Nat) (parent : Option Nat) : List JT → List Ev
    | [] => []
    | k :: ks => events eid parent k ++ eventsL eid parent ks
end

/-- Children of `p` according to the `CallEdge` rows, in insertion (= call) order. -/
def edgeKids (db : Db) (p : H) : List H :=
  (db.edges.filter fun e => H.eqb e.1 p).map fun e => e.2.1

/-- A content-addressed value table (`record_value`): key = hash of the value. -/
def recordValue {V : Type} (vh : V → Nat) (st : List (Nat × V)) (v : V) : List (Nat × V) :=
  if st.any (fun p => p.1 = vh v) then st else st ++ [(vh v, v)]

end RedunModel.Merkle
