/-
Model of redun/scripting.py (`prepare_command`, `get_command_eof`, `get_wrapped_command`, `script`,
`postprocess_script`) and of the staging classes of redun/file.py (`File.stage`,
`StagingFile/StagingDir.render_stage/render_unstage`, local file system only), plus the two pieces of
Python/bash semantics the property depends on: `textwrap.dedent`, `str.strip`, `str.split("\n")`,
`shlex.quote/join`, and bash's rule for a here-document with a quoted delimiter.
Core Lean only.  Text is `List Char`.
-/
namespace RedunModel.Script

abbrev Str := List Char

/-! ### `str.split("\n")` and `"\n".join` -/

/-- Python `s.split("\n")` (never empty). -/
def splitNL : Str → List Str
  | [] => [[]]
  | c :: cs =>
    if c = '\n' then [] :: splitNL cs
    else match splitNL cs with
      | [] => [[c]]
      | l :: ls => (c :: l) :: ls

/-- Python `"\n".join(lines)`. -/
def joinNL : List Str → Str
  | [] => []
  | [l] => l
  | l :: l2 :: ls => l ++ '\n' :: joinNL (l2 :: ls)

/-! ### decimal text of a natural number (`str(index)`) -/

def digitChar (n : Nat) : Char := Char.ofNat (48 + n)

/-- structural on the fuel so that closed instances reduce; `fuel ≥ n` always suffices -/
def natCharsAux : Nat → Nat → Str
  | 0, n => [digitChar (n % 10)]
  | fuel + 1, n => if n < 10 then [digitChar n] else natCharsAux fuel (n / 10) ++ [digitChar (n % 10)]

def natChars (n : Nat) : Str := natCharsAux n n

/-! ### `get_command_eof` -/

/-- The `index`-th terminator candidate: `eof_prefix`, `eof_prefix + "1"`, `eof_prefix + "2"`, … -/
def eofCand (pfx : Str) (i : Nat) : Str := if i = 0 then pfx else pfx ++ natChars i

/-- The `while True` loop of `get_command_eof`, with explicit fuel (`none` = fuel exhausted, i.e. the
loop would still be running). -/
def eofLoop (lines : List Str) (pfx : Str) : Nat → Nat → Option Str
  | 0, _ => none
  | fuel + 1, i => if eofCand pfx i ∈ lines then eofLoop lines pfx fuel (i + 1) else some (eofCand pfx i)

/-- `get_command_eof(command, eof_prefix)`; the fuel `lines.length + 1` is proved sufficient. -/
def commandEof (cmd pfx : Str) : Option Str :=
  eofLoop (splitNL cmd) pfx ((splitNL cmd).length + 1) 0

/-! ### `get_wrapped_command` -/

def wrapHead : Str := "(\n# Save command to temp file.\nCOMMAND_FILE=\"$(mktemp)\"".toList
def catPrefix : Str := "cat > \"$COMMAND_FILE\" <<\"".toList
def wrapFoot : Str :=
  "\n# Execute temp file.\nchmod +x \"$COMMAND_FILE\"\n\"$COMMAND_FILE\"\nRETCODE=$?\n\n# Remove temp file.\nrm \"$COMMAND_FILE\"\n\nexit $RETCODE\n)\n".toList

/-- The template of `get_wrapped_command` for a given terminator. -/
def wrapWith (cmd eof : Str) : Str :=
  wrapHead ++ '\n' :: (catPrefix ++ eof ++ ['"']) ++ '\n' :: cmd ++ '\n' :: eof ++ '\n' :: wrapFoot

def wrap (cmd pfx : Str) : Option Str := (commandEof cmd pfx).map (wrapWith cmd)

/-! ### bash: here-document with a quoted delimiter
Trusted rule (bash manual, "Here Documents"): if any part of the delimiter word is quoted, the
delimiter is the result of quote removal on the word, the lines of the here-document are not
expanded, and the document ends at the first line that is *equal* to the delimiter.  The reader below
finds the first line that starts a `cat > "$COMMAND_FILE" <<"…"` redirection and returns the bytes that
`cat` writes to the temp file. -/

def parseDelim (line : Str) : Option Str :=
  if catPrefix.isPrefixOf line then
    let r := line.drop catPrefix.length
    if r.getLast? = some '"' then some r.dropLast else none
  else none

/-- Each here-document line followed by a newline. -/
def unlines : List Str → Str
  | [] => []
  | l :: ls => l ++ '\n' :: unlines ls

/-- Lines after the redirection line → (document lines) if a terminator line exists. -/
def heredocBody (delim : Str) : List Str → Option (List Str)
  | [] => none                 -- unterminated here-document (bash warns and takes all; modelled as failure)
  | l :: ls => if l = delim then some [] else (heredocBody delim ls).map (l :: ·)

def findHeredoc : List Str → Option Str
  | [] => none
  | l :: ls =>
    match parseDelim l with
    | some d => (heredocBody d ls).map unlines
    | none => findHeredoc ls

/-- Content of the temp file that the wrapped script writes. -/
def tempFileOf (script : Str) : Option Str := findHeredoc (splitNL script)

/-! ### `textwrap.dedent`, `str.strip`, `prepare_command` -/

def isSpTab (c : Char) : Bool := c = ' ' || c = '\t'

/-- `_whitespace_only_re.sub('', text)` on one line: a line of only spaces/tabs becomes empty. -/
def normBlank (l : Str) : Str := if l.all isSpTab then [] else l

/-- longest common prefix -/
def lcp : Str → Str → Str
  | a :: as, b :: bs => if a = b then a :: lcp as bs else []
  | _, _ => []

/-- The `margin` loop of `dedent`: `none` until the first indented/non-blank line. -/
def marginStep (m : Option Str) (l : Str) : Option Str :=
  if l.all isSpTab then m            -- `_leading_whitespace_re` does not match blank lines
  else match m with
    | none => some (l.takeWhile isSpTab)
    | some mg => some (lcp mg (l.takeWhile isSpTab))

def margin (lines : List Str) : Option Str := lines.foldl marginStep none

/-- `re.sub(r'(?m)^' + margin, '', text)` on one line. -/
def stripMargin (mg l : Str) : Str := if mg.isPrefixOf l then l.drop mg.length else l

def dedentLines (lines : List Str) : List Str :=
  let ls := lines.map normBlank
  match margin ls with
  | some mg => if mg = [] then ls else ls.map (stripMargin mg)
  | none => ls

/-- `textwrap.dedent` (CPython 3.12). -/
def dedent (s : Str) : Str := joinNL (dedentLines (splitNL s))

/-- `str.isspace` for a single character (Unicode White_Space as CPython defines it). -/
def isPySpace (c : Char) : Bool :=
  let n := c.toNat
  (9 ≤ n && n ≤ 13) || (28 ≤ n && n ≤ 32) || n = 0x85 || n = 0xa0 || n = 0x1680 ||
  (0x2000 ≤ n && n ≤ 0x200a) || n = 0x2028 || n = 0x2029 || n = 0x202f || n = 0x205f || n = 0x3000

def lstrip (s : Str) : Str := s.dropWhile isPySpace
def rstrip (s : Str) : Str := (s.reverse.dropWhile isPySpace).reverse
/-- `str.strip()` -/
def strip (s : Str) : Str := rstrip (lstrip s)

/-- `DEFAULT_SHELL.rstrip("\n")` -/
def defaultShell : Str := "#!/usr/bin/env bash\nset -exo pipefail".toList

def startsShebang (s : Str) : Bool := "#!".toList.isPrefixOf s

/-- `prepare_command(command)` with the default `default_shell`. -/
def prepare (cmd : Str) : Str :=
  let c := strip (dedent cmd)
  if startsShebang c then c else defaultShell ++ '\n' :: c

/-! ### `shlex.quote`, `shlex.join` -/

def isShSafe (c : Char) : Bool :=
  let n := c.toNat
  (48 ≤ n && n ≤ 57) || (65 ≤ n && n ≤ 90) || (97 ≤ n && n ≤ 122) ||
  c = '_' || c = '@' || c = '%' || c = '+' || c = '=' || c = ':' || c = ',' || c = '.' || c = '/' || c = '-'

def quoteBody : Str → Str
  | [] => []
  | c :: cs => if c = '\'' then "'\"'\"'".toList ++ quoteBody cs else c :: quoteBody cs

def shQuote (s : Str) : Str :=
  if s = [] then "''".toList
  else if s.all isShSafe then s
  else '\'' :: quoteBody s ++ ['\'']

def joinSp : List Str → Str
  | [] => []
  | [l] => l
  | l :: l2 :: ls => l ++ ' ' :: joinSp (l2 :: ls)

def shJoin (argv : List Str) : Str := joinSp (argv.map shQuote)

/-! ### nested values (the part of `map_nested_value` / `iter_nested_value` used by `script`) -/

/-- container kinds: list, tuple, named tuple (class name), dict (children = keys then values),
one-element-or-empty set -/
inductive Kind where
  | list | tuple | ntuple | dict | set
  deriving DecidableEq, Repr

inductive NV (α : Type) where
  | leaf (a : α)
  | node (k : Kind) (cs : List (NV α))
  deriving Repr

mutual
  def mapNV {α β : Type} (f : α → β) : NV α → NV β
    | .leaf a => .leaf (f a)
    | .node k cs => .node k (mapNVs f cs)
  def mapNVs {α β : Type} (f : α → β) : List (NV α) → List (NV β)
    | [] => []
    | c :: cs => mapNV f c :: mapNVs f cs
end

mutual
  /-- `iter_nested_value`: explicit stack, so the last child is visited first. -/
  def iterNV {α : Type} : NV α → List α
    | .leaf a => [a]
    | .node _ cs => iterNVs cs
  def iterNVs {α : Type} : List (NV α) → List α
    | [] => []
    | c :: cs => iterNVs cs ++ iterNV c
end

mutual
  /-- the shape of a nested value: everything but the leaves -/
  def shape {α : Type} : NV α → NV Unit
    | .leaf _ => .leaf ()
    | .node k cs => .node k (shapes cs)
  def shapes {α : Type} : List (NV α) → List (NV Unit)
    | [] => []
    | c :: cs => shape c :: shapes cs
end

/-! ### file values and staging -/

/-- the three class families of file.py: `File`, `IFile`, `ContentFile` (and their Dir/Staging classes) -/
inductive Fam where
  | plain | imm | content
  deriving DecidableEq, Repr

/-- a `File`/`Dir` object: its class family and path (`isDir` selects `Dir`) -/
structure FRef where
  fam : Fam
  isDir : Bool
  path : Str
  deriving DecidableEq, Repr

inductive Leaf where
  | fref (f : FRef)                               -- File / Dir (any family)
  | staging (fam : Fam) (isDir : Bool) (loc rem : FRef)   -- StagingFile / StagingDir of family `fam`
  | other (tag : Str)                             -- any other leaf value (int, str, …)
  | result                                        -- the script task's result (stdout bytes)
  deriving DecidableEq, Repr

/-- `LocalFileSystem.shell_copy(src, dest, recursive)` for two local paths. -/
def shellCopy (recursive : Bool) (src dst : Str) : Str :=
  (if recursive then "cp -r ".toList else "cp ".toList) ++ shQuote src ++ ' ' :: shQuote dst

inductive Err where
  | attributeError         -- a non-staging leaf among `inputs` has no `render_stage`
  | nonTerminating         -- `get_command_eof` out of fuel (proved impossible)
  deriving DecidableEq, Repr

/-- `Staging.render_stage` -/
def renderStage : Leaf → Except Err Str
  | .staging _ d l r => .ok (if l.path = r.path then [] else shellCopy d r.path l.path)
  | _ => .error .attributeError

/-- `Staging.render_unstage` (only ever called on staging leaves) -/
def renderUnstage : Leaf → Option Str
  | .staging _ d l r => some (if l.path = r.path then [] else shellCopy d l.path r.path)
  | _ => none

/-- `preprocess_output` of `script()`: output `File`s other than `-` are self-staged
(`value.stage(value.path)`; `os.path.join(p, basename(p)) = p` when `p` ends in `/`). -/
def preprocessOutput : Leaf → Leaf
  | .fref f =>
    if !f.isDir && f.path ≠ ['-'] then .staging f.fam false ⟨f.fam, false, f.path⟩ f else .fref f
  | l => l

/-- `get_file` of `script()` (inputs, for reactivity): staging pairs become their remote file. -/
def inputArg : Leaf → Leaf
  | .staging _ _ _ r => .fref r
  | l => l

/-- `get_file` of `postprocess_script`: stdout file ↦ result, staging pair ↦ remote file. -/
def postLeaf : Leaf → Leaf
  | .fref f => if !f.isDir && f.path = ['-'] then .result else .fref f
  | .staging _ _ _ r => .fref r
  | l => l

def postprocess (outputs : NV Leaf) : NV Leaf := mapNV postLeaf outputs

def mapExcept {α β ε : Type} (f : α → Except ε β) : List α → Except ε (List β)
  | [] => .ok []
  | a :: as => match f a with
    | .error e => .error e
    | .ok b => match mapExcept f as with
      | .error e => .error e
      | .ok bs => .ok (b :: bs)

structure ScriptCall where
  parts : List Str          -- `command_parts`
  full : Str                -- `full_command`
  inputArgs : NV Leaf       -- second argument of `_script`
  outputs : NV Leaf         -- third argument of `_script` (preprocessed)
  deriving Repr

/-- `shlex.join(["cd", temp_path])` when `tempdir=True` -/
def cdPart (temp : Option Str) : List Str :=
  match temp with
  | some t => [shJoin ["cd".toList, t]]
  | none => []

/-- `script(command, inputs, outputs, tempdir)`; `cmd` already `shlex.join`ed when given as a list;
`temp` = the directory `mkdtemp` returned when `tempdir=True`. -/
def scriptCall (cmd : Str) (inputs outputs : NV Leaf) (temp : Option Str) : Except Err ScriptCall :=
  let outs := mapNV preprocessOutput outputs
  match mapExcept renderStage (iterNV inputs) with
  | .error e => .error e
  | .ok stages =>
    match wrap (prepare cmd) "EOF".toList with
    | none => .error .nonTerminating
    | some w =>
      let unstages := (iterNV outs).filterMap renderUnstage
      let parts := cdPart temp ++ stages ++ [w] ++ unstages
      .ok { parts := parts, full := joinNL parts, inputArgs := mapNV inputArg inputs, outputs := outs }

/-- what `script_task` finally executes: `get_task_command` applies `prepare_command` once more to
the full command. -/
def executedScript (full : Str) : Str := prepare full

end RedunModel.Script
