/-
Model of redun/bcoding.py (`bencode`) — the canonical structure encoding behind `hash_struct`.
Core Lean only.  Bytes are `UInt8`.
-/
namespace RedunModel.BStruct

mutual
  /-- What `bencode` distinguishes: ints, byte strings, lists, dicts (ordered item list). -/
  inductive BVal where
    | int (z : Int)
    | bytes (b : List UInt8)
    | list (l : BList)
    | dict (d : BDict)
  inductive BList where
    | nil
    | cons (v : BVal) (t : BList)
  inductive BDict where
    | nil
    | cons (k : List UInt8) (v : BVal) (t : BDict)
end

/-- ASCII decimal digits of a natural number (Python `str(n).encode()` for `n ≥ 0`). -/
def digitByte (n : Nat) : UInt8 := UInt8.ofNat (48 + n)

def natDigits (n : Nat) : List UInt8 :=
  if n < 10 then [digitByte n] else natDigits (n / 10) ++ [digitByte (n % 10)]
decreasing_by omega

/-- `str(z).encode()` -/
def intDigits (z : Int) : List UInt8 :=
  if z < 0 then 45 :: natDigits (-z).toNat else natDigits z.toNat

def encBytes (b : List UInt8) : List UInt8 := natDigits b.length ++ 58 :: b

mutual
  /-- `bencode` on an already normalised structure. -/
  def enc : BVal → List UInt8
    | .int z => 105 :: intDigits z ++ [101]
    | .bytes b => encBytes b
    | .list l => 108 :: encList l
    | .dict d => 100 :: encDict d
  def encList : BList → List UInt8
    | .nil => [101]
    | .cons v t => enc v ++ encList t
  def encDict : BDict → List UInt8
    | .nil => [101]
    | .cons k v t => encBytes k ++ (enc v ++ encDict t)
end

/-! ### Python-side values and `norm` (what `_bencode_to_file` accepts and how) -/

inductive PyKey where
  | str (utf8 : List UInt8)      -- a `str` key, given by its UTF-8 bytes
  | bytes (b : List UInt8)
  | other                         -- int / tuple / None ... keys: TypeError
  deriving DecidableEq, Repr

mutual
  inductive PyVal where
    | int (z : Int)
    | bool (b : Bool)
    | none
    | float                       -- opaque: always rejected
    | str (utf8 : List UInt8)
    | bytes (b : List UInt8)
    | list (l : PyList)
    | tuple (l : PyList)
    | dict (d : PyDict)
  inductive PyList where
    | nil
    | cons (v : PyVal) (t : PyList)
  inductive PyDict where
    | nil
    | cons (k : PyKey) (v : PyVal) (t : PyDict)
end

/-- Lexicographic order on byte strings (Python `bytes.__lt__`; for `str` keys code-point order,
which coincides with byte order of the UTF-8 encodings — trusted). -/
def bytesLt : List UInt8 → List UInt8 → Bool
  | [], [] => false
  | [], _ :: _ => true
  | _ :: _, [] => false
  | a :: as, b :: bs => if a < b then true else if b < a then false else bytesLt as bs

/-- Insert an item into a key-sorted association list. -/
def insertItem (k : List UInt8) (v : BVal) : BDict → BDict
  | .nil => .cons k v .nil
  | .cons k' v' t => if bytesLt k k' then .cons k v (.cons k' v' t) else .cons k' v' (insertItem k v t)

/-- kind of keys seen so far: 0 = none, 1 = str, 2 = bytes -/
def keyKind : PyKey → Option (Nat × List UInt8)
  | .str u => some (1, u)
  | .bytes b => some (2, b)
  | .other => none

mutual
  def norm : PyVal → Option BVal
    | .int z => some (.int z)
    | .bool _ => none
    | .none => none
    | .float => none
    | .str u => some (.bytes u)
    | .bytes b => some (.bytes b)
    | .list l => (normList l).map .list
    | .tuple l => (normList l).map .list
    | .dict d => (normDict d 0).map .dict
  def normList : PyList → Option BList
    | .nil => some .nil
    | .cons v t => do
      let v' ← norm v
      let t' ← normList t
      pure (.cons v' t')
  /-- `kind`: the kind of the keys seen so far (`sorted` raises TypeError on a str/bytes mix,
  `_encode_buffer` raises on any other key type). Insertion sort by key = `sorted(items)`. -/
  def normDict : PyDict → Nat → Option BDict
    | .nil, _ => some .nil
    | .cons k v t, kind =>
      match keyKind k with
      | none => none
      | some (kk, kb) =>
        if kind ≠ 0 ∧ kind ≠ kk then none
        else do
          let v' ← norm v
          let t' ← normDict t kk
          pure (insertItem kb v' t')
end

end RedunModel.BStruct
