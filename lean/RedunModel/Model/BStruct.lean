/-
Model of redun/bcoding.py (`bencode`) — the canonical structure encoding behind `hash_struct`.
Core Lean only.  Bytes are `UInt8`.
-/
namespace RedunModel.BStruct

mutual
  /-- What `bencode` distinguishes: ints, byte strings, lists, dicts (ordered item list). -/
  inductive BVal where
    | int (z : Int)
    | bytes (b : List UInt8)
    | list (l : BList)
    | dict (d : BDict)
  inductive BList where
    | nil
    | cons (v : BVal) (t : BList)
  inductive BDict where
    | nil
    | cons (k : List UInt8) (v : BVal) (t : BDict)
end

/-- ASCII decimal digits of a natural number (Python `str(n).encode()` for `n ≥ 0`). -/
def digitByte (n : Nat) : UInt8 := UInt8.ofNat (48 + n)

def natDigits (n : Nat) : List UInt8 :=
  if n < 10 then [digitByte n] else natDigits (n / 10) ++ [digitByte (n % 10)]
decreasing_by omega

/-- linear-time digits for the compiled driver (`natDigits` appends at the end: quadratic, slow on the
4300-digit ints at the `str()` cap); `natDigits_eq_fast` is the proof that the compiler may swap them -/
def natDigitsGo (n : Nat) (acc : List UInt8) : List UInt8 :=
  if n < 10 then digitByte n :: acc else natDigitsGo (n / 10) (digitByte (n % 10) :: acc)
decreasing_by omega

theorem natDigitsGo_eq (n : Nat) : ∀ acc, natDigitsGo n acc = natDigits n ++ acc := by
  fun_induction natDigits n with
  | case1 n h => intro acc; rw [natDigitsGo, if_pos h]; rfl
  | case2 n h ih => intro acc; rw [natDigitsGo, if_neg h, ih]; simp

def natDigitsFast (n : Nat) : List UInt8 := natDigitsGo n []

@[csimp] theorem natDigits_eq_fast : @natDigits = @natDigitsFast := by
  funext n; rw [natDigitsFast, natDigitsGo_eq]; simp

/-- `str(z).encode()` -/
def intDigits (z : Int) : List UInt8 :=
  if z < 0 then 45 :: natDigits (-z).toNat else natDigits z.toNat

def encBytes (b : List UInt8) : List UInt8 := natDigits b.length ++ 58 :: b

mutual
  /-- `bencode` on an already normalised structure. -/
  def enc : BVal → List UInt8
    | .int z => 105 :: intDigits z ++ [101]
    | .bytes b => encBytes b
    | .list l => 108 :: encList l
    | .dict d => 100 :: encDict d
  def encList : BList → List UInt8
    | .nil => [101]
    | .cons v t => enc v ++ encList t
  def encDict : BDict → List UInt8
    | .nil => [101]
    | .cons k v t => encBytes k ++ (enc v ++ encDict t)
end

/-! ### The int -> decimal conversion cap (Python ≥ 3.11, `sys.get_int_max_str_digits()` = 4300)

`_encode_int` calls `str(integer)`, which raises `ValueError` when the integer has more than 4300
decimal digits (sign not counted): such ints are *rejected* by `bencode`, not encoded.  `enc` itself is
total on `Int`; `encodable` is the guard, `encodeE` (below) the guarded encoder that the driver runs. -/
def intMaxStrDigits : Nat := 4300

/-- `str(z)` succeeds: at most 4300 decimal digits -/
def intFits (z : Int) : Bool := decide ((natDigits z.natAbs).length ≤ intMaxStrDigits)

mutual
  /-- every int inside is within the cap -/
  def encodable : BVal → Bool
    | .int z => intFits z
    | .bytes _ => true
    | .list l => encodableList l
    | .dict d => encodableDict d
  def encodableList : BList → Bool
    | .nil => true
    | .cons v t => encodable v && encodableList t
  def encodableDict : BDict → Bool
    | .nil => true
    | .cons _ v t => encodable v && encodableDict t
end

/-! ### Python-side values and `norm` (what `_bencode_to_file` accepts and how) -/

inductive PyKey where
  | str (utf8 : List UInt8)      -- a `str` key, given by its UTF-8 bytes
  | bytes (b : List UInt8)
  | other                         -- int / tuple / None ... keys: TypeError
  deriving DecidableEq, Repr

mutual
  inductive PyVal where
    | int (z : Int)
    | bool (b : Bool)
    | none
    | float                       -- opaque: always rejected
    | str (utf8 : List UInt8)
    | bytes (b : List UInt8)
    | list (l : PyList)
    | tuple (l : PyList)
    | dict (d : PyDict)
  inductive PyList where
    | nil
    | cons (v : PyVal) (t : PyList)
  inductive PyDict where
    | nil
    | cons (k : PyKey) (v : PyVal) (t : PyDict)
end

/-- Lexicographic order on byte strings (Python `bytes.__lt__`; for `str` keys code-point order,
which coincides with byte order of the UTF-8 encodings — trusted). -/
def bytesLt : List UInt8 → List UInt8 → Bool
  | [], [] => false
  | [], _ :: _ => true
  | _ :: _, [] => false
  | a :: as, b :: bs => if a < b then true else if b < a then false else bytesLt as bs

/-- Insert an item into a key-sorted association list. -/
def insertItem (k : List UInt8) (v : BVal) : BDict → BDict
  | .nil => .cons k v .nil
  | .cons k' v' t => if bytesLt k k' then .cons k v (.cons k' v' t) else .cons k' v' (insertItem k v t)

/-- kind of keys seen so far: 0 = none, 1 = str, 2 = bytes -/
def keyKind : PyKey → Option (Nat × List UInt8)
  | .str u => some (1, u)
  | .bytes b => some (2, b)
  | .other => none

mutual
  def norm : PyVal → Option BVal
    | .int z => some (.int z)
    | .bool _ => none
    | .none => none
    | .float => none
    | .str u => some (.bytes u)
    | .bytes b => some (.bytes b)
    | .list l => (normList l).map .list
    | .tuple l => (normList l).map .list
    | .dict d => (normDict d 0).map .dict
  def normList : PyList → Option BList
    | .nil => some .nil
    | .cons v t => do
      let v' ← norm v
      let t' ← normList t
      pure (.cons v' t')
  /-- `kind`: the kind of the keys seen so far (`sorted` raises TypeError on a str/bytes mix,
  `_encode_buffer` raises on any other key type). Insertion sort by key = `sorted(items)`. -/
  def normDict : PyDict → Nat → Option BDict
    | .nil, _ => some .nil
    | .cons k v t, kind =>
      match keyKind k with
      | none => none
      | some (kk, kb) =>
        if kind ≠ 0 ∧ kind ≠ kk then none
        else do
          let v' ← norm v
          let t' ← normDict t kk
          pure (insertItem kb v' t')
end

/-- exceptions of `bencode`: `TypeError` (bool/None/float, bad or mixed keys), `ValueError` (an int beyond
the `str()` digit cap) -/
inductive EncErr where
  | type | value
  deriving DecidableEq, Repr

/-- `bencode(x)`: the bytes, or the exception class.  When a structure contains both a cause of
TypeError and an over-cap int, the real code raises whichever it meets first while writing (dict keys
are checked and sorted before any value is written); the model answers `type` — rejected either way. -/
def encodeE (x : PyVal) : Except EncErr (List UInt8) :=
  match norm x with
  | none => .error .type
  | some v => if encodable v then .ok (enc v) else .error .value

/-- A Python dict given by its item list (insertion order). -/
def PyDict.ofItems : List (PyKey × PyVal) → PyDict
  | [] => .nil
  | (k, v) :: t => .cons k v (PyDict.ofItems t)

/-! ### Decoder: `bdecode` (redun/bcoding.py:73-176)

`bdecode` returns `None` for the end marker `e`; `_decode_list` stops at the first `None` item,
`_decode_dict` stops at the first `None` *key* but stores a `None` *value* (`d1:ae` decodes to
`{'a': None}`), and the top level returns `None` for `e`.  So the decoded values need a `none`.
Strings come back as bytes: the str-vs-bytes guess of `_decode_buffer` (valid UTF-8 ⇒ `str`) is not
modelled (the harness compares up to it).  Dicts come back as the item sequence in stream order,
duplicates included; the Python dict built from it is `canonD` (last binding wins; compared sorted
by key bytes). -/
mutual
  inductive DVal where
    | none
    | int (z : Int)
    | bytes (b : List UInt8)
    | list (l : DList)
    | dict (d : DDict)
  inductive DList where
    | nil
    | cons (v : DVal) (t : DList)
  inductive DDict where
    | nil
    | cons (k : List UInt8) (v : DVal) (t : DDict)
end

mutual
  /-- the decoded form of an encodable structure -/
  def ofB : BVal → DVal
    | .int z => .int z
    | .bytes b => .bytes b
    | .list l => .list (ofBList l)
    | .dict d => .dict (ofBDict d)
  def ofBList : BList → DList
    | .nil => .nil
    | .cons v t => .cons (ofB v) (ofBList t)
  def ofBDict : BDict → DDict
    | .nil => .nil
    | .cons k v t => .cons k (ofB v) (ofBDict t)
end

/-- Exceptions of `bdecode`: `TypeError` (unknown type byte / missing `e`), `ValueError` (end of data
inside an int or string, `int()` rejects the digits, string shorter than its length prefix),
`AssertionError` (dict key that is not a string), `OverflowError` (`f.read(n)` with `n ≥ 2^63`);
`fuel` is the model's own out-of-fuel answer, unreachable from `decode` (`decode_ne_fuel`). -/
inductive DErr where
  | type | value | assertion | overflow | fuel
  deriving DecidableEq, Repr

def isSpaceB (c : UInt8) : Bool := c == 32 || (9 ≤ c && c ≤ 13)   -- Py_ISSPACE
def isDigitB (c : UInt8) : Bool := 48 ≤ c && c ≤ 57
def digitVal (c : UInt8) : Nat := c.toNat - 48

/-- `_readuntil(f, end)`: the bytes before the first `e`, and what follows it; `none` = data ended
(`ValueError`). -/
def readUntil (e : UInt8) : List UInt8 → Option (List UInt8 × List UInt8)
  | [] => none
  | c :: t =>
    if c = e then some ([], t)
    else match readUntil e t with
      | some (a, r) => some (c :: a, r)
      | none => none

/-- Digits of a base-10 `int()` literal after the first digit: single underscores between digits are
allowed (`1_0`), `1__0`, `1_` and `1_x` are not.  `us` = the previous byte was an underscore.
Returns the value and the unread rest. -/
def scanDigits : Bool → Nat → List UInt8 → Option (Nat × List UInt8)
  | us, acc, [] => if us then none else some (acc, [])
  | us, acc, c :: t =>
    if isDigitB c then scanDigits false (acc * 10 + digitVal c) t
    else if c = 95 then (if us then none else scanDigits true acc t)
    else if us then none else some (acc, c :: t)

/-- unsigned part of the literal: a digit first, then `scanDigits`, then only whitespace -/
def pyIntNat : List UInt8 → Option Nat
  | [] => none
  | c :: t =>
    if isDigitB c then
      match scanDigits false (digitVal c) t with
      | some (n, rest) => if rest.all isSpaceB then some n else none
      | none => none
    else none

/-- CPython `int(b)` for a bytes-like `b`, base 10, without the digit cap: optional ASCII whitespace,
optional sign, digits with single underscores, optional whitespace.  Leading zeros and `-0` are
accepted.  `none` = `ValueError`. -/
def pyIntCore (bs : List UInt8) : Option Int :=
  match bs.dropWhile isSpaceB with
  | [] => none
  | c :: t =>
    if c = 45 then (pyIntNat t).map fun n => -(Int.ofNat n)
    else if c = 43 then (pyIntNat t).map Int.ofNat
    else (pyIntNat (c :: t)).map Int.ofNat

/-- `int(b)`: `ValueError` also when the literal has more than 4300 digit characters (leading zeros
count; sign, underscores and whitespace do not) — the `sys.get_int_max_str_digits()` cap. -/
def pyInt (bs : List UInt8) : Option Int :=
  if (bs.filter isDigitB).length > intMaxStrDigits then none else pyIntCore bs

/-- `_decode_buffer`: `int(_readuntil(f, b":"))`, then `f.read(strlen)`. -/
def decBytes (bs : List UInt8) : Except DErr (DVal × List UInt8) :=
  match readUntil 58 bs with
  | none => .error .value
  | some (ds, rest) =>
    match pyInt ds with
    | none => .error .value
    | some z =>
      if z < 0 then .error .value            -- unreachable: `ds` starts with a digit
      else if z.toNat ≥ 2 ^ 63 then .error .overflow
      else if rest.length < z.toNat then .error .value
      else .ok (.bytes (rest.take z.toNat), rest.drop z.toNat)

mutual
  /-- `bdecode` on the unread bytes.  `last` is the last byte of the whole input: at end of data
  `bdecode` reads nothing, its `seek(-1, SEEK_CUR)` steps back onto the last byte and the `else` branch
  re-reads it — so `lle` decodes to `[[]]` and `li1e` to `[1]`, while `l` raises `TypeError`. -/
  def decF (last : Option UInt8) : Nat → List UInt8 → Except DErr (DVal × List UInt8)
    | 0, _ => .error .fuel
    | _ + 1, [] => if last = some 101 then .ok (.none, []) else .error .type
    | fuel + 1, c :: bs =>
      if c = 105 then
        match readUntil 101 bs with
        | none => .error .value
        | some (ds, rest) =>
          match pyInt ds with
          | none => .error .value
          | some z => .ok (.int z, rest)
      else if c = 108 then
        match decListF last fuel bs with
        | .error e => .error e
        | .ok (l, rest) => .ok (.list l, rest)
      else if c = 100 then
        match decDictF last fuel bs with
        | .error e => .error e
        | .ok (d, rest) => .ok (.dict d, rest)
      else if isDigitB c then decBytes (c :: bs)
      else if c = 101 then .ok (.none, bs)
      else .error .type
  /-- `_decode_list` after the `l` -/
  def decListF (last : Option UInt8) : Nat → List UInt8 → Except DErr (DList × List UInt8)
    | 0, _ => .error .fuel
    | fuel + 1, bs =>
      match decF last fuel bs with
      | .error e => .error e
      | .ok (.none, rest) => .ok (.nil, rest)
      | .ok (v, rest) =>
        match decListF last fuel rest with
        | .error e => .error e
        | .ok (t, rest') => .ok (.cons v t, rest')
  /-- `_decode_dict` after the `d`: the key's type is asserted before the value is decoded -/
  def decDictF (last : Option UInt8) : Nat → List UInt8 → Except DErr (DDict × List UInt8)
    | 0, _ => .error .fuel
    | fuel + 1, bs =>
      match decF last fuel bs with
      | .error e => .error e
      | .ok (.none, rest) => .ok (.nil, rest)
      | .ok (.bytes k, rest) =>
        match decF last fuel rest with
        | .error e => .error e
        | .ok (v, rest') =>
          match decDictF last fuel rest' with
          | .error e => .error e
          | .ok (t, r) => .ok (.cons k v t, r)
      | .ok (_, _) => .error .assertion
end

/-- `bdecode(data)` for `data : bytes`: the first value and the unread rest (`f.tell()`).
`bdecode` accepts many inputs that are not encodings of anything (`i-0e`, `i03e`, `i 1_0 e`, `03:abc`,
unsorted or duplicate dict keys, `lle`, `d1:ae`, trailing bytes): this mirrors them; property C14 only
speaks about decoding *encodings* (`dec_enc`). -/
def decode (data : List UInt8) : Except DErr (DVal × List UInt8) :=
  decF data.getLast? (2 * data.length + 2) data

/-! The Python dict that `_decode_dict` builds from the item stream: `ret[key] = value` in stream
order (last binding wins), compared sorted by key bytes. -/
def dInsert (k : List UInt8) (v : DVal) : DDict → DDict
  | .nil => .cons k v .nil
  | .cons k' v' t => if bytesLt k k' then .cons k v (.cons k' v' t) else .cons k' v' (dInsert k v t)

def dHasKey (k : List UInt8) : DDict → Bool
  | .nil => false
  | .cons k' _ t => k == k' || dHasKey k t

mutual
  def canonD : DVal → DVal
    | .none => .none
    | .int z => .int z
    | .bytes b => .bytes b
    | .list l => .list (canonDList l)
    | .dict d => .dict (canonDDict d)
  def canonDList : DList → DList
    | .nil => .nil
    | .cons v t => .cons (canonD v) (canonDList t)
  def canonDDict : DDict → DDict
    | .nil => .nil
    | .cons k v t =>
      let t' := canonDDict t
      if dHasKey k t' then t' else dInsert k (canonD v) t'
end

end RedunModel.BStruct
