/-
Model of the upstream-dataflow bookkeeping of redun (C21): `Expression._upstreams`,
`derive_expression` (redun/expression.py), the duplicate-expression copy in
`Scheduler._evaluate_apply`, `TaskExpression.call_hash` set by `Job.resolve/reject`, `cond`, `catch`,
`apply_tags` (redun/scheduler.py), `_find_arg_upstreams` / `_record_args`
(redun/backends/db/__init__.py).  Core Lean only.

One *scope* = the expression a task body returned, evaluated under one parent job: all expression
objects in it share the scheduler's `_pending_expr[parent_job]` table (keyed by expression hash).
-/
namespace RedunModel.Upstreams

/-- The expression as written (every occurrence is a distinct Python object).
`call key prov args kwnames kwargs defnames defs`: a call of a user task; `key` identifies the call
node it produces (task + evaluated arguments; structurally equal calls have the same key), `prov` is
the call's provenance option, `kwargs` are the explicitly passed keyword arguments (names in
`kwnames`), `defs` the default expressions of the parameters the caller left out (names in
`defnames`).  `op`: a lazy operator (`SimpleExpression`).  `cond c taken a b`: `taken` is the truth
value `c` evaluates to.  `catchE e failed recKey`: `catch(e, Err, recover)`; `failed` says whether
`e` raised a caught error, `recKey` is the call node of `recover(error)`.  `tags v`: `apply_tags(v, …)`. -/
inductive Src where
  | lit (v : Nat)
  | cont (items : List Src)
  | call (key : Nat) (prov : Bool) (args : List Src) (kwnames : List Nat) (kwargs : List Src)
      (defnames : List Nat) (defs : List Src)
  | op (args : List Src)
  | cond (c : Src) (taken : Bool) (a b : Src)
  | catchE (e : Src) (failed : Bool) (recKey : Nat)
  | tags (v : Src)
  deriving Repr, Inhabited

/-- An expression object after evaluation, reduced to what `_find_arg_upstreams` looks at:
`task c`: a (non-scheduler) `TaskExpression` whose `call_hash` bookkeeping is `c`;
`other ups`: any other `Expression` with its current `_upstreams`; `val`: not an expression. -/
inductive Obj where
  | val
  | cont (items : List Obj)
  | task (call : Option Nat)
  | other (ups : List Obj)
  deriving Repr, Inhabited

mutual
  /-- structural equality = equality of expression hashes (what `_pending_expr` is keyed by) -/
  def Src.beq : Src → Src → Bool
    | .lit a, .lit b => a == b
    | .cont a, .cont b => Src.beqL a b
    | .call k p a kn ka dn d, .call k' p' a' kn' ka' dn' d' =>
      k == k' && p == p' && Src.beqL a a' && kn == kn' && Src.beqL ka ka' && dn == dn' && Src.beqL d d'
    | .op a, .op b => Src.beqL a b
    | .cond c t a b, .cond c' t' a' b' => Src.beq c c' && t == t' && Src.beq a a' && Src.beq b b'
    | .catchE e f r, .catchE e' f' r' => Src.beq e e' && f == f' && r == r'
    | .tags v, .tags v' => Src.beq v v'
    | _, _ => false
  def Src.beqL : List Src → List Src → Bool
    | [], [] => true
    | x :: xs, y :: ys => Src.beq x y && Src.beqL xs ys
    | _, _ => false
end

mutual
  /-- `_find_arg_upstreams`: through containers (`iter_nested_value`) and through the `_upstreams` of
  every expression that is not a task call; a task call yields its `call_hash` when it has one. -/
  def findUps : Obj → List Nat
    | .val => []
    | .cont items => findUpsL items
    | .task c => c.toList
    | .other ups => findUpsL ups
  def findUpsL : List Obj → List Nat
    | [] => []
    | o :: os => findUps o ++ findUpsL os
end

mutual
  /-- An expression object that was never evaluated (`call_hash` unset, `_upstreams` = own arguments). -/
  def unev : Src → Obj
    | .lit _ => .val
    | .cont items => .cont (unevL items)
    | .call .. => .task none
    | .op args => .other (unevL args)
    | .cond c _ a b => .other [unev c, unev a, unev b]
    | .catchE e _ _ => .other [unev e]
    | .tags v => .other [unev v]
  def unevL : List Src → List Obj
    | [] => []
    | s :: ss => unev s :: unevL ss
end

/-- where an argument sits: `Argument.arg_position` or `Argument.arg_key` -/
inductive Slot where
  | pos (i : Nat)
  | key (name : Nat)
  deriving DecidableEq, Repr, Inhabited

/-- one `Argument` row with its `ArgumentResult` rows: call node, slot, upstream call nodes -/
structure Row where
  call : Nat
  slot : Slot
  ups : List Nat
  deriving DecidableEq, Repr, Inhabited

/-- `_pending_expr[parent_job]`: expression (hash) ↦ the first object evaluated with that hash -/
abbrev St := List (Src × Obj)

def lookup : St → Src → Option Obj
  | [], _ => none
  | (s', o) :: rest, s => if Src.beq s' s then some o else lookup rest s

def posRows (key : Nat) (os : List Obj) : List Row :=
  os.zipIdx.map fun p => { call := key, slot := .pos p.2, ups := findUps p.1 }

def keyRows (key : Nat) (names : List Nat) (os : List Obj) : List Row :=
  (names.zip os).map fun p => { call := key, slot := .key p.1, ups := findUps p.2 }

mutual
  /-- Evaluate one expression occurrence in a scope.  Returns the table, the object's final
  bookkeeping, and the `Argument` rows recorded for the calls evaluated on the way.
  `legacy = true` is the code before the two repairs (duplicate scheduler expressions keep their own
  unevaluated `_upstreams`; defaulted parameters are recorded with the evaluated value as expression). -/
  def evalE (legacy : Bool) : St → Src → St × Obj × List Row
    | st, .lit _ => (st, .val, [])
    | st, .cont items =>
      let r := evalL legacy st items
      (r.1, .cont r.2.1, r.2.2)
    | st, .call key prov args kwnames kwargs defnames defs =>
      match lookup st (.call key prov args kwnames kwargs defnames defs) with
      | some o => (st, o, [])                  -- duplicate TaskExpression: `call_hash` is copied
      | none =>
        let ra := evalL legacy st args
        let rk := evalL legacy ra.1 kwargs
        let rd := evalL legacy [] defs         -- defaults are evaluated under a fresh JobEnv: own table
        let o := Obj.task (if prov then some key else none)
        let dobjs := if legacy then defs.map (fun _ => Obj.val) else rd.2.1
        let rows := if prov then posRows key ra.2.1 ++ keyRows key kwnames rk.2.1 ++ keyRows key defnames dobjs else []
        ((.call key prov args kwnames kwargs defnames defs, o) :: rk.1, o, ra.2.2 ++ rk.2.2 ++ rd.2.2 ++ rows)
    | st, .op args =>
      match lookup st (.op args) with
      | some o => (st, o, [])                  -- duplicate SimpleExpression: `_upstreams` is copied
      | none =>
        let ra := evalL legacy st args
        ((.op args, .other ra.2.1) :: ra.1, .other ra.2.1, ra.2.2)
    | st, .cond c taken a b =>
      match lookup st (.cond c taken a b) with
      | some o => (st, if legacy then unev (.cond c taken a b) else o, [])
      | none =>
        let rc := evalE legacy st c
        match taken with                       -- only the branch taken is ever evaluated
        | true =>
          let rt := evalE legacy rc.1 a
          ((.cond c true a b, .other [rc.2.1, rt.2.1, unev b]) :: rt.1, .other [rc.2.1, rt.2.1, unev b], rc.2.2 ++ rt.2.2)
        | false =>
          let rt := evalE legacy rc.1 b
          ((.cond c false a b, .other [rc.2.1, unev a, rt.2.1]) :: rt.1, .other [rc.2.1, unev a, rt.2.1], rc.2.2 ++ rt.2.2)
    | st, .catchE e failed recKey =>
      match lookup st (.catchE e failed recKey) with
      | some o => (st, if legacy then unev (.catchE e failed recKey) else o, [])
      | none =>
        let re := evalE legacy st e
        if failed then
          -- `derive_expression(expr, error)`, `recover(error_expr)`, `derive_expression(recover_expr, sexpr)`
          let o := Obj.other [.task (some recKey)]
          ((.catchE e failed recKey, o) :: re.1, o,
            re.2.2 ++ [{ call := recKey, slot := .pos 0, ups := findUps (.other [re.2.1]) }])
        else
          ((.catchE e failed recKey, .other [re.2.1]) :: re.1, .other [re.2.1], re.2.2)
    | st, .tags v =>
      match lookup st (.tags v) with
      | some o => (st, if legacy then unev (.tags v) else o, [])
      | none =>
        let rv := evalE legacy st v
        ((.tags v, .other [rv.2.1]) :: rv.1, .other [rv.2.1], rv.2.2)
  def evalL (legacy : Bool) : St → List Src → St × List Obj × List Row
    | st, [] => (st, [], [])
    | st, s :: ss =>
      let r := evalE legacy st s
      let rs := evalL legacy r.1 ss
      (rs.1, r.2.1 :: rs.2.1, r.2.2 ++ rs.2.2)
end

mutual
  /-- Specification: the call nodes an argument value was produced by — the task calls reachable
  from the expression through containers, lazy operators and scheduler tasks, not looking inside a
  task call; of a `cond` only the condition and the branch taken; of a `catch` the recovery call when
  the error was caught. -/
  def producers : Src → List Nat
    | .lit _ => []
    | .cont items => producersL items
    | .call key prov .. => if prov then [key] else []
    | .op args => producersL args
    | .cond c taken a b => producers c ++ (if taken then producers a else producers b)
    | .catchE e failed recKey => if failed then [recKey] else producers e
    | .tags v => producers v
  def producersL : List Src → List Nat
    | [] => []
    | s :: ss => producers s ++ producersL ss
end

def posSpecs (key : Nat) (args : List Src) : List (Nat × Slot × List Nat) :=
  args.zipIdx.map fun p => (key, .pos p.2, producers p.1)

def keySpecs (key : Nat) (names : List Nat) (args : List Src) : List (Nat × Slot × List Nat) :=
  (names.zip args).map fun p => (key, .key p.1, producers p.2)

mutual
  /-- Specification of the `Argument` rows: for every call (recording provenance) at a position that is
  evaluated — not inside the branch of a `cond` that is not taken — one entry per parameter:
  positional, explicit keyword, and defaulted (as keyword), each with the producers of its expression. -/
  def argSpecs : Src → List (Nat × Slot × List Nat)
    | .lit _ => []
    | .cont items => argSpecsL items
    | .call key prov args kwnames kwargs defnames defs =>
      argSpecsL args ++ argSpecsL kwargs ++ argSpecsL defs ++
        (if prov then posSpecs key args ++ keySpecs key kwnames kwargs ++ keySpecs key defnames defs else [])
    | .op args => argSpecsL args
    | .cond c taken a b => argSpecs c ++ (if taken then argSpecs a else argSpecs b)
    | .catchE e failed recKey => argSpecs e ++ (if failed then [(recKey, .pos 0, producers e)] else [])
    | .tags v => argSpecs v
  def argSpecsL : List Src → List (Nat × Slot × List Nat)
    | [] => []
    | s :: ss => argSpecs s ++ argSpecsL ss
end

mutual
  /-- no `cond` / `catch` / `apply_tags` anywhere -/
  def schedFree : Src → Bool
    | .lit _ => true
    | .cont items => schedFreeL items
    | .call _ _ args _ kwargs _ defs => schedFreeL args && schedFreeL kwargs && schedFreeL defs
    | .op args => schedFreeL args
    | .cond .. => false
    | .catchE .. => false
    | .tags _ => false
  def schedFreeL : List Src → Bool
    | [] => true
    | s :: ss => schedFree s && schedFreeL ss
end

end RedunModel.Upstreams
