/-
Base vocabulary for C33 (status filters vs displayed statuses); hand-written, core Lean only.
`RedunModel.Generated.Status` (regenerated from /repo by harness/translate_status.py on every run)
is written in this vocabulary; `RedunModel.Model.Status` gives it its meaning.

* `Row` is what a `Job` row looks like through `CallGraphQuery._join_values`
  (`job ⟕ call_node ⟕ value`): is `end_time` NULL, the `cached` flag (NOT NULL column), and how the row
  links to a result value.
* `Term` is the fragment of SQLAlchemy filter expressions the translator understands, evaluated in
  SQL three-valued logic (`Tv`); a row is returned iff the WHERE term is *true*.
* `PyCond` is the fragment of Python conditions used by `Job.calc_status` (two-valued truthiness).
-/
namespace RedunModel.StatusSql

inductive St where
  | running | cached | failed | done
  deriving DecidableEq, Repr, Inhabited

def St.all : List St := [.running, .cached, .failed, .done]

def St.name : St → String
  | .running => "RUNNING" | .cached => "CACHED" | .failed => "FAILED" | .done => "DONE"

/-- How a job row reaches its result value:
`noCall` — `job.call_hash IS NULL`; `danglingCall` — call_hash set, no such call_node row;
`danglingValue` — call_node found, its value row missing; `error` / `other` — value row found with
type = / ≠ the error type name. -/
inductive Link where
  | noCall | danglingCall | danglingValue | error | other
  deriving DecidableEq, Repr, Inhabited

structure Row where
  endNull : Bool
  cached : Bool
  link : Link
  deriving DecidableEq, Repr, Inhabited

def Link.all : List Link := [.noCall, .danglingCall, .danglingValue, .error, .other]

def Row.all : List Row :=
  [true, false].flatMap fun e => [true, false].flatMap fun c => Link.all.map fun l => ⟨e, c, l⟩

theorem Row.mem_all (r : Row) : r ∈ Row.all := by
  obtain ⟨e, c, l⟩ := r
  cases e <;> cases c <;> cases l <;> decide

/-- SQL truth values -/
inductive Tv where
  | t | f | u
  deriving DecidableEq, Repr

def Tv.ofBool (b : Bool) : Tv := if b then .t else .f
def Tv.and : Tv → Tv → Tv
  | .f, _ => .f | _, .f => .f | .t, .t => .t | _, _ => .u
def Tv.or : Tv → Tv → Tv
  | .t, _ => .t | _, .t => .t | .f, .f => .f | _, _ => .u
def Tv.not : Tv → Tv
  | .t => .f | .f => .t | .u => .u

inductive Col where
  | jobEndTime | jobCallHash | jobCached | valueType
  deriving DecidableEq, Repr

inductive Term where
  | isNull (c : Col)          -- `col.is_(None)`
  | isNotNull (c : Col)       -- `col.isnot(None)` / `col.is_not(None)`
  | isTrue (c : Col)          -- `col.is_(True)`   (Boolean column only)
  | isFalse (c : Col)         -- `col.is_(False)`
  | typeEqErr                 -- `Value.type == REDUN_ERROR_TYPE_NAME`
  | typeNeErr                 -- `Value.type != REDUN_ERROR_TYPE_NAME`
  | and (a b : Term)          -- `a & b`, `sa.and_(a, b)`
  | or (a b : Term)           -- `a | b`, `sa.or_(a, b)`
  | not (a : Term)            -- `~a`, `sa.not_(a)`
  deriving Repr

/-- is the column NULL in the joined row? (`job.cached` is a NOT NULL column) -/
def colNull (r : Row) : Col → Bool
  | .jobEndTime => r.endNull
  | .jobCallHash => r.link == .noCall
  | .jobCached => false
  | .valueType => !(r.link == .error || r.link == .other)

/-- `IS TRUE` / `IS FALSE` are two-valued; only `job.cached` is Boolean (the translator rejects others,
here they are never true). -/
def colIs (r : Row) (b : Bool) : Col → Bool
  | .jobCached => r.cached == b
  | _ => false

def Term.eval (r : Row) : Term → Tv
  | .isNull c => Tv.ofBool (colNull r c)
  | .isNotNull c => Tv.ofBool (!colNull r c)
  | .isTrue c => Tv.ofBool (colIs r true c)
  | .isFalse c => Tv.ofBool (colIs r false c)
  | .typeEqErr => match r.link with | .error => .t | .other => .f | _ => .u
  | .typeNeErr => match r.link with | .error => .f | .other => .t | _ => .u
  | .and a b => (a.eval r).and (b.eval r)
  | .or a b => (a.eval r).or (b.eval r)
  | .not a => (a.eval r).not

inductive Join where
  | inner | outer
  deriving DecidableEq, Repr

/-- Python conditions of `Job.calc_status` -/
inductive PyCond where
  | resultIsErr               -- `result_type == "redun.ErrorValue"`
  | endTimeTruthy             -- `self.end_time`
  | cachedTruthy              -- `self.cached`
  | not (a : PyCond)
  | and (a b : PyCond)
  | or (a b : PyCond)
  deriving Repr

def PyCond.eval (r : Row) : PyCond → Bool
  | .resultIsErr => r.link == .error          -- `result_type` is None without a call node
  | .endTimeTruthy => !r.endNull              -- a datetime is always truthy
  | .cachedTruthy => r.cached
  | .not a => !(a.eval r)
  | .and a b => a.eval r && b.eval r
  | .or a b => a.eval r || b.eval r

end RedunModel.StatusSql
