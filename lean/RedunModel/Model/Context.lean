/-
Model of redun's context machinery (property C26).  Core Lean only.

Mirrors, as they are in /repo:
  * `redun/utils.py::merge_dicts`            → `mergeDicts`
  * `redun/context.py::get_context_value`    → `getPath` / `getContextValue`
  * `redun/task.py::Task.update_context`     → `updateContext`
  * `redun/scheduler.py::Scheduler.run`      → `execContext` (configured context merged with the run context)
  * `redun/scheduler.py::Job.get_context`    → `jobContext` (recursion over the ancestor chain)

A context is a JSON-like value: either a mapping (Python `dict`, insertion ordered, string keys) or anything
else (`leaf`; the payload is an opaque text — the harness sends the JSON dump of the value — only equality
of leaves matters to the code).  `deepMerge` is the *specification* the property talks about ("later keys
win, nested mappings merged"); `Props/C26.lean` proves that the code's n-ary grouping algorithm agrees with it.
-/
namespace RedunModel.Context

inductive Ctx where
  | leaf (v : String)
  | obj (kvs : List (String × Ctx))
  deriving Repr, Inhabited

mutual
def Ctx.size : Ctx → Nat
  | .leaf _ => 1
  | .obj kvs => 1 + sizeKvs kvs
def sizeKvs : List (String × Ctx) → Nat
  | [] => 0
  | (_, v) :: t => v.size + sizeKvs t
end

def sizeL : List Ctx → Nat
  | [] => 0
  | c :: t => c.size + sizeL t

/-- `isinstance(x, dict)` -/
def isObj : Ctx → Bool
  | .obj _ => true
  | .leaf _ => false

/-- `dct.items()` (empty for a non-dict; only used under `all isObj`) -/
def items : Ctx → List (String × Ctx)
  | .obj kvs => kvs
  | .leaf _ => []

/-- `key2values[k]`: the values appended for key `k`, in the order the dicts were visited. -/
def valuesFor (k : String) (its : List (String × Ctx)) : List Ctx :=
  its.filterMap fun p => if p.1 = k then some p.2 else none

/-- Key order of the `defaultdict` `key2values`: first occurrence order. `seen` is reversed. -/
def keyOrder : List String → List String → List String
  | seen, [] => seen.reverse
  | seen, k :: t => if k ∈ seen then keyOrder seen t else keyOrder (k :: seen) t

theorem sizeL_valuesFor_le (k : String) (its : List (String × Ctx)) :
    sizeL (valuesFor k its) ≤ sizeKvs its := by
  induction its with
  | nil => simp [valuesFor, sizeL, sizeKvs]
  | cons p t ih =>
    obtain ⟨k', v⟩ := p
    by_cases hk : k' = k
    · simp only [valuesFor, List.filterMap_cons, hk, if_true, sizeL, sizeKvs] at *; omega
    · simp only [valuesFor, List.filterMap_cons, hk, if_false, sizeKvs] at *; omega

theorem sizeKvs_append (a b : List (String × Ctx)) : sizeKvs (a ++ b) = sizeKvs a + sizeKvs b := by
  induction a with
  | nil => simp [sizeKvs]
  | cons p t ih => obtain ⟨k, v⟩ := p; simp [sizeKvs, ih]; omega

theorem sizeKvs_flatMap_items_lt (ds : List Ctx) (h : ds ≠ []) (hall : ds.all isObj = true) :
    sizeKvs (ds.flatMap items) < sizeL ds := by
  induction ds with
  | nil => exact absurd rfl h
  | cons c t ih =>
    cases c with
    | leaf v => simp [isObj] at hall
    | obj kvs =>
      simp only [List.flatMap_cons, items, sizeKvs_append, sizeL, Ctx.size]
      by_cases ht : t = []
      · subst ht; simp [sizeKvs, sizeL]
      · have := ih ht (by simp [List.all_cons] at hall; simpa using hall.2)
        omega

/-- `merge_dicts(dicts)`, line by line:
    `len(dicts) == 1` ⇒ the element; any non-dict ⇒ the last element; otherwise group values by key in
    first-occurrence order and merge each group recursively.  (`merge_dicts([])` falls through both tests —
    `any([])` is false — and yields `{}`.) -/
def mergeDicts (ds : List Ctx) : Ctx :=
  match ds with
  | [] => .obj []
  | [d] => d
  | d1 :: d2 :: rest =>
    if h : (d1 :: d2 :: rest).all isObj then
      let its := (d1 :: d2 :: rest).flatMap items
      .obj ((keyOrder [] (its.map (·.1))).map fun k => (k, mergeDicts (valuesFor k its)))
    else
      (d1 :: d2 :: rest).getLast (by simp)
termination_by sizeL ds
decreasing_by
  have h1 := sizeL_valuesFor_le k ((d1 :: d2 :: rest).flatMap items)
  have h2 := sizeKvs_flatMap_items_lt (d1 :: d2 :: rest) (by simp) h
  omega

/-! ### Specification: binary deep merge ("later keys win, nested mappings merged") -/

mutual
/-- `deepMerge a b`: if both are mappings, every key of `a` keeps its position and gets the merged value when
    `b` also has it; keys only in `b` follow in `b`'s order.  Otherwise `b` wins. -/
def deepMerge : Ctx → Ctx → Ctx
  | .obj da, .obj db => .obj (mergeKvs da db ++ db.filter fun p => !(da.any fun q => q.1 == p.1))
  | .obj _, .leaf w => .leaf w
  | .leaf _, b => b
def mergeKvs : List (String × Ctx) → List (String × Ctx) → List (String × Ctx)
  | [], _ => []
  | (k, v) :: t, db =>
    (k, match db.lookup k with
        | some w => deepMerge v w
        | none => v) :: mergeKvs t db
end

/-! ### get_context_value -/

/-- The loop of `get_context_value`: `none` = the `return default` / `KeyError` exits. -/
def getPath : Ctx → List String → Option Ctx
  | v, [] => some v
  | .leaf _, _ :: _ => none
  | .obj kvs, p :: ps =>
    match kvs.lookup p with
    | some v => getPath v ps
    | none => none

/-- `get_context_value(context, var_path, default)`; `var_path.split(".")` is `String.splitOn`. -/
def getContextValue (ctx : Ctx) (varPath : String) (default : Ctx) : Ctx :=
  match getPath ctx (varPath.splitOn ".") with
  | some v => v
  | none => default

/-! ### update_context, Scheduler.run, Job.get_context -/

/-- `Task.update_context(context, **kwargs)`: new `_context_override` from the previous one. -/
def updateContext (prev ctx kwargs : Ctx) : Ctx := mergeDicts [prev, ctx, kwargs]

/-- The `_context_override` a call carries after a chain `task.update_context(c₁, **k₁)…update_context(cₙ, **kₙ)`
with `.partial(..)` / `.options(..)` anywhere in between (they leave the override alone: `PartialTask.update_context`
and `PartialTask.options` delegate to the wrapped task): each step updates the previous override, starting from `{}`. -/
def overrideOfChain (steps : List (Ctx × Ctx)) : Ctx :=
  steps.foldl (fun prev s => updateContext prev s.1 s.2) (.obj [])

/-- `Execution(context=merge_dicts([self._context, context]))` in `Scheduler.run`. -/
def execContext (config run : Ctx) : Ctx := mergeDicts [config, run]

/-- `Job.get_context`: the argument lists the `_context_override` of the job itself, then of its parent, …,
    up to the root job (a job without the option contributes `{}`); the root's parent context is the
    execution context. -/
def jobContext (execCtx : Ctx) : List Ctx → Ctx
  | [] => execCtx
  | o :: ancestors => mergeDicts [jobContext execCtx ancestors, o]

/-! ### well-formedness: what a Python dict guarantees (unique keys, recursively) -/

mutual
def Ctx.WF : Ctx → Prop
  | .leaf _ => True
  | .obj kvs => wfKvs kvs ∧ (kvs.map (·.1)).Nodup
def wfKvs : List (String × Ctx) → Prop
  | [] => True
  | (_, v) :: t => v.WF ∧ wfKvs t
end

end RedunModel.Context
