/-
SubrunModules — which modules `subrun` tells the sub-scheduler to import (`load_modules`), redun/scheduler.py `subrun`:

    for _task in registry:
        module_name = _task.load_module
        if module_name.startswith("redun.") and not module_name.startswith("redun.tests."):
            continue
        load_modules_set.add(module_name)
    ... load_modules=sorted(load_modules_set)

A module name is modelled by its dot-separated components (`"redun.scheduler"` = `["redun", "scheduler"]`); names are
well-formed (no empty component), so `startswith("redun.")` is "first component is `redun` and there is a second one".
-/
namespace RedunModel.SubrunModules

abbrev Mod := List String

/-- redun's own modules, which the sub-scheduler has anyway: `redun.*` except `redun.tests.*` -/
def own : Mod → Bool
  | "redun" :: "tests" :: _ :: _ => false
  | "redun" :: _ :: _ => true
  | _ => false

/-- the set `subrun` ships (as a duplicate-free list; the code sorts it) -/
def loadModules : List Mod → List Mod
  | [] => []
  | m :: ms => if own m || (loadModules ms).contains m then loadModules ms else m :: loadModules ms

/-- a user module: anything that is not inside the `redun` package (the bare name `redun`, names that merely start with
the letters "redun" such as `redunflows`, `redun_workflows`, nested packages, `__main__`, ...) -/
def user (m : Mod) : Bool :=
  match m with
  | "redun" :: _ :: _ => false
  | _ => true

end RedunModel.SubrunModules
