/-
Model of the string/index part of the remote job protocol:
  redun/executors/aws_batch.py   get_batch_job_name, get_hash_from_job_name, is_array_job_name,
                                 AWSBatchExecutor.gather_inflight_jobs, the reunite branch of `_submit`
  redun/executors/scratch.py     get_job_scratch_file, get_array_scratch_file,
                                 write_array_job_scratch_files (the four array files)
  redun/cli.py                   the array-index projections of `oneshot_command`
Pickled payloads are opaque values (`α`); what `oneshot` computes from them is outside the model.
Core Lean only.  Text is `List Char`.
-/
import RedunModel.Model.Script
namespace RedunModel.RemoteProto
open RedunModel.Script (Str splitNL joinNL)

/-! ### job names -/

/-- `"-" + ARRAY_JOB_SUFFIX` -/
def arraySuffix : Str := "-array".toList

/-- `get_batch_job_name(prefix, job_hash, array)` -/
def jobName (pfx hash : Str) (array : Bool) : Str :=
  pfx ++ '-' :: hash ++ (if array then arraySuffix else [])

/-- `is_array_job_name` (`str.endswith`) -/
def isArrayJobName (n : Str) : Bool := arraySuffix.isSuffixOf n

def stripArraySuffix (n : Str) : Str :=
  if arraySuffix.isSuffixOf n then n.take (n.length - arraySuffix.length) else n

/-- `re.match(".*-(?P<hash>[^-]+)", name)`: `.*` is greedy and does not cross a newline, so the match
uses the last `-` (before the first newline) that is followed by a non-`-` character; the group is the
maximal `-`-free run after it.  `best` is the group for the best `-` seen so far. -/
def scanHash : Str → Option Str → Option Str
  | [], best => best
  | c :: rest, best =>
    if c = '\n' then best
    else if c = '-' then
      match rest with
      | [] => best
      | c' :: _ => if c' = '-' then scanHash rest best else scanHash rest (some (rest.takeWhile (· ≠ '-')))
    else scanHash rest best

/-- `get_hash_from_job_name` -/
def hashFromJobName (n : Str) : Option Str := scanHash (stripArraySuffix n) none

/-! ### scratch paths -/

/-- `os.path.join(a, b)` (posix) -/
def pathJoin (a b : Str) : Str :=
  match b with
  | '/' :: _ => b
  | _ => if a = [] ∨ a.getLast? = some '/' then a ++ b else a ++ '/' :: b

/-- `get_job_scratch_file(prefix, job, filename)` -/
def jobFile (scratch evalHash name : Str) : Str :=
  pathJoin (pathJoin (pathJoin scratch "jobs".toList) evalHash) name

/-- `get_array_scratch_file(prefix, array_id, filename)` -/
def arrayFile (scratch arrayId name : Str) : Str :=
  pathJoin (pathJoin (pathJoin scratch "array_jobs".toList) arrayId) name

def fOutput : Str := "output".toList
def fError : Str := "error".toList
def fInput : Str := "input".toList
def fHashes : Str := "eval_hashes".toList

/-! ### array jobs -/

/-- the part of a scheduler `Job` the protocol uses: eval hash and the (opaque) call arguments -/
structure RJob (α β : Type) where
  evalHash : Str
  args : α
  kwargs : β

/-- the four files written by `write_array_job_scratch_files` (contents, after `json`/pickle decoding) -/
structure ArrayFiles (α β : Type) where
  allArgs : List α
  allKwargs : List β
  outputPaths : List Str
  errorPaths : List Str
  evalText : Str            -- `"\n".join(eval hashes)`

def writeArrayFiles {α β : Type} (scratch : Str) (jobs : List (RJob α β)) : ArrayFiles α β :=
  { allArgs := jobs.map (·.args)
    allKwargs := jobs.map (·.kwargs)
    outputPaths := jobs.map fun j => jobFile scratch j.evalHash fOutput
    errorPaths := jobs.map fun j => jobFile scratch j.evalHash fError
    evalText := joinNL (jobs.map (·.evalHash)) }

inductive PErr where
  | indexError
  deriving DecidableEq, Repr

def idx {γ : Type} (l : List γ) (i : Nat) : Except PErr γ :=
  match l[i]? with
  | some x => .ok x
  | none => .error .indexError

/-- what array element `i` of `redun oneshot --array-job` works on: its arguments and the paths it
writes its result / error to (`task_args[i]`, `task_kwargs[i]`, `ofiles[i]`, `efiles[i]`) -/
structure Element (α β : Type) where
  args : α
  kwargs : β
  outputPath : Str
  errorPath : Str

def oneshotElement {α β : Type} (f : ArrayFiles α β) (i : Nat) : Except PErr (Element α β) := do
  let e ← idx f.errorPaths i
  let o ← idx f.outputPaths i
  let a ← idx f.allArgs i
  let k ← idx f.allKwargs i
  pure { args := a, kwargs := k, outputPath := o, errorPath := e }

/-- where the scheduler side (`parse_job_result` / `parse_job_error`) looks for job `j` -/
def resultPath {α β : Type} (scratch : Str) (j : RJob α β) : Str := jobFile scratch j.evalHash fOutput
def errorPath {α β : Type} (scratch : Str) (j : RJob α β) : Str := jobFile scratch j.evalHash fError

/-! ### where one array element of `redun oneshot --array-job` writes, for every point at which it can fail -/

/-- the points of `oneshot_command` at which an element can fail: before the task is looked up (code package
extraction, `--import-path`, `import_script`, unknown task), or in the task itself (input unpickling, the task body,
pickling the result) -/
inductive FailAt where
  | code | importScript | taskLookup | task
  deriving DecidableEq, Repr

inductive FileOp where
  | remove (path : Str)
  | writeError (path : Str)
  | writeOutput (path : Str)
  deriving DecidableEq, Repr

def FileOp.path : FileOp → Str
  | .remove p => p
  | .writeError p => p
  | .writeOutput p => p

/-- file operations of array element `i` (`cache = false` is `--no-cache`, which skips removing an old output):
the element's own error path is looked up and cleared *before* the `try`, so every later failure is recorded there -/
def oneshotOps {α β : Type} (f : ArrayFiles α β) (i : Nat) (cache : Bool) (fail : Option FailAt) :
    Except PErr (List FileOp) := do
  let e ← idx f.errorPaths i
  match fail with
  | some .code | some .importScript | some .taskLookup => pure [.remove e, .writeError e]
  | some .task =>
    let o ← idx f.outputPaths i
    pure ([.remove e] ++ (if cache then [.remove o] else []) ++ [.writeError e])
  | none =>
    let o ← idx f.outputPaths i
    pure ([.remove e] ++ (if cache then [.remove o] else []) ++ [.writeOutput o])

/-- a re-run of element `i` when an `output` file of an earlier run may exist: `existing = some true` is a still valid
output (returned as is under the default cache scope, the task is not called), `some false` an invalid one, `none` no file -/
def oneshotRerunOps {α β : Type} (f : ArrayFiles α β) (i : Nat) (cache : Bool) (existing : Option Bool)
    (fail : Option FailAt) : Except PErr (List FileOp) := do
  let e ← idx f.errorPaths i
  if cache && existing == some true && (fail == none || fail == some .task) then pure [.remove e]
  else oneshotOps f i cache fail

/-- is file `p` present after the operations, given whether it was present before -/
def presentAfter (p : Str) : Bool → List FileOp → Bool
  | b, [] => b
  | b, .remove q :: ops => presentAfter p (if q = p then false else b) ops
  | b, .writeError q :: ops => presentAfter p (if q = p then true else b) ops
  | b, .writeOutput q :: ops => presentAfter p (if q = p then true else b) ops

/-! ### job reuniting -/

/-- a job the Batch API reports as in flight; `children` = (child job id, array index) pairs listed for
an array parent -/
structure Inflight where
  name : Str
  jobId : Str
  children : List (Str × Nat)
  deriving Repr

/-- `preexisting_batch_jobs : dict[hash, job id]` as an association list (newest binding first) -/
abbrev Pre := List (Str × Str)

def Pre.set (m : Pre) (k v : Str) : Pre := (k, v) :: m.filter (fun p => p.1 ≠ k)
def Pre.get (m : Pre) (k : Str) : Option Str := (m.find? (fun p => p.1 = k)).map (·.2)
def Pre.pop (m : Pre) (k : Str) : Pre := m.filter (fun p => p.1 ≠ k)

/-- `running_arrays[name] = children`: a later job with the same name replaces the value in place -/
def setArray (arrs : List (Str × List (Str × Nat))) (name : Str) (ch : List (Str × Nat)) :
    List (Str × List (Str × Nat)) :=
  if arrs.any (fun p => p.1 = name) then arrs.map (fun p => if p.1 = name then (name, ch) else p)
  else arrs ++ [(name, ch)]

/-- first loop of `gather_inflight_jobs` -/
def gatherFirst : List Inflight → Pre → List (Str × List (Str × Nat)) → Pre × List (Str × List (Str × Nat))
  | [], pre, arrs => (pre, arrs)
  | j :: js, pre, arrs =>
    if isArrayJobName j.name then gatherFirst js pre (setArray arrs j.name j.children)
    else match hashFromJobName j.name with
      | some h => gatherFirst js (pre.set h j.jobId) arrs
      | none => gatherFirst js pre arrs

def bindChildren (hashes : List Str) : List (Str × Nat) → Pre → Except PErr Pre
  | [], pre => .ok pre
  | (cid, i) :: cs, pre =>
    match hashes[i]? with
    | some h => bindChildren hashes cs (pre.set h cid)
    | none => .error .indexError

/-- second loop; `evalFile parentHash` = lines of the `eval_hashes` file of that array, if it exists -/
def gatherSecond (evalFile : Str → Option (List Str)) : List (Str × List (Str × Nat)) → Pre → Except PErr Pre
  | [], pre => .ok pre
  | (name, ch) :: as, pre =>
    match hashFromJobName name with
    | none => gatherSecond evalFile as pre
    | some parent =>
      match evalFile parent with
      | none => gatherSecond evalFile as pre
      | some hashes =>
        match bindChildren hashes ch pre with
        | .error e => .error e
        | .ok pre' => gatherSecond evalFile as pre'

/-- `gather_inflight_jobs` starting from an empty `preexisting_batch_jobs` -/
def gather (evalFile : Str → Option (List Str)) (jobs : List Inflight) : Except PErr Pre :=
  let (pre, arrs) := gatherFirst jobs [] []
  gatherSecond evalFile arrs pre

/-- the reunite branch of `_submit`: `backend` = the job's cache scope is BACKEND, `alive id` = the
Batch API still describes that job.  Returns the new table and the Batch job id the redun job is
attached to, if any. -/
def reunite (pre : Pre) (backend : Bool) (evalHash : Str) (alive : Str → Bool) : Pre × Option Str :=
  if backend then
    match pre.get evalHash with
    | some id => (pre.pop evalHash, if alive id then some id else none)
    | none => (pre, none)
  else (pre, none)

/-! ### the Batch queue: jobs in every status; only in-flight ones are listed for reuniting -/

inductive Status where
  | submitted | pending | runnable | starting | running | succeeded | failed
  deriving DecidableEq, Repr

/-- `BATCH_JOB_STATUSES.inflight`, in listing order -/
def inflightStatuses : List Status := [.submitted, .pending, .runnable, .starting, .running]

/-- a job as the Batch API holds it; `children` = (child job id, array index, child status) -/
structure BatchJob where
  name : Str
  jobId : Str
  queue : Str
  status : Status
  children : List (Str × Nat × Status)
  deriving Repr

/-- `get_array_child_jobs(job_id, statuses)`: one `list_jobs(arrayJobId, jobStatus)` call per status -/
def listChildren (statuses : List Status) (j : BatchJob) : List (Str × Nat) :=
  statuses.flatMap fun st => (j.children.filter fun c => c.2.2 = st).map fun c => (c.1, c.2.1)

/-- `get_jobs(statuses)`: one `list_jobs(jobQueue, jobStatus)` call per status, names filtered by the
configured `job_name_prefix` -/
def listJobs (queue pfx : Str) (statuses : List Status) (jobs : List BatchJob) : List BatchJob :=
  statuses.flatMap fun st => jobs.filter fun j => j.status = st ∧ j.queue = queue ∧ pfx.isPrefixOf j.name

def toInflight (j : BatchJob) : Inflight :=
  { name := j.name, jobId := j.jobId, children := listChildren inflightStatuses j }

/-- `gather_inflight_jobs` against the queue -/
def gatherQueue (evalFile : Str → Option (List Str)) (queue pfx : Str) (jobs : List BatchJob) : Except PErr Pre :=
  gather evalFile ((listJobs queue pfx inflightStatuses jobs).map toInflight)

/-- `str.splitlines()` restricted to what the eval-hash file contains (`\n`-joined, no other line
separators): the empty text has no lines -/
def evalLines (text : Str) : List Str := if text = [] then [] else splitNL text

end RedunModel.RemoteProto
