/-
Model of `redun/promise.py` (class `Promise`, `Promise.all`, `wait_promises`).

The Python code is synchronous and re-entrant: `do_resolve` calls `_notify`, which calls the registered
callbacks, which (through `wrap_callback`) call user functions, which may call `then`/`do_resolve`/`do_reject`
on any promise, and so on.  Here every Python call frame that can be suspended by such a nested call is an
explicit `Frame` on `State.stack`, and `step` executes one small step of the innermost frame.  A user
function is a script (`Fn.script`): a list of actions followed by an outcome (return a value, return its
argument, raise).  Core Lean only.

Ghost data (does not influence behaviour; used only to state the theorems): `Cb.rid`/`Cb.br` (which `then()` call
created the callback and on which of the two lists it was put), `State.regs` (promise each `then()` call was
made on), `State.during` (was that promise in the middle of a notification with callbacks still waiting),
`Prom.origin` (who created the promise), `Coll.rids` (the `then()` calls made by the loop of `Promise.all` /
`wait_promises` so far), all `Event`s other than `call`, and the distinction between `UFn.bind` (a bound method passed by
the user) and `Fn.adopt` (the same bound method passed by `wrapper` when it adopts a returned promise).
-/
namespace RedunModel.Promise

/-- Python values that flow through promises.  `err e` is an exception object, `prom p` a Promise object. -/
inductive Val where
  | none
  | int (n : Int)
  | err (e : Nat)
  | prom (p : Nat)
  | list (l : List Val)
  deriving Repr, Inhabited

/-- The two callback lists / the two ways to settle. -/
inductive Br where
  | res | rej
  deriving Repr, DecidableEq, Inhabited

inductive Status where
  | pending
  | settled (b : Br) (v : Val)
  deriving Repr, Inhabited

/-- How a user function ends. -/
inductive Outcome where
  | ret (v : Val)
  | retArg
  | raise (e : Nat)
  deriving Repr, Inhabited

mutual
  /-- What user code can pass to `then` as resolver / rejector. -/
  inductive UFn where
    /-- a user function: log `id`, perform `acts`, end with `out` -/
    | script (id : Nat) (acts : List Act) (out : Outcome)
    /-- the bound method `p.do_resolve` / `p.do_reject` (returns its argument) -/
    | bind (b : Br) (p : Nat)
  /-- One statement of a user function (or one top-level operation). -/
  inductive Act where
    | then_ (p : Nat) (r : Option UFn) (j : Option UFn)   -- p.then(r, j)   (catch = then(None, j))
    | settle (b : Br) (p : Nat) (v : Val)                 -- p.do_resolve(v) / p.do_reject(v)
    | settleArg (b : Br) (p : Nat)                        -- p.do_resolve(arg) / p.do_reject(arg)
    | new                                                 -- Promise()
    | newf (acts : List Act) (out : Outcome)              -- Promise(func)
    | all (ps : List Nat)                                 -- Promise.all([...])
    | wait (ps : List Nat)                                -- wait_promises([...])
end

/-- What `wrap_callback.wrapper` can be wrapped around: a function passed by the user, or one of the closures
that `redun/promise.py` itself passes to `then` (user code has no access to those). -/
inductive Fn where
  | user (f : UFn)
  /-- `promise.do_resolve` / `promise.do_reject` passed by `wrapper` itself when it adopts a returned promise:
  `result2.then(promise.do_resolve, promise.do_reject)` -/
  | adopt (b : Br) (p : Nat)
  /-- closures of `Promise.all`: `make_then(i)` and `fail`; of `wait_promises`: `done` (all return None) -/
  | allThen (a : Nat) (i : Nat)
  | allFail (a : Nat)
  | waitDone (w : Nat)

/-- An entry of `_resolvers` / `_rejectors`. `wrap f q`: `wrap_callback(f)` with chained promise `q`;
`direct q`: the bound `q.do_resolve` (on `_resolvers`) or `q.do_reject` (on `_rejectors`). -/
inductive CbKind where
  | wrap (f : Fn) (q : Nat)
  | direct (q : Nat)

structure Cb where
  rid : Nat
  br : Br
  kind : CbKind

/-- ghost: which code created a promise -/
inductive Origin where
  | user                 -- `Promise()` / `Promise(func)` written by the user
  | chained              -- the promise created and returned by `then`
  | coll (a : Nat)       -- the promise returned by the `a`-th `Promise.all` / `wait_promises` call
  deriving DecidableEq, Repr

structure Prom where
  st : Status := .pending
  resolvers : List Cb := []
  rejectors : List Cb := []
  origin : Origin := .user

inductive Mode where
  | all | wait
  deriving DecidableEq, Repr

/-- Closure state of one `Promise.all` call (`results`, `num_done`; `len(results) = len(subpromises)`) or of one
`wait_promises` call (`subpromises`, `num_done`; `results` unused). -/
structure Coll where
  mode : Mode
  target : Nat
  subs : List Nat
  results : List Val
  numDone : Nat
  /-- ghost: the `then()` call numbers of the registrations made by the loop so far -/
  rids : List Nat := []

/-- What happens when a script's statements are exhausted. -/
inductive Kont where
  | wrapper (out : Outcome) (q : Nat)   -- inside `wrapper` of `wrap_callback`, chained promise q
  | ctor (out : Outcome) (p : Nat)      -- inside `Promise.__init__(func)` of promise p
  | top                                 -- a top-level operation

inductive Frame where
  /-- the `for` loop of `_notify`: value and callbacks still to call -/
  | notify (v : Val) (todo : List Cb)
  /-- a user function body -/
  | script (arg : Val) (acts : List Act) (k : Kont)
  /-- `wrapper` after `func` returned `r`, chained promise `q` -/
  | finish (r : Val) (q : Nat)
  /-- the `for i, subpromise in enumerate(subpromises)` loop of `Promise.all` / the `for subpromise in
  subpromises` loop of `wait_promises` (collector `a`, next index `i`, inputs still to visit) -/
  | loop (m : Mode) (a : Nat) (i : Nat) (rest : List Nat)

inductive Event where
  /-- user function `id` called with `v` (observable) -/
  | call (id : Nat) (v : Val)
  /-- ghost: the callback created by `then()` call number `rid` on list `b` was called with `v` -/
  | invoke (rid : Nat) (b : Br) (v : Val)
  /-- an action named a promise that does not exist (outside the domain of the check) -/
  | badRef
  /-- ghost: user code called `q.do_resolve`/`q.do_reject` itself (a statement, or a bound method it passed) -/
  | direct (q : Nat)
  /-- ghost: `wrapper` adopted promise `r` (returned by a callback) for chained promise `q` with `then()` call `rid` -/
  | adopt (q r rid : Nat)

structure State where
  heap : List Prom := []
  colls : List Coll := []
  regs : List Nat := []
  during : List Bool := []
  stack : List Frame := []
  /-- newest event first -/
  log : List Event := []

def push (f : Frame) (s : State) : State := { s with stack := f :: s.stack }
def emit (e : Event) (s : State) : State := { s with log := e :: s.log }
def newProm (o : Origin) (s : State) : State := { s with heap := s.heap ++ [{ origin := o }] }

/-- `do_resolve` / `do_reject` followed by the prologue of `_notify` (take the matching list, drop both). -/
def settle (b : Br) (q : Nat) (v : Val) (s : State) : State :=
  match s.heap[q]? with
  | none => s
  | some pr =>
    match pr.st with
    | .pending =>
      { s with heap := s.heap.set q { pr with st := .settled b v, resolvers := [], rejectors := [] },
               stack := .notify v (match b with | .res => pr.resolvers | .rej => pr.rejectors) :: s.stack }
    | .settled _ _ => s

def mkCb (rid : Nat) (b : Br) (f : Option Fn) (q : Nat) : Cb :=
  ⟨rid, b, match f with | some f => .wrap f q | none => .direct q⟩

/-- ghost: some running notification loop still has callbacks of promise `p` waiting -/
def waiting (p : Nat) (s : State) : Bool :=
  s.stack.any fun
    | .notify _ todo => todo.any fun c => s.regs[c.rid]? == some p
    | _ => false

/-- `p.then(r, j)`: new chained promise, append to both lists, `_notify` prologue. -/
def thenOp (p : Nat) (r j : Option Fn) (s : State) : State :=
  match s.heap[p]? with
  | none => emit .badRef s
  | some pr =>
    let q := s.heap.length
    let rid := s.regs.length
    let rs := pr.resolvers ++ [mkCb rid .res r q]
    let js := pr.rejectors ++ [mkCb rid .rej j q]
    let heap1 := s.heap ++ [{ origin := .chained }]
    let dur := s.during ++ [waiting p s]
    match pr.st with
    | .pending =>
      { s with heap := heap1.set p { pr with resolvers := rs, rejectors := js }, regs := s.regs ++ [p], during := dur }
    | .settled .res v =>
      { s with heap := heap1.set p { pr with resolvers := [], rejectors := [] }, regs := s.regs ++ [p], during := dur,
               stack := .notify v rs :: s.stack }
    | .settled .rej v =>
      { s with heap := heap1.set p { pr with resolvers := [], rejectors := [] }, regs := s.regs ++ [p], during := dur,
               stack := .notify v js :: s.stack }

/-- `wrapper` after the function returned `r`: adopt a returned promise, else resolve the chained one. -/
def finish (r : Val) (q : Nat) (s : State) : State :=
  match r with
  | .prom p => thenOp p (some (.adopt .res q)) (some (.adopt .rej q)) (emit (.adopt q p s.regs.length) s)
  | v => settle .res q v s

/-- Call a wrapped function. Non-script functions run to their return inside this step except for the
nested `do_resolve`/`do_reject`, whose notification runs (frame on top) before the `finish` frame. -/
def callFn (f : Fn) (q : Nat) (v : Val) (s : State) : State :=
  match f with
  | .user (.script id acts out) => push (.script v acts (.wrapper out q)) (emit (.call id v) s)
  | .user (.bind b p) => settle b p v (push (.finish v q) (emit (.direct p) s))
  | .adopt b p => settle b p v (push (.finish v q) s)
  | .allThen a i =>
    match s.colls[a]? with
    | none => s
    | some r =>
      let results := r.results.set i v
      let nd := r.numDone + 1
      let s1 := push (.finish .none q) { s with colls := s.colls.set a { r with results := results, numDone := nd } }
      if nd = results.length then settle .res r.target (.list results) s1 else s1
  | .allFail a =>
    match s.colls[a]? with
    | none => s
    | some r => settle .rej r.target v (push (.finish .none q) s)
  | .waitDone a =>
    match s.colls[a]? with
    | none => s
    | some r =>
      let nd := r.numDone + 1
      let s1 := push (.finish .none q) { s with colls := s.colls.set a { r with numDone := nd } }
      if nd = r.subs.length then settle .res r.target (.list (r.subs.map .prom)) s1 else s1

/-- Body of one callback invocation (after the ghost `invoke` event). -/
def invokeBody (c : Cb) (v : Val) (s : State) : State :=
  match c.kind with
  | .direct q => settle c.br q v s
  | .wrap f q => callFn f q v s

def invoke (c : Cb) (v : Val) (s : State) : State :=
  invokeBody c v (emit (.invoke c.rid c.br v) s)

def refsOk (ps : List Nat) (s : State) : Bool := ps.all (· < s.heap.length)

/-- `Promise.all(ps)` / `wait_promises(ps)` up to the start of the loop (and the empty special case). -/
def collect (m : Mode) (ps : List Nat) (s : State) : State :=
  if refsOk ps s then
    let t := s.heap.length
    let a := s.colls.length
    let results := match m with | .all => List.replicate ps.length Val.none | .wait => []
    let s1 := { newProm (.coll a) s with
                colls := s.colls ++ [{ mode := m, target := t, subs := ps, results := results, numDone := 0 }] }
    if ps.isEmpty then settle .res t (.list []) s1 else push (.loop m a 0 ps) s1
  else emit .badRef s

/-- One statement. `arg` is the argument of the enclosing user function. -/
def act (arg : Val) (a : Act) (s : State) : State :=
  match a with
  | .then_ p r j => thenOp p (r.map .user) (j.map .user) s
  | .settle b p v => if p < s.heap.length then settle b p v (emit (.direct p) s) else emit .badRef s
  | .settleArg b p => if p < s.heap.length then settle b p arg (emit (.direct p) s) else emit .badRef s
  | .new => newProm .user s
  | .newf acts out => push (.script .none acts (.ctor out s.heap.length)) (newProm .user s)
  | .all ps => collect .all ps s
  | .wait ps => collect .wait ps s

/-- A script's statements are exhausted. -/
def kont (arg : Val) (k : Kont) (s : State) : State :=
  match k with
  | .top => s
  | .wrapper (.ret v) q => finish v q s
  | .wrapper .retArg q => finish arg q s
  | .wrapper (.raise e) q => settle .rej q (.err e) s
  | .ctor (.raise e) p => settle .rej p (.err e) s
  | .ctor _ _ => s

/-- ghost: remember the number of the `then()` call the loop is about to make -/
def note (a : Nat) (s : State) : State :=
  match s.colls[a]? with
  | none => s
  | some r => { s with colls := s.colls.set a { r with rids := r.rids ++ [s.regs.length] } }

/-- the two callbacks the loop registers on input number `i` -/
def loopFn (m : Mode) (a i : Nat) (b : Br) : Fn :=
  match m, b with
  | .all, .res => .allThen a i
  | .all, .rej => .allFail a
  | .wait, _ => .waitDone a

/-- One small step of the innermost frame; `none` when nothing is running. -/
def step (s : State) : Option State :=
  match s.stack with
  | [] => none
  | f :: rest =>
    let s0 := { s with stack := rest }
    match f with
    | .notify _ [] => some s0
    | .notify v (c :: todo) => some (invoke c v (push (.notify v todo) s0))
    | .finish r q => some (finish r q s0)
    | .script arg [] k => some (kont arg k s0)
    | .script arg (a :: acts) k => some (act arg a (push (.script arg acts k) s0))
    | .loop _ _ _ [] => some s0
    | .loop m a i (p :: ps) =>
      some (thenOp p (some (loopFn m a i .res)) (some (loopFn m a i .rej)) (push (.loop m a (i + 1) ps) (note a s0)))

/-- Run until nothing is running (or the fuel is gone). -/
def run : Nat → State → State
  | 0, s => s
  | n + 1, s => match step s with
    | none => s
    | some s' => run n s'

/-- A top-level operation: perform it, then run to quiescence. -/
def exec (fuel : Nat) (a : Act) (s : State) : State := run fuel (act .none a s)

def execAll (fuel : Nat) (ops : List Act) (s : State) : State := ops.foldl (fun s a => exec fuel a s) s

def init : State := {}

/-- user-visible callback log, oldest first: ids of the user functions called -/
def callIds (s : State) : List Nat :=
  (s.log.filterMap fun | .call id _ => some id | _ => none).reverse

end RedunModel.Promise
