/-
Model for C07 (results and recorded call graph do not depend on timing).  Core Lean only.

Mirrors: `hash_call_node` (redun/hashing.py: child call hashes are *sorted*), `_resolve_job_main_thread`
(`child_call_hashes = [c.call_hash for c in job.child_jobs if c.call_hash]`), `record_call_node` / `_record_args`
(CallNode, CallEdge, Argument rows), `Scheduler.evaluate` / `cond` (children of one parent job are created in an
order that depends on which sibling finished first), `_preprocess_args` + `Handle.preprocess` / `fork` /
`apply_call` (handle fork key = per-parent counter of entries into `_exec_job_main_thread`), `fork_thread`.

Hashes are symbolic (pre-images).  The order `sorted()` uses is the order of the hex digests, about which the
model knows nothing: every definition takes the order `le` as a parameter and every theorem holds for every
total order (`TotalOrder le`).
-/
namespace RedunModel.Timing

/-- value hashes: ints, and `Handle.get_hash` pre-images
* `hinit name key`          `["Handle", fullname, "init", key, args_hash, kwargs_hash]` (constructor arguments fixed)
* `hfork name key parent`   `["Handle", fullname, "call_hash", key, <hash of the handle forked>]`  (`Handle.fork`)
* `happly name task h z`    `["Handle", fullname, "call_hash", "", ["Eval", task, [h, z]]]`        (`apply_call`)
The empty key `""` is `0`; counter keys `str(n)` are `n ≥ 1`. -/
inductive HV where
  | int (z : Int)
  | hinit (name key : Nat)
  | hfork (name key : Nat) (parent : HV)
  | happly (name task : Nat) (h : HV) (z : Int)
  deriving DecidableEq, Repr, Inhabited

/-- call hash pre-image `["CallNode", task_hash, args_hash, result_hash, sorted(child_call_hashes)]` -/
inductive H where
  | call (task : Nat) (args : List HV) (res : HV) (kids : List H)
  deriving Repr, Inhabited

/-- what the theorems need of the order of the digests -/
structure TotalOrder (le : H → H → Bool) : Prop where
  total : ∀ a b, (le a b || le b a) = true
  antisymm : ∀ a b, le a b = true → le b a = true → a = b
  trans : ∀ a b c, le a b = true → le b c = true → le a c = true

/-- `sorted(child_call_hashes)` -/
def sortH (le : H → H → Bool) (l : List H) : List H := l.mergeSort le

/-- `hash_call_node` -/
def hashCallNode (le : H → H → Bool) (task : Nat) (args : List HV) (res : HV) (kids : List H) : H :=
  .call task args res (sortH le kids)

/-! ### job trees and what is recorded for them -/

/-- a finished job with `child_jobs` in the order the scheduler holds them.  `args`: the preprocessed arguments
(`job.args`: handles forked) that the args hash covers; `eargs`: the evaluated arguments (`job.eval_args`) whose value
hashes the Argument rows record.  `seen = false`: the child had no call hash yet when its parent ended (possible only
for a `fork_thread` child) -/
inductive JT where
  | node (task : Nat) (args eargs : List HV) (res : HV) (seen : Bool) (kids : List JT)
  deriving Repr, Inhabited

def JT.seen : JT → Bool
  | .node _ _ _ _ s _ => s

mutual
  /-- `job.call_hash` -/
  def callHash (le : H → H → Bool) : JT → H
    | .node t a _ r _ kids => hashCallNode le t a r (kidHashes le kids)
  /-- `[child.call_hash for child in job.child_jobs if child.call_hash]` -/
  def kidHashes (le : H → H → Bool) : List JT → List H
    | [] => []
    | k :: ks => (if k.seen then [callHash le k] else []) ++ kidHashes le ks
end

/-- rows of the call graph: `CallNode(call_hash)`, `Argument(call_hash, position, value_hash)`,
`CallEdge(parent, child)` (`call_order`, timestamps and ids are not part of the property) -/
inductive Row where
  | node (h : H)
  | arg (h : H) (pos : Nat) (v : HV)
  | edge (p c : H)
  deriving Repr, Inhabited

def argRows (h : H) : Nat → List HV → List Row
  | _, [] => []
  | i, v :: vs => Row.arg h i v :: argRows h (i + 1) vs

/-- what `record_call_node` writes for one job, given the child hashes it lists -/
def ownRows (le : H → H → Bool) (t : Nat) (a ea : List HV) (r : HV) (khs : List H) : List Row :=
  let h := hashCallNode le t a r khs
  Row.node h :: (argRows h 0 ea ++ khs.map (Row.edge h))

mutual
  /-- all rows recorded for the jobs of a tree that ended (an unseen child has not ended) -/
  def rows (le : H → H → Bool) : JT → List Row
    | .node t a ea r _ kids => ownRows le t a ea r (kidHashes le kids) ++ rowsL le kids
  def rowsL (le : H → H → Bool) : List JT → List Row
    | [] => []
    | k :: ks => (if k.seen then rows le k else []) ++ rowsL le ks
end

/-! ### programs without handles and `fork_thread`: evaluation under an arbitrary order of the children -/

inductive Expr where
  | lit (v : HV)
  | add (a b : Expr)
  | call (n : Nat) (arg : Expr)
  | cond (c a b : Expr)
  deriving DecidableEq, Repr, Inhabited

/-- task bodies: what the task function returns on an (evaluated) argument -/
structure Prog where
  body : Nat → HV → Expr

def addV : HV → HV → HV
  | .int x, .int y => .int (x + y)
  | a, _ => a

def truthy : HV → Bool
  | .int z => z != 0
  | _ => true

/-- `Ev P e v ks`: evaluating `e` under some parent job can end with value `v` and with `ks` as the part of the
parent's `child_jobs` created for it.  The scheduler creates a child when the promises it depends on have been
resolved, so the order of `ks` depends on which sibling job completed first; the relation allows **every**
order (`List.Perm`), hence every order any schedule and any limit configuration can produce. -/
inductive Ev (P : Prog) : Expr → HV → List JT → Prop
  | lit (v : HV) : Ev P (.lit v) v []
  | add {a b : Expr} {va vb : HV} {ka kb ks : List JT} :
      Ev P a va ka → Ev P b vb kb → ks.Perm (ka ++ kb) → Ev P (.add a b) (addV va vb) ks
  | call {n : Nat} {a : Expr} {va r : HV} {ka kids ks : List JT} :
      Ev P a va ka → Ev P (P.body n va) r kids → ks.Perm (JT.node n [va] [va] r true kids :: ka) →
      Ev P (.call n a) r ks
  | condT {c a b : Expr} {vc va : HV} {kc ka ks : List JT} :
      Ev P c vc kc → truthy vc = true → Ev P a va ka → ks.Perm (kc ++ ka) → Ev P (.cond c a b) va ks
  | condF {c a b : Expr} {vc vb : HV} {kc kb ks : List JT} :
      Ev P c vc kc → truthy vc = false → Ev P b vb kb → ks.Perm (kc ++ kb) → Ev P (.cond c a b) vb ks

/-- one particular order (the one the driver prints): children in creation order of a depth-first run -/
def evalC (P : Prog) : Nat → Expr → Option (HV × List JT)
  | 0, _ => none
  | _ + 1, .lit v => some (v, [])
  | n + 1, .add a b =>
    match evalC P n a, evalC P n b with
    | some (va, ka), some (vb, kb) => some (addV va vb, ka ++ kb)
    | _, _ => none
  | n + 1, .call t a =>
    match evalC P n a with
    | some (va, ka) =>
      match evalC P n (P.body t va) with
      | some (r, kids) => some (r, JT.node t [va] [va] r true kids :: ka)
      | none => none
    | none => none
  | n + 1, .cond c a b =>
    match evalC P n c with
    | some (vc, kc) =>
      match evalC P n (if truthy vc then a else b) with
      | some (v, k) => some (v, kc ++ k)
      | none => none
    | none => none

/-! ### handles: the fork key -/

/-- `__handle__.key` (0 = empty) -/
def HV.key : HV → Nat
  | .hinit _ k => k
  | .hfork _ k _ => k
  | _ => 0

def HV.hname : HV → Nat
  | .hinit n _ => n
  | .hfork n _ _ => n
  | .happly n _ _ _ => n
  | .int _ => 0

/-- one entry of a child job into `_exec_job_main_thread`: which sibling, and the handle it passes -/
structure Entry where
  sib : Nat
  h : HV
  deriving DecidableEq, Repr, Inhabited

/-- `parent_job.handle_forks` and the fork key each sibling's submitted arguments carry -/
structure Forks where
  count : List (HV × Nat) := []
  key : List (Nat × Nat) := []
  deriving Repr, Inhabited

def getCount (c : List (HV × Nat)) (h : HV) : Nat :=
  match c with
  | [] => 0
  | (h', n) :: r => if h' = h then n else getCount r h

def setCount (c : List (HV × Nat)) (h : HV) (n : Nat) : List (HV × Nat) :=
  match c with
  | [] => [(h, n)]
  | (h', m) :: r => if h' = h then (h, n) :: r else (h', m) :: setCount r h n

def getKey (k : List (Nat × Nat)) (s : Nat) : Option Nat :=
  match k with
  | [] => none
  | (s', n) :: r => if s' = s then some n else getKey r s

def setKey (k : List (Nat × Nat)) (s n : Nat) : List (Nat × Nat) :=
  match k with
  | [] => [(s, n)]
  | (s', m) :: r => if s' = s then (s, n) :: r else (s', m) :: setKey r s n

/-- `_preprocess_args` for one entry.  `recount = true`: the code as found (every entry, also the re-entry of a job
that waited for a resource limit, bumps the counter and forks again); `recount = false`: after
C07-limits-reentry-preprocess.fix.diff (only the first entry preprocesses). -/
def enter (recount : Bool) (f : Forks) (e : Entry) : Forks :=
  if !recount && (getKey f.key e.sib).isSome then f
  else
    let n := getCount f.count e.h + 1
    { count := setCount f.count e.h n, key := setKey f.key e.sib n }

def enterAll (recount : Bool) (es : List Entry) : Forks := es.foldl (enter recount) {}

/-- the counter value the sibling's submitted arguments were preprocessed with -/
def callOrder (recount : Bool) (es : List Entry) (s : Nat) : Option Nat := getKey (enterAll recount es).key s

/-- `Handle.preprocess`: `self.fork(self.__handle__.key or str(call_order))` -/
def forkArg (h : HV) (callOrder : Nat) : HV := .hfork h.hname (if h.key ≠ 0 then h.key else callOrder) h

/-- the entries of siblings not seen before, in order -/
def firstFrom (seen : List Nat) : List Entry → List Entry
  | [] => []
  | e :: r => if e.sib ∈ seen then firstFrom seen r else e :: firstFrom (e.sib :: seen) r

/-- the first entry of every sibling, in order -/
def firstEntries (es : List Entry) : List Entry := firstFrom [] es

/-- the same job with the `seen` flag set -/
def JT.setSeen (s : Bool) : JT → JT
  | .node t a ea r _ kids => .node t a ea r s kids

/-! ### a concrete order on call hashes (proved total in Lemmas/TimingOrder; the driver sorts with it) -/

/-- lexicographic order on lists -/
def cmpList {α : Type} (cmp : α → α → Ordering) : List α → List α → Ordering
  | [], [] => .eq
  | [], _ :: _ => .lt
  | _ :: _, [] => .gt
  | x :: xs, y :: ys => (cmp x y).then (cmpList cmp xs ys)

/-- lexicographic order on pairs -/
def cmpProd {α β : Type} (c1 : α → α → Ordering) (c2 : β → β → Ordering) (a b : α × β) : Ordering :=
  (c1 a.1 b.1).then (c2 a.2 b.2)

def encInt (z : Int) : Nat := if 0 ≤ z then 2 * z.toNat else 2 * (-z).toNat + 1

abbrev Frame := Nat × Nat × Nat × Nat

def frames : HV → List Frame
  | .int z => [(0, 0, 0, encInt z)]
  | .hinit n k => [(1, n, k, 0)]
  | .hfork n k p => (2, n, k, 0) :: frames p
  | .happly n t h z => (3, n, t, encInt z) :: frames h

def cmpFrame : Frame → Frame → Ordering := cmpProd compare (cmpProd compare (cmpProd compare compare))

def cmpHV (a b : HV) : Ordering := cmpList cmpFrame (frames a) (frames b)

/-- task hash, argument hashes, result hash of a call node -/
abbrev Atom := Nat × List HV × HV

def cmpAtom : Atom → Atom → Ordering := cmpProd compare (cmpProd (cmpList cmpHV) cmpHV)

mutual
  def H.cmp : H → H → Ordering
    | .call t a r k, .call t' a' r' k' => (cmpAtom (t, a, r) (t', a', r')).then (H.cmpL k k')
  def H.cmpL : List H → List H → Ordering
    | [], [] => .eq
    | [], _ :: _ => .lt
    | _ :: _, [] => .gt
    | x :: xs, y :: ys => (H.cmp x y).then (H.cmpL xs ys)
end

/-- the order the driver sorts with -/
def H.le (a b : H) : Bool := H.cmp a b != .gt


/-! ### programs given by templates (driver, generated workflows) -/

inductive Tm where
  | arg
  | lit (z : Int)
  | add (a b : Tm)
  | call (n : Nat) (t : Tm)
  | cond (c a b : Tm)
  deriving Repr, Inhabited

/-- the expression the task function returns: Python adds two concrete ints at once, anything else stays lazy -/
def inst (x : HV) : Tm → Expr
  | .arg => .lit x
  | .lit z => .lit (.int z)
  | .add s t =>
    match inst x s, inst x t with
    | .lit (.int a), .lit (.int b) => .lit (.int (a + b))
    | es, et => .add es et
  | .call n t => .call n (inst x t)
  | .cond c a b => .cond (inst x c) (inst x a) (inst x b)

def lookupTm (n : Nat) : List (Nat × Tm) → Tm
  | [] => .lit 0
  | (m, t) :: r => if m = n then t else lookupTm n r

def tableProg (tbl : List (Nat × Tm)) : Prog where
  body n x := inst x (lookupTm n tbl)

/-! ### the handle workflows of the tie: `main()` creates handles and passes them to sibling jobs -/

/-- where a lane's handle comes from: the handle all lanes share, a handle of its own, or an explicit fork
`shared.fork("k")` -/
inductive Src where
  | shared
  | own (name : Nat)
  | prekeyed (key : Nat)
  deriving Repr, Inhabited

/-- one lane `use(src, b)` or `use(step(src, a), b)`; `step` returns the handle, `use` returns `b` -/
structure Lane where
  src : Src
  step : Option Int
  b : Int
  deriving Repr, Inhabited

def sharedH : HV := .hinit 1 0

def Src.hv : Src → HV
  | .shared => sharedH
  | .own n => .hinit n 0
  | .prekeyed k => .hfork 1 k sharedH

def taskMain : Nat := 0
def taskUse : Nat := 1
def taskStep : Nat := 2

/-- job ids under `main`: lane `i` has `use` = `2 i` and `step` = `2 i + 1` -/
def laneJobs (co : Nat → Option Nat) : Nat → List Lane → List JT
  | _, [] => []
  | i, l :: r =>
    let h0 := l.src.hv
    let js :=
      match l.step with
      | none =>
        let a := forkArg h0 ((co (2 * i)).getD 0)
        [JT.node taskUse [a, .int l.b] [h0, .int l.b] (.int l.b) true []]
      | some z =>
        let a1 := forkArg h0 ((co (2 * i + 1)).getD 0)
        let h1 := HV.happly a1.hname taskStep a1 z        -- `apply_call(pre_call_hash = eval hash of step(a1, z))`
        let a2 := forkArg h1 ((co (2 * i)).getD 0)
        [JT.node taskStep [a1, .int z] [h0, .int z] h1 true [],
         JT.node taskUse [a2, .int l.b] [h1, .int l.b] (.int l.b) true []]
    js ++ laneJobs co (i + 1) r

/-- the handle each job passes, in terms of the counter values: needed to replay `handle_forks` -/
def laneHandle (co : Nat → Option Nat) (lanes : List Lane) (job : Nat) : HV :=
  match lanes[job / 2]? with
  | none => .int 0
  | some l =>
    let h0 := l.src.hv
    match l.step with
    | none => h0
    | some z =>
      if job % 2 = 1 then h0
      else
        let a1 := forkArg h0 ((co (job + 1)).getD 0)
        HV.happly a1.hname taskStep a1 z

/-- Replays the observed order of entries: the handle a job passes is known once the jobs before it have entered
(a `use` after a `step` enters after that `step` ended). -/
def replay (recount : Bool) (lanes : List Lane) : List Nat → Forks → List Entry → Forks × List Entry
  | [], f, acc => (f, acc.reverse)
  | j :: r, f, acc =>
    let e : Entry := ⟨j, laneHandle (getKey f.key) lanes j⟩
    replay recount lanes r (enter recount f e) (e :: acc)

/-- the entries `replay` goes through, as a list (what the fork-key theorems speak about) -/
def replayEntries (recount : Bool) (lanes : List Lane) : List Nat → Forks → List Entry
  | [], _ => []
  | j :: r, f =>
    let e : Entry := ⟨j, laneHandle (getKey f.key) lanes j⟩
    e :: replayEntries recount lanes r (enter recount f e)

def handleTree (recount : Bool) (lanes : List Lane) (entries : List Nat) (extra : List JT) : JT :=
  let f := (replay recount lanes entries {} []).1
  let res := lanes.foldl (fun s l => s + l.b) 0
  JT.node taskMain [] [] (.int res) true (laneJobs (getKey f.key) 0 lanes ++ extra)

/-! ### a side condition of the tie: `Scheduler._evaluate_apply` evaluates two equal expressions under one parent
job only once (`_pending_expr`, C06); the model has no such memo, so the harness discards workflows in which a task
function returns an expression with two equal non-literal sub-expressions -/

def subExprs : Expr → List Expr
  | .lit _ => []
  | .add a b => .add a b :: (subExprs a ++ subExprs b)
  | .call n a => .call n a :: subExprs a
  | .cond c a b => .cond c a b :: (subExprs c ++ subExprs a ++ subExprs b)

def hasDup : List Expr → Bool
  | [] => false
  | e :: r => r.contains e || hasDup r

mutual
  def dupIn (P : Prog) : JT → Bool
    | .node t a _ _ _ kids =>
      (match a with
       | [va] => hasDup (subExprs (P.body t va))
       | _ => false) || dupInL P kids
  def dupInL (P : Prog) : List JT → Bool
    | [] => false
    | k :: ks => dupIn P k || dupInL P ks
end

/-! ### `_pending_expr`: two equal expressions under one parent job are evaluated once (no second job)

`Scheduler._evaluate_apply` keeps, per parent job and until that job is finalized, the promise of every expression it
has started; an equal expression met later under the same parent - eagerly, or in a lazily evaluated site such as a
`cond` branch - re-uses it whether or not the first evaluation has already ended.  `evalM` is `evalC` with that memo;
the driver uses it for workflows with such duplicates (`dupInL`), for which the theorems about `Ev` do not speak. -/

abbrev Memo := List (Expr × HV)

def memoGet : Memo → Expr → Option HV
  | [], _ => none
  | (e', v) :: r, e => if e' = e then some v else memoGet r e

def evalM (P : Prog) : Nat → Memo → Expr → Option (HV × List JT × Memo)
  | 0, _, _ => none
  | _ + 1, m, .lit v => some (v, [], m)
  | n + 1, m, .add a b =>
    match memoGet m (.add a b) with
    | some v => some (v, [], m)
    | none =>
      match evalM P n m a with
      | some (va, ka, m1) =>
        match evalM P n m1 b with
        | some (vb, kb, m2) => some (addV va vb, ka ++ kb, (.add a b, addV va vb) :: m2)
        | none => none
      | none => none
  | n + 1, m, .call t a =>
    match memoGet m (.call t a) with
    | some v => some (v, [], m)
    | none =>
      match evalM P n m a with
      | some (va, ka, m1) =>
        match evalM P n [] (P.body t va) with          -- a new parent job: its own `_pending_expr`
        | some (r, kids, _) => some (r, JT.node t [va] [va] r true kids :: ka, (.call t a, r) :: m1)
        | none => none
      | none => none
  | n + 1, m, .cond c a b =>
    match memoGet m (.cond c a b) with
    | some v => some (v, [], m)
    | none =>
      match evalM P n m c with
      | some (vc, kc, m1) =>
        match evalM P n m1 (if truthy vc then a else b) with
        | some (v, k, m2) => some (v, kc ++ k, (.cond c a b, v) :: m2)
        | none => none
      | none => none

end RedunModel.Timing
