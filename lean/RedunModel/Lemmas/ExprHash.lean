/-
Helper lemmas for the expression-hash model (C18): sorting the export-option set, `hashList`/`hashKw` as maps.
-/
import RedunModel.Model.ExprHash
import RedunModel.Lemmas.Pre
namespace RedunModel.ExprHash
open RedunModel.Pre List

/-! ### sorting export options -/

theorem insertS_perm (a : String) (l : List String) : (insertS a l).Perm (a :: l) := by
  induction l with
  | nil => simp [insertS]
  | cons b t ih =>
    simp only [insertS]
    split
    · exact Perm.refl _
    · exact (Perm.cons b ih).trans (Perm.swap a b t)

theorem sortS_perm (l : List String) : (sortS l).Perm l := by
  induction l with
  | nil => simp [sortS]
  | cons a t ih =>
    have : sortS (a :: t) = insertS a (sortS t) := rfl
    rw [this]
    exact (insertS_perm a _).trans (Perm.cons a ih)

theorem insertS_sorted (a : String) (l : List String) (h : l.Pairwise (· ≤ ·)) : (insertS a l).Pairwise (· ≤ ·) := by
  induction l with
  | nil => simp [insertS]
  | cons b t ih =>
    simp only [insertS]
    have hb := pairwise_cons.mp h
    split
    · rename_i hab
      refine pairwise_cons.mpr ⟨?_, h⟩
      intro c hc
      rcases mem_cons.mp hc with e | hc
      · rw [e]; exact hab
      · exact String.le_trans hab (hb.1 c hc)
    · rename_i hab
      refine pairwise_cons.mpr ⟨?_, ih hb.2⟩
      intro c hc
      rcases mem_cons.mp ((insertS_perm a t).mem_iff.mp hc) with e | hc
      · rw [e]
        rcases String.le_total a b with h1 | h1
        · exact absurd h1 hab
        · exact h1
      · exact hb.1 c hc

theorem sortS_sorted (l : List String) : (sortS l).Pairwise (· ≤ ·) := by
  induction l with
  | nil => simp [sortS]
  | cons a t ih => exact insertS_sorted a _ ih

/-- the export-options hash does not depend on the iteration order of the set -/
theorem sortS_eq_of_perm {l₁ l₂ : List String} (hp : l₁.Perm l₂) : sortS l₁ = sortS l₂ :=
  Perm.eq_of_pairwise (le := (· ≤ ·)) (fun _ _ _ _ h1 h2 => String.le_antisymm h1 h2) (sortS_sorted l₁)
    (sortS_sorted l₂) ((sortS_perm l₁).trans (hp.trans (sortS_perm l₂).symm))

theorem exportHash_inj {a b : List String} (h : exportHash a = exportHash b) : a.Perm b := by
  simp only [exportHash, Pre.hash.injEq, Pre.list.injEq] at h
  have h2 : sortS a = sortS b := by
    have := congrArg (fun l => l.filterMap (fun p => match p with | Pre.str s => some s | _ => none)) h
    simpa [filterMap_map, Function.comp_def] using this
  exact (sortS_perm a).symm.trans (h2 ▸ sortS_perm b)

theorem hashList_eq_map (l : List Node) : hashList l = l.map hashOf := by
  induction l with
  | nil => rfl
  | cons a t ih => simp [hashList, ih]

theorem hashKw_eq_map (l : List (String × Node)) : hashKw l = l.map (fun ka => (ka.1, hashOf ka.2)) := by
  induction l with
  | nil => rfl
  | cons a t ih => cases a; simp [hashKw, ih]


end RedunModel.ExprHash
