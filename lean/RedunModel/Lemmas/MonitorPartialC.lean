/-
`InvP` along every execution in which no job is recorded while a monitor is on its way out
(`reachable_invP`); `hit` is monotone.
-/
import RedunModel.Lemmas.MonitorPartialB
namespace RedunModel.Monitor
set_option linter.unusedSimpArgs false

theorem invP_stepM (V : Variant) (hW : WF V) (s s' : State) (k : Nat) (h : InvP V s) (hN : s.pending.Nodup)
    (hs : stepM V s k = some s') : InvP V s' := by
  simp only [stepM] at hs
  split at hs
  · rename_i m hk
    split at hs
    · simp at hs
    · rename_i s'' m' hm
      simp at hs; subst hs
      exact invP_stepOld V s s'' k m m' h hk hm
  · split at hs
    · split at hs
      · simp at hs
      · rename_i m hmon
        split at hs
        · simp at hs
        · rename_i s'' m' hm
          simp at hs; subst hs
          exact invP_stepLast V hW s s'' m m' h hmon hN hm
    · simp at hs

theorem invP_stepA (V : Variant) (s s' : State) (h : InvP V s) (hs : stepA V s = some s') : InvP V s' := by
  simp only [stepA] at hs
  split at hs
  · simp at hs; subst hs
    obtain ⟨a, b, c, d, e, f, g, i, j, k, l, m, n, o, na⟩ := h
    have hq := List.take_append_drop (if V.arrMax = 0 then s.queue.length else V.arrMax) s.queue
    have hnil : s.queue = [] → s.queue.take (if V.arrMax = 0 then s.queue.length else V.arrMax) = [] ∧
        s.queue.drop (if V.arrMax = 0 then s.queue.length else V.arrMax) = [] := by
      intro hq0; simp [hq0]
    have hne : (s.pending ++ s.queue.take (if V.arrMax = 0 then s.queue.length else V.arrMax) ≠ [] ∨
        s.queue.drop (if V.arrMax = 0 then s.queue.length else V.arrMax) ≠ []) → (s.pending ≠ [] ∨ s.queue ≠ []) := by
      intro hx
      by_cases hp : s.pending = []
      · right; intro hq0; rcases hx with hx | hx
        · exact hx (by simp [hp, hq0])
        · exact hx (by simp [hq0])
      · exact Or.inl hp
    constructor <;> simp only [lph, liter, lcur] at * <;> (try assumption)
    all_goals grind
  · simp at hs

theorem invP_stepU (V : Variant) (s s' : State) (k : Nat) (h : InvP V s) (hs : stepU V s k = some s') : False := by
  obtain ⟨h1, h2⟩ := h.noSubs
  simp [stepU, h1, h2] at hs

theorem stepMon_hit (V : Variant) (s s' : State) (b : Bool) (m m' : Mon) (hs : stepMon V s b m = some (s', m')) :
    s'.hit = s.hit := by
  obtain ⟨ph, iter, cur, idx⟩ := m
  cases ph <;> simp only [stepMon] at hs
  case post r =>
    cases r with
    | nil => simp at hs
    | cons x r' =>
      obtain ⟨l, op⟩ := x
      cases op <;> simp only at hs <;> (try split at hs) <;> simp at hs <;> obtain ⟨h1, h2⟩ := hs <;> subst h1 <;> rfl
  all_goals ((repeat' split at hs) <;> simp at hs <;> (try (obtain ⟨h1, h2⟩ := hs; subst h1; rfl)))

theorem stepSub_hit (V : Variant) (s s' : State) (u u' : Sub) (hs : stepSub V s u = some (s', u')) : s'.hit = s.hit := by
  obtain ⟨ph, cur⟩ := u
  cases ph <;> simp only [stepSub] at hs
  all_goals ((repeat' split at hs) <;> simp at hs <;> (try (obtain ⟨h1, h2⟩ := hs; subst h1; rfl)))

theorem stepMon_faulted (V : Variant) (s s' : State) (b : Bool) (m m' : Mon) (hs : stepMon V s b m = some (s', m')) :
    s'.faulted = s.faulted := by
  obtain ⟨ph, iter, cur, idx⟩ := m
  cases ph <;> simp only [stepMon] at hs
  case post r =>
    cases r with
    | nil => simp at hs
    | cons x r' =>
      obtain ⟨l, op⟩ := x
      cases op <;> simp only at hs <;> (try split at hs) <;> simp at hs <;> obtain ⟨h1, h2⟩ := hs <;> subst h1 <;> rfl
  all_goals ((repeat' split at hs) <;> simp at hs <;> (try (obtain ⟨h1, h2⟩ := hs; subst h1; rfl)))

theorem stepSub_faulted (V : Variant) (s s' : State) (u u' : Sub) (hs : stepSub V s u = some (s', u')) : s'.faulted = s.faulted := by
  obtain ⟨ph, cur⟩ := u
  cases ph <;> simp only [stepSub] at hs
  all_goals ((repeat' split at hs) <;> simp at hs <;> (try (obtain ⟨h1, h2⟩ := hs; subst h1; rfl)))

/-- `hit` is only ever switched on -/
theorem hit_mono (V : Variant) (s s' : State) (e : Ev) (hs : step V s e = some s') (hh : s'.hit = false) : s.hit = false := by
  cases e with
  | S =>
    simp only [step] at hs
    cases hsph : s.sph <;> simp only [stepS, hsph] at hs
    case done => simp at hs
    case ins => (repeat' split at hs) <;> (simp only [Option.some.injEq] at hs; subst hs; simp at hh; exact hh.1)
    all_goals ((repeat' split at hs) <;> (try (simp only [Option.some.injEq] at hs; subst hs)))
    all_goals (first | exact hh | (simp only [finishS] at hh; split at hh <;> exact hh))
  | M k =>
    simp only [step, stepM] at hs
    split at hs
    · rename_i m hk
      split at hs
      · simp at hs
      · rename_i s'' m' hm
        simp at hs; subst hs
        have := stepMon_hit V s s'' false m m' hm
        simp only at hh; rw [this] at hh; exact hh
    · split at hs
      · split at hs
        · simp at hs
        · rename_i m hmon
          split at hs
          · simp at hs
          · rename_i s'' m' hm
            simp at hs; subst hs
            have := stepMon_hit V s s'' true m m' hm
            simp only at hh; rw [this] at hh; exact hh
      · simp at hs
  | U k =>
    simp only [step, stepU] at hs
    split at hs
    · rename_i u hk
      split at hs
      · simp at hs
      · rename_i s'' u' hu
        simp at hs; subst hs
        have := stepSub_hit V s s'' u u' hu
        simp only at hh; rw [this] at hh; exact hh
    · split at hs
      · split at hs
        · simp at hs
        · rename_i u hsub
          split at hs
          · simp at hs
          · rename_i s'' u' hu
            simp at hs; subst hs
            have := stepSub_hit V s s'' u u' hu
            simp only at hh; rw [this] at hh; exact hh
      · simp at hs
  | A =>
    simp only [step, stepA] at hs
    split at hs
    · simp at hs; subst hs; exact hh
    · simp at hs
  | F =>
    simp only [step] at hs
    split at hs
    · simp at hs
    · simp only [Option.some.injEq] at hs; subst hs; exact hh
  | L j =>
    simp only [step] at hs
    split at hs
    · simp only [Option.some.injEq] at hs; subst hs; exact hh
    · simp at hs
  | O j g =>
    simp only [step, Option.some.injEq] at hs; subst hs; exact hh

/-- a state without injected fault has no armed fault and comes from such a state -/
theorem faulted_mono (V : Variant) (s s' : State) (e : Ev) (hs : step V s e = some s') (hf : s'.faulted = false) :
    s.faulted = false ∧ e ≠ .F := by
  cases e with
  | F =>
    simp only [step] at hs
    split at hs
    · simp at hs
    · simp only [Option.some.injEq] at hs; subst hs; simp at hf
  | S =>
    refine ⟨?_, by simp⟩
    simp only [step] at hs
    cases hsph : s.sph <;> simp only [stepS, hsph] at hs
    case done => simp at hs
    all_goals ((repeat' split at hs) <;> (try (simp only [Option.some.injEq] at hs; subst hs)))
    all_goals (first | exact hf | (simp only [finishS] at hf; split at hf <;> exact hf))
  | M k =>
    refine ⟨?_, by simp⟩
    simp only [step, stepM] at hs
    split at hs
    · rename_i m hk
      split at hs
      · simp at hs
      · rename_i s'' m' hm
        simp at hs; subst hs
        have := stepMon_faulted V s s'' false m m' hm
        simp only at hf; rw [this] at hf; exact hf
    · split at hs
      · split at hs
        · simp at hs
        · rename_i m hmon
          split at hs
          · simp at hs
          · rename_i s'' m' hm
            simp at hs; subst hs
            have := stepMon_faulted V s s'' true m m' hm
            simp only at hf; rw [this] at hf; exact hf
      · simp at hs
  | U k =>
    refine ⟨?_, by simp⟩
    simp only [step, stepU] at hs
    split at hs
    · rename_i u hk
      split at hs
      · simp at hs
      · rename_i s'' u' hu
        simp at hs; subst hs
        have := stepSub_faulted V s s'' u u' hu
        simp only at hf; rw [this] at hf; exact hf
    · split at hs
      · split at hs
        · simp at hs
        · rename_i u hsub
          split at hs
          · simp at hs
          · rename_i s'' u' hu
            simp at hs; subst hs
            have := stepSub_faulted V s s'' u u' hu
            simp only at hf; rw [this] at hf; exact hf
      · simp at hs
  | A =>
    refine ⟨?_, by simp⟩
    simp only [step, stepA] at hs
    split at hs
    · simp at hs; subst hs; exact hf
    · simp at hs
  | L j =>
    refine ⟨?_, by simp⟩
    simp only [step] at hs
    split at hs
    · simp only [Option.some.injEq] at hs; subst hs; exact hf
    · simp at hs
  | O j g =>
    refine ⟨?_, by simp⟩
    simp only [step, Option.some.injEq] at hs; subst hs; exact hf

theorem hit_of_reachable_step (V : Variant) (s s' : State) (e : Ev) (hs : step V s e = some s') (hh : s'.hit = false) :
    s.hit = false := hit_mono V s s' e hs hh

/-- pending holds no job twice when the submitted jobs are distinct -/
theorem pending_nodup {V : Variant} {jobs : List Job} {s : State} (h : Reachable V jobs s) (hd : jobs.Nodup) :
    s.pending.Nodup := by
  have hC := reachable_invC h
  refine List.nodup_iff_count.2 (fun j => ?_)
  have h1 := hC.cons j
  have h2 := congrArg (List.count j) hC.prog
  have h3 := List.nodup_iff_count.1 hd j
  simp only [List.count_append] at h2
  omega

theorem reachable_invP {V : Variant} (hW : WF V) {jobs : List Job} (hd : jobs.Nodup) {s : State}
    (h : Reachable V jobs s) : s.hit = false → s.faulted = false → InvP V s := by
  induction h with
  | init => intro _ _; exact invP_init V jobs
  | @step s0 s1 e hr hs ih =>
    intro hh hf
    obtain ⟨hf0, hne⟩ := faulted_mono V s0 s1 e hs hf
    have h0 := ih (hit_mono V s0 s1 e hs hh) hf0
    cases e with
    | S => exact invP_stepS V hW s0 s1 h0 hs hh
    | M k => exact invP_stepM V hW s0 s1 k h0 (pending_nodup hr hd) hs
    | U k => exact (invP_stepU V s0 s1 k h0 hs).elim
    | A => exact invP_stepA V s0 s1 h0 hs
    | F => exact absurd rfl hne
    | L j =>
      simp only [step] at hs
      split at hs
      · simp only [Option.some.injEq] at hs; subst hs
        obtain ⟨a, b, c, d, e, f, g, i, j', k, l, m, n, o, na⟩ := h0
        exact ⟨a, b, c, d, e, f, g, i, j', k, l, m, n, o, na⟩
      · simp at hs
    | O j g =>
      simp only [step, Option.some.injEq] at hs; subst hs
      obtain ⟨a, b, c, d, e, f, g', i, j', k, l, m, n, o, na⟩ := h0
      exact ⟨a, b, c, d, e, f, g', i, j', k, l, m, n, o, na⟩
end RedunModel.Monitor
