/-
Helper lemmas for the bencode decoder model (C14): `int()` of what `enc` writes, `_readuntil`,
decoding an encoding, fuel sufficiency, the Python-dict view of a decoded dict.
-/
import RedunModel.Lemmas.BStruct
namespace RedunModel.BStruct

theorem isDigitB_iff (c : UInt8) : isDigitB c = true ↔ IsDigit c := by
  simp [isDigitB, IsDigit, UInt8.le_iff_toNat_le]

theorem readUntil_append (e : UInt8) : ∀ (xs r : List UInt8), (∀ x ∈ xs, x ≠ e) →
    readUntil e (xs ++ e :: r) = some (xs, r)
  | [], r, _ => by simp [readUntil]
  | x :: xs, r, h => by
    have hx : x ≠ e := h x (by simp)
    have ih := readUntil_append e xs r (fun y hy => h y (by simp [hy]))
    simp [readUntil, hx, ih]

theorem scanDigits_digits : ∀ (ds : List UInt8) (acc : Nat), (∀ d ∈ ds, IsDigit d) →
    scanDigits false acc ds = some (ds.foldl (fun a d => a * 10 + (d.toNat - 48)) acc, [])
  | [], acc, _ => by simp [scanDigits]
  | d :: ds, acc, h => by
    have hd : isDigitB d = true := (isDigitB_iff d).mpr (h d (by simp))
    have ih := scanDigits_digits ds (acc * 10 + digitVal d) (fun y hy => h y (by simp [hy]))
    simp only [digitVal] at ih
    simp [scanDigits, hd, ih, digitVal]

theorem pyIntNat_natDigits (n : Nat) : pyIntNat (natDigits n) = some n := by
  have hall := natDigits_isDigit n
  have hval := ofDigits_natDigits n
  cases hnd : natDigits n with
  | nil => exact absurd hnd (natDigits_ne_nil n)
  | cons c t =>
    rw [hnd] at hall hval
    have hc : isDigitB c = true := (isDigitB_iff c).mpr (hall c (by simp))
    have hs := scanDigits_digits t (digitVal c) (fun y hy => hall y (by simp [hy]))
    simp only [pyIntNat, hc, if_true, hs, List.all_nil]
    simp only [ofDigits, List.foldl_cons, Nat.zero_mul, Nat.zero_add] at hval
    simp [digitVal, hval]

theorem isSpaceB_of_digit {c : UInt8} (h : IsDigit c) : isSpaceB c = false := by
  unfold IsDigit at h
  have h1 : ¬ (c = 32) := by intro e; subst e; revert h; decide
  have h2 : ¬ (c ≤ 13) := by rw [UInt8.le_iff_toNat_le]; simp; omega
  simp [isSpaceB, h1, h2]

theorem pyInt_natDigits (n : Nat) : pyInt (natDigits n) = some (Int.ofNat n) := by
  obtain ⟨c, t, hct, hd⟩ := natDigits_head n
  have h45 : c ≠ 45 := by intro e; subst e; exact not_digit_45 hd
  have h43 : c ≠ 43 := by intro e; subst e; revert hd; unfold IsDigit; decide
  have := pyIntNat_natDigits n
  rw [hct] at this
  simp [pyInt, hct, isSpaceB_of_digit hd, h45, h43, this]

theorem pyInt_intDigits (z : Int) : pyInt (intDigits z) = some z := by
  unfold intDigits
  split
  · rename_i hz
    have hs : isSpaceB 45 = false := by decide
    simp only [pyInt, List.dropWhile, hs, pyIntNat_natDigits]
    simp
    omega
  · rename_i hz
    rw [pyInt_natDigits]
    simp; omega

theorem intDigits_ne_e (z : Int) : ∀ x ∈ intDigits z, x ≠ 101 := by
  intro x hx e
  subst e
  unfold intDigits at hx
  split at hx
  · simp at hx
    exact not_digit_101 (natDigits_isDigit _ _ hx)
  · exact not_digit_101 (natDigits_isDigit _ _ hx)

theorem decBytes_encBytes (b rest : List UInt8) (hb : b.length < 2 ^ 63) :
    decBytes (encBytes b ++ rest) = .ok (.bytes b, rest) := by
  unfold encBytes decBytes
  have hr : readUntil 58 (natDigits b.length ++ 58 :: b ++ rest) = some (natDigits b.length, b ++ rest) := by
    have := readUntil_append 58 (natDigits b.length) (b ++ rest) (by
      intro x hx e; subst e; exact not_digit_58 (natDigits_isDigit _ _ hx))
    simpa using this
  rw [hr]
  simp only [pyInt_natDigits]
  have h1 : ¬ ((Int.ofNat b.length) < 0) := by simp
  have h2 : ¬ ((Int.ofNat b.length).toNat ≥ 2 ^ 63) := by simp; omega
  simp only [h1, h2, if_false]
  simp

end RedunModel.BStruct
