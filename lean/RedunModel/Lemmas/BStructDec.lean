/-
Helper lemmas for the bencode decoder model (C14): `int()` of what `enc` writes, `_readuntil`,
decoding an encoding, fuel sufficiency, the Python-dict view of a decoded dict.
-/
import RedunModel.Lemmas.BStruct
namespace RedunModel.BStruct

theorem isDigitB_iff (c : UInt8) : isDigitB c = true ↔ IsDigit c := by
  simp [isDigitB, IsDigit, UInt8.le_iff_toNat_le]

theorem readUntil_append (e : UInt8) : ∀ (xs r : List UInt8), (∀ x ∈ xs, x ≠ e) →
    readUntil e (xs ++ e :: r) = some (xs, r)
  | [], r, _ => by simp [readUntil]
  | x :: xs, r, h => by
    have hx : x ≠ e := h x (by simp)
    have ih := readUntil_append e xs r (fun y hy => h y (by simp [hy]))
    simp [readUntil, hx, ih]

theorem scanDigits_digits : ∀ (ds : List UInt8) (acc : Nat), (∀ d ∈ ds, IsDigit d) →
    scanDigits false acc ds = some (ds.foldl (fun a d => a * 10 + (d.toNat - 48)) acc, [])
  | [], acc, _ => by simp [scanDigits]
  | d :: ds, acc, h => by
    have hd : isDigitB d = true := (isDigitB_iff d).mpr (h d (by simp))
    have ih := scanDigits_digits ds (acc * 10 + digitVal d) (fun y hy => h y (by simp [hy]))
    simp only [digitVal] at ih
    simp [scanDigits, hd, ih, digitVal]

theorem pyIntNat_natDigits (n : Nat) : pyIntNat (natDigits n) = some n := by
  have hall := natDigits_isDigit n
  have hval := ofDigits_natDigits n
  cases hnd : natDigits n with
  | nil => exact absurd hnd (natDigits_ne_nil n)
  | cons c t =>
    rw [hnd] at hall hval
    have hc : isDigitB c = true := (isDigitB_iff c).mpr (hall c (by simp))
    have hs := scanDigits_digits t (digitVal c) (fun y hy => hall y (by simp [hy]))
    simp only [pyIntNat, hc, if_true, hs, List.all_nil]
    simp only [ofDigits, List.foldl_cons, Nat.zero_mul, Nat.zero_add] at hval
    simp [digitVal, hval]

theorem isSpaceB_of_digit {c : UInt8} (h : IsDigit c) : isSpaceB c = false := by
  unfold IsDigit at h
  have h1 : ¬ (c = 32) := by intro e; subst e; revert h; decide
  have h2 : ¬ (c ≤ 13) := by rw [UInt8.le_iff_toNat_le]; simp; omega
  simp [isSpaceB, h1, h2]

theorem pyIntCore_natDigits (n : Nat) : pyIntCore (natDigits n) = some (Int.ofNat n) := by
  obtain ⟨c, t, hct, hd⟩ := natDigits_head n
  have h45 : c ≠ 45 := by intro e; subst e; exact not_digit_45 hd
  have h43 : c ≠ 43 := by intro e; subst e; revert hd; unfold IsDigit; decide
  have := pyIntNat_natDigits n
  rw [hct] at this
  simp [pyIntCore, hct, isSpaceB_of_digit hd, h45, h43, this]

theorem pyIntCore_intDigits (z : Int) : pyIntCore (intDigits z) = some z := by
  unfold intDigits
  split
  · rename_i hz
    have hs : isSpaceB 45 = false := by decide
    simp only [pyIntCore, List.dropWhile, hs, pyIntNat_natDigits]
    simp
    omega
  · rename_i hz
    rw [pyIntCore_natDigits]
    simp; omega

theorem filter_digits_natDigits (n : Nat) : (natDigits n).filter isDigitB = natDigits n :=
  List.filter_eq_self.mpr (fun d hd => (isDigitB_iff d).mpr (natDigits_isDigit n d hd))

/-- below the cap `int()` reads back what `str()` wrote -/
theorem pyInt_natDigits (n : Nat) (h : (natDigits n).length ≤ intMaxStrDigits) :
    pyInt (natDigits n) = some (Int.ofNat n) := by
  unfold pyInt
  rw [filter_digits_natDigits, if_neg (by omega), pyIntCore_natDigits]

theorem pyInt_intDigits (z : Int) (h : intFits z = true) : pyInt (intDigits z) = some z := by
  have h' : (natDigits z.natAbs).length ≤ intMaxStrDigits := by simpa [intFits] using h
  have hlen : ((intDigits z).filter isDigitB).length = (natDigits z.natAbs).length := by
    unfold intDigits
    split
    · rename_i hz
      have h45 : isDigitB 45 = false := by decide
      have : (-z).toNat = z.natAbs := by omega
      simp [h45, filter_digits_natDigits, this]
    · rename_i hz
      have : z.toNat = z.natAbs := by omega
      simp [filter_digits_natDigits, this]
  unfold pyInt
  rw [hlen, if_neg (by omega), pyIntCore_intDigits]

/-- `n < 10^k` has at most `k` digits (one for `k = 0`) -/
theorem natDigits_length_le (n : Nat) : ∀ k, 0 < k → n < 10 ^ k → (natDigits n).length ≤ k := by
  fun_induction natDigits n with
  | case1 n h => intro k hk _; simp; omega
  | case2 n h ih =>
    intro k hk hn
    have hk2 : 1 < k := by
      cases k with
      | zero => omega
      | succ k => cases k with
        | zero => simp at hn; omega
        | succ k => omega
    have : n / 10 < 10 ^ (k - 1) := by
      have e : 10 ^ k = 10 ^ (k - 1) * 10 := by rw [← Nat.pow_succ]; congr 1; omega
      rw [e] at hn
      exact Nat.div_lt_of_lt_mul (by omega)
    have := ih (k - 1) (by omega) this
    simp; omega

/-- `10^k ≤ n` has more than `k` digits -/
theorem natDigits_length_gt (n : Nat) : ∀ k, 10 ^ k ≤ n → k < (natDigits n).length := by
  fun_induction natDigits n with
  | case1 n h =>
    intro k hk
    cases k with
    | zero => simp
    | succ k =>
      have : 10 ≤ 10 ^ (k + 1) := by
        have := Nat.pow_le_pow_right (n := 10) (by omega) (show 1 ≤ k + 1 by omega)
        simpa using this
      omega
  | case2 n h ih =>
    intro k hk
    cases k with
    | zero => simp
    | succ k =>
      have : 10 ^ k ≤ n / 10 := by
        rw [Nat.pow_succ] at hk
        exact (Nat.le_div_iff_mul_le (by omega)).mpr hk
      have := ih k this
      simp; omega

theorem intFits_iff_lt (z : Int) : intFits z = true ↔ z.natAbs < 10 ^ intMaxStrDigits := by
  unfold intFits
  simp only [decide_eq_true_iff]
  constructor
  · intro h
    apply Nat.lt_of_not_le
    intro hle
    have := natDigits_length_gt z.natAbs intMaxStrDigits hle
    omega
  · intro h
    exact natDigits_length_le z.natAbs intMaxStrDigits (by decide) h

theorem intFits_of_lt_ten (z : Int) (h : z.natAbs < 10) : intFits z = true := by
  have := natDigits_length_le z.natAbs 1 (by omega) (by omega)
  unfold intFits intMaxStrDigits
  simp only [decide_eq_true_iff]; omega

theorem natDigits_length_of_ssize (n : Nat) (h : n < 2 ^ 63) : (natDigits n).length ≤ intMaxStrDigits := by
  have := natDigits_length_le n 19 (by omega) (by omega)
  unfold intMaxStrDigits; omega

theorem intDigits_ne_e (z : Int) : ∀ x ∈ intDigits z, x ≠ 101 := by
  intro x hx e
  subst e
  unfold intDigits at hx
  split at hx
  · simp at hx
    exact not_digit_101 (natDigits_isDigit _ _ hx)
  · exact not_digit_101 (natDigits_isDigit _ _ hx)

theorem decBytes_encBytes (b rest : List UInt8) (hb : b.length < 2 ^ 63) :
    decBytes (encBytes b ++ rest) = .ok (.bytes b, rest) := by
  unfold encBytes decBytes
  have hr : readUntil 58 (natDigits b.length ++ 58 :: b ++ rest) = some (natDigits b.length, b ++ rest) := by
    have := readUntil_append 58 (natDigits b.length) (b ++ rest) (by
      intro x hx e; subst e; exact not_digit_58 (natDigits_isDigit _ _ hx))
    simpa using this
  rw [hr]
  simp only [pyInt_natDigits b.length (natDigits_length_of_ssize b.length hb)]
  have h1 : ¬ ((Int.ofNat b.length) < 0) := by simp
  have h2 : ¬ ((Int.ofNat b.length).toNat ≥ 2 ^ 63) := by simp; omega
  simp only [h1, h2, if_false]
  simp

/-! ### decoding an encoding -/

mutual
  /-- what `bencode` can emit on CPython: every int is within the `str()` digit cap (`encodable`) and every
  byte string and dict key is shorter than 2^63 (`Py_ssize_t`: CPython cannot hold a longer one;
  `f.read(n)` raises OverflowError for `n ≥ 2^63`) -/
  def Fits : BVal → Prop
    | .int z => intFits z = true
    | .bytes b => b.length < 2 ^ 63
    | .list l => FitsList l
    | .dict d => FitsDict d
  def FitsList : BList → Prop
    | .nil => True
    | .cons v t => Fits v ∧ FitsList t
  def FitsDict : BDict → Prop
    | .nil => True
    | .cons k v t => k.length < 2 ^ 63 ∧ Fits v ∧ FitsDict t
end

mutual
  /-- fuel that `decF` needs on `enc v` -/
  def cost : BVal → Nat
    | .int _ => 1
    | .bytes _ => 1
    | .list l => 1 + costList l
    | .dict d => 1 + costDict d
  def costList : BList → Nat
    | .nil => 2
    | .cons v t => 1 + cost v + costList t
  def costDict : BDict → Nat
    | .nil => 2
    | .cons _ v t => 1 + cost v + costDict t
end

theorem ofB_ne_none (v : BVal) : ofB v ≠ .none := by cases v <;> simp [ofB]

theorem decF_bytes (last : Option UInt8) (fuel : Nat) (b rest : List UInt8) (hb : b.length < 2 ^ 63) :
    decF last (fuel + 1) (encBytes b ++ rest) = .ok (.bytes b, rest) := by
  have hdec := decBytes_encBytes b rest hb
  obtain ⟨c, t, hct, hd⟩ := natDigits_head b.length
  have hcons : encBytes b ++ rest = c :: (t ++ 58 :: b ++ rest) := by simp [encBytes, hct]
  rw [hcons] at hdec ⊢
  have h1 : c ≠ 105 := by intro e; subst e; revert hd; unfold IsDigit; decide
  have h2 : c ≠ 108 := by intro e; subst e; revert hd; unfold IsDigit; decide
  have h3 : c ≠ 100 := by intro e; subst e; revert hd; unfold IsDigit; decide
  simp only [decF, h1, h2, h3, if_false, (isDigitB_iff c).mpr hd, if_true, hdec]

theorem decF_end (last : Option UInt8) (fuel : Nat) (rest : List UInt8) :
    decF last (fuel + 1) (101 :: rest) = .ok (.none, rest) := by
  have h1 : (101 : UInt8) ≠ 105 := by decide
  have h2 : (101 : UInt8) ≠ 108 := by decide
  have h3 : (101 : UInt8) ≠ 100 := by decide
  have h4 : isDigitB 101 = false := by decide
  simp [decF, h1, h2, h3, h4]

mutual
  theorem decF_enc (last : Option UInt8) : ∀ (v : BVal) (fuel : Nat) (rest : List UInt8), Fits v → cost v ≤ fuel →
      decF last fuel (enc v ++ rest) = .ok (ofB v, rest)
    | .int z, fuel, rest, hfit, hf => by
      obtain ⟨f, rfl⟩ : ∃ f, fuel = f + 1 := ⟨fuel - 1, by simp [cost] at hf; omega⟩
      simp only [Fits] at hfit
      have hr := readUntil_append 101 (intDigits z) rest (intDigits_ne_e z)
      simp [enc, decF, hr, pyInt_intDigits z hfit, ofB]
    | .bytes b, fuel, rest, hfit, hf => by
      obtain ⟨f, rfl⟩ : ∃ f, fuel = f + 1 := ⟨fuel - 1, by simp [cost] at hf; omega⟩
      simp only [Fits] at hfit
      simp only [enc, ofB]
      exact decF_bytes last f b rest hfit
    | .list l, fuel, rest, hfit, hf => by
      obtain ⟨f, rfl⟩ : ∃ f, fuel = f + 1 := ⟨fuel - 1, by simp [cost] at hf; omega⟩
      simp only [Fits] at hfit
      simp only [cost] at hf
      have ih := decListF_enc last l f rest hfit (by omega)
      have h1 : (108 : UInt8) ≠ 105 := by decide
      simp [enc, decF, h1, ih, ofB]
    | .dict d, fuel, rest, hfit, hf => by
      obtain ⟨f, rfl⟩ : ∃ f, fuel = f + 1 := ⟨fuel - 1, by simp [cost] at hf; omega⟩
      simp only [Fits] at hfit
      simp only [cost] at hf
      have ih := decDictF_enc last d f rest hfit (by omega)
      have h1 : (100 : UInt8) ≠ 105 := by decide
      have h2 : (100 : UInt8) ≠ 108 := by decide
      simp [enc, decF, h1, h2, ih, ofB]
  theorem decListF_enc (last : Option UInt8) : ∀ (l : BList) (fuel : Nat) (rest : List UInt8), FitsList l → costList l ≤ fuel →
      decListF last fuel (encList l ++ rest) = .ok (ofBList l, rest)
    | .nil, fuel, rest, _, hf => by
      obtain ⟨f, rfl⟩ : ∃ f, fuel = f + 2 := ⟨fuel - 2, by simp [costList] at hf; omega⟩
      simp [encList, decListF, decF_end, ofBList]
    | .cons v t, fuel, rest, hfit, hf => by
      obtain ⟨f, rfl⟩ : ∃ f, fuel = f + 1 := ⟨fuel - 1, by simp [costList] at hf; omega⟩
      simp only [FitsList] at hfit
      simp only [costList] at hf
      have ih1 := decF_enc last v f (encList t ++ rest) hfit.1 (by omega)
      have ih2 := decListF_enc last t f rest hfit.2 (by omega)
      simp only [encList, List.append_assoc, decListF, ih1]
      have hn := ofB_ne_none v
      cases hv : ofB v with
      | none => exact absurd hv hn
      | _ => simp [ih2, ofBList, hv]
  theorem decDictF_enc (last : Option UInt8) : ∀ (d : BDict) (fuel : Nat) (rest : List UInt8), FitsDict d → costDict d ≤ fuel →
      decDictF last fuel (encDict d ++ rest) = .ok (ofBDict d, rest)
    | .nil, fuel, rest, _, hf => by
      obtain ⟨f, rfl⟩ : ∃ f, fuel = f + 2 := ⟨fuel - 2, by simp [costDict] at hf; omega⟩
      simp [encDict, decDictF, decF_end, ofBDict]
    | .cons k v t, fuel, rest, hfit, hf => by
      obtain ⟨f, rfl⟩ : ∃ f, fuel = f + 2 := ⟨fuel - 2, by simp [costDict] at hf; cases v <;> simp [cost] at hf <;> omega⟩
      simp only [FitsDict] at hfit
      simp only [costDict] at hf
      have ih0 := decF_bytes last f k (enc v ++ (encDict t ++ rest)) hfit.1
      have ih1 := decF_enc last v (f + 1) (encDict t ++ rest) hfit.2.1 (by omega)
      have ih2 := decDictF_enc last t (f + 1) rest hfit.2.2 (by omega)
      simp only [encDict, List.append_assoc]
      rw [decDictF]
      simp only [ih0, ih1, ih2, ofBDict]
end

theorem natDigits_length_pos (n : Nat) : 0 < (natDigits n).length := by
  have := natDigits_ne_nil n
  cases h : natDigits n with
  | nil => exact absurd h this
  | cons _ _ => simp

mutual
  theorem cost_le : ∀ v : BVal, cost v + 1 ≤ 2 * (enc v).length
    | .int z => by simp [cost, enc]; omega
    | .bytes b => by
      have := natDigits_length_pos b.length
      simp [cost, enc, encBytes]; omega
    | .list l => by have := costList_le l; simp [cost, enc]; omega
    | .dict d => by have := costDict_le d; simp [cost, enc]; omega
  theorem costList_le : ∀ l : BList, costList l ≤ 2 * (encList l).length
    | .nil => by simp [costList, encList]
    | .cons v t => by
      have := cost_le v; have := costList_le t
      simp [costList, encList]; omega
  theorem costDict_le : ∀ d : BDict, costDict d ≤ 2 * (encDict d).length
    | .nil => by simp [costDict, encDict]
    | .cons k v t => by
      have := cost_le v; have := costDict_le t
      simp [costDict, encDict]; omega
end

mutual
  theorem fits_encodable : ∀ v : BVal, Fits v → encodable v = true
    | .int _, h => by simpa [Fits, encodable] using h
    | .bytes _, _ => by simp [encodable]
    | .list l, h => by simp only [Fits] at h; simp [encodable, fitsList_encodable l h]
    | .dict d, h => by simp only [Fits] at h; simp [encodable, fitsDict_encodable d h]
  theorem fitsList_encodable : ∀ l : BList, FitsList l → encodableList l = true
    | .nil, _ => by simp [encodableList]
    | .cons v t, h => by
      simp only [FitsList] at h
      simp [encodableList, fits_encodable v h.1, fitsList_encodable t h.2]
  theorem fitsDict_encodable : ∀ d : BDict, FitsDict d → encodableDict d = true
    | .nil, _ => by simp [encodableDict]
    | .cons _ v t, h => by
      simp only [FitsDict] at h
      simp [encodableDict, fits_encodable v h.2.1, fitsDict_encodable t h.2.2]
end

theorem decode_enc (v : BVal) (rest : List UInt8) (h : Fits v) : decode (enc v ++ rest) = .ok (ofB v, rest) := by
  unfold decode
  apply decF_enc _ v _ rest h
  have := cost_le v
  simp; omega

/-! ### `decode` never runs out of fuel -/

theorem readUntil_length (e : UInt8) : ∀ (bs a r : List UInt8), readUntil e bs = some (a, r) → r.length < bs.length
  | [], a, r, h => by simp [readUntil] at h
  | c :: t, a, r, h => by
    simp only [readUntil] at h
    split at h
    · simp at h; simp [h.2]
    · cases hr : readUntil e t with
      | none => simp [hr] at h
      | some p =>
        obtain ⟨a', r'⟩ := p
        simp [hr] at h
        have := readUntil_length e t a' r' hr
        simp [← h.2]; omega

/-- the result of one decoding step: never out of fuel, never longer, a value costs at least a byte -/
def Good (bs : List UInt8) (r : Except DErr (DVal × List UInt8)) : Prop :=
  r ≠ .error .fuel ∧ ∀ v rest, r = .ok (v, rest) → rest.length ≤ bs.length ∧ (v ≠ .none → rest.length < bs.length)

theorem decBytes_good (bs : List UInt8) : Good bs (decBytes bs) := by
  unfold Good decBytes
  cases hr : readUntil 58 bs with
  | none => simp
  | some p =>
    obtain ⟨ds, r⟩ := p
    have hl := readUntil_length 58 bs ds r hr
    simp only []
    cases pyInt ds with
    | none => simp
    | some z =>
      simp only []
      split
      · simp
      · split
        · simp
        · split
          · simp
          · refine ⟨by simp, ?_⟩
            intro v rest h
            simp at h
            rw [← h.2]
            simp; omega

def GoodL {α : Type} (bs : List UInt8) (r : Except DErr (α × List UInt8)) : Prop :=
  r ≠ .error .fuel ∧ ∀ l rest, r = .ok (l, rest) → rest.length ≤ bs.length

theorem dec_fuel (last : Option UInt8) : ∀ fuel : Nat,
    (∀ bs, 2 * bs.length + 2 ≤ fuel → Good bs (decF last fuel bs)) ∧
    (∀ bs, 2 * bs.length + 3 ≤ fuel → GoodL bs (decListF last fuel bs)) ∧
    (∀ bs, 2 * bs.length + 3 ≤ fuel → GoodL bs (decDictF last fuel bs))
  | 0 => ⟨fun _ h => by omega, fun _ h => by omega, fun _ h => by omega⟩
  | f + 1 => by
    obtain ⟨ihV, ihL, ihD⟩ := dec_fuel last f
    refine ⟨?_, ?_, ?_⟩
    · intro bs hf
      cases bs with
      | nil =>
        simp only [decF]
        split <;> simp [Good]
      | cons c bs =>
        simp only [decF]
        split
        · -- int
          cases hr : readUntil 101 bs with
          | none => simp [Good]
          | some p =>
            obtain ⟨ds, r⟩ := p
            have hl := readUntil_length 101 bs ds r hr
            simp only []
            cases pyInt ds with
            | none => simp [Good]
            | some z =>
              refine ⟨by simp, ?_⟩
              intro v rest h
              simp at h
              rw [← h.2]; simp; omega
        · split
          · have := ihL bs (by simp at hf; omega)
            cases hl : decListF last f bs with
            | error e =>
              rw [hl] at this
              refine ⟨?_, by simp⟩
              intro h; simp at h; subst h; exact this.1 rfl
            | ok p =>
              obtain ⟨l, r⟩ := p
              rw [hl] at this
              refine ⟨by simp, ?_⟩
              intro v rest h
              simp at h
              have := this.2 l r rfl
              rw [← h.2]; simp; omega
          · split
            · have := ihD bs (by simp at hf; omega)
              cases hl : decDictF last f bs with
              | error e =>
                rw [hl] at this
                refine ⟨?_, by simp⟩
                intro h; simp at h; subst h; exact this.1 rfl
              | ok p =>
                obtain ⟨l, r⟩ := p
                rw [hl] at this
                refine ⟨by simp, ?_⟩
                intro v rest h
                simp at h
                have := this.2 l r rfl
                rw [← h.2]; simp; omega
            · split
              · exact decBytes_good (c :: bs)
              · split
                · refine ⟨by simp, ?_⟩
                  intro v rest h
                  simp at h
                  rw [← h.2]; simp [← h.1]
                · simp [Good]
    · intro bs hf
      simp only [decListF]
      have hV := ihV bs (by omega)
      cases hd : decF last f bs with
      | error e =>
        rw [hd] at hV
        refine ⟨?_, by simp⟩
        intro h; simp at h; subst h; exact hV.1 rfl
      | ok p =>
        obtain ⟨v, r⟩ := p
        rw [hd] at hV
        have hv := hV.2 v r rfl
        cases v with
        | none => simp [GoodL]; exact hv.1
        | int z =>
          have hlt := hv.2 (by simp)
          have hL := ihL r (by omega)
          simp only []
          cases hl : decListF last f r with
          | error e =>
            rw [hl] at hL
            refine ⟨?_, by simp⟩
            intro h; simp at h; subst h; exact hL.1 rfl
          | ok q =>
            obtain ⟨t, r'⟩ := q
            rw [hl] at hL
            have := hL.2 t r' rfl
            refine ⟨by simp, ?_⟩
            intro l rest h
            simp at h
            rw [← h.2]; omega
        | bytes z =>
          have hlt := hv.2 (by simp)
          have hL := ihL r (by omega)
          simp only []
          cases hl : decListF last f r with
          | error e =>
            rw [hl] at hL
            refine ⟨?_, by simp⟩
            intro h; simp at h; subst h; exact hL.1 rfl
          | ok q =>
            obtain ⟨t, r'⟩ := q
            rw [hl] at hL
            have := hL.2 t r' rfl
            refine ⟨by simp, ?_⟩
            intro l rest h
            simp at h
            rw [← h.2]; omega
        | list z =>
          have hlt := hv.2 (by simp)
          have hL := ihL r (by omega)
          simp only []
          cases hl : decListF last f r with
          | error e =>
            rw [hl] at hL
            refine ⟨?_, by simp⟩
            intro h; simp at h; subst h; exact hL.1 rfl
          | ok q =>
            obtain ⟨t, r'⟩ := q
            rw [hl] at hL
            have := hL.2 t r' rfl
            refine ⟨by simp, ?_⟩
            intro l rest h
            simp at h
            rw [← h.2]; omega
        | dict z =>
          have hlt := hv.2 (by simp)
          have hL := ihL r (by omega)
          simp only []
          cases hl : decListF last f r with
          | error e =>
            rw [hl] at hL
            refine ⟨?_, by simp⟩
            intro h; simp at h; subst h; exact hL.1 rfl
          | ok q =>
            obtain ⟨t, r'⟩ := q
            rw [hl] at hL
            have := hL.2 t r' rfl
            refine ⟨by simp, ?_⟩
            intro l rest h
            simp at h
            rw [← h.2]; omega
    · intro bs hf
      simp only [decDictF]
      have hV := ihV bs (by omega)
      cases hd : decF last f bs with
      | error e =>
        rw [hd] at hV
        refine ⟨?_, by simp⟩
        intro h; simp at h; subst h; exact hV.1 rfl
      | ok p =>
        obtain ⟨v, r⟩ := p
        rw [hd] at hV
        have hv := hV.2 v r rfl
        cases v with
        | none => simp [GoodL]; exact hv.1
        | int z => simp [GoodL]
        | list z => simp [GoodL]
        | dict z => simp [GoodL]
        | bytes k =>
          have hlt := hv.2 (by simp)
          have hV2 := ihV r (by omega)
          simp only []
          cases hd2 : decF last f r with
          | error e =>
            rw [hd2] at hV2
            refine ⟨?_, by simp⟩
            intro h; simp at h; subst h; exact hV2.1 rfl
          | ok q =>
            obtain ⟨w, r2⟩ := q
            rw [hd2] at hV2
            have hw := (hV2.2 w r2 rfl).1
            have hD := ihD r2 (by omega)
            simp only []
            cases hl : decDictF last f r2 with
            | error e =>
              rw [hl] at hD
              refine ⟨?_, by simp⟩
              intro h; simp at h; subst h; exact hD.1 rfl
            | ok q =>
              obtain ⟨t, r'⟩ := q
              rw [hl] at hD
              have := hD.2 t r' rfl
              refine ⟨by simp, ?_⟩
              intro l rest h
              simp at h
              rw [← h.2]; omega

theorem decode_ne_fuel (data : List UInt8) : decode data ≠ .error .fuel :=
  ((dec_fuel data.getLast? (2 * data.length + 2)).1 data (Nat.le_refl _)).1

/-! ### the Python-dict view of a decoded dict; uniqueness of the sorted form -/

theorem dHasKey_ofBDict (k : List UInt8) : ∀ t : BDict, dHasKey k (ofBDict t) = true ↔ k ∈ BDict.keys t
  | .nil => by simp [ofBDict, dHasKey, BDict.keys]
  | .cons k' v t => by simp [ofBDict, dHasKey, BDict.keys, dHasKey_ofBDict k t]

theorem dInsert_lt (k : List UInt8) (v : DVal) : ∀ t : BDict, (∀ k' ∈ BDict.keys t, bytesLt k k' = true) →
    dInsert k v (ofBDict t) = .cons k v (ofBDict t)
  | .nil, _ => by simp [ofBDict, dInsert]
  | .cons k' v' t, h => by simp [ofBDict, dInsert, h k' (by simp [BDict.keys])]

mutual
  theorem canonD_ofB : ∀ v : BVal, WF v → canonD (ofB v) = ofB v
    | .int _, _ => by simp [ofB, canonD]
    | .bytes _, _ => by simp [ofB, canonD]
    | .list l, h => by simp only [WF] at h; simp [ofB, canonD, canonDList_ofB l h]
    | .dict d, h => by simp only [WF] at h; simp [ofB, canonD, canonDDict_ofB d h]
  theorem canonDList_ofB : ∀ l : BList, WFList l → canonDList (ofBList l) = ofBList l
    | .nil, _ => by simp [ofBList, canonDList]
    | .cons v t, h => by
      simp only [WFList] at h
      simp [ofBList, canonDList, canonD_ofB v h.1, canonDList_ofB t h.2]
  theorem canonDDict_ofB : ∀ d : BDict, WFDict d → canonDDict (ofBDict d) = ofBDict d
    | .nil, _ => by simp [ofBDict, canonDDict]
    | .cons k v t, h => by
      simp only [WFDict] at h
      have hk : dHasKey k (ofBDict t) = false := by
        cases hh : dHasKey k (ofBDict t) with
        | false => rfl
        | true =>
          have := h.2.1 k ((dHasKey_ofBDict k t).mp hh)
          rw [bytesLt_irrefl] at this; cases this
      simp [ofBDict, canonDDict, canonDDict_ofB t h.2.2, canonD_ofB v h.1, hk, dInsert_lt k (ofB v) t h.2.1]
end

theorem items_key_mem : ∀ (d : BDict) (p : List UInt8 × BVal), p ∈ BDict.items d → p.1 ∈ BDict.keys d
  | .nil, p, hp => by simp [BDict.items] at hp
  | .cons k v t, p, hp => by
    simp only [BDict.items, List.mem_cons] at hp
    rcases hp with rfl | hp
    · simp [BDict.keys]
    · simp [BDict.keys, items_key_mem t p hp]

/-- two key-sorted dicts with the same items are the same dict (the sorted form is unique) -/
theorem wfDict_ext : ∀ (a b : BDict), WFDict a → WFDict b →
    (∀ p, p ∈ BDict.items a ↔ p ∈ BDict.items b) → a = b
  | .nil, .nil, _, _, _ => rfl
  | .nil, .cons k v t, _, _, h => by have := (h (k, v)).mpr (by simp [BDict.items]); simp [BDict.items] at this
  | .cons k v t, .nil, _, _, h => by have := (h (k, v)).mp (by simp [BDict.items]); simp [BDict.items] at this
  | .cons k1 v1 t1, .cons k2 v2 t2, ha, hb, h => by
    simp only [WFDict] at ha hb
    have keyOf := items_key_mem
    have h1 := (h (k1, v1)).mp (by simp [BDict.items])
    have h2 := (h (k2, v2)).mpr (by simp [BDict.items])
    simp only [BDict.items, List.mem_cons, Prod.mk.injEq] at h1 h2
    have hk : k1 = k2 := by
      rcases h1 with h1 | h1
      · exact h1.1
      · rcases h2 with h2 | h2
        · exact h2.1.symm
        · have l1 := hb.2.1 k1 (keyOf t2 _ h1)
          have l2 := ha.2.1 k2 (keyOf t1 _ h2)
          rw [bytesLt_asymm l1] at l2; cases l2
    subst hk
    have hv : v1 = v2 := by
      rcases h1 with h1 | h1
      · exact h1.2
      · have l1 := hb.2.1 k1 (keyOf t2 _ h1)
        rw [bytesLt_irrefl] at l1; cases l1
    subst hv
    have ht : t1 = t2 := by
      apply wfDict_ext t1 t2 ha.2.2 hb.2.2
      intro p
      constructor
      · intro hp
        have := (h p).mp (by simp [BDict.items, hp])
        simp only [BDict.items, List.mem_cons] at this
        rcases this with rfl | this
        · have l1 := ha.2.1 _ (keyOf t1 _ hp)
          rw [bytesLt_irrefl] at l1; cases l1
        · exact this
      · intro hp
        have := (h p).mpr (by simp [BDict.items, hp])
        simp only [BDict.items, List.mem_cons] at this
        rcases this with rfl | this
        · have l1 := hb.2.1 _ (keyOf t2 _ hp)
          rw [bytesLt_irrefl] at l1; cases l1
        · exact this
    rw [ht]

end RedunModel.BStruct
