/-
Lemmas about EvalCore: the executable evaluator is sound for the big-step relation
(`evalAll_sound`, `evalFuel_sound`), concrete values evaluate to themselves and only to themselves,
results of evaluations are concrete values.
-/
import RedunModel.Model.EvalCore
namespace RedunModel.EvalCore

variable {cx : Ctx}

/-- the rules never prescribe "unknown" -/
theorem Eval.ne_unk {lib : Lib} {e : Expr} {r : Out} (h : Eval lib cx e r) : r ≠ .unk := by
  induction h <;> first | assumption | (intro hc; cases hc)

theorem mem_bindO {rs : Outs} {k : Expr → Outs} {r : Out} :
    r ∈ bindO rs k ↔ (∃ v, .ok v ∈ rs ∧ r ∈ k v) ∨ (∃ x, r = .err x ∧ .err x ∈ rs) ∨ (r = .unk ∧ .unk ∈ rs) := by
  unfold bindO
  rw [List.mem_flatMap]
  constructor
  · rintro ⟨o, ho, hr⟩
    cases o with
    | ok v => exact Or.inl ⟨v, ho, hr⟩
    | err x =>
      simp at hr
      exact Or.inr (Or.inl ⟨x, hr, hr ▸ ho⟩)
    | unk =>
      simp at hr
      exact Or.inr (Or.inr ⟨hr, hr ▸ ho⟩)
  · rintro (⟨v, hv, hr⟩ | ⟨x, rfl, hx⟩ | ⟨rfl, hu⟩)
    · exact ⟨.ok v, hv, hr⟩
    · exact ⟨.err x, hx, by simp⟩
    · exact ⟨.unk, hu, by simp⟩

/-- known outcomes of `bindO` -/
theorem bindO_known {rs : Outs} {k : Expr → Outs} {r : Out} (h : r ∈ bindO rs k) (hk : r ≠ .unk) :
    (∃ v, .ok v ∈ rs ∧ r ∈ k v) ∨ (∃ x, r = .err x ∧ .err x ∈ rs) := by
  rcases mem_bindO.mp h with h | h | ⟨h, _⟩
  · exact Or.inl h
  · exact Or.inr h
  · exact absurd h hk

theorem bindL_known {rs : Outs} {k : List Expr → Outs} {r : Out} (h : r ∈ bindL rs k) (hk : r ≠ .unk) :
    (∃ vs, .ok (L vs) ∈ rs ∧ r ∈ k vs) ∨ (∃ x, r = .err x ∧ .err x ∈ rs) := by
  rcases bindO_known h hk with ⟨v, hv, hr⟩ | h
  · left
    unfold onList at hr
    split at hr
    · exact ⟨_, hv, hr⟩
    · simp at hr; exact absurd hr hk
  · exact Or.inr h

theorem thenEval_known {rec : Expr → Outs} {o r : Out} (h : r ∈ thenEval rec o) (hk : r ≠ .unk) :
    (∃ e, o = .ok e ∧ r ∈ rec e) ∨ (∃ x, o = .err x ∧ r = .err x) := by
  cases o with
  | ok e => exact Or.inl ⟨e, rfl, h⟩
  | err x => simp [thenEval] at h; exact Or.inr ⟨x, rfl, h⟩
  | unk => simp [thenEval] at h; exact absurd h hk

theorem consJoin_known {rs tails : Outs} {r : Out} (h : r ∈ consJoin rs tails) (hk : r ≠ .unk) :
    (∃ v vs, r = .ok (L (v :: vs)) ∧ .ok v ∈ rs ∧ .ok (L vs) ∈ tails)
    ∨ (∃ x, r = .err x ∧ (.err x ∈ rs ∨ .err x ∈ tails)) := by
  unfold consJoin at h
  rw [List.mem_append, List.mem_append] at h
  rcases h with (h | h) | h
  · rw [List.mem_flatMap] at h
    obtain ⟨o, ho, hr⟩ := h
    cases o with
    | ok v =>
      simp only at hr
      rw [List.mem_flatMap] at hr
      obtain ⟨t, ht, hr⟩ := hr
      split at hr
      · simp at hr
        exact Or.inl ⟨v, _, hr, ho, ht⟩
      · simp at hr; exact absurd hr hk
      · simp at hr
    | err x => simp at hr
    | unk => simp at hr
  · rw [List.mem_filter] at h
    cases r with
    | ok v => simp [Out.isOk] at h
    | err x => exact Or.inr ⟨x, rfl, Or.inl h.1⟩
    | unk => exact absurd rfl hk
  · rw [List.mem_filter] at h
    cases r with
    | ok v => simp [Out.isOk] at h
    | err x => exact Or.inr ⟨x, rfl, Or.inr h.1⟩
    | unk => exact absurd rfl hk

theorem bind2_known {xs ys : Outs} {k : List Expr → List Expr → Outs} {r : Out} (h : r ∈ bind2 xs ys k) (hk : r ≠ .unk) :
    (∃ a d, .ok (L a) ∈ xs ∧ .ok (L d) ∈ ys ∧ r ∈ k a d) ∨ (∃ x, r = .err x ∧ (.err x ∈ xs ∨ .err x ∈ ys)) := by
  unfold bind2 at h
  rcases bindL_known h hk with ⟨vs, hvs, hr⟩ | ⟨x, rfl, hx⟩
  · rcases consJoin_known hvs (by simp) with ⟨v, vs1, heq, hv, hvs1⟩ | ⟨x, hx, _⟩
    · rcases consJoin_known hvs1 (by simp) with ⟨w, vs2, heq2, hw, hvs2⟩ | ⟨x, hx, _⟩
      · simp at hvs2
        injection heq with heq; injection heq with _ heq
        injection heq2 with heq2; injection heq2 with _ heq2
        subst heq2; subst heq; subst hvs2
        split at hr
        · rename_i a d heq
          simp at heq
          obtain ⟨h1, h2⟩ := heq
          subst h1; subst h2
          exact Or.inl ⟨_, _, hv, hw, hr⟩
        · simp at hr; exact absurd hr hk
      · cases hx
    · cases hx
  · rcases consJoin_known hx (by simp) with ⟨_, _, heq, _, _⟩ | ⟨y, hy, h1 | h2⟩
    · cases heq
    · injection hy with hy; subst hy; exact Or.inr ⟨_, rfl, Or.inl h1⟩
    · rcases consJoin_known h2 (by simp) with ⟨_, _, heq, _, _⟩ | ⟨z, hz, h3 | h4⟩
      · cases heq
      · injection hy with hy; injection hz with hz; subst hy; subst hz; exact Or.inr ⟨_, rfl, Or.inr h3⟩
      · simp at h4

def RecSound (lib : Lib) (cx : Ctx) (rec : Expr → Outs) : Prop := ∀ e r, r ∈ rec e → r ≠ .unk → Eval lib cx e r

theorem evalList_sound {lib : Lib} {rec : Expr → Outs} (hrec : RecSound lib cx rec) :
    ∀ es r, r ∈ evalList rec es → r ≠ .unk → Eval lib cx (L es) r := by
  intro es
  induction es with
  | nil =>
    intro r h _
    simp [evalList, joinList] at h
    subst h
    exact Eval.nil
  | cons e es ih =>
    intro r h hk
    simp only [evalList, List.map_cons, joinList] at h
    rcases consJoin_known h hk with ⟨v, vs, rfl, hv, hvs⟩ | ⟨x, rfl, hx | hx⟩
    · exact Eval.cons (hrec _ _ hv (by simp)) (ih _ hvs (by simp))
    · exact Eval.consErrHd (hrec _ _ hx (by simp))
    · exact Eval.consErrTl (ih _ hx (by simp))


theorem condGo_sound {lib : Lib} {rec : Expr → Outs} (hrec : RecSound lib cx rec) :
    ∀ (exprs : List Expr) (r : Out), r ∈ condGo rec exprs → r ≠ .unk → Eval lib cx (.cond exprs) r
  | [], r, h, hk => by simp [condGo] at h; exact absurd h hk
  | [_], r, h, hk => by simp [condGo] at h; exact absurd h hk
  | [c, t], r, h, hk => by
    rw [condGo] at h
    rcases bindO_known h hk with ⟨cv, hcv, hr⟩ | ⟨x, rfl, hx⟩
    · by_cases ht : truthy cv = true
      · simp only [ht, if_true] at hr
        exact Eval.condThen (hrec _ _ hcv (by simp)) ht (hrec _ _ hr hk)
      · simp only [ht] at hr
        have ht' : truthy cv = false := by simpa using ht
        simp at hr
        subst hr
        exact Eval.condNoElse (hrec _ _ hcv (by simp)) ht'
    · exact Eval.condErr (hrec _ _ hx (by simp))
  | [c, t, e], r, h, hk => by
    rw [condGo] at h
    rcases bindO_known h hk with ⟨cv, hcv, hr⟩ | ⟨x, rfl, hx⟩
    · by_cases ht : truthy cv = true
      · simp only [ht, if_true] at hr
        exact Eval.condThen (hrec _ _ hcv (by simp)) ht (hrec _ _ hr hk)
      · simp only [ht] at hr
        have ht' : truthy cv = false := by simpa using ht
        simp at hr
        exact Eval.condElse (hrec _ _ hcv (by simp)) ht' (hrec _ _ hr hk)
    · exact Eval.condErr (hrec _ _ hx (by simp))
  | c :: t :: c2 :: t2 :: rest, r, h, hk => by
    rw [condGo] at h
    rcases bindO_known h hk with ⟨cv, hcv, hr⟩ | ⟨x, rfl, hx⟩
    · by_cases ht : truthy cv = true
      · simp only [ht, if_true] at hr
        exact Eval.condThen (hrec _ _ hcv (by simp)) ht (hrec _ _ hr hk)
      · simp only [ht] at hr
        have ht' : truthy cv = false := by simpa using ht
        simp at hr
        exact Eval.condElif (hrec _ _ hcv (by simp)) ht' (condGo_sound hrec _ _ hr hk)
    · exact Eval.condErr (hrec _ _ hx (by simp))

theorem seqGo_sound {lib : Lib} {rec : Expr → Outs} (hrec : RecSound lib cx rec) :
    ∀ (es : List Expr) (r : Out), r ∈ seqGo rec es → r ≠ .unk → Eval lib cx (.seq es) r := by
  intro es
  induction es with
  | nil =>
    intro r h _
    simp [seqGo] at h
    subst h
    exact Eval.seqNil
  | cons e es ih =>
    intro r h hk
    rw [seqGo] at h
    rcases bindO_known h hk with ⟨v, hv, hr⟩ | ⟨x, rfl, hx⟩
    · rcases bindL_known hr hk with ⟨vs, hvs, hr⟩ | ⟨x, rfl, hx⟩
      · simp at hr
        subst hr
        exact Eval.seqCons (hrec _ _ hv (by simp)) (ih _ hvs (by simp))
      · exact Eval.seqErrTl (hrec _ _ hv (by simp)) (ih _ hx (by simp))
    · exact Eval.seqErrHd (hrec _ _ hx (by simp))


theorem settle_not_err {lib : Lib} {e : Expr} {x : Err} : ¬ Eval lib cx (.settle e) (.err x) := by
  intro h; cases h

theorem settleList_not_err {lib : Lib} {x : Err} : ∀ items : List Expr, ¬ Eval lib cx (L (items.map .settle)) (.err x) := by
  intro items
  induction items with
  | nil => intro h; cases h; contradiction
  | cons e es ih =>
    intro h
    simp only [List.map_cons] at h
    cases h with
    | consErrHd h => exact settle_not_err h
    | consErrTl h => exact ih h
    | contErr hk _ => exact hk rfl

theorem rebuild_ne_err {s : Shape} {vs : List Expr} {y : Err} : rebuild s vs ≠ .err y := by
  unfold rebuild
  split <;> (try split) <;> simp

theorem iterOf_ok {v w : Expr} (h : iterOf v = .ok w) : ∃ xs, w = L xs := by
  unfold iterOf at h
  split at h
  · exact ⟨_, (Out.ok.inj h).symm⟩
  · exact ⟨_, (Out.ok.inj h).symm⟩
  · exact ⟨_, (Out.ok.inj h).symm⟩
  · exact ⟨_, (Out.ok.inj h).symm⟩
  · split at h
    all_goals first
      | (simp [typeName] at h; done)
      | (cases h)

theorem mem_singleton_ok {r : Out} {o : Out} (h : r ∈ [o]) : r = o := by simpa using h

theorem step_sound {lib : Lib} {recC : Ctx → Expr → Outs} (hrecAll : ∀ cx, RecSound lib cx (recC cx)) :
    ∀ cx, RecSound lib cx (step lib recC cx) := by
  intro cx e r h hk
  have hrec := hrecAll cx
  cases e with
  | none => simp only [step] at h; rw [mem_singleton_ok h]; exact Eval.leaf rfl
  | bool b => simp only [step] at h; rw [mem_singleton_ok h]; exact Eval.leaf rfl
  | int z => simp only [step] at h; rw [mem_singleton_ok h]; exact Eval.leaf rfl
  | str s => simp only [step] at h; rw [mem_singleton_ok h]; exact Eval.leaf rfl
  | errv x => simp only [step] at h; rw [mem_singleton_ok h]; exact Eval.leaf rfl
  | cls n => simp only [step] at h; rw [mem_singleton_ok h]; exact Eval.leaf rfl
  | pyfunc n => simp only [step] at h; rw [mem_singleton_ok h]; exact Eval.leaf rfl
  | taskv n => simp only [step] at h; rw [mem_singleton_ok h]; exact Eval.leaf rfl
  | partialv t a kn kv => simp only [step] at h; rw [mem_singleton_ok h]; exact Eval.leaf rfl
  | threadv e => simp only [step] at h; rw [mem_singleton_ok h]; exact Eval.leaf rfl
  | objv c a => simp only [step] at h; rw [mem_singleton_ok h]; exact Eval.leaf rfl
  | vexpr v =>
    simp only [step] at h
    split at h
    · rename_i hv; rw [mem_singleton_ok h]; exact Eval.vexpr hv
    · exact absurd (mem_singleton_ok h) hk
  | cont k es =>
    by_cases hkl : k = .list
    · subst hkl
      simp only [step] at h
      exact evalList_sound hrec _ _ h hk
    · simp only [step] at h
      rcases bindL_known h hk with ⟨vs, hvs, hr⟩ | ⟨x, rfl, hx⟩
      · split at hr
        · rename_i hc; rw [mem_singleton_ok hr]
          exact Eval.cont hkl (evalList_sound hrec _ _ hvs (by simp)) hc
        · exact absurd (mem_singleton_ok hr) hk
      · exact Eval.contErr hkl (evalList_sound hrec _ _ hx (by simp))
  | dict ks vs =>
    simp only [step] at h
    rcases bindL_known h hk with ⟨all, hall, hr⟩ | ⟨x, rfl, hx⟩
    · split at hr
      · rename_i hc; rw [mem_singleton_ok hr]
        exact Eval.dict (evalList_sound hrec _ _ hall (by simp)) hc
      · exact absurd (mem_singleton_ok hr) hk
    · exact Eval.dictErr (evalList_sound hrec _ _ hx (by simp))
  | call t args kwn kwv ovn ovv =>
    simp only [step] at h
    split at h
    · exact absurd (mem_singleton_ok h) hk
    · rename_i td htd
      have hrec' := hrecAll (cx.override ovn ovv)
      rcases bind2_known h hk with ⟨akv, dvs, ha, hd, hr⟩ | ⟨x, rfl, hx | hx⟩
      · rcases thenEval_known hr hk with ⟨e', he', hr⟩ | ⟨x, hx, rfl⟩
        · exact Eval.call htd (evalList_sound hrec _ _ ha (by simp)) (evalList_sound hrec' _ _ hd (by simp)) he'
            (hrec' _ _ hr hk)
        · exact Eval.callRaise htd (evalList_sound hrec _ _ ha (by simp)) (evalList_sound hrec' _ _ hd (by simp)) hx
      · exact Eval.callArgErr htd (evalList_sound hrec _ _ hx (by simp))
      · exact Eval.callDefaultErr htd (evalList_sound hrec' _ _ hx (by simp))
  | op name args =>
    simp only [step] at h
    rcases bindL_known h hk with ⟨vs, hvs, hr⟩ | ⟨x, rfl, hx⟩
    · rcases thenEval_known hr hk with ⟨e', he', hr⟩ | ⟨x, hx, rfl⟩
      · exact Eval.op (evalList_sound hrec _ _ hvs (by simp)) he' (hrec _ _ hr hk)
      · exact Eval.opRaise (evalList_sound hrec _ _ hvs (by simp)) hx
    · exact Eval.opArgErr (evalList_sound hrec _ _ hx (by simp))
  | cond exprs => simp only [step] at h; exact condGo_sound hrec _ _ h hk
  | seq exprs => simp only [step] at h; exact seqGo_sound hrec _ _ h hk
  | «catch» e clss recs =>
    simp only [step] at h
    rw [List.mem_flatMap] at h
    obtain ⟨o, ho, hr⟩ := h
    cases o with
    | ok v => simp at hr; subst hr; exact Eval.catchOk (hrec _ _ ho (by simp))
    | unk => simp at hr; exact absurd hr hk
    | err x =>
      simp only at hr
      split at hr
      · rename_i hm; rw [mem_singleton_ok hr]; exact Eval.catchMiss (hrec _ _ ho (by simp)) hm
      · exact absurd (mem_singleton_ok hr) hk
      · rename_i rc hm
        rcases thenEval_known hr hk with ⟨e', he', hr⟩ | ⟨y, hy, rfl⟩
        · exact Eval.catchHit (hrec _ _ ho (by simp)) hm he' (hrec _ _ hr hk)
        · exact Eval.catchHitRaise (hrec _ _ ho (by simp)) hm hy
  | catchAll exprs cls recover =>
    simp only [step] at h
    split at h
    · exact absurd (mem_singleton_ok h) hk
    · rename_i shape items hterms
      rcases bindL_known h hk with ⟨outs, houts, hr⟩ | ⟨x, rfl, hx⟩
      · have hE := evalList_sound hrec _ _ houts (by simp)
        split at hr
        · exact absurd (mem_singleton_ok hr) hk
        · rename_i vals hun
          have hrb := mem_singleton_ok hr
          cases hb : rebuild shape vals with
          | ok v => rw [hrb, hb]; exact Eval.catchAllOk hterms hE hun hb
          | err y => exact absurd hb rebuild_ne_err
          | unk => rw [hb] at hrb; exact absurd hrb hk
        · rename_i vals x errs hun
          split at hr
          · exact absurd (mem_singleton_ok hr) hk
          · rename_i hv
            have hv' : isValue recover = true := by simpa using hv
            split at hr
            · rename_i ht
              have ht' : truthy recover = false := by simpa using ht
              rw [mem_singleton_ok hr]
              exact Eval.catchAllFirst hterms hE hun hv' ht'
            · rename_i ht
              have ht' : truthy recover = true := by simpa using ht
              rcases bindL_known hr hk with ⟨cr, hcr, hr⟩ | ⟨y, rfl, hy⟩
              · have hE2 := evalList_sound hrec _ _ hcr (by simp)
                split at hr
                · rename_i cv rv
                  split at hr
                  · exact absurd (mem_singleton_ok hr) hk
                  · rename_i y hm; rw [mem_singleton_ok hr]
                    exact Eval.catchAllNoMatch hterms hE hun hv' ht' hE2 hm
                  · rename_i hm
                    split at hr
                    · rename_i nv hb
                      rcases thenEval_known hr hk with ⟨e', he', hr⟩ | ⟨y, hy, rfl⟩
                      · exact Eval.catchAllRecover hterms hE hun hv' ht' hE2 hm hb he' (hrec _ _ hr hk)
                      · exact Eval.catchAllRecoverRaise hterms hE hun hv' ht' hE2 hm hb hy
                    · rename_i o hno
                      have := mem_singleton_ok hr
                      subst this
                      cases hb : rebuild shape vals with
                      | ok v => exact absurd hb (hno v)
                      | err y => exact absurd hb rebuild_ne_err
                      | unk => exact absurd hb hk
                · exact absurd (mem_singleton_ok hr) hk
              · exact Eval.catchAllArgErr hterms hE hun hv' ht' (evalList_sound hrec _ _ hy (by simp))
      · exact absurd (evalList_sound hrec _ _ hx (by simp)) (settleList_not_err items)
  | map_ f values =>
    simp only [step] at h
    rcases bindO_known h hk with ⟨av, hav, hr⟩ | ⟨x, rfl, hx⟩
    · have hA := hrec _ _ hav (by simp)
      split at hr
      · rename_i items hraw
        rcases thenEval_known hr hk with ⟨e', he', hr⟩ | ⟨y, hy, rfl⟩
        · exact Eval.mapRaw hA hraw he' (hrec _ _ hr hk)
        · exact Eval.mapRawRaise hA hraw hy
      · rename_i hraw
        rcases bindO_known hr hk with ⟨vv, hvv, hr⟩ | ⟨x, rfl, hx⟩
        · have hV := hrec _ _ hvv (by simp)
          split at hr
          · rename_i items hit
            rcases thenEval_known hr hk with ⟨e', he', hr⟩ | ⟨y, hy, rfl⟩
            · exact Eval.mapEval hA hraw hV hit he' (hrec _ _ hr hk)
            · exact Eval.mapEvalRaise hA hraw hV hit hy
          · exact absurd (mem_singleton_ok hr) hk
          · rename_i o hno1 hno2
            have := mem_singleton_ok hr
            subst this
            cases hi : iterOf vv with
            | ok w =>
              obtain ⟨xs, rfl⟩ := iterOf_ok hi
              exact absurd hi (hno1 xs)
            | err y => exact Eval.mapNotIter hA hraw hV hi
            | unk => exact absurd hi hk
        · exact Eval.mapValuesErr hA hraw (hrec _ _ hx (by simp))
    · exact Eval.mapTaskErr (hrec _ _ hx (by simp))
  | applyTags v tags jtags etags =>
    simp only [step] at h
    rcases bindL_known h hk with ⟨all, hall, hr⟩ | ⟨x, rfl, hx⟩
    · have hE := evalList_sound hrec _ _ hall (by simp)
      split at hr
      · rename_i vv tv jv ev
        split at hr
        · rename_i hc
          simp only [Bool.and_eq_true] at hc
          rw [mem_singleton_ok hr]
          exact Eval.applyTags hE hc.1.1 hc.1.2 hc.2
        · exact absurd (mem_singleton_ok hr) hk
      · exact absurd (mem_singleton_ok hr) hk
    · exact Eval.applyTagsErr (evalList_sound hrec _ _ hx (by simp))
  | fork e => simp only [step] at h; rw [mem_singleton_ok h]; exact Eval.fork
  | join th =>
    simp only [step] at h
    split at h
    · exact Eval.join (hrec _ _ h hk)
    · exact absurd (mem_singleton_ok h) hk
  | subrun e ne =>
    simp only [step] at h
    rw [List.mem_flatMap] at h
    obtain ⟨o, ho, hr⟩ := h
    have hin := hrecAll (if ne then lib.config.over cx else Ctx.empty.over cx)
    cases o with
    | ok v =>
      simp only at hr
      rcases bindO_known hr hk with ⟨d, hd, hr⟩ | ⟨x, rfl, hx⟩
      · split at hr
        · rw [mem_singleton_ok hr]
          exact Eval.subrunOk (hin _ _ ho (by simp)) (hrec _ _ hd (by simp))
        · exact absurd (mem_singleton_ok hr) hk
      · exact Eval.subrunOkErr (hin _ _ ho (by simp)) (hrec _ _ hx (by simp))
    | unk => simp at hr; exact absurd hr hk
    | err x => simp at hr; subst hr; exact Eval.subrunErr (hin _ _ ho (by simp))
  | getCtx key dflt =>
    simp only [step] at h
    split at h
    · exact absurd (mem_singleton_ok h) hk
    · rename_i hc
      simp only [Bool.or_eq_true, Bool.not_eq_eq_eq_not, Bool.not_true, not_or] at hc
      have hk1 : key.toList.contains '.' = false := by simpa using hc.1
      have hd : isValue dflt = true := by simpa using hc.2
      split at h
      · rename_i v hv
        split at h
        · rename_i hvv; rw [mem_singleton_ok h]; exact Eval.getCtxHit hk1 hd hv hvv
        · exact absurd (mem_singleton_ok h) hk
      · rename_i hv; rw [mem_singleton_ok h]; exact Eval.getCtxMiss hk1 hd hv
  | settle e =>
    simp only [step] at h
    rw [List.mem_map] at h
    obtain ⟨o, ho, hr⟩ := h
    cases o with
    | ok v => simp [settleOut] at hr; subst hr; exact Eval.settleOk (hrec _ _ ho (by simp))
    | err x => simp [settleOut] at hr; subst hr; exact Eval.settleErr (hrec _ _ ho (by simp))
    | unk => simp [settleOut] at hr; exact absurd hr.symm hk

theorem evalAll_sound {lib : Lib} : ∀ (n : Nat) (cx : Ctx), RecSound lib cx (evalAll lib n cx)
  | 0 => by
    intro cx e r h hk
    simp [evalAll] at h
    exact absurd h hk
  | n + 1 => by
    intro cx e r h hk
    rw [evalAll] at h
    exact step_sound (evalAll_sound n) cx e r h hk

/-- `evalFuel` answers only with outcomes the reduction rules prescribe. -/
theorem evalFuel_sound {lib : Lib} {n : Nat} {e : Expr} {r : Out} (h : evalFuel lib n cx e = some r) : Eval lib cx e r := by
  unfold evalFuel at h
  split at h
  · rename_i v heq
    cases h
    exact evalAll_sound n cx e _ (by rw [heq]; simp) (by simp)
  · rename_i x heq
    cases h
    exact evalAll_sound n cx e _ (by rw [heq]; simp) (by simp)
  · cases h

/-! ## Values -/

theorem isLeaf_isValue {e : Expr} (h : isLeaf e = true) : isValue e = true := by
  cases e <;> simp [isLeaf] at h <;> simp [isValue]

theorem list_self {lib : Lib} : ∀ xs : List Expr, (∀ x ∈ xs, Eval lib cx x (.ok x)) → Eval lib cx (L xs) (.ok (L xs)) := by
  intro xs
  induction xs with
  | nil => intro _; exact Eval.nil
  | cons x xs ih =>
    intro h
    exact Eval.cons (h x (by simp)) (ih (fun y hy => h y (by simp [hy])))

theorem allValues_mem : ∀ {xs : List Expr}, allValues xs = true → ∀ x ∈ xs, isValue x = true := by
  intro xs
  induction xs with
  | nil => intro _ x hx; cases hx
  | cons y ys ih =>
    intro h x hx
    simp only [allValues, Bool.and_eq_true] at h
    rcases List.mem_cons.mp hx with rfl | hx
    · exact h.1
    · exact ih h.2 x hx

theorem allValues_of_mem : ∀ {xs : List Expr}, (∀ x ∈ xs, isValue x = true) → allValues xs = true := by
  intro xs
  induction xs with
  | nil => intro _; rfl
  | cons y ys ih =>
    intro h
    simp only [allValues, Bool.and_eq_true]
    exact ⟨h y (by simp), ih (fun x hx => h x (by simp [hx]))⟩

theorem list_ok_append {lib : Lib} {b vb : List Expr} (hb : Eval lib cx (L b) (.ok (L vb))) :
    ∀ (a va : List Expr), Eval lib cx (L a) (.ok (L va)) → Eval lib cx (L (a ++ b)) (.ok (L (va ++ vb))) := by
  intro a
  induction a with
  | nil =>
    intro va h
    cases h with
    | nil => simpa using hb
    | leaf h => simp [isLeaf] at h
    | cont hk _ _ => exact absurd rfl hk
  | cons x xs ih =>
    intro va h
    cases h with
    | cons h1 h2 => exact Eval.cons h1 (ih _ h2)
    | leaf h => simp [isLeaf] at h
    | cont hk _ _ => exact absurd rfl hk

mutual
  theorem value_self {lib : Lib} : ∀ v : Expr, isValue v = true → Eval lib cx v (.ok v)
    | .none, _ => Eval.leaf rfl
    | .bool _, _ => Eval.leaf rfl
    | .int _, _ => Eval.leaf rfl
    | .str _, _ => Eval.leaf rfl
    | .errv _, _ => Eval.leaf rfl
    | .cls _, _ => Eval.leaf rfl
    | .pyfunc _, _ => Eval.leaf rfl
    | .taskv _, _ => Eval.leaf rfl
    | .partialv _ _ _ _, _ => Eval.leaf rfl
    | .threadv _, _ => Eval.leaf rfl
    | .objv _ _, _ => Eval.leaf rfl
    | .cont k items, h => by
      simp only [isValue, Bool.and_eq_true] at h
      have hl := values_self (lib := lib) items h.1
      by_cases hk : k = .list
      · subst hk; exact hl
      · exact Eval.cont hk hl h.2
    | .dict ks vs, h => by
      simp only [isValue, Bool.and_eq_true] at h
      have hk := values_self (lib := lib) ks h.1.1
      have hv := values_self (lib := lib) vs h.1.2
      have hl := list_ok_append hv _ _ hk
      have := Eval.dict (lib := lib) (ks := ks) (vs := vs) hl (by simpa using h.2)
      simpa using this
    | .vexpr _, h => by simp [isValue] at h
    | .call _ _ _ _ _ _, h => by simp [isValue] at h
    | .getCtx _ _, h => by simp [isValue] at h
    | .op _ _, h => by simp [isValue] at h
    | .cond _, h => by simp [isValue] at h
    | .seq _, h => by simp [isValue] at h
    | .catch _ _ _, h => by simp [isValue] at h
    | .catchAll _ _ _, h => by simp [isValue] at h
    | .map_ _ _, h => by simp [isValue] at h
    | .applyTags _ _ _ _, h => by simp [isValue] at h
    | .fork _, h => by simp [isValue] at h
    | .join _, h => by simp [isValue] at h
    | .subrun _ _, h => by simp [isValue] at h
    | .settle _, h => by simp [isValue] at h
  theorem values_self {lib : Lib} : ∀ xs : List Expr, allValues xs = true → Eval lib cx (L xs) (.ok (L xs))
    | [], _ => Eval.nil
    | y :: ys, h => by
      simp only [allValues, Bool.and_eq_true] at h
      exact Eval.cons (value_self y h.1) (values_self ys h.2)
end


theorem list_unique {lib : Lib} : ∀ xs : List Expr, (∀ x ∈ xs, ∀ r, Eval lib cx x r → r = .ok x) →
    ∀ r, Eval lib cx (L xs) r → r = .ok (L xs) := by
  intro xs
  induction xs with
  | nil =>
    intro _ r h
    cases h with
    | nil => rfl
    | leaf h => simp [isLeaf] at h
    | cont hk _ _ => exact absurd rfl hk
    | contErr hk _ => exact absurd rfl hk
  | cons x xs ih =>
    intro hx r h
    have ih' := ih (fun y hy => hx y (by simp [hy]))
    cases h with
    | cons h1 h2 =>
      have e1 := hx x (by simp) _ h1
      have e2 := ih' _ h2
      injection e1 with e1
      injection e2 with e2
      injection e2 with _ e2
      subst e1 e2
      rfl
    | consErrHd h1 => exact absurd (hx x (by simp) _ h1) (by simp)
    | consErrTl h2 => exact absurd (ih' _ h2) (by simp)
    | leaf h => simp [isLeaf] at h
    | cont hk _ _ => exact absurd rfl hk
    | contErr hk _ => exact absurd rfl hk

mutual
  theorem value_unique {lib : Lib} : ∀ v : Expr, isValue v = true → ∀ r, Eval lib cx v r → r = .ok v
    | .none, _ => fun r h => by cases h; rfl
    | .bool _, _ => fun r h => by cases h; rfl
    | .int _, _ => fun r h => by cases h; rfl
    | .str _, _ => fun r h => by cases h; rfl
    | .errv _, _ => fun r h => by cases h; rfl
    | .cls _, _ => fun r h => by cases h; rfl
    | .pyfunc _, _ => fun r h => by cases h; rfl
    | .taskv _, _ => fun r h => by cases h; rfl
    | .partialv _ _ _ _, _ => fun r h => by cases h; rfl
    | .threadv _, _ => fun r h => by cases h; rfl
    | .objv _ _, _ => fun r h => by cases h; rfl
    | .cont k items, hv => fun r h => by
      simp only [isValue, Bool.and_eq_true] at hv
      have hu := list_unique (lib := lib) items (values_unique items hv.1)
      by_cases hk : k = .list
      · subst hk; exact hu r h
      · cases h with
        | leaf h => simp [isLeaf] at h
        | cont _ h1 _ =>
          have := hu _ h1
          injection this with this
          injection this with _ this
          subst this; rfl
        | contErr _ h1 => exact absurd (hu _ h1) (by simp)
        | nil => exact absurd rfl hk
        | cons _ _ => exact absurd rfl hk
        | consErrHd _ => exact absurd rfl hk
        | consErrTl _ => exact absurd rfl hk
    | .dict ks vs, hv => fun r h => by
      simp only [isValue, Bool.and_eq_true] at hv
      have hu := list_unique (lib := lib) (ks ++ vs) (by
        intro x hx
        rcases List.mem_append.mp hx with hx | hx
        · exact values_unique ks hv.1.1 x hx
        · exact values_unique vs hv.1.2 x hx)
      cases h with
      | leaf h => simp [isLeaf] at h
      | dict h1 _ =>
        have := hu _ h1
        injection this with this
        injection this with _ this
        subst this
        simp
      | dictErr h1 => exact absurd (hu _ h1) (by simp)
    | .vexpr _, h => by simp [isValue] at h
    | .call _ _ _ _ _ _, h => by simp [isValue] at h
    | .getCtx _ _, h => by simp [isValue] at h
    | .op _ _, h => by simp [isValue] at h
    | .cond _, h => by simp [isValue] at h
    | .seq _, h => by simp [isValue] at h
    | .catch _ _ _, h => by simp [isValue] at h
    | .catchAll _ _ _, h => by simp [isValue] at h
    | .map_ _ _, h => by simp [isValue] at h
    | .applyTags _ _ _ _, h => by simp [isValue] at h
    | .fork _, h => by simp [isValue] at h
    | .join _, h => by simp [isValue] at h
    | .subrun _ _, h => by simp [isValue] at h
    | .settle _, h => by simp [isValue] at h
  theorem values_unique {lib : Lib} : ∀ xs : List Expr, allValues xs = true →
      ∀ x ∈ xs, ∀ r, Eval lib cx x r → r = .ok x
    | [], _ => fun x hx => by cases hx
    | y :: ys, h => fun x hx r hr => by
      simp only [allValues, Bool.and_eq_true] at h
      rcases List.mem_cons.mp hx with heq | hx
      · have := value_unique y h.1 r (heq ▸ hr)
        rw [heq]; exact this
      · exact values_unique ys h.2 x hx r hr
end




theorem allValues_take {xs : List Expr} (h : allValues xs = true) (n : Nat) : allValues (xs.take n) = true :=
  allValues_of_mem fun x hx => allValues_mem h x (List.mem_of_mem_take hx)

theorem allValues_drop {xs : List Expr} (h : allValues xs = true) (n : Nat) : allValues (xs.drop n) = true :=
  allValues_of_mem fun x hx => allValues_mem h x (List.mem_of_mem_drop hx)

theorem isValue_L {xs : List Expr} : isValue (L xs) = allValues xs := by
  simp [isValue, contOk]

theorem unsettle_values : ∀ (outs : List Expr) (vals : List Expr) (errs : List Err), allValues outs = true →
    unsettle outs = some (vals, errs) → allValues vals = true := by
  intro outs
  fun_induction unsettle outs with
  | case1 => intro vals errs _ h; simp at h; rw [h.1]; rfl
  | case2 v rest ih =>
    intro vals errs hv h
    simp only [allValues, Bool.and_eq_true] at hv
    cases hu : unsettle rest with
    | none => simp [hu] at h
    | some p =>
      obtain ⟨vs, es⟩ := p
      simp [hu] at h
      have h1 := ih vs es hv.2 hu
      have hv1 : isValue v = true := by
        have := hv.1
        simp [isValue, allValues, contOk] at this
        exact this
      rw [← h.1]
      simp [allValues, hv1, h1]
  | case3 x rest ih =>
    intro vals errs hv h
    simp only [allValues, Bool.and_eq_true] at hv
    cases hu : unsettle rest with
    | none => simp [hu] at h
    | some p =>
      obtain ⟨vs, es⟩ := p
      simp [hu] at h
      have h1 := ih vs es hv.2 hu
      rw [← h.1]
      simp [allValues, isValue, h1]
  | case4 => intro vals errs _ h; cases h

theorem rebuild_value {s : Shape} {vals : List Expr} {v : Expr} (hv : allValues vals = true)
    (h : rebuild s vals = .ok v) : isValue v = true := by
  unfold rebuild at h
  split at h
  · injection h with h; subst h
    simp [allValues] at hv; exact hv
  · split at h
    · rename_i hc
      injection h with h; subst h
      simp [isValue, hv, hc]
    · cases h
  · split at h
    · rename_i hc
      injection h with h; subst h
      simp [isValue, allValues_take hv, allValues_drop hv, hc]
    · cases h
  · cases h

theorem result_isValue {lib : Lib} {e : Expr} {r : Out} (h : Eval lib cx e r) : ∀ v, r = .ok v → isValue v = true := by
  induction h with
  | leaf hl => intro v hv; injection hv with hv; subst hv; exact isLeaf_isValue hl
  | vexpr hv' => intro v hv; injection hv with hv; subst hv; exact hv'
  | nil => intro v hv; injection hv with hv; subst hv; rfl
  | cons _ _ ih1 ih2 =>
    intro v hv; injection hv with hv; subst hv
    have h1 := ih1 _ rfl
    have h2 := ih2 _ rfl
    rw [isValue_L] at h2 ⊢
    simp [allValues, h1, h2]
  | consErrHd _ _ => intro v hv; cases hv
  | consErrTl _ _ => intro v hv; cases hv
  | cont hk _ hc ih =>
    intro v hv; injection hv with hv; subst hv
    have := ih _ rfl
    rw [isValue_L] at this
    simp [isValue, this, hc]
  | contErr _ _ _ => intro v hv; cases hv
  | dict _ hc ih =>
    intro v hv; injection hv with hv; subst hv
    have := ih _ rfl
    rw [isValue_L] at this
    simp [isValue, allValues_take this, allValues_drop this, hc]
  | dictErr _ _ => intro v hv; cases hv
  | call _ _ _ _ _ _ _ ih => exact ih
  | callRaise _ _ _ _ _ _ => intro v hv; cases hv
  | callArgErr _ _ _ => intro v hv; cases hv
  | callDefaultErr _ _ _ => intro v hv; cases hv
  | op _ _ _ _ ih => exact ih
  | opRaise _ _ _ => intro v hv; cases hv
  | opArgErr _ _ => intro v hv; cases hv
  | condErr _ _ => intro v hv; cases hv
  | condThen _ _ _ _ ih => exact ih
  | condElse _ _ _ _ ih => exact ih
  | condElif _ _ _ _ ih => exact ih
  | condNoElse _ _ _ => intro v hv; cases hv
  | seqNil => intro v hv; injection hv with hv; subst hv; rfl
  | seqCons _ _ ih1 ih2 =>
    intro v hv; injection hv with hv; subst hv
    have h1 := ih1 _ rfl
    have h2 := ih2 _ rfl
    rw [isValue_L] at h2 ⊢
    simp [allValues, h1, h2]
  | seqErrHd _ _ => intro v hv; cases hv
  | seqErrTl _ _ _ _ => intro v hv; cases hv
  | catchOk _ ih => exact ih
  | catchMiss _ _ _ => intro v hv; cases hv
  | catchHit _ _ _ _ _ ih => exact ih
  | catchHitRaise _ _ _ _ => intro v hv; cases hv
  | settleOk _ ih =>
    intro v hv; injection hv with hv; subst hv
    have := ih _ rfl
    simp [isValue, allValues, contOk, this]
  | settleErr _ _ => intro v hv; injection hv with hv; subst hv; simp [isValue, allValues, contOk]
  | catchAllOk _ _ hun hb ih =>
    intro v hv; injection hv with hv; subst hv
    have := ih _ rfl
    rw [isValue_L] at this
    exact rebuild_value (unsettle_values _ _ _ this hun) hb
  | catchAllFirst _ _ _ _ _ _ => intro v hv; cases hv
  | catchAllArgErr _ _ _ _ _ _ _ _ => intro v hv; cases hv
  | catchAllNoMatch _ _ _ _ _ _ _ _ _ => intro v hv; cases hv
  | catchAllRecover _ _ _ _ _ _ _ _ _ _ _ _ ih => exact ih
  | catchAllRecoverRaise _ _ _ _ _ _ _ _ _ _ _ => intro v hv; cases hv
  | mapTaskErr _ _ => intro v hv; cases hv
  | mapRaw _ _ _ _ _ ih => exact ih
  | mapRawRaise _ _ _ _ => intro v hv; cases hv
  | mapValuesErr _ _ _ _ _ => intro v hv; cases hv
  | mapNotIter _ _ _ _ _ _ => intro v hv; cases hv
  | mapEval _ _ _ _ _ _ _ _ ih => exact ih
  | mapEvalRaise _ _ _ _ _ _ _ => intro v hv; cases hv
  | applyTags _ _ _ _ ih =>
    intro v hv; injection hv with hv; subst hv
    have := ih _ rfl
    rw [isValue_L] at this
    simp [allValues] at this
    exact this.1
  | applyTagsErr _ _ => intro v hv; cases hv
  | fork => intro v hv; injection hv with hv; subst hv; rfl
  | join _ ih => exact ih
  | subrunOk _ _ _ ih =>
    intro v hv; injection hv with hv; subst hv
    have := ih _ rfl
    simp [isValue, allValues] at this
    exact this.1.2
  | subrunOkErr _ _ _ _ => intro v hv; cases hv
  | subrunErr _ _ => intro v hv; cases hv
  | getCtxHit _ _ _ hvv => intro v hv; injection hv with hv; subst hv; exact hvv
  | getCtxMiss _ hd _ => intro v hv; injection hv with hv; subst hv; exact hd

/-! ## Completeness of the evaluator (when it reports no unknown) -/

def NoUnk (rs : Outs) : Prop := Out.unk ∉ rs

theorem bindO_ok_intro {rs : Outs} {k : Expr → Outs} {r : Out} {v : Expr} (hv : .ok v ∈ rs) (hr : r ∈ k v) :
    r ∈ bindO rs k := mem_bindO.mpr (Or.inl ⟨v, hv, hr⟩)

theorem bindO_err_intro {rs : Outs} {k : Expr → Outs} {x : Err} (hx : .err x ∈ rs) : .err x ∈ bindO rs k :=
  mem_bindO.mpr (Or.inr (Or.inl ⟨x, rfl, hx⟩))

theorem noUnk_bindO {rs : Outs} {k : Expr → Outs} (h : NoUnk (bindO rs k)) :
    NoUnk rs ∧ ∀ v, .ok v ∈ rs → NoUnk (k v) := by
  constructor
  · intro hu; exact h (mem_bindO.mpr (Or.inr (Or.inr ⟨rfl, hu⟩)))
  · intro v hv hu; exact h (bindO_ok_intro hv hu)

theorem bindL_ok_intro {rs : Outs} {k : List Expr → Outs} {r : Out} {vs : List Expr} (hv : .ok (L vs) ∈ rs)
    (hr : r ∈ k vs) : r ∈ bindL rs k := bindO_ok_intro hv (by simpa [onList] using hr)

theorem bindL_err_intro {rs : Outs} {k : List Expr → Outs} {x : Err} (hx : .err x ∈ rs) : .err x ∈ bindL rs k :=
  bindO_err_intro hx

theorem noUnk_bindL {rs : Outs} {k : List Expr → Outs} (h : NoUnk (bindL rs k)) :
    NoUnk rs ∧ ∀ vs, .ok (L vs) ∈ rs → NoUnk (k vs) := by
  have := noUnk_bindO h
  refine ⟨this.1, fun vs hv => ?_⟩
  have := this.2 _ hv
  simpa [onList] using this

theorem thenEval_ok_intro {rec : Expr → Outs} {o r : Out} {e : Expr} (ho : o = .ok e) (hr : r ∈ rec e) :
    r ∈ thenEval rec o := by subst ho; exact hr

theorem thenEval_err_intro {rec : Expr → Outs} {o : Out} {x : Err} (ho : o = .err x) : .err x ∈ thenEval rec o := by
  subst ho; simp [thenEval]

theorem noUnk_thenEval {rec : Expr → Outs} {o : Out} {e : Expr} (h : NoUnk (thenEval rec o)) (ho : o = .ok e) :
    NoUnk (rec e) := by subst ho; exact h

theorem consJoin_ok_intro {rs tails : Outs} {v : Expr} {vs : List Expr} (hv : .ok v ∈ rs) (ht : .ok (L vs) ∈ tails) :
    .ok (L (v :: vs)) ∈ consJoin rs tails := by
  unfold consJoin
  apply List.mem_append_left
  apply List.mem_append_left
  rw [List.mem_flatMap]
  refine ⟨.ok v, hv, ?_⟩
  simp only
  rw [List.mem_flatMap]
  exact ⟨.ok (L vs), ht, by simp⟩

theorem consJoin_err_left {rs tails : Outs} {x : Err} (hx : .err x ∈ rs) : .err x ∈ consJoin rs tails := by
  unfold consJoin
  apply List.mem_append_left
  apply List.mem_append_right
  rw [List.mem_filter]
  exact ⟨hx, by simp [Out.isOk]⟩

theorem consJoin_err_right {rs tails : Outs} {x : Err} (hx : .err x ∈ tails) : .err x ∈ consJoin rs tails := by
  unfold consJoin
  apply List.mem_append_right
  rw [List.mem_filter]
  exact ⟨hx, by simp [Out.isOk]⟩

theorem noUnk_consJoin {rs tails : Outs} (h : NoUnk (consJoin rs tails)) : NoUnk rs ∧ NoUnk tails := by
  constructor
  · intro hu
    apply h
    unfold consJoin
    apply List.mem_append_left
    apply List.mem_append_right
    rw [List.mem_filter]
    exact ⟨hu, by simp [Out.isOk]⟩
  · intro hu
    apply h
    unfold consJoin
    apply List.mem_append_right
    rw [List.mem_filter]
    exact ⟨hu, by simp [Out.isOk]⟩

theorem bind2_ok_intro {xs ys : Outs} {k : List Expr → List Expr → Outs} {r : Out} {a d : List Expr}
    (ha : .ok (L a) ∈ xs) (hd : .ok (L d) ∈ ys) (hr : r ∈ k a d) : r ∈ bind2 xs ys k := by
  unfold bind2
  exact bindL_ok_intro (consJoin_ok_intro ha (consJoin_ok_intro (vs := []) hd (by simp))) (by simpa using hr)

theorem bind2_err_left {xs ys : Outs} {k : List Expr → List Expr → Outs} {x : Err} (hx : .err x ∈ xs) :
    .err x ∈ bind2 xs ys k := by
  unfold bind2
  exact bindL_err_intro (consJoin_err_left hx)

theorem bind2_err_right {xs ys : Outs} {k : List Expr → List Expr → Outs} {x : Err} (hx : .err x ∈ ys) :
    .err x ∈ bind2 xs ys k := by
  unfold bind2
  exact bindL_err_intro (consJoin_err_right (consJoin_err_left hx))

theorem noUnk_bind2 {xs ys : Outs} {k : List Expr → List Expr → Outs} (h : NoUnk (bind2 xs ys k)) :
    NoUnk xs ∧ NoUnk ys ∧ ∀ a d, .ok (L a) ∈ xs → .ok (L d) ∈ ys → NoUnk (k a d) := by
  unfold bind2 at h
  have h1 := noUnk_bindL h
  have h2 := noUnk_consJoin h1.1
  have h3 := noUnk_consJoin h2.2
  refine ⟨h2.1, h3.1, fun a d ha hd => ?_⟩
  have := h1.2 _ (consJoin_ok_intro ha (consJoin_ok_intro (vs := []) hd (by simp)))
  simpa using this

def RecComplete (lib : Lib) (cx : Ctx) (rec : Expr → Outs) : Prop := ∀ e r, NoUnk (rec e) → Eval lib cx e r → r ∈ rec e

theorem evalList_complete {lib : Lib} {rec : Expr → Outs} (hrec : RecComplete lib cx rec) :
    ∀ es r, NoUnk (evalList rec es) → Eval lib cx (L es) r → r ∈ evalList rec es := by
  intro es
  induction es with
  | nil =>
    intro r _ h
    cases h with
    | nil => simp [evalList, joinList]
    | leaf h => simp [isLeaf] at h
    | cont hk _ _ => exact absurd rfl hk
    | contErr hk _ => exact absurd rfl hk
  | cons e es ih =>
    intro r hn h
    simp only [evalList, List.map_cons, joinList] at hn ⊢
    have hn' := noUnk_consJoin hn
    cases h with
    | cons h1 h2 => exact consJoin_ok_intro (hrec _ _ hn'.1 h1) (ih _ hn'.2 h2)
    | consErrHd h1 => exact consJoin_err_left (hrec _ _ hn'.1 h1)
    | consErrTl h2 => exact consJoin_err_right (ih _ hn'.2 h2)
    | leaf h => simp [isLeaf] at h
    | cont hk _ _ => exact absurd rfl hk
    | contErr hk _ => exact absurd rfl hk


theorem condGo_complete {lib : Lib} {rec : Expr → Outs} (hrec : RecComplete lib cx rec) :
    ∀ (exprs : List Expr) (r : Out), NoUnk (condGo rec exprs) → Eval lib cx (.cond exprs) r → r ∈ condGo rec exprs
  | [], r, _, h => by cases h with | leaf h => simp [isLeaf] at h
  | [_], r, _, h => by cases h with | leaf h => simp [isLeaf] at h
  | [c, t], r, hn, h => by
    rw [condGo] at hn ⊢
    have hn' := noUnk_bindO hn
    cases h with
    | leaf h => simp [isLeaf] at h
    | condErr h1 => exact bindO_err_intro (hrec _ _ hn'.1 h1)
    | condThen h1 ht h2 =>
      have hc := hrec _ _ hn'.1 h1
      have := hn'.2 _ hc
      simp only [ht, if_true] at this
      exact bindO_ok_intro hc (by simp only [ht, if_true]; exact hrec _ _ this h2)
    | condNoElse h1 ht =>
      have hc := hrec _ _ hn'.1 h1
      exact bindO_ok_intro hc (by simp [ht])
  | [c, t, e], r, hn, h => by
    rw [condGo] at hn ⊢
    have hn' := noUnk_bindO hn
    cases h with
    | leaf h => simp [isLeaf] at h
    | condErr h1 => exact bindO_err_intro (hrec _ _ hn'.1 h1)
    | condThen h1 ht h2 =>
      have hc := hrec _ _ hn'.1 h1
      have := hn'.2 _ hc
      simp only [ht, if_true] at this
      exact bindO_ok_intro hc (by simp only [ht, if_true]; exact hrec _ _ this h2)
    | condElse h1 ht h2 =>
      have hc := hrec _ _ hn'.1 h1
      have := hn'.2 _ hc
      simp [ht] at this
      exact bindO_ok_intro hc (by simp [ht]; exact hrec _ _ this h2)
  | c :: t :: c2 :: t2 :: rest, r, hn, h => by
    rw [condGo] at hn ⊢
    have hn' := noUnk_bindO hn
    cases h with
    | leaf h => simp [isLeaf] at h
    | condErr h1 => exact bindO_err_intro (hrec _ _ hn'.1 h1)
    | condThen h1 ht h2 =>
      have hc := hrec _ _ hn'.1 h1
      have := hn'.2 _ hc
      simp only [ht, if_true] at this
      exact bindO_ok_intro hc (by simp only [ht, if_true]; exact hrec _ _ this h2)
    | condElif h1 ht h2 =>
      have hc := hrec _ _ hn'.1 h1
      have := hn'.2 _ hc
      simp [ht] at this
      exact bindO_ok_intro hc (by simp [ht]; exact condGo_complete hrec _ _ this h2)

theorem seqGo_complete {lib : Lib} {rec : Expr → Outs} (hrec : RecComplete lib cx rec) :
    ∀ (es : List Expr) (r : Out), NoUnk (seqGo rec es) → Eval lib cx (.seq es) r → r ∈ seqGo rec es := by
  intro es
  induction es with
  | nil =>
    intro r _ h
    cases h with
    | leaf h => simp [isLeaf] at h
    | seqNil => simp [seqGo]
  | cons e es ih =>
    intro r hn h
    rw [seqGo] at hn ⊢
    have hn' := noUnk_bindO hn
    cases h with
    | leaf h => simp [isLeaf] at h
    | seqCons h1 h2 =>
      have hv := hrec _ _ hn'.1 h1
      have hn2 := noUnk_bindL (hn'.2 _ hv)
      exact bindO_ok_intro hv (bindL_ok_intro (ih _ hn2.1 h2) (by simp))
    | seqErrHd h1 => exact bindO_err_intro (hrec _ _ hn'.1 h1)
    | seqErrTl h1 h2 =>
      have hv := hrec _ _ hn'.1 h1
      have hn2 := noUnk_bindL (hn'.2 _ hv)
      exact bindO_ok_intro hv (bindL_err_intro (ih _ hn2.1 h2))


theorem mem_single {o : Out} : o ∈ [o] := by simp

theorem noUnk_flatMap {rs : Outs} {f : Out → Outs} (h : NoUnk (rs.flatMap f)) : ∀ o ∈ rs, NoUnk (f o) := by
  intro o ho hu
  exact h (List.mem_flatMap.mpr ⟨o, ho, hu⟩)

theorem step_complete {lib : Lib} {recC : Ctx → Expr → Outs} (hrecAll : ∀ cx, RecComplete lib cx (recC cx)) :
    ∀ cx, RecComplete lib cx (step lib recC cx) := by
  intro cx e r hn h
  have hrec := hrecAll cx
  cases e with
  | none => cases h; simp [step]
  | bool b => cases h; simp [step]
  | int z => cases h; simp [step]
  | str s => cases h; simp [step]
  | errv x => cases h; simp [step]
  | cls n => cases h; simp [step]
  | pyfunc n => cases h; simp [step]
  | taskv n => cases h; simp [step]
  | partialv t a kn kv => cases h; simp [step]
  | threadv e => cases h; simp [step]
  | objv c a => cases h; simp [step]
  | vexpr v =>
    cases h with
    | leaf h => simp [isLeaf] at h
    | vexpr hv => simp [step, hv]
  | cont k es =>
    by_cases hkl : k = .list
    · subst hkl
      simp only [step] at hn ⊢
      exact evalList_complete hrec _ _ hn h
    · simp only [step] at hn ⊢
      have hn' := noUnk_bindL hn
      cases h with
      | leaf h => simp [isLeaf] at h
      | nil => exact absurd rfl hkl
      | cons _ _ => exact absurd rfl hkl
      | consErrHd _ => exact absurd rfl hkl
      | consErrTl _ => exact absurd rfl hkl
      | cont _ h1 hc => exact bindL_ok_intro (evalList_complete hrec _ _ hn'.1 h1) (by simp [hc])
      | contErr _ h1 => exact bindL_err_intro (evalList_complete hrec _ _ hn'.1 h1)
  | dict ks vs =>
    simp only [step] at hn ⊢
    have hn' := noUnk_bindL hn
    cases h with
    | leaf h => simp [isLeaf] at h
    | dict h1 hc => exact bindL_ok_intro (evalList_complete hrec _ _ hn'.1 h1) (by simp [hc])
    | dictErr h1 => exact bindL_err_intro (evalList_complete hrec _ _ hn'.1 h1)
  | call t args kwn kwv ovn ovv =>
    have hrec' := hrecAll (cx.override ovn ovv)
    cases h with
    | leaf h => simp [isLeaf] at h
    | call htd h1 hd hb h2 =>
      simp only [step, htd] at hn ⊢
      have hn' := noUnk_bind2 hn
      have ha := evalList_complete hrec _ _ hn'.1 h1
      have hdv := evalList_complete hrec' _ _ hn'.2.1 hd
      exact bind2_ok_intro ha hdv (thenEval_ok_intro hb (hrec' _ _ (noUnk_thenEval (hn'.2.2 _ _ ha hdv) hb) h2))
    | callRaise htd h1 hd hb =>
      simp only [step, htd] at hn ⊢
      have hn' := noUnk_bind2 hn
      exact bind2_ok_intro (evalList_complete hrec _ _ hn'.1 h1) (evalList_complete hrec' _ _ hn'.2.1 hd)
        (thenEval_err_intro hb)
    | callArgErr htd h1 =>
      simp only [step, htd] at hn ⊢
      have hn' := noUnk_bind2 hn
      exact bind2_err_left (evalList_complete hrec _ _ hn'.1 h1)
    | callDefaultErr htd h1 =>
      simp only [step, htd] at hn ⊢
      have hn' := noUnk_bind2 hn
      exact bind2_err_right (evalList_complete hrec' _ _ hn'.2.1 h1)
  | op name args =>
    simp only [step] at hn ⊢
    have hn' := noUnk_bindL hn
    cases h with
    | leaf h => simp [isLeaf] at h
    | op h1 ho h2 =>
      have hvs := evalList_complete hrec _ _ hn'.1 h1
      exact bindL_ok_intro hvs (thenEval_ok_intro ho (hrec _ _ (noUnk_thenEval (hn'.2 _ hvs) ho) h2))
    | opRaise h1 ho => exact bindL_ok_intro (evalList_complete hrec _ _ hn'.1 h1) (thenEval_err_intro ho)
    | opArgErr h1 => exact bindL_err_intro (evalList_complete hrec _ _ hn'.1 h1)
  | cond exprs => simp only [step] at hn ⊢; exact condGo_complete hrec _ _ hn h
  | seq exprs => simp only [step] at hn ⊢; exact seqGo_complete hrec _ _ hn h
  | «catch» e clss recs =>
    simp only [step] at hn ⊢
    have hnf := noUnk_flatMap hn
    have hne : NoUnk (recC cx e) := by
      intro hu
      have := hnf _ hu
      simp [NoUnk] at this
    rw [List.mem_flatMap]
    cases h with
    | leaf h => simp [isLeaf] at h
    | catchOk h1 => exact ⟨_, hrec _ _ hne h1, by simp⟩
    | catchMiss h1 hm => exact ⟨_, hrec _ _ hne h1, by simp [hm]⟩
    | catchHit h1 hm ha h2 =>
      have hx := hrec _ _ hne h1
      have hb := hnf _ hx
      simp only [hm] at hb
      exact ⟨_, hx, by simp only [hm]; exact thenEval_ok_intro ha (hrec _ _ (noUnk_thenEval hb ha) h2)⟩
    | catchHitRaise h1 hm ha =>
      exact ⟨_, hrec _ _ hne h1, by simp only [hm]; exact thenEval_err_intro ha⟩
  | catchAll exprs cls recover =>
    cases h with
    | leaf h => simp [isLeaf] at h
    | catchAllOk hterms h1 hun hb =>
      simp only [step, hterms] at hn ⊢
      have hn' := noUnk_bindL hn
      have houts := evalList_complete hrec _ _ hn'.1 h1
      exact bindL_ok_intro houts (by simp [hun, hb])
    | catchAllFirst hterms h1 hun hv ht =>
      simp only [step, hterms] at hn ⊢
      have hn' := noUnk_bindL hn
      have houts := evalList_complete hrec _ _ hn'.1 h1
      exact bindL_ok_intro houts (by simp [hun, hv, ht])
    | catchAllArgErr hterms h1 hun hv ht h2 =>
      simp only [step, hterms] at hn ⊢
      have hn' := noUnk_bindL hn
      have houts := evalList_complete hrec _ _ hn'.1 h1
      have hn2 := hn'.2 _ houts
      simp only [hun, hv, ht, Bool.not_true, Bool.false_eq_true, if_false] at hn2
      refine bindL_ok_intro houts ?_
      simp only [hun, hv, ht, Bool.not_true, Bool.false_eq_true, if_false]
      exact bindL_err_intro (evalList_complete hrec _ _ (noUnk_bindL hn2).1 h2)
    | catchAllNoMatch hterms h1 hun hv ht h2 hm =>
      simp only [step, hterms] at hn ⊢
      have hn' := noUnk_bindL hn
      have houts := evalList_complete hrec _ _ hn'.1 h1
      have hn2 := hn'.2 _ houts
      simp only [hun, hv, ht, Bool.not_true, Bool.false_eq_true, if_false] at hn2
      refine bindL_ok_intro houts ?_
      simp only [hun, hv, ht, Bool.not_true, Bool.false_eq_true, if_false]
      exact bindL_ok_intro (evalList_complete hrec _ _ (noUnk_bindL hn2).1 h2) (by simp [hm])
    | catchAllRecover hterms h1 hun hv ht h2 hm hb ha h3 =>
      simp only [step, hterms] at hn ⊢
      have hn' := noUnk_bindL hn
      have houts := evalList_complete hrec _ _ hn'.1 h1
      have hn2 := hn'.2 _ houts
      simp only [hun, hv, ht, Bool.not_true, Bool.false_eq_true, if_false] at hn2
      refine bindL_ok_intro houts ?_
      simp only [hun, hv, ht, Bool.not_true, Bool.false_eq_true, if_false]
      have hcr := evalList_complete hrec _ _ (noUnk_bindL hn2).1 h2
      have hn3 := (noUnk_bindL hn2).2 _ hcr
      simp only [hm, hb] at hn3
      refine bindL_ok_intro hcr ?_
      simp only [hm, hb]
      exact thenEval_ok_intro ha (hrec _ _ (noUnk_thenEval hn3 ha) h3)
    | catchAllRecoverRaise hterms h1 hun hv ht h2 hm hb ha =>
      simp only [step, hterms] at hn ⊢
      have hn' := noUnk_bindL hn
      have houts := evalList_complete hrec _ _ hn'.1 h1
      have hn2 := hn'.2 _ houts
      simp only [hun, hv, ht, Bool.not_true, Bool.false_eq_true, if_false] at hn2
      refine bindL_ok_intro houts ?_
      simp only [hun, hv, ht, Bool.not_true, Bool.false_eq_true, if_false]
      have hcr := evalList_complete hrec _ _ (noUnk_bindL hn2).1 h2
      refine bindL_ok_intro hcr ?_
      simp only [hm, hb]
      exact thenEval_err_intro ha
  | map_ f values =>
    simp only [step] at hn ⊢
    have hn' := noUnk_bindO hn
    cases h with
    | leaf h => simp [isLeaf] at h
    | mapTaskErr h1 => exact bindO_err_intro (hrec _ _ hn'.1 h1)
    | mapRaw h1 hraw hc h2 =>
      have hav := hrec _ _ hn'.1 h1
      have hn2 := hn'.2 _ hav
      simp only [hraw] at hn2
      exact bindO_ok_intro hav (by simp only [hraw]; exact thenEval_ok_intro hc (hrec _ _ (noUnk_thenEval hn2 hc) h2))
    | mapRawRaise h1 hraw hc =>
      exact bindO_ok_intro (hrec _ _ hn'.1 h1) (by simp only [hraw]; exact thenEval_err_intro hc)
    | mapValuesErr h1 hraw h2 =>
      have hav := hrec _ _ hn'.1 h1
      have hn2 := hn'.2 _ hav
      simp only [hraw] at hn2
      exact bindO_ok_intro hav (by simp only [hraw]; exact bindO_err_intro (hrec _ _ (noUnk_bindO hn2).1 h2))
    | mapNotIter h1 hraw h2 hi =>
      have hav := hrec _ _ hn'.1 h1
      have hn2 := hn'.2 _ hav
      simp only [hraw] at hn2
      exact bindO_ok_intro hav (by
        simp only [hraw]
        exact bindO_ok_intro (hrec _ _ (noUnk_bindO hn2).1 h2) (by simp [hi]))
    | mapEval h1 hraw h2 hi hc h3 =>
      have hav := hrec _ _ hn'.1 h1
      have hn2 := hn'.2 _ hav
      simp only [hraw] at hn2
      have hvv := hrec _ _ (noUnk_bindO hn2).1 h2
      have hn3 := (noUnk_bindO hn2).2 _ hvv
      simp only [hi] at hn3
      exact bindO_ok_intro hav (by
        simp only [hraw]
        exact bindO_ok_intro hvv (by
          simp only [hi]
          exact thenEval_ok_intro hc (hrec _ _ (noUnk_thenEval hn3 hc) h3)))
    | mapEvalRaise h1 hraw h2 hi hc =>
      have hav := hrec _ _ hn'.1 h1
      have hn2 := hn'.2 _ hav
      simp only [hraw] at hn2
      exact bindO_ok_intro hav (by
        simp only [hraw]
        exact bindO_ok_intro (hrec _ _ (noUnk_bindO hn2).1 h2) (by
          simp only [hi]
          exact thenEval_err_intro hc))
  | applyTags v tags jtags etags =>
    simp only [step] at hn ⊢
    have hn' := noUnk_bindL hn
    cases h with
    | leaf h => simp [isLeaf] at h
    | applyTags h1 ht hj he =>
      exact bindL_ok_intro (evalList_complete hrec _ _ hn'.1 h1) (by simp [ht, hj, he])
    | applyTagsErr h1 => exact bindL_err_intro (evalList_complete hrec _ _ hn'.1 h1)
  | fork e => cases h with
    | leaf h => simp [isLeaf] at h
    | fork => simp [step]
  | join th =>
    cases h with
    | leaf h => simp [isLeaf] at h
    | join h1 =>
      simp only [step] at hn ⊢
      exact hrec _ _ hn h1
  | subrun e ne =>
    simp only [step] at hn ⊢
    have hnf := noUnk_flatMap hn
    have hin := hrecAll (if ne then lib.config.over cx else Ctx.empty.over cx)
    have hne : NoUnk (recC (if ne then lib.config.over cx else Ctx.empty.over cx) e) := by
      intro hu
      have := hnf _ hu
      simp [NoUnk] at this
    rw [List.mem_flatMap]
    cases h with
    | leaf h => simp [isLeaf] at h
    | subrunOk h1 h2 =>
      have hv := hin _ _ hne h1
      have hb := hnf _ hv
      simp only at hb
      exact ⟨_, hv, bindO_ok_intro (hrec _ _ (noUnk_bindO hb).1 h2) (by simp)⟩
    | subrunOkErr h1 h2 =>
      have hv := hin _ _ hne h1
      have hb := hnf _ hv
      simp only at hb
      exact ⟨_, hv, bindO_err_intro (hrec _ _ (noUnk_bindO hb).1 h2)⟩
    | subrunErr h1 => exact ⟨_, hin _ _ hne h1, by simp⟩
  | getCtx key dflt =>
    cases h with
    | leaf h => simp [isLeaf] at h
    | getCtxHit hk1 hd hv hvv =>
      have hk1' : '.' ∉ key.toList := by simpa using hk1
      simp [step, hk1', hd, hv, hvv]
    | getCtxMiss hk1 hd hv =>
      have hk1' : '.' ∉ key.toList := by simpa using hk1
      simp [step, hk1', hd, hv]
  | settle e =>
    simp only [step] at hn ⊢
    have hne : NoUnk (recC cx e) := by
      intro hu
      exact hn (List.mem_map.mpr ⟨.unk, hu, rfl⟩)
    rw [List.mem_map]
    cases h with
    | leaf h => simp [isLeaf] at h
    | settleOk h1 => exact ⟨_, hrec _ _ hne h1, rfl⟩
    | settleErr h1 => exact ⟨_, hrec _ _ hne h1, rfl⟩

theorem evalAll_complete {lib : Lib} : ∀ (n : Nat) (cx : Ctx), RecComplete lib cx (evalAll lib n cx)
  | 0 => by
    intro cx e r hn _
    exact absurd (by simp [evalAll]) hn
  | n + 1 => by
    intro cx e r hn h
    rw [evalAll] at hn ⊢
    exact step_complete (evalAll_complete n) cx e r hn h

/-- wherever `evalFuel` answers, its answer is the only outcome the rules allow -/
theorem evalFuel_unique {lib : Lib} {n : Nat} {e : Expr} {r : Out} (h : evalFuel lib n cx e = some r) :
    ∀ r', Eval lib cx e r' → r' = r := by
  intro r' h'
  unfold evalFuel at h
  split at h
  · rename_i v heq
    cases h
    have := evalAll_complete n cx e r' (by rw [heq]; simp [NoUnk]) h'
    rw [heq] at this
    simpa using this
  · rename_i x heq
    cases h
    have := evalAll_complete n cx e r' (by rw [heq]; simp [NoUnk]) h'
    rw [heq] at this
    simpa using this
  · cases h

end RedunModel.EvalCore
