/-
Referential closure of the recording operations (C22): helper lemmas about `RedunModel.Model.Db`.
`fk_commit`: a commit whose new rows have resolved references preserves `fkOk` (no FK enforcement is assumed);
`Cons` = `fkOk ∧ taskComplete`; `OpOK Cons s s'`: every durable state an operation adds satisfies `Cons`.
-/
import RedunModel.Lemmas.Db
set_option maxRecDepth 4000
namespace RedunModel.Db

/-- every foreign key of every row of `db` resolves in `T` (`fkOk db = fkIn db db`) -/
def fkIn (T db : Db) : Bool :=
  db.tasks.all (fun t => hasValue T t) &&
  db.files.all (fun t => hasValue T t) &&
  db.subvalues.all (fun r => hasValue T r.child && hasValue T r.parent) &&
  db.nodes.all (fun n => T.tasks.contains n.task && hasValue T n.value) &&
  db.edges.all (fun e => hasNode T e.parent && hasNode T e.child) &&
  db.args.all (fun a => hasNode T a.call && hasValue T a.value) &&
  db.argRes.all (fun a => T.args.any (fun b => b.call == a.call && b.slot == a.slot) && hasNode T a.result) &&
  db.subtree.all (fun r => hasNode T r.call && T.tasks.contains r.task) &&
  db.evals.all (fun e => T.tasks.contains e.task && hasValue T e.value) &&
  db.jobs.all (fun j => T.tasks.contains j.task && hasExec T j.exec &&
    (match j.parent with | some p => hasJob T p | none => true) &&
    (match j.call with | some c => hasNode T c | none => true)) &&
  db.execs.all (fun e => hasJob T e.job) &&
  db.tagEdits.all (fun e => hasTag T e.parent && hasTag T e.child)

theorem fkOk_eq_fkIn (db : Db) : fkOk db = fkIn db db := rfl

/-- the references of the row(s) one row operation writes resolve in `T` -/
def refsOk (T : Db) : RowOp → Bool
  | .value _ => true
  | .task h => hasValue T h
  | .file h => hasValue T h
  | .subvalue r => hasValue T r.child && hasValue T r.parent
  | .node n => T.tasks.contains n.task && hasValue T n.value
  | .edge e => hasNode T e.parent && hasNode T e.child
  | .arg a => hasNode T a.call && hasValue T a.value
  | .argRes a => T.args.any (fun b => b.call == a.call && b.slot == a.slot) && hasNode T a.result
  | .sub r => hasNode T r.call && T.tasks.contains r.task
  | .eval e => T.tasks.contains e.task && hasValue T e.value
  | .evalSet _ v => hasValue T v
  | .job j => T.tasks.contains j.task && hasExec T j.exec &&
      (match j.parent with | some p => hasJob T p | none => true) &&
      (match j.call with | some c => hasNode T c | none => true)
  | .jobEnd _ c _ => (match c with | some c => hasNode T c | none => true)
  | .exec e => hasJob T e.job
  | .tag _ => true
  | .tagEdit e => hasTag T e.parent && hasTag T e.child
  | .tagStale _ => true

theorem fkIn_step (T db : Db) (op : RowOp) (h : fkIn T db = true) (hr : refsOk T op = true) :
    fkIn T (applyOp db op) = true := by
  simp only [fkIn, Bool.and_eq_true] at h ⊢
  obtain ⟨⟨⟨⟨⟨⟨⟨⟨⟨⟨⟨h1, h2⟩, h3⟩, h4⟩, h5⟩, h6⟩, h7⟩, h8⟩, h9⟩, h10⟩, h11⟩, h12⟩ := h
  cases op with
  | value r => exact ⟨⟨⟨⟨⟨⟨⟨⟨⟨⟨⟨h1, h2⟩, h3⟩, h4⟩, h5⟩, h6⟩, h7⟩, h8⟩, h9⟩, h10⟩, h11⟩, h12⟩
  | task t => refine ⟨⟨⟨⟨⟨⟨⟨⟨⟨⟨⟨?_, h2⟩, h3⟩, h4⟩, h5⟩, h6⟩, h7⟩, h8⟩, h9⟩, h10⟩, h11⟩, h12⟩; simp_all [applyOp, refsOk, List.all_append]
  | file t => refine ⟨⟨⟨⟨⟨⟨⟨⟨⟨⟨⟨h1, ?_⟩, h3⟩, h4⟩, h5⟩, h6⟩, h7⟩, h8⟩, h9⟩, h10⟩, h11⟩, h12⟩; simp_all [applyOp, refsOk, List.all_append]
  | subvalue r => refine ⟨⟨⟨⟨⟨⟨⟨⟨⟨⟨⟨h1, h2⟩, ?_⟩, h4⟩, h5⟩, h6⟩, h7⟩, h8⟩, h9⟩, h10⟩, h11⟩, h12⟩; simp_all [applyOp, refsOk, List.all_append]
  | node r => refine ⟨⟨⟨⟨⟨⟨⟨⟨⟨⟨⟨h1, h2⟩, h3⟩, ?_⟩, h5⟩, h6⟩, h7⟩, h8⟩, h9⟩, h10⟩, h11⟩, h12⟩; simp_all [applyOp, refsOk, List.all_append]
  | edge r => refine ⟨⟨⟨⟨⟨⟨⟨⟨⟨⟨⟨h1, h2⟩, h3⟩, h4⟩, ?_⟩, h6⟩, h7⟩, h8⟩, h9⟩, h10⟩, h11⟩, h12⟩; simp_all [applyOp, refsOk, List.all_append]
  | arg r => refine ⟨⟨⟨⟨⟨⟨⟨⟨⟨⟨⟨h1, h2⟩, h3⟩, h4⟩, h5⟩, ?_⟩, h7⟩, h8⟩, h9⟩, h10⟩, h11⟩, h12⟩; simp_all [applyOp, refsOk, List.all_append]
  | argRes r => refine ⟨⟨⟨⟨⟨⟨⟨⟨⟨⟨⟨h1, h2⟩, h3⟩, h4⟩, h5⟩, h6⟩, ?_⟩, h8⟩, h9⟩, h10⟩, h11⟩, h12⟩; simp_all [applyOp, refsOk, List.all_append]
  | sub r => refine ⟨⟨⟨⟨⟨⟨⟨⟨⟨⟨⟨h1, h2⟩, h3⟩, h4⟩, h5⟩, h6⟩, h7⟩, ?_⟩, h9⟩, h10⟩, h11⟩, h12⟩; simp_all [applyOp, refsOk, List.all_append]
  | eval r => refine ⟨⟨⟨⟨⟨⟨⟨⟨⟨⟨⟨h1, h2⟩, h3⟩, h4⟩, h5⟩, h6⟩, h7⟩, h8⟩, ?_⟩, h10⟩, h11⟩, h12⟩; simp_all [applyOp, refsOk, List.all_append]
  | evalSet e v =>
    refine ⟨⟨⟨⟨⟨⟨⟨⟨⟨⟨⟨h1, h2⟩, h3⟩, h4⟩, h5⟩, h6⟩, h7⟩, h8⟩, ?_⟩, h10⟩, h11⟩, h12⟩
    simp only [applyOp, List.all_map, List.all_eq_true, Function.comp_def] at h9 ⊢
    intro r hr'
    have := h9 r hr'
    split
    · simp only [refsOk] at hr; simp_all
    · exact this
  | job r => refine ⟨⟨⟨⟨⟨⟨⟨⟨⟨⟨⟨h1, h2⟩, h3⟩, h4⟩, h5⟩, h6⟩, h7⟩, h8⟩, h9⟩, ?_⟩, h11⟩, h12⟩; simp_all [applyOp, refsOk, List.all_append]
  | jobEnd id c cached =>
    refine ⟨⟨⟨⟨⟨⟨⟨⟨⟨⟨⟨h1, h2⟩, h3⟩, h4⟩, h5⟩, h6⟩, h7⟩, h8⟩, h9⟩, ?_⟩, h11⟩, h12⟩
    simp only [applyOp, List.all_map, List.all_eq_true, Function.comp_def] at h10 ⊢
    intro r hr'
    have := h10 r hr'
    split
    · simp only [refsOk] at hr
      simp only [Bool.and_eq_true] at this ⊢
      exact ⟨⟨⟨this.1.1.1, this.1.1.2⟩, this.1.2⟩, hr⟩
    · exact this
  | exec r => refine ⟨⟨⟨⟨⟨⟨⟨⟨⟨⟨⟨h1, h2⟩, h3⟩, h4⟩, h5⟩, h6⟩, h7⟩, h8⟩, h9⟩, h10⟩, ?_⟩, h12⟩; simp_all [applyOp, refsOk, List.all_append]
  | tag r => exact ⟨⟨⟨⟨⟨⟨⟨⟨⟨⟨⟨h1, h2⟩, h3⟩, h4⟩, h5⟩, h6⟩, h7⟩, h8⟩, h9⟩, h10⟩, h11⟩, h12⟩
  | tagEdit r => refine ⟨⟨⟨⟨⟨⟨⟨⟨⟨⟨⟨h1, h2⟩, h3⟩, h4⟩, h5⟩, h6⟩, h7⟩, h8⟩, h9⟩, h10⟩, h11⟩, ?_⟩; simp_all [applyOp, refsOk, List.all_append]
  | tagStale t => exact ⟨⟨⟨⟨⟨⟨⟨⟨⟨⟨⟨h1, h2⟩, h3⟩, h4⟩, h5⟩, h6⟩, h7⟩, h8⟩, h9⟩, h10⟩, h11⟩, h12⟩

theorem fkIn_steps (T db : Db) (ops : List RowOp) (h : fkIn T db = true) (hr : ∀ op ∈ ops, refsOk T op = true) :
    fkIn T (applyOps db ops) = true := by
  induction ops generalizing db with
  | nil => exact h
  | cons op rest ih =>
    have : applyOps db (op :: rest) = applyOps (applyOp db op) rest := by simp [applyOps]
    rw [this]
    exact ih _ (fkIn_step T db op h (hr op (by simp))) (fun o ho => hr o (by simp [ho]))

/-- everything that can be referenced in `a` can be referenced in `b` -/
structure Mono (a b : Db) : Prop where
  values : ∀ h, hasValue a h = true → hasValue b h = true
  tasks : ∀ t, a.tasks.contains t = true → b.tasks.contains t = true
  nodes : ∀ c, hasNode a c = true → hasNode b c = true
  jobs : ∀ j, hasJob a j = true → hasJob b j = true
  execs : ∀ e, hasExec a e = true → hasExec b e = true
  tags : ∀ t, hasTag a t = true → hasTag b t = true
  args : ∀ c s, a.args.any (fun x => x.call == c && x.slot == s) = true →
    b.args.any (fun x => x.call == c && x.slot == s) = true

theorem Mono.refl (a : Db) : Mono a a := ⟨fun _ h => h, fun _ h => h, fun _ h => h, fun _ h => h, fun _ h => h, fun _ h => h, fun _ _ h => h⟩

theorem Mono.trans {a b c : Db} (h1 : Mono a b) (h2 : Mono b c) : Mono a c :=
  ⟨fun x h => h2.values x (h1.values x h), fun x h => h2.tasks x (h1.tasks x h), fun x h => h2.nodes x (h1.nodes x h),
   fun x h => h2.jobs x (h1.jobs x h), fun x h => h2.execs x (h1.execs x h), fun x h => h2.tags x (h1.tags x h),
   fun x y h => h2.args x y (h1.args x y h)⟩

theorem mono_applyOp (db : Db) (op : RowOp) : Mono db (applyOp db op) := by
  cases op <;>
    refine ⟨?_, ?_, ?_, ?_, ?_, ?_, ?_⟩ <;>
    simp only [applyOp, hasValue, hasNode, hasJob, hasExec, hasTag, List.any_append, List.contains_append,
      Bool.or_eq_true, List.any_map, Function.comp_def] <;>
    intros <;> first | assumption | (left; assumption) | skip
  all_goals
    rename_i h
    simp only [List.any_eq_true] at h ⊢
    obtain ⟨x, hx, hh⟩ := h
    refine ⟨x, hx, ?_⟩
    split <;> simpa using hh

theorem mono_applyOps (db : Db) (ops : List RowOp) : Mono db (applyOps db ops) := by
  induction ops generalizing db with
  | nil => exact Mono.refl db
  | cons op rest ih =>
    have : applyOps db (op :: rest) = applyOps (applyOp db op) rest := by simp [applyOps]
    rw [this]
    exact (mono_applyOp db op).trans (ih _)

theorem fkIn_mono_target {T T' db : Db} (h : fkIn T db = true) (m : Mono T T') : fkIn T' db = true := by
  simp only [fkIn, Bool.and_eq_true, List.all_eq_true] at h ⊢
  obtain ⟨⟨⟨⟨⟨⟨⟨⟨⟨⟨⟨h1, h2⟩, h3⟩, h4⟩, h5⟩, h6⟩, h7⟩, h8⟩, h9⟩, h10⟩, h11⟩, h12⟩ := h
  refine ⟨⟨⟨⟨⟨⟨⟨⟨⟨⟨⟨?_, ?_⟩, ?_⟩, ?_⟩, ?_⟩, ?_⟩, ?_⟩, ?_⟩, ?_⟩, ?_⟩, ?_⟩, ?_⟩
  · exact fun x hx => m.values _ (h1 x hx)
  · exact fun x hx => m.values _ (h2 x hx)
  · exact fun x hx => ⟨m.values _ (h3 x hx).1, m.values _ (h3 x hx).2⟩
  · exact fun x hx => ⟨m.tasks _ (h4 x hx).1, m.values _ (h4 x hx).2⟩
  · exact fun x hx => ⟨m.nodes _ (h5 x hx).1, m.nodes _ (h5 x hx).2⟩
  · exact fun x hx => ⟨m.nodes _ (h6 x hx).1, m.values _ (h6 x hx).2⟩
  · exact fun x hx => ⟨m.args _ _ (h7 x hx).1, m.nodes _ (h7 x hx).2⟩
  · exact fun x hx => ⟨m.nodes _ (h8 x hx).1, m.tasks _ (h8 x hx).2⟩
  · exact fun x hx => ⟨m.tasks _ (h9 x hx).1, m.values _ (h9 x hx).2⟩
  · intro x hx
    have := h10 x hx
    refine ⟨⟨⟨m.tasks _ this.1.1.1, m.execs _ this.1.1.2⟩, ?_⟩, ?_⟩
    · have h' := this.1.2
      cases hp : x.parent with
      | none => rfl
      | some p => rw [hp] at h'; exact m.jobs _ h'
    · have h' := this.2
      cases hc : x.call with
      | none => rfl
      | some c => rw [hc] at h'; exact m.nodes _ h'
  · exact fun x hx => m.jobs _ (h11 x hx)
  · exact fun x hx => ⟨m.tags _ (h12 x hx).1, m.tags _ (h12 x hx).2⟩

/-- **Referential closure is preserved by a commit all of whose new rows have their references resolved in
the committed state** (mutual references inside one commit, e.g. Execution ↔ Job, are fine). -/
theorem fk_commit (db : Db) (ops : List RowOp) (h : fkOk db = true)
    (hr : ∀ op ∈ ops, refsOk (applyOps db ops) op = true) : fkOk (applyOps db ops) = true := by
  rw [fkOk_eq_fkIn] at h ⊢
  exact fkIn_steps _ db ops (fkIn_mono_target h (mono_applyOps db ops)) hr

theorem refsOk_mono {T T' : Db} {op : RowOp} (h : refsOk T op = true) (m : Mono T T') : refsOk T' op = true := by
  cases op <;> simp only [refsOk, Bool.and_eq_true] at h ⊢
  · exact m.values _ h
  · exact m.values _ h
  · exact ⟨m.values _ h.1, m.values _ h.2⟩
  · exact ⟨m.tasks _ h.1, m.values _ h.2⟩
  · exact ⟨m.nodes _ h.1, m.nodes _ h.2⟩
  · exact ⟨m.nodes _ h.1, m.values _ h.2⟩
  · exact ⟨m.args _ _ h.1, m.nodes _ h.2⟩
  · exact ⟨m.nodes _ h.1, m.tasks _ h.2⟩
  · exact ⟨m.tasks _ h.1, m.values _ h.2⟩
  · exact m.values _ h
  · rename_i j
    refine ⟨⟨⟨m.tasks _ h.1.1.1, m.execs _ h.1.1.2⟩, ?_⟩, ?_⟩
    · have h' := h.1.2
      cases hp : j.parent with
      | none => rfl
      | some p => rw [hp] at h'; exact m.jobs _ h'
    · have h' := h.2
      cases hc : j.call with
      | none => rfl
      | some c => rw [hc] at h'; exact m.nodes _ h'
  · rename_i id c cached
    cases c with
    | none => rfl
    | some c => exact m.nodes _ h
  · exact m.jobs _ h
  · exact ⟨m.tags _ h.1, m.tags _ h.2⟩

def taskOf : RowOp → Option H | .task h => some h | _ => none

theorem applyOps_tasks (db : Db) (ops : List RowOp) : (applyOps db ops).tasks = db.tasks ++ ops.filterMap taskOf := by
  induction ops generalizing db with
  | nil => simp [applyOps]
  | cons op rest ih =>
    have : applyOps db (op :: rest) = applyOps (applyOps db [op]) rest := by simp [applyOps]
    rw [this, ih]
    cases op <;> simp [applyOps, applyOp, taskOf] <;> rfl

/-- the invariant of C22: referential closure + every Task value has its Task row -/
def Cons (db : Db) : Prop := fkOk db = true ∧ taskComplete db = true

theorem tc_commit (db : Db) (ops : List RowOp) (h : taskComplete db = true)
    (hv : ∀ r, RowOp.value r ∈ ops → r.kind = .task → (applyOps db ops).tasks.contains r.hash = true) :
    taskComplete (applyOps db ops) = true := by
  simp only [taskComplete, List.all_eq_true, Bool.or_eq_true, bne_iff_ne, ne_eq] at h ⊢
  intro r hr
  rw [applyOps_values, List.mem_append] at hr
  by_cases hk : r.kind = .task
  · right
    rcases hr with hr | hr
    · have := h r hr
      rcases this with h' | h'
      · exact absurd hk h'
      · exact (mono_applyOps db ops).tasks _ h'
    · simp only [List.mem_filterMap] at hr
      obtain ⟨op, hop, hv'⟩ := hr
      cases op with
      | value r' =>
        simp only [valueOf, Option.some.injEq] at hv'
        subst hv'
        exact hv _ hop hk
      | _ => simp [valueOf] at hv'
  · exact Or.inl hk

theorem cons_commit (db : Db) (ops : List RowOp) (h : Cons db)
    (hr : ∀ op ∈ ops, refsOk (applyOps db ops) op = true)
    (hv : ∀ r, RowOp.value r ∈ ops → r.kind = .task → (applyOps db ops).tasks.contains r.hash = true) :
    Cons (applyOps db ops) := ⟨fk_commit db ops h.1 hr, tc_commit db ops h.2 hv⟩

/-- what an operation started on a clean session leaves behind: a clean session, and every durable state it
added (every crash point) satisfies `P` -/
def OpOK (P : Db → Prop) (s s' : Sess) : Prop :=
  s'.pend = [] ∧ P s'.db ∧ ∀ snap ∈ s'.log, snap ∈ s.log ∨ P snap.db

theorem OpOK.refl {P : Db → Prop} (s : Sess) (hp : s.pend = []) (h : P s.db) : OpOK P s s :=
  ⟨hp, h, fun _ hs => Or.inl hs⟩

theorem OpOK.trans {P : Db → Prop} {a b c : Sess} (h1 : OpOK P a b) (h2 : OpOK P b c) : OpOK P a c :=
  ⟨h2.1, h2.2.1, fun snap hs => by
    rcases h2.2.2 snap hs with h | h
    · exact h1.2.2 snap h
    · exact Or.inr h⟩

/-- one `add rows; commit` step on a clean session -/
theorem OpOK.step {P : Db → Prop} (s : Sess) (ops : List RowOp) (hp : s.pend = [])
    (h : P (applyOps s.db ops)) : OpOK P s (s.addAll ops).commit := by
  have hview : (s.addAll ops).view = applyOps s.db ops := by simp [view_of_pend_nil s hp]
  refine ⟨by simp, ?_, ?_⟩
  · rw [db_commit, hview]; exact h
  · intro snap hs
    rcases log_commit (s.addAll ops) with hl | hl
    · rw [hl] at hs; exact Or.inl (by simpa using hs)
    · rw [hl] at hs; simp only [log_addAll, List.mem_append, List.mem_singleton] at hs
      rcases hs with hs | hs
      · exact Or.inl hs
      · right; subst hs; rw [hview]; exact h

theorem newSubValues_mem {db : Db} {seen : List H} {subs : List ValueRow} {op : RowOp}
    (h : op ∈ newSubValues db seen subs) : ∃ r ∈ subs, op = .value r := by
  induction subs generalizing seen with
  | nil => simp [newSubValues] at h
  | cons r rest ih =>
    simp only [newSubValues] at h
    split at h
    · obtain ⟨x, hx, he⟩ := ih h; exact ⟨x, by simp [hx], he⟩
    · simp only [List.mem_cons] at h
      rcases h with h | h
      · exact ⟨r, by simp, h⟩
      · obtain ⟨x, hx, he⟩ := ih h; exact ⟨x, by simp [hx], he⟩

theorem newSubLinks_mem {db : Db} {parent : H} {seen : List H} {subs : List ValueRow} {op : RowOp}
    (h : op ∈ newSubLinks db parent seen subs) : ∃ r ∈ subs, op = .subvalue ⟨r.hash, parent⟩ := by
  induction subs generalizing seen with
  | nil => simp [newSubLinks] at h
  | cons r rest ih =>
    simp only [newSubLinks] at h
    split at h
    · obtain ⟨x, hx, he⟩ := ih h; exact ⟨x, by simp [hx], he⟩
    · simp only [List.mem_cons] at h
      rcases h with h | h
      · exact ⟨r, by simp, h⟩
      · obtain ⟨x, hx, he⟩ := ih h; exact ⟨x, by simp [hx], he⟩

theorem subSpecialOps_mem {db : Db} {seenF seenT : List H} {subs : List ValueRow} {op : RowOp}
    (h : op ∈ subSpecialOps db seenF seenT subs) : ∃ r ∈ subs, op = .task r.hash ∨ op = .file r.hash := by
  induction subs generalizing seenF seenT with
  | nil => simp [subSpecialOps] at h
  | cons r rest ih =>
    simp only [subSpecialOps] at h
    split at h
    · obtain ⟨x, hx, he⟩ := ih h; exact ⟨x, by simp [hx], he⟩
    · split at h
      · obtain ⟨x, hx, he⟩ := ih h; exact ⟨x, by simp [hx], he⟩
      · simp only [List.mem_cons] at h
        rcases h with h | h
        · exact ⟨r, by simp, Or.inl h⟩
        · obtain ⟨x, hx, he⟩ := ih h; exact ⟨x, by simp [hx], he⟩
    · split at h
      · obtain ⟨x, hx, he⟩ := ih h; exact ⟨x, by simp [hx], he⟩
      · simp only [List.mem_cons] at h
        rcases h with h | h
        · exact ⟨r, by simp, Or.inr h⟩
        · obtain ⟨x, hx, he⟩ := ih h; exact ⟨x, by simp [hx], he⟩

theorem newSubValues_covers (db : Db) (seen : List H) (subs : List ValueRow) :
    ∀ r ∈ subs, hasValue db r.hash = true ∨ seen.contains r.hash = true ∨
      ∃ r', RowOp.value r' ∈ newSubValues db seen subs ∧ r'.hash = r.hash := by
  induction subs generalizing seen with
  | nil => intro r h; cases h
  | cons a rest ih =>
    intro r hr
    simp only [newSubValues]
    simp only [List.mem_cons] at hr
    split
    · rename_i hc
      rcases hr with hr | hr
      · subst hr
        simp only [Bool.or_eq_true] at hc
        rcases hc with hc | hc
        · exact Or.inl hc
        · exact Or.inr (Or.inl hc)
      · exact ih seen r hr
    · rcases hr with hr | hr
      · subst hr; exact Or.inr (Or.inr ⟨r, by simp, rfl⟩)
      · rcases ih (seen ++ [a.hash]) r hr with h | h | h
        · exact Or.inl h
        · simp only [List.contains_append, Bool.or_eq_true, List.contains_cons, List.contains_nil, Bool.or_false,
            beq_iff_eq] at h
          rcases h with h | h
          · exact Or.inr (Or.inl h)
          · exact Or.inr (Or.inr ⟨a, by simp, h.symm⟩)
        · obtain ⟨r', hm, he⟩ := h
          exact Or.inr (Or.inr ⟨r', by simp [hm], he⟩)

theorem subSpecialOps_covers (db : Db) (seenF seenT : List H) (subs : List ValueRow) :
    ∀ r ∈ subs, r.kind = .task → db.tasks.contains r.hash = true ∨ seenT.contains r.hash = true ∨
      RowOp.task r.hash ∈ subSpecialOps db seenF seenT subs := by
  induction subs generalizing seenF seenT with
  | nil => intro r h; cases h
  | cons a rest ih =>
    intro r hr hk
    simp only [subSpecialOps]
    simp only [List.mem_cons] at hr
    split
    · rename_i hka
      rcases hr with hr | hr
      · subst hr; rw [hk] at hka; cases hka
      · exact ih seenF seenT r hr hk
    · split
      · rename_i hc
        rcases hr with hr | hr
        · subst hr
          simp only [Bool.or_eq_true] at hc
          rcases hc with hc | hc
          · exact Or.inl hc
          · exact Or.inr (Or.inl hc)
        · exact ih seenF seenT r hr hk
      · rcases hr with hr | hr
        · subst hr; exact Or.inr (Or.inr (by simp))
        · rcases ih seenF (seenT ++ [a.hash]) r hr hk with h | h | h
          · exact Or.inl h
          · simp only [List.contains_append, Bool.or_eq_true, List.contains_cons, List.contains_nil, Bool.or_false,
              beq_iff_eq] at h
            rcases h with h | h
            · exact Or.inr (Or.inl h)
            · exact Or.inr (Or.inr (by simp [h]))
          · exact Or.inr (Or.inr (by simp [h]))
    · rename_i hka
      split
      · rcases hr with hr | hr
        · subst hr; rw [hk] at hka; cases hka
        · exact ih seenF seenT r hr hk
      · rcases hr with hr | hr
        · subst hr; rw [hk] at hka; cases hka
        · rcases ih (seenF ++ [a.hash]) seenT r hr hk with h | h | h
          · exact Or.inl h
          · exact Or.inr (Or.inl h)
          · exact Or.inr (Or.inr (by simp [h]))

theorem specialMissing_mem {db : Db} {r : ValueRow} {op : RowOp} (h : op ∈ specialMissing db r) :
    op = .task r.hash ∨ op = .file r.hash := by
  unfold specialMissing at h
  cases hk : r.kind <;> simp only [hk] at h
  · cases h
  · split at h
    · cases h
    · simp at h; exact Or.inl h
  · split at h
    · cases h
    · simp at h; exact Or.inr h

theorem specialMissing_task (db : Db) (r : ValueRow) (hk : r.kind = .task) :
    db.tasks.contains r.hash = true ∨ RowOp.task r.hash ∈ specialMissing db r := by
  unfold specialMissing
  simp only [hk]
  split
  · rename_i h; exact Or.inl h
  · exact Or.inr (by simp)

theorem tasks_contains_of_mem_ops (db : Db) (ops : List RowOp) (t : H) (h : RowOp.task t ∈ ops) :
    (applyOps db ops).tasks.contains t = true := by
  rw [applyOps_tasks]
  simp only [List.contains_append, Bool.or_eq_true, List.contains_iff_mem]
  exact Or.inr (List.mem_filterMap.mpr ⟨_, h, rfl⟩)

/-- all rows `record_value` (repaired) writes in its single commit have their references resolved, and a Task
value comes with its Task row -/
theorem valueOps_ok (db : Db) (x : ValueSpec) :
    (∀ op ∈ valueOps db x, refsOk (applyOps db (valueOps db x)) op = true) ∧
    (∀ r, RowOp.value r ∈ valueOps db x → r.kind = .task →
      (applyOps db (valueOps db x)).tasks.contains r.hash = true) := by
  have hrow : hasValue (applyOps db (valueOps db x)) x.row.hash = true :=
    hasValue_of_mem_ops _ _ _ (valueOps_mem db x)
  unfold valueOps at hrow ⊢
  simp only at hrow ⊢
  split
  · -- no subvalues
    rename_i hsubs
    simp only [hsubs, if_true] at hrow
    constructor
    · intro op hop
      simp only [List.mem_append, List.mem_singleton] at hop
      rcases hop with hop | hop
      · subst hop; rfl
      · rcases specialMissing_mem hop with h | h <;> subst h <;> exact hrow
    · intro r hr hk
      simp only [List.mem_append, List.mem_singleton] at hr
      rcases hr with hr | hr
      · simp only [RowOp.value.injEq] at hr
        subst hr
        rcases specialMissing_task (applyOps db [RowOp.value x.row]) x.row hk with h | h
        · rw [applyOps_append]
          exact (mono_applyOps _ _).tasks _ h
        · exact tasks_contains_of_mem_ops _ _ _ (by simp [h])
      · rcases specialMissing_mem hr with h | h <;> cases h
  · rename_i hsubs
    simp only [hsubs, Bool.false_eq_true, ↓reduceIte] at hrow
    -- names for the intermediate states
    generalize hd1 : applyOps db [RowOp.value x.row] = d1 at *
    generalize ho2 : specialMissing d1 x.row = o2 at *
    generalize hd2 : applyOps d1 o2 = d2 at *
    generalize ho3 : newSubValues d2 [] x.subs ++ newSubLinks d2 x.row.hash [] x.subs = o3 at *
    generalize hd3 : applyOps d2 o3 = d3 at *
    generalize ho4 : subSpecialOps d3 [] [] x.subs = o4 at *
    have hT : applyOps db ([RowOp.value x.row] ++ o2 ++ o3 ++ o4) = applyOps d3 o4 := by
      rw [applyOps_append, applyOps_append, applyOps_append, hd1, hd2, hd3]
    have hT2 : applyOps db ([RowOp.value x.row] ++ o2 ++ o3 ++ o4) = applyOps d2 (o3 ++ o4) := by
      rw [List.append_assoc ([RowOp.value x.row] ++ o2) o3 o4, applyOps_append, applyOps_append db [RowOp.value x.row] o2,
        hd1, hd2]
    have hsubv : ∀ r ∈ x.subs, hasValue (applyOps db ([RowOp.value x.row] ++ o2 ++ o3 ++ o4)) r.hash = true := by
      intro r hr
      rcases newSubValues_covers d2 [] x.subs r hr with h | h | h
      · rw [hT2]; exact (mono_applyOps _ _).values _ h
      · simp at h
      · obtain ⟨r', hm, he⟩ := h
        rw [← he]
        exact hasValue_of_mem_ops _ _ _ (by
          simp only [List.mem_append]
          left; right; rw [← ho3]; simp [hm])
    constructor
    · intro op hop
      simp only [List.mem_append, List.mem_singleton] at hop
      rcases hop with ((hop | hop) | hop) | hop
      · subst hop; rfl
      · rw [← ho2] at hop
        rcases specialMissing_mem hop with h | h <;> subst h <;> exact hrow
      · rw [← ho3, List.mem_append] at hop
        rcases hop with hop | hop
        · obtain ⟨r, _, he⟩ := newSubValues_mem hop; subst he; rfl
        · obtain ⟨r, hr, he⟩ := newSubLinks_mem hop
          subst he
          simp only [refsOk, Bool.and_eq_true]
          exact ⟨hsubv r hr, hrow⟩
      · rw [← ho4] at hop
        obtain ⟨r, hr, he⟩ := subSpecialOps_mem hop
        rcases he with he | he <;> subst he <;> exact hsubv r hr
    · intro r hr hk
      simp only [List.mem_append, List.mem_singleton] at hr
      rcases hr with ((hr | hr) | hr) | hr
      · simp only [RowOp.value.injEq] at hr
        subst hr
        rcases specialMissing_task d1 x.row hk with h | h
        · rw [List.append_assoc, List.append_assoc, applyOps_append, hd1]
          exact (mono_applyOps _ _).tasks _ h
        · exact tasks_contains_of_mem_ops _ _ _ (by rw [← ho2]; simp [h])
      · rw [← ho2] at hr
        rcases specialMissing_mem hr with h | h <;> cases h
      · rw [← ho3, List.mem_append] at hr
        rcases hr with hr | hr
        · obtain ⟨r', hr', he⟩ := newSubValues_mem hr
          simp only [RowOp.value.injEq] at he
          subst he
          rcases subSpecialOps_covers d3 [] [] x.subs r hr' hk with h | h | h
          · rw [hT]; exact (mono_applyOps _ _).tasks _ h
          · simp at h
          · exact tasks_contains_of_mem_ops _ _ _ (by rw [← ho4]; simp [h])
        · obtain ⟨r', _, he⟩ := newSubLinks_mem hr; cases he
      · rw [← ho4] at hr
        obtain ⟨r', _, he⟩ := subSpecialOps_mem hr
        rcases he with he | he <;> cases he

/-- **`record_value` (repaired) is atomic and consistent**: it leaves at most one new durable state, which is
referentially closed and in which every Task value has its Task row. -/
theorem recordValue_cons (v : Variant) (hv : v.atomicValue = true) (x : ValueSpec) (s : Sess) (hp : s.pend = [])
    (h : Cons s.db) : OpOK Cons s (recordValue v x s) := by
  unfold recordValue
  split
  · exact OpOK.refl s hp h
  · simp only [view_of_pend_nil s hp]
    have hok := valueOps_ok s.db x
    exact OpOK.step s _ hp (cons_commit s.db _ h hok.1 hok.2)

theorem recordValues_cons (v : Variant) (hv : v.atomicValue = true) (xs : List ValueSpec) (s : Sess) (hp : s.pend = [])
    (h : Cons s.db) : OpOK Cons s (recordValues v xs s) := by
  induction xs generalizing s with
  | nil => exact OpOK.refl s hp h
  | cons x rest ih =>
    have h1 := recordValue_cons v hv x s hp h
    exact h1.trans (ih _ h1.1 h1.2.1)

theorem mono_addCommit (s : Sess) (ops : List RowOp) : Mono s.view (s.addAll ops).commit.view := by
  simp only [view_commit, view_addAll]; exact mono_applyOps _ _

theorem recordValue_monoDb (v : Variant) (hv : v.atomicValue = true) (x : ValueSpec) (s : Sess) :
    Mono s.view (recordValue v x s).view := by
  unfold recordValue
  split
  · exact Mono.refl _
  · exact mono_addCommit _ _

theorem recordValues_monoDb (v : Variant) (hv : v.atomicValue = true) (xs : List ValueSpec) (s : Sess) :
    Mono s.view (recordValues v xs s).view := by
  induction xs generalizing s with
  | nil => exact Mono.refl _
  | cons x rest ih => exact (recordValue_monoDb v hv x s).trans (ih _)

theorem mem_values_applyOps {db : Db} {ops : List RowOp} {r : ValueRow} (h : RowOp.value r ∈ ops) :
    r ∈ (applyOps db ops).values := by
  rw [applyOps_values, List.mem_append]; exact Or.inr (List.mem_filterMap.mpr ⟨_, h, rfl⟩)

/-- after `record_value(x)` there is a Value row with x's hash: x's own row, or one that was there before -/
theorem recordValue_row (v : Variant) (hv : v.atomicValue = true) (x : ValueSpec) (s : Sess) :
    ∃ r ∈ (recordValue v x s).view.values, r.hash = x.row.hash ∧ (r = x.row ∨ r ∈ s.view.values) := by
  unfold recordValue
  split
  · rename_i h
    simp only [hasValue, List.any_eq_true, beq_iff_eq] at h
    obtain ⟨r, hr, he⟩ := h
    exact ⟨r, hr, he, Or.inr hr⟩
  · simp only [view_commit, view_addAll]
    exact ⟨x.row, mem_values_applyOps (valueOps_mem _ _), rfl, Or.inl rfl⟩

theorem taskRow_of_cons {db : Db} (h : Cons db) {r : ValueRow} (hr : r ∈ db.values) (hk : r.kind = .task) :
    db.tasks.contains r.hash = true := by
  have := h.2
  simp only [taskComplete, List.all_eq_true, Bool.or_eq_true, bne_iff_ne, ne_eq] at this
  rcases this r hr with h' | h'
  · exact absurd hk h'
  · exact h'

/-- `set_eval_cache` (repaired `record_value`): every durable state is consistent -/
theorem setEvalCache_cons (v : Variant) (hv : v.atomicValue = true) (e : EvalRow) (val : ValueSpec) (s : Sess)
    (hp : s.pend = []) (h : Cons s.db) (he : e.value = val.row.hash) (ht : s.db.tasks.contains e.task = true) :
    OpOK Cons s (setEvalCache v e val s) := by
  have h1 := recordValue_cons v hv val s hp h
  have hm := recordValue_monoDb v hv val s
  have hhas := recordValue_has v val s
  rw [view_of_pend_nil s hp] at hm
  rw [view_of_pend_nil _ h1.1] at hm hhas
  unfold setEvalCache
  simp only
  split
  · split
    · exact h1
    · refine h1.trans ?_
      rw [add_eq_addAll]
      refine OpOK.step _ _ h1.1 (cons_commit _ _ h1.2.1 ?_ ?_)
      · intro op hop
        simp only [List.mem_singleton] at hop; subst hop
        simp only [refsOk]
        rw [he]; exact (mono_applyOps _ _).values _ hhas
      · intro r hr; simp at hr
  · refine h1.trans ?_
    rw [add_eq_addAll]
    refine OpOK.step _ _ h1.1 (cons_commit _ _ h1.2.1 ?_ ?_)
    · intro op hop
      simp only [List.mem_singleton] at hop; subst hop
      simp only [refsOk, Bool.and_eq_true]
      exact ⟨(mono_applyOps _ _).tasks _ (hm.tasks _ ht), by rw [he]; exact (mono_applyOps _ _).values _ hhas⟩
    · intro r hr; simp at hr

/-- `record_job_end`: the call hash, if any, names a recorded call node -/
theorem recordJobEnd_cons (id : H) (call : Option H) (cached : Bool) (s : Sess) (hp : s.pend = []) (h : Cons s.db)
    (hc : ∀ c, call = some c → hasNode s.db c = true) : OpOK Cons s (recordJobEnd id call cached s) := by
  unfold recordJobEnd
  rw [add_eq_addAll]
  refine OpOK.step _ _ hp (cons_commit _ _ h ?_ ?_)
  · intro op hop
    simp only [List.mem_singleton] at hop; subst hop
    simp only [refsOk]
    cases call with
    | none => rfl
    | some c => exact (mono_applyOps _ _).nodes _ (hc c rfl)
  · intro r hr; simp at hr

theorem applyOps_cons (db : Db) (op : RowOp) (rest : List RowOp) :
    applyOps db (op :: rest) = applyOps (applyOp db op) rest := by simp [applyOps]

theorem hasJob_of_mem_ops (db : Db) (ops : List RowOp) (j : JobRow) (h : RowOp.job j ∈ ops) :
    hasJob (applyOps db ops) j.id = true := by
  induction ops generalizing db with
  | nil => cases h
  | cons op rest ih =>
    rw [applyOps_cons]
    simp only [List.mem_cons] at h
    rcases h with h | h
    · subst h
      exact (mono_applyOps _ _).jobs _ (by simp [hasJob, applyOp])
    · exact ih _ h

theorem hasExec_of_mem_ops (db : Db) (ops : List RowOp) (e : ExecRow) (h : RowOp.exec e ∈ ops) :
    hasExec (applyOps db ops) e.id = true := by
  induction ops generalizing db with
  | nil => cases h
  | cons op rest ih =>
    rw [applyOps_cons]
    simp only [List.mem_cons] at h
    rcases h with h | h
    · subst h
      exact (mono_applyOps _ _).execs _ (by simp [hasExec, applyOp])
    · exact ih _ h

theorem hasNode_of_mem_ops (db : Db) (ops : List RowOp) (n : NodeRow) (h : RowOp.node n ∈ ops) :
    hasNode (applyOps db ops) n.call = true := by
  induction ops generalizing db with
  | nil => cases h
  | cons op rest ih =>
    rw [applyOps_cons]
    simp only [List.mem_cons] at h
    rcases h with h | h
    · subst h
      exact (mono_applyOps _ _).nodes _ (by simp [hasNode, applyOp])
    · exact ih _ h

theorem hasArg_of_mem_ops (db : Db) (ops : List RowOp) (a : ArgRow) (h : RowOp.arg a ∈ ops) :
    (applyOps db ops).args.any (fun x => x.call == a.call && x.slot == a.slot) = true := by
  induction ops generalizing db with
  | nil => cases h
  | cons op rest ih =>
    rw [applyOps_cons]
    simp only [List.mem_cons] at h
    rcases h with h | h
    · subst h
      exact (mono_applyOps _ _).args _ _ (by simp [applyOp])
    · exact ih _ h

theorem OpOK.congr {P : Db → Prop} {a b a' b' : Sess} (h : OpOK P a b) (h1 : b'.pend = b.pend) (h2 : b'.db = b.db)
    (h3 : b'.log = b.log) (h4 : a'.log = a.log) : OpOK P a' b' := by
  unfold OpOK at h ⊢
  rw [h1, h2, h3, h4]; exact h

/-- `record_job_start` (repaired `record_value`): the Job (and Execution) rows are committed with foreign keys
switched off, so their references must resolve by construction.  They do, given that the job's task value is a
Task value, the parent job is recorded and (for a non-root job) the execution is recorded. -/
theorem recordJobStart_cons (v : Variant) (hv : v.atomicValue = true) (j : JobRow) (root : Bool) (s s' : Sess)
    (hp : s.pend = []) (h : Cons s.db)
    (hkind : ∀ r ∈ s.db.values, r.hash = j.task → r.kind = .task)
    (hcall : j.call = none)
    (hparent : ∀ p, j.parent = some p → hasJob s.db p = true)
    (hexec : root = false → hasExec s.db j.exec = true)
    (hok : recordJobStart v j root s = .ok s') : OpOK Cons s s' := by
  have h1 := recordValue_cons v hv ⟨⟨j.task, .task⟩, []⟩ s hp h
  have hm := recordValue_monoDb v hv ⟨⟨j.task, .task⟩, []⟩ s
  have hrow := recordValue_row v hv ⟨⟨j.task, .task⟩, []⟩ s
  rw [view_of_pend_nil s hp] at hm hrow
  rw [view_of_pend_nil _ h1.1] at hm hrow
  generalize hs0 : recordValue v ⟨⟨j.task, .task⟩, []⟩ s = s0 at *
  have htask : s0.db.tasks.contains j.task = true := by
    obtain ⟨r, hr, he, hor⟩ := hrow
    have hk : r.kind = .task := by
      rcases hor with hor | hor
      · rw [hor]
      · exact hkind r hor he
    have := taskRow_of_cons h1.2.1 hr hk
    rw [he] at this; exact this
  have hjobref : ∀ T, Mono s0.db T → (root = true → hasExec T j.exec = true) → refsOk T (.job j) = true := by
    intro T m hx
    simp only [refsOk, Bool.and_eq_true]
    refine ⟨⟨⟨m.tasks _ htask, ?_⟩, ?_⟩, ?_⟩
    · cases hroot : root with
      | true => exact hx hroot
      | false => exact m.execs _ (hm.execs _ (hexec hroot))
    · cases hpar : j.parent with
      | none => rfl
      | some p => exact m.jobs _ (hm.jobs _ (hparent p hpar))
    · rw [hcall]
  unfold recordJobStart at hok
  simp only [hs0] at hok
  split at hok
  · rename_i hroot
    split at hok
    · simp only [Except.ok.injEq] at hok
      subst hok
      refine h1.trans ?_
      -- the session with `_executions` possibly updated has the same tables
      have hstep : ∀ s1 : Sess, s1.pend = [] → s1.db = s0.db → s1.log = s0.log →
          OpOK Cons s0 ((s1.add (.exec ⟨j.exec, j.id⟩)).add (.job j)).commit := by
        intro s1 hp1 hd1 hl1
        have : (s1.add (.exec ⟨j.exec, j.id⟩)).add (.job j) = s1.addAll [.exec ⟨j.exec, j.id⟩, .job j] := by
          simp [Sess.add, Sess.addAll, hp1]
        rw [this]
        refine OpOK.congr (a := s1) (b := (s1.addAll [.exec ⟨j.exec, j.id⟩, .job j]).commit)
          (OpOK.step s1 _ hp1 ?_) rfl rfl rfl hl1.symm
        rw [hd1]
        refine cons_commit _ _ h1.2.1 ?_ ?_
        · intro op hop
          simp only [List.mem_cons, List.mem_nil_iff, or_false] at hop
          rcases hop with hop | hop
          · subst hop
            simp only [refsOk]
            exact hasJob_of_mem_ops _ _ j (by simp)
          · subst hop
            exact hjobref _ (mono_applyOps _ _) (fun _ => hasExec_of_mem_ops _ _ ⟨j.exec, j.id⟩ (by simp))
        · intro r hr; simp at hr
      split
      · exact OpOK.congr (hstep s0 h1.1 rfl rfl) rfl rfl rfl rfl
      · exact OpOK.congr (hstep { s0 with pendingExecs := s0.pendingExecs.erase j.exec } h1.1 rfl rfl) rfl rfl rfl rfl
    · cases hok
  · rename_i hroot
    simp only [Except.ok.injEq] at hok
    subst hok
    refine h1.trans ?_
    rw [add_eq_addAll]
    refine OpOK.step _ _ h1.1 (cons_commit _ _ h1.2.1 ?_ ?_)
    · intro op hop
      simp only [List.mem_singleton] at hop; subst hop
      exact hjobref _ (mono_applyOps _ _) (fun hr => absurd hr hroot)
    · intro r hr; simp at hr

theorem mem_edgeOps {db : Db} {c : H} {children : List H} {op : RowOp} (h : op ∈ edgeOps db c children) :
    ∃ e : EdgeRow, op = .edge e ∧ e.parent = c ∧ hasNode db e.child = true := by
  simp only [edgeOps, List.mem_map, List.mem_filter] at h
  obtain ⟨p, ⟨_, hn⟩, rfl⟩ := h
  exact ⟨⟨c, p.1, p.2⟩, rfl, rfl, hn⟩

theorem mem_argOps {c : H} {args : List ArgSpec} {op : RowOp} (h : op ∈ argOps c args) :
    ∃ a ∈ args, op = .arg ⟨c, a.slot, a.value.row.hash⟩ ∨ ∃ u ∈ a.upstream, op = .argRes ⟨c, a.slot, u⟩ := by
  simp only [argOps, List.mem_flatMap, List.mem_cons, List.mem_map] at h
  obtain ⟨a, ha, h⟩ := h
  refine ⟨a, ha, ?_⟩
  rcases h with h | ⟨u, hu, h⟩
  · exact Or.inl h
  · exact Or.inr ⟨u, hu, h.symm⟩

theorem argOps_has_arg {c : H} {args : List ArgSpec} {a : ArgSpec} (ha : a ∈ args) :
    RowOp.arg ⟨c, a.slot, a.value.row.hash⟩ ∈ argOps c args := by
  simp only [argOps, List.mem_flatMap, List.mem_cons]
  exact ⟨a, ha, Or.inl rfl⟩

/-- **`record_call_node` (repaired) is consistent at every commit**: given that the job's task and result are
recorded, upstream call nodes exist and the subtree tasks have Task rows. -/
theorem recordCallNode_cons (v : Variant) (hv1 : v.atomicValue = true) (hv2 : v.atomicCallNode = true)
    (a : CallArgs) (s : Sess) (hp : s.pend = []) (h : Cons s.db)
    (htask : s.db.tasks.contains a.node.task = true) (hval : hasValue s.db a.node.value = true)
    (hups : ∀ x ∈ a.args, ∀ u ∈ x.upstream, hasNode s.db u = true)
    (hsub : ∀ t ∈ a.subtree, s.db.tasks.contains t = true) :
    OpOK Cons s (recordCallNode v a s) := by
  have hview := view_of_pend_nil s hp
  unfold recordCallNode
  simp only [hview]
  split
  · rename_i hnode
    split
    · -- heal
      have h1 := recordValues_cons v hv1 (taskValues a.subtree) s hp h
      have hm := recordValues_monoDb v hv1 (taskValues a.subtree) s
      rw [hview, view_of_pend_nil _ h1.1] at hm
      refine h1.trans (OpOK.step _ _ h1.1 (cons_commit _ _ h1.2.1 ?_ ?_))
      · intro op hop
        simp only [subOps, List.mem_map] at hop
        obtain ⟨t, ht, rfl⟩ := hop
        simp only [refsOk, Bool.and_eq_true]
        exact ⟨(mono_applyOps _ _).nodes _ (hm.nodes _ hnode), (mono_applyOps _ _).tasks _ (hm.tasks _ (hsub t ht))⟩
      · intro r hr
        simp only [subOps, List.mem_map] at hr
        obtain ⟨t, _, he⟩ := hr; cases he
    · exact OpOK.refl s hp h
  · rename_i hnode
    -- phase 1: argument values
    have h1 := recordValues_cons v hv1 (a.args.map (·.value)) s hp h
    have hm1 := recordValues_monoDb v hv1 (a.args.map (·.value)) s
    rw [hview] at hm1
    generalize hs1 : recordValues v (a.args.map (·.value)) s = s1 at *
    rw [view_of_pend_nil _ h1.1] at hm1
    have hhas1 : ∀ x ∈ a.args, hasValue s1.db x.value.row.hash = true := by
      intro x hx
      have := recordValues_has v (a.args.map (·.value)) s x.value (List.mem_map_of_mem hx)
      rw [hs1, view_of_pend_nil _ h1.1] at this; exact this
    -- phase 2: tasks (optional)
    have h2 : ∀ s2 : Sess, s2 = (if (a.children.any fun ch => !hasNode s1.view ch) = true then recordValues v (taskValues a.subtree) s1 else s1) →
        OpOK Cons s1 s2 ∧ Mono s1.db s2.db := by
      intro s2 hs2
      split at hs2
      · subst hs2
        have := recordValues_cons v hv1 (taskValues a.subtree) s1 h1.1 h1.2.1
        have hm := recordValues_monoDb v hv1 (taskValues a.subtree) s1
        rw [view_of_pend_nil _ h1.1, view_of_pend_nil _ this.1] at hm
        exact ⟨this, hm⟩
      · subst hs2; exact ⟨OpOK.refl _ h1.1 h1.2.1, Mono.refl _⟩
    generalize hs2 : (if (a.children.any fun ch => !hasNode s1.view ch) = true then recordValues v (taskValues a.subtree) s1 else s1) = s2 at *
    obtain ⟨h2ok, hm2⟩ := h2 s2 rfl
    have hm : Mono s.db s2.db := hm1.trans hm2
    have hview2 := view_of_pend_nil s2 h2ok.1
    rw [recordArgs_noop]
    · refine h1.trans (h2ok.trans ?_)
      have heq : (((s2.add (.node a.node)).addAll (edgeOps (s2.add (.node a.node)).view a.node.call a.children)).addAll
          (subOps a.node.call a.subtree)).addAll (argOps a.node.call a.args)
          = s2.addAll (RowOp.node a.node :: (edgeOps (applyOp s2.db (.node a.node)) a.node.call a.children ++
              (subOps a.node.call a.subtree ++ argOps a.node.call a.args))) := by
        have hv' : (s2.add (.node a.node)).view = applyOp s2.db (.node a.node) := by rw [view_add, hview2]
        rw [hv']
        simp [Sess.add, Sess.addAll, h2ok.1, List.append_assoc]
      rw [heq]
      refine OpOK.step _ _ h2ok.1 (cons_commit _ _ h2ok.2.1 ?_ ?_)
      · intro op hop
        have hnodeT : hasNode (applyOps s2.db (RowOp.node a.node :: (edgeOps (applyOp s2.db (.node a.node)) a.node.call a.children ++
              (subOps a.node.call a.subtree ++ argOps a.node.call a.args)))) a.node.call = true :=
          hasNode_of_mem_ops _ _ a.node (by simp)
        have hmT := mono_applyOps s2.db (RowOp.node a.node :: (edgeOps (applyOp s2.db (.node a.node)) a.node.call a.children ++
              (subOps a.node.call a.subtree ++ argOps a.node.call a.args)))
        simp only [List.mem_cons, List.mem_append] at hop
        rcases hop with hop | hop | hop | hop
        · subst hop
          simp only [refsOk, Bool.and_eq_true]
          exact ⟨hmT.tasks _ (hm.tasks _ htask), hmT.values _ (hm.values _ hval)⟩
        · obtain ⟨e, he, hpar, hch⟩ := mem_edgeOps hop
          subst he
          simp only [refsOk, Bool.and_eq_true]
          refine ⟨by rw [hpar]; exact hnodeT, ?_⟩
          rw [applyOps_cons]
          exact (mono_applyOps _ _).nodes _ hch
        · simp only [subOps, List.mem_map] at hop
          obtain ⟨t, ht, rfl⟩ := hop
          simp only [refsOk, Bool.and_eq_true]
          exact ⟨hnodeT, hmT.tasks _ (hm.tasks _ (hsub t ht))⟩
        · obtain ⟨x, hx, hor⟩ := mem_argOps hop
          rcases hor with hor | ⟨u, hu, hor⟩
          · subst hor
            simp only [refsOk, Bool.and_eq_true]
            exact ⟨hnodeT, hmT.values _ (hm2.values _ (hhas1 x hx))⟩
          · subst hor
            simp only [refsOk, Bool.and_eq_true]
            refine ⟨?_, hmT.nodes _ (hm.nodes _ (hups x hx u hu))⟩
            exact hasArg_of_mem_ops _ _ ⟨a.node.call, x.slot, x.value.row.hash⟩
              (by simp only [List.mem_cons, List.mem_append]; right; right; right; exact argOps_has_arg hx)
      · intro r hr
        simp only [List.mem_cons, List.mem_append] at hr
        rcases hr with hr | hr | hr | hr
        · cases hr
        · obtain ⟨e, he, _⟩ := mem_edgeOps hr; cases he
        · simp only [subOps, List.mem_map] at hr
          obtain ⟨t, _, he⟩ := hr; cases he
        · obtain ⟨x, _, hor⟩ := mem_argOps hr
          rcases hor with hor | ⟨u, _, hor⟩ <;> cases hor
    · intro x hx
      simp only [view_addAll, view_add, hview2]
      exact hasValue_applyOps_mono _ _ _ (hasValue_applyOps_mono _ _ _ (hasValue_applyOp_mono _ _ _ (hm2.values _ (hhas1 x hx))))

/-! ## sessions with pending rows (the two-commit `record_call_node`) -/


/-- the rows pending in the session have their references resolved in what the session sees, and a pending
Task value comes with its Task row -/
def PendOK (s : Sess) : Prop :=
  (∀ op ∈ s.pend, refsOk s.view op = true) ∧
  (∀ r, RowOp.value r ∈ s.pend → r.kind = .task → s.view.tasks.contains r.hash = true)

/-- like `OpOK Cons`, for a session that may keep rows pending -/
def OpOKp (s s' : Sess) : Prop :=
  Cons s'.db ∧ PendOK s' ∧ ∀ snap ∈ s'.log, snap ∈ s.log ∨ Cons snap.db

theorem OpOKp.refl (s : Sess) (h : Cons s.db) (hp : PendOK s) : OpOKp s s := ⟨h, hp, fun _ hs => Or.inl hs⟩

theorem OpOKp.trans {a b c : Sess} (h1 : OpOKp a b) (h2 : OpOKp b c) : OpOKp a c :=
  ⟨h2.1, h2.2.1, fun snap hs => by
    rcases h2.2.2 snap hs with h | h
    · exact h1.2.2 snap h
    · exact Or.inr h⟩

theorem pendOK_nil (s : Sess) (hp : s.pend = []) : PendOK s := by
  constructor <;> intro x hx <;> simp [hp] at hx

theorem view_eq (s : Sess) : s.view = applyOps s.db s.pend := rfl

/-- committing a session whose pending rows are fine -/
theorem commit_cons (s : Sess) (h : Cons s.db) (hp : PendOK s) : OpOKp s s.commit := by
  have hc : Cons s.view := cons_commit s.db s.pend h hp.1 hp.2
  refine ⟨by rw [db_commit]; exact hc, pendOK_nil _ (pend_commit s), ?_⟩
  intro snap hs
  rcases log_commit s with hl | hl
  · rw [hl] at hs; exact Or.inl hs
  · rw [hl] at hs; simp only [List.mem_append, List.mem_singleton] at hs
    rcases hs with hs | hs
    · exact Or.inl hs
    · right; subst hs; exact hc

theorem addAll_pendOK (s : Sess) (ops : List RowOp) (hp : PendOK s)
    (hr : ∀ op ∈ ops, refsOk (applyOps s.view ops) op = true)
    (hv : ∀ r, RowOp.value r ∈ ops → r.kind = .task → (applyOps s.view ops).tasks.contains r.hash = true) :
    PendOK (s.addAll ops) := by
  have hm := mono_applyOps s.view ops
  constructor
  · intro op hop
    simp only [Sess.addAll, List.mem_append] at hop
    rw [view_addAll]
    rcases hop with hop | hop
    · exact refsOk_mono (hp.1 op hop) hm
    · exact hr op hop
  · intro r hr' hk
    simp only [Sess.addAll, List.mem_append] at hr'
    rw [view_addAll]
    rcases hr' with h | h
    · exact hm.tasks _ (hp.2 r h hk)
    · exact hv r h hk

theorem addAll_ok (s : Sess) (ops : List RowOp) (h : Cons s.db) (hp : PendOK s)
    (hr : ∀ op ∈ ops, refsOk (applyOps s.view ops) op = true)
    (hv : ∀ r, RowOp.value r ∈ ops → r.kind = .task → (applyOps s.view ops).tasks.contains r.hash = true) :
    OpOKp s (s.addAll ops) :=
  ⟨h, addAll_pendOK s ops hp hr hv, fun _ hs => Or.inl hs⟩

/-- `record_value` (repaired) called while the caller has rows pending: its single commit makes them durable too -/
theorem recordValue_consp (v : Variant) (hv : v.atomicValue = true) (x : ValueSpec) (s : Sess)
    (h : Cons s.db) (hp : PendOK s) : OpOKp s (recordValue v x s) := by
  unfold recordValue
  split
  · exact OpOKp.refl s h hp
  · have hok := valueOps_ok s.view x
    exact (addAll_ok s _ h hp hok.1 hok.2).trans (commit_cons _ h (addAll_pendOK s _ hp hok.1 hok.2))

theorem recordValues_consp (v : Variant) (hv : v.atomicValue = true) (xs : List ValueSpec) (s : Sess)
    (h : Cons s.db) (hp : PendOK s) : OpOKp s (recordValues v xs s) := by
  induction xs generalizing s with
  | nil => exact OpOKp.refl s h hp
  | cons x rest ih =>
    have h1 := recordValue_consp v hv x s h hp
    exact h1.trans (ih _ h1.1 h1.2.1)

theorem recordValue_monoView (v : Variant) (hv : v.atomicValue = true) (x : ValueSpec) (s : Sess) :
    Mono s.view (recordValue v x s).view := recordValue_monoDb v hv x s

/-- the loop of `_record_args` with the CallNode pending: every commit issued by a nested `record_value` leaves a
consistent state, given the node is pending/recorded and upstream call nodes exist -/
theorem recordArgs_consp (v : Variant) (hv : v.atomicValue = true) (c : H) (args : List ArgSpec) (s : Sess)
    (h : Cons s.db) (hp : PendOK s) (hc : hasNode s.view c = true)
    (hups : ∀ x ∈ args, ∀ u ∈ x.upstream, hasNode s.view u = true) :
    OpOKp s (recordArgs v c args s) ∧ Mono s.view (recordArgs v c args s).view := by
  induction args generalizing s with
  | nil => exact ⟨OpOKp.refl s h hp, Mono.refl _⟩
  | cons a rest ih =>
    simp only [recordArgs]
    have h1 := recordValue_consp v hv a.value s h hp
    have hm1 := recordValue_monoView v hv a.value s
    have hhas := recordValue_has v a.value s
    generalize recordValue v a.value s = s1 at *
    -- the Argument row and its ArgumentResult rows
    have hops : ∀ op ∈ (RowOp.arg ⟨c, a.slot, a.value.row.hash⟩ :: a.upstream.map (fun u => RowOp.argRes ⟨c, a.slot, u⟩)),
        refsOk (applyOps s1.view (RowOp.arg ⟨c, a.slot, a.value.row.hash⟩ :: a.upstream.map (fun u => RowOp.argRes ⟨c, a.slot, u⟩))) op = true := by
      intro op hop
      have hmT := mono_applyOps s1.view (RowOp.arg ⟨c, a.slot, a.value.row.hash⟩ :: a.upstream.map (fun u => RowOp.argRes ⟨c, a.slot, u⟩))
      simp only [List.mem_cons, List.mem_map] at hop
      rcases hop with hop | ⟨u, hu, hop⟩
      · subst hop
        simp only [refsOk, Bool.and_eq_true]
        exact ⟨hmT.nodes _ (hm1.nodes _ hc), hmT.values _ hhas⟩
      · subst hop
        simp only [refsOk, Bool.and_eq_true]
        exact ⟨hasArg_of_mem_ops _ _ ⟨c, a.slot, a.value.row.hash⟩ (by simp),
          hmT.nodes _ (hm1.nodes _ (hups a (by simp) u hu))⟩
    have hvals : ∀ r, RowOp.value r ∈ (RowOp.arg ⟨c, a.slot, a.value.row.hash⟩ :: a.upstream.map (fun u => RowOp.argRes ⟨c, a.slot, u⟩)) →
        r.kind = .task → (applyOps s1.view (RowOp.arg ⟨c, a.slot, a.value.row.hash⟩ :: a.upstream.map (fun u => RowOp.argRes ⟨c, a.slot, u⟩))).tasks.contains r.hash = true := by
      intro r hr; simp at hr
    have heq : (s1.add (.arg ⟨c, a.slot, a.value.row.hash⟩)).addAll (a.upstream.map (fun u => RowOp.argRes ⟨c, a.slot, u⟩))
        = s1.addAll (RowOp.arg ⟨c, a.slot, a.value.row.hash⟩ :: a.upstream.map (fun u => RowOp.argRes ⟨c, a.slot, u⟩)) := by
      simp [Sess.add, Sess.addAll]
    rw [heq]
    have h2 := addAll_ok s1 _ h1.1 h1.2.1 hops hvals
    have hm2 : Mono s1.view (s1.addAll (RowOp.arg ⟨c, a.slot, a.value.row.hash⟩ :: a.upstream.map (fun u => RowOp.argRes ⟨c, a.slot, u⟩))).view := by
      rw [view_addAll]; exact mono_applyOps _ _
    have h3 := ih (s1.addAll (RowOp.arg ⟨c, a.slot, a.value.row.hash⟩ :: a.upstream.map (fun u => RowOp.argRes ⟨c, a.slot, u⟩)))
      h2.1 h2.2.1 (hm2.nodes _ (hm1.nodes _ hc))
      (fun x hx u hu => hm2.nodes _ (hm1.nodes _ (hups x (by simp [hx]) u hu)))
    exact ⟨(h1.trans h2).trans h3.1, (hm1.trans hm2).trans h3.2⟩

/-- **`record_call_node` with the repaired `record_value`, two-commit or one-commit**: every durable state is
referentially closed and has a Task row for every Task value. -/
theorem recordCallNode_cons_any (v : Variant) (hv1 : v.atomicValue = true) (a : CallArgs) (s : Sess)
    (hp : s.pend = []) (h : Cons s.db)
    (htask : s.db.tasks.contains a.node.task = true) (hval : hasValue s.db a.node.value = true)
    (hups : ∀ x ∈ a.args, ∀ u ∈ x.upstream, hasNode s.db u = true)
    (hsub : ∀ t ∈ a.subtree, s.db.tasks.contains t = true) :
    OpOK Cons s (recordCallNode v a s) := by
  cases hv2 : v.atomicCallNode with
  | true => exact recordCallNode_cons v hv1 hv2 a s hp h htask hval hups hsub
  | false =>
    have hview := view_of_pend_nil s hp
    cases hnode : hasNode s.db a.node.call with
    | true =>
      have hc := recordValues_congr (v := v) (v' := { v with atomicCallNode := true }) rfl (taskValues a.subtree) s
      have : recordCallNode v a s = recordCallNode { v with atomicCallNode := true } a s := by
        unfold recordCallNode
        simp only [hview, hnode, if_true, hc]
      rw [this]
      exact recordCallNode_cons { v with atomicCallNode := true } hv1 rfl a s hp h htask hval hups hsub
    | false =>
      unfold recordCallNode
      simp only [hview, hnode, hv2]
      simp only [Bool.false_eq_true, if_false]
      have hview1 : (s.add (.node a.node)).view = applyOp s.db (.node a.node) := by rw [view_add, hview]
      -- the CallNode and its edges, pending
      have heq2 : (s.add (.node a.node)).addAll (edgeOps (s.add (.node a.node)).view a.node.call a.children)
          = s.addAll (RowOp.node a.node :: edgeOps (applyOp s.db (.node a.node)) a.node.call a.children) := by
        rw [hview1]; simp [Sess.add, Sess.addAll, hp]
      rw [heq2]
      have hm0 := mono_applyOps s.view (RowOp.node a.node :: edgeOps (applyOp s.db (.node a.node)) a.node.call a.children)
      have hnodeT : hasNode (applyOps s.view (RowOp.node a.node :: edgeOps (applyOp s.db (.node a.node)) a.node.call a.children))
          a.node.call = true := hasNode_of_mem_ops _ _ a.node (by simp)
      have h2 := addAll_ok s (RowOp.node a.node :: edgeOps (applyOp s.db (.node a.node)) a.node.call a.children) h
        (pendOK_nil s hp)
        (by
          intro op hop
          simp only [List.mem_cons] at hop
          rcases hop with hop | hop
          · subst hop
            simp only [refsOk, Bool.and_eq_true]
            rw [hview] at hm0 ⊢
            exact ⟨hm0.tasks _ htask, hm0.values _ hval⟩
          · obtain ⟨e, he, hpar, hch⟩ := mem_edgeOps hop
            subst he
            simp only [refsOk, Bool.and_eq_true]
            refine ⟨by rw [hpar]; exact hnodeT, ?_⟩
            rw [hview, applyOps_cons]
            exact (mono_applyOps _ _).nodes _ hch)
        (by
          intro r hr
          simp only [List.mem_cons] at hr
          rcases hr with hr | hr
          · cases hr
          · obtain ⟨e, he, _⟩ := mem_edgeOps hr; cases he)
      generalize hs2 : s.addAll (RowOp.node a.node :: edgeOps (applyOp s.db (.node a.node)) a.node.call a.children) = s2 at *
      have hv2' : s2.view = applyOps s.view (RowOp.node a.node :: edgeOps (applyOp s.db (.node a.node)) a.node.call a.children) := by
        rw [← hs2, view_addAll]
      have hm2 : Mono s.db s2.view := by rw [hv2', hview]; rw [hview] at hm0; exact hm0
      -- the arguments (nested record_value commits) and the first commit
      have h3 := recordArgs_consp v hv1 a.node.call a.args s2 h2.1 h2.2.1 (by rw [hv2']; exact hnodeT)
        (fun x hx u hu => hm2.nodes _ (hups x hx u hu))
      generalize recordArgs v a.node.call a.args s2 = s3 at *
      have h4 := commit_cons s3 h3.1.1 h3.1.2.1
      have hm4 : Mono s2.view s3.commit.view := by rw [view_commit]; exact h3.2
      -- optional task values
      have h5 : ∀ s5 : Sess, s5 = (if (a.children.any fun ch => !hasNode s3.commit.view ch) = true then
            recordValues v (taskValues a.subtree) s3.commit else s3.commit) →
          OpOKp s3.commit s5 ∧ Mono s2.view s5.view := by
        intro s5 hs5
        split at hs5
        · subst hs5
          exact ⟨recordValues_consp v hv1 _ _ h4.1 h4.2.1, hm4.trans (recordValues_monoDb v hv1 _ _)⟩
        · subst hs5; exact ⟨OpOKp.refl _ h4.1 h4.2.1, hm4⟩
      generalize (if (a.children.any fun ch => !hasNode s3.commit.view ch) = true then
            recordValues v (taskValues a.subtree) s3.commit else s3.commit) = s5 at *
      obtain ⟨h5ok, hm25⟩ := h5 s5 rfl
      have hm5 : Mono s.db s5.view := hm2.trans hm25
      -- the subtree rows and the second commit
      have h6 := addAll_ok s5 (subOps a.node.call a.subtree) h5ok.1 h5ok.2.1
        (by
          intro op hop
          simp only [subOps, List.mem_map] at hop
          obtain ⟨t, ht, rfl⟩ := hop
          simp only [refsOk, Bool.and_eq_true]
          have hmT := mono_applyOps s5.view (List.map (fun t => RowOp.sub ⟨a.node.call, t⟩) a.subtree)
          -- the node became visible when it was added and stays visible
          exact ⟨hmT.nodes _ (hm25.nodes _ (by rw [hv2']; exact hnodeT)), hmT.tasks _ (hm5.tasks _ (hsub t ht))⟩)
        (by
          intro r hr
          simp only [subOps, List.mem_map] at hr
          obtain ⟨t, _, he⟩ := hr; cases he)
      have h7 := commit_cons _ h6.1 h6.2.1
      have hall := (((h2.trans h3.1).trans h4).trans h5ok).trans (h6.trans h7)
      exact ⟨pend_commit _, hall.1, hall.2.2⟩
end RedunModel.Db
