/-
Helper lemmas for the context model (C26): the n-ary grouping algorithm of `merge_dicts` on two arguments is
the binary deep merge; well-formedness is preserved; lookups in a merged mapping.
-/
import RedunModel.Model.Context
namespace RedunModel.Context

theorem mergeKvs_eq_map (da db : List (String × Ctx)) :
    mergeKvs da db = da.map fun p => (p.1, match db.lookup p.1 with
                                          | some w => deepMerge p.2 w
                                          | none => p.2) := by
  induction da with
  | nil => simp [mergeKvs]
  | cons p t ih => obtain ⟨k, v⟩ := p; simp only [mergeKvs, List.map_cons, ih]; rfl

theorem keyOrder_fresh (l : List String) : ∀ (seen l2 : List String), l.Nodup → (∀ x ∈ l, x ∉ seen) →
    keyOrder seen (l ++ l2) = keyOrder (l.reverse ++ seen) l2 := by
  induction l with
  | nil => intro seen l2 _ _; simp
  | cons k t ih =>
    intro seen l2 hn hd
    have hk : k ∉ seen := hd k (by simp)
    simp only [List.cons_append, keyOrder, hk, if_false]
    rw [ih (k :: seen) l2 (List.nodup_cons.mp hn).2]
    · simp
    · intro x hx
      have : x ≠ k := fun h => (List.nodup_cons.mp hn).1 (h ▸ hx)
      simp [this, hd x (by simp [hx])]

theorem keyOrder_nodup (l : List String) : ∀ (seen : List String), l.Nodup →
    keyOrder seen l = seen.reverse ++ l.filter (fun x => decide (x ∉ seen)) := by
  induction l with
  | nil => intro seen _; simp [keyOrder]
  | cons k t ih =>
    intro seen hn
    have ⟨hk, ht⟩ := List.nodup_cons.mp hn
    by_cases hs : k ∈ seen
    · simp only [keyOrder, hs, if_true]
      rw [ih seen ht]; simp [hs]
    · simp only [keyOrder, hs, if_false]
      rw [ih (k :: seen) ht]
      simp only [List.reverse_cons, List.append_assoc, List.singleton_append, List.filter_cons, hs,
        not_false_eq_true, decide_true, if_true]
      congr 2
      apply List.filter_congr
      intro x hx
      have : x ≠ k := fun h => hk (h ▸ hx)
      simp [this]

theorem keyOrder_append (l1 l2 : List String) (h1 : l1.Nodup) (h2 : l2.Nodup) :
    keyOrder [] (l1 ++ l2) = l1 ++ l2.filter (fun x => decide (x ∉ l1)) := by
  rw [keyOrder_fresh l1 [] l2 h1 (by simp), keyOrder_nodup l2 _ h2]
  simp

theorem valuesFor_append (k : String) (a b : List (String × Ctx)) :
    valuesFor k (a ++ b) = valuesFor k a ++ valuesFor k b := by
  simp [valuesFor, List.filterMap_append]

theorem valuesFor_not_mem (k : String) (a : List (String × Ctx)) (h : k ∉ a.map (·.1)) :
    valuesFor k a = [] := by
  induction a with
  | nil => simp [valuesFor]
  | cons p t ih =>
    simp only [List.map_cons, List.mem_cons, not_or] at h
    have : ¬ p.1 = k := fun e => h.1 e.symm
    simp only [valuesFor, List.filterMap_cons, this, if_false]
    exact ih h.2

theorem valuesFor_nodup (k : String) (a : List (String × Ctx)) (h : (a.map (·.1)).Nodup) :
    valuesFor k a = match a.lookup k with
                    | some v => [v]
                    | none => [] := by
  induction a with
  | nil => simp [valuesFor]
  | cons p t ih =>
    obtain ⟨k', v⟩ := p
    have ⟨hk, ht⟩ := List.nodup_cons.mp h
    by_cases e : k' = k
    · subst e
      have : valuesFor k' t = [] := valuesFor_not_mem k' t hk
      simp only [valuesFor, List.filterMap_cons, if_true] at this ⊢
      simp [List.lookup, this]
    · have e' : (k == k') = false := by simp [Ne.symm e]
      simp only [valuesFor, List.filterMap_cons, e, if_false, List.lookup, e']
      exact ih ht

theorem lookup_of_mem_nodup (a : List (String × Ctx)) (h : (a.map (·.1)).Nodup) (p : String × Ctx)
    (hp : p ∈ a) : a.lookup p.1 = some p.2 := by
  induction a with
  | nil => simp at hp
  | cons q t ih =>
    have ⟨hk, ht⟩ := List.nodup_cons.mp h
    rcases List.mem_cons.mp hp with e | hm
    · subst e; simp [List.lookup]
    · have : ¬ p.1 = q.1 := fun e => hk (List.mem_map.mpr ⟨p, hm, e⟩)
      have e' : (p.1 == q.1) = false := by simp [this]
      obtain ⟨qk, qv⟩ := q
      simp only [List.lookup, e'] at *
      exact ih ht hm

theorem lookup_none_iff (k : String) (a : List (String × Ctx)) :
    a.lookup k = none ↔ k ∉ a.map (·.1) := by
  induction a with
  | nil => simp
  | cons q t ih =>
    obtain ⟨qk, qv⟩ := q
    by_cases e : k = qk
    · subst e; simp [List.lookup]
    · have e' : (k == qk) = false := by simp [e]
      simp [List.lookup, e', ih, e]

theorem wf_of_mem {kvs : List (String × Ctx)} (h : wfKvs kvs) {p : String × Ctx} (hp : p ∈ kvs) : p.2.WF := by
  induction kvs with
  | nil => simp at hp
  | cons q t ih =>
    obtain ⟨qk, qv⟩ := q
    simp only [wfKvs] at h
    rcases List.mem_cons.mp hp with e | hm
    · subst e; exact h.1
    · exact ih h.2 hm

theorem mem_of_lookup {k : String} {a : List (String × Ctx)} {v : Ctx} (h : a.lookup k = some v) : (k, v) ∈ a := by
  induction a with
  | nil => simp at h
  | cons q t ih =>
    obtain ⟨qk, qv⟩ := q
    by_cases e : k = qk
    · subst e; simp [List.lookup] at h; simp [h]
    · have e' : (k == qk) = false := by simp [e]
      simp only [List.lookup, e'] at h
      exact List.mem_cons_of_mem _ (ih h)

theorem size_lt_of_mem {kvs : List (String × Ctx)} {p : String × Ctx} (hp : p ∈ kvs) : p.2.size ≤ sizeKvs kvs := by
  induction kvs with
  | nil => simp at hp
  | cons q t ih =>
    obtain ⟨qk, qv⟩ := q
    rcases List.mem_cons.mp hp with e | hm
    · subst e; simp [sizeKvs]
    · have := ih hm; simp [sizeKvs]; omega

theorem mergeDicts_single (d : Ctx) : mergeDicts [d] = d := by rw [mergeDicts]

theorem mergeDicts_pair_obj (da db : List (String × Ctx)) :
    mergeDicts [.obj da, .obj db] =
      .obj ((keyOrder [] ((da ++ db).map (·.1))).map fun k => (k, mergeDicts (valuesFor k (da ++ db)))) := by
  rw [mergeDicts]; simp [isObj, items]

theorem mergeDicts_pair_leaf_right (a : Ctx) (w : String) : mergeDicts [a, .leaf w] = .leaf w := by
  rw [mergeDicts]; simp [isObj]

theorem mergeDicts_pair_leaf_left (v : String) (b : Ctx) : mergeDicts [.leaf v, b] = b := by
  rw [mergeDicts]; simp [isObj]

theorem binary_aux (n : Nat) : ∀ a b : Ctx, a.size ≤ n → a.WF → b.WF → mergeDicts [a, b] = deepMerge a b := by
  induction n with
  | zero => intro a b h; cases a <;> simp [Ctx.size] at h
  | succ n ih =>
    intro a b hs ha hb
    cases a with
    | leaf v => rw [mergeDicts_pair_leaf_left]; simp [deepMerge]
    | obj da =>
      cases b with
      | leaf w => rw [mergeDicts_pair_leaf_right]; simp [deepMerge]
      | obj db =>
        simp only [Ctx.WF] at ha hb
        rw [mergeDicts_pair_obj, deepMerge, mergeKvs_eq_map]
        simp only [List.map_append]
        rw [keyOrder_append _ _ ha.2 hb.2, List.map_append]
        congr 1
        · congr 1
          · rw [List.map_map]
            apply List.map_congr_left
            intro p hp
            simp only [Function.comp]
            congr 1
            rw [valuesFor_append, valuesFor_nodup _ _ ha.2, valuesFor_nodup _ _ hb.2,
              lookup_of_mem_nodup da ha.2 p hp]
            cases hl : db.lookup p.1 with
            | none => simp [mergeDicts_single]
            | some w =>
              simp only [List.singleton_append]
              apply ih
              · have := size_lt_of_mem hp; simp [Ctx.size] at hs; omega
              · exact wf_of_mem ha.1 hp
              · exact wf_of_mem hb.1 (mem_of_lookup hl)
          · rw [List.filter_map, List.map_map]
            have : (db.filter ((fun x => decide (x ∉ da.map (·.1))) ∘ fun x => x.1)) =
                db.filter (fun p => !(da.any fun q => q.1 == p.1)) := by
              apply List.filter_congr
              intro p _
              simp only [Function.comp]
              rw [Bool.eq_iff_iff]
              simp only [decide_eq_true_eq, List.mem_map, Bool.not_eq_true', List.any_eq_false, beq_iff_eq,
                not_exists, not_and]
            rw [this]
            conv => rhs; rw [← List.map_id (db.filter _)]
            apply List.map_congr_left
            intro p hp
            have hp' := List.mem_filter.mp hp
            have hnot : p.1 ∉ da.map (·.1) := by
              have := hp'.2
              simp at this
              simp
              intro x hx
              exact this _ _ hx rfl
            simp only [Function.comp, id]
            rw [valuesFor_append, valuesFor_not_mem _ _ hnot, valuesFor_nodup _ _ hb.2,
              lookup_of_mem_nodup db hb.2 p hp'.1]
            simp [mergeDicts_single]


theorem mergeDicts_binary (a b : Ctx) (ha : a.WF) (hb : b.WF) : mergeDicts [a, b] = deepMerge a b :=
  binary_aux a.size a b (Nat.le_refl _) ha hb

/-! lookups in a merged mapping -/

theorem lookup_append (k : String) (a b : List (String × Ctx)) :
    (a ++ b).lookup k = match a.lookup k with
                        | some v => some v
                        | none => b.lookup k := by
  induction a with
  | nil => simp
  | cons q t ih =>
    obtain ⟨qk, qv⟩ := q
    by_cases e : k = qk
    · subst e; simp [List.lookup]
    · have e' : (k == qk) = false := by simp [e]
      simp only [List.cons_append, List.lookup, e', ih]

theorem lookup_map_snd (k : String) (a : List (String × Ctx)) (f : String × Ctx → Ctx) :
    (a.map fun p => (p.1, f p)).lookup k = match a.lookup k with
                                           | some v => some (f (k, v))
                                           | none => none := by
  induction a with
  | nil => simp
  | cons q t ih =>
    obtain ⟨qk, qv⟩ := q
    by_cases e : k = qk
    · subst e; simp [List.lookup]
    · have e' : (k == qk) = false := by simp [e]
      simp only [List.map_cons, List.lookup, e', ih]

theorem lookup_filter (k : String) (a : List (String × Ctx)) (P : String → Bool) :
    (a.filter fun p => P p.1).lookup k = if P k then a.lookup k else none := by
  induction a with
  | nil => simp
  | cons q t ih =>
    obtain ⟨qk, qv⟩ := q
    by_cases e : k = qk
    · subst e
      by_cases hp : P k
      · simp [hp, List.lookup]
      · simp only [List.filter_cons, hp, Bool.false_eq_true, if_false]; rw [ih]; simp [hp]
    · have e' : (k == qk) = false := by simp [e]
      by_cases hp : P qk
      · simp only [List.filter_cons, hp, if_true, List.lookup, e', ih]
      · simp only [List.filter_cons, hp, Bool.false_eq_true, if_false, List.lookup, e']; rw [ih]

theorem any_key_eq (da : List (String × Ctx)) (k : String) :
    (da.any fun q => q.1 == k) = decide (k ∈ da.map (·.1)) := by
  rw [Bool.eq_iff_iff]
  simp only [List.any_eq_true, beq_iff_eq, decide_eq_true_eq, List.mem_map]

/-- The merged mapping as a finite map (independent of key order). -/
theorem lookup_deepMerge (da db : List (String × Ctx)) (k : String) :
    (items (deepMerge (.obj da) (.obj db))).lookup k =
      match da.lookup k, db.lookup k with
      | some v, some w => some (deepMerge v w)
      | some v, none => some v
      | none, some w => some w
      | none, none => none := by
  simp only [deepMerge, items, mergeKvs_eq_map]
  rw [lookup_append, lookup_map_snd]
  cases ha : da.lookup k with
  | some v => cases hb : db.lookup k <;> simp [hb]
  | none =>
    have hk : k ∉ da.map (·.1) := (lookup_none_iff k da).mp ha
    have := lookup_filter k db (fun x => !(da.any fun q => q.1 == x))
    simp only [] at this ⊢
    rw [this, any_key_eq]
    simp only [hk, decide_false, Bool.not_false, if_true]
    cases hb : db.lookup k <;> simp

/-! well-formedness is preserved -/

theorem wfKvs_iff (kvs : List (String × Ctx)) : wfKvs kvs ↔ ∀ p ∈ kvs, p.2.WF := by
  induction kvs with
  | nil => simp [wfKvs]
  | cons q t ih => obtain ⟨qk, qv⟩ := q; simp [wfKvs, ih]

theorem wf_aux (n : Nat) : ∀ a b : Ctx, a.size ≤ n → a.WF → b.WF → (deepMerge a b).WF := by
  induction n with
  | zero => intro a b h; cases a <;> simp [Ctx.size] at h
  | succ n ih =>
    intro a b hs ha hb
    cases a with
    | leaf v => simpa [deepMerge] using hb
    | obj da =>
      cases b with
      | leaf w => simp [deepMerge, Ctx.WF]
      | obj db =>
        have ha' := ha; have hb' := hb
        simp only [Ctx.WF] at ha' hb'
        simp only [deepMerge, Ctx.WF, mergeKvs_eq_map]
        constructor
        · rw [wfKvs_iff]
          intro p hp
          rcases List.mem_append.mp hp with h | h
          · obtain ⟨q, hq, e⟩ := List.mem_map.mp h
            subst e
            simp only []
            cases hl : db.lookup q.1 with
            | none => exact wf_of_mem ha'.1 hq
            | some w =>
              apply ih
              · have := size_lt_of_mem hq; simp [Ctx.size] at hs; omega
              · exact wf_of_mem ha'.1 hq
              · exact wf_of_mem hb'.1 (mem_of_lookup hl)
          · exact wf_of_mem hb'.1 (List.mem_filter.mp h).1
        · rw [List.map_append, List.map_map]
          have e1 : ((fun x : String × Ctx => x.1) ∘ fun p : String × Ctx =>
              (p.1, match db.lookup p.1 with | some w => deepMerge p.2 w | none => p.2)) = (·.1) := by
            funext p; rfl
          rw [e1]
          apply List.nodup_append.mpr
          refine ⟨ha'.2, ?_, ?_⟩
          · exact List.Nodup.sublist (List.Sublist.map _ List.filter_sublist) hb'.2
          · intro x hx y hy e
            subst e
            obtain ⟨p, hp, e⟩ := List.mem_map.mp hy
            have hf := (List.mem_filter.mp hp).2
            rw [any_key_eq] at hf
            simp only [Bool.not_eq_true', decide_eq_false_iff_not] at hf
            exact hf (e ▸ hx)

theorem deepMerge_wf (a b : Ctx) (ha : a.WF) (hb : b.WF) : (deepMerge a b).WF :=
  wf_aux a.size a b (Nat.le_refl _) ha hb

/-! ### contexts as functions from paths to values (key order is irrelevant) -/

/-- what a path denotes: `none` = nothing there, `some none` = a mapping, `some (some v)` = the non-mapping `v` -/
def shape : Ctx → Option String
  | .leaf v => some v
  | .obj _ => none

def sem (c : Ctx) (ps : List String) : Option (Option String) := (getPath c ps).map shape

/-- The merged context as a function of paths, computed from the two contexts as functions of paths only. -/
def mergeSem (fa fb : List String → Option (Option String)) : List String → Option (Option String)
  | [] => fb []
  | k :: r =>
    match fa [], fb [] with
    | some none, some none =>
      match fa [k], fb [k] with
      | some _, some _ => mergeSem (fun q => fa (k :: q)) (fun q => fb (k :: q)) r
      | some _, none => fa (k :: r)
      | none, some _ => fb (k :: r)
      | none, none => none
    | _, _ => fb (k :: r)

theorem sem_cons_obj (kvs : List (String × Ctx)) (k : String) (r : List String) :
    sem (.obj kvs) (k :: r) = match kvs.lookup k with
                              | some v => sem v r
                              | none => none := by
  simp only [sem, getPath]
  cases kvs.lookup k <;> rfl

theorem sem_deepMerge (ps : List String) : ∀ a b : Ctx, sem (deepMerge a b) ps = mergeSem (sem a) (sem b) ps := by
  induction ps with
  | nil =>
    intro a b
    cases a <;> cases b <;> simp [sem, getPath, mergeSem, deepMerge, shape]
  | cons k r ih =>
    intro a b
    cases a with
    | leaf v => simp [deepMerge, mergeSem, sem, getPath, shape]
    | obj da =>
      cases b with
      | leaf w => simp [deepMerge, mergeSem, sem, getPath, shape]
      | obj db =>
        have hl := lookup_deepMerge da db k
        simp only [items] at hl
        have hroot : ∀ kvs : List (String × Ctx), sem (.obj kvs) [] = some none := fun _ => rfl
        have hk : ∀ kvs : List (String × Ctx), sem (.obj kvs) [k] = (kvs.lookup k).map shape := by
          intro kvs; rw [sem_cons_obj]; cases kvs.lookup k <;> rfl
        cases hdm : deepMerge (.obj da) (.obj db) with
        | leaf x => simp [deepMerge] at hdm
        | obj m =>
          rw [hdm] at hl
          rw [sem_cons_obj, hl]
          simp only [mergeSem, hroot, hk]
          cases ha : da.lookup k with
          | none =>
            cases hb : db.lookup k with
            | none => simp
            | some w => simp [sem_cons_obj, hb]
          | some v =>
            cases hb : db.lookup k with
            | none => simp [sem_cons_obj, ha]
            | some w =>
              simp only [Option.map_some]
              rw [ih v w]
              congr 1
              · funext q; rw [sem_cons_obj, ha]
              · funext q; rw [sem_cons_obj, hb]

theorem mergeSem_congr (ps : List String) : ∀ fa fa' fb fb' : List String → Option (Option String),
    (∀ q, fa q = fa' q) → (∀ q, fb q = fb' q) → mergeSem fa fb ps = mergeSem fa' fb' ps := by
  intro fa fa' fb fb' ha hb
  have e1 : fa = fa' := funext ha
  have e2 : fb = fb' := funext hb
  rw [e1, e2]

/-- Two contexts that denote the same value at every path -/
def ExtEq (a b : Ctx) : Prop := ∀ ps, sem a ps = sem b ps

theorem deepMerge_extEq (a a' b b' : Ctx) (ha : ExtEq a a') (hb : ExtEq b b') :
    ExtEq (deepMerge a b) (deepMerge a' b') := by
  intro ps
  rw [sem_deepMerge, sem_deepMerge]
  exact mergeSem_congr ps _ _ _ _ ha hb


theorem lookup_perm (kvs kvs' : List (String × Ctx)) (hn : (kvs.map (·.1)).Nodup) (hp : kvs.Perm kvs') (k : String) :
    kvs.lookup k = kvs'.lookup k := by
  have hn' : (kvs'.map (·.1)).Nodup := (hp.map (·.1)).nodup_iff.mp hn
  cases h : kvs.lookup k with
  | some v =>
    have := lookup_of_mem_nodup kvs' hn' (k, v) (hp.mem_iff.mp (mem_of_lookup h))
    exact this.symm
  | none =>
    have hk : k ∉ kvs'.map (·.1) := fun hm => (lookup_none_iff k kvs).mp h ((hp.map (·.1)).mem_iff.mpr hm)
    exact ((lookup_none_iff k kvs').mpr hk).symm

/-- Reordering the keys of a mapping does not change what any path denotes. -/
theorem extEq_of_perm (kvs kvs' : List (String × Ctx)) (hn : (kvs.map (·.1)).Nodup) (hp : kvs.Perm kvs') :
    ExtEq (.obj kvs) (.obj kvs') := by
  intro ps
  cases ps with
  | nil => rfl
  | cons k r => rw [sem_cons_obj, sem_cons_obj, lookup_perm kvs kvs' hn hp k]


theorem getPath_append (c : Ctx) (ps qs : List String) :
    getPath c (ps ++ qs) = match getPath c ps with
                           | some x => getPath x qs
                           | none => none := by
  induction ps generalizing c with
  | nil => simp [getPath]
  | cons p ps ih =>
    cases c with
    | leaf v => simp [getPath]
    | obj kvs =>
      simp only [List.cons_append, getPath]
      cases kvs.lookup p with
      | none => rfl
      | some v => exact ih v

/-- Contexts that agree on every path give `get_context_value` results that agree on every path
(equal non-mappings, or mappings that again agree everywhere), and the default in the same cases. -/
theorem extEq_getPath (a b : Ctx) (h : ExtEq a b) (ps : List String) :
    match getPath a ps, getPath b ps with
    | some x, some y => ExtEq x y
    | none, none => True
    | _, _ => False := by
  have h0 := h ps
  simp only [sem] at h0
  cases ha : getPath a ps with
  | none =>
    cases hb : getPath b ps with
    | none => trivial
    | some y => simp [ha, hb] at h0
  | some x =>
    cases hb : getPath b ps with
    | none => simp [ha, hb] at h0
    | some y =>
      intro qs
      have := h (ps ++ qs)
      simp only [sem, getPath_append, ha, hb] at this
      exact this

end RedunModel.Context
