/-
Event uniqueness and twin bookkeeping of `SchedCore` for real (and dry) runs (C06, second clause):
every job has at most one "token" (a queued event, a place in the waiting list, or being in flight), a
settled job has none, `Promise.all` never under-counts, and a collapsed duplicate settles exactly as the job
it was collapsed onto.  Main results: `reachable_tok`, `settled_stable`, `reachable_cseW`.
-/
import RedunModel.Lemmas.SchedDry
namespace RedunModel.SchedCore

/-! ## part 1: tokens -/

/-- number of tokens of job `j`: queued events, waiting-list entries, being in flight -/
def tot (s : S) (j : JobId) : Nat :=
  tk s j + s.pendingLimits.count j + (if s.inflight j then 1 else 0)

theorem countP_map_exec (l : List JobId) (j : JobId) :
    (l.map Ev.exec).countP (fun e => evJob e == j) = l.count j := by
  induction l with
  | nil => rfl
  | cons a l ih =>
    rw [List.map_cons, List.countP_cons, List.count_cons, ih]; rfl

theorem tot_checkPending (p : Prog) (s : S) (j : JobId) : tot (checkPending p s) j = tot s j := by
  unfold tot tk
  rw [checkPending_queue, checkPending_pend, checkPending_inflight, List.countP_append, countP_map_exec]
  have := scan_count p s.specOf s.used s.pendingLimits [] (fun _ => 0) j
  omega

theorem count_exec_le_tk (s : S) (j : JobId) : s.queue.count (Ev.exec j) ≤ tk s j := by
  unfold tk
  rw [List.count_eq_countP]
  apply List.countP_mono_left
  intro e _ he
  simp only [beq_iff_eq] at he
  subst he; simp [evJob]

theorem EW_le_tot (s : S) (j : JobId) : EW s j ≤ tot s j := by
  unfold EW tot
  have := count_exec_le_tk s j
  omega

theorem tk_le_tot (s : S) (j : JobId) : tk s j ≤ tot s j := by unfold tot; omega

theorem tot_pos_of_mem {s : S} {e : Ev} (h : e ∈ s.queue) : 1 ≤ tot s (evJob e) :=
  Nat.le_trans (tk_pos_of_mem h) (tk_le_tot s _)

theorem not_mem_of_tot_zero {s : S} {e : Ev} {j : JobId} (h : tot s j = 0) (he : evJob e = j) : e ∉ s.queue :=
  not_mem_of_tk_zero (Nat.le_zero.mp (h ▸ tk_le_tot s j)) he

theorem infl_false_of_tot_zero {s : S} {j : JobId} (h : tot s j = 0) : s.inflight j = false := by
  unfold tot at h
  by_cases hi : s.inflight j = true
  · simp [hi] at h
  · simpa using hi

theorem EW_zero_of_tot_zero {s : S} {j : JobId} (h : tot s j = 0) : EW s j = 0 :=
  Nat.le_zero.mp (h ▸ EW_le_tot s j)

/-! ## the invariant -/

/-- `x` exempts one job from the `Promise.all` lower bound (its children are being spawned); `y` is the job
being rejected, whose twins are still being rejected in-line. -/
structure Tok (s : S) (x y : Option JobId) : Prop where
  tok : ∀ j, tot s j ≤ 1 ∧ (¬ pend s j → tot s j = 0) ∧ (s.next ≤ j → tot s j = 0 ∧ pend s j)
  par : ∀ j c, c < s.next → (s.jobs c).parent = some j → pend s c → (s.jobs j).evalFailed = false →
    tot s j = 0 ∧ pend s j
  pre : ∀ j, (1 ≤ EW s j ∨ s.inflight j = true ∨ ∃ f, Ev.done j f ∈ s.queue) → noKids s j
  pre2 : ∀ j, 1 ≤ EW s j → (s.jobs j).twins = []
  rej : ∀ j c, c < s.next → (s.jobs c).parent = some j → (s.jobs c).status = Status.rejected →
    (s.jobs j).evalFailed = true
  lb : ∀ j, some j ≠ x → (s.jobs j).evalFailed = false → cntPend s j ≤ (s.jobs j).waiting
  parlt : ∀ c par, c < s.next → (s.jobs c).parent = some par → par < c
  tw : ∀ X t, t ∈ (s.jobs X).twins →
    (pend s X → pend s t ∧ tot s t = 0) ∧
    ((s.jobs X).status = Status.resolved → (s.jobs t).status ≠ Status.rejected) ∧
    (some X ≠ y → (s.jobs X).status = Status.rejected → (s.jobs t).status = Status.rejected) ∧
    Ev.reject t ∉ s.queue ∧ Ev.done t false ∉ s.queue ∧ noKids s t ∧ ¬ Tw s X ∧
    (∀ Y, t ∈ (s.jobs Y).twins → Y = X) ∧ t < s.next
  nodup : ∀ X, (s.jobs X).twins.Nodup

/-- frame: tokens, non-exec events and the job fields are unchanged -/
structure Ft (s s' : S) : Prop where
  next : s'.next = s.next
  infl : s'.inflight = s.inflight
  st : ∀ i, (s'.jobs i).status = (s.jobs i).status
  ef : ∀ i, (s'.jobs i).evalFailed = (s.jobs i).evalFailed
  par : ∀ i, (s'.jobs i).parent = (s.jobs i).parent
  tw : ∀ i, (s'.jobs i).twins = (s.jobs i).twins
  ew : ∀ j, EW s' j = EW s j
  tt : ∀ j, tot s' j = tot s j
  qm : ∀ e, (∀ k, e ≠ Ev.exec k) → (e ∈ s'.queue ↔ e ∈ s.queue)

theorem Ft.refl (s : S) : Ft s s :=
  ⟨rfl, rfl, fun _ => rfl, fun _ => rfl, fun _ => rfl, fun _ => rfl, fun _ => rfl, fun _ => rfl, fun _ _ => Iff.rfl⟩

theorem Ft.trans {a b c : S} (h1 : Ft a b) (h2 : Ft b c) : Ft a c :=
  ⟨h2.next.trans h1.next, h2.infl.trans h1.infl, fun i => (h2.st i).trans (h1.st i),
    fun i => (h2.ef i).trans (h1.ef i), fun i => (h2.par i).trans (h1.par i), fun i => (h2.tw i).trans (h1.tw i),
    fun j => (h2.ew j).trans (h1.ew j), fun j => (h2.tt j).trans (h1.tt j),
    fun e he => (h2.qm e he).trans (h1.qm e he)⟩

theorem Ft.pendIff {s s' : S} (h : Ft s s') (j : JobId) : pend s' j ↔ pend s j := by unfold pend; rw [h.st]
theorem Ft.twIff {s s' : S} (h : Ft s s') (j : JobId) : Tw s' j ↔ Tw s j := by unfold Tw; simp only [h.tw]
theorem Ft.noKidsIff {s s' : S} (h : Ft s s') (j : JobId) : noKids s' j ↔ noKids s j := by
  unfold noKids; rw [h.next]; simp only [h.par]

/-- frame step with a new `waiting` field and possibly other exemptions -/
theorem Ft.tokW {s s' : S} {x x' y : Option JobId} (h : Ft s s') (ht : Tok s x y)
    (hlb : ∀ j, some j ≠ x' → (s.jobs j).evalFailed = false → cntPend s j ≤ (s'.jobs j).waiting) : Tok s' x' y := by
  refine ⟨?_, ?_, ?_, ?_, ?_, ?_, ?_, ?_, ?_⟩
  · intro j; rw [h.tt, h.pendIff, h.next]; exact ht.tok j
  · intro j c hc hp hpc he
    rw [h.next] at hc; rw [h.par] at hp; rw [h.pendIff] at hpc; rw [h.ef] at he
    rw [h.tt, h.pendIff]; exact ht.par j c hc hp hpc he
  · intro j hq
    rw [h.noKidsIff]; apply ht.pre j
    rcases hq with a | a | ⟨f, a⟩
    · exact Or.inl (by rw [← h.ew]; exact a)
    · exact Or.inr (Or.inl (by rw [← h.infl]; exact a))
    · exact Or.inr (Or.inr ⟨f, (h.qm _ (by intro k; simp)).mp a⟩)
  · intro j hj; rw [h.ew] at hj; rw [h.tw]; exact ht.pre2 j hj
  · intro j c hc hp hs
    rw [h.next] at hc; rw [h.par] at hp; rw [h.st] at hs
    rw [h.ef]; exact ht.rej j c hc hp hs
  · intro j hx he
    rw [h.ef] at he
    rw [cntPend_congr h.next h.par h.st]; exact hlb j hx he
  · intro c par hc hp
    rw [h.next] at hc; rw [h.par] at hp; exact ht.parlt c par hc hp
  · intro X t hm
    rw [h.tw] at hm
    obtain ⟨a, b, c, d, e, f, g, i, k⟩ := ht.tw X t hm
    refine ⟨?_, ?_, ?_, ?_, ?_, (h.noKidsIff t).mpr f, fun hT => g ((h.twIff X).mp hT), ?_, by rw [h.next]; exact k⟩
    · intro hp; rw [h.pendIff] at hp; rw [h.pendIff, h.tt]; exact a hp
    · rw [h.st, h.st]; exact b
    · rw [h.st, h.st]; exact c
    · intro hq; exact d ((h.qm _ (by intro k; simp)).mp hq)
    · intro hq; exact e ((h.qm _ (by intro k; simp)).mp hq)
    · intro Y hY; rw [h.tw] at hY; exact i Y hY
  · intro X; rw [h.tw]; exact ht.nodup X

theorem Ft.tok {s s' : S} {x y : Option JobId} (h : Ft s s') (hw : ∀ i, (s'.jobs i).waiting = (s.jobs i).waiting)
    (ht : Tok s x y) : Tok s' x y :=
  h.tokW ht (fun j hx he => by rw [hw]; exact ht.lb j hx he)


/-! ## part 2: primitives that are frames -/

structure FtW (s s' : S) : Prop where
  ft : Ft s s'
  wt : ∀ i, (s'.jobs i).waiting = (s.jobs i).waiting

theorem FtW.refl (s : S) : FtW s s := ⟨Ft.refl s, fun _ => rfl⟩
theorem FtW.trans {a b c : S} (h1 : FtW a b) (h2 : FtW b c) : FtW a c :=
  ⟨h1.ft.trans h2.ft, fun i => (h2.wt i).trans (h1.wt i)⟩
theorem FtW.tok {s s' : S} {x y : Option JobId} (h : FtW s s') (ht : Tok s x y) : Tok s' x y := h.ft.tok h.wt ht

theorem ftw_of_eq {s s' : S} (h1 : s'.next = s.next) (h3 : s'.inflight = s.inflight) (h6 : s'.jobs = s.jobs)
    (h7 : s'.queue = s.queue) (h8 : s'.pendingLimits = s.pendingLimits) : FtW s s' :=
  ⟨⟨h1, h3, fun _ => by rw [h6], fun _ => by rw [h6], fun _ => by rw [h6], fun _ => by rw [h6],
    fun _ => by unfold EW; rw [h7, h8], fun _ => by unfold tot tk; rw [h7, h8, h3], fun _ _ => by rw [h7]⟩,
    fun _ => by rw [h6]⟩

theorem ftw_cached (s : S) (j : JobId) : FtW s (setJob s j fun js => { js with wasCached := true }) := by
  refine ⟨⟨rfl, rfl, ?_, ?_, ?_, ?_, fun _ => rfl, fun _ => rfl, fun _ _ => Iff.rfl⟩, ?_⟩ <;>
  · intro i; simp only [setJob]; split <;> rfl

theorem ftw_checkPending (p : Prog) (s : S) : FtW s (checkPending p s) :=
  ⟨⟨rfl, rfl, fun _ => rfl, fun _ => rfl, fun _ => rfl, fun _ => rfl, fun j => checkPending_EW p s j,
    fun j => tot_checkPending p s j,
    fun e he => by rw [checkPending_queue]; exact mem_append_exec_iff _ _ e he⟩, fun _ => rfl⟩

theorem ftw_consume (p : Prog) (s : S) (j : JobId) : FtW s (consume p s j) := ftw_of_eq rfl rfl rfl rfl rfl
theorem ftw_release (p : Prog) (s : S) (j : JobId) : FtW s (release p s j) := ftw_of_eq rfl rfl rfl rfl rfl

theorem ftw_releaseIf (p : Prog) (s : S) (j : JobId) : FtW s (releaseIf p s j) := by
  unfold releaseIf; split
  · exact (ftw_release p s j).trans (ftw_checkPending p _)
  · exact FtW.refl s

theorem ftw_record (p : Prog) (s : S) (j : JobId) (b : Bool) : FtW s (record p s j b) := by
  unfold record; dsimp only; split
  · exact ftw_of_eq rfl rfl rfl rfl rfl
  · exact FtW.refl s

theorem ftw_finalize (p : Prog) (s : S) (j : JobId) : FtW s (finalize p s j) := by
  unfold finalize; dsimp only; split
  · exact ftw_of_eq rfl rfl rfl rfl rfl
  · exact FtW.refl s


/-! ## part 3: queue primitives -/

theorem tot_tl (s : S) (e : Ev) (rest : List Ev) (hq : s.queue = e :: rest) (j : JobId) :
    tot s j = tot (tl s) j + (if evJob e = j then 1 else 0) := by
  have := tk_tl s e rest hq j
  unfold tot
  show tk s j + s.pendingLimits.count j + (if s.inflight j = true then 1 else 0) =
    tk (tl s) j + s.pendingLimits.count j + (if s.inflight j = true then 1 else 0) + _
  omega

theorem tok_tl {s : S} {x y : Option JobId} (e : Ev) (rest : List Ev) (hq : s.queue = e :: rest) (ht : Tok s x y) :
    Tok (tl s) x y := by
  have hle : ∀ j, tot (tl s) j ≤ tot s j := by intro j; rw [tot_tl s e rest hq j]; omega
  have hz : ∀ j, tot s j = 0 → tot (tl s) j = 0 := fun j h => Nat.le_zero.mp (h ▸ hle j)
  have hmem : ∀ e', e' ∈ (tl s).queue → e' ∈ s.queue := fun e' h => List.mem_of_mem_tail h
  refine ⟨?_, ?_, ?_, ?_, ht.rej, ht.lb, ht.parlt, ?_, ht.nodup⟩
  · intro j
    obtain ⟨a, b, c⟩ := ht.tok j
    exact ⟨Nat.le_trans (hle j) a, fun h => hz j (b h), fun h => ⟨hz j (c h).1, (c h).2⟩⟩
  · intro j c hc hp hpc he
    obtain ⟨a, b⟩ := ht.par j c hc hp hpc he
    exact ⟨hz j a, b⟩
  · intro j hq'
    apply ht.pre j
    rcases hq' with a | a | ⟨f, a⟩
    · exact Or.inl (Nat.le_trans a (tl_EW_le s j))
    · exact Or.inr (Or.inl a)
    · exact Or.inr (Or.inr ⟨f, hmem _ a⟩)
  · intro j hj; exact ht.pre2 j (Nat.le_trans hj (tl_EW_le s j))
  · intro X t hm
    obtain ⟨a, b, c, d, e', f, g, i, k⟩ := ht.tw X t hm
    exact ⟨fun hp => ⟨(a hp).1, hz t (a hp).2⟩, b, c, fun h => d (hmem _ h), fun h => e' (hmem _ h), f, g, i, k⟩

theorem tot_enqueue (s : S) (e : Ev) (j : JobId) :
    tot (enqueue s e) j = tot s j + (if evJob e = j then 1 else 0) := by
  have := tk_enqueue s e j
  unfold tot
  show tk (enqueue s e) j + s.pendingLimits.count j + (if s.inflight j = true then 1 else 0) = _
  omega

/-- queueing a post-exec event of a pending job that has no token -/
theorem tok_enqueue {s : S} {x y : Option JobId} (e : Ev) (j : JobId) (ht : Tok s x y) (hej : evJob e = j)
    (hne : ∀ k, e ≠ Ev.exec k) (htot : tot s j = 0) (hp : pend s j) (hlt : j < s.next)
    (hpar : ∀ c, c < s.next → (s.jobs c).parent = some j → pend s c → (s.jobs j).evalFailed = true)
    (hpre : (∃ f, e = Ev.done j f) → noKids s j)
    (htwin : ∀ X, j ∈ (s.jobs X).twins → ¬ pend s X ∧ e ≠ Ev.reject j ∧ e ≠ Ev.done j false) :
    Tok (enqueue s e) x y := by
  have htot' := tot_enqueue s e
  rw [hej] at htot'
  have hEW : ∀ i, EW (enqueue s e) i = EW s i := (fr_enqueue s e hne).ew
  have hmem : ∀ e', e' ∈ (enqueue s e).queue → e' ∈ s.queue ∨ e' = e := by
    intro e' h
    rcases List.mem_append.mp h with a | a
    · exact Or.inl a
    · exact Or.inr (List.mem_singleton.mp a)
  refine ⟨?_, ?_, ?_, ?_, ht.rej, ht.lb, ht.parlt, ?_, ht.nodup⟩
  · intro i
    obtain ⟨a, b, c⟩ := ht.tok i
    rw [htot']
    by_cases hij : j = i
    · subst hij
      simp only [if_true]
      exact ⟨by omega, fun h => absurd hp h, fun h => absurd hlt (Nat.not_lt.mpr h)⟩
    · simp only [hij, if_false, Nat.add_zero]
      exact ⟨a, b, c⟩
  · intro i c hc hpc hpp he
    rw [htot']
    by_cases hij : j = i
    · subst hij
      have := hpar c hc hpc hpp
      have he' : (s.jobs j).evalFailed = false := he
      rw [this] at he'; simp at he'
    · simp only [hij, if_false, Nat.add_zero]
      exact ht.par i c hc hpc hpp he
  · intro i hq
    rcases hq with a | a | ⟨f, a⟩
    · exact ht.pre i (Or.inl (by rw [← hEW]; exact a))
    · exact ht.pre i (Or.inr (Or.inl a))
    · rcases hmem _ a with b | b
      · exact ht.pre i (Or.inr (Or.inr ⟨f, b⟩))
      · have : i = j := by rw [← hej, ← b]; rfl
        subst this
        exact hpre ⟨f, b.symm⟩
  · intro i hi; rw [hEW] at hi; exact ht.pre2 i hi
  · intro X t hm
    obtain ⟨a, b, c, d, e', f, g, i, k⟩ := ht.tw X t hm
    refine ⟨?_, b, c, ?_, ?_, f, g, i, k⟩
    · intro hpX
      refine ⟨(a hpX).1, ?_⟩
      rw [htot']
      by_cases hjt : j = t
      · subst hjt; exact absurd hpX (htwin X hm).1
      · simp only [hjt, if_false, Nat.add_zero]; exact (a hpX).2
    · intro hq
      rcases hmem _ hq with h1 | h1
      · exact d h1
      · have : t = j := by rw [← hej, ← h1]; rfl
        subst this
        exact (htwin X hm).2.1 h1.symm
    · intro hq
      rcases hmem _ hq with h1 | h1
      · exact e' h1
      · have : t = j := by rw [← hej, ← h1]; rfl
        subst this
        exact (htwin X hm).2.2 h1.symm


/-! ## part 4: the non-queue tokens and `Job.collapse` -/

/-- a pre-exec job `j` without token gets one outside the event queue (waiting list / in flight) -/
theorem tok_gain {s s' : S} {x y : Option JobId} (j : JobId) (ht : Tok s x y) (hjobs : s'.jobs = s.jobs)
    (hq : s'.queue = s.queue) (hn : s'.next = s.next)
    (htot' : ∀ i, tot s' i = tot s i + (if i = j then 1 else 0))
    (hEW : ∀ i, i ≠ j → EW s' i = EW s i) (hinfl : ∀ i, i ≠ j → s'.inflight i = s.inflight i)
    (htot : tot s j = 0) (hp : pend s j) (hlt : j < s.next) (hnk : noKids s j) (htw : (s.jobs j).twins = [])
    (hnt : ¬ Tw s j) : Tok s' x y := by
  have hpend : ∀ i, pend s' i ↔ pend s i := by intro i; unfold pend; rw [hjobs]
  have hnoKids : ∀ i, noKids s' i ↔ noKids s i := by intro i; unfold noKids; rw [hn, hjobs]
  have hTw : ∀ i, Tw s' i ↔ Tw s i := by intro i; unfold Tw; rw [hjobs]
  refine ⟨?_, ?_, ?_, ?_, ?_, ?_, ?_, ?_, ?_⟩
  · intro i
    obtain ⟨a, b, c⟩ := ht.tok i
    rw [htot', hpend, hn]
    by_cases hij : i = j
    · subst hij
      simp only [if_true]
      exact ⟨by omega, fun h => absurd hp h, fun h => absurd hlt (Nat.not_lt.mpr h)⟩
    · simp only [hij, if_false, Nat.add_zero]; exact ⟨a, b, c⟩
  · intro i c hc hpc hpp he
    rw [hn] at hc; rw [hjobs] at hpc he; rw [hpend] at hpp
    rw [htot', hpend]
    by_cases hij : i = j
    · subst hij; exact absurd hpc (hnk c hc)
    · simp only [hij, if_false, Nat.add_zero]; exact ht.par i c hc hpc hpp he
  · intro i hpre
    rw [hnoKids]
    by_cases hij : i = j
    · subst hij; exact hnk
    · apply ht.pre i
      rcases hpre with a | a | ⟨f, a⟩
      · exact Or.inl (by rw [← hEW i hij]; exact a)
      · exact Or.inr (Or.inl (by rw [← hinfl i hij]; exact a))
      · exact Or.inr (Or.inr ⟨f, by rw [← hq]; exact a⟩)
  · intro i hi
    rw [hjobs]
    by_cases hij : i = j
    · subst hij; exact htw
    · rw [hEW i hij] at hi; exact ht.pre2 i hi
  · intro i c hc hpc hs
    rw [hn] at hc; rw [hjobs] at hpc hs ⊢; exact ht.rej i c hc hpc hs
  · intro i hx he
    rw [hjobs] at he
    have : cntPend s' i = cntPend s i := cntPend_congr hn (fun c => by rw [hjobs]) (fun c => by rw [hjobs]) i
    rw [this, hjobs]; exact ht.lb i hx he
  · intro c par hc hp'
    rw [hn] at hc; rw [hjobs] at hp'; exact ht.parlt c par hc hp'
  · intro X t hm
    rw [hjobs] at hm
    obtain ⟨a, b, c, d, e', f, g, i, k⟩ := ht.tw X t hm
    have htj : t ≠ j := fun e => hnt (e ▸ ⟨X, hm⟩)
    refine ⟨?_, by rw [hjobs]; exact b, by rw [hjobs]; exact c, by rw [hq]; exact d, by rw [hq]; exact e',
      (hnoKids t).mpr f, fun h => g ((hTw X).mp h), by rw [hjobs]; exact i, by rw [hn]; exact k⟩
    intro hpX
    rw [hpend] at hpX
    rw [hpend, htot']
    simp only [htj, if_false, Nat.add_zero]; exact a hpX
  · intro X; rw [hjobs]; exact ht.nodup X

theorem tot_pendAppend (s : S) (j i : JobId) :
    tot { s with pendingLimits := s.pendingLimits ++ [j] } i = tot s i + (if i = j then 1 else 0) := by
  unfold tot tk
  simp only [List.count_append, List.count_cons, List.count_nil]
  by_cases e : i = j
  · subst e; simp; omega
  · have : ¬ (j == i) = true := by simpa using fun e' => e e'.symm
    simp [e, this]

theorem tok_pendAppend {s : S} {x y : Option JobId} (j : JobId) (ht : Tok s x y) (htot : tot s j = 0)
    (hp : pend s j) (hlt : j < s.next) (hnk : noKids s j) (htw : (s.jobs j).twins = []) (hnt : ¬ Tw s j) :
    Tok { s with pendingLimits := s.pendingLimits ++ [j] } x y :=
  tok_gain j ht rfl rfl rfl (tot_pendAppend s j)
    (fun i hi => by rw [EW_pendAppend]; simp [hi]) (fun _ _ => rfl) htot hp hlt hnk htw hnt

theorem tok_setInfl {s : S} {x y : Option JobId} (j : JobId) (sub : List JobId) (ht : Tok s x y)
    (htot : tot s j = 0) (hp : pend s j) (hlt : j < s.next) (hnk : noKids s j) (htw : (s.jobs j).twins = [])
    (hnt : ¬ Tw s j) :
    Tok { s with inflight := fun i => if i = j then true else s.inflight i, submits := sub } x y := by
  have hi := infl_false_of_tot_zero htot
  refine tok_gain j ht rfl rfl rfl ?_ (fun _ _ => rfl) (fun i hij => by simp [hij]) htot hp hlt hnk htw hnt
  intro i
  unfold tot tk
  by_cases e : i = j
  · subst e; simp [hi]
  · simp [e]

/-- the executor reports: the in-flight token disappears (the completion event follows) -/
theorem tok_clearInfl {s : S} {x y : Option JobId} (j : JobId) (ht : Tok s x y) :
    Tok { s with inflight := fun i => if i = j then false else s.inflight i } x y := by
  have hle : ∀ i, tot { s with inflight := fun i => if i = j then false else s.inflight i } i ≤ tot s i := by
    intro i; unfold tot tk
    by_cases e : i = j
    · subst e; simp
    · simp [e]
  have hz : ∀ i, tot s i = 0 → tot { s with inflight := fun i => if i = j then false else s.inflight i } i = 0 :=
    fun i h => Nat.le_zero.mp (h ▸ hle i)
  refine ⟨?_, ?_, ?_, ht.pre2, ht.rej, ht.lb, ht.parlt, ?_, ht.nodup⟩
  · intro i
    obtain ⟨a, b, c⟩ := ht.tok i
    exact ⟨Nat.le_trans (hle i) a, fun h => hz i (b h), fun h => ⟨hz i (c h).1, (c h).2⟩⟩
  · intro i c hc hp hpc he
    obtain ⟨a, b⟩ := ht.par i c hc hp hpc he
    exact ⟨hz i a, b⟩
  · intro i hq
    apply ht.pre i
    rcases hq with a | a | a
    · exact Or.inl a
    · refine Or.inr (Or.inl ?_)
      have a' : (if i = j then false else s.inflight i) = true := a
      by_cases e : i = j
      · simp [e] at a'
      · simpa [e] using a'
    · exact Or.inr (Or.inr a)
  · intro X t hm
    obtain ⟨a, b, c, d, e', f, g, i, k⟩ := ht.tw X t hm
    exact ⟨fun hp => ⟨(a hp).1, hz t (a hp).2⟩, b, c, d, e', f, g, i, k⟩


/-- `Job.collapse`: the pre-exec job `j` (no token left) joins the twins of the pending, non-collapsed `t0` -/
theorem tok_addTwin {s : S} {x y : Option JobId} {j t0 : JobId} (ht : Tok s x y) (htot : tot s j = 0)
    (hp : pend s j) (hlt : j < s.next) (hnk : noKids s j) (htwj : (s.jobs j).twins = []) (hnt : ¬ Tw s j)
    (hpt : pend s t0) (hnt0 : ¬ Tw s t0) (hne : t0 ≠ j) (hew0 : EW s t0 = 0) :
    Tok (setJob s t0 fun js => { js with twins := js.twins ++ [j] }) x y := by
  generalize hs' : (setJob s t0 fun js => { js with twins := js.twins ++ [j] }) = s'
  have hst : ∀ i, (s'.jobs i).status = (s.jobs i).status := by
    intro i; rw [← hs']; simp only [setJob]; split <;> rfl
  have hwt : ∀ i, (s'.jobs i).waiting = (s.jobs i).waiting := by
    intro i; rw [← hs']; simp only [setJob]; split <;> rfl
  have hef : ∀ i, (s'.jobs i).evalFailed = (s.jobs i).evalFailed := by
    intro i; rw [← hs']; simp only [setJob]; split <;> rfl
  have hpar : ∀ i, (s'.jobs i).parent = (s.jobs i).parent := by
    intro i; rw [← hs']; simp only [setJob]; split <;> rfl
  have htwins : ∀ i, (s'.jobs i).twins = if i = t0 then (s.jobs i).twins ++ [j] else (s.jobs i).twins := by
    intro i; rw [← hs']; simp only [setJob]; split <;> rfl
  have hinv : ∀ i u, u ∈ (s'.jobs i).twins → u ∈ (s.jobs i).twins ∨ (u = j ∧ i = t0) := by
    intro i u hu; rw [htwins] at hu; split at hu
    · rename_i e
      rcases List.mem_append.mp hu with a | a
      · exact Or.inl a
      · simp at a; exact Or.inr ⟨a, e⟩
    · exact Or.inl hu
  have hTw : ∀ u, Tw s' u → Tw s u ∨ u = j := by
    rintro u ⟨X, hX⟩
    rcases hinv X u hX with a | a
    · exact Or.inl ⟨X, a⟩
    · exact Or.inr a.1
  have hrest : s'.next = s.next ∧ s'.inflight = s.inflight ∧ s'.queue = s.queue ∧
      s'.pendingLimits = s.pendingLimits := by
    rw [← hs']; exact ⟨rfl, rfl, rfl, rfl⟩
  obtain ⟨f1, f3, f6, f7⟩ := hrest
  have hEW : ∀ i, EW s' i = EW s i := by intro i; unfold EW; rw [f6, f7]
  have htt : ∀ i, tot s' i = tot s i := by intro i; unfold tot tk; rw [f6, f7, f3]
  have hpend : ∀ i, pend s' i ↔ pend s i := by intro i; unfold pend; rw [hst]
  have hnoKids : ∀ i, noKids s' i ↔ noKids s i := by intro i; unfold noKids; rw [f1]; simp only [hpar]
  have hj0 : ∀ e, evJob e = j → e ∉ s.queue := fun e he => not_mem_of_tot_zero htot he
  refine ⟨?_, ?_, ?_, ?_, ?_, ?_, ?_, ?_, ?_⟩
  · intro i; rw [htt, hpend, f1]; exact ht.tok i
  · intro i c hc hpc hpp he
    rw [f1] at hc; rw [hpar] at hpc; rw [hpend] at hpp; rw [hef] at he
    rw [htt, hpend]; exact ht.par i c hc hpc hpp he
  · intro i hq
    rw [hnoKids]; apply ht.pre i
    rw [hEW, f3, f6] at hq; exact hq
  · intro i hi
    rw [hEW] at hi
    rw [htwins]; split
    · rename_i e; subst e; omega
    · exact ht.pre2 i hi
  · intro i c hc hpc hs
    rw [f1] at hc; rw [hpar] at hpc; rw [hst] at hs
    rw [hef]; exact ht.rej i c hc hpc hs
  · intro i hx he
    rw [hef] at he
    rw [hwt, cntPend_congr f1 hpar hst]; exact ht.lb i hx he
  · intro c par hc hpc
    rw [f1] at hc; rw [hpar] at hpc; exact ht.parlt c par hc hpc
  · intro X t hm
    rcases hinv X t hm with hold | ⟨e1, e2⟩
    · obtain ⟨a, b, c, d, e', f, g, i, k⟩ := ht.tw X t hold
      refine ⟨?_, by rw [hst, hst]; exact b, by rw [hst, hst]; exact c, by rw [f6]; exact d, by rw [f6]; exact e',
        (hnoKids t).mpr f, ?_, ?_, by rw [f1]; exact k⟩
      · intro hpX; rw [hpend] at hpX; rw [hpend, htt]; exact a hpX
      · intro h
        rcases hTw X h with c' | c'
        · exact g c'
        · subst c'; rw [htwj] at hold; simp at hold
      · intro Y hY
        rcases hinv Y t hY with h1 | ⟨h1, _⟩
        · exact i Y h1
        · subst h1; exact absurd ⟨X, hold⟩ hnt
    · subst e1; subst e2
      refine ⟨fun _ => ⟨(hpend t).mpr hp, by rw [htt]; exact htot⟩, ?_, ?_, ?_, ?_, (hnoKids t).mpr hnk, ?_, ?_,
        by rw [f1]; exact hlt⟩
      · intro h; rw [hst] at h; unfold pend at hpt; rw [hpt] at h; simp at h
      · intro _ h; rw [hst] at h; unfold pend at hpt; rw [hpt] at h; simp at h
      · rw [f6]; exact hj0 _ rfl
      · rw [f6]; exact hj0 _ rfl
      · intro h
        rcases hTw X h with c' | c'
        · exact hnt0 c'
        · exact hne c'
      · intro Y hY
        rcases hinv Y t hY with h1 | ⟨_, h1⟩
        · exact absurd ⟨Y, h1⟩ hnt
        · exact h1
  · intro X
    rw [htwins]; split
    · rename_i e; subst e
      rw [List.nodup_append]
      refine ⟨ht.nodup X, by simp, ?_⟩
      intro a ha b hb
      simp at hb; subst hb
      intro e; subst e; exact hnt ⟨X, ha⟩
    · exact ht.nodup X


/-! ## part 6: spawning the children -/

theorem tot_spawnOne (s : S) (j : JobId) (c : SpecId) (i : JobId) :
    tot (spawnOne s j c) i = tot s i + (if s.next = i then 1 else 0) := by
  have := tk_spawnOne s j c i
  unfold tot
  show tk (spawnOne s j c) i + s.pendingLimits.count i + (if s.inflight i = true then 1 else 0) = _
  omega

theorem tok_spawnOne {s : S} {y : Option JobId} {j : JobId} {c : SpecId} (ht : Tok s (some j) y)
    (htot : tot s j = 0) (hp : pend s j) (hlt : j < s.next) (hnt : ¬ Tw s j) :
    Tok (spawnOne s j c) (some j) y := by
  have hjn : j ≠ s.next := Nat.ne_of_lt hlt
  have hpend : ∀ i, i ≠ s.next → (pend (spawnOne s j c) i ↔ pend s i) := by
    intro i hi; unfold pend; rw [spawnOne_jobs_ne s j c i hi]
  have htn := tot_spawnOne s j c
  have htne : ∀ i, i ≠ s.next → tot (spawnOne s j c) i = tot s i := by
    intro i hi; rw [htn]; have : ¬ s.next = i := fun e => hi e.symm
    simp [this]
  have hEWne : ∀ i, i ≠ s.next → EW (spawnOne s j c) i = EW s i := by
    intro i hi; rw [spawnOne_EW]; simp [hi]
  have hnokid : ∀ c', c' < s.next → (s.jobs c').parent ≠ some s.next := by
    intro c' hc' hp'
    have := ht.parlt c' _ hc' hp'
    exact absurd (Nat.lt_trans this hc') (Nat.lt_irrefl _)
  have hmem : ∀ e, e ∈ (spawnOne s j c).queue → e ∈ s.queue ∨ e = Ev.exec s.next := by
    intro e h
    rcases List.mem_append.mp h with a | a
    · exact Or.inl a
    · exact Or.inr (List.mem_singleton.mp a)
  have hfresh := (ht.tok s.next).2.2 (Nat.le_refl _)
  have hj0 : ∀ e, evJob e = j → e ∉ s.queue := fun e he => not_mem_of_tot_zero htot he
  have hTwnew : ∀ u, Tw (spawnOne s j c) u → Tw s u := spawnOne_Tw s j c
  have hnoKids_old : ∀ i, i ≠ j → noKids s i → noKids (spawnOne s j c) i := by
    intro i hij h c' hc' hpc
    by_cases hcn : c' = s.next
    · subst hcn; rw [spawnOne_jobs_new] at hpc; simp at hpc; exact hij hpc.symm
    · rw [spawnOne_jobs_ne s j c c' hcn] at hpc
      have : c' < s.next + 1 := hc'
      exact h c' (by omega) hpc
  refine ⟨?_, ?_, ?_, ?_, ?_, ?_, ?_, ?_, ?_⟩
  · intro i
    by_cases hin : i = s.next
    · subst hin
      rw [htn, hfresh.1]
      refine ⟨by simp, fun h => absurd (by unfold pend; rw [spawnOne_jobs_new]) h, fun h => ?_⟩
      have : s.next + 1 ≤ s.next := h
      omega
    · obtain ⟨a, b, d⟩ := ht.tok i
      rw [htne i hin, hpend i hin]
      exact ⟨a, b, fun h => d (by have : s.next + 1 ≤ i := h; omega)⟩
  · intro i c' hc' hpc hpp he
    by_cases hcn : c' = s.next
    · subst hcn
      rw [spawnOne_jobs_new] at hpc
      simp at hpc; subst hpc
      rw [htne _ hjn, hpend _ hjn]; exact ⟨htot, hp⟩
    · have hc'' : c' < s.next := by have : c' < s.next + 1 := hc'; omega
      rw [spawnOne_jobs_ne s j c c' hcn] at hpc
      have hin : i ≠ s.next := fun e => hnokid c' hc'' (e ▸ hpc)
      rw [spawnOne_jobs_ne s j c i hin] at he
      rw [htne i hin, hpend i hin]
      exact ht.par i c' hc'' hpc ((hpend c' hcn).mp hpp) he
  · intro i hq
    by_cases hin : i = s.next
    · subst hin
      intro c' hc' hpc
      by_cases hcn : c' = s.next
      · subst hcn; rw [spawnOne_jobs_new] at hpc; simp at hpc; exact hjn hpc
      · rw [spawnOne_jobs_ne s j c c' hcn] at hpc
        have : c' < s.next + 1 := hc'
        exact hnokid c' (by omega) hpc
    · have hij : i ≠ j := by
        intro e; subst e
        rcases hq with a | a | ⟨f, a⟩
        · rw [hEWne i hin] at a; have := EW_zero_of_tot_zero htot; omega
        · have a' : s.inflight i = true := a
          rw [infl_false_of_tot_zero htot] at a'; simp at a'
        · rcases hmem _ a with b | b
          · exact hj0 _ rfl b
          · simp at b
      apply hnoKids_old i hij
      apply ht.pre i
      rcases hq with a | a | ⟨f, a⟩
      · exact Or.inl (by rw [← hEWne i hin]; exact a)
      · exact Or.inr (Or.inl a)
      · rcases hmem _ a with b | b
        · exact Or.inr (Or.inr ⟨f, b⟩)
        · simp at b
  · intro i hi
    by_cases hin : i = s.next
    · subst hin; rw [spawnOne_jobs_new]
    · rw [hEWne i hin] at hi; rw [spawnOne_jobs_ne s j c i hin]; exact ht.pre2 i hi
  · intro i c' hc' hpc hs
    by_cases hcn : c' = s.next
    · subst hcn; rw [spawnOne_jobs_new] at hs; simp at hs
    · have hc'' : c' < s.next := by have : c' < s.next + 1 := hc'; omega
      rw [spawnOne_jobs_ne s j c c' hcn] at hpc hs
      have hin : i ≠ s.next := fun e => hnokid c' hc'' (e ▸ hpc)
      rw [spawnOne_jobs_ne s j c i hin]
      exact ht.rej i c' hc'' hpc hs
  · intro i hx he
    have hij : i ≠ j := fun e => hx (by rw [e])
    rw [spawnOne_cnt]
    simp only [hij, if_false, Nat.add_zero]
    by_cases hin : i = s.next
    · subst hin
      have : cntPend s s.next = 0 := by
        unfold cntPend
        apply cntTo_zero_of_forall
        intro c' hc'
        unfold kidPend
        have := hnokid c' hc'
        simp [this]
      rw [this]; exact Nat.zero_le _
    · rw [spawnOne_jobs_ne s j c i hin] at he ⊢
      exact ht.lb i hx he
  · intro c' par hc' hpc
    by_cases hcn : c' = s.next
    · subst hcn; rw [spawnOne_jobs_new] at hpc; simp at hpc; subst hpc; exact hlt
    · rw [spawnOne_jobs_ne s j c c' hcn] at hpc
      have : c' < s.next + 1 := hc'
      exact ht.parlt c' par (by omega) hpc
  · intro X t hm
    have hXn : X ≠ s.next := by
      intro e; subst e; rw [spawnOne_jobs_new] at hm; simp at hm
    rw [spawnOne_jobs_ne s j c X hXn] at hm
    obtain ⟨a, b, c', d, e', f, g, i, k⟩ := ht.tw X t hm
    have htn' : t ≠ s.next := Nat.ne_of_lt k
    have htj : t ≠ j := fun e => hnt (e ▸ ⟨X, hm⟩)
    refine ⟨?_, ?_, ?_, ?_, ?_, hnoKids_old t htj f, fun h => g (hTwnew X h), ?_, Nat.lt_succ_of_lt k⟩
    · intro hpX
      rw [hpend X hXn] at hpX
      rw [hpend t htn', htne t htn']; exact a hpX
    · rw [spawnOne_jobs_ne s j c X hXn, spawnOne_jobs_ne s j c t htn']; exact b
    · rw [spawnOne_jobs_ne s j c X hXn, spawnOne_jobs_ne s j c t htn']; exact c'
    · intro hq; rcases hmem _ hq with h1 | h1
      · exact d h1
      · simp at h1
    · intro hq; rcases hmem _ hq with h1 | h1
      · exact e' h1
      · simp at h1
    · intro Y hY
      have hYn : Y ≠ s.next := by
        intro e; subst e; rw [spawnOne_jobs_new] at hY; simp at hY
      rw [spawnOne_jobs_ne s j c Y hYn] at hY
      exact i Y hY
  · intro X
    by_cases hXn : X = s.next
    · subst hXn; rw [spawnOne_jobs_new]; simp
    · rw [spawnOne_jobs_ne s j c X hXn]; exact ht.nodup X


/-! ## part 7: `_done_job_main_thread` -/

theorem tok_exempt {s : S} {y : Option JobId} (j : JobId) (ht : Tok s none y) : Tok s (some j) y :=
  { ht with lb := fun i _ he => ht.lb i (by simp) he }

theorem tok_spawnFold {j : JobId} {y : Option JobId} (cs : List SpecId) (s : S) (ht : Tok s (some j) y)
    (htot : tot s j = 0) (hp : pend s j) (hlt : j < s.next) (hnt : ¬ Tw s j) :
    Tok (cs.foldl (fun s c => spawnOne s j c) s) (some j) y ∧
    cntPend (cs.foldl (fun s c => spawnOne s j c) s) j = cntPend s j + cs.length := by
  induction cs generalizing s with
  | nil => exact ⟨ht, rfl⟩
  | cons c cs ih =>
    have hjn : j ≠ s.next := Nat.ne_of_lt hlt
    have d1 := tok_spawnOne (c := c) ht htot hp hlt hnt
    have htot1 : tot (spawnOne s j c) j = 0 := by
      rw [tot_spawnOne, htot]; have : ¬ s.next = j := fun e => hjn e.symm
      simp [this]
    have hj1 : (spawnOne s j c).jobs j = s.jobs j := spawnOne_jobs_ne s j c j hjn
    have hp1 : pend (spawnOne s j c) j := by unfold pend; rw [hj1]; exact hp
    obtain ⟨a, f⟩ := ih (spawnOne s j c) d1 htot1 hp1 (Nat.lt_succ_of_lt hlt) (fun h => hnt (spawnOne_Tw s j c j h))
    refine ⟨a, ?_⟩
    rw [List.foldl_cons, f, spawnOne_cnt]
    simp only [if_true, List.length_cons]
    omega

theorem ft_setWaiting (s : S) (j : JobId) (n : Nat) : Ft s (setJob s j fun js => { js with waiting := n }) := by
  refine ⟨rfl, rfl, ?_, ?_, ?_, ?_, fun _ => rfl, fun _ => rfl, fun _ _ => Iff.rfl⟩ <;>
  · intro i; simp only [setJob]; split <;> rfl

theorem tok_setWaiting {s : S} {y : Option JobId} {j : JobId} (n : Nat) (ht : Tok s (some j) y)
    (hn : (s.jobs j).evalFailed = false → cntPend s j ≤ n) :
    Tok (setJob s j fun js => { js with waiting := n }) none y := by
  refine (ft_setWaiting s j n).tokW ht ?_
  intro i _ he
  by_cases hij : i = j
  · subst hij; simp only [setJob, if_true]; exact hn he
  · simp only [setJob, hij, if_false]
    exact ht.lb i (fun e => hij (Option.some.inj e)) he

/-- `s` is the state with the `done` event already taken off -/
theorem doneJob_tok (p : Prog) (s : S) (j : JobId) (f : Bool) (ht : Tok s none none) (htot : tot s j = 0)
    (hp : pend s j) (hlt : j < s.next) (hnk : noKids s j) (hnt : f = false → ¬ Tw s j)
    (hX : ∀ X, j ∈ (s.jobs X).twins → ¬ pend s X) : Tok (doneJob p s j f) none none := by
  rw [doneJob_eq]
  have f0 := ftw_releaseIf p s j
  generalize releaseIf p s j = s1 at f0
  unfold doneRest
  have f1 : FtW s1 (if (!(s1.jobs j).wasCached && (spec p s1 j).prov) = true then
      { s1 with evalTable := (spec p s1 j).key :: s1.evalTable } else s1) := by
    split
    · exact ftw_of_eq rfl rfl rfl rfl rfl
    · exact FtW.refl s1
  generalize (if (!(s1.jobs j).wasCached && (spec p s1 j).prov) = true then
      { s1 with evalTable := (spec p s1 j).key :: s1.evalTable } else s1) = s2 at f1
  have f2 := f0.trans f1
  have d2 : Tok s2 none none := f2.tok ht
  have htot2 : tot s2 j = 0 := by rw [f2.ft.tt]; exact htot
  have hp2 : pend s2 j := (f2.ft.pendIff j).mpr hp
  have hlt2 : j < s2.next := by rw [f2.ft.next]; exact hlt
  have hnk2 : noKids s2 j := (f2.ft.noKidsIff j).mpr hnk
  have hX2 : ∀ X, j ∈ (s2.jobs X).twins → ¬ pend s2 X := by
    intro X hm; rw [f2.ft.tw] at hm; rw [f2.ft.pendIff]; exact hX X hm
  dsimp only
  split
  · exact tok_enqueue _ j d2 rfl (by intro k; simp) htot2 hp2 hlt2
      (fun c hc hpc _ => absurd hpc (hnk2 c hc)) (fun ⟨_, h⟩ => by simp at h)
      (fun X hm => ⟨hX2 X hm, by simp, by simp⟩)
  · rename_i hf
    have hf' : f = false := by simpa using hf
    have hnt2 : ¬ Tw s2 j := fun h => hnt hf' ((f2.ft.twIff j).mp h)
    unfold spawn
    dsimp only
    obtain ⟨a, e⟩ := tok_spawnFold (spec p s2 j).children s2 (tok_exempt j d2) htot2 hp2 hlt2 hnt2
    rw [cntPend_zero_of_noKids hnk2] at e
    have d4 := tok_setWaiting (spec p s2 j).children.length a (fun _ => by omega)
    split
    · rename_i hnil
      have hcs : (spec p s2 j).children = [] := by simpa using hnil
      rw [hcs] at d4 ⊢
      simp only [List.foldl_nil, List.length_nil] at d4 ⊢
      have fw := ft_setWaiting s2 j 0
      exact tok_enqueue _ j d4 rfl (by intro k; simp) (by rw [fw.tt]; exact htot2) ((fw.pendIff j).mpr hp2)
        (by rw [fw.next]; exact hlt2)
        (fun c hc hpc _ => absurd hpc ((fw.noKidsIff j).mpr hnk2 c hc)) (fun ⟨_, h⟩ => by simp at h)
        (fun X hm => absurd ⟨X, by rw [fw.tw] at hm; exact hm⟩ hnt2)
    · exact d4


/-! ## part 8: a job resolves -/

theorem ResEff.tok {s s' : S} {y : Option JobId} {j : JobId} (h : ResEff s s' j) (ht : Tok s none y)
    (htot : tot s j = 0) (hp : pend s j) (hlt : j < s.next)
    (hk : ∀ c, c < s.next → (s.jobs c).parent = some j → pend s c → (s.jobs j).evalFailed = true)
    (hnt : ∀ X, j ∈ (s.jobs X).twins → ¬ pend s X) : Tok s' none y := by
  have hpend : ∀ i, pend s' i ↔ (pend s i ∧ i ≠ j) := by
    intro i; unfold pend; rw [h.st]
    by_cases e : i = j
    · simp [e]
    · simp [e]
  have hparne : ∀ par, (s.jobs j).parent = some par → par ≠ j := by
    intro par hpar e; have := ht.parlt j par hlt hpar; subst e; exact Nat.lt_irrefl _ this
  have hEW : ∀ i, EW s' i = EW s i :=
    EW_append_resolve s s' h.pl (h.queue.imp id (fun ⟨par, _, _, _, q⟩ => ⟨par, q⟩))
  have htot' : ∀ i, tot s' i = tot s i ∨
      (tot s' i = tot s i + 1 ∧ (s.jobs j).parent = some i ∧ (s.jobs i).evalFailed = false ∧ (s.jobs i).waiting - 1 = 0) := by
    intro i
    unfold tot tk
    rw [h.pl, h.infl]
    rcases h.queue with q | ⟨par, q1, q2, q3, q⟩
    · left; rw [q]
    · by_cases e : par = i
      · subst e; right
        refine ⟨?_, q1, q2, q3⟩
        rw [q]; simp [List.countP_append, evJob]; omega
      · left; rw [q]; simp [List.countP_append, evJob, e]
  have hmem : ∀ e, e ∈ s'.queue → e ∈ s.queue ∨ ∃ par, e = Ev.resolve par := by
    intro e he
    rcases h.queue with q | ⟨par, _, _, _, q⟩
    · rw [q] at he; exact Or.inl he
    · rw [q] at he
      rcases List.mem_append.mp he with a | a
      · exact Or.inl a
      · exact Or.inr ⟨par, List.mem_singleton.mp a⟩
  have hnoKids : ∀ i, noKids s' i ↔ noKids s i := by intro i; unfold noKids; rw [h.next]; simp only [h.par]
  have hTw : ∀ i, Tw s' i ↔ Tw s i := by intro i; unfold Tw; simp only [h.tw]
  have hlb : ∀ i, (s.jobs i).evalFailed = false → cntPend s' i ≤ (s'.jobs i).waiting := by
    intro i he
    have h0 := ht.lb i (by simp) he
    rw [h.wt]
    unfold cntPend at h0 ⊢
    rw [h.next]
    have hkid : ∀ c, c ≠ j → kidPend s i c = kidPend s' i c := by
      intro c hcj; unfold kidPend; rw [h.par, h.st]; simp [hcj]
    by_cases hpar : (s.jobs j).parent = some i
    · simp only [hpar, if_true]
      have hf : kidPend s i j = true := by unfold kidPend; simp [hpar]; exact hp
      have hg : kidPend s' i j = false := by unfold kidPend; rw [h.st]; simp
      have := cntTo_flip (f := kidPend s i) (g := kidPend s' i) (n := s.next) j hlt hkid hf hg
      omega
    · simp only [hpar, if_false]
      have : cntTo (kidPend s' i) s.next = cntTo (kidPend s i) s.next := by
        apply cntTo_congr
        intro c _
        by_cases hcj : c = j
        · subst hcj; unfold kidPend; rw [h.par]; simp [hpar]
        · exact (hkid c hcj).symm
      omega
  refine ⟨?_, ?_, ?_, ?_, ?_, ?_, ?_, ?_, ?_⟩
  · intro i
    obtain ⟨a, b, c⟩ := ht.tok i
    rw [h.next]
    rcases htot' i with e | ⟨e, e1, e2, _⟩
    · rw [e]
      refine ⟨a, fun hnp => ?_, fun hn => ⟨(c hn).1, ?_⟩⟩
      · by_cases hij : i = j
        · subst hij; exact htot
        · exact b (fun hpi => hnp ((hpend i).mpr ⟨hpi, hij⟩))
      · exact (hpend i).mpr ⟨(c hn).2, fun e' => absurd hlt (Nat.not_lt.mpr (e' ▸ hn))⟩
    · obtain ⟨t0, pp⟩ := ht.par i j hlt e1 hp e2
      rw [e, t0]
      refine ⟨by omega, fun hnp => absurd ((hpend i).mpr ⟨pp, hparne i e1⟩) hnp, fun hn => ?_⟩
      exact absurd (Nat.lt_trans (ht.parlt j i hlt e1) hlt) (Nat.not_lt.mpr hn)
  · intro i c hc hpc hpp he
    rw [h.next] at hc; rw [h.par] at hpc; rw [h.ef] at he
    obtain ⟨hpp0, hcj⟩ := (hpend c).mp hpp
    have hij : i ≠ j := by
      intro e; subst e
      have := hk c hc hpc hpp0; rw [he] at this; simp at this
    obtain ⟨t0, pp⟩ := ht.par i c hc hpc hpp0 he
    refine ⟨?_, (hpend i).mpr ⟨pp, hij⟩⟩
    rcases htot' i with e | ⟨_, e1, e2, e3⟩
    · rw [e]; exact t0
    · exfalso
      have hl := hlb i e2
      rw [h.wt] at hl
      simp only [e1, if_true, e3] at hl
      have hz : cntPend s' i = 0 := Nat.le_zero.mp hl
      unfold cntPend at hz
      rw [h.next] at hz
      have := cntTo_zero_forall hz c hc
      unfold kidPend at this
      rw [h.par] at this
      simp [hpc] at this
      exact this hpp
  · intro i hq
    rw [hnoKids]; apply ht.pre i
    rcases hq with a | a | ⟨f, a⟩
    · exact Or.inl (by rw [← hEW]; exact a)
    · exact Or.inr (Or.inl (by rw [← h.infl]; exact a))
    · rcases hmem _ a with b | ⟨par, b⟩
      · exact Or.inr (Or.inr ⟨f, b⟩)
      · simp at b
  · intro i hi; rw [hEW] at hi; rw [h.tw]; exact ht.pre2 i hi
  · intro i c hc hpc hs
    rw [h.next] at hc; rw [h.par] at hpc; rw [h.st] at hs
    rw [h.ef]
    by_cases hcj : c = j
    · simp [hcj] at hs
    · simp only [hcj, if_false] at hs; exact ht.rej i c hc hpc hs
  · intro i _ he
    rw [h.ef] at he; exact hlb i he
  · intro c par hc hpc
    rw [h.next] at hc; rw [h.par] at hpc; exact ht.parlt c par hc hpc
  · intro X t hm
    rw [h.tw] at hm
    obtain ⟨a, b, c, d, e', f, g, i, k⟩ := ht.tw X t hm
    have hjlt := hlt
    refine ⟨?_, ?_, ?_, ?_, ?_, (hnoKids t).mpr f, fun hT => g ((hTw X).mp hT), ?_, by rw [h.next]; exact k⟩
    · intro hpX
      obtain ⟨hpX0, _⟩ := (hpend X).mp hpX
      obtain ⟨pt, tt0⟩ := a hpX0
      have htj : t ≠ j := by intro e; subst e; exact hnt X hm hpX0
      refine ⟨(hpend t).mpr ⟨pt, htj⟩, ?_⟩
      rcases htot' t with e | ⟨_, e1, _, _⟩
      · rw [e]; exact tt0
      · exact absurd e1 (f j hlt)
    · intro hX
      rw [h.st] at hX ⊢
      by_cases htj : t = j
      · simp [htj]
      · simp only [htj, if_false]
        by_cases hXj : X = j
        · subst hXj
          have := (a hp).1; unfold pend at this; rw [this]; simp
        · simp only [hXj, if_false] at hX; exact b hX
    · intro hy hX
      rw [h.st] at hX ⊢
      by_cases hXj : X = j
      · simp [hXj] at hX
      · simp only [hXj, if_false] at hX
        have := c hy hX
        by_cases htj : t = j
        · subst htj; unfold pend at hp; rw [hp] at this; simp at this
        · simp only [htj, if_false]; exact this
    · intro hq; rcases hmem _ hq with h1 | ⟨par, h1⟩
      · exact d h1
      · simp at h1
    · intro hq; rcases hmem _ hq with h1 | ⟨par, h1⟩
      · exact e' h1
      · simp at h1
    · intro Y hY; rw [h.tw] at hY; exact i Y hY
  · intro X; rw [h.tw]; exact ht.nodup X


/-! ## part 9: a job is rejected -/

theorem RejEff.tok {s s' : S} {y : Option JobId} {u : JobId} (h : RejEff s s' u) (ht : Tok s none y)
    (htot : tot s u = 0) (hp : pend s u) (hlt : u < s.next)
    (hk : ∀ c, c < s.next → (s.jobs c).parent = some u → pend s c → (s.jobs u).evalFailed = true)
    (hb : ∀ X, u ∈ (s.jobs X).twins → (s.jobs X).status = Status.rejected)
    (hy : some u = y ∨ Tw s u) : Tok s' none y := by
  have hpend : ∀ i, pend s' i ↔ (pend s i ∧ i ≠ u) := by
    intro i; unfold pend; rw [h.st]
    by_cases e : i = u
    · simp [e]
    · simp [e]
  have hparne : ∀ par, (s.jobs u).parent = some par → par ≠ u := by
    intro par hpar e; have := ht.parlt u par hlt hpar; subst e; exact Nat.lt_irrefl _ this
  have hEW : ∀ i, EW s' i = EW s i :=
    EW_append_reject s s' h.pl (h.queue.imp id (fun ⟨par, _, _, q⟩ => ⟨par, q⟩))
  have htot' : ∀ i, tot s' i = tot s i ∨
      (tot s' i = tot s i + 1 ∧ (s.jobs u).parent = some i ∧ (s.jobs i).evalFailed = false) := by
    intro i
    unfold tot tk
    rw [h.pl, h.infl]
    rcases h.queue with q | ⟨par, q1, q2, q⟩
    · left; rw [q]
    · by_cases e : par = i
      · subst e; right
        refine ⟨?_, q1, q2⟩
        rw [q]; simp [List.countP_append, evJob]; omega
      · left; rw [q]; simp [List.countP_append, evJob, e]
  have hmem : ∀ e, e ∈ s'.queue → e ∈ s.queue ∨ ∃ par, e = Ev.reject par ∧ (s.jobs u).parent = some par := by
    intro e he
    rcases h.queue with q | ⟨par, q1, _, q⟩
    · rw [q] at he; exact Or.inl he
    · rw [q] at he
      rcases List.mem_append.mp he with a | a
      · exact Or.inl a
      · exact Or.inr ⟨par, List.mem_singleton.mp a, q1⟩
  have hnoKids : ∀ i, noKids s' i ↔ noKids s i := by intro i; unfold noKids; rw [h.next]; simp only [h.par]
  have hTw : ∀ i, Tw s' i ↔ Tw s i := by intro i; unfold Tw; simp only [h.tw]
  have hefF : ∀ i, (s'.jobs i).evalFailed = false → ¬ (s.jobs u).parent = some i ∧ (s.jobs i).evalFailed = false := by
    intro i he
    rw [h.ef] at he
    by_cases hpar : (s.jobs u).parent = some i
    · simp [hpar] at he
    · simp only [hpar, if_false] at he; exact ⟨hpar, he⟩
  refine ⟨?_, ?_, ?_, ?_, ?_, ?_, ?_, ?_, ?_⟩
  · intro i
    obtain ⟨a, b, c⟩ := ht.tok i
    rw [h.next]
    rcases htot' i with e | ⟨e, e1, e2⟩
    · rw [e]
      refine ⟨a, fun hnp => ?_, fun hn => ⟨(c hn).1, ?_⟩⟩
      · by_cases hij : i = u
        · subst hij; exact htot
        · exact b (fun hpi => hnp ((hpend i).mpr ⟨hpi, hij⟩))
      · exact (hpend i).mpr ⟨(c hn).2, fun e' => absurd hlt (Nat.not_lt.mpr (e' ▸ hn))⟩
    · obtain ⟨t0, pp⟩ := ht.par i u hlt e1 hp e2
      rw [e, t0]
      refine ⟨by omega, fun hnp => absurd ((hpend i).mpr ⟨pp, hparne i e1⟩) hnp, fun hn => ?_⟩
      exact absurd (Nat.lt_trans (ht.parlt u i hlt e1) hlt) (Nat.not_lt.mpr hn)
  · intro i c hc hpc hpp he
    rw [h.next] at hc; rw [h.par] at hpc
    obtain ⟨hnpar, he0⟩ := hefF i he
    obtain ⟨hpp0, hcj⟩ := (hpend c).mp hpp
    have hij : i ≠ u := by
      intro e; subst e
      have := hk c hc hpc hpp0; rw [he0] at this; simp at this
    obtain ⟨t0, pp⟩ := ht.par i c hc hpc hpp0 he0
    refine ⟨?_, (hpend i).mpr ⟨pp, hij⟩⟩
    rcases htot' i with e | ⟨_, e1, _⟩
    · rw [e]; exact t0
    · exact absurd e1 hnpar
  · intro i hq
    rw [hnoKids]; apply ht.pre i
    rcases hq with a | a | ⟨f, a⟩
    · exact Or.inl (by rw [← hEW]; exact a)
    · exact Or.inr (Or.inl (by rw [← h.infl]; exact a))
    · rcases hmem _ a with b | ⟨par, b, _⟩
      · exact Or.inr (Or.inr ⟨f, b⟩)
      · simp at b
  · intro i hi; rw [hEW] at hi; rw [h.tw]; exact ht.pre2 i hi
  · intro i c hc hpc hs
    rw [h.next] at hc; rw [h.par] at hpc; rw [h.st] at hs
    rw [h.ef]
    by_cases hcj : c = u
    · subst hcj; simp [hpc]
    · simp only [hcj, if_false] at hs
      have := ht.rej i c hc hpc hs
      split
      · rfl
      · exact this
  · intro i _ he
    obtain ⟨hnpar, he0⟩ := hefF i he
    rw [h.wt]
    have : cntPend s' i = cntPend s i := by
      unfold cntPend
      rw [h.next]
      apply cntTo_congr
      intro c _
      unfold kidPend
      rw [h.par, h.st]
      by_cases hcj : c = u
      · subst hcj; simp [hnpar]
      · simp [hcj]
    rw [this]; exact ht.lb i (by simp) he0
  · intro c par hc hpc
    rw [h.next] at hc; rw [h.par] at hpc; exact ht.parlt c par hc hpc
  · intro X t hm
    rw [h.tw] at hm
    obtain ⟨a, b, c, d, e', f, g, i, k⟩ := ht.tw X t hm
    refine ⟨?_, ?_, ?_, ?_, ?_, (hnoKids t).mpr f, fun hT => g ((hTw X).mp hT), ?_, by rw [h.next]; exact k⟩
    · intro hpX
      obtain ⟨hpX0, _⟩ := (hpend X).mp hpX
      obtain ⟨pt, tt0⟩ := a hpX0
      have htu : t ≠ u := by
        intro e; subst e
        have := hb X hm; unfold pend at hpX0; rw [hpX0] at this; simp at this
      refine ⟨(hpend t).mpr ⟨pt, htu⟩, ?_⟩
      rcases htot' t with e | ⟨_, e1, _⟩
      · rw [e]; exact tt0
      · exact absurd e1 (f u hlt)
    · intro hX
      rw [h.st] at hX ⊢
      by_cases hXu : X = u
      · simp [hXu] at hX
      · simp only [hXu, if_false] at hX
        by_cases htu : t = u
        · subst htu; have := hb X hm; rw [hX] at this; simp at this
        · simp only [htu, if_false]; exact b hX
    · intro hyX hX
      rw [h.st] at hX ⊢
      by_cases htu : t = u
      · simp [htu]
      · simp only [htu, if_false]
        by_cases hXu : X = u
        · subst hXu
          rcases hy with e | e
          · exact absurd e hyX
          · exact absurd e g
        · simp only [hXu, if_false] at hX; exact c hyX hX
    · intro hq; rcases hmem _ hq with h1 | ⟨par, h1, h2⟩
      · exact d h1
      · simp at h1; subst h1; exact absurd h2 (f u hlt)
    · intro hq; rcases hmem _ hq with h1 | ⟨par, h1, _⟩
      · exact e' h1
      · simp at h1
    · intro Y hY; rw [h.tw] at hY; exact i Y hY
  · intro X; rw [h.tw]; exact ht.nodup X


/-! ## part 10: serving and rejecting the twins -/

theorem tok_twinsDone {y : Option JobId} (j : JobId) (l : List JobId) (s : S) (ht : Tok s none y)
    (hl : ∀ t, t ∈ l → t ∈ (s.jobs j).twins ∧ pend s t ∧ tot s t = 0) (hnd : l.Nodup) (hnp : ¬ pend s j) :
    Tok (l.foldl (fun s t => enqueue (setJob s t fun js => { js with wasCached := true }) (Ev.done t true)) s) none y := by
  induction l generalizing s with
  | nil => exact ht
  | cons a l ih =>
    obtain ⟨hma, hpa, hta⟩ := hl a (by simp)
    obtain ⟨_, _, _, _, _, f, _, i, k⟩ := ht.tw j a hma
    have fc := ftw_cached s a
    have t1 := fc.tok ht
    have t2 : Tok (enqueue (setJob s a fun js => { js with wasCached := true }) (Ev.done a true)) none y := by
      refine tok_enqueue _ a t1 rfl (by intro k; simp) (by rw [fc.ft.tt]; exact hta) ((fc.ft.pendIff a).mpr hpa)
        (by rw [fc.ft.next]; exact k)
        (fun c hc hpc _ => absurd hpc ((fc.ft.noKidsIff a).mpr f c hc)) (fun _ => (fc.ft.noKidsIff a).mpr f) ?_
      intro X hm
      rw [fc.ft.tw] at hm
      have : X = j := i X hm
      subst this
      exact ⟨fun h => hnp ((fc.ft.pendIff X).mp h), by simp, by simp⟩
    rw [List.foldl_cons]
    have hnd' := List.nodup_cons.mp hnd
    refine ih _ t2 ?_ hnd'.2 ?_
    · intro t htl
      obtain ⟨h1, h2, h3⟩ := hl t (by simp [htl])
      have hta' : t ≠ a := fun e => hnd'.1 (e ▸ htl)
      refine ⟨?_, ?_, ?_⟩
      · show t ∈ ((setJob s a fun js => { js with wasCached := true }).jobs j).twins
        rw [fc.ft.tw]; exact h1
      · show pend (setJob s a fun js => { js with wasCached := true }) t
        exact (fc.ft.pendIff t).mpr h2
      · rw [tot_enqueue, fc.ft.tt, h3]
        have : ¬ a = t := fun e => hta' e.symm
        simp [evJob, this]
    · intro h; exact hnp ((fc.ft.pendIff j).mp h)

theorem finalize_jobs (p : Prog) (s : S) (j : JobId) : (finalize p s j).jobs = s.jobs := (finalize_frame p s j).1

theorem rejectTwin_tok (p : Prog) (s : S) (j t : JobId) (ht : Tok s none (some j)) (hm : t ∈ (s.jobs j).twins)
    (hp : pend s t) (htot : tot s t = 0) (hrj : (s.jobs j).status = Status.rejected) :
    Tok (rejectTwin p s t) none (some j) ∧
    (∀ i, ((rejectTwin p s t).jobs i).twins = (s.jobs i).twins) ∧
    (∀ i, ((rejectTwin p s t).jobs i).status = if i = t then Status.rejected else (s.jobs i).status) ∧
    (∀ i, (s.jobs t).parent ≠ some i → tot (rejectTwin p s t) i = tot s i) := by
  unfold rejectTwin
  dsimp only
  have f0 : FtW s (record p (setJob s t fun js => { js with wasCached := true }) t true) :=
    (ftw_cached s t).trans (ftw_record p _ t true)
  generalize (record p (setJob s t fun js => { js with wasCached := true }) t true) = s0 at f0
  have t0 := f0.tok ht
  obtain ⟨_, _, _, _, _, f, _, i, k⟩ := ht.tw j t hm
  have eff := rejEff s0 t
  generalize (notifyParentRejected (setJob s0 t fun js => { js with status := Status.rejected }) t) = s2 at eff
  have t2 : Tok s2 none (some j) := by
    refine eff.tok t0 (by rw [f0.ft.tt]; exact htot) ((f0.ft.pendIff t).mpr hp) (by rw [f0.ft.next]; exact k)
      (fun c hc hpc _ => absurd hpc ((f0.ft.noKidsIff t).mpr f c hc)) ?_ (Or.inr ((f0.ft.twIff t).mpr ⟨j, hm⟩))
    intro X hX
    rw [f0.ft.tw] at hX
    have : X = j := i X hX
    subst this
    rw [f0.ft.st]; exact hrj
  have f3 := ftw_finalize p s2 t
  refine ⟨f3.tok t2, ?_, ?_, ?_⟩
  · intro i'; rw [f3.ft.tw, eff.tw, f0.ft.tw]
  · intro i'; rw [f3.ft.st, eff.st, f0.ft.st]
  · intro i' hne
    rw [f3.ft.tt, ← f0.ft.tt]
    unfold tot tk
    rw [eff.pl, eff.infl]
    rcases eff.queue with q | ⟨par, q1, _, q⟩
    · rw [q]
    · rw [q]
      have : par ≠ i' := by
        intro e; subst e; rw [f0.ft.par] at q1; exact hne q1
      simp [List.countP_append, evJob, this]

theorem rejectTwins_tok (p : Prog) (j : JobId) (l : List JobId) (s : S) (ht : Tok s none (some j))
    (hl : ∀ t, t ∈ l → t ∈ (s.jobs j).twins ∧ pend s t ∧ tot s t = 0) (hnd : l.Nodup)
    (hrj : (s.jobs j).status = Status.rejected) (hjl : j ∉ l) :
    Tok (l.foldl (rejectTwin p) s) none (some j) ∧
    (∀ i, ((l.foldl (rejectTwin p) s).jobs i).twins = (s.jobs i).twins) ∧
    (∀ i, ((l.foldl (rejectTwin p) s).jobs i).status = if i ∈ l then Status.rejected else (s.jobs i).status) := by
  induction l generalizing s with
  | nil => exact ⟨ht, fun _ => rfl, fun _ => by simp⟩
  | cons a l ih =>
    obtain ⟨hma, hpa, hta⟩ := hl a (by simp)
    obtain ⟨t1, tw1, st1, tt1⟩ := rejectTwin_tok p s j a ht hma hpa hta hrj
    have hnd' := List.nodup_cons.mp hnd
    have hja : j ≠ a := fun e => hjl (by simp [e])
    have hjl' : j ∉ l := fun h => hjl (by simp [h])
    have hlt_a := (ht.tw j a hma).2.2.2.2.2.2.2.2
    have hl' : ∀ t, t ∈ l → t ∈ ((rejectTwin p s a).jobs j).twins ∧ pend (rejectTwin p s a) t ∧
        tot (rejectTwin p s a) t = 0 := by
      intro t htl
      obtain ⟨h1, h2, h3⟩ := hl t (by simp [htl])
      have hta' : t ≠ a := fun e => hnd'.1 (e ▸ htl)
      refine ⟨by rw [tw1]; exact h1, ?_, ?_⟩
      · unfold pend; rw [st1]; simp only [hta', if_false]; exact h2
      · have hne : (s.jobs a).parent ≠ some t := (ht.tw j t h1).2.2.2.2.2.1 a hlt_a
        rw [tt1 t hne]; exact h3
    have hrj' : ((rejectTwin p s a).jobs j).status = Status.rejected := by
      rw [st1]; simp only [hja, if_false]; exact hrj
    obtain ⟨t2, tw2, st2⟩ := ih (rejectTwin p s a) t1 hl' hnd'.2 hrj' hjl'
    refine ⟨t2, fun i => (tw2 i).trans (tw1 i), ?_⟩
    intro i
    rw [List.foldl_cons, st2, st1]
    by_cases hia : i = a
    · subst hia; simp
    · by_cases hil : i ∈ l
      · simp [hil]
      · simp [hil, hia]

theorem tok_close {s : S} {j : JobId} (ht : Tok s none (some j))
    (hc : (s.jobs j).status = Status.rejected → ∀ t, t ∈ (s.jobs j).twins → (s.jobs t).status = Status.rejected) :
    Tok s none none := by
  refine { ht with tw := ?_ }
  intro X t hm
  obtain ⟨a, b, c, d, e', f, g, i, k⟩ := ht.tw X t hm
  refine ⟨a, b, fun _ hX => ?_, d, e', f, g, i, k⟩
  by_cases hXj : X = j
  · subst hXj; exact hc hX t hm
  · exact c (fun e => hXj (Option.some.inj e)) hX

theorem tok_open {s : S} (j : JobId) (ht : Tok s none none) : Tok s none (some j) := by
  refine { ht with tw := ?_ }
  intro X t hm
  obtain ⟨a, b, c, d, e', f, g, i, k⟩ := ht.tw X t hm
  exact ⟨a, b, fun _ hX => c (by simp) hX, d, e', f, g, i, k⟩


/-! ## part 11: `_resolve_job_main_thread`, `_reject_job_main_thread` -/

theorem ResEff.tot_other {s s' : S} {j : JobId} (h : ResEff s s' j) (i : JobId) (hne : (s.jobs j).parent ≠ some i) :
    tot s' i = tot s i := by
  unfold tot tk
  rw [h.pl, h.infl]
  rcases h.queue with q | ⟨par, q1, _, _, q⟩
  · rw [q]
  · rw [q]
    have : par ≠ i := by intro e; subst e; exact hne q1
    simp [List.countP_append, evJob, this]

theorem RejEff.tot_other {s s' : S} {u : JobId} (h : RejEff s s' u) (i : JobId) (hne : (s.jobs u).parent ≠ some i) :
    tot s' i = tot s i := by
  unfold tot tk
  rw [h.pl, h.infl]
  rcases h.queue with q | ⟨par, q1, _, q⟩
  · rw [q]
  · rw [q]
    have : par ≠ i := by intro e; subst e; exact hne q1
    simp [List.countP_append, evJob, this]

/-- `s` is the state with the `resolve` event already taken off -/
theorem resolveJob_tok (p : Prog) (s : S) (j : JobId) (ht : Tok s none none) (htot : tot s j = 0) (hp : pend s j)
    (hlt : j < s.next)
    (hk : ∀ c, c < s.next → (s.jobs c).parent = some j → pend s c → (s.jobs j).evalFailed = true)
    (hnt : ∀ X, j ∈ (s.jobs X).twins → ¬ pend s X) : Tok (resolveJob p s j) none none := by
  unfold resolveJob
  dsimp only
  have f0 := ftw_record p s j false
  generalize record p s j false = s0 at f0
  have t0 := f0.tok ht
  have hp0 : pend s0 j := (f0.ft.pendIff j).mpr hp
  have hlt0 : j < s0.next := by rw [f0.ft.next]; exact hlt
  have eff := resEff s0 j
  generalize (notifyParentResolved (setJob s0 j fun js => { js with status := Status.resolved }) j) = s2 at eff
  have t2 : Tok s2 none none := by
    refine eff.tok t0 (by rw [f0.ft.tt]; exact htot) hp0 hlt0 ?_ ?_
    · intro c hc hpc hpp
      rw [f0.ft.next] at hc; rw [f0.ft.par] at hpc; rw [f0.ft.pendIff] at hpp; rw [f0.ft.ef]
      exact hk c hc hpc hpp
    · intro X hX; rw [f0.ft.tw] at hX; rw [f0.ft.pendIff]; exact hnt X hX
  have hnp2 : ¬ pend s2 j := by unfold pend; rw [eff.st]; simp
  have hl : ∀ t, t ∈ (s2.jobs j).twins → t ∈ (s2.jobs j).twins ∧ pend s2 t ∧ tot s2 t = 0 := by
    intro t hm
    refine ⟨hm, ?_⟩
    have hm0 : t ∈ (s0.jobs j).twins := by rw [eff.tw] at hm; exact hm
    obtain ⟨a, _, _, _, _, f, g, _, _⟩ := t0.tw j t hm0
    obtain ⟨pt, tt0⟩ := a hp0
    have htj : t ≠ j := by intro e; subst e; exact g ⟨t, hm0⟩
    refine ⟨?_, ?_⟩
    · unfold pend; rw [eff.st]; simp only [htj, if_false]; exact pt
    · rw [eff.tot_other t (f j hlt0)]; exact tt0
  have t3 := tok_twinsDone j (s2.jobs j).twins s2 t2 hl (t2.nodup j) hnp2
  exact (ftw_finalize p _ j).tok t3

/-- `s` is the state with the `reject` event already taken off -/
theorem rejectJob_tok (p : Prog) (s : S) (j : JobId) (ht : Tok s none none) (htot : tot s j = 0) (hp : pend s j)
    (hlt : j < s.next)
    (hk : ∀ c, c < s.next → (s.jobs c).parent = some j → pend s c → (s.jobs j).evalFailed = true)
    (hnt : ¬ Tw s j) : Tok (rejectJob p s j) none none := by
  rw [rejectJob_eq]
  unfold rejectRest
  dsimp only
  have f0 : FtW s (record p (releaseIf p s j) j true) := (ftw_releaseIf p s j).trans (ftw_record p _ j true)
  generalize (record p (releaseIf p s j) j true) = s0 at f0
  have t0 := tok_open j (f0.tok ht)
  have hp0 : pend s0 j := (f0.ft.pendIff j).mpr hp
  have hlt0 : j < s0.next := by rw [f0.ft.next]; exact hlt
  have hnt0 : ¬ Tw s0 j := fun h => hnt ((f0.ft.twIff j).mp h)
  have eff := rejEff s0 j
  generalize (notifyParentRejected (setJob s0 j fun js => { js with status := Status.rejected }) j) = s2 at eff
  have t2 : Tok s2 none (some j) := by
    refine eff.tok t0 (by rw [f0.ft.tt]; exact htot) hp0 hlt0 ?_ (fun X hX => absurd ⟨X, hX⟩ hnt0) (Or.inl rfl)
    intro c hc hpc hpp
    rw [f0.ft.next] at hc; rw [f0.ft.par] at hpc; rw [f0.ft.pendIff] at hpp; rw [f0.ft.ef]
    exact hk c hc hpc hpp
  have hrj2 : (s2.jobs j).status = Status.rejected := by rw [eff.st]; simp
  have hl : ∀ t, t ∈ (s2.jobs j).twins → t ∈ (s2.jobs j).twins ∧ pend s2 t ∧ tot s2 t = 0 := by
    intro t hm
    refine ⟨hm, ?_⟩
    have hm0 : t ∈ (s0.jobs j).twins := by rw [eff.tw] at hm; exact hm
    obtain ⟨a, _, _, _, _, f, g, _, _⟩ := t0.tw j t hm0
    obtain ⟨pt, tt0⟩ := a hp0
    have htj : t ≠ j := by intro e; subst e; exact g ⟨t, hm0⟩
    refine ⟨?_, ?_⟩
    · unfold pend; rw [eff.st]; simp only [htj, if_false]; exact pt
    · rw [eff.tot_other t (f j hlt0)]; exact tt0
  have hjl : j ∉ (s2.jobs j).twins := by
    intro h; rw [eff.tw] at h; exact hnt0 ⟨j, h⟩
  obtain ⟨t3, tw3, st3⟩ := rejectTwins_tok p j (s2.jobs j).twins s2 t2 hl (t2.nodup j) hrj2 hjl
  generalize (List.foldl (rejectTwin p) s2 (s2.jobs j).twins) = s3 at t3 tw3 st3
  have f4 := ftw_finalize p s3 j
  refine tok_close (f4.tok t3) ?_
  intro _ t hm
  rw [f4.ft.tw, tw3] at hm
  rw [f4.ft.st, st3]; simp [hm]


/-! ## part 12: `_exec_job_main_thread`, executor reports -/

theorem tok_cachedExit (p : Prog) (s : S) (j : JobId) (ev : Ev) (hev : (∃ f, ev = Ev.done j f) ∨ ev = Ev.reject j)
    (ht : Tok s none none) (htot : tot s j = 0) (hp : pend s j) (hlt : j < s.next) (hnk : noKids s j)
    (hnt : ¬ Tw s j) :
    Tok (enqueue (checkPending p (setJob s j fun js => { js with wasCached := true })) ev) none none := by
  have fc := (ftw_cached s j).trans (ftw_checkPending p _)
  have t1 := fc.tok ht
  have hnk1 := (fc.ft.noKidsIff j).mpr hnk
  refine tok_enqueue ev j t1 ?_ ?_ (by rw [fc.ft.tt]; exact htot) ((fc.ft.pendIff j).mpr hp)
    (by rw [fc.ft.next]; exact hlt) (fun c hc hpc _ => absurd hpc (hnk1 c hc)) (fun _ => hnk1)
    (fun X hm => absurd ((fc.ft.twIff j).mp ⟨X, hm⟩) hnt)
  · rcases hev with ⟨f, rfl⟩ | rfl <;> rfl
  · intro k; rcases hev with ⟨f, rfl⟩ | rfl <;> simp

/-- `s` is the state with the `exec` event already taken off -/
theorem execJob_tok (p : Prog) (s : S) (j : JobId) (ht : Tok s none none) (htot : tot s j = 0) (hp : pend s j)
    (hlt : j < s.next) (hnk : noKids s j) (htwj : (s.jobs j).twins = []) (hnt : ¬ Tw s j)
    (hreg : ∀ k t0, lookupPending s k = some t0 → pend s t0 ∧ ¬ Tw s t0 ∧ t0 ≠ j ∧ EW s t0 = 0) :
    Tok (execJob p s j) none none := by
  unfold execJob
  dsimp only
  split
  · rename_i t0 heq
    have hlk : lookupPending s ((spec p s j).key, (spec p s j).ctx) = some t0 := by
      split at heq
      · exact heq
      · simp at heq
    obtain ⟨h1, h2, h3, h4⟩ := hreg _ t0 hlk
    exact (ftw_checkPending p _).tok (tok_addTwin ht htot hp hlt hnk htwj hnt h1 h2 h3 h4)
  · split
    · rename_i isErr _
      exact tok_cachedExit p s j _ (by cases isErr <;> simp) ht htot hp hlt hnk hnt
    · exact tok_cachedExit p s j _ (Or.inl ⟨true, rfl⟩) ht htot hp hlt hnk hnt
    · exact tok_cachedExit p s j _ (Or.inl ⟨false, rfl⟩) ht htot hp hlt hnk hnt
    · split
      · exact tok_pendAppend j ht htot hp hlt hnk htwj hnt
      · have f1 : FtW s (if p.dryrun = true then s else consume p s j) := by
          split
          · exact FtW.refl s
          · exact ftw_consume p s j
        generalize (if p.dryrun = true then s else consume p s j) = s1 at f1
        have t1 := f1.tok ht
        have htot1 : tot s1 j = 0 := by rw [f1.ft.tt]; exact htot
        have hp1 : pend s1 j := (f1.ft.pendIff j).mpr hp
        have hlt1 : j < s1.next := by rw [f1.ft.next]; exact hlt
        have hnk1 : noKids s1 j := (f1.ft.noKidsIff j).mpr hnk
        have hnt1 : ¬ Tw s1 j := fun h => hnt ((f1.ft.twIff j).mp h)
        have htw1 : (s1.jobs j).twins = [] := by rw [f1.ft.tw]; exact htwj
        split
        · exact tok_enqueue _ j t1 rfl (by intro k; simp) htot1 hp1 hlt1
            (fun c hc hpc _ => absurd hpc (hnk1 c hc)) (fun ⟨_, h⟩ => by simp at h)
            (fun X hm => absurd ⟨X, hm⟩ hnt1)
        · split
          · exact t1
          · have f2 : FtW s1 (if (!(spec p s j).prov || (lookupPending s1 ((spec p s j).key, (spec p s j).ctx)).isSome) = true
                then s1 else { s1 with pendingJobs := s1.pendingJobs ++ [(((spec p s j).key, (spec p s j).ctx), j)] }) := by
              split
              · exact FtW.refl s1
              · exact ftw_of_eq rfl rfl rfl rfl rfl
            generalize (if (!(spec p s j).prov || (lookupPending s1 ((spec p s j).key, (spec p s j).ctx)).isSome) = true
                then s1 else { s1 with pendingJobs := s1.pendingJobs ++ [(((spec p s j).key, (spec p s j).ctx), j)] }) = s2 at f2
            exact tok_setInfl j _ (f2.tok t1) (by rw [f2.ft.tt]; exact htot1) ((f2.ft.pendIff j).mpr hp1)
              (by rw [f2.ft.next]; exact hlt1) ((f2.ft.noKidsIff j).mpr hnk1) (by rw [f2.ft.tw]; exact htw1)
              (fun h => hnt1 ((f2.ft.twIff j).mp h))

theorem complete_tok (p : Prog) (s : S) (j : JobId) (ht : Tok s none none) (hi : s.inflight j = true)
    (hnt : ¬ Tw s j) : Tok (complete p s j) none none := by
  unfold complete
  have hnk : noKids s j := ht.pre j (Or.inr (Or.inl hi))
  obtain ⟨a, b, c⟩ := ht.tok j
  have h1 : 1 ≤ tot s j := by unfold tot; simp [hi]
  have hp : pend s j := by
    by_cases hp : pend s j
    · exact hp
    · have := b hp; omega
  have hlt : j < s.next := by
    by_cases hlt : j < s.next
    · exact hlt
    · have := (c (Nat.le_of_not_lt hlt)).1; omega
  have t1 := tok_clearInfl j ht
  have htot1 : tot { s with inflight := fun i => if i = j then false else s.inflight i } j = 0 := by
    have : tot s j = 1 := by omega
    unfold tot tk at this ⊢
    simp [hi] at this ⊢
    omega
  have hp1 : pend { s with inflight := fun i => if i = j then false else s.inflight i } j := hp
  have hnk1 : noKids { s with inflight := fun i => if i = j then false else s.inflight i } j := hnk
  have hnt1 : ¬ Tw { s with inflight := fun i => if i = j then false else s.inflight i } j := hnt
  have hlt1 : j < ({ s with inflight := fun i => if i = j then false else s.inflight i } : S).next := hlt
  generalize ({ s with inflight := fun i => if i = j then false else s.inflight i } : S) = s1 at t1 htot1 hp1 hnk1 hnt1 hlt1
  dsimp only
  refine tok_enqueue _ j t1 ?_ ?_ htot1 hp1 hlt1 (fun c hc hpc _ => absurd hpc (hnk1 c hc)) (fun _ => hnk1)
    (fun X hm => absurd ⟨X, hm⟩ hnt1)
  · split <;> rfl
  · intro k; split <;> simp


/-! ## part 13: every reachable state satisfies `Tok` -/

theorem tok_head_facts {s : S} (e : Ev) (rest : List Ev) (hq : s.queue = e :: rest) (ht : Tok s none none) :
    tot s (evJob e) = 1 ∧ tot (tl s) (evJob e) = 0 ∧ pend s (evJob e) ∧ evJob e < s.next := by
  have hm : e ∈ s.queue := by rw [hq]; simp
  have h1 := tot_pos_of_mem hm
  obtain ⟨a, b, c⟩ := ht.tok (evJob e)
  have h2 := tot_tl s e rest hq (evJob e)
  simp only [if_true] at h2
  refine ⟨by omega, by omega, ?_, ?_⟩
  · by_cases hp : pend s (evJob e)
    · exact hp
    · have := b hp; omega
  · by_cases hlt : evJob e < s.next
    · exact hlt
    · have := (c (Nat.le_of_not_lt hlt)).1; omega

theorem pop_tok (p : Prog) (s : S) (hinv : Inv p s) (ht : Tok s none none)
    (hreg : ∀ k t0, lookupPending s k = some t0 → pend s t0 ∧ ¬ Tw s t0 ∧ EW s t0 = 0) :
    Tok (pop p s) none none := by
  unfold pop
  split
  · exact ht
  · rename_i e rest hq
    rw [tl_eq s e rest hq]
    have tt := tok_tl e rest hq ht
    have hf := tok_head_facts e rest hq ht
    have hm : e ∈ s.queue := by rw [hq]; simp
    cases e with
    | exec j =>
      simp only [evJob] at hf
      obtain ⟨h1, h0, hp, hlt⟩ := hf
      have hEW := tl_EW_eq s (Ev.exec j) rest hq j
      simp only [if_true] at hEW
      have hEW1 : 1 ≤ EW s j := by omega
      obtain ⟨_, _, c, _, _⟩ := exec_head_facts p s j rest hq hinv.core
      refine execJob_tok p (tl s) j tt h0 hp hlt (ht.pre j (Or.inl hEW1)) (ht.pre2 j hEW1)
        (fun ⟨X, hX⟩ => c X hX) ?_
      intro k t0 hlk
      obtain ⟨a1, a2, a3⟩ := hreg k t0 hlk
      refine ⟨a1, a2, ?_, Nat.le_zero.mp (a3 ▸ tl_EW_le s t0)⟩
      intro e; subst e; omega
    | done j f =>
      simp only [evJob] at hf
      obtain ⟨h1, h0, hp, hlt⟩ := hf
      refine doneJob_tok p (tl s) j f tt h0 hp hlt (ht.pre j (Or.inr (Or.inr ⟨f, hm⟩))) ?_ ?_
      · intro hff ⟨X, hX⟩
        subst hff
        exact (ht.tw X j hX).2.2.2.2.1 hm
      · intro X hX hpX
        have := ((ht.tw X j hX).1 hpX).2
        omega
    | resolve j =>
      simp only [evJob] at hf
      obtain ⟨h1, h0, hp, hlt⟩ := hf
      refine resolveJob_tok p (tl s) j tt h0 hp hlt ?_ ?_
      · intro c hc hpc hpp
        by_cases he : (s.jobs j).evalFailed = true
        · exact he
        · have := (ht.par j c hc hpc hpp (by simpa using he)).1; omega
      · intro X hX hpX
        have := ((ht.tw X j hX).1 hpX).2
        omega
    | reject j =>
      simp only [evJob] at hf
      obtain ⟨h1, h0, hp, hlt⟩ := hf
      refine rejectJob_tok p (tl s) j tt h0 hp hlt ?_ ?_
      · intro c hc hpc hpp
        by_cases he : (s.jobs j).evalFailed = true
        · exact he
        · have := (ht.par j c hc hpc hpp (by simpa using he)).1; omega
      · intro ⟨X, hX⟩
        exact (ht.tw X j hX).2.2.2.1 hm

theorem tok_init : Tok init none none := by
  have hj : ∀ j, (init.jobs j).status = Status.pending ∧ (init.jobs j).twins = [] ∧ (init.jobs j).evalFailed = false ∧
      (init.jobs j).waiting = 0 ∧ (init.jobs j).parent = none := by
    intro j; simp only [init]; split <;> exact ⟨rfl, rfl, rfl, rfl, rfl⟩
  have htot : ∀ j, tot init j = if j = 0 then 1 else 0 := by
    intro j; unfold tot tk; simp only [init, List.countP_cons, List.countP_nil, evJob, beq_iff_eq]
    by_cases h : j = 0
    · subst h; simp
    · have : ¬ 0 = j := fun e => h e.symm
      simp [h, this]
  refine ⟨?_, ?_, ?_, fun j _ => (hj j).2.1, ?_, ?_, ?_, ?_, ?_⟩
  · intro j
    rw [htot]
    refine ⟨by split <;> omega, fun h => absurd (hj j).1 h, fun h => ⟨?_, (hj j).1⟩⟩
    have h1 : (1 : Nat) ≤ j := h
    have : j ≠ 0 := by intro e; rw [e] at h1; exact absurd h1 (by decide)
    simp [this]
  · intro j c _ hp; rw [(hj c).2.2.2.2] at hp; simp at hp
  · intro j _ c _ hp; rw [(hj c).2.2.2.2] at hp; simp at hp
  · intro j c _ hp; rw [(hj c).2.2.2.2] at hp; simp at hp
  · intro j _ _
    have : cntPend init j = 0 := by
      apply cntPend_zero_of_noKids
      intro c _ hp; rw [(hj c).2.2.2.2] at hp; simp at hp
    rw [this]; exact Nat.zero_le _
  · intro c par _ hp; rw [(hj c).2.2.2.2] at hp; simp at hp
  · intro X t hm; rw [(hj X).2.1] at hm; simp at hm
  · intro X; rw [(hj X).2.1]; simp

/-- what a registration in `_pending_jobs` guarantees (real run: lifecycle invariant; dry run: none exist) -/
theorem reg_facts (p : Prog) (s : S) (h : Reachable p s) (k : Nat × Nat) (t0 : JobId)
    (hlk : lookupPending s k = some t0) : pend s t0 ∧ ¬ Tw s t0 ∧ EW s t0 = 0 := by
  by_cases hd : p.dryrun = true
  · have := lookupPending_nil s k (reachable_dryTok p hd s h).pj
    rw [this] at hlk; simp at hlk
  · have hl := reachable_live p (by simpa using hd) s h
    obtain ⟨_, _, c, d, _, f⟩ := hl.reg k t0 (mem_of_lookupPending hlk)
    exact ⟨f (by simp), c, d⟩

theorem reachable_tok (p : Prog) (s : S) (h : Reachable p s) : Tok s none none := by
  induction h with
  | init => exact tok_init
  | step hr hs ih =>
    cases hs with
    | pop _ _ => exact pop_tok p _ (reachable_inv p _ hr) ih (reg_facts p _ hr)
    | complete j _ hi =>
      refine complete_tok p _ j ih hi ?_
      intro ⟨X, hX⟩
      have := ((reachable_inv p _ hr).core.twins_quiet X j hX).2.1
      rw [hi] at this; simp at this


/-! ## part 14: what one handler changes (no invariant needed) -/

/-- effect of a handler that settles nobody -/
structure Obs (s s' : S) : Prop where
  next : s.next ≤ s'.next
  specOf : ∀ i, i < s.next → s'.specOf i = s.specOf i
  st : ∀ i, (s'.jobs i).status = (s.jobs i).status ∨ (s.next ≤ i ∧ (s'.jobs i).status = Status.pending)
  cse : s'.cse = s.cse
  tw : ∀ i t, i < s.next → t ∈ (s.jobs i).twins → t ∈ (s'.jobs i).twins

theorem Obs.refl (s : S) : Obs s s := ⟨Nat.le_refl _, fun _ _ => rfl, fun _ => Or.inl rfl, rfl, fun _ _ _ h => h⟩

theorem Obs.trans {a b c : S} (h1 : Obs a b) (h2 : Obs b c) : Obs a c := by
  refine ⟨Nat.le_trans h1.next h2.next, ?_, ?_, h2.cse.trans h1.cse, ?_⟩
  · intro i hi; rw [h2.specOf i (Nat.lt_of_lt_of_le hi h1.next), h1.specOf i hi]
  · intro i
    rcases h2.st i with e | ⟨e1, e2⟩
    · rw [e]; exact h1.st i
    · exact Or.inr ⟨Nat.le_trans h1.next e1, e2⟩
  · intro i t hi hm; exact h2.tw i t (Nat.lt_of_lt_of_le hi h1.next) (h1.tw i t hi hm)

theorem obs_of_eq {s s' : S} (h1 : s'.next = s.next) (h2 : s'.specOf = s.specOf) (h3 : s'.jobs = s.jobs)
    (h4 : s'.cse = s.cse) : Obs s s' :=
  ⟨by rw [h1]; exact Nat.le_refl _, fun _ _ => by rw [h2], fun _ => Or.inl (by rw [h3]), h4, fun _ _ _ h => by rw [h3]; exact h⟩

theorem obs_setJob (s : S) (j : JobId) (f : JobSt → JobSt) (hst : ∀ js, (f js).status = js.status)
    (htw : ∀ js t, t ∈ js.twins → t ∈ (f js).twins) : Obs s (setJob s j f) := by
  refine ⟨Nat.le_refl _, fun _ _ => rfl, ?_, rfl, ?_⟩
  · intro i; left; simp only [setJob]; split
    · exact hst _
    · rfl
  · intro i t _ hm; simp only [setJob]; split
    · exact htw _ t hm
    · exact hm

theorem obs_checkPending (p : Prog) (s : S) : Obs s (checkPending p s) := obs_of_eq rfl rfl rfl rfl
theorem obs_enqueue (s : S) (e : Ev) : Obs s (enqueue s e) := obs_of_eq rfl rfl rfl rfl
theorem obs_consume (p : Prog) (s : S) (j : JobId) : Obs s (consume p s j) := obs_of_eq rfl rfl rfl rfl
theorem obs_release (p : Prog) (s : S) (j : JobId) : Obs s (release p s j) := obs_of_eq rfl rfl rfl rfl

theorem obs_releaseIf (p : Prog) (s : S) (j : JobId) : Obs s (releaseIf p s j) := by
  unfold releaseIf; split
  · exact (obs_release p s j).trans (obs_checkPending p _)
  · exact Obs.refl s

theorem obs_cached (s : S) (j : JobId) : Obs s (setJob s j fun js => { js with wasCached := true }) :=
  obs_setJob s j _ (fun _ => rfl) (fun _ _ h => h)

theorem obs_execJob (p : Prog) (s : S) (j : JobId) : Obs s (execJob p s j) := by
  unfold execJob
  dsimp only
  split
  · rename_i t0 _
    exact (obs_setJob s t0 (fun js => { js with twins := js.twins ++ [j] }) (fun _ => rfl)
      (fun _ _ h => List.mem_append_left _ h)).trans (obs_checkPending p _)
  · have hc : ∀ ev, Obs s (enqueue (checkPending p (setJob s j fun js => { js with wasCached := true })) ev) :=
      fun ev => ((obs_cached s j).trans (obs_checkPending p _)).trans (obs_enqueue _ ev)
    split
    · exact hc _
    · exact hc _
    · exact hc _
    · split
      · exact obs_of_eq rfl rfl rfl rfl
      · have f1 : Obs s (if p.dryrun = true then s else consume p s j) := by
          split
          · exact Obs.refl s
          · exact obs_consume p s j
        generalize (if p.dryrun = true then s else consume p s j) = s1 at f1
        split
        · exact f1.trans (obs_enqueue _ _)
        · split
          · exact f1
          · have f2 : Obs s1 (if (!(spec p s j).prov || (lookupPending s1 ((spec p s j).key, (spec p s j).ctx)).isSome) = true
                then s1 else { s1 with pendingJobs := s1.pendingJobs ++ [(((spec p s j).key, (spec p s j).ctx), j)] }) := by
              split
              · exact Obs.refl s1
              · exact obs_of_eq rfl rfl rfl rfl
            generalize (if (!(spec p s j).prov || (lookupPending s1 ((spec p s j).key, (spec p s j).ctx)).isSome) = true
                then s1 else { s1 with pendingJobs := s1.pendingJobs ++ [(((spec p s j).key, (spec p s j).ctx), j)] }) = s2 at f2
            exact (f1.trans f2).trans (obs_of_eq rfl rfl rfl rfl)

theorem obs_spawnOne (s : S) (j : JobId) (c : SpecId) : Obs s (spawnOne s j c) := by
  refine ⟨Nat.le_succ _, ?_, ?_, rfl, ?_⟩
  · intro i hi; simp [spawnOne, Nat.ne_of_lt hi]
  · intro i
    by_cases hin : i = s.next
    · subst hin; right; rw [spawnOne_jobs_new]; exact ⟨Nat.le_refl _, rfl⟩
    · left; rw [spawnOne_jobs_ne s j c i hin]
  · intro i t hi hm; rw [spawnOne_jobs_ne s j c i (Nat.ne_of_lt hi)]; exact hm

theorem obs_spawn (s : S) (j : JobId) (cs : List SpecId) : Obs s (spawn s j cs) := by
  unfold spawn
  have h1 : Obs s (cs.foldl (fun s c => spawnOne s j c) s) := by
    induction cs generalizing s with
    | nil => exact Obs.refl s
    | cons c cs ih => exact (obs_spawnOne s j c).trans (ih _)
  dsimp only
  have h2 := h1.trans (obs_setJob _ j (fun js => { js with waiting := cs.length }) (fun _ => rfl) (fun _ _ h => h))
  split
  · exact h2.trans (obs_enqueue _ _)
  · exact h2

theorem obs_doneJob (p : Prog) (s : S) (j : JobId) (f : Bool) : Obs s (doneJob p s j f) := by
  rw [doneJob_eq]
  have f0 := obs_releaseIf p s j
  generalize releaseIf p s j = s1 at f0
  unfold doneRest
  have f1 : Obs s1 (if (!(s1.jobs j).wasCached && (spec p s1 j).prov) = true then
      { s1 with evalTable := (spec p s1 j).key :: s1.evalTable } else s1) := by
    split
    · exact obs_of_eq rfl rfl rfl rfl
    · exact Obs.refl s1
  generalize (if (!(s1.jobs j).wasCached && (spec p s1 j).prov) = true then
      { s1 with evalTable := (spec p s1 j).key :: s1.evalTable } else s1) = s2 at f1
  dsimp only
  split
  · exact (f0.trans f1).trans (obs_enqueue _ _)
  · exact (f0.trans f1).trans (obs_spawn _ _ _)

theorem obs_complete (p : Prog) (s : S) (j : JobId) : Obs s (complete p s j) := by
  unfold complete
  exact (obs_of_eq rfl rfl rfl rfl : Obs s { s with inflight := fun i => if i = j then false else s.inflight i }).trans
    (obs_enqueue _ _)


/-! ## part 15: what a settling handler changes -/

def outcome (b : Bool) : Status := if b then Status.rejected else Status.resolved
def entryOf (p : Prog) (s : S) (u : JobId) (b : Bool) : CseEntry :=
  { key := (spec p s u).key, ctx := (spec p s u).ctx, isErr := b }

/-- the jobs in `U` are settled with outcome `b` and may each record one entry; nothing else changes that
the theorems below look at -/
structure SetObs (p : Prog) (s s' : S) (U : List JobId) (b : Bool) : Prop where
  next : s'.next = s.next
  specOf : s'.specOf = s.specOf
  tw : ∀ i, (s'.jobs i).twins = (s.jobs i).twins
  st : ∀ i, (s'.jobs i).status = if i ∈ U then outcome b else (s.jobs i).status
  cse : ∀ e, e ∈ s'.cse → e ∈ s.cse ∨ ∃ u, u ∈ U ∧ (spec p s u).prov = true ∧ e = entryOf p s u b

theorem SetObs.trans {p : Prog} {a b c : S} {U V : List JobId} {o : Bool} (h1 : SetObs p a b U o)
    (h2 : SetObs p b c V o) : SetObs p a c (U ++ V) o := by
  have hsp : ∀ u, spec p b u = spec p a u := fun u => same_spec h1.specOf u
  refine ⟨h2.next.trans h1.next, h2.specOf.trans h1.specOf, fun i => (h2.tw i).trans (h1.tw i), ?_, ?_⟩
  · intro i
    rw [h2.st, h1.st]
    by_cases hV : i ∈ V
    · simp [hV]
    · by_cases hU : i ∈ U
      · simp [hU]
      · simp [hU, hV]
  · intro e he
    rcases h2.cse e he with a1 | ⟨u, hu, hp, he'⟩
    · rcases h1.cse e a1 with a2 | ⟨u, hu, hp, he'⟩
      · exact Or.inl a2
      · exact Or.inr ⟨u, List.mem_append_left _ hu, hp, he'⟩
    · refine Or.inr ⟨u, List.mem_append_right _ hu, by rw [← hsp]; exact hp, ?_⟩
      rw [he']; unfold entryOf; rw [hsp]

/-- nothing settles, nothing is recorded -/
theorem setObs_quiet {p : Prog} {s s' : S} (o : Bool) (h1 : s'.next = s.next) (h2 : s'.specOf = s.specOf)
    (h3 : ∀ i, (s'.jobs i).twins = (s.jobs i).twins) (h4 : ∀ i, (s'.jobs i).status = (s.jobs i).status)
    (h5 : s'.cse = s.cse) : SetObs p s s' [] o :=
  ⟨h1, h2, h3, fun i => by simp [h4], fun e he => Or.inl (by rw [← h5]; exact he)⟩

theorem setObs_ftw {p : Prog} {s s' : S} (o : Bool) (h : FtW s s') (h2 : s'.specOf = s.specOf) (h5 : s'.cse = s.cse) :
    SetObs p s s' [] o := setObs_quiet o h.ft.next h2 h.ft.tw h.ft.st h5

theorem record_cse (p : Prog) (s : S) (u : JobId) (b : Bool) (e : CseEntry) (he : e ∈ (record p s u b).cse) :
    e ∈ s.cse ∨ ((spec p s u).prov = true ∧ e = entryOf p s u b) := by
  unfold record at he
  dsimp only at he
  split at he
  · rename_i hp
    rcases List.mem_append.mp he with a | a
    · exact Or.inl a
    · exact Or.inr ⟨hp, List.mem_singleton.mp a⟩
  · exact Or.inl he

theorem finalize_eqs (p : Prog) (s : S) (j : JobId) :
    (finalize p s j).next = s.next ∧ (finalize p s j).specOf = s.specOf ∧ (finalize p s j).cse = s.cse := by
  unfold finalize; dsimp only; split <;> exact ⟨rfl, rfl, rfl⟩

theorem releaseIf_eqs (p : Prog) (s : S) (j : JobId) :
    (releaseIf p s j).specOf = s.specOf ∧ (releaseIf p s j).cse = s.cse := by
  unfold releaseIf; split <;> exact ⟨rfl, rfl⟩

/-- `record; status := rejected; notifyParentRejected` -/
theorem setObs_rejCore (p : Prog) (s : S) (u : JobId) :
    SetObs p s (notifyParentRejected (setJob (record p s u true) u fun js => { js with status := Status.rejected }) u)
      [u] true := by
  have f0 := ftw_record p s u true
  have hs0 : (record p s u true).specOf = s.specOf := (grow_record p s u true).specOf
  have hc0 := record_cse p s u true
  generalize record p s u true = s0 at f0 hs0 hc0
  have eff := rejEff s0 u
  have hsame := (same_setJob s0 u (fun js => { js with status := Status.rejected })).trans
    (same_notifyParentRejected (setJob s0 u fun js => { js with status := Status.rejected }) u)
  generalize (notifyParentRejected (setJob s0 u fun js => { js with status := Status.rejected }) u) = s2 at eff hsame
  refine ⟨eff.next.trans f0.ft.next, eff.specOf.trans hs0, fun i => (eff.tw i).trans (f0.ft.tw i), ?_, ?_⟩
  · intro i; rw [eff.st, f0.ft.st]; simp [outcome]
  · intro e he
    rw [hsame.cse] at he
    rcases hc0 e he with a | ⟨a1, a2⟩
    · exact Or.inl a
    · exact Or.inr ⟨u, by simp, a1, a2⟩

/-- `record; status := resolved; notifyParentResolved` -/
theorem setObs_resCore (p : Prog) (s : S) (u : JobId) :
    SetObs p s (notifyParentResolved (setJob (record p s u false) u fun js => { js with status := Status.resolved }) u)
      [u] false := by
  have f0 := ftw_record p s u false
  have hs0 : (record p s u false).specOf = s.specOf := (grow_record p s u false).specOf
  have hc0 := record_cse p s u false
  generalize record p s u false = s0 at f0 hs0 hc0
  have eff := resEff s0 u
  have hsame := (same_setJob s0 u (fun js => { js with status := Status.resolved })).trans
    (same_notifyParentResolved (setJob s0 u fun js => { js with status := Status.resolved }) u)
  generalize (notifyParentResolved (setJob s0 u fun js => { js with status := Status.resolved }) u) = s2 at eff hsame
  refine ⟨eff.next.trans f0.ft.next, eff.specOf.trans hs0, fun i => (eff.tw i).trans (f0.ft.tw i), ?_, ?_⟩
  · intro i; rw [eff.st, f0.ft.st]; simp [outcome]
  · intro e he
    rw [hsame.cse] at he
    rcases hc0 e he with a | ⟨a1, a2⟩
    · exact Or.inl a
    · exact Or.inr ⟨u, by simp, a1, a2⟩

theorem setObs_rejectTwin (p : Prog) (s : S) (t : JobId) : SetObs p s (rejectTwin p s t) [t] true := by
  unfold rejectTwin
  dsimp only
  have h1 : SetObs p s (setJob s t fun js => { js with wasCached := true }) [] true :=
    setObs_ftw true (ftw_cached s t) rfl rfl
  have h2 := setObs_rejCore p (setJob s t fun js => { js with wasCached := true }) t
  have h3 := h1.trans h2
  generalize (notifyParentRejected (setJob (record p (setJob s t fun js => { js with wasCached := true }) t true) t
    fun js => { js with status := Status.rejected }) t) = s2 at h3
  obtain ⟨g1, g2, g3⟩ := finalize_eqs p s2 t
  have h4 : SetObs p s2 (finalize p s2 t) [] true := setObs_ftw true (ftw_finalize p s2 t) g2 g3
  have := h3.trans h4
  simpa using this

theorem setObs_rejectTwins (p : Prog) (l : List JobId) (s : S) : SetObs p s (l.foldl (rejectTwin p) s) l true := by
  induction l generalizing s with
  | nil => exact setObs_quiet true rfl rfl (fun _ => rfl) (fun _ => rfl) rfl
  | cons a l ih =>
    have := (setObs_rejectTwin p s a).trans (ih (rejectTwin p s a))
    simpa using this

theorem setObs_rejectJob (p : Prog) (s : S) (j : JobId) :
    SetObs p s (rejectJob p s j) (j :: (s.jobs j).twins) true := by
  rw [rejectJob_eq]
  unfold rejectRest
  dsimp only
  have f0 := ftw_releaseIf p s j
  obtain ⟨r1, r2⟩ := releaseIf_eqs p s j
  have h0 : SetObs p s (releaseIf p s j) [] true := setObs_ftw true f0 r1 r2
  generalize releaseIf p s j = s1 at h0
  have h1 := h0.trans (setObs_rejCore p s1 j)
  generalize (notifyParentRejected (setJob (record p s1 j true) j fun js => { js with status := Status.rejected }) j) = s2 at h1
  have htw : (s2.jobs j).twins = (s.jobs j).twins := h1.tw j
  have h2 := h1.trans (setObs_rejectTwins p (s2.jobs j).twins s2)
  generalize (List.foldl (rejectTwin p) s2 (s2.jobs j).twins) = s3 at h2
  obtain ⟨g1, g2, g3⟩ := finalize_eqs p s3 j
  have h4 : SetObs p s3 (finalize p s3 j) [] true := setObs_ftw true (ftw_finalize p s3 j) g2 g3
  have := h2.trans h4
  rw [htw] at this
  simpa using this

theorem twinsDone_quiet (p : Prog) (l : List JobId) (s : S) :
    SetObs p s (l.foldl (fun s t => enqueue (setJob s t fun js => { js with wasCached := true }) (Ev.done t true)) s)
      [] false := by
  induction l generalizing s with
  | nil => exact setObs_quiet false rfl rfl (fun _ => rfl) (fun _ => rfl) rfl
  | cons a l ih =>
    have h1 : SetObs p s (enqueue (setJob s a fun js => { js with wasCached := true }) (Ev.done a true)) [] false :=
      setObs_quiet false rfl rfl (ftw_cached s a).ft.tw (ftw_cached s a).ft.st rfl
    have := h1.trans (ih _)
    simpa using this

theorem setObs_resolveJob (p : Prog) (s : S) (j : JobId) :
    SetObs p s (resolveJob p s j) [j] false ∧ ∀ t, t ∈ (s.jobs j).twins → Ev.done t true ∈ (resolveJob p s j).queue := by
  unfold resolveJob
  dsimp only
  have h1 := setObs_resCore p s j
  generalize (notifyParentResolved (setJob (record p s j false) j fun js => { js with status := Status.resolved }) j) = s2 at h1
  have htw : (s2.jobs j).twins = (s.jobs j).twins := h1.tw j
  have h2 := h1.trans (twinsDone_quiet p (s2.jobs j).twins s2)
  obtain ⟨_, m3⟩ := twinsDone_fr (s2.jobs j).twins s2
  generalize (List.foldl (fun s t => enqueue (setJob s t fun js => { js with wasCached := true }) (Ev.done t true)) s2
    (s2.jobs j).twins) = s3 at h2 m3
  obtain ⟨g1, g2, g3⟩ := finalize_eqs p s3 j
  have h4 : SetObs p s3 (finalize p s3 j) [] false := setObs_ftw false (ftw_finalize p s3 j) g2 g3
  have := h2.trans h4
  refine ⟨by simpa using this, ?_⟩
  intro t ht
  rw [(finalize_frame p s3 j).2]
  exact m3 t (by rw [htw]; exact ht)


/-! ## part 16: the step theorems -/

theorem pop_eq_handle (p : Prog) (s : S) (e : Ev) (rest : List Ev) (hq : s.queue = e :: rest) :
    pop p s = handle p (tl s) e := by
  unfold pop; rw [hq]; dsimp only; rw [tl_eq s e rest hq]

/-- what one step does to the status of the jobs, given the token invariant of the source state -/
theorem step_status (p : Prog) (s s' : S) (ht : Tok s none none) (hs : Step p s s') (i : JobId) :
    (s'.jobs i).status = (s.jobs i).status ∨
    (∃ rest, s.queue = Ev.resolve i :: rest ∧ (s'.jobs i).status = Status.resolved) ∨
    (∃ X rest, s.queue = Ev.reject X :: rest ∧ (i = X ∨ i ∈ (s.jobs X).twins) ∧ (s'.jobs i).status = Status.rejected) := by
  have hfresh : ∀ {s1 : S}, Obs (tl s) s1 ∨ Obs s s1 → (s1.jobs i).status = (s.jobs i).status := by
    intro s1 ho
    have hst : (s1.jobs i).status = (s.jobs i).status ∨ (s.next ≤ i ∧ (s1.jobs i).status = Status.pending) := by
      rcases ho with o | o
      · exact o.st i
      · exact o.st i
    rcases hst with a | ⟨a1, a2⟩
    · exact a
    · rw [a2]; exact (((ht.tok i).2.2 a1).2).symm
  cases hs with
  | complete j _ _ => exact Or.inl (hfresh (Or.inr (obs_complete p s j)))
  | pop _ hq =>
    cases hqe : s.queue with
    | nil => exact absurd hqe hq
    | cons e rest =>
      rw [pop_eq_handle p s e rest hqe]
      cases e with
      | exec j => exact Or.inl (hfresh (Or.inl (obs_execJob p (tl s) j)))
      | done j f => exact Or.inl (hfresh (Or.inl (obs_doneJob p (tl s) j f)))
      | resolve j =>
        have h := (setObs_resolveJob p (tl s) j).1.st i
        by_cases hij : i = j
        · subst hij
          refine Or.inr (Or.inl ⟨rest, rfl, ?_⟩)
          show ((resolveJob p (tl s) i).jobs i).status = _
          rw [h]; simp [outcome]
        · left
          show ((resolveJob p (tl s) j).jobs i).status = _
          rw [h]; simp [hij]; rfl
      | reject j =>
        have h := (setObs_rejectJob p (tl s) j).st i
        by_cases hm : i ∈ j :: ((tl s).jobs j).twins
        · have hm' : i = j ∨ i ∈ (s.jobs j).twins := by
            rcases List.mem_cons.mp hm with e | e
            · exact Or.inl e
            · exact Or.inr e
          refine Or.inr (Or.inr ⟨j, rest, rfl, hm', ?_⟩)
          show ((rejectJob p (tl s) j).jobs i).status = _
          rw [h]; simp only [hm, if_true]; rfl
        · left
          show ((rejectJob p (tl s) j).jobs i).status = _
          rw [h]; simp only [hm, if_false]; rfl

/-- A settled promise keeps its branch. -/
theorem settled_stable (p : Prog) (s s' : S) (h : Reachable p s) (hs : Step p s s') (j : JobId)
    (hst : (s.jobs j).status ≠ Status.pending) : (s'.jobs j).status = (s.jobs j).status := by
  have ht := reachable_tok p s h
  have h0 : tot s j = 0 := (ht.tok j).2.1 hst
  rcases step_status p s s' ht hs j with a | ⟨rest, hq, _⟩ | ⟨X, rest, hq, hm, _⟩
  · exact a
  · exact absurd (by rw [hq]; simp) (not_mem_of_tot_zero (e := Ev.resolve j) h0 rfl)
  · have hX : Ev.reject X ∈ s.queue := by rw [hq]; simp
    rcases hm with e | e
    · subst e; exact absurd hX (not_mem_of_tot_zero h0 rfl)
    · have hpX : pend s X := by
        by_cases hp : pend s X
        · exact hp
        · exact absurd hX (not_mem_of_tot_zero ((ht.tok X).2.1 hp) rfl)
      exact absurd ((ht.tw X j e).1 hpX).1 hst

/-- A collapsed duplicate that has settled has settled like the job it was collapsed onto. -/
theorem twin_outcome (p : Prog) (s : S) (h : Reachable p s) (X t : JobId) (hm : t ∈ (s.jobs X).twins)
    (hst : (s.jobs t).status ≠ Status.pending) : (s.jobs t).status = (s.jobs X).status := by
  obtain ⟨a, b, c, _⟩ := (reachable_tok p s h).tw X t hm
  rcases status_cases (s.jobs X).status with e | e | e
  · exact absurd (a e).1 hst
  · rw [e]
    rcases status_cases (s.jobs t).status with e' | e' | e'
    · exact absurd e' hst
    · exact e'
    · exact absurd e' (b e)
  · rw [e]; exact c (by simp) e

/-- The step in which the representative settles settles (rejection) or serves (resolution) every twin. -/
theorem twin_step (p : Prog) (s s' : S) (h : Reachable p s) (hs : Step p s s') (X t : JobId)
    (hm : t ∈ (s.jobs X).twins) (hpX : (s.jobs X).status = Status.pending) :
    ((s'.jobs X).status = Status.rejected → (s'.jobs t).status = Status.rejected) ∧
    ((s'.jobs X).status = Status.resolved → Ev.done t true ∈ s'.queue) := by
  have ht := reachable_tok p s h
  have hnTw : ¬ Tw s X := (ht.tw X t hm).2.2.2.2.2.2.1
  rcases step_status p s s' ht hs X with a | ⟨rest, hq, a⟩ | ⟨Y, rest, hq, hY, a⟩
  · rw [a, hpX]; exact ⟨fun h => by simp at h, fun h => by simp at h⟩
  · refine ⟨fun h => by rw [a] at h; simp at h, fun _ => ?_⟩
    cases hs with
    | complete j _ hi =>
      -- a `complete` step does not change a status
      have := (obs_complete p s j).st X
      rcases this with b | ⟨_, b⟩
      · rw [a, hpX] at b; simp at b
      · rw [a] at b; simp at b
    | pop _ _ =>
      rw [pop_eq_handle p s _ rest hq]
      exact (setObs_resolveJob p (tl s) X).2 t hm
  · refine ⟨fun _ => ?_, fun h => by rw [a] at h; simp at h⟩
    have hXY : X = Y := by
      rcases hY with e | e
      · exact e
      · exact absurd ⟨Y, e⟩ hnTw
    subst hXY
    cases hs with
    | complete j _ hi =>
      have := (obs_complete p s j).st X
      rcases this with b | ⟨_, b⟩
      · rw [a, hpX] at b; simp at b
      · rw [a] at b; simp at b
    | pop _ _ =>
      rw [pop_eq_handle p s _ rest hq]
      show ((rejectJob p (tl s) X).jobs t).status = _
      rw [(setObs_rejectJob p (tl s) X).st t]
      have : t ∈ X :: ((tl s).jobs X).twins := List.mem_cons_of_mem _ hm
      simp only [this, if_true]; rfl


/-! ## part 17: every recorded same-execution entry is the outcome of a job with that key -/

def CseW (p : Prog) (s : S) : Prop :=
  ∀ e, e ∈ s.cse → ∃ j, j < s.next ∧ (spec p s j).key = e.key ∧ (spec p s j).ctx = e.ctx ∧
    (spec p s j).prov = true ∧ (s.jobs j).status = outcome e.isErr

theorem outcome_ne_pending (b : Bool) : outcome b ≠ Status.pending := by cases b <;> simp [outcome]

theorem cseW_step {p : Prog} {s s' : S} (b : Bool) (hw : CseW p s) (hnext : s.next ≤ s'.next)
    (hspec : ∀ i, i < s.next → s'.specOf i = s.specOf i)
    (hstab : ∀ j, (s.jobs j).status ≠ Status.pending → (s'.jobs j).status = (s.jobs j).status)
    (hnew : ∀ e, e ∈ s'.cse → e ∈ s.cse ∨ ∃ u, u < s.next ∧ (spec p s u).prov = true ∧ e = entryOf p s u b ∧
      (s'.jobs u).status = outcome b) : CseW p s' := by
  have hsp : ∀ i, i < s.next → spec p s' i = spec p s i := by
    intro i hi; unfold spec; rw [hspec i hi]
  intro e he
  rcases hnew e he with a | ⟨u, hu, hp, he', hs'⟩
  · obtain ⟨j, j1, j2, j3, j4, j5⟩ := hw e a
    refine ⟨j, Nat.lt_of_lt_of_le j1 hnext, by rw [hsp j j1]; exact j2, by rw [hsp j j1]; exact j3,
      by rw [hsp j j1]; exact j4, ?_⟩
    rw [hstab j (by rw [j5]; exact outcome_ne_pending _)]; exact j5
  · refine ⟨u, Nat.lt_of_lt_of_le hu hnext, ?_, ?_, by rw [hsp u hu]; exact hp, ?_⟩
    · rw [hsp u hu, he']; rfl
    · rw [hsp u hu, he']; rfl
    · rw [hs', he']; rfl

theorem cseW_obs {p : Prog} {s s' : S} (s0 : S) (hw : CseW p s) (hn : s0.next = s.next)
    (hsp : s0.specOf = s.specOf) (hc : s0.cse = s.cse) (ho : Obs s0 s')
    (hstab : ∀ j, (s.jobs j).status ≠ Status.pending → (s'.jobs j).status = (s.jobs j).status) : CseW p s' := by
  refine cseW_step false hw (by rw [← hn]; exact ho.next) (fun i hi => by rw [ho.specOf i (by rw [hn]; exact hi), hsp])
    hstab ?_
  intro e he
  rw [ho.cse, hc] at he
  exact Or.inl he

theorem step_cseW (p : Prog) (s s' : S) (h : Reachable p s) (hw : CseW p s) (hs : Step p s s') : CseW p s' := by
  have ht := reachable_tok p s h
  have hstab := settled_stable p s s' h hs
  cases hs with
  | complete j _ _ => exact cseW_obs s hw rfl rfl rfl (obs_complete p s j) hstab
  | pop _ hq =>
    cases hqe : s.queue with
    | nil => exact absurd hqe hq
    | cons e rest =>
      rw [pop_eq_handle p s e rest hqe] at hstab ⊢
      have hf := tok_head_facts e rest hqe ht
      cases e with
      | exec j =>
        change CseW p (execJob p (tl s) j)
        exact cseW_obs (tl s) hw rfl rfl rfl (obs_execJob p (tl s) j) hstab
      | done j f =>
        change CseW p (doneJob p (tl s) j f)
        exact cseW_obs (tl s) hw rfl rfl rfl (obs_doneJob p (tl s) j f) hstab
      | resolve j =>
        have ho := (setObs_resolveJob p (tl s) j).1
        change CseW p (resolveJob p (tl s) j)
        refine cseW_step false hw (Nat.le_of_eq ho.next.symm) (fun i _ => by rw [ho.specOf]; rfl) hstab ?_
        intro e he
        rcases ho.cse e he with a | ⟨u, hu, hp, he'⟩
        · exact Or.inl a
        · have : u = j := by simpa using hu
          subst this
          refine Or.inr ⟨u, hf.2.2.2, hp, he', ?_⟩
          show ((resolveJob p (tl s) u).jobs u).status = _
          rw [ho.st]; simp
      | reject j =>
        have ho := setObs_rejectJob p (tl s) j
        change CseW p (rejectJob p (tl s) j)
        refine cseW_step true hw (Nat.le_of_eq ho.next.symm) (fun i _ => by rw [ho.specOf]; rfl) hstab ?_
        intro e he
        rcases ho.cse e he with a | ⟨u, hu, hp, he'⟩
        · exact Or.inl a
        · refine Or.inr ⟨u, ?_, hp, he', ?_⟩
          · rcases List.mem_cons.mp hu with e1 | e1
            · rw [e1]; exact hf.2.2.2
            · exact (ht.tw j u e1).2.2.2.2.2.2.2.2
          · show ((rejectJob p (tl s) j).jobs u).status = _
            rw [ho.st]; simp only [hu, if_true]

theorem reachable_cseW (p : Prog) (s : S) (h : Reachable p s) : CseW p s := by
  induction h with
  | init => intro e he; simp [init] at he
  | step hr hs ih => exact step_cseW p _ _ hr ih hs


/-! ## part 18: a same-execution cache hit is served from the outcome of a settled job with that key -/

theorem cseLookup_some {s : S} {sp : Spec} {e : CseEntry} (h : cseLookup s sp = some e) :
    e ∈ s.cse ∧ e.key = sp.key ∧ (sp.ctx = 0 ∨ e.ctx = sp.ctx) := by
  unfold cseLookup at h
  have h1 := List.mem_of_find?_eq_some h
  have h2 := List.find?_some h
  simp only [Bool.and_eq_true, Bool.or_eq_true, beq_iff_eq] at h2
  exact ⟨List.mem_reverse.mp h1, h2.1, h2.2⟩

theorem cse_hit_witness (p : Prog) (s : S) (h : Reachable p s) (sp : Spec) (b : Bool)
    (hh : cacheLookup s sp = Hit.cse b) :
    ∃ j, j < s.next ∧ (spec p s j).key = sp.key ∧ (sp.ctx = 0 ∨ (spec p s j).ctx = sp.ctx) ∧
      (spec p s j).prov = true ∧ (s.jobs j).status = outcome b := by
  unfold cacheLookup at hh
  split at hh
  · simp at hh
  · split at hh
    · rename_i e he
      have hb : e.isErr = b := by simpa using hh
      have hl : cseLookup s sp = some e := by
        split at he
        · exact he
        · simp at he
      obtain ⟨hm, hk, hc⟩ := cseLookup_some hl
      obtain ⟨j, j1, j2, j3, j4, j5⟩ := reachable_cseW p s h e hm
      refine ⟨j, j1, by rw [j2]; exact hk, ?_, j4, by rw [j5, hb]⟩
      rcases hc with c | c
      · exact Or.inl c
      · exact Or.inr (by rw [j3]; exact c)
    · split at hh
      · split at hh <;> simp at hh
        split at hh <;> simp at hh
      · simp at hh

end RedunModel.SchedCore
