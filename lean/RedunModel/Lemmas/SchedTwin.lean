/-
Event uniqueness and twin bookkeeping of `SchedCore` for real (and dry) runs (C06, second clause):
every job has at most one "token" (a queued event, a place in the waiting list, or being in flight), a
settled job has none, `Promise.all` never under-counts, and a collapsed duplicate settles exactly as the job
it was collapsed onto.  Main results: `reachable_tok`, `settled_stable`, `reachable_cseW`.
-/
import RedunModel.Lemmas.SchedDry
namespace RedunModel.SchedCore

/-! ## part 1: tokens -/

/-- number of tokens of job `j`: queued events, waiting-list entries, being in flight -/
def tot (s : S) (j : JobId) : Nat :=
  tk s j + s.pendingLimits.count j + (if s.inflight j then 1 else 0)

theorem countP_map_exec (l : List JobId) (j : JobId) :
    (l.map Ev.exec).countP (fun e => evJob e == j) = l.count j := by
  induction l with
  | nil => rfl
  | cons a l ih =>
    rw [List.map_cons, List.countP_cons, List.count_cons, ih]; rfl

theorem tot_checkPending (p : Prog) (s : S) (j : JobId) : tot (checkPending p s) j = tot s j := by
  unfold tot tk
  rw [checkPending_queue, checkPending_pend, checkPending_inflight, List.countP_append, countP_map_exec]
  have := scan_count p s.specOf s.used s.pendingLimits [] (fun _ => 0) j
  omega

theorem count_exec_le_tk (s : S) (j : JobId) : s.queue.count (Ev.exec j) ≤ tk s j := by
  unfold tk
  rw [List.count_eq_countP]
  apply List.countP_mono_left
  intro e _ he
  simp only [beq_iff_eq] at he
  subst he; simp [evJob]

theorem EW_le_tot (s : S) (j : JobId) : EW s j ≤ tot s j := by
  unfold EW tot
  have := count_exec_le_tk s j
  omega

theorem tk_le_tot (s : S) (j : JobId) : tk s j ≤ tot s j := by unfold tot; omega

theorem tot_pos_of_mem {s : S} {e : Ev} (h : e ∈ s.queue) : 1 ≤ tot s (evJob e) :=
  Nat.le_trans (tk_pos_of_mem h) (tk_le_tot s _)

theorem not_mem_of_tot_zero {s : S} {e : Ev} {j : JobId} (h : tot s j = 0) (he : evJob e = j) : e ∉ s.queue :=
  not_mem_of_tk_zero (Nat.le_zero.mp (h ▸ tk_le_tot s j)) he

theorem infl_false_of_tot_zero {s : S} {j : JobId} (h : tot s j = 0) : s.inflight j = false := by
  unfold tot at h
  by_cases hi : s.inflight j = true
  · simp [hi] at h
  · simpa using hi

theorem EW_zero_of_tot_zero {s : S} {j : JobId} (h : tot s j = 0) : EW s j = 0 :=
  Nat.le_zero.mp (h ▸ EW_le_tot s j)

/-! ## the invariant -/

/-- `x` exempts one job from the `Promise.all` lower bound (its children are being spawned); `y` is the job
being rejected, whose twins are still being rejected in-line. -/
structure Tok (s : S) (x y : Option JobId) : Prop where
  tok : ∀ j, tot s j ≤ 1 ∧ (¬ pend s j → tot s j = 0) ∧ (s.next ≤ j → tot s j = 0 ∧ pend s j)
  par : ∀ j c, c < s.next → (s.jobs c).parent = some j → pend s c → (s.jobs j).evalFailed = false →
    tot s j = 0 ∧ pend s j
  pre : ∀ j, (1 ≤ EW s j ∨ s.inflight j = true ∨ ∃ f, Ev.done j f ∈ s.queue) → noKids s j
  pre2 : ∀ j, 1 ≤ EW s j → (s.jobs j).twins = []
  rej : ∀ j c, c < s.next → (s.jobs c).parent = some j → (s.jobs c).status = Status.rejected →
    (s.jobs j).evalFailed = true
  lb : ∀ j, some j ≠ x → (s.jobs j).evalFailed = false → cntPend s j ≤ (s.jobs j).waiting
  parlt : ∀ c par, c < s.next → (s.jobs c).parent = some par → par < c
  tw : ∀ X t, t ∈ (s.jobs X).twins →
    (pend s X → pend s t ∧ tot s t = 0) ∧
    ((s.jobs X).status = Status.resolved → (s.jobs t).status ≠ Status.rejected) ∧
    (some X ≠ y → (s.jobs X).status = Status.rejected → (s.jobs t).status = Status.rejected) ∧
    Ev.reject t ∉ s.queue ∧ Ev.done t false ∉ s.queue ∧ noKids s t ∧ ¬ Tw s X ∧
    (∀ Y, t ∈ (s.jobs Y).twins → Y = X) ∧ t < s.next
  nodup : ∀ X, (s.jobs X).twins.Nodup

/-- frame: tokens, non-exec events and the job fields are unchanged -/
structure Ft (s s' : S) : Prop where
  next : s'.next = s.next
  infl : s'.inflight = s.inflight
  st : ∀ i, (s'.jobs i).status = (s.jobs i).status
  ef : ∀ i, (s'.jobs i).evalFailed = (s.jobs i).evalFailed
  par : ∀ i, (s'.jobs i).parent = (s.jobs i).parent
  tw : ∀ i, (s'.jobs i).twins = (s.jobs i).twins
  ew : ∀ j, EW s' j = EW s j
  tt : ∀ j, tot s' j = tot s j
  qm : ∀ e, (∀ k, e ≠ Ev.exec k) → (e ∈ s'.queue ↔ e ∈ s.queue)

theorem Ft.refl (s : S) : Ft s s :=
  ⟨rfl, rfl, fun _ => rfl, fun _ => rfl, fun _ => rfl, fun _ => rfl, fun _ => rfl, fun _ => rfl, fun _ _ => Iff.rfl⟩

theorem Ft.trans {a b c : S} (h1 : Ft a b) (h2 : Ft b c) : Ft a c :=
  ⟨h2.next.trans h1.next, h2.infl.trans h1.infl, fun i => (h2.st i).trans (h1.st i),
    fun i => (h2.ef i).trans (h1.ef i), fun i => (h2.par i).trans (h1.par i), fun i => (h2.tw i).trans (h1.tw i),
    fun j => (h2.ew j).trans (h1.ew j), fun j => (h2.tt j).trans (h1.tt j),
    fun e he => (h2.qm e he).trans (h1.qm e he)⟩

theorem Ft.pendIff {s s' : S} (h : Ft s s') (j : JobId) : pend s' j ↔ pend s j := by unfold pend; rw [h.st]
theorem Ft.twIff {s s' : S} (h : Ft s s') (j : JobId) : Tw s' j ↔ Tw s j := by unfold Tw; simp only [h.tw]
theorem Ft.noKidsIff {s s' : S} (h : Ft s s') (j : JobId) : noKids s' j ↔ noKids s j := by
  unfold noKids; rw [h.next]; simp only [h.par]

/-- frame step with a new `waiting` field and possibly other exemptions -/
theorem Ft.tokW {s s' : S} {x x' y : Option JobId} (h : Ft s s') (ht : Tok s x y)
    (hlb : ∀ j, some j ≠ x' → (s.jobs j).evalFailed = false → cntPend s j ≤ (s'.jobs j).waiting) : Tok s' x' y := by
  refine ⟨?_, ?_, ?_, ?_, ?_, ?_, ?_, ?_, ?_⟩
  · intro j; rw [h.tt, h.pendIff, h.next]; exact ht.tok j
  · intro j c hc hp hpc he
    rw [h.next] at hc; rw [h.par] at hp; rw [h.pendIff] at hpc; rw [h.ef] at he
    rw [h.tt, h.pendIff]; exact ht.par j c hc hp hpc he
  · intro j hq
    rw [h.noKidsIff]; apply ht.pre j
    rcases hq with a | a | ⟨f, a⟩
    · exact Or.inl (by rw [← h.ew]; exact a)
    · exact Or.inr (Or.inl (by rw [← h.infl]; exact a))
    · exact Or.inr (Or.inr ⟨f, (h.qm _ (by intro k; simp)).mp a⟩)
  · intro j hj; rw [h.ew] at hj; rw [h.tw]; exact ht.pre2 j hj
  · intro j c hc hp hs
    rw [h.next] at hc; rw [h.par] at hp; rw [h.st] at hs
    rw [h.ef]; exact ht.rej j c hc hp hs
  · intro j hx he
    rw [h.ef] at he
    rw [cntPend_congr h.next h.par h.st]; exact hlb j hx he
  · intro c par hc hp
    rw [h.next] at hc; rw [h.par] at hp; exact ht.parlt c par hc hp
  · intro X t hm
    rw [h.tw] at hm
    obtain ⟨a, b, c, d, e, f, g, i, k⟩ := ht.tw X t hm
    refine ⟨?_, ?_, ?_, ?_, ?_, (h.noKidsIff t).mpr f, fun hT => g ((h.twIff X).mp hT), ?_, by rw [h.next]; exact k⟩
    · intro hp; rw [h.pendIff] at hp; rw [h.pendIff, h.tt]; exact a hp
    · rw [h.st, h.st]; exact b
    · rw [h.st, h.st]; exact c
    · intro hq; exact d ((h.qm _ (by intro k; simp)).mp hq)
    · intro hq; exact e ((h.qm _ (by intro k; simp)).mp hq)
    · intro Y hY; rw [h.tw] at hY; exact i Y hY
  · intro X; rw [h.tw]; exact ht.nodup X

theorem Ft.tok {s s' : S} {x y : Option JobId} (h : Ft s s') (hw : ∀ i, (s'.jobs i).waiting = (s.jobs i).waiting)
    (ht : Tok s x y) : Tok s' x y :=
  h.tokW ht (fun j hx he => by rw [hw]; exact ht.lb j hx he)


/-! ## part 2: primitives that are frames -/

structure FtW (s s' : S) : Prop where
  ft : Ft s s'
  wt : ∀ i, (s'.jobs i).waiting = (s.jobs i).waiting

theorem FtW.refl (s : S) : FtW s s := ⟨Ft.refl s, fun _ => rfl⟩
theorem FtW.trans {a b c : S} (h1 : FtW a b) (h2 : FtW b c) : FtW a c :=
  ⟨h1.ft.trans h2.ft, fun i => (h2.wt i).trans (h1.wt i)⟩
theorem FtW.tok {s s' : S} {x y : Option JobId} (h : FtW s s') (ht : Tok s x y) : Tok s' x y := h.ft.tok h.wt ht

theorem ftw_of_eq {s s' : S} (h1 : s'.next = s.next) (h3 : s'.inflight = s.inflight) (h6 : s'.jobs = s.jobs)
    (h7 : s'.queue = s.queue) (h8 : s'.pendingLimits = s.pendingLimits) : FtW s s' :=
  ⟨⟨h1, h3, fun _ => by rw [h6], fun _ => by rw [h6], fun _ => by rw [h6], fun _ => by rw [h6],
    fun _ => by unfold EW; rw [h7, h8], fun _ => by unfold tot tk; rw [h7, h8, h3], fun _ _ => by rw [h7]⟩,
    fun _ => by rw [h6]⟩

theorem ftw_cached (s : S) (j : JobId) : FtW s (setJob s j fun js => { js with wasCached := true }) := by
  refine ⟨⟨rfl, rfl, ?_, ?_, ?_, ?_, fun _ => rfl, fun _ => rfl, fun _ _ => Iff.rfl⟩, ?_⟩ <;>
  · intro i; simp only [setJob]; split <;> rfl

theorem ftw_checkPending (p : Prog) (s : S) : FtW s (checkPending p s) :=
  ⟨⟨rfl, rfl, fun _ => rfl, fun _ => rfl, fun _ => rfl, fun _ => rfl, fun j => checkPending_EW p s j,
    fun j => tot_checkPending p s j,
    fun e he => by rw [checkPending_queue]; exact mem_append_exec_iff _ _ e he⟩, fun _ => rfl⟩

theorem ftw_consume (p : Prog) (s : S) (j : JobId) : FtW s (consume p s j) := ftw_of_eq rfl rfl rfl rfl rfl
theorem ftw_release (p : Prog) (s : S) (j : JobId) : FtW s (release p s j) := ftw_of_eq rfl rfl rfl rfl rfl

theorem ftw_releaseIf (p : Prog) (s : S) (j : JobId) : FtW s (releaseIf p s j) := by
  unfold releaseIf; split
  · exact (ftw_release p s j).trans (ftw_checkPending p _)
  · exact FtW.refl s

theorem ftw_record (p : Prog) (s : S) (j : JobId) (b : Bool) : FtW s (record p s j b) := by
  unfold record; dsimp only; split
  · exact ftw_of_eq rfl rfl rfl rfl rfl
  · exact FtW.refl s

theorem ftw_finalize (p : Prog) (s : S) (j : JobId) : FtW s (finalize p s j) := by
  unfold finalize; dsimp only; split
  · exact ftw_of_eq rfl rfl rfl rfl rfl
  · exact FtW.refl s


/-! ## part 3: queue primitives -/

theorem tot_tl (s : S) (e : Ev) (rest : List Ev) (hq : s.queue = e :: rest) (j : JobId) :
    tot s j = tot (tl s) j + (if evJob e = j then 1 else 0) := by
  have := tk_tl s e rest hq j
  unfold tot
  show tk s j + s.pendingLimits.count j + (if s.inflight j = true then 1 else 0) =
    tk (tl s) j + s.pendingLimits.count j + (if s.inflight j = true then 1 else 0) + _
  omega

theorem tok_tl {s : S} {x y : Option JobId} (e : Ev) (rest : List Ev) (hq : s.queue = e :: rest) (ht : Tok s x y) :
    Tok (tl s) x y := by
  have hle : ∀ j, tot (tl s) j ≤ tot s j := by intro j; rw [tot_tl s e rest hq j]; omega
  have hz : ∀ j, tot s j = 0 → tot (tl s) j = 0 := fun j h => Nat.le_zero.mp (h ▸ hle j)
  have hmem : ∀ e', e' ∈ (tl s).queue → e' ∈ s.queue := fun e' h => List.mem_of_mem_tail h
  refine ⟨?_, ?_, ?_, ?_, ht.rej, ht.lb, ht.parlt, ?_, ht.nodup⟩
  · intro j
    obtain ⟨a, b, c⟩ := ht.tok j
    exact ⟨Nat.le_trans (hle j) a, fun h => hz j (b h), fun h => ⟨hz j (c h).1, (c h).2⟩⟩
  · intro j c hc hp hpc he
    obtain ⟨a, b⟩ := ht.par j c hc hp hpc he
    exact ⟨hz j a, b⟩
  · intro j hq'
    apply ht.pre j
    rcases hq' with a | a | ⟨f, a⟩
    · exact Or.inl (Nat.le_trans a (tl_EW_le s j))
    · exact Or.inr (Or.inl a)
    · exact Or.inr (Or.inr ⟨f, hmem _ a⟩)
  · intro j hj; exact ht.pre2 j (Nat.le_trans hj (tl_EW_le s j))
  · intro X t hm
    obtain ⟨a, b, c, d, e', f, g, i, k⟩ := ht.tw X t hm
    exact ⟨fun hp => ⟨(a hp).1, hz t (a hp).2⟩, b, c, fun h => d (hmem _ h), fun h => e' (hmem _ h), f, g, i, k⟩

theorem tot_enqueue (s : S) (e : Ev) (j : JobId) :
    tot (enqueue s e) j = tot s j + (if evJob e = j then 1 else 0) := by
  have := tk_enqueue s e j
  unfold tot
  show tk (enqueue s e) j + s.pendingLimits.count j + (if s.inflight j = true then 1 else 0) = _
  omega

/-- queueing a post-exec event of a pending job that has no token -/
theorem tok_enqueue {s : S} {x y : Option JobId} (e : Ev) (j : JobId) (ht : Tok s x y) (hej : evJob e = j)
    (hne : ∀ k, e ≠ Ev.exec k) (htot : tot s j = 0) (hp : pend s j) (hlt : j < s.next)
    (hpar : ∀ c, c < s.next → (s.jobs c).parent = some j → pend s c → (s.jobs j).evalFailed = true)
    (hpre : (∃ f, e = Ev.done j f) → noKids s j)
    (htwin : ∀ X, j ∈ (s.jobs X).twins → ¬ pend s X ∧ e ≠ Ev.reject j ∧ e ≠ Ev.done j false) :
    Tok (enqueue s e) x y := by
  have htot' := tot_enqueue s e
  rw [hej] at htot'
  have hEW : ∀ i, EW (enqueue s e) i = EW s i := (fr_enqueue s e hne).ew
  have hmem : ∀ e', e' ∈ (enqueue s e).queue → e' ∈ s.queue ∨ e' = e := by
    intro e' h
    rcases List.mem_append.mp h with a | a
    · exact Or.inl a
    · exact Or.inr (List.mem_singleton.mp a)
  refine ⟨?_, ?_, ?_, ?_, ht.rej, ht.lb, ht.parlt, ?_, ht.nodup⟩
  · intro i
    obtain ⟨a, b, c⟩ := ht.tok i
    rw [htot']
    by_cases hij : j = i
    · subst hij
      simp only [if_true]
      exact ⟨by omega, fun h => absurd hp h, fun h => absurd hlt (Nat.not_lt.mpr h)⟩
    · simp only [hij, if_false, Nat.add_zero]
      exact ⟨a, b, c⟩
  · intro i c hc hpc hpp he
    rw [htot']
    by_cases hij : j = i
    · subst hij
      have := hpar c hc hpc hpp
      have he' : (s.jobs j).evalFailed = false := he
      rw [this] at he'; simp at he'
    · simp only [hij, if_false, Nat.add_zero]
      exact ht.par i c hc hpc hpp he
  · intro i hq
    rcases hq with a | a | ⟨f, a⟩
    · exact ht.pre i (Or.inl (by rw [← hEW]; exact a))
    · exact ht.pre i (Or.inr (Or.inl a))
    · rcases hmem _ a with b | b
      · exact ht.pre i (Or.inr (Or.inr ⟨f, b⟩))
      · have : i = j := by rw [← hej, ← b]; rfl
        subst this
        exact hpre ⟨f, b.symm⟩
  · intro i hi; rw [hEW] at hi; exact ht.pre2 i hi
  · intro X t hm
    obtain ⟨a, b, c, d, e', f, g, i, k⟩ := ht.tw X t hm
    refine ⟨?_, b, c, ?_, ?_, f, g, i, k⟩
    · intro hpX
      refine ⟨(a hpX).1, ?_⟩
      rw [htot']
      by_cases hjt : j = t
      · subst hjt; exact absurd hpX (htwin X hm).1
      · simp only [hjt, if_false, Nat.add_zero]; exact (a hpX).2
    · intro hq
      rcases hmem _ hq with h1 | h1
      · exact d h1
      · have : t = j := by rw [← hej, ← h1]; rfl
        subst this
        exact (htwin X hm).2.1 h1.symm
    · intro hq
      rcases hmem _ hq with h1 | h1
      · exact e' h1
      · have : t = j := by rw [← hej, ← h1]; rfl
        subst this
        exact (htwin X hm).2.2 h1.symm


/-! ## part 4: the non-queue tokens and `Job.collapse` -/

/-- a pre-exec job `j` without token gets one outside the event queue (waiting list / in flight) -/
theorem tok_gain {s s' : S} {x y : Option JobId} (j : JobId) (ht : Tok s x y) (hjobs : s'.jobs = s.jobs)
    (hq : s'.queue = s.queue) (hn : s'.next = s.next)
    (htot' : ∀ i, tot s' i = tot s i + (if i = j then 1 else 0))
    (hEW : ∀ i, i ≠ j → EW s' i = EW s i) (hinfl : ∀ i, i ≠ j → s'.inflight i = s.inflight i)
    (htot : tot s j = 0) (hp : pend s j) (hlt : j < s.next) (hnk : noKids s j) (htw : (s.jobs j).twins = [])
    (hnt : ¬ Tw s j) : Tok s' x y := by
  have hpend : ∀ i, pend s' i ↔ pend s i := by intro i; unfold pend; rw [hjobs]
  have hnoKids : ∀ i, noKids s' i ↔ noKids s i := by intro i; unfold noKids; rw [hn, hjobs]
  have hTw : ∀ i, Tw s' i ↔ Tw s i := by intro i; unfold Tw; rw [hjobs]
  refine ⟨?_, ?_, ?_, ?_, ?_, ?_, ?_, ?_, ?_⟩
  · intro i
    obtain ⟨a, b, c⟩ := ht.tok i
    rw [htot', hpend, hn]
    by_cases hij : i = j
    · subst hij
      simp only [if_true]
      exact ⟨by omega, fun h => absurd hp h, fun h => absurd hlt (Nat.not_lt.mpr h)⟩
    · simp only [hij, if_false, Nat.add_zero]; exact ⟨a, b, c⟩
  · intro i c hc hpc hpp he
    rw [hn] at hc; rw [hjobs] at hpc he; rw [hpend] at hpp
    rw [htot', hpend]
    by_cases hij : i = j
    · subst hij; exact absurd hpc (hnk c hc)
    · simp only [hij, if_false, Nat.add_zero]; exact ht.par i c hc hpc hpp he
  · intro i hpre
    rw [hnoKids]
    by_cases hij : i = j
    · subst hij; exact hnk
    · apply ht.pre i
      rcases hpre with a | a | ⟨f, a⟩
      · exact Or.inl (by rw [← hEW i hij]; exact a)
      · exact Or.inr (Or.inl (by rw [← hinfl i hij]; exact a))
      · exact Or.inr (Or.inr ⟨f, by rw [← hq]; exact a⟩)
  · intro i hi
    rw [hjobs]
    by_cases hij : i = j
    · subst hij; exact htw
    · rw [hEW i hij] at hi; exact ht.pre2 i hi
  · intro i c hc hpc hs
    rw [hn] at hc; rw [hjobs] at hpc hs ⊢; exact ht.rej i c hc hpc hs
  · intro i hx he
    rw [hjobs] at he
    have : cntPend s' i = cntPend s i := cntPend_congr hn (fun c => by rw [hjobs]) (fun c => by rw [hjobs]) i
    rw [this, hjobs]; exact ht.lb i hx he
  · intro c par hc hp'
    rw [hn] at hc; rw [hjobs] at hp'; exact ht.parlt c par hc hp'
  · intro X t hm
    rw [hjobs] at hm
    obtain ⟨a, b, c, d, e', f, g, i, k⟩ := ht.tw X t hm
    have htj : t ≠ j := fun e => hnt (e ▸ ⟨X, hm⟩)
    refine ⟨?_, by rw [hjobs]; exact b, by rw [hjobs]; exact c, by rw [hq]; exact d, by rw [hq]; exact e',
      (hnoKids t).mpr f, fun h => g ((hTw X).mp h), by rw [hjobs]; exact i, by rw [hn]; exact k⟩
    intro hpX
    rw [hpend] at hpX
    rw [hpend, htot']
    simp only [htj, if_false, Nat.add_zero]; exact a hpX
  · intro X; rw [hjobs]; exact ht.nodup X

theorem tot_pendAppend (s : S) (j i : JobId) :
    tot { s with pendingLimits := s.pendingLimits ++ [j] } i = tot s i + (if i = j then 1 else 0) := by
  unfold tot tk
  simp only [List.count_append, List.count_cons, List.count_nil]
  by_cases e : i = j
  · subst e; simp; omega
  · have : ¬ (j == i) = true := by simpa using fun e' => e e'.symm
    simp [e, this]

theorem tok_pendAppend {s : S} {x y : Option JobId} (j : JobId) (ht : Tok s x y) (htot : tot s j = 0)
    (hp : pend s j) (hlt : j < s.next) (hnk : noKids s j) (htw : (s.jobs j).twins = []) (hnt : ¬ Tw s j) :
    Tok { s with pendingLimits := s.pendingLimits ++ [j] } x y :=
  tok_gain j ht rfl rfl rfl (tot_pendAppend s j)
    (fun i hi => by rw [EW_pendAppend]; simp [hi]) (fun _ _ => rfl) htot hp hlt hnk htw hnt

theorem tok_setInfl {s : S} {x y : Option JobId} (j : JobId) (sub : List JobId) (ht : Tok s x y)
    (htot : tot s j = 0) (hp : pend s j) (hlt : j < s.next) (hnk : noKids s j) (htw : (s.jobs j).twins = [])
    (hnt : ¬ Tw s j) :
    Tok { s with inflight := fun i => if i = j then true else s.inflight i, submits := sub } x y := by
  have hi := infl_false_of_tot_zero htot
  refine tok_gain j ht rfl rfl rfl ?_ (fun _ _ => rfl) (fun i hij => by simp [hij]) htot hp hlt hnk htw hnt
  intro i
  unfold tot tk
  by_cases e : i = j
  · subst e; simp [hi]
  · simp [e]

/-- the executor reports: the in-flight token disappears (the completion event follows) -/
theorem tok_clearInfl {s : S} {x y : Option JobId} (j : JobId) (ht : Tok s x y) :
    Tok { s with inflight := fun i => if i = j then false else s.inflight i } x y := by
  have hle : ∀ i, tot { s with inflight := fun i => if i = j then false else s.inflight i } i ≤ tot s i := by
    intro i; unfold tot tk
    by_cases e : i = j
    · subst e; simp
    · simp [e]
  have hz : ∀ i, tot s i = 0 → tot { s with inflight := fun i => if i = j then false else s.inflight i } i = 0 :=
    fun i h => Nat.le_zero.mp (h ▸ hle i)
  refine ⟨?_, ?_, ?_, ht.pre2, ht.rej, ht.lb, ht.parlt, ?_, ht.nodup⟩
  · intro i
    obtain ⟨a, b, c⟩ := ht.tok i
    exact ⟨Nat.le_trans (hle i) a, fun h => hz i (b h), fun h => ⟨hz i (c h).1, (c h).2⟩⟩
  · intro i c hc hp hpc he
    obtain ⟨a, b⟩ := ht.par i c hc hp hpc he
    exact ⟨hz i a, b⟩
  · intro i hq
    apply ht.pre i
    rcases hq with a | a | a
    · exact Or.inl a
    · refine Or.inr (Or.inl ?_)
      have a' : (if i = j then false else s.inflight i) = true := a
      by_cases e : i = j
      · simp [e] at a'
      · simpa [e] using a'
    · exact Or.inr (Or.inr a)
  · intro X t hm
    obtain ⟨a, b, c, d, e', f, g, i, k⟩ := ht.tw X t hm
    exact ⟨fun hp => ⟨(a hp).1, hz t (a hp).2⟩, b, c, d, e', f, g, i, k⟩


/-- `Job.collapse`: the pre-exec job `j` (no token left) joins the twins of the pending, non-collapsed `t0` -/
theorem tok_addTwin {s : S} {x y : Option JobId} {j t0 : JobId} (ht : Tok s x y) (htot : tot s j = 0)
    (hp : pend s j) (hlt : j < s.next) (hnk : noKids s j) (htwj : (s.jobs j).twins = []) (hnt : ¬ Tw s j)
    (hpt : pend s t0) (hnt0 : ¬ Tw s t0) (hne : t0 ≠ j) (hew0 : EW s t0 = 0) :
    Tok (setJob s t0 fun js => { js with twins := js.twins ++ [j] }) x y := by
  generalize hs' : (setJob s t0 fun js => { js with twins := js.twins ++ [j] }) = s'
  have hst : ∀ i, (s'.jobs i).status = (s.jobs i).status := by
    intro i; rw [← hs']; simp only [setJob]; split <;> rfl
  have hwt : ∀ i, (s'.jobs i).waiting = (s.jobs i).waiting := by
    intro i; rw [← hs']; simp only [setJob]; split <;> rfl
  have hef : ∀ i, (s'.jobs i).evalFailed = (s.jobs i).evalFailed := by
    intro i; rw [← hs']; simp only [setJob]; split <;> rfl
  have hpar : ∀ i, (s'.jobs i).parent = (s.jobs i).parent := by
    intro i; rw [← hs']; simp only [setJob]; split <;> rfl
  have htwins : ∀ i, (s'.jobs i).twins = if i = t0 then (s.jobs i).twins ++ [j] else (s.jobs i).twins := by
    intro i; rw [← hs']; simp only [setJob]; split <;> rfl
  have hinv : ∀ i u, u ∈ (s'.jobs i).twins → u ∈ (s.jobs i).twins ∨ (u = j ∧ i = t0) := by
    intro i u hu; rw [htwins] at hu; split at hu
    · rename_i e
      rcases List.mem_append.mp hu with a | a
      · exact Or.inl a
      · simp at a; exact Or.inr ⟨a, e⟩
    · exact Or.inl hu
  have hTw : ∀ u, Tw s' u → Tw s u ∨ u = j := by
    rintro u ⟨X, hX⟩
    rcases hinv X u hX with a | a
    · exact Or.inl ⟨X, a⟩
    · exact Or.inr a.1
  have hrest : s'.next = s.next ∧ s'.inflight = s.inflight ∧ s'.queue = s.queue ∧
      s'.pendingLimits = s.pendingLimits := by
    rw [← hs']; exact ⟨rfl, rfl, rfl, rfl⟩
  obtain ⟨f1, f3, f6, f7⟩ := hrest
  have hEW : ∀ i, EW s' i = EW s i := by intro i; unfold EW; rw [f6, f7]
  have htt : ∀ i, tot s' i = tot s i := by intro i; unfold tot tk; rw [f6, f7, f3]
  have hpend : ∀ i, pend s' i ↔ pend s i := by intro i; unfold pend; rw [hst]
  have hnoKids : ∀ i, noKids s' i ↔ noKids s i := by intro i; unfold noKids; rw [f1]; simp only [hpar]
  have hj0 : ∀ e, evJob e = j → e ∉ s.queue := fun e he => not_mem_of_tot_zero htot he
  refine ⟨?_, ?_, ?_, ?_, ?_, ?_, ?_, ?_, ?_⟩
  · intro i; rw [htt, hpend, f1]; exact ht.tok i
  · intro i c hc hpc hpp he
    rw [f1] at hc; rw [hpar] at hpc; rw [hpend] at hpp; rw [hef] at he
    rw [htt, hpend]; exact ht.par i c hc hpc hpp he
  · intro i hq
    rw [hnoKids]; apply ht.pre i
    rw [hEW, f3, f6] at hq; exact hq
  · intro i hi
    rw [hEW] at hi
    rw [htwins]; split
    · rename_i e; subst e; omega
    · exact ht.pre2 i hi
  · intro i c hc hpc hs
    rw [f1] at hc; rw [hpar] at hpc; rw [hst] at hs
    rw [hef]; exact ht.rej i c hc hpc hs
  · intro i hx he
    rw [hef] at he
    rw [hwt, cntPend_congr f1 hpar hst]; exact ht.lb i hx he
  · intro c par hc hpc
    rw [f1] at hc; rw [hpar] at hpc; exact ht.parlt c par hc hpc
  · intro X t hm
    rcases hinv X t hm with hold | ⟨e1, e2⟩
    · obtain ⟨a, b, c, d, e', f, g, i, k⟩ := ht.tw X t hold
      refine ⟨?_, by rw [hst, hst]; exact b, by rw [hst, hst]; exact c, by rw [f6]; exact d, by rw [f6]; exact e',
        (hnoKids t).mpr f, ?_, ?_, by rw [f1]; exact k⟩
      · intro hpX; rw [hpend] at hpX; rw [hpend, htt]; exact a hpX
      · intro h
        rcases hTw X h with c' | c'
        · exact g c'
        · subst c'; rw [htwj] at hold; simp at hold
      · intro Y hY
        rcases hinv Y t hY with h1 | ⟨h1, _⟩
        · exact i Y h1
        · subst h1; exact absurd ⟨X, hold⟩ hnt
    · subst e1; subst e2
      refine ⟨fun _ => ⟨(hpend t).mpr hp, by rw [htt]; exact htot⟩, ?_, ?_, ?_, ?_, (hnoKids t).mpr hnk, ?_, ?_,
        by rw [f1]; exact hlt⟩
      · intro h; rw [hst] at h; unfold pend at hpt; rw [hpt] at h; simp at h
      · intro _ h; rw [hst] at h; unfold pend at hpt; rw [hpt] at h; simp at h
      · rw [f6]; exact hj0 _ rfl
      · rw [f6]; exact hj0 _ rfl
      · intro h
        rcases hTw X h with c' | c'
        · exact hnt0 c'
        · exact hne c'
      · intro Y hY
        rcases hinv Y t hY with h1 | ⟨_, h1⟩
        · exact absurd ⟨Y, h1⟩ hnt
        · exact h1
  · intro X
    rw [htwins]; split
    · rename_i e; subst e
      rw [List.nodup_append]
      refine ⟨ht.nodup X, by simp, ?_⟩
      intro a ha b hb
      simp at hb; subst hb
      intro e; subst e; exact hnt ⟨X, ha⟩
    · exact ht.nodup X


/-! ## part 6: spawning the children -/

theorem tot_spawnOne (s : S) (j : JobId) (c : SpecId) (i : JobId) :
    tot (spawnOne s j c) i = tot s i + (if s.next = i then 1 else 0) := by
  have := tk_spawnOne s j c i
  unfold tot
  show tk (spawnOne s j c) i + s.pendingLimits.count i + (if s.inflight i = true then 1 else 0) = _
  omega

theorem tok_spawnOne {s : S} {y : Option JobId} {j : JobId} {c : SpecId} (ht : Tok s (some j) y)
    (htot : tot s j = 0) (hp : pend s j) (hlt : j < s.next) (hnt : ¬ Tw s j) :
    Tok (spawnOne s j c) (some j) y := by
  have hjn : j ≠ s.next := Nat.ne_of_lt hlt
  have hpend : ∀ i, i ≠ s.next → (pend (spawnOne s j c) i ↔ pend s i) := by
    intro i hi; unfold pend; rw [spawnOne_jobs_ne s j c i hi]
  have htn := tot_spawnOne s j c
  have htne : ∀ i, i ≠ s.next → tot (spawnOne s j c) i = tot s i := by
    intro i hi; rw [htn]; have : ¬ s.next = i := fun e => hi e.symm
    simp [this]
  have hEWne : ∀ i, i ≠ s.next → EW (spawnOne s j c) i = EW s i := by
    intro i hi; rw [spawnOne_EW]; simp [hi]
  have hnokid : ∀ c', c' < s.next → (s.jobs c').parent ≠ some s.next := by
    intro c' hc' hp'
    have := ht.parlt c' _ hc' hp'
    exact absurd (Nat.lt_trans this hc') (Nat.lt_irrefl _)
  have hmem : ∀ e, e ∈ (spawnOne s j c).queue → e ∈ s.queue ∨ e = Ev.exec s.next := by
    intro e h
    rcases List.mem_append.mp h with a | a
    · exact Or.inl a
    · exact Or.inr (List.mem_singleton.mp a)
  have hfresh := (ht.tok s.next).2.2 (Nat.le_refl _)
  have hj0 : ∀ e, evJob e = j → e ∉ s.queue := fun e he => not_mem_of_tot_zero htot he
  have hTwnew : ∀ u, Tw (spawnOne s j c) u → Tw s u := spawnOne_Tw s j c
  have hnoKids_old : ∀ i, i ≠ j → noKids s i → noKids (spawnOne s j c) i := by
    intro i hij h c' hc' hpc
    by_cases hcn : c' = s.next
    · subst hcn; rw [spawnOne_jobs_new] at hpc; simp at hpc; exact hij hpc.symm
    · rw [spawnOne_jobs_ne s j c c' hcn] at hpc
      have : c' < s.next + 1 := hc'
      exact h c' (by omega) hpc
  refine ⟨?_, ?_, ?_, ?_, ?_, ?_, ?_, ?_, ?_⟩
  · intro i
    by_cases hin : i = s.next
    · subst hin
      rw [htn, hfresh.1]
      refine ⟨by simp, fun h => absurd (by unfold pend; rw [spawnOne_jobs_new]) h, fun h => ?_⟩
      have : s.next + 1 ≤ s.next := h
      omega
    · obtain ⟨a, b, d⟩ := ht.tok i
      rw [htne i hin, hpend i hin]
      exact ⟨a, b, fun h => d (by have : s.next + 1 ≤ i := h; omega)⟩
  · intro i c' hc' hpc hpp he
    by_cases hcn : c' = s.next
    · subst hcn
      rw [spawnOne_jobs_new] at hpc
      simp at hpc; subst hpc
      rw [htne _ hjn, hpend _ hjn]; exact ⟨htot, hp⟩
    · have hc'' : c' < s.next := by have : c' < s.next + 1 := hc'; omega
      rw [spawnOne_jobs_ne s j c c' hcn] at hpc
      have hin : i ≠ s.next := fun e => hnokid c' hc'' (e ▸ hpc)
      rw [spawnOne_jobs_ne s j c i hin] at he
      rw [htne i hin, hpend i hin]
      exact ht.par i c' hc'' hpc ((hpend c' hcn).mp hpp) he
  · intro i hq
    by_cases hin : i = s.next
    · subst hin
      intro c' hc' hpc
      by_cases hcn : c' = s.next
      · subst hcn; rw [spawnOne_jobs_new] at hpc; simp at hpc; exact hjn hpc
      · rw [spawnOne_jobs_ne s j c c' hcn] at hpc
        have : c' < s.next + 1 := hc'
        exact hnokid c' (by omega) hpc
    · have hij : i ≠ j := by
        intro e; subst e
        rcases hq with a | a | ⟨f, a⟩
        · rw [hEWne i hin] at a; have := EW_zero_of_tot_zero htot; omega
        · have a' : s.inflight i = true := a
          rw [infl_false_of_tot_zero htot] at a'; simp at a'
        · rcases hmem _ a with b | b
          · exact hj0 _ rfl b
          · simp at b
      apply hnoKids_old i hij
      apply ht.pre i
      rcases hq with a | a | ⟨f, a⟩
      · exact Or.inl (by rw [← hEWne i hin]; exact a)
      · exact Or.inr (Or.inl a)
      · rcases hmem _ a with b | b
        · exact Or.inr (Or.inr ⟨f, b⟩)
        · simp at b
  · intro i hi
    by_cases hin : i = s.next
    · subst hin; rw [spawnOne_jobs_new]
    · rw [hEWne i hin] at hi; rw [spawnOne_jobs_ne s j c i hin]; exact ht.pre2 i hi
  · intro i c' hc' hpc hs
    by_cases hcn : c' = s.next
    · subst hcn; rw [spawnOne_jobs_new] at hs; simp at hs
    · have hc'' : c' < s.next := by have : c' < s.next + 1 := hc'; omega
      rw [spawnOne_jobs_ne s j c c' hcn] at hpc hs
      have hin : i ≠ s.next := fun e => hnokid c' hc'' (e ▸ hpc)
      rw [spawnOne_jobs_ne s j c i hin]
      exact ht.rej i c' hc'' hpc hs
  · intro i hx he
    have hij : i ≠ j := fun e => hx (by rw [e])
    rw [spawnOne_cnt]
    simp only [hij, if_false, Nat.add_zero]
    by_cases hin : i = s.next
    · subst hin
      have : cntPend s s.next = 0 := by
        unfold cntPend
        apply cntTo_zero_of_forall
        intro c' hc'
        unfold kidPend
        have := hnokid c' hc'
        simp [this]
      rw [this]; exact Nat.zero_le _
    · rw [spawnOne_jobs_ne s j c i hin] at he ⊢
      exact ht.lb i hx he
  · intro c' par hc' hpc
    by_cases hcn : c' = s.next
    · subst hcn; rw [spawnOne_jobs_new] at hpc; simp at hpc; subst hpc; exact hlt
    · rw [spawnOne_jobs_ne s j c c' hcn] at hpc
      have : c' < s.next + 1 := hc'
      exact ht.parlt c' par (by omega) hpc
  · intro X t hm
    have hXn : X ≠ s.next := by
      intro e; subst e; rw [spawnOne_jobs_new] at hm; simp at hm
    rw [spawnOne_jobs_ne s j c X hXn] at hm
    obtain ⟨a, b, c', d, e', f, g, i, k⟩ := ht.tw X t hm
    have htn' : t ≠ s.next := Nat.ne_of_lt k
    have htj : t ≠ j := fun e => hnt (e ▸ ⟨X, hm⟩)
    refine ⟨?_, ?_, ?_, ?_, ?_, hnoKids_old t htj f, fun h => g (hTwnew X h), ?_, Nat.lt_succ_of_lt k⟩
    · intro hpX
      rw [hpend X hXn] at hpX
      rw [hpend t htn', htne t htn']; exact a hpX
    · rw [spawnOne_jobs_ne s j c X hXn, spawnOne_jobs_ne s j c t htn']; exact b
    · rw [spawnOne_jobs_ne s j c X hXn, spawnOne_jobs_ne s j c t htn']; exact c'
    · intro hq; rcases hmem _ hq with h1 | h1
      · exact d h1
      · simp at h1
    · intro hq; rcases hmem _ hq with h1 | h1
      · exact e' h1
      · simp at h1
    · intro Y hY
      have hYn : Y ≠ s.next := by
        intro e; subst e; rw [spawnOne_jobs_new] at hY; simp at hY
      rw [spawnOne_jobs_ne s j c Y hYn] at hY
      exact i Y hY
  · intro X
    by_cases hXn : X = s.next
    · subst hXn; rw [spawnOne_jobs_new]; simp
    · rw [spawnOne_jobs_ne s j c X hXn]; exact ht.nodup X


/-! ## part 7: `_done_job_main_thread` -/

theorem tok_exempt {s : S} {y : Option JobId} (j : JobId) (ht : Tok s none y) : Tok s (some j) y :=
  { ht with lb := fun i _ he => ht.lb i (by simp) he }

theorem tok_spawnFold {j : JobId} {y : Option JobId} (cs : List SpecId) (s : S) (ht : Tok s (some j) y)
    (htot : tot s j = 0) (hp : pend s j) (hlt : j < s.next) (hnt : ¬ Tw s j) :
    Tok (cs.foldl (fun s c => spawnOne s j c) s) (some j) y ∧
    cntPend (cs.foldl (fun s c => spawnOne s j c) s) j = cntPend s j + cs.length := by
  induction cs generalizing s with
  | nil => exact ⟨ht, rfl⟩
  | cons c cs ih =>
    have hjn : j ≠ s.next := Nat.ne_of_lt hlt
    have d1 := tok_spawnOne (c := c) ht htot hp hlt hnt
    have htot1 : tot (spawnOne s j c) j = 0 := by
      rw [tot_spawnOne, htot]; have : ¬ s.next = j := fun e => hjn e.symm
      simp [this]
    have hj1 : (spawnOne s j c).jobs j = s.jobs j := spawnOne_jobs_ne s j c j hjn
    have hp1 : pend (spawnOne s j c) j := by unfold pend; rw [hj1]; exact hp
    obtain ⟨a, f⟩ := ih (spawnOne s j c) d1 htot1 hp1 (Nat.lt_succ_of_lt hlt) (fun h => hnt (spawnOne_Tw s j c j h))
    refine ⟨a, ?_⟩
    rw [List.foldl_cons, f, spawnOne_cnt]
    simp only [if_true, List.length_cons]
    omega

theorem ft_setWaiting (s : S) (j : JobId) (n : Nat) : Ft s (setJob s j fun js => { js with waiting := n }) := by
  refine ⟨rfl, rfl, ?_, ?_, ?_, ?_, fun _ => rfl, fun _ => rfl, fun _ _ => Iff.rfl⟩ <;>
  · intro i; simp only [setJob]; split <;> rfl

theorem tok_setWaiting {s : S} {y : Option JobId} {j : JobId} (n : Nat) (ht : Tok s (some j) y)
    (hn : (s.jobs j).evalFailed = false → cntPend s j ≤ n) :
    Tok (setJob s j fun js => { js with waiting := n }) none y := by
  refine (ft_setWaiting s j n).tokW ht ?_
  intro i _ he
  by_cases hij : i = j
  · subst hij; simp only [setJob, if_true]; exact hn he
  · simp only [setJob, hij, if_false]
    exact ht.lb i (fun e => hij (Option.some.inj e)) he

/-- `s` is the state with the `done` event already taken off -/
theorem doneJob_tok (p : Prog) (s : S) (j : JobId) (f : Bool) (ht : Tok s none none) (htot : tot s j = 0)
    (hp : pend s j) (hlt : j < s.next) (hnk : noKids s j) (hnt : f = false → ¬ Tw s j)
    (hX : ∀ X, j ∈ (s.jobs X).twins → ¬ pend s X) : Tok (doneJob p s j f) none none := by
  rw [doneJob_eq]
  have f0 := ftw_releaseIf p s j
  generalize releaseIf p s j = s1 at f0
  unfold doneRest
  have f1 : FtW s1 (if (!(s1.jobs j).wasCached && (spec p s1 j).prov) = true then
      { s1 with evalTable := (spec p s1 j).key :: s1.evalTable } else s1) := by
    split
    · exact ftw_of_eq rfl rfl rfl rfl rfl
    · exact FtW.refl s1
  generalize (if (!(s1.jobs j).wasCached && (spec p s1 j).prov) = true then
      { s1 with evalTable := (spec p s1 j).key :: s1.evalTable } else s1) = s2 at f1
  have f2 := f0.trans f1
  have d2 : Tok s2 none none := f2.tok ht
  have htot2 : tot s2 j = 0 := by rw [f2.ft.tt]; exact htot
  have hp2 : pend s2 j := (f2.ft.pendIff j).mpr hp
  have hlt2 : j < s2.next := by rw [f2.ft.next]; exact hlt
  have hnk2 : noKids s2 j := (f2.ft.noKidsIff j).mpr hnk
  have hX2 : ∀ X, j ∈ (s2.jobs X).twins → ¬ pend s2 X := by
    intro X hm; rw [f2.ft.tw] at hm; rw [f2.ft.pendIff]; exact hX X hm
  dsimp only
  split
  · exact tok_enqueue _ j d2 rfl (by intro k; simp) htot2 hp2 hlt2
      (fun c hc hpc _ => absurd hpc (hnk2 c hc)) (fun ⟨_, h⟩ => by simp at h)
      (fun X hm => ⟨hX2 X hm, by simp, by simp⟩)
  · rename_i hf
    have hf' : f = false := by simpa using hf
    have hnt2 : ¬ Tw s2 j := fun h => hnt hf' ((f2.ft.twIff j).mp h)
    unfold spawn
    dsimp only
    obtain ⟨a, e⟩ := tok_spawnFold (spec p s2 j).children s2 (tok_exempt j d2) htot2 hp2 hlt2 hnt2
    rw [cntPend_zero_of_noKids hnk2] at e
    have d4 := tok_setWaiting (spec p s2 j).children.length a (fun _ => by omega)
    split
    · rename_i hnil
      have hcs : (spec p s2 j).children = [] := by simpa using hnil
      rw [hcs] at d4 ⊢
      simp only [List.foldl_nil, List.length_nil] at d4 ⊢
      have fw := ft_setWaiting s2 j 0
      exact tok_enqueue _ j d4 rfl (by intro k; simp) (by rw [fw.tt]; exact htot2) ((fw.pendIff j).mpr hp2)
        (by rw [fw.next]; exact hlt2)
        (fun c hc hpc _ => absurd hpc ((fw.noKidsIff j).mpr hnk2 c hc)) (fun ⟨_, h⟩ => by simp at h)
        (fun X hm => absurd ⟨X, by rw [fw.tw] at hm; exact hm⟩ hnt2)
    · exact d4


/-! ## part 8: a job resolves -/

theorem ResEff.tok {s s' : S} {y : Option JobId} {j : JobId} (h : ResEff s s' j) (ht : Tok s none y)
    (htot : tot s j = 0) (hp : pend s j) (hlt : j < s.next)
    (hk : ∀ c, c < s.next → (s.jobs c).parent = some j → pend s c → (s.jobs j).evalFailed = true)
    (hnt : ∀ X, j ∈ (s.jobs X).twins → ¬ pend s X) : Tok s' none y := by
  have hpend : ∀ i, pend s' i ↔ (pend s i ∧ i ≠ j) := by
    intro i; unfold pend; rw [h.st]
    by_cases e : i = j
    · simp [e]
    · simp [e]
  have hparne : ∀ par, (s.jobs j).parent = some par → par ≠ j := by
    intro par hpar e; have := ht.parlt j par hlt hpar; subst e; exact Nat.lt_irrefl _ this
  have hEW : ∀ i, EW s' i = EW s i :=
    EW_append_resolve s s' h.pl (h.queue.imp id (fun ⟨par, _, _, _, q⟩ => ⟨par, q⟩))
  have htot' : ∀ i, tot s' i = tot s i ∨
      (tot s' i = tot s i + 1 ∧ (s.jobs j).parent = some i ∧ (s.jobs i).evalFailed = false ∧ (s.jobs i).waiting - 1 = 0) := by
    intro i
    unfold tot tk
    rw [h.pl, h.infl]
    rcases h.queue with q | ⟨par, q1, q2, q3, q⟩
    · left; rw [q]
    · by_cases e : par = i
      · subst e; right
        refine ⟨?_, q1, q2, q3⟩
        rw [q]; simp [List.countP_append, evJob]; omega
      · left; rw [q]; simp [List.countP_append, evJob, e]
  have hmem : ∀ e, e ∈ s'.queue → e ∈ s.queue ∨ ∃ par, e = Ev.resolve par := by
    intro e he
    rcases h.queue with q | ⟨par, _, _, _, q⟩
    · rw [q] at he; exact Or.inl he
    · rw [q] at he
      rcases List.mem_append.mp he with a | a
      · exact Or.inl a
      · exact Or.inr ⟨par, List.mem_singleton.mp a⟩
  have hnoKids : ∀ i, noKids s' i ↔ noKids s i := by intro i; unfold noKids; rw [h.next]; simp only [h.par]
  have hTw : ∀ i, Tw s' i ↔ Tw s i := by intro i; unfold Tw; simp only [h.tw]
  have hlb : ∀ i, (s.jobs i).evalFailed = false → cntPend s' i ≤ (s'.jobs i).waiting := by
    intro i he
    have h0 := ht.lb i (by simp) he
    rw [h.wt]
    unfold cntPend at h0 ⊢
    rw [h.next]
    have hkid : ∀ c, c ≠ j → kidPend s i c = kidPend s' i c := by
      intro c hcj; unfold kidPend; rw [h.par, h.st]; simp [hcj]
    by_cases hpar : (s.jobs j).parent = some i
    · simp only [hpar, if_true]
      have hf : kidPend s i j = true := by unfold kidPend; simp [hpar]; exact hp
      have hg : kidPend s' i j = false := by unfold kidPend; rw [h.st]; simp
      have := cntTo_flip (f := kidPend s i) (g := kidPend s' i) (n := s.next) j hlt hkid hf hg
      omega
    · simp only [hpar, if_false]
      have : cntTo (kidPend s' i) s.next = cntTo (kidPend s i) s.next := by
        apply cntTo_congr
        intro c _
        by_cases hcj : c = j
        · subst hcj; unfold kidPend; rw [h.par]; simp [hpar]
        · exact (hkid c hcj).symm
      omega
  refine ⟨?_, ?_, ?_, ?_, ?_, ?_, ?_, ?_, ?_⟩
  · intro i
    obtain ⟨a, b, c⟩ := ht.tok i
    rw [h.next]
    rcases htot' i with e | ⟨e, e1, e2, _⟩
    · rw [e]
      refine ⟨a, fun hnp => ?_, fun hn => ⟨(c hn).1, ?_⟩⟩
      · by_cases hij : i = j
        · subst hij; exact htot
        · exact b (fun hpi => hnp ((hpend i).mpr ⟨hpi, hij⟩))
      · exact (hpend i).mpr ⟨(c hn).2, fun e' => absurd hlt (Nat.not_lt.mpr (e' ▸ hn))⟩
    · obtain ⟨t0, pp⟩ := ht.par i j hlt e1 hp e2
      rw [e, t0]
      refine ⟨by omega, fun hnp => absurd ((hpend i).mpr ⟨pp, hparne i e1⟩) hnp, fun hn => ?_⟩
      exact absurd (Nat.lt_trans (ht.parlt j i hlt e1) hlt) (Nat.not_lt.mpr hn)
  · intro i c hc hpc hpp he
    rw [h.next] at hc; rw [h.par] at hpc; rw [h.ef] at he
    obtain ⟨hpp0, hcj⟩ := (hpend c).mp hpp
    have hij : i ≠ j := by
      intro e; subst e
      have := hk c hc hpc hpp0; rw [he] at this; simp at this
    obtain ⟨t0, pp⟩ := ht.par i c hc hpc hpp0 he
    refine ⟨?_, (hpend i).mpr ⟨pp, hij⟩⟩
    rcases htot' i with e | ⟨_, e1, e2, e3⟩
    · rw [e]; exact t0
    · exfalso
      have hl := hlb i e2
      rw [h.wt] at hl
      simp only [e1, if_true, e3] at hl
      have hz : cntPend s' i = 0 := Nat.le_zero.mp hl
      unfold cntPend at hz
      rw [h.next] at hz
      have := cntTo_zero_forall hz c hc
      unfold kidPend at this
      rw [h.par] at this
      simp [hpc] at this
      exact this hpp
  · intro i hq
    rw [hnoKids]; apply ht.pre i
    rcases hq with a | a | ⟨f, a⟩
    · exact Or.inl (by rw [← hEW]; exact a)
    · exact Or.inr (Or.inl (by rw [← h.infl]; exact a))
    · rcases hmem _ a with b | ⟨par, b⟩
      · exact Or.inr (Or.inr ⟨f, b⟩)
      · simp at b
  · intro i hi; rw [hEW] at hi; rw [h.tw]; exact ht.pre2 i hi
  · intro i c hc hpc hs
    rw [h.next] at hc; rw [h.par] at hpc; rw [h.st] at hs
    rw [h.ef]
    by_cases hcj : c = j
    · simp [hcj] at hs
    · simp only [hcj, if_false] at hs; exact ht.rej i c hc hpc hs
  · intro i _ he
    rw [h.ef] at he; exact hlb i he
  · intro c par hc hpc
    rw [h.next] at hc; rw [h.par] at hpc; exact ht.parlt c par hc hpc
  · intro X t hm
    rw [h.tw] at hm
    obtain ⟨a, b, c, d, e', f, g, i, k⟩ := ht.tw X t hm
    have hjlt := hlt
    refine ⟨?_, ?_, ?_, ?_, ?_, (hnoKids t).mpr f, fun hT => g ((hTw X).mp hT), ?_, by rw [h.next]; exact k⟩
    · intro hpX
      obtain ⟨hpX0, _⟩ := (hpend X).mp hpX
      obtain ⟨pt, tt0⟩ := a hpX0
      have htj : t ≠ j := by intro e; subst e; exact hnt X hm hpX0
      refine ⟨(hpend t).mpr ⟨pt, htj⟩, ?_⟩
      rcases htot' t with e | ⟨_, e1, _, _⟩
      · rw [e]; exact tt0
      · exact absurd e1 (f j hlt)
    · intro hX
      rw [h.st] at hX ⊢
      by_cases htj : t = j
      · simp [htj]
      · simp only [htj, if_false]
        by_cases hXj : X = j
        · subst hXj
          have := (a hp).1; unfold pend at this; rw [this]; simp
        · simp only [hXj, if_false] at hX; exact b hX
    · intro hy hX
      rw [h.st] at hX ⊢
      by_cases hXj : X = j
      · simp [hXj] at hX
      · simp only [hXj, if_false] at hX
        have := c hy hX
        by_cases htj : t = j
        · subst htj; unfold pend at hp; rw [hp] at this; simp at this
        · simp only [htj, if_false]; exact this
    · intro hq; rcases hmem _ hq with h1 | ⟨par, h1⟩
      · exact d h1
      · simp at h1
    · intro hq; rcases hmem _ hq with h1 | ⟨par, h1⟩
      · exact e' h1
      · simp at h1
    · intro Y hY; rw [h.tw] at hY; exact i Y hY
  · intro X; rw [h.tw]; exact ht.nodup X

end RedunModel.SchedCore
