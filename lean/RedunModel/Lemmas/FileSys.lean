/-
Helper lemmas for the filesystem / file-class models (C04, C30): list facts and the freshness of the
destination after `File.copy_to` / `Dir.copy_to`.
-/
import RedunModel.Model.FileOps
namespace RedunModel.FileSys

theorem filter_length_lt {α} (l : List α) (P Q : α → Bool) (himp : ∀ x ∈ l, P x = true → Q x = true)
    (x : α) (hx : x ∈ l) (hq : Q x = true) (hp : P x = false) :
    (l.filter P).length < (l.filter Q).length := by
  induction l with
  | nil => cases hx
  | cons a t ih =>
    have hle : (t.filter P).length ≤ (t.filter Q).length := by
      clear ih hx
      induction t with
      | nil => simp
      | cons b t iht =>
        have hb := himp b (by simp)
        have := iht (fun y hy => himp y (by
          rcases List.mem_cons.1 hy with h | h
          · simp [h]
          · simp [h]))
        simp only [List.filter_cons]
        cases hpb : P b <;> cases hqb : Q b <;> simp_all <;> omega
    simp only [List.filter_cons]
    rcases List.mem_cons.1 hx with h | h
    · subst h
      simp [hq, hp]; omega
    · have := ih (fun y hy => himp y (List.mem_cons_of_mem _ hy)) h
      have ha := himp a (by simp)
      cases hpa : P a <;> cases hqa : Q a <;> simp_all <;> omega

theorem map_eq_map_iff_of {α β γ} (f g : α → β) (f' g' : α → γ)
    (h : ∀ a b, f a = g b ↔ f' a = g' b) :
    ∀ (l l' : List α), l.map f = l'.map g ↔ l.map f' = l'.map g'
  | [], [] => by simp
  | [], _ :: _ => by simp
  | _ :: _, [] => by simp
  | a :: l, b :: l' => by
    simp only [List.map_cons, List.cons.injEq, h a b, map_eq_map_iff_of f g f' g' h l l']

theorem members_set_some_length (U : List Path) (fs : FS) (s : Path → Bool) (p : Path) (n : Node)
    (hp : p ∈ U) (hs : s p = true) (hm : fs p = none) :
    (members U fs s).length < (members U (fs.set p (some n)) s).length := by
  unfold members
  apply filter_length_lt _ _ _ _ p hp
  · simp [FS.set, hs]
  · simp [hm]
  · intro x _ hx
    simp only [FS.set, Bool.and_eq_true] at hx ⊢
    refine ⟨hx.1, ?_⟩
    split
    · rfl
    · exact hx.2

theorem members_set_none_length (U : List Path) (fs : FS) (s : Path → Bool) (p : Path) (n : Node)
    (hp : p ∈ U) (hs : s p = true) (hm : fs p = some n) :
    (members U (fs.set p none) s).length < (members U fs s).length := by
  unfold members
  apply filter_length_lt _ _ _ _ p hp
  · simp [hm, hs]
  · simp [FS.set]
  · intro x _ hx
    simp only [FS.set, Bool.and_eq_true] at hx ⊢
    refine ⟨hx.1, ?_⟩
    split at hx
    · simp at hx
    · exact hx.2

end RedunModel.FileSys

namespace RedunModel.FileOps
open RedunModel.FileSys

theorem getElem?_set_of_some {α} (l : List α) (i : Nat) (a b : α) (h : l[i]? = some a) :
    (l.set i b)[i]? = some b := by
  have : i < l.length := by
    rcases Nat.lt_or_ge i l.length with h' | h'
    · exact h'
    · rw [List.getElem?_eq_none h'] at h; cases h
  simp [this]

theorem copyFile_fresh (U : List Path) (s : St) (i j : Nat) (skip : Bool) (t : Int)
    (h : (copyFile U s i j skip t).2 = .ok) : Fresh U (copyFile U s i j skip t).1 j := by
  unfold copyFile at h ⊢
  split at h
  · rename_i fi ps ci fj pd cj hi hj
    split at h
    · cases h
    · cases h
    · rename_i fs' hc
      exact ⟨_, getElem?_set_of_some _ _ _ _ hj, by simp [Obj.updateHash]⟩
  · cases h

theorem copyDir_fresh (U : List Path) (s : St) (i j : Nat) (skip : Bool) (t : Int)
    (h : (copyDir U s i j skip t).2 = .ok) : Fresh U (copyDir U s i j skip t).1 j := by
  unfold copyDir at h ⊢
  split at h
  · rename_i fi ps ci fj pd cj hi hj
    split at h
    · cases h
    · rename_i hov
      split at h
      · cases h
      · rename_i fs' hc
        simp only [hov]
        exact ⟨_, getElem?_set_of_some _ _ _ _ hj, by simp [Obj.updateHash]⟩
  · cases h

end RedunModel.FileOps
