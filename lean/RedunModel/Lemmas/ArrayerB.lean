import RedunModel.Lemmas.Arrayer
namespace RedunModel.Arrayer

/-- timestamp consistency: every key of `pending` has a timestamp, except the one key a thread is
in the middle of writing (under the lock) -/
structure InvB (s : State) : Prop where
  keysNodup : (dkeys s.pending).Nodup
  stamped : ∀ d, (dget s.pending d).isSome →
    (dget s.stamps d).isSome ∨ (s.ad.pc = .a165 ∧ d = s.ad.cur.descr) ∨ (s.mon.pc = .p195 ∧ d = s.mon.descr)
  at185 : s.mon.pc = .p185 → (dget s.stamps s.mon.descr).isSome ∧ dget s.pending s.mon.descr = none

theorem invB_init (jobs : List Job) : InvB (init jobs) := by
  unfold init; split <;> constructor <;> simp [dkeys]

set_option maxHeartbeats 2000000 in
theorem invB_stepS (c : Cfg) (p : Params) (s s' : State) (hA : InvA c s) (h : InvB s) (hs : stepS p s = some s') : InvB s' := by
  obtain ⟨pending, stamps, num, lock, clock, submitted, errors, added, started, ⟨apc, cur, todo⟩, mon⟩ := s
  obtain ⟨hS, hM, lS, lM, c1, c2, c3, sp⟩ := hA
  obtain ⟨kn, st, a5⟩ := h
  have hn := nextCall_pc ⟨apc, cur, todo⟩
  simp only at hS hM lS lM c1 c2 c3 sp kn st a5
  cases apc <;> simp only [stepS] at hs <;> (try split at hs) <;> simp at hs <;> (try subst hs)
  all_goals (constructor <;> simp only [holdsS] at * )
  all_goals first
    | exact kn
    | exact nodup_dkeys_dset _ _ _ kn
    | grind [holdsM, monAlive, dget_dset, dget_derase]

set_option maxHeartbeats 4000000 in
theorem invB_stepM (c : Cfg) (p : Params) (s s' : State) (hA : InvA c s) (h : InvB s) (hs : stepM c p s = some s') : InvB s' := by
  obtain ⟨pending, stamps, num, lock, clock, submitted, errors, added, started, ad, ⟨mpc, currtime, iterUsed, iterRest, descr, isStale, acc, stales, jobs, remainder, timestamp, loopJobs, job, decRead, err⟩⟩ := s
  obtain ⟨hS, hM, lS, lM, c1, c2, c3, sp⟩ := hA
  obtain ⟨kn, st, a5⟩ := h
  simp only at hS hM lS lM c1 c2 c3 sp kn st a5
  cases mpc <;> simp only [stepM, iterNext, afterScan, afterScanErr, decEntry] at hs <;> (try split at hs) <;> (try split at hs) <;> simp at hs <;> (try subst hs)
  all_goals (constructor <;> simp only [holdsM] at * )
  all_goals first
    | exact kn
    | exact nodup_dkeys_dset _ _ _ kn
    | exact nodup_dkeys_derase _ _ kn
    | grind [holdsS, monAlive, dget_dset, dget_derase]

theorem invB_step (c : Cfg) (p : Params) (s s' : State) (e : Ev) (hA : InvA c s) (h : InvB s)
    (hs : step c p s e = some s') : InvB s' := by
  cases e with
  | thr t => cases t with
    | S => exact invB_stepS c p s s' hA h hs
    | M => exact invB_stepM c p s s' hA h hs
  | tick n =>
    simp only [step, Option.some.injEq] at hs; subst hs
    obtain ⟨kn, st, a5⟩ := h
    exact ⟨kn, st, a5⟩
end RedunModel.Arrayer
