/-
Lifecycle invariant of `SchedCore` (C09 liveness half): every pending job is queued for execution,
waiting for limits, in flight, has a completion event queued, is evaluating with a pending child, or is
collapsed onto a pending registered twin.  Main result: `reachable_live`.
-/
import RedunModel.Lemmas.SchedCse
namespace RedunModel.SchedCore

/-! ## part 1: counting -/

def cntTo (f : Nat → Bool) : Nat → Nat
  | 0 => 0
  | n + 1 => cntTo f n + (if f n then 1 else 0)

theorem cntTo_congr {f g : Nat → Bool} {n : Nat} (h : ∀ i, i < n → f i = g i) : cntTo f n = cntTo g n := by
  induction n with
  | zero => rfl
  | succ n ih => simp only [cntTo]; rw [ih (fun i hi => h i (by omega)), h n (by omega)]

/-- changing the predicate at one index loses at most one -/
theorem cntTo_update_le {f g : Nat → Bool} {n : Nat} (j : Nat) (h : ∀ i, i ≠ j → f i = g i) :
    cntTo f n ≤ cntTo g n + 1 := by
  induction n with
  | zero => simp [cntTo]
  | succ n ih =>
    simp only [cntTo]
    by_cases hjn : j = n
    · subst hjn
      rw [cntTo_congr (f := f) (g := g) (fun i hi => h i (by omega))]
      split <;> split <;> omega
    · rw [h n (fun e => hjn e.symm)]; omega

theorem cntTo_pos_exists {f : Nat → Bool} {n : Nat} (h : 0 < cntTo f n) : ∃ i, i < n ∧ f i = true := by
  induction n with
  | zero => simp [cntTo] at h
  | succ n ih =>
    simp only [cntTo] at h
    by_cases hn : f n = true
    · exact ⟨n, by omega, hn⟩
    · simp only [hn] at h
      obtain ⟨i, hi, hp⟩ := ih (by simpa using h)
      exact ⟨i, by omega, hp⟩

/-! ## definitions -/

def pend (s : S) (j : JobId) : Prop := (s.jobs j).status = Status.pending
/-- `j` was collapsed onto some job -/
def Tw (s : S) (j : JobId) : Prop := ∃ X, j ∈ (s.jobs X).twins

def kidPend (s : S) (i c : JobId) : Bool :=
  decide ((s.jobs c).parent = some i) && decide ((s.jobs c).status = Status.pending)
/-- number of pending children of `i` -/
def cntPend (s : S) (i : JobId) : Nat := cntTo (kidPend s i) s.next

/-- evaluating: waits for at least one child -/
def EvalPh (s : S) (j : JobId) : Prop := (s.jobs j).evalFailed = false ∧ 0 < (s.jobs j).waiting
/-- collapsed onto a pending (or currently handled) job with the same key that is itself not collapsed -/
def ColPh (p : Prog) (s : S) (x : Option JobId) (j : JobId) : Prop :=
  ∃ X, j ∈ (s.jobs X).twins ∧ (pend s X ∨ some X = x) ∧ X < s.next ∧ ¬ Tw s X ∧
    (spec p s X).key = (spec p s j).key
def Phase (p : Prog) (s : S) (x : Option JobId) (j : JobId) : Prop :=
  1 ≤ EW s j ∨ s.inflight j = true ∨ Q s j ∨ EvalPh s j ∨ ColPh p s x j

def FailedOk (s : S) (j : JobId) : Prop :=
  (s.jobs j).evalFailed = true → ¬ pend s j ∨ Ev.reject j ∈ s.queue

/-- The lifecycle invariant; `x` is the job whose event is being handled (exempt from `ph`, `failed`), `y` the job that is being settled (still accepted as a collapse target). -/
structure Live (p : Prog) (s : S) (x y : Option JobId) : Prop where
  ph : ∀ j, j < s.next → pend s j → some j ≠ x → Phase p s y j
  failed : ∀ j, some j ≠ x → FailedOk s j
  reg : ∀ k t, (k, t) ∈ s.pendingJobs → keyOf p s t = k ∧ t < s.next ∧ ¬ Tw s t ∧ EW s t = 0 ∧
    lookupPending s k = some t ∧ (some t ≠ y → pend s t)
  a1 : ∀ j, 1 ≤ EW s j → pend s j ∧ (s.jobs j).twins = []
  twq : ∀ X t, t ∈ (s.jobs X).twins → EW s t = 0 ∧ t < s.next
  cnt : ∀ j, (s.jobs j).evalFailed = false → (s.jobs j).waiting ≤ cntPend s j
  kid : ∀ c par, c < s.next → (s.jobs c).parent = some par →
    par < s.next ∧ s.specOf c ∈ (p.specAt (s.specOf par)).children
  root : (s.jobs 0).parent = none ∧ 0 < s.next ∧ (pend s 0 ∨ s.finished = true)

/-! ## frames -/

/-- nothing the lifecycle invariant reads changes, except that non-exec events may be added -/
structure Fr (s s' : S) : Prop where
  next : s'.next = s.next
  specOf : s'.specOf = s.specOf
  infl : s'.inflight = s.inflight
  pj : s'.pendingJobs = s.pendingJobs
  fin : s'.finished = s.finished
  st : ∀ i, (s'.jobs i).status = (s.jobs i).status
  wt : ∀ i, (s'.jobs i).waiting = (s.jobs i).waiting
  ef : ∀ i, (s'.jobs i).evalFailed = (s.jobs i).evalFailed
  par : ∀ i, (s'.jobs i).parent = (s.jobs i).parent
  tw : ∀ i, (s'.jobs i).twins = (s.jobs i).twins
  ew : ∀ j, EW s' j = EW s j
  qm : ∀ e, (∀ j, e ≠ Ev.exec j) → e ∈ s.queue → e ∈ s'.queue

theorem Fr.refl (s : S) : Fr s s :=
  ⟨rfl, rfl, rfl, rfl, rfl, fun _ => rfl, fun _ => rfl, fun _ => rfl, fun _ => rfl, fun _ => rfl, fun _ => rfl,
    fun _ _ h => h⟩

theorem Fr.trans {a b c : S} (h1 : Fr a b) (h2 : Fr b c) : Fr a c :=
  ⟨h2.next.trans h1.next, h2.specOf.trans h1.specOf, h2.infl.trans h1.infl, h2.pj.trans h1.pj,
    h2.fin.trans h1.fin, fun i => (h2.st i).trans (h1.st i), fun i => (h2.wt i).trans (h1.wt i),
    fun i => (h2.ef i).trans (h1.ef i), fun i => (h2.par i).trans (h1.par i),
    fun i => (h2.tw i).trans (h1.tw i), fun j => (h2.ew j).trans (h1.ew j),
    fun e he hm => h2.qm e he (h1.qm e he hm)⟩

theorem Fr.pendIff {s s' : S} (h : Fr s s') (j : JobId) : pend s' j ↔ pend s j := by
  unfold pend; rw [h.st]

theorem Fr.twIff {s s' : S} (h : Fr s s') (j : JobId) : Tw s' j ↔ Tw s j := by
  unfold Tw; simp only [h.tw]

theorem Fr.Q {s s' : S} (h : Fr s s') {j : JobId} (hq : Q s j) : Q s' j := by
  rcases hq with (⟨f, a⟩ | a) | a
  · exact Or.inl (Or.inl ⟨f, h.qm _ (by intro k; simp) a⟩)
  · exact Or.inl (Or.inr (h.qm _ (by intro k; simp) a))
  · exact Or.inr (h.qm _ (by intro k; simp) a)

theorem Fr.spec {p : Prog} {s s' : S} (h : Fr s s') (j : JobId) : spec p s' j = spec p s j :=
  same_spec h.specOf j

theorem Fr.cntEq {s s' : S} (h : Fr s s') (i : JobId) : cntPend s' i = cntPend s i := by
  unfold cntPend
  rw [h.next]
  apply cntTo_congr
  intro c _
  unfold kidPend
  rw [h.par, h.st]

theorem Fr.phase {p : Prog} {s s' : S} {x : Option JobId} (h : Fr s s') {j : JobId} (hp : Phase p s x j) :
    Phase p s' x j := by
  rcases hp with a | a | a | a | ⟨X, a1, a2, a3, a4, a5⟩
  · exact Or.inl (by rw [h.ew]; exact a)
  · exact Or.inr (Or.inl (by rw [h.infl]; exact a))
  · exact Or.inr (Or.inr (Or.inl (h.Q a)))
  · exact Or.inr (Or.inr (Or.inr (Or.inl (by unfold EvalPh; rw [h.ef, h.wt]; exact a))))
  · refine Or.inr (Or.inr (Or.inr (Or.inr ⟨X, by rw [h.tw]; exact a1, ?_, by rw [h.next]; exact a3, ?_, ?_⟩)))
    · rcases a2 with b | b
      · exact Or.inl ((h.pendIff X).mpr b)
      · exact Or.inr b
    · rw [h.twIff]; exact a4
    · rw [h.spec, h.spec]; exact a5

theorem Fr.failedOk {s s' : S} (h : Fr s s') {j : JobId} (hf : FailedOk s j) : FailedOk s' j := by
  intro he
  rw [h.ef] at he
  rcases hf he with a | a
  · exact Or.inl (fun b => a ((h.pendIff j).mp b))
  · exact Or.inr (h.qm _ (by intro k; simp) a)

theorem Fr.lookup {s s' : S} (h : Fr s s') (k : Nat × Nat) : lookupPending s' k = lookupPending s k := by
  unfold lookupPending; rw [h.pj]

theorem Fr.live {p : Prog} {s s' : S} {x y : Option JobId} (h : Fr s s') (hl : Live p s x y) : Live p s' x y := by
  refine ⟨?_, ?_, ?_, ?_, ?_, ?_, ?_, ?_⟩
  · intro j hj hp hx
    rw [h.next] at hj
    exact h.phase (hl.ph j hj ((h.pendIff j).mp hp) hx)
  · intro j hx; exact h.failedOk (hl.failed j hx)
  · intro k t hm
    rw [h.pj] at hm
    obtain ⟨a, b, c, d, e, f⟩ := hl.reg k t hm
    refine ⟨?_, by rw [h.next]; exact b, by rw [h.twIff]; exact c, by rw [h.ew]; exact d, by rw [h.lookup]; exact e,
      fun hx => (h.pendIff t).mpr (f hx)⟩
    unfold keyOf; rw [h.spec]; exact a
  · intro j hj
    rw [h.ew] at hj
    obtain ⟨a, b⟩ := hl.a1 j hj
    exact ⟨(h.pendIff j).mpr a, by rw [h.tw]; exact b⟩
  · intro X t ht
    rw [h.tw] at ht
    rw [h.ew, h.next]; exact hl.twq X t ht
  · intro j hj
    rw [h.ef] at hj
    rw [h.wt, h.cntEq]; exact hl.cnt j hj
  · intro c par hc hp
    rw [h.next] at hc; rw [h.par] at hp
    rw [h.next, h.specOf]; exact hl.kid c par hc hp
  · obtain ⟨a, b, c⟩ := hl.root
    refine ⟨by rw [h.par]; exact a, by rw [h.next]; exact b, ?_⟩
    rcases c with c | c
    · exact Or.inl ((h.pendIff 0).mpr c)
    · exact Or.inr (by rw [h.fin]; exact c)


/-! ## part 2: primitives that are frames -/

theorem fr_of_eq {s s' : S} (h1 : s'.next = s.next) (h2 : s'.specOf = s.specOf) (h3 : s'.inflight = s.inflight)
    (h4 : s'.pendingJobs = s.pendingJobs) (h5 : s'.finished = s.finished) (h6 : s'.jobs = s.jobs)
    (h7 : s'.queue = s.queue) (h8 : s'.pendingLimits = s.pendingLimits) : Fr s s' :=
  ⟨h1, h2, h3, h4, h5, fun _ => by rw [h6], fun _ => by rw [h6], fun _ => by rw [h6], fun _ => by rw [h6],
    fun _ => by rw [h6], fun _ => by unfold EW; rw [h7, h8], fun _ _ h => by rw [h7]; exact h⟩

theorem fr_setJob (s : S) (j : JobId) (f : JobSt → JobSt)
    (h : ∀ js, (f js).status = js.status ∧ (f js).waiting = js.waiting ∧ (f js).evalFailed = js.evalFailed ∧
      (f js).parent = js.parent ∧ (f js).twins = js.twins) : Fr s (setJob s j f) := by
  refine ⟨rfl, rfl, rfl, rfl, rfl, ?_, ?_, ?_, ?_, ?_, fun _ => rfl, fun _ _ h => h⟩ <;>
  · intro i; simp only [setJob]; split
    · first | exact (h _).1 | exact (h _).2.1 | exact (h _).2.2.1 | exact (h _).2.2.2.1 | exact (h _).2.2.2.2
    · rfl

theorem fr_enqueue (s : S) (e : Ev) (he : ∀ j, e ≠ Ev.exec j) : Fr s (enqueue s e) := by
  refine ⟨rfl, rfl, rfl, rfl, rfl, fun _ => rfl, fun _ => rfl, fun _ => rfl, fun _ => rfl, fun _ => rfl, ?_, ?_⟩
  · intro j; unfold EW enqueue
    simp only [List.count_append, List.count_cons, List.count_nil]
    have : ¬ (e == Ev.exec j) = true := by simpa using he j
    simp [this]
  · intro e' _ hm; exact List.mem_append_left _ hm

theorem fr_checkPending (p : Prog) (s : S) : Fr s (checkPending p s) :=
  ⟨rfl, rfl, rfl, rfl, rfl, fun _ => rfl, fun _ => rfl, fun _ => rfl, fun _ => rfl, fun _ => rfl,
    fun j => checkPending_EW p s j, fun _ _ hm => by rw [checkPending_queue]; exact List.mem_append_left _ hm⟩

theorem fr_consume (p : Prog) (s : S) (j : JobId) : Fr s (consume p s j) := fr_of_eq rfl rfl rfl rfl rfl rfl rfl rfl
theorem fr_release (p : Prog) (s : S) (j : JobId) : Fr s (release p s j) := fr_of_eq rfl rfl rfl rfl rfl rfl rfl rfl

theorem fr_releaseIf (p : Prog) (s : S) (j : JobId) : Fr s (releaseIf p s j) := by
  unfold releaseIf; split
  · exact (fr_release p s j).trans (fr_checkPending p _)
  · exact Fr.refl s

theorem fr_record (p : Prog) (s : S) (j : JobId) (b : Bool) : Fr s (record p s j b) := by
  unfold record; dsimp only; split
  · exact fr_of_eq rfl rfl rfl rfl rfl rfl rfl rfl
  · exact Fr.refl s

theorem fr_cached (s : S) (j : JobId) : Fr s (setJob s j fun js => { js with wasCached := true }) :=
  fr_setJob s j _ (fun _ => ⟨rfl, rfl, rfl, rfl, rfl⟩)

theorem mem_enqueue (s : S) (e : Ev) : e ∈ (enqueue s e).queue := by simp [enqueue]


/-! ## part 3: taking the head event off the queue -/

def evJob : Ev → JobId
  | .exec j => j
  | .done j _ => j
  | .reject j => j
  | .resolve j => j

theorem tl_mem_of_ne (s : S) (e : Ev) (rest : List Ev) (hq : s.queue = e :: rest) (e' : Ev) (hne : e' ≠ e)
    (hm : e' ∈ s.queue) : e' ∈ (tl s).queue := by
  show e' ∈ s.queue.tail
  rw [hq] at hm ⊢
  rcases List.mem_cons.mp hm with a | a
  · exact absurd a hne
  · exact a

theorem tl_Q_keep (s : S) (e : Ev) (rest : List Ev) (hq : s.queue = e :: rest) (j : JobId) (hj : evJob e ≠ j)
    (h : Q s j) : Q (tl s) j := by
  rcases h with (⟨f, a⟩ | a) | a
  · exact Or.inl (Or.inl ⟨f, tl_mem_of_ne s e rest hq _ (by intro h; subst h; exact hj rfl) a⟩)
  · exact Or.inl (Or.inr (tl_mem_of_ne s e rest hq _ (by intro h; subst h; exact hj rfl) a))
  · exact Or.inr (tl_mem_of_ne s e rest hq _ (by intro h; subst h; exact hj rfl) a)

theorem live_tl (p : Prog) (s : S) (e : Ev) (rest : List Ev) (hq : s.queue = e :: rest) (hl : Live p s none none) :
    Live p (tl s) (some (evJob e)) none := by
  refine ⟨?_, ?_, ?_, ?_, ?_, hl.cnt, hl.kid, hl.root⟩
  · intro j hj hp hx
    have hne : evJob e ≠ j := fun h => hx (by rw [h])
    rcases hl.ph j hj hp (by simp) with a | a | a | a | ⟨X, a1, a2, a3, a4, a5⟩
    · left
      have := tl_EW_eq s e rest hq j
      have hne' : e ≠ Ev.exec j := by intro h; subst h; exact hne rfl
      simp only [hne', if_false] at this
      omega
    · exact Or.inr (Or.inl a)
    · exact Or.inr (Or.inr (Or.inl (tl_Q_keep s e rest hq j hne a)))
    · exact Or.inr (Or.inr (Or.inr (Or.inl a)))
    · refine Or.inr (Or.inr (Or.inr (Or.inr ⟨X, a1, ?_, a3, a4, a5⟩)))
      rcases a2 with b | b
      · exact Or.inl b
      · simp at b
  · intro j hx he
    have hne : evJob e ≠ j := fun h => hx (by rw [h])
    rcases hl.failed j (by simp) he with a | a
    · exact Or.inl a
    · exact Or.inr (tl_mem_of_ne s e rest hq _ (by intro h; subst h; exact hne rfl) a)
  · intro k t hm
    obtain ⟨a, b, c, d, e', f⟩ := hl.reg k t hm
    exact ⟨a, b, c, Nat.le_zero.mp (d ▸ tl_EW_le s t), e', fun _ => f (by simp)⟩
  · intro j hj
    exact hl.a1 j (Nat.le_trans hj (tl_EW_le s j))
  · intro X t ht
    obtain ⟨a, b⟩ := hl.twq X t ht
    exact ⟨Nat.le_zero.mp (a ▸ tl_EW_le s t), b⟩

/-- the failed-flag fact of the handled job survives unless its own `reject` was taken off -/
theorem failedOk_tl (p : Prog) (s : S) (e : Ev) (rest : List Ev) (hq : s.queue = e :: rest) (hl : Live p s none none)
    (j : JobId) (hne : e ≠ Ev.reject j) : FailedOk (tl s) j := by
  intro he
  rcases hl.failed j (by simp) he with a | a
  · exact Or.inl a
  · exact Or.inr (tl_mem_of_ne s e rest hq _ (fun h => hne h.symm) a)


/-! ## part 4: exemption handling -/

theorem live_weaken {p : Prog} {s : S} (j : JobId) (hl : Live p s none none) : Live p s (some j) none := by
  refine ⟨?_, fun i _ => hl.failed i (by simp), ?_, hl.a1, hl.twq, hl.cnt, hl.kid, hl.root⟩
  · intro i hi hp _
    rcases hl.ph i hi hp (by simp) with a | a | a | a | ⟨X, a1, a2, a3, a4, a5⟩
    · exact Or.inl a
    · exact Or.inr (Or.inl a)
    · exact Or.inr (Or.inr (Or.inl a))
    · exact Or.inr (Or.inr (Or.inr (Or.inl a)))
    · refine Or.inr (Or.inr (Or.inr (Or.inr ⟨X, a1, ?_, a3, a4, a5⟩)))
      rcases a2 with b | b
      · exact Or.inl b
      · simp at b
  · intro k t hm
    obtain ⟨a, b, c, d, e, f⟩ := hl.reg k t hm
    exact ⟨a, b, c, d, e, fun _ => f (by simp)⟩

/-- end of a handler: the handled job `j` is back in a phase (or settled, its twins served) -/
theorem live_fill {p : Prog} {s : S} {j : JobId} (hl : Live p s (some j) none)
    (hph : pend s j → j < s.next → Phase p s none j) (hf : FailedOk s j) : Live p s none none := by
  refine ⟨?_, ?_, hl.reg, hl.a1, hl.twq, hl.cnt, hl.kid, hl.root⟩
  · intro i hi hp _
    by_cases hij : i = j
    · subst hij; exact hph hp hi
    · exact hl.ph i hi hp (fun h => hij (Option.some.inj h))
  · intro i _
    by_cases hij : i = j
    · subst hij; exact hf
    · exact hl.failed i (fun h => hij (Option.some.inj h))

theorem cntPend_congr {s s' : S} (hn : s'.next = s.next) (hp : ∀ c, (s'.jobs c).parent = (s.jobs c).parent)
    (hs : ∀ c, (s'.jobs c).status = (s.jobs c).status) (i : JobId) : cntPend s' i = cntPend s i := by
  unfold cntPend
  rw [hn]
  apply cntTo_congr
  intro c _
  unfold kidPend
  rw [hp, hs]

theorem mem_of_lookupPending {s : S} {k : Nat × Nat} {t : JobId} (h : lookupPending s k = some t) :
    (k, t) ∈ s.pendingJobs := by
  unfold lookupPending at h
  cases hf : s.pendingJobs.find? (fun e => e.1 == k) with
  | none => rw [hf] at h; simp at h
  | some e =>
    rw [hf] at h
    simp at h
    have h1 := List.mem_of_find?_eq_some hf
    have h2 := List.find?_some hf
    simp at h2
    cases e with
    | mk a b =>
      simp at h h2
      subst h; subst h2
      exact h1


/-! ## part 5: the exits of `_exec_job_main_thread` -/

theorem EW_pendAppend (s : S) (j i : JobId) :
    EW { s with pendingLimits := s.pendingLimits ++ [j] } i = EW s i + (if i = j then 1 else 0) := by
  unfold EW
  simp only [List.count_append, List.count_cons, List.count_nil]
  by_cases e : i = j
  · subst e; simp; omega
  · have : ¬ (j == i) = true := by simpa using fun e' => e e'.symm
    simp [e, this]

/-- the job does not fit: it joins the waiting list -/
theorem live_pendAppend {p : Prog} {s : S} {j : JobId} (hl : Live p s (some j) none) (hp : pend s j)
    (htw : (s.jobs j).twins = []) (hnt : ¬ Tw s j) (hnr : ∀ k, (k, j) ∉ s.pendingJobs) (hf : FailedOk s j) :
    Live p { s with pendingLimits := s.pendingLimits ++ [j] } none none := by
  have hEW := EW_pendAppend s j
  have hle : ∀ i, EW s i ≤ EW { s with pendingLimits := s.pendingLimits ++ [j] } i := by
    intro i; rw [hEW]; omega
  have hne : ∀ i, i ≠ j → EW { s with pendingLimits := s.pendingLimits ++ [j] } i = EW s i := by
    intro i hi; rw [hEW]; simp [hi]
  have h1 : Live p { s with pendingLimits := s.pendingLimits ++ [j] } (some j) none := by
    refine ⟨?_, hl.failed, ?_, ?_, ?_, hl.cnt, hl.kid, hl.root⟩
    · intro i hi hpi hx
      rcases hl.ph i hi hpi hx with a | a | a | a | a
      · exact Or.inl (Nat.le_trans a (hle i))
      · exact Or.inr (Or.inl a)
      · exact Or.inr (Or.inr (Or.inl a))
      · exact Or.inr (Or.inr (Or.inr (Or.inl a)))
      · exact Or.inr (Or.inr (Or.inr (Or.inr a)))
    · intro k t hm
      obtain ⟨a, b, c, d, e, f⟩ := hl.reg k t hm
      have : t ≠ j := by intro h; subst h; exact hnr k hm
      exact ⟨a, b, c, by rw [hne t this]; exact d, e, f⟩
    · intro i hi
      by_cases hij : i = j
      · subst hij; exact ⟨hp, htw⟩
      · rw [hne i hij] at hi; exact hl.a1 i hi
    · intro X t ht
      obtain ⟨a, b⟩ := hl.twq X t ht
      have : t ≠ j := by intro h; subst h; exact hnt ⟨X, ht⟩
      exact ⟨by rw [hne t this]; exact a, b⟩
  refine live_fill h1 (fun _ _ => Or.inl ?_) hf
  rw [hEW]; simp

/-- `Job.collapse`: `j` joins the twins of the registered job `t` -/
theorem live_addTwin {p : Prog} {s : S} {j t : JobId} (hl : Live p s (some j) none) (hp : pend s j)
    (hreg : (keyOf p s j, t) ∈ s.pendingJobs) (hne : t ≠ j) (htw : (s.jobs j).twins = []) (hnt : ¬ Tw s j)
    (hew : EW s j = 0) (hlt : j < s.next) (hnr : ∀ k, (k, j) ∉ s.pendingJobs) (hf : FailedOk s j) :
    Live p (setJob s t fun js => { js with twins := js.twins ++ [j] }) none none := by
  generalize hs' : (setJob s t fun js => { js with twins := js.twins ++ [j] }) = s'
  have hst : ∀ i, (s'.jobs i).status = (s.jobs i).status := by
    intro i; rw [← hs']; simp only [setJob]; split <;> rfl
  have hwt : ∀ i, (s'.jobs i).waiting = (s.jobs i).waiting := by
    intro i; rw [← hs']; simp only [setJob]; split <;> rfl
  have hef : ∀ i, (s'.jobs i).evalFailed = (s.jobs i).evalFailed := by
    intro i; rw [← hs']; simp only [setJob]; split <;> rfl
  have hpar : ∀ i, (s'.jobs i).parent = (s.jobs i).parent := by
    intro i; rw [← hs']; simp only [setJob]; split <;> rfl
  have htwins : ∀ i, (s'.jobs i).twins = if i = t then (s.jobs i).twins ++ [j] else (s.jobs i).twins := by
    intro i; rw [← hs']; simp only [setJob]; split <;> rfl
  have hmono : ∀ i u, u ∈ (s.jobs i).twins → u ∈ (s'.jobs i).twins := by
    intro i u hu; rw [htwins]; split
    · exact List.mem_append_left _ hu
    · exact hu
  have hinv : ∀ i u, u ∈ (s'.jobs i).twins → u ∈ (s.jobs i).twins ∨ (u = j ∧ i = t) := by
    intro i u hu; rw [htwins] at hu; split at hu
    · rename_i e
      rcases List.mem_append.mp hu with a | a
      · exact Or.inl a
      · simp at a; exact Or.inr ⟨a, e⟩
    · exact Or.inl hu
  have hTw : ∀ u, Tw s' u → Tw s u ∨ u = j := by
    rintro u ⟨X, hX⟩
    rcases hinv X u hX with a | a
    · exact Or.inl ⟨X, a⟩
    · exact Or.inr a.1
  have hrest : s'.next = s.next ∧ s'.specOf = s.specOf ∧ s'.inflight = s.inflight ∧ s'.pendingJobs = s.pendingJobs ∧
      s'.finished = s.finished ∧ s'.queue = s.queue ∧ s'.pendingLimits = s.pendingLimits := by
    rw [← hs']; exact ⟨rfl, rfl, rfl, rfl, rfl, rfl, rfl⟩
  obtain ⟨f1, f2, f3, f4, f5, f6, f7⟩ := hrest
  have hEW : ∀ i, EW s' i = EW s i := by intro i; unfold EW; rw [f6, f7]
  have hpend : ∀ i, pend s' i ↔ pend s i := by intro i; unfold pend; rw [hst]
  have hQ : ∀ i, Q s i → Q s' i := by intro i; unfold Q C; rw [f6]; exact id
  have hspec : ∀ i, spec p s' i = spec p s i := fun i => same_spec f2 i
  obtain ⟨r1, r2, r3, r4, r5, r6⟩ := hl.reg _ t hreg
  have hpt : pend s t := r6 (by simp)
  have h1 : Live p s' (some j) none := by
    refine ⟨?_, ?_, ?_, ?_, ?_, ?_, ?_, ?_⟩
    · intro i hi hpi hx
      rw [f1] at hi
      rcases hl.ph i hi ((hpend i).mp hpi) hx with a | a | a | a | ⟨X, a1, a2, a3, a4, a5⟩
      · exact Or.inl (by rw [hEW]; exact a)
      · exact Or.inr (Or.inl (by rw [f3]; exact a))
      · exact Or.inr (Or.inr (Or.inl (hQ i a)))
      · exact Or.inr (Or.inr (Or.inr (Or.inl (by unfold EvalPh; rw [hef, hwt]; exact a))))
      · refine Or.inr (Or.inr (Or.inr (Or.inr ⟨X, hmono X i a1, ?_, by rw [f1]; exact a3, ?_, ?_⟩)))
        · rcases a2 with b | b
          · exact Or.inl ((hpend X).mpr b)
          · exact Or.inr b
        · intro h
          rcases hTw X h with c | c
          · exact a4 c
          · subst c; rw [htw] at a1; simp at a1
        · rw [hspec, hspec]; exact a5
    · intro i hx he
      rw [hef] at he
      rcases hl.failed i hx he with a | a
      · exact Or.inl (fun b => a ((hpend i).mp b))
      · exact Or.inr (by rw [f6]; exact a)
    · intro k u hm
      rw [f4] at hm
      obtain ⟨a, b, c, d, e, f⟩ := hl.reg k u hm
      refine ⟨by unfold keyOf; rw [hspec]; exact a, by rw [f1]; exact b, ?_, by rw [hEW]; exact d,
        by unfold lookupPending; rw [f4]; exact e, fun hx => (hpend u).mpr (f hx)⟩
      intro h
      rcases hTw u h with c' | c'
      · exact c c'
      · subst c'; exact hnr k hm
    · intro i hi
      rw [hEW] at hi
      obtain ⟨a, b⟩ := hl.a1 i hi
      refine ⟨(hpend i).mpr a, ?_⟩
      rw [htwins]; split
      · rename_i e; subst e; rw [r4] at hi; omega
      · exact b
    · intro X u hu
      rw [hEW, f1]
      rcases hinv X u hu with a | a
      · exact hl.twq X u a
      · rw [a.1]; exact ⟨hew, hlt⟩
    · intro i hi
      rw [hef] at hi
      rw [hwt, cntPend_congr f1 hpar hst]; exact hl.cnt i hi
    · intro c par hc hpc
      rw [f1] at hc; rw [hpar] at hpc
      rw [f1, f2]; exact hl.kid c par hc hpc
    · obtain ⟨a, b, c⟩ := hl.root
      refine ⟨by rw [hpar]; exact a, by rw [f1]; exact b, ?_⟩
      rcases c with c | c
      · exact Or.inl ((hpend 0).mpr c)
      · exact Or.inr (by rw [f5]; exact c)
  have hfj : FailedOk s' j := by
    intro he; rw [hef] at he
    rcases hf he with a | a
    · exact Or.inl (fun b => a ((hpend j).mp b))
    · exact Or.inr (by rw [f6]; exact a)
  refine live_fill h1 (fun _ _ => ?_) hfj
  refine Or.inr (Or.inr (Or.inr (Or.inr ⟨t, ?_, Or.inl ((hpend t).mpr hpt), by rw [f1]; exact r2, ?_, ?_⟩)))
  · rw [htwins]; simp
  · intro h
    rcases hTw t h with c | c
    · exact r3 c
    · exact hne c
  · rw [hspec, hspec]
    have := r1; unfold keyOf at this
    exact (Prod.mk.inj this).1


/-! ## part 6: registration and the in-flight flag -/

theorem lookupPending_append_old (s : S) (k k' : Nat × Nat) (j t : JobId) (h : lookupPending s k' = some t) :
    lookupPending { s with pendingJobs := s.pendingJobs ++ [(k, j)] } k' = some t := by
  unfold lookupPending at h ⊢
  simp only [List.find?_append]
  cases hf : s.pendingJobs.find? (fun e => e.1 == k') with
  | none => rw [hf] at h; simp at h
  | some e => rw [hf] at h; simpa using h

theorem lookupPending_append_new (s : S) (k : Nat × Nat) (j : JobId) (h : lookupPending s k = none) :
    lookupPending { s with pendingJobs := s.pendingJobs ++ [(k, j)] } k = some j := by
  unfold lookupPending at h ⊢
  simp only [List.find?_append]
  cases hf : s.pendingJobs.find? (fun e => e.1 == k) with
  | none => simp
  | some e => rw [hf] at h; simp at h

/-- `_pending_jobs.setdefault(key, job)` for a job that is about to be submitted -/
theorem live_regAppend {p : Prog} {s : S} {j : JobId} {k : Nat × Nat} (hl : Live p s (some j) none)
    (hk : keyOf p s j = k) (hnone : lookupPending s k = none) (hnt : ¬ Tw s j) (hew : EW s j = 0)
    (hlt : j < s.next) (hp : pend s j) : Live p { s with pendingJobs := s.pendingJobs ++ [(k, j)] } (some j) none := by
  refine ⟨hl.ph, hl.failed, ?_, hl.a1, hl.twq, hl.cnt, hl.kid, hl.root⟩
  intro k' t hm
  rcases List.mem_append.mp hm with a | a
  · obtain ⟨a1, a2, a3, a4, a5, a6⟩ := hl.reg k' t a
    exact ⟨a1, a2, a3, a4, lookupPending_append_old s k k' j t a5, a6⟩
  · simp at a
    obtain ⟨e1, e2⟩ := a
    subst e1; subst e2
    exact ⟨hk, hlt, hnt, hew, lookupPending_append_new s _ t hnone, fun _ => hp⟩

theorem live_setInfl {p : Prog} {s : S} {j : JobId} (b : Bool) (sub : List JobId) (hl : Live p s (some j) none) :
    Live p { s with inflight := fun i => if i = j then b else s.inflight i, submits := sub } (some j) none := by
  refine ⟨?_, hl.failed, hl.reg, hl.a1, hl.twq, hl.cnt, hl.kid, hl.root⟩
  intro i hi hp hx
  have hij : i ≠ j := fun h => hx (by rw [h])
  rcases hl.ph i hi hp hx with a | a | a | a | a
  · exact Or.inl a
  · refine Or.inr (Or.inl ?_)
    show (if i = j then b else s.inflight i) = true
    simp [hij]; exact a
  · exact Or.inr (Or.inr (Or.inl a))
  · exact Or.inr (Or.inr (Or.inr (Or.inl a)))
  · exact Or.inr (Or.inr (Or.inr (Or.inr a)))


/-! ## part 7: `_exec_job_main_thread` -/

/-- a handler that ends by queueing a post-exec event of the handled (still pending) job -/
theorem live_QExit {p : Prog} {s s' : S} {j : JobId} (hl : Live p s (some j) none) (hfr : Fr s s') (hq : Q s' j)
    (hf : FailedOk s j) : Live p s' none none :=
  live_fill (hfr.live hl) (fun _ _ => Or.inr (Or.inr (Or.inl hq))) (hfr.failedOk hf)

theorem Q_of_mem_done {s : S} {j : JobId} {f : Bool} (h : Ev.done j f ∈ s.queue) : Q s j := Or.inl (Or.inl ⟨f, h⟩)
theorem Q_of_mem_reject {s : S} {j : JobId} (h : Ev.reject j ∈ s.queue) : Q s j := Or.inl (Or.inr h)
theorem Q_of_mem_resolve {s : S} {j : JobId} (h : Ev.resolve j ∈ s.queue) : Q s j := Or.inr h

theorem live_cachedExit {p : Prog} {s : S} {j : JobId} (ev : Ev) (hev : (∃ f, ev = Ev.done j f) ∨ ev = Ev.reject j)
    (hl : Live p s (some j) none) (hf : FailedOk s j) :
    Live p (enqueue (checkPending p (setJob s j fun js => { js with wasCached := true })) ev) none none := by
  have hne : ∀ k, ev ≠ Ev.exec k := by
    intro k; rcases hev with ⟨f, rfl⟩ | rfl <;> simp
  refine live_QExit hl (((fr_cached s j).trans (fr_checkPending p _)).trans (fr_enqueue _ ev hne)) ?_ hf
  rcases hev with ⟨f, rfl⟩ | rfl
  · exact Q_of_mem_done (mem_enqueue _ _)
  · exact Q_of_mem_reject (mem_enqueue _ _)

theorem execJob_live (p : Prog) (hd : p.dryrun = false) (s : S) (j : JobId) (hl : Live p s (some j) none)
    (hp : pend s j) (htw : (s.jobs j).twins = []) (hnt : ¬ Tw s j) (hew : EW s j = 0) (hlt : j < s.next)
    (hnr : ∀ k, (k, j) ∉ s.pendingJobs) (hf : FailedOk s j) : Live p (execJob p s j) none none := by
  unfold execJob
  dsimp only
  split
  · rename_i t heq
    have hlk : lookupPending s ((spec p s j).key, (spec p s j).ctx) = some t := by
      split at heq
      · exact heq
      · simp at heq
    have hmem := mem_of_lookupPending hlk
    have hne : t ≠ j := by intro h; subst h; exact hnr _ hmem
    exact (fr_checkPending p _).live (live_addTwin hl hp hmem hne htw hnt hew hlt hnr hf)
  · rename_i hnotpending
    split
    · rename_i isErr _
      exact live_cachedExit _ (by cases isErr <;> simp) hl hf
    · exact live_cachedExit _ (Or.inl ⟨true, rfl⟩) hl hf
    · exact live_cachedExit _ (Or.inl ⟨false, rfl⟩) hl hf
    · split
      · exact live_pendAppend hl hp htw hnt hnr hf
      · simp only [hd, Bool.false_eq_true, if_false]
        have fc := fr_consume p s j
        split
        · exact live_QExit hl (fc.trans (fr_enqueue _ _ (by intro k; simp))) (Q_of_mem_reject (mem_enqueue _ _)) hf
        · -- submit
          have l1 : Live p (consume p s j) (some j) none := fc.live hl
          have hnt1 : ¬ Tw (consume p s j) j := hnt
          have hew1 : EW (consume p s j) j = 0 := hew
          have hlt1 : j < (consume p s j).next := hlt
          have l2 : ∃ s2, s2 = (if (!(spec p s j).prov || (lookupPending (consume p s j) ((spec p s j).key, (spec p s j).ctx)).isSome) = true
                then consume p s j
                else { consume p s j with pendingJobs := (consume p s j).pendingJobs ++ [(((spec p s j).key, (spec p s j).ctx), j)] }) ∧
              Live p s2 (some j) none ∧ pend s2 j ∧ FailedOk s2 j := by
            refine ⟨_, rfl, ?_⟩
            split
            · exact ⟨l1, hp, hf⟩
            · rename_i hc
              have hnone : lookupPending (consume p s j) ((spec p s j).key, (spec p s j).ctx) = none := by
                cases h : lookupPending (consume p s j) ((spec p s j).key, (spec p s j).ctx) with
                | none => rfl
                | some t => rw [h] at hc; simp at hc
              exact ⟨live_regAppend l1 rfl hnone hnt1 hew1 hlt1 hp, hp, hf⟩
          obtain ⟨s2, hs2, l2, hp2, hf2⟩ := l2
          rw [← hs2]
          have l3 := live_setInfl true (s2.submits ++ [j]) l2
          exact live_fill l3 (fun _ _ => Or.inr (Or.inl (by simp))) hf2


/-! ## part 8: spawning the children -/

theorem spawnOne_jobs_ne (s : S) (j : JobId) (c : SpecId) (i : JobId) (h : i ≠ s.next) :
    (spawnOne s j c).jobs i = s.jobs i := by simp [spawnOne, h]
theorem spawnOne_jobs_new (s : S) (j : JobId) (c : SpecId) :
    (spawnOne s j c).jobs s.next = { created := true, parent := some j } := by simp [spawnOne]
theorem spawnOne_spec_ne (p : Prog) (s : S) (j : JobId) (c : SpecId) (i : JobId) (h : i ≠ s.next) :
    spec p (spawnOne s j c) i = spec p s i := by simp [spec, spawnOne, h]

theorem spawnOne_cnt (s : S) (j : JobId) (c : SpecId) (i : JobId) :
    cntPend (spawnOne s j c) i = cntPend s i + (if i = j then 1 else 0) := by
  unfold cntPend
  show cntTo (kidPend (spawnOne s j c) i) (s.next + 1) = _
  simp only [cntTo]
  have h1 : cntTo (kidPend (spawnOne s j c) i) s.next = cntTo (kidPend s i) s.next := by
    apply cntTo_congr
    intro x hx
    unfold kidPend
    rw [spawnOne_jobs_ne s j c x (Nat.ne_of_lt hx)]
  rw [h1]
  congr 1
  unfold kidPend
  rw [spawnOne_jobs_new]
  by_cases h : i = j
  · subst h; simp
  · have : ¬ j = i := fun e => h e.symm
    simp [h, this]

theorem spawnOne_Tw (s : S) (j : JobId) (c : SpecId) (u : JobId) (h : Tw (spawnOne s j c) u) : Tw s u := by
  obtain ⟨X, hX⟩ := h
  by_cases hn : X = s.next
  · subst hn; rw [spawnOne_jobs_new] at hX; simp at hX
  · rw [spawnOne_jobs_ne s j c X hn] at hX; exact ⟨X, hX⟩

theorem live_spawnOne {p : Prog} {s : S} {j : JobId} {c : SpecId} (hl : Live p s (some j) none) (hlt : j < s.next)
    (hc : c ∈ (spec p s j).children) : Live p (spawnOne s j c) (some j) none := by
  have hjn : j ≠ s.next := Nat.ne_of_lt hlt
  have hnext : (spawnOne s j c).next = s.next + 1 := rfl
  have hpend : ∀ i, i ≠ s.next → (pend (spawnOne s j c) i ↔ pend s i) := by
    intro i hi; unfold pend; rw [spawnOne_jobs_ne s j c i hi]
  have hEW := spawnOne_EW s j c
  have hEWne : ∀ i, i ≠ s.next → EW (spawnOne s j c) i = EW s i := by
    intro i hi; rw [hEW]; simp [hi]
  refine ⟨?_, ?_, ?_, ?_, ?_, ?_, ?_, ?_⟩
  · intro i hi hp hx
    by_cases hin : i = s.next
    · subst hin; left; rw [hEW]; simp
    · have hi' : i < s.next := by have : i < s.next + 1 := hi; omega
      rcases hl.ph i hi' ((hpend i hin).mp hp) hx with a | a | a | a | ⟨X, a1, a2, a3, a4, a5⟩
      · exact Or.inl (by rw [hEWne i hin]; exact a)
      · exact Or.inr (Or.inl a)
      · exact Or.inr (Or.inr (Or.inl ((spawnOne_Q s j c i).mpr a)))
      · exact Or.inr (Or.inr (Or.inr (Or.inl (by unfold EvalPh; rw [spawnOne_jobs_ne s j c i hin]; exact a))))
      · have hXn : X ≠ s.next := Nat.ne_of_lt a3
        refine Or.inr (Or.inr (Or.inr (Or.inr ⟨X, by rw [spawnOne_jobs_ne s j c X hXn]; exact a1, ?_,
          Nat.lt_succ_of_lt a3, fun h => a4 (spawnOne_Tw s j c X h), ?_⟩)))
        · rcases a2 with b | b
          · exact Or.inl ((hpend X hXn).mpr b)
          · exact Or.inr b
        · rw [spawnOne_spec_ne p s j c X hXn, spawnOne_spec_ne p s j c i hin]; exact a5
  · intro i hx he
    by_cases hin : i = s.next
    · subst hin; rw [spawnOne_jobs_new] at he; simp at he
    · rw [spawnOne_jobs_ne s j c i hin] at he
      rcases hl.failed i hx he with a | a
      · exact Or.inl (fun b => a ((hpend i hin).mp b))
      · exact Or.inr (List.mem_append_left _ a)
  · intro k t hm
    obtain ⟨a1, a2, a3, a4, a5, a6⟩ := hl.reg k t hm
    have htn : t ≠ s.next := Nat.ne_of_lt a2
    refine ⟨by unfold keyOf; rw [spawnOne_spec_ne p s j c t htn]; exact a1, Nat.lt_succ_of_lt a2,
      fun h => a3 (spawnOne_Tw s j c t h), by rw [hEWne t htn]; exact a4, a5, fun hx => (hpend t htn).mpr (a6 hx)⟩
  · intro i hi
    by_cases hin : i = s.next
    · subst hin; unfold pend; rw [spawnOne_jobs_new]; exact ⟨rfl, rfl⟩
    · rw [hEWne i hin] at hi
      rw [hpend i hin, spawnOne_jobs_ne s j c i hin]; exact hl.a1 i hi
  · intro X t ht
    by_cases hXn : X = s.next
    · subst hXn; rw [spawnOne_jobs_new] at ht; simp at ht
    · rw [spawnOne_jobs_ne s j c X hXn] at ht
      obtain ⟨a, b⟩ := hl.twq X t ht
      exact ⟨by rw [hEWne t (Nat.ne_of_lt b)]; exact a, Nat.lt_succ_of_lt b⟩
  · intro i hi
    rw [spawnOne_cnt]
    by_cases hin : i = s.next
    · subst hin; rw [spawnOne_jobs_new]; simp
    · rw [spawnOne_jobs_ne s j c i hin] at hi ⊢
      have := hl.cnt i hi; omega
  · intro c' par hc' hp
    by_cases hcn : c' = s.next
    · subst hcn
      rw [spawnOne_jobs_new] at hp
      simp at hp; subst hp
      refine ⟨Nat.lt_succ_of_lt hlt, ?_⟩
      simp only [spawnOne, if_true, hjn, if_false]
      exact hc
    · rw [spawnOne_jobs_ne s j c c' hcn] at hp
      have hc'' : c' < s.next := by have : c' < s.next + 1 := hc'; omega
      obtain ⟨a, b⟩ := hl.kid c' par hc'' hp
      refine ⟨Nat.lt_succ_of_lt a, ?_⟩
      have hpn : par ≠ s.next := Nat.ne_of_lt a
      simp only [spawnOne, hcn, hpn, if_false]
      exact b
  · obtain ⟨a, b, d⟩ := hl.root
    have h0 : (0 : Nat) ≠ s.next := Nat.ne_of_lt b
    refine ⟨by rw [spawnOne_jobs_ne s j c 0 h0]; exact a, Nat.lt_succ_of_lt b, ?_⟩
    rcases d with d | d
    · exact Or.inl ((hpend 0 h0).mpr d)
    · exact Or.inr d


/-! ## part 9: `_done_job_main_thread` -/

theorem spawnFold_live {p : Prog} {j : JobId} (cs : List SpecId) (s : S) (hl : Live p s (some j) none)
    (hlt : j < s.next) (hc : ∀ c, c ∈ cs → c ∈ (spec p s j).children) :
    Live p (cs.foldl (fun s c => spawnOne s j c) s) (some j) none ∧
    (cs.foldl (fun s c => spawnOne s j c) s).jobs j = s.jobs j ∧
    (∀ e, e ∈ s.queue → e ∈ (cs.foldl (fun s c => spawnOne s j c) s).queue) ∧
    cs.length + cntPend s j ≤ cntPend (cs.foldl (fun s c => spawnOne s j c) s) j := by
  induction cs generalizing s with
  | nil => exact ⟨hl, rfl, fun _ h => h, by simp⟩
  | cons c cs ih =>
    have hjn : j ≠ s.next := Nat.ne_of_lt hlt
    have l1 := live_spawnOne hl hlt (hc c (by simp))
    have hsp : spec p (spawnOne s j c) j = spec p s j := spawnOne_spec_ne p s j c j hjn
    obtain ⟨a, b, d, e⟩ := ih (spawnOne s j c) l1 (Nat.lt_succ_of_lt hlt)
      (fun c' hc' => by rw [hsp]; exact hc c' (by simp [hc']))
    refine ⟨a, by rw [List.foldl_cons, b]; exact spawnOne_jobs_ne s j c j hjn,
      fun ev hev => d ev (List.mem_append_left _ hev), ?_⟩
    have := spawnOne_cnt s j c j
    simp only [if_true] at this
    simp only [List.foldl_cons, List.length_cons]
    omega

/-- `Promise.all` over the children: the parent records how many it waits for -/
theorem live_setWaiting {p : Prog} {s : S} {j : JobId} (n : Nat) (hl : Live p s (some j) none)
    (hn : (s.jobs j).evalFailed = false → n ≤ cntPend s j) :
    Live p (setJob s j fun js => { js with waiting := n }) (some j) none := by
  generalize hs' : (setJob s j fun js => { js with waiting := n }) = s'
  have hst : ∀ i, (s'.jobs i).status = (s.jobs i).status := by
    intro i; rw [← hs']; simp only [setJob]; split <;> rfl
  have hwt : ∀ i, i ≠ j → (s'.jobs i).waiting = (s.jobs i).waiting := by
    intro i hi; rw [← hs']; simp [setJob, hi]
  have hwj : (s'.jobs j).waiting = n := by rw [← hs']; simp [setJob]
  have hef : ∀ i, (s'.jobs i).evalFailed = (s.jobs i).evalFailed := by
    intro i; rw [← hs']; simp only [setJob]; split <;> rfl
  have hpar : ∀ i, (s'.jobs i).parent = (s.jobs i).parent := by
    intro i; rw [← hs']; simp only [setJob]; split <;> rfl
  have htw : ∀ i, (s'.jobs i).twins = (s.jobs i).twins := by
    intro i; rw [← hs']; simp only [setJob]; split <;> rfl
  have hrest : s'.next = s.next ∧ s'.specOf = s.specOf ∧ s'.inflight = s.inflight ∧ s'.pendingJobs = s.pendingJobs ∧
      s'.finished = s.finished ∧ s'.queue = s.queue ∧ s'.pendingLimits = s.pendingLimits := by
    rw [← hs']; exact ⟨rfl, rfl, rfl, rfl, rfl, rfl, rfl⟩
  obtain ⟨f1, f2, f3, f4, f5, f6, f7⟩ := hrest
  have hEW : ∀ i, EW s' i = EW s i := by intro i; unfold EW; rw [f6, f7]
  have hpend : ∀ i, pend s' i ↔ pend s i := by intro i; unfold pend; rw [hst]
  have hTw : ∀ i, Tw s' i ↔ Tw s i := by intro i; unfold Tw; simp only [htw]
  have hspec : ∀ i, spec p s' i = spec p s i := fun i => same_spec f2 i
  refine ⟨?_, ?_, ?_, ?_, ?_, ?_, ?_, ?_⟩
  · intro i hi hpi hx
    have hij : i ≠ j := fun h => hx (by rw [h])
    rw [f1] at hi
    rcases hl.ph i hi ((hpend i).mp hpi) hx with a | a | a | a | ⟨X, a1, a2, a3, a4, a5⟩
    · exact Or.inl (by rw [hEW]; exact a)
    · exact Or.inr (Or.inl (by rw [f3]; exact a))
    · exact Or.inr (Or.inr (Or.inl (by unfold Q C; rw [f6]; exact a)))
    · exact Or.inr (Or.inr (Or.inr (Or.inl (by unfold EvalPh; rw [hef, hwt i hij]; exact a))))
    · refine Or.inr (Or.inr (Or.inr (Or.inr ⟨X, by rw [htw]; exact a1, ?_, by rw [f1]; exact a3,
        by rw [hTw]; exact a4, by rw [hspec, hspec]; exact a5⟩)))
      rcases a2 with b | b
      · exact Or.inl ((hpend X).mpr b)
      · exact Or.inr b
  · intro i hx he
    rw [hef] at he
    rcases hl.failed i hx he with a | a
    · exact Or.inl (fun b => a ((hpend i).mp b))
    · exact Or.inr (by rw [f6]; exact a)
  · intro k u hm
    rw [f4] at hm
    obtain ⟨a, b, c, d, e, f⟩ := hl.reg k u hm
    exact ⟨by unfold keyOf; rw [hspec]; exact a, by rw [f1]; exact b, by rw [hTw]; exact c, by rw [hEW]; exact d,
      by unfold lookupPending; rw [f4]; exact e, fun hx => (hpend u).mpr (f hx)⟩
  · intro i hi
    rw [hEW] at hi
    obtain ⟨a, b⟩ := hl.a1 i hi
    exact ⟨(hpend i).mpr a, by rw [htw]; exact b⟩
  · intro X u hu
    rw [htw] at hu
    rw [hEW, f1]; exact hl.twq X u hu
  · intro i hi
    rw [hef] at hi
    rw [cntPend_congr f1 hpar hst]
    by_cases hij : i = j
    · subst hij; rw [hwj]; exact hn hi
    · rw [hwt i hij]; exact hl.cnt i hi
  · intro c par hc hpc
    rw [f1] at hc; rw [hpar] at hpc
    rw [f1, f2]; exact hl.kid c par hc hpc
  · obtain ⟨a, b, c⟩ := hl.root
    refine ⟨by rw [hpar]; exact a, by rw [f1]; exact b, ?_⟩
    rcases c with c | c
    · exact Or.inl ((hpend 0).mpr c)
    · exact Or.inr (by rw [f5]; exact c)


theorem doneJob_live (p : Prog) (s : S) (j : JobId) (f : Bool) (hl : Live p s (some j) none) (hlt : j < s.next)
    (hf : FailedOk s j) : Live p (doneJob p s j f) none none := by
  rw [doneJob_eq]
  have f0 := fr_releaseIf p s j
  generalize releaseIf p s j = s1 at f0
  unfold doneRest
  have f1 : Fr s1 (if (!(s1.jobs j).wasCached && (spec p s1 j).prov) = true then
      { s1 with evalTable := (spec p s1 j).key :: s1.evalTable } else s1) := by
    split
    · exact fr_of_eq rfl rfl rfl rfl rfl rfl rfl rfl
    · exact Fr.refl s1
  have hsp : spec p (if (!(s1.jobs j).wasCached && (spec p s1 j).prov) = true then
      { s1 with evalTable := (spec p s1 j).key :: s1.evalTable } else s1) j = spec p s j := by
    rw [f1.spec, f0.spec]
  generalize (if (!(s1.jobs j).wasCached && (spec p s1 j).prov) = true then
      { s1 with evalTable := (spec p s1 j).key :: s1.evalTable } else s1) = s2 at f1 hsp
  have f2 := f0.trans f1
  have l2 : Live p s2 (some j) none := f2.live hl
  have hf2 : FailedOk s2 j := f2.failedOk hf
  have hlt2 : j < s2.next := by rw [f2.next]; exact hlt
  dsimp only
  split
  · exact live_fill ((fr_enqueue s2 _ (by intro k; simp)).live l2)
      (fun _ _ => Or.inr (Or.inr (Or.inl (Q_of_mem_resolve (mem_enqueue _ _)))))
      ((fr_enqueue s2 _ (by intro k; simp)).failedOk hf2)
  · unfold spawn
    obtain ⟨a, b, c, d⟩ := spawnFold_live (spec p s2 j).children s2 l2 hlt2 (fun _ h => h)
    generalize (List.foldl (fun s c => spawnOne s j c) s2 (spec p s2 j).children) = s3 at a b c d
    have l4 := live_setWaiting (spec p s2 j).children.length a (fun _ => by omega)
    have hf3 : FailedOk s3 j := by
      intro he
      rw [b] at he
      rcases hf2 he with x | x
      · exact Or.inl (fun y => x (by unfold pend at y ⊢; rw [← b]; exact y))
      · exact Or.inr (c _ x)
    have hf4 : FailedOk (setJob s3 j fun js => { js with waiting := (spec p s2 j).children.length }) j := by
      intro he
      have he' : (s3.jobs j).evalFailed = true := by simpa [setJob] using he
      rcases hf3 he' with x | x
      · exact Or.inl (fun y => x (by unfold pend at y ⊢; simpa [setJob] using y))
      · exact Or.inr x
    dsimp only
    generalize hs4 : (setJob s3 j fun js => { js with waiting := (spec p s2 j).children.length }) = s4 at l4 hf4
    have hw4 : (s4.jobs j).waiting = (spec p s2 j).children.length := by rw [← hs4]; simp [setJob]
    split
    · exact live_fill ((fr_enqueue s4 _ (by intro k; simp)).live l4)
        (fun _ _ => Or.inr (Or.inr (Or.inl (Q_of_mem_resolve (mem_enqueue _ _)))))
        ((fr_enqueue s4 _ (by intro k; simp)).failedOk hf4)
    · rename_i hne
      refine live_fill l4 (fun hp _ => ?_) hf4
      by_cases he : (s4.jobs j).evalFailed = true
      · rcases hf4 he with x | x
        · exact absurd hp x
        · exact Or.inr (Or.inr (Or.inl (Q_of_mem_reject x)))
      · refine Or.inr (Or.inr (Or.inr (Or.inl ⟨by simpa using he, ?_⟩)))
        rw [hw4]
        cases hcs : (spec p s2 j).children with
        | nil => rw [hcs] at hne; simp at hne
        | cons c cs => simp


/-! ## part 11: a job resolves and tells its parent -/

/-- effect of `status := resolved; notifyParentResolved` -/
structure ResEff (s s' : S) (j : JobId) : Prop where
  next : s'.next = s.next
  specOf : s'.specOf = s.specOf
  infl : s'.inflight = s.inflight
  pj : s'.pendingJobs = s.pendingJobs
  pl : s'.pendingLimits = s.pendingLimits
  st : ∀ i, (s'.jobs i).status = if i = j then Status.resolved else (s.jobs i).status
  wt : ∀ i, (s'.jobs i).waiting = if (s.jobs j).parent = some i then (s.jobs i).waiting - 1 else (s.jobs i).waiting
  ef : ∀ i, (s'.jobs i).evalFailed = (s.jobs i).evalFailed
  par : ∀ i, (s'.jobs i).parent = (s.jobs i).parent
  tw : ∀ i, (s'.jobs i).twins = (s.jobs i).twins
  queue : s'.queue = s.queue ∨ ∃ par, (s.jobs j).parent = some par ∧ (s.jobs par).evalFailed = false ∧
    (s.jobs par).waiting - 1 = 0 ∧ s'.queue = s.queue ++ [Ev.resolve par]
  qres : ∀ par, (s.jobs j).parent = some par → (s.jobs par).evalFailed = false → (s.jobs par).waiting - 1 = 0 →
    Ev.resolve par ∈ s'.queue
  fin : ((s.jobs j).parent = none → s'.finished = true) ∧ (s.finished = true → s'.finished = true)

theorem resEff (s : S) (j : JobId) :
    ResEff s (notifyParentResolved (setJob s j fun js => { js with status := Status.resolved }) j) j := by
  unfold notifyParentResolved
  have hpj : ((setJob s j fun js => { js with status := Status.resolved }).jobs j).parent = (s.jobs j).parent := by
    simp [setJob]
  rw [hpj]
  cases hp : (s.jobs j).parent with
  | none =>
    dsimp only
    refine ⟨rfl, rfl, rfl, rfl, rfl, ?_, ?_, ?_, ?_, ?_, Or.inl rfl, ?_, ⟨fun _ => rfl, fun _ => rfl⟩⟩
    · intro i; simp only [setJob]; split <;> rfl
    · intro i; rw [hp]; simp only [setJob]; split <;> simp
    · intro i; simp only [setJob]; split <;> rfl
    · intro i; simp only [setJob]; split <;> rfl
    · intro i; simp only [setJob]; split <;> rfl
    · intro par h; rw [hp] at h; simp at h
  | some par =>
    dsimp only
    generalize hs2 : (setJob (setJob s j fun js => { js with status := Status.resolved }) par
      fun js => { js with waiting := js.waiting - 1 }) = s2
    have h2 : s2.next = s.next ∧ s2.specOf = s.specOf ∧ s2.inflight = s.inflight ∧ s2.pendingJobs = s.pendingJobs ∧
        s2.pendingLimits = s.pendingLimits ∧ s2.queue = s.queue ∧ s2.finished = s.finished := by
      rw [← hs2]; exact ⟨rfl, rfl, rfl, rfl, rfl, rfl, rfl⟩
    obtain ⟨g1, g2, g3, g4, g5, g6, g7⟩ := h2
    have hst : ∀ i, (s2.jobs i).status = if i = j then Status.resolved else (s.jobs i).status := by
      intro i; rw [← hs2]; simp only [setJob]; split <;> split <;> simp_all
    have hwt : ∀ i, (s2.jobs i).waiting = if (s.jobs j).parent = some i then (s.jobs i).waiting - 1 else (s.jobs i).waiting := by
      intro i; rw [← hs2, hp]; simp only [setJob]
      by_cases h1 : i = par
      · subst h1; simp; split <;> rfl
      · have : ¬ par = i := fun e => h1 e.symm
        simp [h1, this]; split <;> rfl
    have hef : ∀ i, (s2.jobs i).evalFailed = (s.jobs i).evalFailed := by
      intro i; rw [← hs2]; simp only [setJob]; split <;> split <;> rfl
    have hpar : ∀ i, (s2.jobs i).parent = (s.jobs i).parent := by
      intro i; rw [← hs2]; simp only [setJob]; split <;> split <;> rfl
    have htw : ∀ i, (s2.jobs i).twins = (s.jobs i).twins := by
      intro i; rw [← hs2]; simp only [setJob]; split <;> split <;> rfl
    split
    · rename_i hc
      have hc' := hc
      rw [hwt, hef, hp] at hc'
      simp only [if_true, Bool.and_eq_true, decide_eq_true_eq, Bool.not_eq_true'] at hc'
      refine ⟨g1, g2, g3, g4, g5, hst, hwt, hef, hpar, htw, Or.inr ⟨par, hp, hc'.2, hc'.1, by simp [enqueue, g6]⟩, ?_,
        ⟨fun h => by rw [hp] at h; simp at h, fun h => by show s2.finished = true; rw [g7]; exact h⟩⟩
      intro par' h _ _
      rw [hp] at h; simp at h; subst h; simp [enqueue]
    · rename_i hc
      refine ⟨g1, g2, g3, g4, g5, hst, hwt, hef, hpar, htw, Or.inl g6, ?_,
        ⟨fun h => by rw [hp] at h; simp at h, fun h => by rw [g7]; exact h⟩⟩
      intro par' h h1 h2
      rw [hp] at h; simp at h; subst h
      exfalso; apply hc
      rw [hwt, hef, hp]; simp [h1, h2]


theorem EW_append_resolve (s s' : S) (hpl : s'.pendingLimits = s.pendingLimits)
    (hq : s'.queue = s.queue ∨ ∃ par, s'.queue = s.queue ++ [Ev.resolve par]) (i : JobId) : EW s' i = EW s i := by
  unfold EW; rw [hpl]
  rcases hq with h | ⟨par, h⟩
  · rw [h]
  · rw [h]; simp [List.count_append]

theorem ResEff.live {p : Prog} {s s' : S} {j : JobId} (h : ResEff s s' j) (hl : Live p s (some j) none)
    (hew : EW s j = 0) : Live p s' (some j) (some j) := by
  have hEW := EW_append_resolve s s' h.pl (h.queue.imp id (fun ⟨par, _, _, _, q⟩ => ⟨par, q⟩))
  have hmem : ∀ e, e ∈ s.queue → e ∈ s'.queue := by
    intro e he
    rcases h.queue with q | ⟨par, _, _, _, q⟩
    · rw [q]; exact he
    · rw [q]; exact List.mem_append_left _ he
  have hQ : ∀ i, Q s i → Q s' i := by
    intro i hq
    rcases hq with (⟨f, a⟩ | a) | a
    · exact Or.inl (Or.inl ⟨f, hmem _ a⟩)
    · exact Or.inl (Or.inr (hmem _ a))
    · exact Or.inr (hmem _ a)
  have hpend : ∀ i, pend s' i → pend s i ∧ i ≠ j := by
    intro i hp; unfold pend at hp ⊢; rw [h.st] at hp
    by_cases e : i = j
    · simp [e] at hp
    · simp only [e, if_false] at hp; exact ⟨hp, e⟩
  have hpend' : ∀ i, i ≠ j → pend s i → pend s' i := by
    intro i e hp; unfold pend at hp ⊢; rw [h.st]; simp only [e, if_false]; exact hp
  have hTw : ∀ i, Tw s' i ↔ Tw s i := by intro i; unfold Tw; simp only [h.tw]
  have hspec : ∀ i, spec p s' i = spec p s i := fun i => same_spec h.specOf i
  refine ⟨?_, ?_, ?_, ?_, ?_, ?_, ?_, ?_⟩
  · intro i hi hp hx
    rw [h.next] at hi
    obtain ⟨hp0, hij⟩ := hpend i hp
    rcases hl.ph i hi hp0 hx with a | a | a | a | ⟨X, a1, a2, a3, a4, a5⟩
    · exact Or.inl (by rw [hEW]; exact a)
    · exact Or.inr (Or.inl (by rw [h.infl]; exact a))
    · exact Or.inr (Or.inr (Or.inl (hQ i a)))
    · by_cases hpar : (s.jobs j).parent = some i
      · by_cases hz : (s.jobs i).waiting - 1 = 0
        · exact Or.inr (Or.inr (Or.inl (Or.inr (h.qres i hpar a.1 hz))))
        · refine Or.inr (Or.inr (Or.inr (Or.inl ⟨by rw [h.ef]; exact a.1, ?_⟩)))
          rw [h.wt]; simp only [hpar, if_true]; omega
      · refine Or.inr (Or.inr (Or.inr (Or.inl ⟨by rw [h.ef]; exact a.1, ?_⟩)))
        rw [h.wt]; simp only [hpar, if_false]; exact a.2
    · refine Or.inr (Or.inr (Or.inr (Or.inr ⟨X, by rw [h.tw]; exact a1, ?_, by rw [h.next]; exact a3,
        by rw [hTw]; exact a4, by rw [hspec, hspec]; exact a5⟩)))
      by_cases hX : X = j
      · exact Or.inr (by rw [hX])
      · rcases a2 with b | b
        · exact Or.inl (hpend' X hX b)
        · simp at b
  · intro i hx he
    rw [h.ef] at he
    rcases hl.failed i hx he with a | a
    · exact Or.inl (fun b => a (hpend i b).1)
    · exact Or.inr (hmem _ a)
  · intro k t hm
    rw [h.pj] at hm
    obtain ⟨a, b, c, d, e, f⟩ := hl.reg k t hm
    refine ⟨by unfold keyOf; rw [hspec]; exact a, by rw [h.next]; exact b, by rw [hTw]; exact c, by rw [hEW]; exact d,
      by unfold lookupPending; rw [h.pj]; exact e, fun hx => ?_⟩
    exact hpend' t (fun e' => hx (by rw [e'])) (f (by simp))
  · intro i hi
    rw [hEW] at hi
    obtain ⟨a, b⟩ := hl.a1 i hi
    have hij : i ≠ j := by intro e; subst e; omega
    exact ⟨hpend' i hij a, by rw [h.tw]; exact b⟩
  · intro X t ht
    rw [h.tw] at ht
    rw [hEW, h.next]; exact hl.twq X t ht
  · intro i hi
    rw [h.ef] at hi
    have hc := hl.cnt i hi
    rw [h.wt]
    unfold cntPend at hc ⊢
    rw [h.next]
    have hk : ∀ c, c ≠ j → kidPend s i c = kidPend s' i c := by
      intro c hcj; unfold kidPend; rw [h.par, h.st]; simp [hcj]
    by_cases hpar : (s.jobs j).parent = some i
    · simp only [hpar, if_true]
      have := cntTo_update_le (f := kidPend s i) (g := kidPend s' i) (n := s.next) j hk
      omega
    · simp only [hpar, if_false]
      have : cntTo (kidPend s i) s.next = cntTo (kidPend s' i) s.next := by
        apply cntTo_congr
        intro c _
        by_cases hcj : c = j
        · subst hcj; unfold kidPend; rw [h.par]; simp [hpar]
        · exact hk c hcj
      omega
  · intro c par hc hpc
    rw [h.next] at hc; rw [h.par] at hpc
    rw [h.next, h.specOf]; exact hl.kid c par hc hpc
  · obtain ⟨a, b, c⟩ := hl.root
    refine ⟨by rw [h.par]; exact a, by rw [h.next]; exact b, ?_⟩
    by_cases h0 : (0 : Nat) = j
    · subst h0; exact Or.inr (h.fin.1 a)
    · rcases c with c | c
      · exact Or.inl (hpend' 0 h0 c)
      · exact Or.inr (h.fin.2 c)


/-! ## part 13: a job is rejected and tells its parent -/

/-- effect of `status := rejected; notifyParentRejected` -/
structure RejEff (s s' : S) (u : JobId) : Prop where
  next : s'.next = s.next
  specOf : s'.specOf = s.specOf
  infl : s'.inflight = s.inflight
  pj : s'.pendingJobs = s.pendingJobs
  pl : s'.pendingLimits = s.pendingLimits
  st : ∀ i, (s'.jobs i).status = if i = u then Status.rejected else (s.jobs i).status
  wt : ∀ i, (s'.jobs i).waiting = (s.jobs i).waiting
  ef : ∀ i, (s'.jobs i).evalFailed = if (s.jobs u).parent = some i then true else (s.jobs i).evalFailed
  par : ∀ i, (s'.jobs i).parent = (s.jobs i).parent
  tw : ∀ i, (s'.jobs i).twins = (s.jobs i).twins
  queue : s'.queue = s.queue ∨ ∃ par, (s.jobs u).parent = some par ∧ (s.jobs par).evalFailed = false ∧
    s'.queue = s.queue ++ [Ev.reject par]
  qrej : ∀ par, (s.jobs u).parent = some par → (s.jobs par).evalFailed = false → Ev.reject par ∈ s'.queue
  fin : ((s.jobs u).parent = none → s'.finished = true) ∧ (s.finished = true → s'.finished = true)

theorem rejEff (s : S) (u : JobId) :
    RejEff s (notifyParentRejected (setJob s u fun js => { js with status := Status.rejected }) u) u := by
  unfold notifyParentRejected
  have hpj : ((setJob s u fun js => { js with status := Status.rejected }).jobs u).parent = (s.jobs u).parent := by
    simp [setJob]
  rw [hpj]
  have hst1 : ∀ i, ((setJob s u fun js => { js with status := Status.rejected }).jobs i).status =
      if i = u then Status.rejected else (s.jobs i).status := by
    intro i; simp only [setJob]; split <;> rfl
  have hef1 : ∀ i, ((setJob s u fun js => { js with status := Status.rejected }).jobs i).evalFailed =
      (s.jobs i).evalFailed := by
    intro i; simp only [setJob]; split <;> rfl
  cases hp : (s.jobs u).parent with
  | none =>
    dsimp only
    refine ⟨rfl, rfl, rfl, rfl, rfl, hst1, ?_, ?_, ?_, ?_, Or.inl rfl, ?_,
      ⟨fun _ => rfl, fun _ => rfl⟩⟩
    · intro i; simp only [setJob]; split <;> rfl
    · intro i; rw [hp]; simp only [setJob]; split <;> simp
    · intro i; simp only [setJob]; split <;> rfl
    · intro i; simp only [setJob]; split <;> rfl
    · intro par h; rw [hp] at h; simp at h
  | some par =>
    dsimp only
    rw [hef1]
    split
    · rename_i hc
      refine ⟨rfl, rfl, rfl, rfl, rfl, hst1, ?_, ?_, ?_, ?_, Or.inl rfl, ?_,
        ⟨fun h => by rw [hp] at h; simp at h, fun h => h⟩⟩
      · intro i; simp only [setJob]; split <;> rfl
      · intro i; rw [hp, hef1]
        by_cases e : par = i
        · subst e; simp [hc]
        · simp [e]
      · intro i; simp only [setJob]; split <;> rfl
      · intro i; simp only [setJob]; split <;> rfl
      · intro par' h h1; rw [hp] at h; simp at h; subst h; rw [hc] at h1; simp at h1
    · rename_i hc
      refine ⟨rfl, rfl, rfl, rfl, rfl, ?_, ?_, ?_, ?_, ?_, Or.inr ⟨par, hp, by simpa using hc, rfl⟩, ?_,
        ⟨fun h => by rw [hp] at h; simp at h, fun h => h⟩⟩
      · intro i; simp only [enqueue, setJob]; split <;> split <;> simp_all
      · intro i; simp only [enqueue, setJob]; split <;> split <;> rfl
      · intro i; rw [hp]; simp only [enqueue, setJob]
        by_cases e : i = par
        · subst e; simp
        · have : ¬ par = i := fun e' => e e'.symm
          simp [e, this]; split <;> rfl
      · intro i; simp only [enqueue, setJob]; split <;> split <;> rfl
      · intro i; simp only [enqueue, setJob]; split <;> split <;> rfl
      · intro par' h _; rw [hp] at h; simp at h; subst h; simp [enqueue]


theorem EW_append_reject (s s' : S) (hpl : s'.pendingLimits = s.pendingLimits)
    (hq : s'.queue = s.queue ∨ ∃ par, s'.queue = s.queue ++ [Ev.reject par]) (i : JobId) : EW s' i = EW s i := by
  unfold EW; rw [hpl]
  rcases hq with h | ⟨par, h⟩
  · rw [h]
  · rw [h]; simp [List.count_append]

theorem live_open {p : Prog} {s : S} {x : Option JobId} (j : JobId) (hl : Live p s x none) : Live p s x (some j) := by
  refine ⟨?_, hl.failed, ?_, hl.a1, hl.twq, hl.cnt, hl.kid, hl.root⟩
  · intro i hi hp hx
    rcases hl.ph i hi hp hx with a | a | a | a | ⟨X, a1, a2, a3, a4, a5⟩
    · exact Or.inl a
    · exact Or.inr (Or.inl a)
    · exact Or.inr (Or.inr (Or.inl a))
    · exact Or.inr (Or.inr (Or.inr (Or.inl a)))
    · refine Or.inr (Or.inr (Or.inr (Or.inr ⟨X, a1, ?_, a3, a4, a5⟩)))
      rcases a2 with b | b
      · exact Or.inl b
      · simp at b
  · intro k t hm
    obtain ⟨a, b, c, d, e, f⟩ := hl.reg k t hm
    exact ⟨a, b, c, d, e, fun _ => f (by simp)⟩

theorem RejEff.live {p : Prog} {s s' : S} {j u : JobId} (h : RejEff s s' u) (hl : Live p s (some j) (some j))
    (hu : u = j ∨ Tw s u) (hew : EW s u = 0) : Live p s' (some j) (some j) := by
  have hEW := EW_append_reject s s' h.pl (h.queue.imp id (fun ⟨par, _, _, q⟩ => ⟨par, q⟩))
  have hmem : ∀ e, e ∈ s.queue → e ∈ s'.queue := by
    intro e he
    rcases h.queue with q | ⟨par, _, _, q⟩
    · rw [q]; exact he
    · rw [q]; exact List.mem_append_left _ he
  have hQ : ∀ i, Q s i → Q s' i := by
    intro i hq
    rcases hq with (⟨f, a⟩ | a) | a
    · exact Or.inl (Or.inl ⟨f, hmem _ a⟩)
    · exact Or.inl (Or.inr (hmem _ a))
    · exact Or.inr (hmem _ a)
  have hpend : ∀ i, pend s' i → pend s i ∧ i ≠ u := by
    intro i hp; unfold pend at hp ⊢; rw [h.st] at hp
    by_cases e : i = u
    · simp [e] at hp
    · simp only [e, if_false] at hp; exact ⟨hp, e⟩
  have hpend' : ∀ i, i ≠ u → pend s i → pend s' i := by
    intro i e hp; unfold pend at hp ⊢; rw [h.st]; simp only [e, if_false]; exact hp
  have hTw : ∀ i, Tw s' i ↔ Tw s i := by intro i; unfold Tw; simp only [h.tw]
  have hspec : ∀ i, spec p s' i = spec p s i := fun i => same_spec h.specOf i
  refine ⟨?_, ?_, ?_, ?_, ?_, ?_, ?_, ?_⟩
  · intro i hi hp hx
    rw [h.next] at hi
    obtain ⟨hp0, hiu⟩ := hpend i hp
    rcases hl.ph i hi hp0 hx with a | a | a | a | ⟨X, a1, a2, a3, a4, a5⟩
    · exact Or.inl (by rw [hEW]; exact a)
    · exact Or.inr (Or.inl (by rw [h.infl]; exact a))
    · exact Or.inr (Or.inr (Or.inl (hQ i a)))
    · by_cases hpar : (s.jobs u).parent = some i
      · exact Or.inr (Or.inr (Or.inl (Or.inl (Or.inr (h.qrej i hpar a.1)))))
      · refine Or.inr (Or.inr (Or.inr (Or.inl ⟨?_, by rw [h.wt]; exact a.2⟩)))
        rw [h.ef]; simp only [hpar, if_false]; exact a.1
    · refine Or.inr (Or.inr (Or.inr (Or.inr ⟨X, by rw [h.tw]; exact a1, ?_, by rw [h.next]; exact a3,
        by rw [hTw]; exact a4, by rw [hspec, hspec]; exact a5⟩)))
      rcases a2 with b | b
      · by_cases hX : X = u
        · rcases hu with c | c
          · exact Or.inr (by rw [hX, c])
          · exact absurd (hX ▸ c) a4
        · exact Or.inl (hpend' X hX b)
      · exact Or.inr b
  · intro i hx he
    rw [h.ef] at he
    by_cases hpar : (s.jobs u).parent = some i
    · by_cases hold : (s.jobs i).evalFailed = true
      · rcases hl.failed i hx hold with a | a
        · exact Or.inl (fun b => a (hpend i b).1)
        · exact Or.inr (hmem _ a)
      · exact Or.inr (h.qrej i hpar (by simpa using hold))
    · simp only [hpar, if_false] at he
      rcases hl.failed i hx he with a | a
      · exact Or.inl (fun b => a (hpend i b).1)
      · exact Or.inr (hmem _ a)
  · intro k t hm
    rw [h.pj] at hm
    obtain ⟨a, b, c, d, e, f⟩ := hl.reg k t hm
    refine ⟨by unfold keyOf; rw [hspec]; exact a, by rw [h.next]; exact b, by rw [hTw]; exact c, by rw [hEW]; exact d,
      by unfold lookupPending; rw [h.pj]; exact e, fun hx => ?_⟩
    have htu : t ≠ u := by
      intro e'
      rcases hu with c' | c'
      · exact hx (by rw [e', c'])
      · exact c (e' ▸ c')
    exact hpend' t htu (f hx)
  · intro i hi
    rw [hEW] at hi
    obtain ⟨a, b⟩ := hl.a1 i hi
    have hiu : i ≠ u := by intro e; subst e; omega
    exact ⟨hpend' i hiu a, by rw [h.tw]; exact b⟩
  · intro X t ht
    rw [h.tw] at ht
    rw [hEW, h.next]; exact hl.twq X t ht
  · intro i hi
    rw [h.ef] at hi
    have hpar : ¬ (s.jobs u).parent = some i := by
      intro e; simp [e] at hi
    simp only [hpar, if_false] at hi
    have hc := hl.cnt i hi
    rw [h.wt]
    unfold cntPend at hc ⊢
    rw [h.next]
    have : cntTo (kidPend s i) s.next = cntTo (kidPend s' i) s.next := by
      apply cntTo_congr
      intro c _
      unfold kidPend; rw [h.par, h.st]
      by_cases hcu : c = u
      · subst hcu; simp [hpar]
      · simp [hcu]
    omega
  · intro c par hc hpc
    rw [h.next] at hc; rw [h.par] at hpc
    rw [h.next, h.specOf]; exact hl.kid c par hc hpc
  · obtain ⟨a, b, c⟩ := hl.root
    refine ⟨by rw [h.par]; exact a, by rw [h.next]; exact b, ?_⟩
    by_cases h0 : (0 : Nat) = u
    · subst h0; exact Or.inr (h.fin.1 a)
    · rcases c with c | c
      · exact Or.inl (hpend' 0 h0 c)
      · exact Or.inr (h.fin.2 c)


/-! ## part 15: `_finalize_job`, closing the exemptions, serving the twins -/

theorem live_finalize {p : Prog} {s : S} {x y : Option JobId} (u : JobId) (hl : Live p s x y) :
    Live p (finalize p s u) x y ∧ ∀ k, (k, u) ∉ (finalize p s u).pendingJobs := by
  unfold finalize
  dsimp only
  split
  · rename_i hreg
    constructor
    · refine ⟨hl.ph, hl.failed, ?_, hl.a1, hl.twq, hl.cnt, hl.kid, hl.root⟩
      intro k t hm
      have hm' := List.mem_filter.mp hm
      obtain ⟨a, b, c, d, e, f⟩ := hl.reg k t hm'.1
      refine ⟨a, b, c, d, ?_, f⟩
      have hk : k ≠ ((spec p s u).key, (spec p s u).ctx) := by simpa using hm'.2
      unfold lookupPending at e ⊢
      show Option.map (fun x => x.2) (List.find? (fun e => e.1 == k)
        (List.filter (fun e => e.1 != ((spec p s u).key, (spec p s u).ctx)) s.pendingJobs)) = some t
      rw [lookup_filter_ne s.pendingJobs _ k hk]; exact e
    · intro k hm
      have hm' := List.mem_filter.mp hm
      obtain ⟨a, _⟩ := hl.reg k u hm'.1
      have : k = ((spec p s u).key, (spec p s u).ctx) := by rw [← a]; rfl
      simp [this] at hm'
  · rename_i hreg
    refine ⟨hl, ?_⟩
    intro k hm
    obtain ⟨a, _, _, _, e, _⟩ := hl.reg k u hm
    have : k = ((spec p s u).key, (spec p s u).ctx) := by rw [← a]; rfl
    rw [this] at e
    exact hreg e

/-- end of a settling handler: `j` is settled, unregistered, and its pending twins have their event -/
theorem live_close {p : Prog} {s : S} {j : JobId} (hl : Live p s (some j) (some j)) (hnp : ¬ pend s j)
    (htw : ∀ t, t ∈ (s.jobs j).twins → pend s t → Q s t) (hnr : ∀ k, (k, j) ∉ s.pendingJobs) :
    Live p s none none := by
  refine ⟨?_, ?_, ?_, hl.a1, hl.twq, hl.cnt, hl.kid, hl.root⟩
  · intro i hi hp _
    have hij : i ≠ j := by intro e; subst e; exact hnp hp
    rcases hl.ph i hi hp (fun h => hij (Option.some.inj h)) with a | a | a | a | ⟨X, a1, a2, a3, a4, a5⟩
    · exact Or.inl a
    · exact Or.inr (Or.inl a)
    · exact Or.inr (Or.inr (Or.inl a))
    · exact Or.inr (Or.inr (Or.inr (Or.inl a)))
    · rcases a2 with b | b
      · exact Or.inr (Or.inr (Or.inr (Or.inr ⟨X, a1, Or.inl b, a3, a4, a5⟩)))
      · have hX : X = j := Option.some.inj b
        subst hX
        exact Or.inr (Or.inr (Or.inl (htw i a1 hp)))
  · intro i _
    by_cases hij : i = j
    · subst hij; exact fun _ => Or.inl hnp
    · exact hl.failed i (fun h => hij (Option.some.inj h))
  · intro k t hm
    obtain ⟨a, b, c, d, e, f⟩ := hl.reg k t hm
    refine ⟨a, b, c, d, e, fun _ => f ?_⟩
    intro h
    have : t = j := Option.some.inj h
    subst this; exact hnr k hm

/-- the twins of a resolved job get their `done` event -/
theorem twinsDone_fr (l : List JobId) (s : S) :
    Fr s (l.foldl (fun s t => enqueue (setJob s t fun js => { js with wasCached := true }) (Ev.done t true)) s) ∧
    ∀ t, t ∈ l → Ev.done t true ∈
      (l.foldl (fun s t => enqueue (setJob s t fun js => { js with wasCached := true }) (Ev.done t true)) s).queue := by
  induction l generalizing s with
  | nil => exact ⟨Fr.refl s, by simp⟩
  | cons a l ih =>
    have f1 : Fr s (enqueue (setJob s a fun js => { js with wasCached := true }) (Ev.done a true)) :=
      (fr_cached s a).trans (fr_enqueue _ _ (by intro k; simp))
    obtain ⟨f2, m2⟩ := ih (enqueue (setJob s a fun js => { js with wasCached := true }) (Ev.done a true))
    refine ⟨f1.trans f2, ?_⟩
    intro t ht
    rcases List.mem_cons.mp ht with e | e
    · subst e
      exact f2.qm _ (by intro k; simp) (mem_enqueue _ _)
    · exact m2 t e


/-! ## part 16: `_resolve_job_main_thread` -/

theorem finalize_frame (p : Prog) (s : S) (j : JobId) :
    (finalize p s j).jobs = s.jobs ∧ (finalize p s j).queue = s.queue := by
  unfold finalize; dsimp only; split <;> exact ⟨rfl, rfl⟩

theorem resolveJob_live (p : Prog) (s : S) (j : JobId) (hl : Live p s (some j) none) (hew : EW s j = 0) :
    Live p (resolveJob p s j) none none := by
  unfold resolveJob
  dsimp only
  have f0 := fr_record p s j false
  generalize record p s j false = s0 at f0
  have l0 := f0.live hl
  have hew0 : EW s0 j = 0 := by rw [f0.ew]; exact hew
  have eff := resEff s0 j
  generalize (notifyParentResolved (setJob s0 j fun js => { js with status := Status.resolved }) j) = s2 at eff
  have l2 := eff.live l0 hew0
  have hnp2 : (s2.jobs j).status = Status.resolved := by rw [eff.st]; simp
  obtain ⟨f3, m3⟩ := twinsDone_fr (s2.jobs j).twins s2
  generalize (List.foldl (fun s t => enqueue (setJob s t fun js => { js with wasCached := true }) (Ev.done t true)) s2
    (s2.jobs j).twins) = s3 at f3 m3
  have l3 := f3.live l2
  obtain ⟨l4, hnr⟩ := live_finalize j l3
  obtain ⟨g1, g2⟩ := finalize_frame p s3 j
  refine live_close l4 ?_ ?_ hnr
  · unfold pend; rw [g1, f3.st, hnp2]; simp
  · intro t ht _
    rw [g1, f3.tw] at ht
    exact Q_of_mem_done (by rw [g2]; exact m3 t ht)


/-! ## part 17: `_reject_job_main_thread` -/

theorem rejectTwin_live (p : Prog) (s : S) (j t : JobId) (hl : Live p s (some j) (some j))
    (ht : t ∈ (s.jobs j).twins) :
    Live p (rejectTwin p s t) (some j) (some j) ∧
    (∀ i, ((rejectTwin p s t).jobs i).twins = (s.jobs i).twins) ∧
    (∀ i, ((rejectTwin p s t).jobs i).status = if i = t then Status.rejected else (s.jobs i).status) := by
  unfold rejectTwin
  dsimp only
  have f0 : Fr s (record p (setJob s t fun js => { js with wasCached := true }) t true) :=
    (fr_cached s t).trans (fr_record p _ t true)
  generalize (record p (setJob s t fun js => { js with wasCached := true }) t true) = s0 at f0
  have l0 := f0.live hl
  have hTw0 : Tw s0 t := (f0.twIff t).mpr ⟨j, ht⟩
  have hew0 : EW s0 t = 0 := by rw [f0.ew]; exact (hl.twq j t ht).1
  have eff := rejEff s0 t
  generalize (notifyParentRejected (setJob s0 t fun js => { js with status := Status.rejected }) t) = s2 at eff
  have l2 := eff.live l0 (Or.inr hTw0) hew0
  obtain ⟨l3, _⟩ := live_finalize t l2
  obtain ⟨g1, _⟩ := finalize_frame p s2 t
  refine ⟨l3, ?_, ?_⟩
  · intro i; rw [g1, eff.tw, f0.tw]
  · intro i; rw [g1, eff.st, f0.st]

theorem rejectTwins_live (p : Prog) (j : JobId) (l : List JobId) (s : S) (hl : Live p s (some j) (some j))
    (ht : ∀ t, t ∈ l → t ∈ (s.jobs j).twins) :
    Live p (l.foldl (rejectTwin p) s) (some j) (some j) ∧
    (∀ i, ((l.foldl (rejectTwin p) s).jobs i).twins = (s.jobs i).twins) ∧
    (∀ i, ¬ pend s i → ¬ pend (l.foldl (rejectTwin p) s) i) ∧
    (∀ t, t ∈ l → ¬ pend (l.foldl (rejectTwin p) s) t) := by
  induction l generalizing s with
  | nil => exact ⟨hl, fun _ => rfl, fun _ h => h, by simp⟩
  | cons a l ih =>
    obtain ⟨l1, tw1, st1⟩ := rejectTwin_live p s j a hl (ht a (by simp))
    obtain ⟨l2, tw2, np2, nl2⟩ := ih (rejectTwin p s a) l1 (fun t h => by rw [tw1]; exact ht t (by simp [h]))
    have hnp1 : ∀ i, ¬ pend s i → ¬ pend (rejectTwin p s a) i := by
      intro i h1 h2; unfold pend at h1 h2; rw [st1] at h2
      split at h2
      · simp at h2
      · exact h1 h2
    refine ⟨l2, fun i => (tw2 i).trans (tw1 i), fun i h => np2 i (hnp1 i h), ?_⟩
    intro t h
    rcases List.mem_cons.mp h with e | e
    · subst e
      apply np2
      unfold pend; rw [st1]; simp
    · exact nl2 t e

theorem rejectJob_live (p : Prog) (s : S) (j : JobId) (hl : Live p s (some j) none) (hew : EW s j = 0) :
    Live p (rejectJob p s j) none none := by
  rw [rejectJob_eq]
  unfold rejectRest
  dsimp only
  have f0 : Fr s (record p (releaseIf p s j) j true) := (fr_releaseIf p s j).trans (fr_record p _ j true)
  generalize (record p (releaseIf p s j) j true) = s0 at f0
  have l0 := live_open j (f0.live hl)
  have hew0 : EW s0 j = 0 := by rw [f0.ew]; exact hew
  have eff := rejEff s0 j
  generalize (notifyParentRejected (setJob s0 j fun js => { js with status := Status.rejected }) j) = s2 at eff
  have l2 := eff.live l0 (Or.inl rfl) hew0
  have hnp2 : ¬ pend s2 j := by unfold pend; rw [eff.st]; simp
  obtain ⟨l3, tw3, np3, nl3⟩ := rejectTwins_live p j (s2.jobs j).twins s2 l2 (fun _ h => h)
  generalize (List.foldl (rejectTwin p) s2 (s2.jobs j).twins) = s3 at l3 tw3 np3 nl3
  obtain ⟨l4, hnr⟩ := live_finalize j l3
  obtain ⟨g1, g2⟩ := finalize_frame p s3 j
  refine live_close l4 ?_ ?_ hnr
  · unfold pend; rw [g1]; exact np3 j hnp2
  · intro t ht hp
    rw [g1, tw3] at ht
    exact absurd (by unfold pend at hp ⊢; rw [g1] at hp; exact hp) (nl3 t ht)


/-! ## part 18: every reachable state satisfies the lifecycle invariant -/

theorem complete_live (p : Prog) (s : S) (j : JobId) (hl : Live p s none none) :
    Live p (complete p s j) none none := by
  unfold complete
  have l1 : Live p { s with inflight := fun i => if i = j then false else s.inflight i } (some j) none :=
    live_setInfl false s.submits (live_weaken j hl)
  have hf1 : FailedOk { s with inflight := fun i => if i = j then false else s.inflight i } j := hl.failed j (by simp)
  generalize ({ s with inflight := fun i => if i = j then false else s.inflight i } : S) = s1 at l1 hf1
  dsimp only
  have hne : ∀ k, (if (spec p s1 j).fails = true then Ev.reject j else Ev.done j false) ≠ Ev.exec k := by
    intro k; split <;> simp
  have fr := fr_enqueue s1 _ hne
  refine live_fill (fr.live l1) (fun _ _ => Or.inr (Or.inr (Or.inl ?_))) (fr.failedOk hf1)
  have hm := mem_enqueue s1 (if (spec p s1 j).fails = true then Ev.reject j else Ev.done j false)
  split at hm
  · rename_i h; simp only [h, if_true]; exact Q_of_mem_reject hm
  · rename_i h; simp only [h]; exact Q_of_mem_done hm

theorem pop_live (p : Prog) (hd : p.dryrun = false) (s : S) (hinv : Inv p s) (hl : Live p s none none) :
    Live p (pop p s) none none := by
  unfold pop
  split
  · exact hl
  · rename_i e rest hq
    rw [tl_eq s e rest hq]
    have lt := live_tl p s e rest hq hl
    cases e with
    | exec j =>
      obtain ⟨a, b, c, d, f⟩ := exec_head_facts p s j rest hq hinv.core
      have hEW := tl_EW_eq s (Ev.exec j) rest hq j
      simp only [if_true] at hEW
      obtain ⟨hp, htw⟩ := hl.a1 j (by omega)
      have hnr : ∀ k, (k, j) ∉ (tl s).pendingJobs := by
        intro k hm
        have := (hl.reg k j hm).2.2.2.1
        omega
      exact execJob_live p hd (tl s) j lt hp htw (fun ⟨X, hX⟩ => c X hX) (EW_zero_of_occA a.1) a.2.2 hnr
        (failedOk_tl p s _ rest hq hl j (by simp))
    | done j f =>
      have hQ : Q s j := Q_of_mem_done (f := f) (by rw [hq]; simp)
      exact doneJob_live p (tl s) j f lt (lt_next_of_Q hinv.core hQ) (failedOk_tl p s _ rest hq hl j (by simp))
    | resolve j =>
      have hQ : Q s j := Q_of_mem_resolve (by rw [hq]; simp)
      have h0 := hinv.core.q_quiet j hQ
      exact resolveJob_live p (tl s) j lt (Nat.le_zero.mp (h0 ▸ tl_EW_le s j))
    | reject j =>
      have hQ : Q s j := Q_of_mem_reject (by rw [hq]; simp)
      have h0 := hinv.core.q_quiet j hQ
      exact rejectJob_live p (tl s) j lt (Nat.le_zero.mp (h0 ▸ tl_EW_le s j))

theorem live_init (p : Prog) : Live p init none none := by
  have hj : ∀ j, (init.jobs j).status = Status.pending ∧ (init.jobs j).twins = [] ∧ (init.jobs j).evalFailed = false ∧
      (init.jobs j).waiting = 0 ∧ (init.jobs j).parent = none := by
    intro j; simp only [init]; split <;> exact ⟨rfl, rfl, rfl, rfl, rfl⟩
  refine ⟨?_, ?_, ?_, ?_, ?_, ?_, ?_, ?_⟩
  · intro j hj' _ _
    have : j = 0 := by simp only [init] at hj'; omega
    subst this
    left; simp [EW, init]
  · intro j _ he; rw [(hj j).2.2.1] at he; simp at he
  · intro k t hm; simp [init] at hm
  · intro j _; exact ⟨(hj j).1, (hj j).2.1⟩
  · intro X t ht; rw [(hj X).2.1] at ht; simp at ht
  · intro j _; rw [(hj j).2.2.2.1]; exact Nat.zero_le _
  · intro c par _ hp; rw [(hj c).2.2.2.2] at hp; simp at hp
  · exact ⟨(hj 0).2.2.2.2, by simp [init], Or.inl (hj 0).1⟩

theorem reachable_live (p : Prog) (hd : p.dryrun = false) (s : S) (h : Reachable p s) : Live p s none none := by
  induction h with
  | init => exact live_init p
  | step hr hs ih =>
    cases hs with
    | pop _ _ => exact pop_live p hd _ (reachable_inv p _ hr) ih
    | complete j _ _ => exact complete_live p _ j ih


/-! ## part 19: an idle scheduler has no pending job -/

/-- a job never (transitively) calls a job with its own cache key -/
def Ranked (p : Prog) : Prop :=
  ∃ rank : Nat → Nat, ∀ i c, c ∈ (p.specAt i).children → rank (p.specAt c).key < rank (p.specAt i).key

def Idle (s : S) : Prop := s.queue = [] ∧ s.pendingLimits = [] ∧ ∀ j, s.inflight j = false

theorem idle_noTokens {s : S} (h : Idle s) (j : JobId) : EW s j = 0 ∧ ¬ Q s j := by
  obtain ⟨hq, hp, _⟩ := h
  refine ⟨by unfold EW; rw [hq, hp]; rfl, ?_⟩
  unfold Q C; rw [hq]; simp

theorem eval_has_pending_kid {p : Prog} {s : S} (hl : Live p s none none) (rank : Nat → Nat)
    (hrank : ∀ i c, c ∈ (p.specAt i).children → rank (p.specAt c).key < rank (p.specAt i).key)
    (j : JobId) (he : EvalPh s j) :
    ∃ c, c < s.next ∧ pend s c ∧ rank (spec p s c).key < rank (spec p s j).key := by
  have hc := hl.cnt j he.1
  have hpos : 0 < cntPend s j := Nat.lt_of_lt_of_le he.2 hc
  obtain ⟨c, hlt, hk⟩ := cntTo_pos_exists hpos
  unfold kidPend at hk
  simp only [Bool.and_eq_true, decide_eq_true_eq] at hk
  exact ⟨c, hlt, hk.2, hrank _ _ (hl.kid c j hlt hk.1).2⟩

theorem idle_descend {p : Prog} {s : S} (hl : Live p s none none) (hidle : Idle s) (rank : Nat → Nat)
    (hrank : ∀ i c, c ∈ (p.specAt i).children → rank (p.specAt c).key < rank (p.specAt i).key)
    (j : JobId) (hj : j < s.next) (hp : pend s j) :
    ∃ c, c < s.next ∧ pend s c ∧ rank (spec p s c).key < rank (spec p s j).key := by
  have hno := idle_noTokens hidle
  rcases hl.ph j hj hp (by simp) with a | a | a | a | ⟨X, a1, a2, a3, a4, a5⟩
  · have := (hno j).1; omega
  · rw [hidle.2.2 j] at a; simp at a
  · exact absurd a (hno j).2
  · exact eval_has_pending_kid hl rank hrank j a
  · have hpX : pend s X := by
      rcases a2 with b | b
      · exact b
      · simp at b
    rcases hl.ph X a3 hpX (by simp) with b | b | b | b | ⟨Y, b1, _⟩
    · have := (hno X).1; omega
    · rw [hidle.2.2 X] at b; simp at b
    · exact absurd b (hno X).2
    · obtain ⟨c, h1, h2, h3⟩ := eval_has_pending_kid hl rank hrank X b
      exact ⟨c, h1, h2, by rw [← a5]; exact h3⟩
    · exact absurd ⟨Y, b1⟩ a4

theorem idle_no_pending {p : Prog} {s : S} (hl : Live p s none none) (hidle : Idle s) (rank : Nat → Nat)
    (hrank : ∀ i c, c ∈ (p.specAt i).children → rank (p.specAt c).key < rank (p.specAt i).key) :
    ∀ n j, j < s.next → pend s j → rank (spec p s j).key = n → False := by
  intro n
  induction n using Nat.strongRecOn with
  | _ n ih =>
    intro j hj hp hn
    obtain ⟨c, h1, h2, h3⟩ := idle_descend hl hidle rank hrank j hj hp
    exact ih _ (hn ▸ h3) c h1 h2 rfl

/-- Deadlock freedom on the invariant: an idle state has settled the root. -/
theorem idle_finished {p : Prog} {s : S} (hl : Live p s none none) (hidle : Idle s) (hr : Ranked p) :
    s.finished = true := by
  obtain ⟨rank, hrank⟩ := hr
  obtain ⟨_, hn, h⟩ := hl.root
  rcases h with h | h
  · exact absurd rfl (fun e => idle_no_pending hl hidle rank hrank _ 0 hn h e)
  · exact h


/-! ## part 20: concrete schedules, decidable side conditions -/

theorem reachable_runChoice (p : Prog) (s : S) (c : Choice) (h : Reachable p s) : Reachable p (runChoice p s c) := by
  cases c with
  | pop =>
    simp only [runChoice]
    split
    · exact h
    · rename_i hc
      simp only [Bool.or_eq_true, not_or, Bool.not_eq_true, List.isEmpty_iff] at hc
      exact Reachable.step h (Step.pop s hc.1 hc.2)
  | complete j =>
    simp only [runChoice]
    split
    · exact h
    · rename_i hc
      simp only [Bool.or_eq_true, not_or, Bool.not_eq_true, Bool.not_eq_eq_eq_not, Bool.not_true,
        Bool.not_eq_false] at hc
      exact Reachable.step h (Step.complete s j hc.1 hc.2)

theorem reachable_foldl (p : Prog) (cs : List Choice) (s : S) (h : Reachable p s) :
    Reachable p (cs.foldl (runChoice p) s) := by
  induction cs generalizing s with
  | nil => exact h
  | cons c cs ih => exact ih _ (reachable_runChoice p s c h)

theorem reachable_run (p : Prog) (cs : List Choice) : Reachable p (run p cs) :=
  reachable_foldl p cs init Reachable.init

/-- in a reachable state only created jobs are in flight: a bounded check suffices -/
theorem inflight_none_of_bounded (p : Prog) (s : S) (h : Reachable p s)
    (hb : ∀ j, j < s.next → s.inflight j = false) : ∀ j, s.inflight j = false := by
  intro j
  by_cases hj : j < s.next
  · exact hb j hj
  · exact ((reachable_inv p s h).core.fresh j (Nat.le_of_not_lt hj)).2.1

theorem specAt_default (p : Prog) (i : SpecId) (hi : p.specs.length ≤ i) : p.specAt i = default := by
  unfold Prog.specAt
  rw [List.getD_eq_getElem?_getD, List.getElem?_eq_none hi]; rfl

/-- a decidable check that implies `Ranked` -/
theorem ranked_of_check (p : Prog) (rank : Nat → Nat)
    (h : ((List.range p.specs.length).all fun i => (p.specAt i).children.all fun c =>
      decide (rank (p.specAt c).key < rank (p.specAt i).key)) = true) : Ranked p := by
  refine ⟨rank, ?_⟩
  intro i c hc
  by_cases hi : i < p.specs.length
  · have := List.all_eq_true.mp h i (List.mem_range.mpr hi)
    have := List.all_eq_true.mp this c hc
    simpa using this
  · rw [specAt_default p i (Nat.le_of_not_lt hi)] at hc
    exact absurd hc (by show c ∉ ([] : List SpecId); simp)

theorem provScope_of_check (p : Prog)
    (h : (p.specs.all fun sp => sp.prov || sp.scope == Scope.none) = true) : ProvScope p := by
  intro i hp
  by_cases hi : i < p.specs.length
  · have hmem : p.specAt i ∈ p.specs := by
      unfold Prog.specAt
      rw [List.getD_eq_getElem?_getD, List.getElem?_eq_getElem hi]; exact List.getElem_mem hi
    have := List.all_eq_true.mp h _ hmem
    rw [hp] at this
    simpa using this
  · rw [specAt_default p i (Nat.le_of_not_lt hi)]; rfl

end RedunModel.SchedCore
