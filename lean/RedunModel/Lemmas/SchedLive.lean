/-
Lifecycle invariant of `SchedCore` (C09 liveness half): every pending job is queued for execution,
waiting for limits, in flight, has a completion event queued, is evaluating with a pending child, or is
collapsed onto a pending registered twin.  Main result: `reachable_live`.
-/
import RedunModel.Lemmas.SchedCse
namespace RedunModel.SchedCore

/-! ## part 1: counting -/

def cntTo (f : Nat → Bool) : Nat → Nat
  | 0 => 0
  | n + 1 => cntTo f n + (if f n then 1 else 0)

theorem cntTo_congr {f g : Nat → Bool} {n : Nat} (h : ∀ i, i < n → f i = g i) : cntTo f n = cntTo g n := by
  induction n with
  | zero => rfl
  | succ n ih => simp only [cntTo]; rw [ih (fun i hi => h i (by omega)), h n (by omega)]

/-- changing the predicate at one index loses at most one -/
theorem cntTo_update_le {f g : Nat → Bool} {n : Nat} (j : Nat) (h : ∀ i, i ≠ j → f i = g i) :
    cntTo f n ≤ cntTo g n + 1 := by
  induction n with
  | zero => simp [cntTo]
  | succ n ih =>
    simp only [cntTo]
    by_cases hjn : j = n
    · subst hjn
      rw [cntTo_congr (f := f) (g := g) (fun i hi => h i (by omega))]
      split <;> split <;> omega
    · rw [h n (fun e => hjn e.symm)]; omega

theorem cntTo_pos_exists {f : Nat → Bool} {n : Nat} (h : 0 < cntTo f n) : ∃ i, i < n ∧ f i = true := by
  induction n with
  | zero => simp [cntTo] at h
  | succ n ih =>
    simp only [cntTo] at h
    by_cases hn : f n = true
    · exact ⟨n, by omega, hn⟩
    · simp only [hn] at h
      obtain ⟨i, hi, hp⟩ := ih (by simpa using h)
      exact ⟨i, by omega, hp⟩

/-! ## definitions -/

def pend (s : S) (j : JobId) : Prop := (s.jobs j).status = Status.pending
/-- `j` was collapsed onto some job -/
def Tw (s : S) (j : JobId) : Prop := ∃ X, j ∈ (s.jobs X).twins

def kidPend (s : S) (i c : JobId) : Bool :=
  decide ((s.jobs c).parent = some i) && decide ((s.jobs c).status = Status.pending)
/-- number of pending children of `i` -/
def cntPend (s : S) (i : JobId) : Nat := cntTo (kidPend s i) s.next

/-- evaluating: waits for at least one child -/
def EvalPh (s : S) (j : JobId) : Prop := (s.jobs j).evalFailed = false ∧ 0 < (s.jobs j).waiting
/-- collapsed onto a pending (or currently handled) job with the same key that is itself not collapsed -/
def ColPh (p : Prog) (s : S) (x : Option JobId) (j : JobId) : Prop :=
  ∃ X, j ∈ (s.jobs X).twins ∧ (pend s X ∨ some X = x) ∧ X < s.next ∧ ¬ Tw s X ∧
    (spec p s X).key = (spec p s j).key
def Phase (p : Prog) (s : S) (x : Option JobId) (j : JobId) : Prop :=
  1 ≤ EW s j ∨ s.inflight j = true ∨ Q s j ∨ EvalPh s j ∨ ColPh p s x j

def FailedOk (s : S) (j : JobId) : Prop :=
  (s.jobs j).evalFailed = true → ¬ pend s j ∨ Ev.reject j ∈ s.queue

/-- The lifecycle invariant; `x` is the job whose event is being handled. -/
structure Live (p : Prog) (s : S) (x : Option JobId) : Prop where
  ph : ∀ j, j < s.next → pend s j → some j ≠ x → Phase p s x j
  failed : ∀ j, some j ≠ x → FailedOk s j
  reg : ∀ k t, (k, t) ∈ s.pendingJobs → keyOf p s t = k ∧ t < s.next ∧ ¬ Tw s t ∧ EW s t = 0 ∧
    lookupPending s k = some t ∧ (some t ≠ x → pend s t)
  a1 : ∀ j, 1 ≤ EW s j → pend s j ∧ (s.jobs j).twins = []
  twq : ∀ X t, t ∈ (s.jobs X).twins → EW s t = 0 ∧ t < s.next
  cnt : ∀ j, (s.jobs j).evalFailed = false → (s.jobs j).waiting ≤ cntPend s j
  kid : ∀ c par, c < s.next → (s.jobs c).parent = some par →
    par < s.next ∧ s.specOf c ∈ (p.specAt (s.specOf par)).children
  root : (s.jobs 0).parent = none ∧ 0 < s.next ∧ (pend s 0 ∨ s.finished = true)

/-! ## frames -/

/-- nothing the lifecycle invariant reads changes, except that non-exec events may be added -/
structure Fr (s s' : S) : Prop where
  next : s'.next = s.next
  specOf : s'.specOf = s.specOf
  infl : s'.inflight = s.inflight
  pj : s'.pendingJobs = s.pendingJobs
  fin : s'.finished = s.finished
  st : ∀ i, (s'.jobs i).status = (s.jobs i).status
  wt : ∀ i, (s'.jobs i).waiting = (s.jobs i).waiting
  ef : ∀ i, (s'.jobs i).evalFailed = (s.jobs i).evalFailed
  par : ∀ i, (s'.jobs i).parent = (s.jobs i).parent
  tw : ∀ i, (s'.jobs i).twins = (s.jobs i).twins
  ew : ∀ j, EW s' j = EW s j
  qm : ∀ e, (∀ j, e ≠ Ev.exec j) → e ∈ s.queue → e ∈ s'.queue

theorem Fr.refl (s : S) : Fr s s :=
  ⟨rfl, rfl, rfl, rfl, rfl, fun _ => rfl, fun _ => rfl, fun _ => rfl, fun _ => rfl, fun _ => rfl, fun _ => rfl,
    fun _ _ h => h⟩

theorem Fr.trans {a b c : S} (h1 : Fr a b) (h2 : Fr b c) : Fr a c :=
  ⟨h2.next.trans h1.next, h2.specOf.trans h1.specOf, h2.infl.trans h1.infl, h2.pj.trans h1.pj,
    h2.fin.trans h1.fin, fun i => (h2.st i).trans (h1.st i), fun i => (h2.wt i).trans (h1.wt i),
    fun i => (h2.ef i).trans (h1.ef i), fun i => (h2.par i).trans (h1.par i),
    fun i => (h2.tw i).trans (h1.tw i), fun j => (h2.ew j).trans (h1.ew j),
    fun e he hm => h2.qm e he (h1.qm e he hm)⟩

theorem Fr.pendIff {s s' : S} (h : Fr s s') (j : JobId) : pend s' j ↔ pend s j := by
  unfold pend; rw [h.st]

theorem Fr.twIff {s s' : S} (h : Fr s s') (j : JobId) : Tw s' j ↔ Tw s j := by
  unfold Tw; simp only [h.tw]

theorem Fr.Q {s s' : S} (h : Fr s s') {j : JobId} (hq : Q s j) : Q s' j := by
  rcases hq with (⟨f, a⟩ | a) | a
  · exact Or.inl (Or.inl ⟨f, h.qm _ (by intro k; simp) a⟩)
  · exact Or.inl (Or.inr (h.qm _ (by intro k; simp) a))
  · exact Or.inr (h.qm _ (by intro k; simp) a)

theorem Fr.spec {p : Prog} {s s' : S} (h : Fr s s') (j : JobId) : spec p s' j = spec p s j :=
  same_spec h.specOf j

theorem Fr.cntEq {s s' : S} (h : Fr s s') (i : JobId) : cntPend s' i = cntPend s i := by
  unfold cntPend
  rw [h.next]
  apply cntTo_congr
  intro c _
  unfold kidPend
  rw [h.par, h.st]

theorem Fr.phase {p : Prog} {s s' : S} {x : Option JobId} (h : Fr s s') {j : JobId} (hp : Phase p s x j) :
    Phase p s' x j := by
  rcases hp with a | a | a | a | ⟨X, a1, a2, a3, a4, a5⟩
  · exact Or.inl (by rw [h.ew]; exact a)
  · exact Or.inr (Or.inl (by rw [h.infl]; exact a))
  · exact Or.inr (Or.inr (Or.inl (h.Q a)))
  · exact Or.inr (Or.inr (Or.inr (Or.inl (by unfold EvalPh; rw [h.ef, h.wt]; exact a))))
  · refine Or.inr (Or.inr (Or.inr (Or.inr ⟨X, by rw [h.tw]; exact a1, ?_, by rw [h.next]; exact a3, ?_, ?_⟩)))
    · rcases a2 with b | b
      · exact Or.inl ((h.pendIff X).mpr b)
      · exact Or.inr b
    · rw [h.twIff]; exact a4
    · rw [h.spec, h.spec]; exact a5

theorem Fr.failedOk {s s' : S} (h : Fr s s') {j : JobId} (hf : FailedOk s j) : FailedOk s' j := by
  intro he
  rw [h.ef] at he
  rcases hf he with a | a
  · exact Or.inl (fun b => a ((h.pendIff j).mp b))
  · exact Or.inr (h.qm _ (by intro k; simp) a)

theorem Fr.lookup {s s' : S} (h : Fr s s') (k : Nat × Nat) : lookupPending s' k = lookupPending s k := by
  unfold lookupPending; rw [h.pj]

theorem Fr.live {p : Prog} {s s' : S} {x : Option JobId} (h : Fr s s') (hl : Live p s x) : Live p s' x := by
  refine ⟨?_, ?_, ?_, ?_, ?_, ?_, ?_, ?_⟩
  · intro j hj hp hx
    rw [h.next] at hj
    exact h.phase (hl.ph j hj ((h.pendIff j).mp hp) hx)
  · intro j hx; exact h.failedOk (hl.failed j hx)
  · intro k t hm
    rw [h.pj] at hm
    obtain ⟨a, b, c, d, e, f⟩ := hl.reg k t hm
    refine ⟨?_, by rw [h.next]; exact b, by rw [h.twIff]; exact c, by rw [h.ew]; exact d, by rw [h.lookup]; exact e,
      fun hx => (h.pendIff t).mpr (f hx)⟩
    unfold keyOf; rw [h.spec]; exact a
  · intro j hj
    rw [h.ew] at hj
    obtain ⟨a, b⟩ := hl.a1 j hj
    exact ⟨(h.pendIff j).mpr a, by rw [h.tw]; exact b⟩
  · intro X t ht
    rw [h.tw] at ht
    rw [h.ew, h.next]; exact hl.twq X t ht
  · intro j hj
    rw [h.ef] at hj
    rw [h.wt, h.cntEq]; exact hl.cnt j hj
  · intro c par hc hp
    rw [h.next] at hc; rw [h.par] at hp
    rw [h.next, h.specOf]; exact hl.kid c par hc hp
  · obtain ⟨a, b, c⟩ := hl.root
    refine ⟨by rw [h.par]; exact a, by rw [h.next]; exact b, ?_⟩
    rcases c with c | c
    · exact Or.inl ((h.pendIff 0).mpr c)
    · exact Or.inr (by rw [h.fin]; exact c)

end RedunModel.SchedCore
