/-
Lifecycle invariant of `SchedCore` (C09 liveness half): every pending job is queued for execution,
waiting for limits, in flight, has a completion event queued, is evaluating with a pending child, or is
collapsed onto a pending registered twin.  Main result: `reachable_live`.
-/
import RedunModel.Lemmas.SchedCse
namespace RedunModel.SchedCore

/-! ## part 1: counting -/

def cntTo (f : Nat → Bool) : Nat → Nat
  | 0 => 0
  | n + 1 => cntTo f n + (if f n then 1 else 0)

theorem cntTo_congr {f g : Nat → Bool} {n : Nat} (h : ∀ i, i < n → f i = g i) : cntTo f n = cntTo g n := by
  induction n with
  | zero => rfl
  | succ n ih => simp only [cntTo]; rw [ih (fun i hi => h i (by omega)), h n (by omega)]

/-- changing the predicate at one index loses at most one -/
theorem cntTo_update_le {f g : Nat → Bool} {n : Nat} (j : Nat) (h : ∀ i, i ≠ j → f i = g i) :
    cntTo f n ≤ cntTo g n + 1 := by
  induction n with
  | zero => simp [cntTo]
  | succ n ih =>
    simp only [cntTo]
    by_cases hjn : j = n
    · subst hjn
      rw [cntTo_congr (f := f) (g := g) (fun i hi => h i (by omega))]
      split <;> split <;> omega
    · rw [h n (fun e => hjn e.symm)]; omega

theorem cntTo_pos_exists {f : Nat → Bool} {n : Nat} (h : 0 < cntTo f n) : ∃ i, i < n ∧ f i = true := by
  induction n with
  | zero => simp [cntTo] at h
  | succ n ih =>
    simp only [cntTo] at h
    by_cases hn : f n = true
    · exact ⟨n, by omega, hn⟩
    · simp only [hn] at h
      obtain ⟨i, hi, hp⟩ := ih (by simpa using h)
      exact ⟨i, by omega, hp⟩

/-! ## definitions -/

def pend (s : S) (j : JobId) : Prop := (s.jobs j).status = Status.pending
/-- `j` was collapsed onto some job -/
def Tw (s : S) (j : JobId) : Prop := ∃ X, j ∈ (s.jobs X).twins

def kidPend (s : S) (i c : JobId) : Bool :=
  decide ((s.jobs c).parent = some i) && decide ((s.jobs c).status = Status.pending)
/-- number of pending children of `i` -/
def cntPend (s : S) (i : JobId) : Nat := cntTo (kidPend s i) s.next

/-- evaluating: waits for at least one child -/
def EvalPh (s : S) (j : JobId) : Prop := (s.jobs j).evalFailed = false ∧ 0 < (s.jobs j).waiting
/-- collapsed onto a pending (or currently handled) job with the same key that is itself not collapsed -/
def ColPh (p : Prog) (s : S) (x : Option JobId) (j : JobId) : Prop :=
  ∃ X, j ∈ (s.jobs X).twins ∧ (pend s X ∨ some X = x) ∧ X < s.next ∧ ¬ Tw s X ∧
    (spec p s X).key = (spec p s j).key
def Phase (p : Prog) (s : S) (x : Option JobId) (j : JobId) : Prop :=
  1 ≤ EW s j ∨ s.inflight j = true ∨ Q s j ∨ EvalPh s j ∨ ColPh p s x j

def FailedOk (s : S) (j : JobId) : Prop :=
  (s.jobs j).evalFailed = true → ¬ pend s j ∨ Ev.reject j ∈ s.queue

/-- The lifecycle invariant; `x` is the job whose event is being handled (exempt from `ph`, `failed`,
`reg`), `y` the job that is being settled (still accepted as a collapse target). -/
structure Live (p : Prog) (s : S) (x y : Option JobId) : Prop where
  ph : ∀ j, j < s.next → pend s j → some j ≠ x → Phase p s y j
  failed : ∀ j, some j ≠ x → FailedOk s j
  reg : ∀ k t, (k, t) ∈ s.pendingJobs → keyOf p s t = k ∧ t < s.next ∧ ¬ Tw s t ∧ EW s t = 0 ∧
    lookupPending s k = some t ∧ (some t ≠ x → pend s t)
  a1 : ∀ j, 1 ≤ EW s j → pend s j ∧ (s.jobs j).twins = []
  twq : ∀ X t, t ∈ (s.jobs X).twins → EW s t = 0 ∧ t < s.next
  cnt : ∀ j, (s.jobs j).evalFailed = false → (s.jobs j).waiting ≤ cntPend s j
  kid : ∀ c par, c < s.next → (s.jobs c).parent = some par →
    par < s.next ∧ s.specOf c ∈ (p.specAt (s.specOf par)).children
  root : (s.jobs 0).parent = none ∧ 0 < s.next ∧ (pend s 0 ∨ s.finished = true)

/-! ## frames -/

/-- nothing the lifecycle invariant reads changes, except that non-exec events may be added -/
structure Fr (s s' : S) : Prop where
  next : s'.next = s.next
  specOf : s'.specOf = s.specOf
  infl : s'.inflight = s.inflight
  pj : s'.pendingJobs = s.pendingJobs
  fin : s'.finished = s.finished
  st : ∀ i, (s'.jobs i).status = (s.jobs i).status
  wt : ∀ i, (s'.jobs i).waiting = (s.jobs i).waiting
  ef : ∀ i, (s'.jobs i).evalFailed = (s.jobs i).evalFailed
  par : ∀ i, (s'.jobs i).parent = (s.jobs i).parent
  tw : ∀ i, (s'.jobs i).twins = (s.jobs i).twins
  ew : ∀ j, EW s' j = EW s j
  qm : ∀ e, (∀ j, e ≠ Ev.exec j) → e ∈ s.queue → e ∈ s'.queue

theorem Fr.refl (s : S) : Fr s s :=
  ⟨rfl, rfl, rfl, rfl, rfl, fun _ => rfl, fun _ => rfl, fun _ => rfl, fun _ => rfl, fun _ => rfl, fun _ => rfl,
    fun _ _ h => h⟩

theorem Fr.trans {a b c : S} (h1 : Fr a b) (h2 : Fr b c) : Fr a c :=
  ⟨h2.next.trans h1.next, h2.specOf.trans h1.specOf, h2.infl.trans h1.infl, h2.pj.trans h1.pj,
    h2.fin.trans h1.fin, fun i => (h2.st i).trans (h1.st i), fun i => (h2.wt i).trans (h1.wt i),
    fun i => (h2.ef i).trans (h1.ef i), fun i => (h2.par i).trans (h1.par i),
    fun i => (h2.tw i).trans (h1.tw i), fun j => (h2.ew j).trans (h1.ew j),
    fun e he hm => h2.qm e he (h1.qm e he hm)⟩

theorem Fr.pendIff {s s' : S} (h : Fr s s') (j : JobId) : pend s' j ↔ pend s j := by
  unfold pend; rw [h.st]

theorem Fr.twIff {s s' : S} (h : Fr s s') (j : JobId) : Tw s' j ↔ Tw s j := by
  unfold Tw; simp only [h.tw]

theorem Fr.Q {s s' : S} (h : Fr s s') {j : JobId} (hq : Q s j) : Q s' j := by
  rcases hq with (⟨f, a⟩ | a) | a
  · exact Or.inl (Or.inl ⟨f, h.qm _ (by intro k; simp) a⟩)
  · exact Or.inl (Or.inr (h.qm _ (by intro k; simp) a))
  · exact Or.inr (h.qm _ (by intro k; simp) a)

theorem Fr.spec {p : Prog} {s s' : S} (h : Fr s s') (j : JobId) : spec p s' j = spec p s j :=
  same_spec h.specOf j

theorem Fr.cntEq {s s' : S} (h : Fr s s') (i : JobId) : cntPend s' i = cntPend s i := by
  unfold cntPend
  rw [h.next]
  apply cntTo_congr
  intro c _
  unfold kidPend
  rw [h.par, h.st]

theorem Fr.phase {p : Prog} {s s' : S} {x : Option JobId} (h : Fr s s') {j : JobId} (hp : Phase p s x j) :
    Phase p s' x j := by
  rcases hp with a | a | a | a | ⟨X, a1, a2, a3, a4, a5⟩
  · exact Or.inl (by rw [h.ew]; exact a)
  · exact Or.inr (Or.inl (by rw [h.infl]; exact a))
  · exact Or.inr (Or.inr (Or.inl (h.Q a)))
  · exact Or.inr (Or.inr (Or.inr (Or.inl (by unfold EvalPh; rw [h.ef, h.wt]; exact a))))
  · refine Or.inr (Or.inr (Or.inr (Or.inr ⟨X, by rw [h.tw]; exact a1, ?_, by rw [h.next]; exact a3, ?_, ?_⟩)))
    · rcases a2 with b | b
      · exact Or.inl ((h.pendIff X).mpr b)
      · exact Or.inr b
    · rw [h.twIff]; exact a4
    · rw [h.spec, h.spec]; exact a5

theorem Fr.failedOk {s s' : S} (h : Fr s s') {j : JobId} (hf : FailedOk s j) : FailedOk s' j := by
  intro he
  rw [h.ef] at he
  rcases hf he with a | a
  · exact Or.inl (fun b => a ((h.pendIff j).mp b))
  · exact Or.inr (h.qm _ (by intro k; simp) a)

theorem Fr.lookup {s s' : S} (h : Fr s s') (k : Nat × Nat) : lookupPending s' k = lookupPending s k := by
  unfold lookupPending; rw [h.pj]

theorem Fr.live {p : Prog} {s s' : S} {x y : Option JobId} (h : Fr s s') (hl : Live p s x y) : Live p s' x y := by
  refine ⟨?_, ?_, ?_, ?_, ?_, ?_, ?_, ?_⟩
  · intro j hj hp hx
    rw [h.next] at hj
    exact h.phase (hl.ph j hj ((h.pendIff j).mp hp) hx)
  · intro j hx; exact h.failedOk (hl.failed j hx)
  · intro k t hm
    rw [h.pj] at hm
    obtain ⟨a, b, c, d, e, f⟩ := hl.reg k t hm
    refine ⟨?_, by rw [h.next]; exact b, by rw [h.twIff]; exact c, by rw [h.ew]; exact d, by rw [h.lookup]; exact e,
      fun hx => (h.pendIff t).mpr (f hx)⟩
    unfold keyOf; rw [h.spec]; exact a
  · intro j hj
    rw [h.ew] at hj
    obtain ⟨a, b⟩ := hl.a1 j hj
    exact ⟨(h.pendIff j).mpr a, by rw [h.tw]; exact b⟩
  · intro X t ht
    rw [h.tw] at ht
    rw [h.ew, h.next]; exact hl.twq X t ht
  · intro j hj
    rw [h.ef] at hj
    rw [h.wt, h.cntEq]; exact hl.cnt j hj
  · intro c par hc hp
    rw [h.next] at hc; rw [h.par] at hp
    rw [h.next, h.specOf]; exact hl.kid c par hc hp
  · obtain ⟨a, b, c⟩ := hl.root
    refine ⟨by rw [h.par]; exact a, by rw [h.next]; exact b, ?_⟩
    rcases c with c | c
    · exact Or.inl ((h.pendIff 0).mpr c)
    · exact Or.inr (by rw [h.fin]; exact c)


/-! ## part 2: primitives that are frames -/

theorem fr_of_eq {s s' : S} (h1 : s'.next = s.next) (h2 : s'.specOf = s.specOf) (h3 : s'.inflight = s.inflight)
    (h4 : s'.pendingJobs = s.pendingJobs) (h5 : s'.finished = s.finished) (h6 : s'.jobs = s.jobs)
    (h7 : s'.queue = s.queue) (h8 : s'.pendingLimits = s.pendingLimits) : Fr s s' :=
  ⟨h1, h2, h3, h4, h5, fun _ => by rw [h6], fun _ => by rw [h6], fun _ => by rw [h6], fun _ => by rw [h6],
    fun _ => by rw [h6], fun _ => by unfold EW; rw [h7, h8], fun _ _ h => by rw [h7]; exact h⟩

theorem fr_setJob (s : S) (j : JobId) (f : JobSt → JobSt)
    (h : ∀ js, (f js).status = js.status ∧ (f js).waiting = js.waiting ∧ (f js).evalFailed = js.evalFailed ∧
      (f js).parent = js.parent ∧ (f js).twins = js.twins) : Fr s (setJob s j f) := by
  refine ⟨rfl, rfl, rfl, rfl, rfl, ?_, ?_, ?_, ?_, ?_, fun _ => rfl, fun _ _ h => h⟩ <;>
  · intro i; simp only [setJob]; split
    · first | exact (h _).1 | exact (h _).2.1 | exact (h _).2.2.1 | exact (h _).2.2.2.1 | exact (h _).2.2.2.2
    · rfl

theorem fr_enqueue (s : S) (e : Ev) (he : ∀ j, e ≠ Ev.exec j) : Fr s (enqueue s e) := by
  refine ⟨rfl, rfl, rfl, rfl, rfl, fun _ => rfl, fun _ => rfl, fun _ => rfl, fun _ => rfl, fun _ => rfl, ?_, ?_⟩
  · intro j; unfold EW enqueue
    simp only [List.count_append, List.count_cons, List.count_nil]
    have : ¬ (e == Ev.exec j) = true := by simpa using he j
    simp [this]
  · intro e' _ hm; exact List.mem_append_left _ hm

theorem fr_checkPending (p : Prog) (s : S) : Fr s (checkPending p s) :=
  ⟨rfl, rfl, rfl, rfl, rfl, fun _ => rfl, fun _ => rfl, fun _ => rfl, fun _ => rfl, fun _ => rfl,
    fun j => checkPending_EW p s j, fun _ _ hm => by rw [checkPending_queue]; exact List.mem_append_left _ hm⟩

theorem fr_consume (p : Prog) (s : S) (j : JobId) : Fr s (consume p s j) := fr_of_eq rfl rfl rfl rfl rfl rfl rfl rfl
theorem fr_release (p : Prog) (s : S) (j : JobId) : Fr s (release p s j) := fr_of_eq rfl rfl rfl rfl rfl rfl rfl rfl

theorem fr_releaseIf (p : Prog) (s : S) (j : JobId) : Fr s (releaseIf p s j) := by
  unfold releaseIf; split
  · exact (fr_release p s j).trans (fr_checkPending p _)
  · exact Fr.refl s

theorem fr_record (p : Prog) (s : S) (j : JobId) (b : Bool) : Fr s (record p s j b) := by
  unfold record; dsimp only; split
  · exact fr_of_eq rfl rfl rfl rfl rfl rfl rfl rfl
  · exact Fr.refl s

theorem fr_cached (s : S) (j : JobId) : Fr s (setJob s j fun js => { js with wasCached := true }) :=
  fr_setJob s j _ (fun _ => ⟨rfl, rfl, rfl, rfl, rfl⟩)

theorem mem_enqueue (s : S) (e : Ev) : e ∈ (enqueue s e).queue := by simp [enqueue]


/-! ## part 3: taking the head event off the queue -/

def evJob : Ev → JobId
  | .exec j => j
  | .done j _ => j
  | .reject j => j
  | .resolve j => j

theorem tl_mem_of_ne (s : S) (e : Ev) (rest : List Ev) (hq : s.queue = e :: rest) (e' : Ev) (hne : e' ≠ e)
    (hm : e' ∈ s.queue) : e' ∈ (tl s).queue := by
  show e' ∈ s.queue.tail
  rw [hq] at hm ⊢
  rcases List.mem_cons.mp hm with a | a
  · exact absurd a hne
  · exact a

theorem tl_Q_keep (s : S) (e : Ev) (rest : List Ev) (hq : s.queue = e :: rest) (j : JobId) (hj : evJob e ≠ j)
    (h : Q s j) : Q (tl s) j := by
  rcases h with (⟨f, a⟩ | a) | a
  · exact Or.inl (Or.inl ⟨f, tl_mem_of_ne s e rest hq _ (by intro h; subst h; exact hj rfl) a⟩)
  · exact Or.inl (Or.inr (tl_mem_of_ne s e rest hq _ (by intro h; subst h; exact hj rfl) a))
  · exact Or.inr (tl_mem_of_ne s e rest hq _ (by intro h; subst h; exact hj rfl) a)

theorem live_tl (p : Prog) (s : S) (e : Ev) (rest : List Ev) (hq : s.queue = e :: rest) (hl : Live p s none none) :
    Live p (tl s) (some (evJob e)) none := by
  refine ⟨?_, ?_, ?_, ?_, ?_, hl.cnt, hl.kid, hl.root⟩
  · intro j hj hp hx
    have hne : evJob e ≠ j := fun h => hx (by rw [h])
    rcases hl.ph j hj hp (by simp) with a | a | a | a | ⟨X, a1, a2, a3, a4, a5⟩
    · left
      have := tl_EW_eq s e rest hq j
      have hne' : e ≠ Ev.exec j := by intro h; subst h; exact hne rfl
      simp only [hne', if_false] at this
      omega
    · exact Or.inr (Or.inl a)
    · exact Or.inr (Or.inr (Or.inl (tl_Q_keep s e rest hq j hne a)))
    · exact Or.inr (Or.inr (Or.inr (Or.inl a)))
    · refine Or.inr (Or.inr (Or.inr (Or.inr ⟨X, a1, ?_, a3, a4, a5⟩)))
      rcases a2 with b | b
      · exact Or.inl b
      · simp at b
  · intro j hx he
    have hne : evJob e ≠ j := fun h => hx (by rw [h])
    rcases hl.failed j (by simp) he with a | a
    · exact Or.inl a
    · exact Or.inr (tl_mem_of_ne s e rest hq _ (by intro h; subst h; exact hne rfl) a)
  · intro k t hm
    obtain ⟨a, b, c, d, e', f⟩ := hl.reg k t hm
    exact ⟨a, b, c, Nat.le_zero.mp (d ▸ tl_EW_le s t), e', fun _ => f (by simp)⟩
  · intro j hj
    exact hl.a1 j (Nat.le_trans hj (tl_EW_le s j))
  · intro X t ht
    obtain ⟨a, b⟩ := hl.twq X t ht
    exact ⟨Nat.le_zero.mp (a ▸ tl_EW_le s t), b⟩

/-- the failed-flag fact of the handled job survives unless its own `reject` was taken off -/
theorem failedOk_tl (p : Prog) (s : S) (e : Ev) (rest : List Ev) (hq : s.queue = e :: rest) (hl : Live p s none none)
    (j : JobId) (hne : e ≠ Ev.reject j) : FailedOk (tl s) j := by
  intro he
  rcases hl.failed j (by simp) he with a | a
  · exact Or.inl a
  · exact Or.inr (tl_mem_of_ne s e rest hq _ (fun h => hne h.symm) a)


/-! ## part 4: exemption handling -/

theorem live_weaken {p : Prog} {s : S} (j : JobId) (hl : Live p s none none) : Live p s (some j) none := by
  refine ⟨?_, fun i _ => hl.failed i (by simp), ?_, hl.a1, hl.twq, hl.cnt, hl.kid, hl.root⟩
  · intro i hi hp _
    rcases hl.ph i hi hp (by simp) with a | a | a | a | ⟨X, a1, a2, a3, a4, a5⟩
    · exact Or.inl a
    · exact Or.inr (Or.inl a)
    · exact Or.inr (Or.inr (Or.inl a))
    · exact Or.inr (Or.inr (Or.inr (Or.inl a)))
    · refine Or.inr (Or.inr (Or.inr (Or.inr ⟨X, a1, ?_, a3, a4, a5⟩)))
      rcases a2 with b | b
      · exact Or.inl b
      · simp at b
  · intro k t hm
    obtain ⟨a, b, c, d, e, f⟩ := hl.reg k t hm
    exact ⟨a, b, c, d, e, fun _ => f (by simp)⟩

/-- end of a handler: the handled job `j` is back in a phase (or settled, its twins served) -/
theorem live_fill {p : Prog} {s : S} {j : JobId} (hl : Live p s (some j) none)
    (hph : pend s j → j < s.next → Phase p s none j) (hf : FailedOk s j)
    (hreg : ∀ k, (k, j) ∈ s.pendingJobs → pend s j) : Live p s none none := by
  refine ⟨?_, ?_, ?_, hl.a1, hl.twq, hl.cnt, hl.kid, hl.root⟩
  · intro i hi hp _
    by_cases hij : i = j
    · subst hij; exact hph hp hi
    · exact hl.ph i hi hp (fun h => hij (Option.some.inj h))
  · intro i _
    by_cases hij : i = j
    · subst hij; exact hf
    · exact hl.failed i (fun h => hij (Option.some.inj h))
  · intro k t hm
    obtain ⟨a, b, c, d, e, f⟩ := hl.reg k t hm
    refine ⟨a, b, c, d, e, fun _ => ?_⟩
    by_cases htj : t = j
    · subst htj; exact hreg k hm
    · exact f (fun h => htj (Option.some.inj h))

theorem cntPend_congr {s s' : S} (hn : s'.next = s.next) (hp : ∀ c, (s'.jobs c).parent = (s.jobs c).parent)
    (hs : ∀ c, (s'.jobs c).status = (s.jobs c).status) (i : JobId) : cntPend s' i = cntPend s i := by
  unfold cntPend
  rw [hn]
  apply cntTo_congr
  intro c _
  unfold kidPend
  rw [hp, hs]

theorem mem_of_lookupPending {s : S} {k : Nat × Nat} {t : JobId} (h : lookupPending s k = some t) :
    (k, t) ∈ s.pendingJobs := by
  unfold lookupPending at h
  cases hf : s.pendingJobs.find? (fun e => e.1 == k) with
  | none => rw [hf] at h; simp at h
  | some e =>
    rw [hf] at h
    simp at h
    have h1 := List.mem_of_find?_eq_some hf
    have h2 := List.find?_some hf
    simp at h2
    cases e with
    | mk a b =>
      simp at h h2
      subst h; subst h2
      exact h1


/-! ## part 5: the exits of `_exec_job_main_thread` -/

theorem EW_pendAppend (s : S) (j i : JobId) :
    EW { s with pendingLimits := s.pendingLimits ++ [j] } i = EW s i + (if i = j then 1 else 0) := by
  unfold EW
  simp only [List.count_append, List.count_cons, List.count_nil]
  by_cases e : i = j
  · subst e; simp; omega
  · have : ¬ (j == i) = true := by simpa using fun e' => e e'.symm
    simp [e, this]

/-- the job does not fit: it joins the waiting list -/
theorem live_pendAppend {p : Prog} {s : S} {j : JobId} (hl : Live p s (some j) none) (hp : pend s j)
    (htw : (s.jobs j).twins = []) (hnt : ¬ Tw s j) (hnr : ∀ k, (k, j) ∉ s.pendingJobs) (hf : FailedOk s j) :
    Live p { s with pendingLimits := s.pendingLimits ++ [j] } none none := by
  have hEW := EW_pendAppend s j
  have hle : ∀ i, EW s i ≤ EW { s with pendingLimits := s.pendingLimits ++ [j] } i := by
    intro i; rw [hEW]; omega
  have hne : ∀ i, i ≠ j → EW { s with pendingLimits := s.pendingLimits ++ [j] } i = EW s i := by
    intro i hi; rw [hEW]; simp [hi]
  have h1 : Live p { s with pendingLimits := s.pendingLimits ++ [j] } (some j) none := by
    refine ⟨?_, hl.failed, ?_, ?_, ?_, hl.cnt, hl.kid, hl.root⟩
    · intro i hi hpi hx
      rcases hl.ph i hi hpi hx with a | a | a | a | a
      · exact Or.inl (Nat.le_trans a (hle i))
      · exact Or.inr (Or.inl a)
      · exact Or.inr (Or.inr (Or.inl a))
      · exact Or.inr (Or.inr (Or.inr (Or.inl a)))
      · exact Or.inr (Or.inr (Or.inr (Or.inr a)))
    · intro k t hm
      obtain ⟨a, b, c, d, e, f⟩ := hl.reg k t hm
      have : t ≠ j := by intro h; subst h; exact hnr k hm
      exact ⟨a, b, c, by rw [hne t this]; exact d, e, f⟩
    · intro i hi
      by_cases hij : i = j
      · subst hij; exact ⟨hp, htw⟩
      · rw [hne i hij] at hi; exact hl.a1 i hi
    · intro X t ht
      obtain ⟨a, b⟩ := hl.twq X t ht
      have : t ≠ j := by intro h; subst h; exact hnt ⟨X, ht⟩
      exact ⟨by rw [hne t this]; exact a, b⟩
  refine live_fill h1 (fun _ _ => Or.inl ?_) hf (fun _ _ => hp)
  rw [hEW]; simp

/-- `Job.collapse`: `j` joins the twins of the registered job `t` -/
theorem live_addTwin {p : Prog} {s : S} {j t : JobId} (hl : Live p s (some j) none) (hp : pend s j)
    (hreg : (keyOf p s j, t) ∈ s.pendingJobs) (hne : t ≠ j) (htw : (s.jobs j).twins = []) (hnt : ¬ Tw s j)
    (hew : EW s j = 0) (hlt : j < s.next) (hnr : ∀ k, (k, j) ∉ s.pendingJobs) (hf : FailedOk s j) :
    Live p (setJob s t fun js => { js with twins := js.twins ++ [j] }) none none := by
  generalize hs' : (setJob s t fun js => { js with twins := js.twins ++ [j] }) = s'
  have hst : ∀ i, (s'.jobs i).status = (s.jobs i).status := by
    intro i; rw [← hs']; simp only [setJob]; split <;> rfl
  have hwt : ∀ i, (s'.jobs i).waiting = (s.jobs i).waiting := by
    intro i; rw [← hs']; simp only [setJob]; split <;> rfl
  have hef : ∀ i, (s'.jobs i).evalFailed = (s.jobs i).evalFailed := by
    intro i; rw [← hs']; simp only [setJob]; split <;> rfl
  have hpar : ∀ i, (s'.jobs i).parent = (s.jobs i).parent := by
    intro i; rw [← hs']; simp only [setJob]; split <;> rfl
  have htwins : ∀ i, (s'.jobs i).twins = if i = t then (s.jobs i).twins ++ [j] else (s.jobs i).twins := by
    intro i; rw [← hs']; simp only [setJob]; split <;> rfl
  have hmono : ∀ i u, u ∈ (s.jobs i).twins → u ∈ (s'.jobs i).twins := by
    intro i u hu; rw [htwins]; split
    · exact List.mem_append_left _ hu
    · exact hu
  have hinv : ∀ i u, u ∈ (s'.jobs i).twins → u ∈ (s.jobs i).twins ∨ (u = j ∧ i = t) := by
    intro i u hu; rw [htwins] at hu; split at hu
    · rename_i e
      rcases List.mem_append.mp hu with a | a
      · exact Or.inl a
      · simp at a; exact Or.inr ⟨a, e⟩
    · exact Or.inl hu
  have hTw : ∀ u, Tw s' u → Tw s u ∨ u = j := by
    rintro u ⟨X, hX⟩
    rcases hinv X u hX with a | a
    · exact Or.inl ⟨X, a⟩
    · exact Or.inr a.1
  have hrest : s'.next = s.next ∧ s'.specOf = s.specOf ∧ s'.inflight = s.inflight ∧ s'.pendingJobs = s.pendingJobs ∧
      s'.finished = s.finished ∧ s'.queue = s.queue ∧ s'.pendingLimits = s.pendingLimits := by
    rw [← hs']; exact ⟨rfl, rfl, rfl, rfl, rfl, rfl, rfl⟩
  obtain ⟨f1, f2, f3, f4, f5, f6, f7⟩ := hrest
  have hEW : ∀ i, EW s' i = EW s i := by intro i; unfold EW; rw [f6, f7]
  have hpend : ∀ i, pend s' i ↔ pend s i := by intro i; unfold pend; rw [hst]
  have hQ : ∀ i, Q s i → Q s' i := by intro i; unfold Q C; rw [f6]; exact id
  have hspec : ∀ i, spec p s' i = spec p s i := fun i => same_spec f2 i
  obtain ⟨r1, r2, r3, r4, r5, r6⟩ := hl.reg _ t hreg
  have hpt : pend s t := r6 (fun h => hne (Option.some.inj h))
  have h1 : Live p s' (some j) none := by
    refine ⟨?_, ?_, ?_, ?_, ?_, ?_, ?_, ?_⟩
    · intro i hi hpi hx
      rw [f1] at hi
      rcases hl.ph i hi ((hpend i).mp hpi) hx with a | a | a | a | ⟨X, a1, a2, a3, a4, a5⟩
      · exact Or.inl (by rw [hEW]; exact a)
      · exact Or.inr (Or.inl (by rw [f3]; exact a))
      · exact Or.inr (Or.inr (Or.inl (hQ i a)))
      · exact Or.inr (Or.inr (Or.inr (Or.inl (by unfold EvalPh; rw [hef, hwt]; exact a))))
      · refine Or.inr (Or.inr (Or.inr (Or.inr ⟨X, hmono X i a1, ?_, by rw [f1]; exact a3, ?_, ?_⟩)))
        · rcases a2 with b | b
          · exact Or.inl ((hpend X).mpr b)
          · exact Or.inr b
        · intro h
          rcases hTw X h with c | c
          · exact a4 c
          · subst c; rw [htw] at a1; simp at a1
        · rw [hspec, hspec]; exact a5
    · intro i hx he
      rw [hef] at he
      rcases hl.failed i hx he with a | a
      · exact Or.inl (fun b => a ((hpend i).mp b))
      · exact Or.inr (by rw [f6]; exact a)
    · intro k u hm
      rw [f4] at hm
      obtain ⟨a, b, c, d, e, f⟩ := hl.reg k u hm
      refine ⟨by unfold keyOf; rw [hspec]; exact a, by rw [f1]; exact b, ?_, by rw [hEW]; exact d,
        by unfold lookupPending; rw [f4]; exact e, fun hx => (hpend u).mpr (f hx)⟩
      intro h
      rcases hTw u h with c' | c'
      · exact c c'
      · subst c'; exact hnr k hm
    · intro i hi
      rw [hEW] at hi
      obtain ⟨a, b⟩ := hl.a1 i hi
      refine ⟨(hpend i).mpr a, ?_⟩
      rw [htwins]; split
      · rename_i e; subst e; rw [r4] at hi; omega
      · exact b
    · intro X u hu
      rw [hEW, f1]
      rcases hinv X u hu with a | a
      · exact hl.twq X u a
      · rw [a.1]; exact ⟨hew, hlt⟩
    · intro i hi
      rw [hef] at hi
      rw [hwt, cntPend_congr f1 hpar hst]; exact hl.cnt i hi
    · intro c par hc hpc
      rw [f1] at hc; rw [hpar] at hpc
      rw [f1, f2]; exact hl.kid c par hc hpc
    · obtain ⟨a, b, c⟩ := hl.root
      refine ⟨by rw [hpar]; exact a, by rw [f1]; exact b, ?_⟩
      rcases c with c | c
      · exact Or.inl ((hpend 0).mpr c)
      · exact Or.inr (by rw [f5]; exact c)
  have hfj : FailedOk s' j := by
    intro he; rw [hef] at he
    rcases hf he with a | a
    · exact Or.inl (fun b => a ((hpend j).mp b))
    · exact Or.inr (by rw [f6]; exact a)
  refine live_fill h1 (fun _ _ => ?_) hfj (fun _ _ => (hpend j).mpr hp)
  refine Or.inr (Or.inr (Or.inr (Or.inr ⟨t, ?_, Or.inl ((hpend t).mpr hpt), by rw [f1]; exact r2, ?_, ?_⟩)))
  · rw [htwins]; simp
  · intro h
    rcases hTw t h with c | c
    · exact r3 c
    · exact hne c
  · rw [hspec, hspec]
    have := r1; unfold keyOf at this
    exact (Prod.mk.inj this).1


/-! ## part 6: registration and the in-flight flag -/

theorem lookupPending_append_old (s : S) (k k' : Nat × Nat) (j t : JobId) (h : lookupPending s k' = some t) :
    lookupPending { s with pendingJobs := s.pendingJobs ++ [(k, j)] } k' = some t := by
  unfold lookupPending at h ⊢
  simp only [List.find?_append]
  cases hf : s.pendingJobs.find? (fun e => e.1 == k') with
  | none => rw [hf] at h; simp at h
  | some e => rw [hf] at h; simpa using h

theorem lookupPending_append_new (s : S) (k : Nat × Nat) (j : JobId) (h : lookupPending s k = none) :
    lookupPending { s with pendingJobs := s.pendingJobs ++ [(k, j)] } k = some j := by
  unfold lookupPending at h ⊢
  simp only [List.find?_append]
  cases hf : s.pendingJobs.find? (fun e => e.1 == k) with
  | none => simp
  | some e => rw [hf] at h; simp at h

/-- `_pending_jobs.setdefault(key, job)` for a job that is about to be submitted -/
theorem live_regAppend {p : Prog} {s : S} {j : JobId} {k : Nat × Nat} (hl : Live p s (some j) none)
    (hk : keyOf p s j = k) (hnone : lookupPending s k = none) (hnt : ¬ Tw s j) (hew : EW s j = 0)
    (hlt : j < s.next) : Live p { s with pendingJobs := s.pendingJobs ++ [(k, j)] } (some j) none := by
  refine ⟨hl.ph, hl.failed, ?_, hl.a1, hl.twq, hl.cnt, hl.kid, hl.root⟩
  intro k' t hm
  rcases List.mem_append.mp hm with a | a
  · obtain ⟨a1, a2, a3, a4, a5, a6⟩ := hl.reg k' t a
    exact ⟨a1, a2, a3, a4, lookupPending_append_old s k k' j t a5, a6⟩
  · simp at a
    obtain ⟨e1, e2⟩ := a
    subst e1; subst e2
    exact ⟨hk, hlt, hnt, hew, lookupPending_append_new s _ t hnone, fun h => absurd rfl h⟩

theorem live_setInfl {p : Prog} {s : S} {j : JobId} (b : Bool) (sub : List JobId) (hl : Live p s (some j) none) :
    Live p { s with inflight := fun i => if i = j then b else s.inflight i, submits := sub } (some j) none := by
  refine ⟨?_, hl.failed, hl.reg, hl.a1, hl.twq, hl.cnt, hl.kid, hl.root⟩
  intro i hi hp hx
  have hij : i ≠ j := fun h => hx (by rw [h])
  rcases hl.ph i hi hp hx with a | a | a | a | a
  · exact Or.inl a
  · refine Or.inr (Or.inl ?_)
    show (if i = j then b else s.inflight i) = true
    simp [hij]; exact a
  · exact Or.inr (Or.inr (Or.inl a))
  · exact Or.inr (Or.inr (Or.inr (Or.inl a)))
  · exact Or.inr (Or.inr (Or.inr (Or.inr a)))


/-! ## part 7: `_exec_job_main_thread` -/

/-- a handler that ends by queueing a post-exec event of the handled (still pending) job -/
theorem live_QExit {p : Prog} {s s' : S} {j : JobId} (hl : Live p s (some j) none) (hfr : Fr s s') (hq : Q s' j)
    (hp : pend s j) (hf : FailedOk s j) : Live p s' none none :=
  live_fill (hfr.live hl) (fun _ _ => Or.inr (Or.inr (Or.inl hq))) (hfr.failedOk hf)
    (fun _ _ => (hfr.pendIff j).mpr hp)

theorem Q_of_mem_done {s : S} {j : JobId} {f : Bool} (h : Ev.done j f ∈ s.queue) : Q s j := Or.inl (Or.inl ⟨f, h⟩)
theorem Q_of_mem_reject {s : S} {j : JobId} (h : Ev.reject j ∈ s.queue) : Q s j := Or.inl (Or.inr h)
theorem Q_of_mem_resolve {s : S} {j : JobId} (h : Ev.resolve j ∈ s.queue) : Q s j := Or.inr h

theorem live_cachedExit {p : Prog} {s : S} {j : JobId} (ev : Ev) (hev : (∃ f, ev = Ev.done j f) ∨ ev = Ev.reject j)
    (hl : Live p s (some j) none) (hp : pend s j) (hf : FailedOk s j) :
    Live p (enqueue (checkPending p (setJob s j fun js => { js with wasCached := true })) ev) none none := by
  have hne : ∀ k, ev ≠ Ev.exec k := by
    intro k; rcases hev with ⟨f, rfl⟩ | rfl <;> simp
  refine live_QExit hl (((fr_cached s j).trans (fr_checkPending p _)).trans (fr_enqueue _ ev hne)) ?_ hp hf
  rcases hev with ⟨f, rfl⟩ | rfl
  · exact Q_of_mem_done (mem_enqueue _ _)
  · exact Q_of_mem_reject (mem_enqueue _ _)

theorem execJob_live (p : Prog) (hd : p.dryrun = false) (s : S) (j : JobId) (hl : Live p s (some j) none)
    (hp : pend s j) (htw : (s.jobs j).twins = []) (hnt : ¬ Tw s j) (hew : EW s j = 0) (hlt : j < s.next)
    (hnr : ∀ k, (k, j) ∉ s.pendingJobs) (hf : FailedOk s j) : Live p (execJob p s j) none none := by
  unfold execJob
  dsimp only
  split
  · rename_i t heq
    have hlk : lookupPending s ((spec p s j).key, (spec p s j).ctx) = some t := by
      split at heq
      · exact heq
      · simp at heq
    have hmem := mem_of_lookupPending hlk
    have hne : t ≠ j := by intro h; subst h; exact hnr _ hmem
    exact (fr_checkPending p _).live (live_addTwin hl hp hmem hne htw hnt hew hlt hnr hf)
  · rename_i hnotpending
    split
    · rename_i isErr _
      exact live_cachedExit _ (by cases isErr <;> simp) hl hp hf
    · exact live_cachedExit _ (Or.inl ⟨true, rfl⟩) hl hp hf
    · exact live_cachedExit _ (Or.inl ⟨false, rfl⟩) hl hp hf
    · split
      · exact live_pendAppend hl hp htw hnt hnr hf
      · simp only [hd, Bool.false_eq_true, if_false]
        have fc := fr_consume p s j
        split
        · exact live_QExit hl (fc.trans (fr_enqueue _ _ (by intro k; simp))) (Q_of_mem_reject (mem_enqueue _ _)) hp hf
        · -- submit
          have l1 : Live p (consume p s j) (some j) none := fc.live hl
          have hnt1 : ¬ Tw (consume p s j) j := hnt
          have hew1 : EW (consume p s j) j = 0 := hew
          have hlt1 : j < (consume p s j).next := hlt
          have l2 : ∃ s2, s2 = (if (!(spec p s j).prov || (lookupPending (consume p s j) ((spec p s j).key, (spec p s j).ctx)).isSome) = true
                then consume p s j
                else { consume p s j with pendingJobs := (consume p s j).pendingJobs ++ [(((spec p s j).key, (spec p s j).ctx), j)] }) ∧
              Live p s2 (some j) none ∧ pend s2 j ∧ FailedOk s2 j := by
            refine ⟨_, rfl, ?_⟩
            split
            · exact ⟨l1, hp, hf⟩
            · rename_i hc
              have hnone : lookupPending (consume p s j) ((spec p s j).key, (spec p s j).ctx) = none := by
                cases h : lookupPending (consume p s j) ((spec p s j).key, (spec p s j).ctx) with
                | none => rfl
                | some t => rw [h] at hc; simp at hc
              exact ⟨live_regAppend l1 rfl hnone hnt1 hew1 hlt1, hp, hf⟩
          obtain ⟨s2, hs2, l2, hp2, hf2⟩ := l2
          rw [← hs2]
          have l3 := live_setInfl true (s2.submits ++ [j]) l2
          exact live_fill l3 (fun _ _ => Or.inr (Or.inl (by simp))) hf2 (fun _ _ => hp2)

end RedunModel.SchedCore
