/-
Helper lemmas and the finite tables for C33 (status filters vs displayed statuses).
The tables (`table_job`, `table_exec`) are closed by `decide` over the REGENERATED filter terms and
decision lists of `RedunModel.Generated.Status`: if the code changes so that a filter and the displayed
status disagree on some recorder-producible row shape, this file stops compiling.
-/
import RedunModel.Model.Status
namespace RedunModel.Status
open RedunModel.StatusSql RedunModel.Generated.Status

/-! lemmas -/
theorem Tv.or_eq_t (a b : Tv) : a.or b = .t ↔ a = .t ∨ b = .t := by
  cases a <;> cases b <;> simp [Tv.or]

theorem foldl_or_eval (r : Row) (f : St → Term) (rest : List St) : ∀ t0 : Term,
    (rest.foldl (fun acc s' => Term.or acc (f s')) t0).eval r = .t ↔
      t0.eval r = .t ∨ ∃ s ∈ rest, (f s).eval r = .t := by
  induction rest with
  | nil => intro t0; simp
  | cons s rest ih =>
    intro t0
    simp only [List.foldl_cons, ih, Term.eval, Tv.or_eq_t, List.mem_cons]
    constructor
    · rintro ((h | h) | ⟨s', hs, h⟩)
      · exact Or.inl h
      · exact Or.inr ⟨s, Or.inl rfl, h⟩
      · exact Or.inr ⟨s', Or.inr hs, h⟩
    · rintro (h | ⟨s', hs | hs, h⟩)
      · exact Or.inl (Or.inl h)
      · subst hs; exact Or.inl (Or.inr h)
      · exact Or.inr ⟨s', hs, h⟩

/-- the clause of a non-empty status list is true on a row iff one of the status terms is -/
theorem clause_eval (r : Row) (ss : List St) (t : Term) (h : clause ss = some t) :
    t.eval r = .t ↔ ∃ s ∈ ss, (jobStatusTerm s).eval r = .t := by
  cases ss with
  | nil => simp [clause] at h
  | cons s rest =>
    simp only [clause, Option.some.injEq] at h
    subst h
    rw [foldl_or_eval]
    simp

/-- the finite table: single status, all recorder-producible row shapes -/
theorem table_job : (Row.all.all fun r => !RecInv r || St.all.all fun s =>
    (jobMatches [s] r == some (displayIn [s] r))) = true := by decide

theorem job_filter_iff_display (r : Row) (hr : RecInv r = true) (s : St) :
    jobMatches [s] r = some true ↔ display r = .ok s := by
  have h := table_job
  rw [List.all_eq_true] at h
  have h1 := h r (Row.mem_all r)
  simp only [hr, Bool.not_true, Bool.false_or, List.all_eq_true] at h1
  have hs : s ∈ St.all := by cases s <;> decide
  have h2 := h1 s hs
  simp only [beq_iff_eq] at h2
  rw [h2]
  simp only [displayIn, Option.some.injEq]
  cases hd : display r with
  | error e => simp
  | ok s' =>
    simp only [List.contains_cons, List.contains_nil, Bool.or_false, beq_iff_eq, Except.ok.injEq]

theorem displayIn_iff (ss : List St) (r : Row) : displayIn ss r = true ↔ ∃ s ∈ ss, display r = .ok s := by
  simp only [displayIn]
  cases hd : display r with
  | error e => simp
  | ok s' => simp

theorem single_row (r : Row) (hr : RecInv r = true) (s : St) :
    rowMatches jobValueJoins (jobStatusTerm s) r = displayIn [s] r := by
  have h := table_job
  rw [List.all_eq_true] at h
  have h1 := h r (Row.mem_all r)
  simp only [hr, Bool.not_true, Bool.false_or, List.all_eq_true] at h1
  have hs : s ∈ St.all := by cases s <;> decide
  have h2 := h1 s hs
  simpa [jobMatches, clause] using h2

/-- Filtering by any non-empty list of statuses returns a recorder-producible job row iff its displayed
status is one of them. -/
theorem job_filter_multi (r : Row) (hr : RecInv r = true) (ss : List St) (hne : ss ≠ []) :
    jobMatches ss r = some (displayIn ss r) := by
  cases hc : clause ss with
  | none => cases ss <;> simp_all [clause]
  | some t =>
    simp only [jobMatches, hc, Option.map_some, Option.some.injEq]
    rw [Bool.eq_iff_iff, displayIn_iff]
    simp only [rowMatches, Bool.and_eq_true, beq_iff_eq, clause_eval r ss t hc]
    constructor
    · rintro ⟨hk, s, hs, he⟩
      refine ⟨s, hs, ?_⟩
      have := single_row r hr s
      simp only [rowMatches, hk, he, Bool.true_and, beq_self_eq_true] at this
      have h2 := (displayIn_iff [s] r).mp this.symm
      simpa using h2
    · rintro ⟨s, hs, hd⟩
      have h1 : displayIn [s] r = true := (displayIn_iff [s] r).mpr ⟨s, by simp, hd⟩
      rw [← single_row r hr s] at h1
      simp only [rowMatches, Bool.and_eq_true, beq_iff_eq] at h1
      exact ⟨h1.1, s, hs, h1.2⟩

/-! ### executions -/

/-- Boolean core of `execMatches` for a present root job -/
def execMatchB (ss : List St) (r : Row) : Bool :=
  joinsKeep execValueJoins r && (execStatuses ss).any fun s => (jobStatusTerm s).eval r == .t

def stepExtra (acc : List St) (p : St × St) : List St := if acc.contains p.1 then acc ++ [p.2] else acc

theorem foldl_extra_congr (ex : List (St × St)) : ∀ a b : List St, (∀ s, s ∈ a ↔ s ∈ b) →
    ∀ s, s ∈ ex.foldl stepExtra a ↔ s ∈ ex.foldl stepExtra b := by
  induction ex with
  | nil => intro a b h; simpa using h
  | cons p rest ih =>
    intro a b h
    simp only [List.foldl_cons]
    apply ih
    intro s
    have hc : a.contains p.1 = b.contains p.1 := by
      rw [Bool.eq_iff_iff]; simp only [List.contains_iff_mem]; exact h p.1
    simp only [stepExtra, hc]
    cases b.contains p.1 <;> simp [h s]

theorem foldl_extra_ne_nil (ex : List (St × St)) : ∀ a : List St, a ≠ [] → ex.foldl stepExtra a ≠ [] := by
  induction ex with
  | nil => intro a h; simpa using h
  | cons p rest ih =>
    intro a h
    simp only [List.foldl_cons]
    apply ih
    simp only [stepExtra]
    cases a.contains p.1 <;> simp [h]

theorem execStatuses_eq (ss : List St) : execStatuses ss = execExtra.foldl stepExtra ss := rfl

/-- canonical representative of a status list: which of the four statuses it mentions -/
def canon (ss : List St) : List St := St.all.filter fun s => ss.contains s

theorem mem_canon (ss : List St) (s : St) : s ∈ canon ss ↔ s ∈ ss := by
  simp only [canon, List.mem_filter, List.contains_iff_mem]
  constructor
  · exact fun h => h.2
  · intro h; exact ⟨by cases s <;> decide, h⟩

theorem execMatchB_canon (ss : List St) (r : Row) : execMatchB ss r = execMatchB (canon ss) r := by
  simp only [execMatchB]
  congr 1
  rw [Bool.eq_iff_iff]
  simp only [List.any_eq_true, execStatuses_eq]
  have hc := foldl_extra_congr execExtra ss (canon ss) (fun s => (mem_canon ss s).symm)
  constructor
  · rintro ⟨s, hs, h⟩; exact ⟨s, (hc s).mp hs, h⟩
  · rintro ⟨s, hs, h⟩; exact ⟨s, (hc s).mpr hs, h⟩

theorem execDisplayIn_canon (ss : List St) (e : ExecRow) : execDisplayIn ss e = execDisplayIn (canon ss) e := by
  simp only [execDisplayIn]
  cases execDisplay e with
  | error x => rfl
  | ok s =>
    simp only
    rw [Bool.eq_iff_iff]
    simp only [List.contains_iff_mem, mem_canon]

theorem execMatches_some (ss : List St) (hne : ss ≠ []) (r : Row) :
    execMatches ss ⟨some r⟩ = some (execMatchB ss r) := by
  have hne' : execStatuses ss ≠ [] := foldl_extra_ne_nil execExtra ss hne
  cases hc : clause (execStatuses ss) with
  | none => cases h : execStatuses ss <;> simp_all [clause]
  | some t =>
    simp only [execMatches, hc, Option.map_some, Option.some.injEq, execMatchB, rowMatches]
    congr 1
    rw [Bool.eq_iff_iff]
    simp only [beq_iff_eq, clause_eval r _ t hc, List.any_eq_true]

/-- the list with exactly the statuses whose bit is set -/
def ofBits (b1 b2 b3 b4 : Bool) : List St := St.all.filter fun s =>
  match s with | .running => b1 | .cached => b2 | .failed => b3 | .done => b4

theorem canon_ofBits (ss : List St) :
    canon ss = ofBits (ss.contains .running) (ss.contains .cached) (ss.contains .failed) (ss.contains .done) := by
  simp only [canon, ofBits]
  apply List.filter_congr
  intro s _
  cases s <;> rfl

/-- the finite table for executions: every subset of RUNNING/FAILED/DONE, every recorder-producible root job row -/
theorem table_exec : (Row.all.all fun r => !RecInv r ||
    [true, false].all fun b1 => [true, false].all fun b3 => [true, false].all fun b4 =>
      execMatchB (ofBits b1 false b3 b4) r == execDisplayIn (ofBits b1 false b3 b4) ⟨some r⟩) = true := by decide

/-- Filtering executions by a non-empty list of execution statuses (RUNNING, FAILED, DONE) returns an
execution whose root job row is recorder-producible iff its displayed status is one of them. -/
theorem exec_filter_multi (r : Row) (hr : RecInv r = true) (ss : List St) (hne : ss ≠ [])
    (hdom : ∀ s ∈ ss, s ∈ execStatusDomain) :
    execMatches ss ⟨some r⟩ = some (execDisplayIn ss ⟨some r⟩) := by
  rw [execMatches_some ss hne, execMatchB_canon, execDisplayIn_canon, canon_ofBits]
  have hc : ss.contains .cached = false := by
    rw [Bool.eq_false_iff]; intro h
    have := hdom _ (List.contains_iff_mem.mp h)
    simp [execStatusDomain] at this
  rw [hc]
  have h := table_exec
  rw [List.all_eq_true] at h
  have h1 := h r (Row.mem_all r)
  simp only [hr, Bool.not_true, Bool.false_or] at h1
  generalize ss.contains .running = b1 at *
  generalize ss.contains .failed = b3 at *
  generalize ss.contains .done = b4 at *
  congr 1
  cases b1 <;> cases b3 <;> cases b4 <;> simp_all

/-! ### the recorder only produces `RecInv` rows -/

theorem alookup_mem {β : Type} {k : Nat} {v : β} {l : List (Nat × β)} (h : alookup k l = some v) : (k, v) ∈ l := by
  induction l with
  | nil => simp [alookup] at h
  | cons q rest ih =>
    obtain ⟨k', v'⟩ := q
    by_cases hk : k' = k
    · simp [alookup, hk] at h; subst hk; subst h; exact List.mem_cons_self
    · simp [alookup, hk] at h; exact List.mem_cons_of_mem _ (ih h)

theorem alookup_append_isSome {β : Type} (k : Nat) (l : List (Nat × β)) (x : Nat × β)
    (h : (alookup k l).isSome) : alookup k (l ++ [x]) = alookup k l := by
  induction l with
  | nil => simp [alookup] at h
  | cons q rest ih =>
    obtain ⟨k', v'⟩ := q
    by_cases hk : k' = k
    · simp [alookup, hk]
    · simp only [alookup, hk, if_false, List.cons_append] at h ⊢; exact ih h

theorem alookup_append_self_isSome {β : Type} (k : Nat) (l : List (Nat × β)) (v : β) :
    (alookup k (l ++ [(k, v)])).isSome := by
  induction l with
  | nil => simp [alookup]
  | cons q rest ih =>
    obtain ⟨k', v'⟩ := q
    by_cases hk : k' = k <;> simp [alookup, hk, ih]

/-- well-formedness kept by the recorder (the foreign keys and what `record_job_start/end` write) -/
structure WF (db : Db) : Prop where
  callVal : ∀ p ∈ db.calls, (alookup p.2 db.values).isSome
  jobShape : ∀ j ∈ db.jobs, match j.callHash with
    | none => j.endNull = true ∧ j.cached = false
    | some ch => j.endNull = false ∧ (alookup ch db.calls).isSome

theorem wf_empty : WF Db.empty := ⟨by simp [Db.empty], by simp [Db.empty]⟩

/-- `record_job_start` leaves `call_hash` empty (decided on the regenerated `startWritesCallHash`) -/
theorem startCallHash_none (known : Option Nat) : startCallHash known = none := by
  simp [startCallHash, startWritesCallHash]

theorem startJob_wf (db : Db) (id : Nat) (ex : Option Nat) (known : Option Nat) (h : WF db) : WF (startJob db id ex known) := by
  unfold startJob
  split
  · exact h
  · refine ⟨h.callVal, ?_⟩
    intro j hj
    simp only [List.mem_append, List.mem_singleton] at hj
    rcases hj with hj | hj
    · exact h.jobShape j hj
    · subst hj; simp [startCallHash_none]

theorem recStep_wf (db : Db) (op : RecOp) (h : WF db) : WF (recStep db op) := by
  cases op with
  | recordValue vh e =>
    simp only [recStep]
    split
    · exact h
    · refine ⟨?_, h.jobShape⟩
      intro p hp
      have := h.callVal p hp
      simp only []
      rw [alookup_append_isSome _ _ _ this]; exact this
  | recordCallNode ch vh =>
    simp only [recStep]
    split
    · exact h
    · split
      · exact h
      · rename_i h1 h2
        refine ⟨?_, ?_⟩
        · intro p hp
          simp only [List.mem_append, List.mem_singleton] at hp
          rcases hp with hp | hp
          · exact h.callVal p hp
          · subst hp
            cases hv : alookup vh db.values with
            | none => simp [hv] at h2
            | some b => simp
        · intro j hj
          have := h.jobShape j hj
          cases hc : j.callHash with
          | none => simpa [hc] using this
          | some c =>
            simp only [hc] at this ⊢
            refine ⟨this.1, ?_⟩
            rw [alookup_append_isSome _ _ _ this.2]; exact this.2
  | jobStart id ex known => exact startJob_wf db id ex known h
  | jobEnd id c ch =>
    simp only [recStep]
    split
    · exact h
    · rename_i hch
      have h' := startJob_wf db id none (some ch) h
      have hcalls : (startJob db id none (some ch)).calls = db.calls := by
        unfold startJob; split <;> rfl
      refine ⟨?_, ?_⟩
      · have hvals : (startJob db id none (some ch)).values = db.values := by
          unfold startJob; split <;> rfl
        intro p hp
        simp only [hcalls, hvals] at hp ⊢
        exact h.callVal p hp
      · intro j hj
        simp only [List.mem_map] at hj
        obtain ⟨j0, hj0, he⟩ := hj
        by_cases hid : (j0.id == id) = true
        · simp only [hid, if_true] at he
          subst he
          simp only [hcalls]
          cases hl : alookup ch db.calls with
          | none => simp [hl] at hch
          | some v => simp
        · simp only [hid] at he
          subst he
          have := h'.jobShape j0 hj0
          simpa [hcalls] using this

theorem runRec_wf (ops : List RecOp) : WF (runRec ops) := by
  suffices ∀ db, WF db → WF (ops.foldl recStep db) from this _ wf_empty
  induction ops with
  | nil => intro db h; exact h
  | cons op rest ih => intro db h; exact ih _ (recStep_wf db op h)

theorem wf_recInv (db : Db) (h : WF db) (j : JobRec) (hj : j ∈ db.jobs) : RecInv (rowOf db j) = true := by
  have hs := h.jobShape j hj
  cases hc : j.callHash with
  | none =>
    simp only [hc] at hs
    simp [RecInv, rowOf, linkOf, hc, hs.1, hs.2]
  | some ch =>
    simp only [hc] at hs
    cases hl : alookup ch db.calls with
    | none => simp [hl] at hs
    | some vh =>
      have hv := h.callVal (ch, vh) (alookup_mem hl)
      cases hvv : alookup vh db.values with
      | none => simp [hvv] at hv
      | some b => cases b <;> simp [RecInv, rowOf, linkOf, hc, hl, hvv, hs.1]

/-- every Execution row points at an existing job row -/
def ExecRooted (db : Db) : Prop := ∀ e ∈ db.execs, ∃ j ∈ db.jobs, j.id = e.2

theorem startJob_rooted (db : Db) (id : Nat) (ex : Option Nat) (known : Option Nat) (h : ExecRooted db) :
    ExecRooted (startJob db id ex known) := by
  unfold startJob
  split
  · exact h
  · intro e he
    cases ex with
    | none =>
      obtain ⟨j, hj, hid⟩ := h e he
      exact ⟨j, List.mem_append_left _ hj, hid⟩
    | some x =>
      simp only [List.mem_append, List.mem_singleton] at he
      rcases he with he | he
      · obtain ⟨j, hj, hid⟩ := h e he
        exact ⟨j, List.mem_append_left _ hj, hid⟩
      · subst he
        exact ⟨⟨id, true, false, startCallHash known⟩, by simp, rfl⟩

theorem recStep_rooted (db : Db) (op : RecOp) (h : ExecRooted db) : ExecRooted (recStep db op) := by
  cases op with
  | recordValue vh e => simp only [recStep]; split <;> exact h
  | recordCallNode ch vh => simp only [recStep]; split; exact h; split <;> exact h
  | jobStart id ex known => exact startJob_rooted db id ex known h
  | jobEnd id c ch =>
    simp only [recStep]
    split
    · exact h
    · have h' := startJob_rooted db id none (some ch) h
      intro e he
      obtain ⟨j, hj, hid⟩ := h' e he
      refine ⟨if j.id == id then { j with endNull := false, cached := c, callHash := some ch } else j, ?_, ?_⟩
      · exact List.mem_map.mpr ⟨j, hj, rfl⟩
      · split <;> exact hid

theorem runRec_rooted (ops : List RecOp) : ExecRooted (runRec ops) := by
  suffices ∀ db, ExecRooted db → ExecRooted (ops.foldl recStep db) from this _ (by intro e he; simp [Db.empty] at he)
  induction ops with
  | nil => intro db h; exact h
  | cons op rest ih => intro db h; exact ih _ (recStep_rooted db op h)

/-! ### database level -/

/-- After any sequence of recorder operations, `filter_job_statuses(ss)` returns exactly the jobs whose
displayed status is in `ss`. -/
theorem query_jobs_eq_displayed (ops : List RecOp) (ss : List St) (hne : ss ≠ []) :
    queryJobs ss (runRec ops) = some (displayedJobs ss (runRec ops)) := by
  have hwf := runRec_wf ops
  cases hc : clause ss with
  | none => cases ss <;> simp_all [clause]
  | some t =>
    simp only [queryJobs, hc, Option.map_some, Option.some.injEq, displayedJobs]
    congr 1
    apply List.filter_congr
    intro j hj
    have := job_filter_multi (rowOf (runRec ops) j) (wf_recInv _ hwf j hj) ss hne
    simpa [jobMatches, hc] using this

/-- Same for executions and the execution statuses RUNNING / FAILED / DONE, for executions whose root
job row exists (the recorder adds the Execution row together with its root job). -/
theorem query_execs_eq_displayed (ops : List RecOp) (ss : List St) (hne : ss ≠ [])
    (hdom : ∀ s ∈ ss, s ∈ execStatusDomain) :
    queryExecs ss (runRec ops) = some (displayedExecs ss (runRec ops)) := by
  have hwf := runRec_wf ops
  have hne' : execStatuses ss ≠ [] := foldl_extra_ne_nil execExtra ss hne
  cases hc : clause (execStatuses ss) with
  | none => cases h : execStatuses ss <;> simp_all [clause]
  | some t =>
    simp only [queryExecs, hc, Option.map_some, Option.some.injEq, displayedExecs]
    congr 1
    apply List.filter_congr
    intro e he
    have hr : (findJob (runRec ops) e.2).isSome := by
      obtain ⟨j, hj, hid⟩ := runRec_rooted ops e he
      simp only [findJob, List.find?_isSome]
      exact ⟨j, hj, by simp [hid]⟩
    cases hf : findJob (runRec ops) e.2 with
    | none => simp [hf] at hr
    | some j =>
      have hj : j ∈ (runRec ops).jobs := List.mem_of_find?_eq_some hf
      have := exec_filter_multi (rowOf (runRec ops) j) (wf_recInv _ hwf j hj) ss hne hdom
      simp only [execRowOf, hf, Option.map_some, this]
      simp

end RedunModel.Status
