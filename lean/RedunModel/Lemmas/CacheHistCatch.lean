/-
C02, the regime of `catch`'s private cache as implemented (`Variant.noCatchCache = false`), for histories without
`check_valid="shallow"` tasks: the cache is sound as long as every caught expression whose *recovery* is cached still
raises the caught class under the current code (`CatchStill`).  The stale-recovery finding (`refuted_catch`) is exactly
a history in which this fails.
-/
import RedunModel.Lemmas.CacheHist
namespace RedunModel.CacheHist

/-- the invariant without the CallNode table (never read when no task is shallow), with `catch`'s entries:
an entry is the caught expression itself (`on_success`), or the recovery call and the caught expression raises the
caught class under the current registry (`on_recover`) -/
structure InvC (V : Variant) (P : Prog) (c : Code) (w : World) (st : St) : Prop where
  evals : ∀ k e, (k, e) ∈ st.evals → ∀ w', validE V w' e = true → P.body k.1 k.2 w' = .ret e
  cse : ∀ k r sub, (k, r, sub) ∈ st.cse → k.1 = c.th k.1.name ∧ Den P c w (.call k.1.name (.lit k.2)) r
  catches : ∀ ck ce, (ck, ce) ∈ st.catches →
    ce = ck.e ∨ (ce = .call ck.rc.name (.lit (.exc ck.cls)) ∧ Den P c w ck.e (.err ck.cls))

def EvOkC (V : Variant) (P : Prog) (c : Code) (w : World) (ev : St → Expr → R) : Prop :=
  ∀ st e st' r u, InvC V P c w st → ev st e = some (st', r, u) → InvC V P c w st' ∧ Den P c w e r

theorem invC_addNode {V P c w st nd} (hI : InvC V P c w st) : InvC V P c w (addNode st nd) := by
  unfold addNode
  split
  · exact hI
  · exact ⟨hI.evals, hI.cse, hI.catches⟩

theorem finishJob_soundC {V : Variant} {P c w st} {k : Key} {r : Res} {ue : List TH}
    (hI : InvC V P c w st) (hk : k.1 = c.th k.1.name) (hD : Den P c w (.call k.1.name (.lit k.2)) r) :
    InvC V P c w (finishJob V st k r ue).1 := by
  unfold finishJob
  have h1 : InvC V P c w (if recorded st k r then addNode st ⟨k, r, insertTH k.1 ue⟩ else st) := by
    split
    · exact invC_addNode hI
    · exact hI
  refine ⟨h1.evals, ?_, h1.catches⟩
  intro k' r' sub hm
  rcases List.mem_cons.1 hm with heq | hm
  · simp only [Prod.mk.injEq] at heq
    obtain ⟨rfl, rfl, _⟩ := heq
    exact ⟨hk, hD⟩
  · exact h1.cse k' r' sub hm

theorem runBody_soundC {V : Variant} {P c w ev st} {nm : Nat} {va : Val} {st' r u}
    (hB : BodyOk V P) (hev : EvOkC V P c w ev)
    (hI : InvC V P c w st) (h : runBody V P w ev st (c.th nm, va) = some (st', r, u)) :
    InvC V P c w st' ∧ Den P c w (.call nm (.lit va)) r := by
  unfold runBody at h
  dsimp only at h
  have hI0 : InvC V P c w { st with log := st.log ++ [(c.th nm, va)] } := ⟨hI.evals, hI.cse, hI.catches⟩
  split at h
  · next cl hb =>
    simp only [Option.some.injEq] at h
    have hD : Den P c w (.call nm (.lit va)) (.err cl) := .callRaise (.lit va) hb
    have := finishJob_soundC (V := V) (k := (c.th nm, va)) (ue := []) hI0 rfl hD
    obtain ⟨rfl, rfl, rfl⟩ := finishJob_eq h
    exact ⟨this, hD⟩
  · next e hb =>
    split at h
    · cases h
    · next st2 r2 ue hev2 =>
      simp only [Option.some.injEq] at h
      have hI1 : InvC V P c w { st with log := st.log ++ [(c.th nm, va)], evals := ((c.th nm, va), e) :: st.evals } := by
        refine ⟨?_, hI.cse, hI.catches⟩
        intro k e' hm w' hv
        rcases List.mem_cons.1 hm with heq | hm
        · cases heq; exact hB _ _ _ _ _ hb hv
        · exact hI.evals k e' hm w' hv
      obtain ⟨hI2, hD2⟩ := hev _ _ _ _ _ hI1 hev2
      have hD : Den P c w (.call nm (.lit va)) r2 := .callRet (.lit va) hb hD2
      have := finishJob_soundC (V := V) (k := (c.th nm, va)) (ue := ue) hI2 rfl hD
      obtain ⟨rfl, rfl, rfl⟩ := finishJob_eq h
      exact ⟨this, hD⟩

theorem jobStep_soundC {V : Variant} {P c w ev st} {nm : Nat} {va : Val} {st' r u}
    (hB : BodyOk V P) (hNS : ∀ n, c.shallow n = false) (hev : EvOkC V P c w ev)
    (hI : InvC V P c w st) (h : jobStep V P c w ev st nm va = some (st', r, u)) :
    InvC V P c w st' ∧ Den P c w (.call nm (.lit va)) r := by
  unfold jobStep at h
  simp only [hNS nm, Bool.false_eq_true, if_false] at h
  split at h
  · next r0 sub hl =>
    obtain ⟨hk, hD⟩ := hI.cse _ _ _ (lookup_mem hl)
    split at h
    · simp only [Option.some.injEq, Prod.mk.injEq] at h
      obtain ⟨rfl, rfl, rfl⟩ := h
      exact ⟨hI, hD⟩
    · simp only [Option.some.injEq, Prod.mk.injEq] at h
      obtain ⟨rfl, rfl, rfl⟩ := h
      refine ⟨?_, hD⟩
      split
      · exact invC_addNode hI
      · exact hI
  · split at h
    · next e hl =>
      split at h
      · next hv =>
        have hb : P.body (c.th nm) va w = .ret e := hI.evals _ _ (lookup_mem hl) w hv
        split at h
        · cases h
        · next st2 r2 ue hev2 =>
          simp only [Option.some.injEq] at h
          obtain ⟨hI2, hD2⟩ := hev _ _ _ _ _ hI hev2
          have hD : Den P c w (.call nm (.lit va)) r2 := .callRet (.lit va) hb hD2
          have := finishJob_soundC (V := V) (k := (c.th nm, va)) (ue := ue) hI2 rfl hD
          obtain ⟨rfl, rfl, rfl⟩ := finishJob_eq h
          exact ⟨this, hD⟩
      · exact runBody_soundC hB hev hI h
    · exact runBody_soundC hB hev hI h

/-- every evaluation step, `catch`'s private cache included, preserves `InvC` and computes the denotation -/
theorem eval_soundC {V : Variant} {P : Prog} {c : Code} {w : World} (hB : BodyOk V P)
    (hNS : ∀ n, c.shallow n = false) : ∀ n, EvOkC V P c w (eval V P c w n) := by
  intro n
  induction n with
  | zero => intro st e st' r u _ h; simp [eval] at h
  | succ n ih =>
    intro st e st' r u hI h
    cases e with
    | lit v =>
      simp only [eval, Option.some.injEq, Prod.mk.injEq] at h
      obtain ⟨rfl, rfl, rfl⟩ := h
      exact ⟨hI, .lit v⟩
    | add a b =>
      simp only [eval] at h
      split at h
      · cases h
      · next st1 x u1 ha =>
        simp only [Option.some.injEq, Prod.mk.injEq] at h
        obtain ⟨rfl, rfl, rfl⟩ := h
        obtain ⟨hI1, hD1⟩ := ih _ _ _ _ _ hI ha
        exact ⟨hI1, .addErrL hD1⟩
      · next st1 va u1 ha =>
        obtain ⟨hI1, hD1⟩ := ih _ _ _ _ _ hI ha
        split at h
        · cases h
        · next st2 x u2 hb =>
          simp only [Option.some.injEq, Prod.mk.injEq] at h
          obtain ⟨rfl, rfl, rfl⟩ := h
          obtain ⟨hI2, hD2⟩ := ih _ _ _ _ _ hI1 hb
          exact ⟨hI2, .addErrR hD1 hD2⟩
        · next st2 vb u2 hb =>
          simp only [Option.some.injEq, Prod.mk.injEq] at h
          obtain ⟨rfl, rfl, rfl⟩ := h
          obtain ⟨hI2, hD2⟩ := ih _ _ _ _ _ hI1 hb
          exact ⟨hI2, .addOk hD1 hD2⟩
    | call nm a =>
      simp only [eval] at h
      split at h
      · cases h
      · next st1 x u1 ha =>
        simp only [Option.some.injEq, Prod.mk.injEq] at h
        obtain ⟨rfl, rfl, rfl⟩ := h
        obtain ⟨hI1, hD1⟩ := ih _ _ _ _ _ hI ha
        exact ⟨hI1, .callArgErr hD1⟩
      · next st1 va u1 ha =>
        obtain ⟨hI1, hD1⟩ := ih _ _ _ _ _ hI ha
        split at h
        · cases h
        · next st2 r2 u2 hj =>
          simp only [Option.some.injEq, Prod.mk.injEq] at h
          obtain ⟨rfl, rfl, rfl⟩ := h
          obtain ⟨hI2, hD2⟩ := jobStep_soundC hB hNS ih hI1 hj
          exact ⟨hI2, den_call_lit hD1 hD2⟩
    | «catch» e cls rc =>
      -- the recovery path, shared by the hit and the miss branch: `e` is known to raise `cls`
      have recov : ∀ (st1 : St) (u1 : List TH) st' r u, InvC V P c w st1 → Den P c w e (.err cls) →
          (match eval V P c w n st1 (Expr.call rc.name (.lit (.exc cls))) with
            | none => none
            | some (st2, .ok v, u2) =>
              some ({ st2 with catches := (⟨e, cls, rc⟩, Expr.call rc.name (.lit (.exc cls))) :: st2.catches }, Res.ok v, unionTH u1 u2)
            | some (st2, .err x, u2) => some (st2, Res.err x, unionTH u1 u2)) = some (st', r, u) →
          InvC V P c w st' ∧ Den P c w (.catch e cls rc) r := by
        intro st1 u1 st' r u hI1 hDe hh
        split at hh
        · cases hh
        · next st2 v u2 hr =>
          simp only [Option.some.injEq, Prod.mk.injEq] at hh
          obtain ⟨rfl, rfl, rfl⟩ := hh
          obtain ⟨hI2, hD2⟩ := ih _ _ _ _ _ hI1 hr
          refine ⟨⟨hI2.evals, hI2.cse, ?_⟩, .catchRec hDe hD2⟩
          intro ck ce hm
          rcases List.mem_cons.1 hm with heq | hm
          · simp only [Prod.mk.injEq] at heq
            obtain ⟨rfl, rfl⟩ := heq
            exact .inr ⟨rfl, hDe⟩
          · exact hI2.catches ck ce hm
        · next st2 y u2 hr =>
          simp only [Option.some.injEq, Prod.mk.injEq] at hh
          obtain ⟨rfl, rfl, rfl⟩ := hh
          obtain ⟨hI2, hD2⟩ := ih _ _ _ _ _ hI1 hr
          exact ⟨hI2, .catchRec hDe hD2⟩
      simp only [eval] at h
      split at h
      · -- a cached expression: either `e` itself or the recovery of an `e` that still raises `cls`
        next ce hl =>
        have hmem : ((⟨e, cls, rc⟩ : CKey), ce) ∈ st.catches := by
          split at hl
          · cases hl
          · exact lookup_mem hl
        rcases hI.catches _ _ hmem with hce | ⟨hce, hDe⟩
        · simp only at hce
          subst hce
          split at h
          · cases h
          · next st1 v u1 he =>
            simp only [Option.some.injEq, Prod.mk.injEq] at h
            obtain ⟨rfl, rfl, rfl⟩ := h
            obtain ⟨hI1, hD1⟩ := ih _ _ _ _ _ hI he
            exact ⟨hI1, .catchOk hD1⟩
          · next st1 x u1 he =>
            obtain ⟨hI1, hD1⟩ := ih _ _ _ _ _ hI he
            split at h
            · next hx => subst hx; exact recov st1 u1 _ _ _ hI1 hD1 h
            · next hx =>
              simp only [Option.some.injEq, Prod.mk.injEq] at h
              obtain ⟨rfl, rfl, rfl⟩ := h
              exact ⟨hI1, .catchOther hD1 hx⟩
        · simp only at hce hDe
          subst hce
          split at h
          · cases h
          · next st1 v u1 he =>
            simp only [Option.some.injEq, Prod.mk.injEq] at h
            obtain ⟨rfl, rfl, rfl⟩ := h
            obtain ⟨hI1, hD1⟩ := ih _ _ _ _ _ hI he
            exact ⟨hI1, .catchRec hDe hD1⟩
          · next st1 x u1 he =>
            obtain ⟨hI1, hD1⟩ := ih _ _ _ _ _ hI he
            split at h
            · next hx => subst hx; exact recov st1 u1 _ _ _ hI1 hDe h
            · next hx =>
              simp only [Option.some.injEq, Prod.mk.injEq] at h
              obtain ⟨rfl, rfl, rfl⟩ := h
              exact ⟨hI1, .catchRec hDe hD1⟩
      · next hl =>
        split at h
        · cases h
        · next st1 v u1 he =>
          simp only [Option.some.injEq, Prod.mk.injEq] at h
          obtain ⟨rfl, rfl, rfl⟩ := h
          obtain ⟨hI1, hD1⟩ := ih _ _ _ _ _ hI he
          refine ⟨⟨hI1.evals, hI1.cse, ?_⟩, .catchOk hD1⟩
          intro ck ce hm
          rcases List.mem_cons.1 hm with heq | hm
          · simp only [Prod.mk.injEq] at heq
            obtain ⟨rfl, rfl⟩ := heq
            exact .inl rfl
          · exact hI1.catches ck ce hm
        · next st1 x u1 he =>
          obtain ⟨hI1, hD1⟩ := ih _ _ _ _ _ hI he
          split at h
          · next hx => subst hx; exact recov st1 u1 _ _ _ hI1 hD1 h
          · next hx =>
            simp only [Option.some.injEq, Prod.mk.injEq] at h
            obtain ⟨rfl, rfl, rfl⟩ := h
            exact ⟨hI1, .catchOther hD1 hx⟩

end RedunModel.CacheHist
