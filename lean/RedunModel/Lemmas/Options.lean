/-
Helper lemmas for the task-option model (property C27): association-list dictionaries, value evaluation,
`rawOptions`/`evalOptions` key by key, ancestor chains, job trees, task construction.
`rightmost`, `layers`, `provOffLayer`, `effective`, `CallWF`, `InfoWF`, `parentOff` are specification-side notions
(not code of redun).
-/
import RedunModel.Model.Options
namespace RedunModel.Options
theorem lookup_cons_ite (k k0 : String) (v0 : α) (t : Dict α) :
    List.lookup k ((k0, v0) :: t) = if k = k0 then some v0 else List.lookup k t := by
  by_cases h : k = k0
  · subst h; simp
  · have : (k == k0) = false := by simpa using h
    simp [List.lookup_cons, this, h]

theorem lookup_dset (k k' : String) (v : α) (d : Dict α) :
    (dset k' v d).lookup k = if k = k' then some v else d.lookup k := by
  induction d with
  | nil => simp only [dset, lookup_cons_ite, List.lookup_nil]
  | cons kv t ih =>
    obtain ⟨k0, v0⟩ := kv
    simp only [dset]
    split
    · rename_i h; subst h
      simp only [lookup_cons_ite]
      split <;> rfl
    · rename_i h
      simp only [lookup_cons_ite, ih]
      by_cases hk : k = k0
      · subst hk; simp [h]
      · simp [hk]

theorem lookup_eq_none_iff (k : String) (d : Dict α) : d.lookup k = none ↔ k ∉ keys d := by
  induction d with
  | nil => simp [keys]
  | cons kv t ih =>
    obtain ⟨k0, v0⟩ := kv
    simp only [lookup_cons_ite, keys, List.map_cons, List.mem_cons, not_or] at ih ⊢
    by_cases hk : k = k0
    · subst hk; simp
    · simp only [hk, if_false, not_false_eq_true, true_and]; exact ih

theorem keys_dset (k : String) (v : α) (d : Dict α) :
    keys (dset k v d) = if k ∈ keys d then keys d else keys d ++ [k] := by
  induction d with
  | nil => simp [dset, keys]
  | cons kv t ih =>
    obtain ⟨k0, v0⟩ := kv
    simp only [dset]
    split
    · rename_i h; subst h; simp [keys]
    · rename_i h
      have h' : ¬ k = k0 := fun e => h e.symm
      simp only [keys, List.map_cons, List.mem_cons, h', false_or] at ih ⊢
      rw [ih]; by_cases hm : k ∈ List.map Prod.fst t <;> simp [hm]

theorem wf_dset (k : String) (v : α) (d : Dict α) (h : WF d) : WF (dset k v d) := by
  unfold WF at *
  rw [keys_dset]
  split
  · exact h
  · rename_i hk
    rw [List.nodup_append]
    refine ⟨h, by simp, ?_⟩
    intro a ha b hb
    simp at hb; subst hb
    intro e; subst e; exact hk ha

theorem mem_keys_dset (k k' : String) (v : α) (d : Dict α) : k ∈ keys (dset k' v d) ↔ k = k' ∨ k ∈ keys d := by
  rw [keys_dset]; split
  · rename_i h; constructor
    · exact Or.inr
    · rintro (e | e)
      · subst e; exact h
      · exact e
  · simp [or_comm]

theorem wf_dmerge (a b : Dict α) (h : WF a) : WF (dmerge a b) := by
  unfold dmerge
  induction b generalizing a with
  | nil => simpa
  | cons kv t ih => simp only [List.foldl_cons]; exact ih _ (wf_dset _ _ _ h)

theorem lookup_dmerge (k : String) (a b : Dict α) (hb : WF b) :
    (dmerge a b).lookup k = (b.lookup k).or (a.lookup k) := by
  unfold dmerge
  induction b generalizing a with
  | nil => simp
  | cons kv t ih =>
    obtain ⟨k0, v0⟩ := kv
    have ht : WF t := by unfold WF keys at *; simp at hb; exact hb.2
    have hk0 : k0 ∉ keys t := by unfold WF keys at *; simp at hb; simpa using hb.1
    simp only [List.foldl_cons, ih _ ht, lookup_dset, lookup_cons_ite]
    by_cases hk : k = k0
    · subst hk
      have : t.lookup k = none := (lookup_eq_none_iff _ _).2 hk0
      simp [this]
    · simp [hk]

theorem mem_keys_dmerge (k : String) (a b : Dict α) : k ∈ keys (dmerge a b) ↔ k ∈ keys a ∨ k ∈ keys b := by
  unfold dmerge
  induction b generalizing a with
  | nil => simp [keys]
  | cons kv t ih =>
    rw [List.foldl_cons, ih, mem_keys_dset]
    have : keys (kv :: t) = kv.1 :: keys t := rfl
    rw [this, List.mem_cons]
    constructor
    · rintro ((h | h) | h)
      · exact Or.inr (Or.inl h)
      · exact Or.inl h
      · exact Or.inr (Or.inr h)
    · rintro (h | h | h)
      · exact Or.inl (Or.inr h)
      · exact Or.inl (Or.inl h)
      · exact Or.inr h

theorem lookup_mapVals (f : α → β) (k : String) (d : Dict α) :
    (mapVals f d).lookup k = (d.lookup k).map f := by
  induction d with
  | nil => simp [mapVals]
  | cons kv t ih =>
    obtain ⟨k0, v0⟩ := kv
    simp only [mapVals, List.map_cons, lookup_cons_ite] at ih ⊢
    by_cases hk : k = k0
    · subst hk; simp
    · simp [hk]; exact ih

theorem keys_mapVals (f : α → β) (d : Dict α) : keys (mapVals f d) = keys d := by
  simp [keys, mapVals, List.map_map, Function.comp_def]

theorem wf_mapVals (f : α → β) (d : Dict α) (h : WF d) : WF (mapVals f d) := by
  unfold WF; rw [keys_mapVals]; exact h

theorem lookup_filter_key (P : String → Bool) (k : String) (d : Dict α) :
    (d.filter fun kv => P kv.1).lookup k = if P k then d.lookup k else none := by
  induction d with
  | nil => simp
  | cons kv t ih =>
    obtain ⟨k0, v0⟩ := kv
    simp only [List.filter_cons]
    by_cases hp : P k0
    · simp only [hp, if_true, lookup_cons_ite, ih]
      by_cases hk : k = k0
      · subst hk; simp [hp]
      · simp [hk]
    · simp only [hp, Bool.false_eq_true, if_false, ih, lookup_cons_ite]
      by_cases hk : k = k0
      · subst hk; simp [hp]
      · simp [hk]

theorem wf_filter (p : String × α → Bool) (d : Dict α) (h : WF d) : WF (d.filter p) := by
  unfold WF keys at *
  exact List.Nodup.sublist (List.Sublist.map _ List.filter_sublist) h


/-! ### values -/

mutual
theorem evalVal_embed : (v : CVal) → evalVal (embed v) = v
  | .none => rfl
  | .bool _ => rfl
  | .int _ => rfl
  | .str _ => rfl
  | .enum _ _ => rfl
  | .list l => by simp only [embed, evalVal, evalL_embedL l]
theorem evalL_embedL : (l : List CVal) → evalL (embedL l) = l
  | [] => rfl
  | v :: t => by simp only [embedL, evalL, evalVal_embed v, evalL_embedL t]
end

mutual
theorem calls_embed : (v : CVal) → calls (embed v) = []
  | .none => rfl
  | .bool _ => rfl
  | .int _ => rfl
  | .str _ => rfl
  | .enum _ _ => rfl
  | .list l => by simp only [embed, calls, callsL_embedL l]
theorem callsL_embedL : (l : List CVal) → callsL (embedL l) = []
  | [] => rfl
  | v :: t => by simp only [embedL, callsL, calls_embed v, callsL_embedL t, List.append_nil]
end

/-! ### option jobs -/

theorem optionJobs_embed (d : Dict CVal) : optionJobs (mapVals embed d) = [] := by
  induction d with
  | nil => rfl
  | cons kv t ih =>
    simp only [optionJobs, mapVals, List.map_cons, List.flatMap_cons, calls_embed, List.nil_append] at ih ⊢
    exact ih

theorem mem_optionJobs {i : String} {d : Dict Val} : i ∈ optionJobs d ↔ ∃ kv ∈ d, i ∈ calls kv.2 := by
  simp [optionJobs, List.mem_flatMap]

theorem mem_dset {kv : String × α} {k : String} {v : α} {d : Dict α} (h : kv ∈ dset k v d) : kv ∈ d ∨ kv = (k, v) := by
  induction d with
  | nil => simp [dset] at h; exact Or.inr h
  | cons x t ih =>
    obtain ⟨k0, v0⟩ := x
    simp only [dset] at h
    split at h
    · rename_i e; subst e
      rcases List.mem_cons.1 h with h | h
      · exact Or.inr h
      · exact Or.inl (List.mem_cons_of_mem _ h)
    · rcases List.mem_cons.1 h with h | h
      · exact Or.inl (h ▸ List.mem_cons_self)
      · rcases ih h with h | h
        · exact Or.inl (List.mem_cons_of_mem _ h)
        · exact Or.inr h

theorem mem_dmerge {kv : String × α} {a b : Dict α} (h : kv ∈ dmerge a b) : kv ∈ a ∨ kv ∈ b := by
  unfold dmerge at h
  induction b generalizing a with
  | nil => exact Or.inl h
  | cons x t ih =>
    rw [List.foldl_cons] at h
    rcases ih h with h | h
    · rcases mem_dset h with h | h
      · exact Or.inl h
      · exact Or.inr (h ▸ List.mem_cons_self)
    · exact Or.inr (List.mem_cons_of_mem _ h)

theorem optionJobs_dmerge {i : String} {a b : Dict Val} (h : i ∈ optionJobs (dmerge a b)) :
    i ∈ optionJobs a ∨ i ∈ optionJobs b := by
  obtain ⟨kv, hkv, hi⟩ := mem_optionJobs.1 h
  rcases mem_dmerge hkv with h | h
  · exact Or.inl (mem_optionJobs.2 ⟨kv, h, hi⟩)
  · exact Or.inr (mem_optionJobs.2 ⟨kv, h, hi⟩)

/-! ### jobs -/

/-- the dicts of a call have unique keys (Python dicts) -/
def CallWF (c : Call) : Prop := WF c.reg.base ∧ WF c.reg.over ∧ WF c.var.over

/-- the parent's evaluated options have unique keys -/
def InfoWF : Option JobInfo → Prop
  | none => True
  | some p => WF p.evalOpts

/-- the parent exists and does not record provenance -/
def parentOff : Option JobInfo → Bool
  | none => false
  | some p => !recProv p.evalOpts

theorem wf_forced (u : Bool) (p : Option JobInfo) : WF (forced u p) := by
  unfold forced WF keys
  cases u <;> cases p <;> simp <;> split <;> simp

theorem lookup_forced (u : Bool) (p : Option JobInfo) (k : String) :
    (forced u p).lookup k =
      if k = "cache_scope" ∧ u = false then some (scopeC "CSE")
      else if k = "prov" ∧ parentOff p = true then some (.bool false) else none := by
  have hne : ¬ ("prov" = "cache_scope") := by decide
  cases u <;> cases p with
  | none => simp [forced, parentOff, lookup_cons_ite]
  | some p =>
    cases hr : recProv p.evalOpts <;> simp [forced, parentOff, hr, lookup_cons_ite]
    all_goals (try (by_cases h1 : k = "cache_scope" <;> simp [h1]))
    all_goals (try (intro h2; subst h2; exact absurd h1.symm hne))

theorem wf_inherited (p : Option JobInfo) (h : InfoWF p) : WF (inherited p) := by
  cases p with
  | none => simp [inherited, WF, keys]
  | some p => exact wf_filter _ _ h

theorem lookup_inherited (p : JobInfo) (k : String) :
    (inherited (some p)).lookup k = if k ∈ p.exports then p.evalOpts.lookup k else none := by
  unfold inherited
  have := lookup_filter_key (fun k => decide (k ∈ p.exports)) k p.evalOpts
  simpa using this


theorem wf_rawOptions (u : Bool) (p : Option JobInfo) (c : Call) (hc : CallWF c) : WF (rawOptions u p c) := by
  unfold rawOptions taskOptions
  exact wf_dmerge _ _ (wf_dmerge _ _ (wf_dmerge _ _ (wf_dmerge _ _ hc.1)))

/-- `Job.get_raw_options`, key by key: the right-most of the four dicts that has the key -/
theorem lookup_rawOptions (u : Bool) (p : Option JobInfo) (c : Call) (k : String) (hc : CallWF c) (hp : InfoWF p) :
    (rawOptions u p c).lookup k =
      (((forced u p).lookup k).map embed).or ((c.var.over.lookup k).or
        ((((inherited p).lookup k).map embed).or ((c.reg.over.lookup k).or (c.reg.base.lookup k)))) := by
  unfold rawOptions taskOptions
  rw [lookup_dmerge _ _ _ (wf_mapVals _ _ (wf_forced u p)), lookup_dmerge _ _ _ hc.2.2,
    lookup_dmerge _ _ _ (wf_mapVals _ _ (wf_inherited p hp)), lookup_dmerge _ _ _ hc.2.1,
    lookup_mapVals, lookup_mapVals]

theorem recProv_dset_scope (e : Dict CVal) (v : CVal) : recProv (dset "cache_scope" v e) = recProv e := by
  unfold recProv
  rw [lookup_dset]
  simp

theorem evalOptions_eq (u : Bool) (p : Option JobInfo) (c : Call) :
    evalOptions u p c =
      if recProv (mapVals evalVal (rawOptions u p c)) = true then mapVals evalVal (rawOptions u p c)
      else dset "cache_scope" (scopeC "NONE") (mapVals evalVal (rawOptions u p c)) := rfl

theorem lookup_evalOptions (u : Bool) (p : Option JobInfo) (c : Call) (k : String) :
    (evalOptions u p c).lookup k =
      if k = "cache_scope" ∧ recProv (mapVals evalVal (rawOptions u p c)) = false then some (scopeC "NONE")
      else ((rawOptions u p c).lookup k).map evalVal := by
  rw [evalOptions_eq]
  cases hr : recProv (mapVals evalVal (rawOptions u p c))
  · simp only [Bool.false_eq_true, if_false, lookup_dset, lookup_mapVals, and_true]
  · simp only [if_true, lookup_mapVals, Bool.true_eq_false, and_false, if_false]

theorem recProv_evalOptions (u : Bool) (p : Option JobInfo) (c : Call) :
    recProv (evalOptions u p c) = recProv (mapVals evalVal (rawOptions u p c)) := by
  rw [evalOptions_eq]
  cases hr : recProv (mapVals evalVal (rawOptions u p c))
  · simp only [Bool.false_eq_true, if_false, recProv_dset_scope, hr]
  · simp only [if_true, hr]

theorem wf_evalOptions (u : Bool) (p : Option JobInfo) (c : Call) (hc : CallWF c) : WF (evalOptions u p c) := by
  rw [evalOptions_eq]
  have := wf_mapVals evalVal _ (wf_rawOptions u p c hc)
  split
  · exact this
  · exact wf_dset _ _ _ this

/-! ### the documented layers (specification side) -/

/-- value of `k` in the right-most dict of the list that defines it -/
def rightmost (ls : List (Dict CVal)) (k : String) : Option CVal :=
  ls.foldl (fun acc l => (l.lookup k).or acc) none

/-- last scheduler-imposed layer: no caching at all for a job that records no provenance -/
def provOffLayer (u : Bool) (p : Option JobInfo) (c : Call) : Dict CVal :=
  if recProv (mapVals evalVal (rawOptions u p c)) then [] else [("cache_scope", scopeC "NONE")]

/-- lowest to highest: definition options (decorator, then the registered task's own overrides), options exported by
the ancestors, call-time options, scheduler-imposed options -/
def layers (u : Bool) (p : Option JobInfo) (c : Call) : List (Dict CVal) :=
  [mapVals evalVal c.reg.base, mapVals evalVal c.reg.over, inherited p, mapVals evalVal c.var.over, forced u p,
   provOffLayer u p c]

theorem map_or (f : α → β) (a b : Option α) : (a.or b).map f = (a.map f).or (b.map f) := by
  cases a <;> simp

theorem lookup_evalOptions_layers (u : Bool) (p : Option JobInfo) (c : Call) (k : String) (hc : CallWF c) (hp : InfoWF p) :
    (evalOptions u p c).lookup k = rightmost (layers u p c) k := by
  rw [lookup_evalOptions, lookup_rawOptions u p c k hc hp]
  simp only [rightmost, layers, List.foldl_cons, List.foldl_nil, Option.or_none, lookup_mapVals, map_or,
    Option.map_map]
  have he : (evalVal ∘ embed) = id := by funext v; simp [evalVal_embed]
  simp only [he, Option.map_id_fun, id]
  unfold provOffLayer
  cases hr : recProv (mapVals evalVal (rawOptions u p c))
  · by_cases hk : k = "cache_scope"
    · subst hk; simp
    · simp [lookup_cons_ite, hk]
  · simp


/-! ### ancestor chains -/

theorem exportsOf_jobInfo (u : Bool) (anc : List Call) : parentExports (jobInfo u anc) = exportsOf anc := by
  induction anc with
  | nil => rfl
  | cons c t ih =>
    show exportsStep (jobInfo u t) c = exportsOf (c :: t)
    simp only [exportsStep, exportsOf, ih]

theorem jobInfo_exports (u : Bool) (chain : List Call) (j : JobInfo) (h : jobInfo u chain = some j) :
    j.exports = exportsOf chain := by
  have := exportsOf_jobInfo u chain
  rw [h] at this; exact this

theorem jobInfo_wf (u : Bool) (chain : List Call) (h : ∀ c ∈ chain, CallWF c) : InfoWF (jobInfo u chain) := by
  cases chain with
  | nil => trivial
  | cons c t => exact wf_evalOptions _ _ _ (h c List.mem_cons_self)

theorem mem_exportsOf_append (below anc : List Call) (n : String) (h : n ∈ exportsOf anc) :
    n ∈ exportsOf (below ++ anc) := by
  induction below with
  | nil => exact h
  | cons c t ih => simp only [List.cons_append, exportsOf, List.mem_append]; exact Or.inr ih

theorem mem_exportsOf_iff (chain : List Call) (n : String) :
    n ∈ exportsOf chain ↔ ∃ c ∈ chain, n ∈ c.reg.exports ∨ n ∈ c.var.exports := by
  induction chain with
  | nil => simp [exportsOf]
  | cons c t ih =>
    simp only [exportsOf, List.mem_append, ih, List.mem_cons, exists_eq_or_imp]

/-- the evaluated value of option `k` of the job at the head of the chain -/
def effective (u : Bool) (chain : List Call) (k : String) : Option CVal :=
  (jobInfo u chain).bind fun j => j.evalOpts.lookup k

theorem effective_cons (u : Bool) (c : Call) (anc : List Call) (k : String) :
    effective u (c :: anc) k = (evalOptions u (jobInfo u anc) c).lookup k := rfl

theorem lookup_forced_other (u : Bool) (p : Option JobInfo) (k : String) (h1 : k ≠ "cache_scope") (h2 : k ≠ "prov") :
    (forced u p).lookup k = none := by
  rw [lookup_forced]; simp [h1, h2]

theorem lookup_evalOptions_other (u : Bool) (p : Option JobInfo) (c : Call) (k : String) (h1 : k ≠ "cache_scope") :
    (evalOptions u p c).lookup k = ((rawOptions u p c).lookup k).map evalVal := by
  rw [lookup_evalOptions]; simp [h1]

theorem inherit_step (u : Bool) (p : JobInfo) (c : Call) (k : String) (v : CVal) (h1 : k ≠ "cache_scope") (h2 : k ≠ "prov")
    (hc : CallWF c) (hp : WF p.evalOpts) (hex : k ∈ p.exports) (hv : p.evalOpts.lookup k = some v)
    (hno : c.var.over.lookup k = none) : (evalOptions u (some p) c).lookup k = some v := by
  rw [lookup_evalOptions_other _ _ _ _ h1, lookup_rawOptions u (some p) c k hc hp, lookup_forced_other _ _ _ h1 h2, hno,
    lookup_inherited, if_pos hex, hv]
  simp [evalVal_embed]

theorem inherit_chain (u : Bool) (k : String) (h1 : k ≠ "cache_scope") (h2 : k ≠ "prov") (below anc : List Call) (v : CVal)
    (hwf : ∀ c ∈ below ++ anc, CallWF c) (hex : k ∈ exportsOf anc) (hv : effective u anc k = some v)
    (hno : ∀ c ∈ below, c.var.over.lookup k = none) : effective u (below ++ anc) k = some v := by
  induction below with
  | nil => exact hv
  | cons c t ih =>
    have iht := ih (fun x hx => hwf x (List.mem_cons_of_mem _ hx)) (fun x hx => hno x (List.mem_cons_of_mem _ hx))
    rw [List.cons_append, effective_cons]
    unfold effective at iht
    cases hj : jobInfo u (t ++ anc) with
    | none => rw [hj] at iht; simp at iht
    | some p =>
      rw [hj] at iht
      have hpw : WF p.evalOpts := by
        have := jobInfo_wf u (t ++ anc) (fun x hx => hwf x (List.mem_cons_of_mem _ hx))
        rw [hj] at this; exact this
      have hpe : k ∈ p.exports := by
        rw [jobInfo_exports u _ p hj]; exact mem_exportsOf_append t anc k hex
      exact inherit_step u p c k v h1 h2 (hwf c List.mem_cons_self) hpw hpe (by simpa using iht) (hno c List.mem_cons_self)

theorem unexported_step (u : Bool) (p : JobInfo) (c : Call) (k : String) (h1 : k ≠ "cache_scope") (h2 : k ≠ "prov")
    (hc : CallWF c) (hp : WF p.evalOpts) (hk : k ∉ p.exports) :
    (evalOptions u (some p) c).lookup k = (evalOptions true none c).lookup k := by
  rw [lookup_evalOptions_other _ _ _ _ h1, lookup_evalOptions_other _ _ _ _ h1,
    lookup_rawOptions u (some p) c k hc hp, lookup_rawOptions true none c k hc trivial,
    lookup_forced_other _ _ _ h1 h2, lookup_forced_other _ _ _ h1 h2, lookup_inherited, if_neg hk]
  simp [inherited]

/-! ### scheduler-imposed options -/

theorem scope_no_cache (p : Option JobInfo) (c : Call) (hc : CallWF c) (hp : InfoWF p) :
    (evalOptions false p c).lookup "cache_scope" =
      some (if recProv (evalOptions false p c) then scopeC "CSE" else scopeC "NONE") := by
  rw [recProv_evalOptions, lookup_evalOptions]
  cases hr : recProv (mapVals evalVal (rawOptions false p c))
  · simp
  · rw [lookup_rawOptions false p c _ hc hp, lookup_forced]
    simp [evalVal_embed]

theorem prov_off_step (u : Bool) (p : JobInfo) (c : Call) (hc : CallWF c) (hp : WF p.evalOpts)
    (hoff : recProv p.evalOpts = false) :
    (evalOptions u (some p) c).lookup "prov" = some (.bool false) ∧
    (evalOptions u (some p) c).lookup "cache_scope" = some (scopeC "NONE") ∧
    recProv (evalOptions u (some p) c) = false := by
  have hne : ("prov" : String) ≠ "cache_scope" := by decide
  have hraw : (rawOptions u (some p) c).lookup "prov" = some (embed (.bool false)) := by
    rw [lookup_rawOptions u (some p) c _ hc hp, lookup_forced]
    simp [parentOff, hoff, hne]
  have hprov : (mapVals evalVal (rawOptions u (some p) c)).lookup "prov" = some (.bool false) := by
    rw [lookup_mapVals, hraw]; rfl
  have hrec : recProv (mapVals evalVal (rawOptions u (some p) c)) = false := by
    unfold recProv; rw [hprov]; rfl
  refine ⟨?_, ?_, ?_⟩
  · rw [lookup_evalOptions_other _ _ _ _ hne, hraw]; rfl
  · rw [lookup_evalOptions]; simp [hrec]
  · rw [recProv_evalOptions]; exact hrec

theorem prov_off_chain (u : Bool) (below anc : List Call) (p : JobInfo) (hwf : ∀ c ∈ below ++ anc, CallWF c)
    (hp : jobInfo u anc = some p) (hoff : recProv p.evalOpts = false) (hne : below ≠ []) :
    ∃ j, jobInfo u (below ++ anc) = some j ∧ j.evalOpts.lookup "prov" = some (.bool false) ∧
      j.evalOpts.lookup "cache_scope" = some (scopeC "NONE") ∧ recProv j.evalOpts = false := by
  induction below with
  | nil => exact absurd rfl hne
  | cons c t ih =>
    have hc := hwf c List.mem_cons_self
    have hw' : ∀ x ∈ t ++ anc, CallWF x := fun x hx => hwf x (List.mem_cons_of_mem _ hx)
    cases t with
    | nil =>
      have hpw : WF p.evalOpts := by
        have := jobInfo_wf u anc hw'; rw [hp] at this; exact this
      refine ⟨jobStep u (some p) c, by simp only [List.cons_append, List.nil_append, jobInfo, hp], ?_⟩
      exact prov_off_step u p c hc hpw hoff
    | cons c' t' =>
      obtain ⟨j, hj, _, _, hjoff⟩ := ih hw' (by simp)
      have hjw : WF j.evalOpts := by
        have := jobInfo_wf u _ hw'; rw [hj] at this; exact this
      refine ⟨jobStep u (some j) c, by rw [List.cons_append, jobInfo, hj], ?_⟩
      exact prov_off_step u j c hc hjw hjoff

/-! ### trees -/

mutual
theorem walk_chains (u : Bool) (anc : List Call) : (t : JTree) →
    (walk u (jobInfo u anc) t).map (fun ij => (ij.1, some ij.2)) =
      (chainsOf anc t).map (fun ic => (ic.1, jobInfo u ic.2))
  | .node id c ch => by
    simp only [walk, chainsOf, List.map_cons, jobInfo]
    have := walkL_chains u (c :: anc) ch
    simp only [jobInfo] at this
    rw [this]
theorem walkL_chains (u : Bool) (anc : List Call) : (ts : List JTree) →
    (walkL u (jobInfo u anc) ts).map (fun ij => (ij.1, some ij.2)) =
      (chainsOfL anc ts).map (fun ic => (ic.1, jobInfo u ic.2))
  | [] => rfl
  | t :: ts => by
    simp only [walkL, chainsOfL, List.map_append, walk_chains u anc t, walkL_chains u anc ts]
end

mutual
theorem chains_parent (anc : List Call) : (t : JTree) → ∀ e ∈ chainsOf anc t,
    ∃ c rest, e.2 = c :: rest ∧ (rest = anc ∨ ∃ e' ∈ chainsOf anc t, e'.2 = rest)
  | .node id c ch => by
    intro e he
    simp only [chainsOf, List.mem_cons] at he
    rcases he with he | he
    · exact ⟨c, anc, by rw [he], Or.inl rfl⟩
    · obtain ⟨c', rest, h1, h2⟩ := chainsL_parent (c :: anc) ch e he
      refine ⟨c', rest, h1, Or.inr ?_⟩
      rcases h2 with h2 | ⟨e', he', h3⟩
      · exact ⟨(id, c :: anc), by simp [chainsOf], h2.symm⟩
      · exact ⟨e', by simp only [chainsOf, List.mem_cons]; exact Or.inr he', h3⟩
theorem chainsL_parent (anc : List Call) : (ts : List JTree) → ∀ e ∈ chainsOfL anc ts,
    ∃ c rest, e.2 = c :: rest ∧ (rest = anc ∨ ∃ e' ∈ chainsOfL anc ts, e'.2 = rest)
  | [] => by intro e he; simp [chainsOfL] at he
  | t :: ts => by
    intro e he
    simp only [chainsOfL, List.mem_append] at he
    rcases he with he | he
    · obtain ⟨c', rest, h1, h2⟩ := chains_parent anc t e he
      refine ⟨c', rest, h1, ?_⟩
      rcases h2 with h2 | ⟨e', he', h3⟩
      · exact Or.inl h2
      · exact Or.inr ⟨e', by simp only [chainsOfL, List.mem_append]; exact Or.inl he', h3⟩
    · obtain ⟨c', rest, h1, h2⟩ := chainsL_parent anc ts e he
      refine ⟨c', rest, h1, ?_⟩
      rcases h2 with h2 | ⟨e', he', h3⟩
      · exact Or.inl h2
      · exact Or.inr ⟨e', by simp only [chainsOfL, List.mem_append]; exact Or.inr he', h3⟩
end


/-! ### task construction -/

theorem wf_dpop (k : String) (d : Dict α) (h : WF d) : WF (dpop k d) := wf_filter _ _ h

theorem normCache_wf {d d' : Dict Val} (h : WF d) (hn : normCache d = .ok d') : WF d' := by
  unfold normCache at hn
  split at hn
  · split at hn
    · cases hn; exact wf_dset _ _ _ (wf_dpop _ _ h)
    · cases hn
  · cases hn; exact h

theorem normEnum_wf {key cls : String} {members : List String} {d d' : Dict Val} (h : WF d)
    (hn : normEnum key cls members d = .ok d') : WF d' := by
  unfold normEnum at hn
  split at hn
  · split at hn
    · cases hn; exact wf_dset _ _ _ h
    · cases hn
  · cases hn; exact h

theorem bind_ok {ε α β : Type} {x : Except ε α} {f : α → Except ε β} {b : β} (h : x >>= f = .ok b) :
    ∃ a, x = .ok a ∧ f a = .ok b := by
  cases x with
  | error e => cases h
  | ok a => exact ⟨a, rfl, h⟩

theorem normalize_wf {d d' : Dict Val} (h : WF d) (hn : normalize d = .ok d') : WF d' := by
  unfold normalize at hn
  obtain ⟨d2, h2, h3⟩ := bind_ok hn
  obtain ⟨d1, h1, h2⟩ := bind_ok h2
  exact normEnum_wf (normEnum_wf (normCache_wf h h1) h2) h3

theorem validate_ok {t t' : TaskV} (h : validate t = .ok t') :
    ∃ b o, normalize t.base = .ok b ∧ normalize t.over = .ok o ∧ t'.base = b ∧ t'.over = o ∧
      t'.exports = if hasKey "prov" b || hasKey "prov" o then t.exports ++ ["prov"] else t.exports := by
  unfold validate at h
  obtain ⟨b, hb, h⟩ := bind_ok h
  obtain ⟨o, ho, h⟩ := bind_ok h
  cases h
  exact ⟨b, o, hb, ho, rfl, rfl, rfl⟩

theorem validate_wf {t t' : TaskV} (hb : WF t.base) (ho : WF t.over) (h : validate t = .ok t') :
    WF t'.base ∧ WF t'.over := by
  obtain ⟨b, o, h1, h2, e1, e2, _⟩ := validate_ok h
  exact ⟨e1 ▸ normalize_wf hb h1, e2 ▸ normalize_wf ho h2⟩

theorem validate_exports {t t' : TaskV} (h : validate t = .ok t') :
    (∀ n ∈ t.exports, n ∈ t'.exports) ∧ (∀ n ∈ t'.exports, n ∈ t.exports ∨ n = "prov") := by
  obtain ⟨b, o, _, _, _, _, e⟩ := validate_ok h
  rw [e]
  split
  · exact ⟨fun n hn => List.mem_append_left _ hn, fun n hn => by simpa using hn⟩
  · exact ⟨fun n hn => hn, fun n hn => Or.inl hn⟩

theorem exportOptions_exports {t t' : TaskV} {upd : Dict Val} (h : t.exportOptions upd = .ok t') :
    (∀ n ∈ t.exports, n ∈ t'.exports) ∧ (∀ n ∈ keys upd, n ∈ t'.exports) := by
  unfold TaskV.exportOptions at h
  have := (validate_exports h).1
  simp only at this
  constructor
  · intro n hn
    apply this
    split <;> simp [hn]
  · intro n hn
    apply this
    split <;> simp [hn]

theorem options_exports {t t' : TaskV} {upd : Dict Val} (h : t.options upd = .ok t') :
    ∀ n ∈ t'.exports, n = "prov" := by
  unfold TaskV.options at h
  intro n hn
  rcases (validate_exports h).2 n hn with h | h
  · simp at h
  · exact h

theorem applyOp_wf {reg t t' : TaskV} {op : TaskOp} (hr : WF reg.base) (hb : WF t.base) (ho : WF t.over)
    (h : applyOp reg t op = .ok t') : WF t'.base ∧ WF t'.over := by
  cases op with
  | options u => exact validate_wf (t := ⟨t.base, dmerge t.over u, []⟩) hb (wf_dmerge _ _ ho) h
  | exportOptions u =>
    unfold applyOp TaskV.exportOptions at h
    exact validate_wf (t := ⟨t.base, dmerge t.over u, _⟩) hb (wf_dmerge _ _ ho) h
  | roundtrip =>
    unfold applyOp TaskV.roundtrip at h
    exact validate_wf (t := ⟨reg.base, t.over, t.exports⟩) hr ho h

theorem applyOps_wf {reg t t' : TaskV} {ops : List TaskOp} (hr : WF reg.base) (hb : WF t.base) (ho : WF t.over)
    (h : applyOps reg t ops = .ok t') : WF t'.base ∧ WF t'.over := by
  induction ops generalizing t with
  | nil => cases h; exact ⟨hb, ho⟩
  | cons op ops ih =>
    unfold applyOps at h
    obtain ⟨t1, h1, h2⟩ := bind_ok h
    have := applyOp_wf hr hb ho h1
    exact ih this.1 this.2 h2

theorem roundtrip_exports {reg t t' : TaskV} (h : t.roundtrip reg = .ok t') :
    (∀ n ∈ t.exports, n ∈ t'.exports) ∧ (∀ n ∈ t'.exports, n ∈ t.exports ∨ n = "prov") := by
  unfold TaskV.roundtrip at h
  exact validate_exports (t := ⟨reg.base, t.over, t.exports⟩) h

theorem mkTask_wf {opts defExport : Dict Val} {t : TaskV} (ho : WF opts) (h : mkTask opts defExport = .ok t) :
    WF t.base ∧ WF t.over := by
  unfold mkTask at h
  split at h
  · exact validate_wf (t := ⟨opts, [], []⟩) ho (by simp [WF, keys]) h
  · exact validate_wf (t := ⟨dmerge opts defExport, [], keys defExport⟩) (wf_dmerge _ _ ho) (by simp [WF, keys]) h

/-! ### re-validation is idempotent (pickle round trip of a task value) -/

theorem dset_same (k : String) (v : α) (d : Dict α) (h : d.lookup k = some v) : dset k v d = d := by
  induction d with
  | nil => simp at h
  | cons kv t ih =>
    obtain ⟨k0, v0⟩ := kv
    rw [lookup_cons_ite] at h
    simp only [dset]
    by_cases hk : k = k0
    · subst hk; simp at h; subst h; simp
    · have : ¬ k0 = k := fun e => hk e.symm
      simp only [this, if_false]
      rw [ih (by simpa [hk] using h)]

theorem coerceEnum_idem {cls : String} {members : List String} {v e : Val} (h : coerceEnum cls members v = .ok e) :
    coerceEnum cls members e = .ok e := by
  cases v <;> simp only [coerceEnum] at h <;> try cases h
  · split at h
    · cases h; simp [coerceEnum]
    · cases h
  · split at h
    · rename_i hc; cases h; simp [coerceEnum, hc]
    · cases h

/-- a second pass of one enum step changes nothing -/
theorem normEnum_idem {key cls : String} {members : List String} {d d' : Dict Val}
    (h : normEnum key cls members d = .ok d') : normEnum key cls members d' = .ok d' := by
  unfold normEnum at h
  split at h
  · rename_i v hv
    split at h
    · rename_i e he
      cases h
      have hl : (dset key e d).lookup key = some e := by rw [lookup_dset]; simp
      unfold normEnum
      rw [hl]; simp only [coerceEnum_idem he]
      rw [dset_same _ _ _ hl]
    · cases h
  · rename_i hv
    cases h
    unfold normEnum; rw [hv]

/-- the value under `key`, if any, is already a member of the enum class -/
def Normed (key cls : String) (members : List String) (d : Dict Val) : Prop :=
  ∀ v, d.lookup key = some v → coerceEnum cls members v = .ok v

theorem normEnum_of_normed {key cls : String} {members : List String} {d : Dict Val} (h : Normed key cls members d) :
    normEnum key cls members d = .ok d := by
  unfold normEnum
  cases hv : d.lookup key with
  | none => rfl
  | some v => simp only [h v hv, dset_same _ _ _ hv]

theorem normed_normEnum {key cls : String} {members : List String} {d d' : Dict Val}
    (h : normEnum key cls members d = .ok d') : Normed key cls members d' := by
  intro v hv
  unfold normEnum at h
  split at h
  · split at h
    · rename_i e he
      cases h
      rw [lookup_dset] at hv; simp at hv; subst hv
      exact coerceEnum_idem he
    · cases h
  · rename_i hn; cases h; rw [hn] at hv; cases hv

theorem lookup_normEnum_other {key cls k : String} {members : List String} {d d' : Dict Val} (hk : k ≠ key)
    (h : normEnum key cls members d = .ok d') : d'.lookup k = d.lookup k := by
  unfold normEnum at h
  split at h
  · split at h
    · cases h; rw [lookup_dset]; simp [hk]
    · cases h
  · cases h; rfl

theorem lookup_dpop (k k' : String) (d : Dict α) : (dpop k' d).lookup k = if k = k' then none else d.lookup k := by
  unfold dpop
  have := lookup_filter_key (fun x => x != k') k d
  rw [this]
  by_cases h : k = k' <;> simp [h]

theorem nocache_normCache {d d' : Dict Val} (h : normCache d = .ok d') : d'.lookup "cache" = none := by
  unfold normCache at h
  split at h
  · split at h
    · cases h; rw [lookup_dset, lookup_dpop]; simp
    · cases h
  · rename_i hn; cases h; exact hn

theorem normCache_of_nocache {d : Dict Val} (h : d.lookup "cache" = none) : normCache d = .ok d := by
  unfold normCache; rw [h]

/-- `Task._validate` is idempotent on an options dict: validating an already validated dict changes nothing
(so a pickle round trip, which re-validates, keeps the call-time options exactly). -/
theorem normalize_idem {d d' : Dict Val} (h : normalize d = .ok d') : normalize d' = .ok d' := by
  unfold normalize at h
  obtain ⟨d2, h2, h3⟩ := bind_ok h
  obtain ⟨d1, h1, h2⟩ := bind_ok h2
  have c1 := nocache_normCache h1
  have c' : d'.lookup "cache" = none := by
    rw [lookup_normEnum_other (by decide) h3, lookup_normEnum_other (by decide) h2]; exact c1
  have s' : Normed "cache_scope" "CacheScope" scopeMembers d' := by
    intro v hv
    rw [lookup_normEnum_other (by decide) h3] at hv
    exact normed_normEnum h2 v hv
  have v' := normed_normEnum h3
  unfold normalize
  rw [normCache_of_nocache c']
  show (normEnum "cache_scope" "CacheScope" scopeMembers d' >>= _) = _
  rw [normEnum_of_normed s']
  exact normEnum_of_normed v'

end RedunModel.Options
