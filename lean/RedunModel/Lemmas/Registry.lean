/-
Helper lemmas for C37: dict primitives, the registry invariant `Inv` and its preservation by every
registry operation, name arithmetic for `wraps_task`.
-/
import RedunModel.Model.Registry
namespace RedunModel.Registry

/-- number of registered tasks whose hash is `h` -/
def occ (h : H) (l : List (String × Task)) : Nat := (l.filter fun p => p.2.hash = h).length

/-- `_task_hash_counts[h]` read without inserting (absent = 0) -/
def cnt (h : H) (c : List (H × Nat)) : Nat := (lookup h c).getD 0

structure Inv (r : Reg) : Prop where
  keysNodup : (r.tasks.map (·.1)).Nodup
  keyFull : ∀ p ∈ r.tasks, p.1 = p.2.fullname
  exact : ∀ h, cnt h r.counts = occ h r.tasks
  pos : ∀ p ∈ r.counts, 1 ≤ p.2

section dict
variable {β : Type}

theorem lookup_erase_self (k : String) (l : List (String × β)) : lookup k (erase k l) = none := by
  induction l with
  | nil => rfl
  | cons p rest ih =>
    obtain ⟨k', v⟩ := p
    by_cases h : k' = k <;> simp [erase, lookup, h, ih]

theorem lookup_erase_ne {k k' : String} (hne : k' ≠ k) (l : List (String × β)) :
    lookup k' (erase k l) = lookup k' l := by
  induction l with
  | nil => rfl
  | cons p rest ih =>
    obtain ⟨k2, v⟩ := p
    by_cases h : k2 = k
    · subst h
      have : ¬ k2 = k' := fun e => hne e.symm
      simp [erase, lookup, ih, this]
    · by_cases h2 : k2 = k'
      · subst h2; simp [erase, lookup, h]
      · simp [erase, lookup, h, h2, ih]

theorem lookup_setKey_self (k : String) (v : β) (l : List (String × β)) :
    lookup k (setKey k v l) = some v := by
  induction l with
  | nil => simp [setKey, lookup]
  | cons p rest ih =>
    obtain ⟨k', v'⟩ := p
    by_cases h : k' = k <;> simp [setKey, lookup, h, ih]

theorem lookup_setKey_ne {k k' : String} (hne : k' ≠ k) (v : β) (l : List (String × β)) :
    lookup k' (setKey k v l) = lookup k' l := by
  induction l with
  | nil =>
    have : ¬ k = k' := fun e => hne e.symm
    simp [setKey, lookup, this]
  | cons p rest ih =>
    obtain ⟨k2, v2⟩ := p
    by_cases h : k2 = k
    · subst h
      have : ¬ k2 = k' := fun e => hne e.symm
      simp [setKey, lookup, this]
    · by_cases h2 : k2 = k'
      · subst h2; simp [setKey, lookup, h]
      · simp [setKey, lookup, h, h2, ih]

theorem mem_erase {k : String} {l : List (String × β)} {p : String × β} :
    p ∈ erase k l ↔ p ∈ l ∧ p.1 ≠ k := by
  induction l with
  | nil => simp [erase]
  | cons q rest ih =>
    obtain ⟨k', v⟩ := q
    by_cases h : k' = k
    · subst h
      simp only [erase, if_true, ih, List.mem_cons]
      constructor
      · rintro ⟨h1, h2⟩; exact ⟨Or.inr h1, h2⟩
      · rintro ⟨h1 | h1, h2⟩
        · subst h1; exact absurd rfl h2
        · exact ⟨h1, h2⟩
    · simp only [erase, h, if_false, List.mem_cons, ih]
      constructor
      · rintro (h1 | ⟨h1, h2⟩)
        · subst h1; exact ⟨Or.inl rfl, h⟩
        · exact ⟨Or.inr h1, h2⟩
      · rintro ⟨h1 | h1, h2⟩
        · exact Or.inl h1
        · exact Or.inr ⟨h1, h2⟩

theorem mem_setKey {k : String} {v : β} {l : List (String × β)} {p : String × β}
    (h : p ∈ setKey k v l) : p = (k, v) ∨ p ∈ l := by
  induction l with
  | nil => simp [setKey] at h; exact Or.inl h
  | cons q rest ih =>
    obtain ⟨k', v'⟩ := q
    by_cases hk : k' = k
    · simp [setKey, hk] at h
      rcases h with h | h
      · exact Or.inl h
      · exact Or.inr (List.mem_cons_of_mem _ h)
    · simp [setKey, hk] at h
      rcases h with h | h
      · exact Or.inr (by rw [h]; exact List.mem_cons_self)
      · rcases ih h with h | h
        · exact Or.inl h
        · exact Or.inr (List.mem_cons_of_mem _ h)

theorem lookup_mem {k : String} {v : β} {l : List (String × β)} (h : lookup k l = some v) : (k, v) ∈ l := by
  induction l with
  | nil => simp [lookup] at h
  | cons q rest ih =>
    obtain ⟨k', v'⟩ := q
    by_cases hk : k' = k
    · simp [lookup, hk] at h; subst hk; subst h; exact List.mem_cons_self
    · simp [lookup, hk] at h; exact List.mem_cons_of_mem _ (ih h)

theorem lookup_none_iff {k : String} {l : List (String × β)} : lookup k l = none ↔ k ∉ l.map (·.1) := by
  induction l with
  | nil => simp [lookup]
  | cons q rest ih =>
    obtain ⟨k', v'⟩ := q
    by_cases hk : k' = k
    · simp [lookup, hk]
    · have : ¬ k = k' := fun e => hk e.symm
      simp [lookup, hk, ih, this]

theorem erase_of_lookup_none {k : String} {l : List (String × β)} (h : lookup k l = none) : erase k l = l := by
  induction l with
  | nil => rfl
  | cons q rest ih =>
    obtain ⟨k', v'⟩ := q
    by_cases hk : k' = k
    · simp [lookup, hk] at h
    · simp [lookup, hk] at h; simp [erase, hk, ih h]

theorem keys_erase_sublist (k : String) (l : List (String × β)) :
    ((erase k l).map (·.1)).Sublist (l.map (·.1)) := by
  induction l with
  | nil => simp [erase]
  | cons q rest ih =>
    obtain ⟨k', v'⟩ := q
    by_cases hk : k' = k
    · simp only [erase, hk, if_true, List.map_cons]; exact List.Sublist.cons _ (hk ▸ ih)
    · simp only [erase, hk, if_false, List.map_cons]; exact List.Sublist.cons_cons _ ih

theorem key_not_mem_erase (k : String) (l : List (String × β)) : k ∉ (erase k l).map (·.1) := by
  rw [← lookup_none_iff]; exact lookup_erase_self k l

end dict

/-! ### counts -/

theorem cnt_decr (h h' : H) (c : List (H × Nat)) :
    cnt h' (decr h c) = if h' = h then cnt h c - 1 else cnt h' c := by
  unfold decr
  cases hl : lookup h c with
  | none =>
    by_cases e : h' = h
    · subst e; simp [cnt, hl]
    · simp [e]
  | some n =>
    by_cases e : h' = h
    · subst e
      by_cases h1 : n = 1
      · simp [h1, cnt, lookup_erase_self, hl]
      · simp [h1, cnt, lookup_setKey_self, hl]
    · by_cases h1 : n = 1
      · simp [h1, e, cnt, lookup_erase_ne e]
      · simp [h1, e, cnt, lookup_setKey_ne e]

theorem cnt_incr (h h' : H) (c : List (H × Nat)) :
    cnt h' (incr h c) = if h' = h then cnt h c + 1 else cnt h' c := by
  unfold incr
  cases hl : lookup h c with
  | none =>
    by_cases e : h' = h
    · subst e; simp [cnt, lookup_setKey_self, hl]
    · simp [e, cnt, lookup_setKey_ne e]
  | some n =>
    by_cases e : h' = h
    · subst e; simp [cnt, lookup_setKey_self, hl]
    · simp [e, cnt, lookup_setKey_ne e]

theorem pos_decr (h : H) (c : List (H × Nat)) (hp : ∀ p ∈ c, 1 ≤ p.2) : ∀ p ∈ decr h c, 1 ≤ p.2 := by
  unfold decr
  cases hl : lookup h c with
  | none => exact hp
  | some n =>
    have hn : 1 ≤ n := hp _ (lookup_mem hl)
    by_cases h1 : n = 1
    · simp only [h1, if_true]
      intro p hpm; exact hp p (mem_erase.mp hpm).1
    · simp only [h1, if_false]
      intro p hpm
      rcases mem_setKey hpm with e | e
      · subst e; show 1 ≤ n - 1; omega
      · exact hp p e

theorem pos_incr (h : H) (c : List (H × Nat)) (hp : ∀ p ∈ c, 1 ≤ p.2) : ∀ p ∈ incr h c, 1 ≤ p.2 := by
  unfold incr
  cases hl : lookup h c with
  | none =>
    intro p hpm
    rcases mem_setKey hpm with e | e
    · subst e; exact Nat.le_refl 1
    · exact hp p e
  | some n =>
    intro p hpm
    rcases mem_setKey hpm with e | e
    · subst e; show 1 ≤ n + 1; omega
    · exact hp p e

/-! ### occurrences -/

theorem occ_append (h : H) (a b : List (String × Task)) : occ h (a ++ b) = occ h a + occ h b := by
  simp [occ, List.filter_append]

theorem occ_erase (h : H) (k : String) (l : List (String × Task)) (nd : (l.map (·.1)).Nodup) :
    occ h (erase k l) + (match lookup k l with
      | some t => if t.hash = h then 1 else 0
      | none => 0) = occ h l := by
  induction l with
  | nil => simp [erase, lookup, occ]
  | cons q rest ih =>
    obtain ⟨k', t⟩ := q
    simp only [List.map_cons, List.nodup_cons] at nd
    by_cases hk : k' = k
    · subst hk
      have hn : lookup k' rest = none := lookup_none_iff.mpr nd.1
      have he : erase k' rest = rest := erase_of_lookup_none hn
      simp only [erase, if_true, lookup, he]
      by_cases hh : t.hash = h <;> simp [occ, hh]
    · have := ih nd.2
      simp only [erase, hk, if_false, lookup]
      by_cases hh : t.hash = h
      · simp only [occ, List.filter_cons, hh, decide_true, if_true, List.length_cons] at this ⊢
        omega
      · simp only [occ, List.filter_cons, hh, decide_false] at this ⊢
        simpa using this

/-! ### the registry operations preserve the invariant -/

theorem inv_empty : Inv Reg.empty :=
  ⟨by simp [Reg.empty], by simp [Reg.empty], by intro h; simp [Reg.empty, cnt, occ, lookup], by simp [Reg.empty]⟩

theorem add_inv (t : Task) (r : Reg) (hi : Inv r) : Inv (add t r) := by
  obtain ⟨nd, kf, ex, pos⟩ := hi
  refine ⟨?_, ?_, ?_, ?_⟩
  · simp only [add, List.map_append, List.map_cons, List.map_nil]
    rw [List.nodup_append]
    refine ⟨(keys_erase_sublist _ _).nodup nd, by simp, ?_⟩
    intro a ha b hb
    simp at hb; subst hb
    intro e; subst e
    exact key_not_mem_erase _ _ ha
  · intro p hp
    simp only [add, List.mem_append, List.mem_singleton] at hp
    rcases hp with hp | hp
    · exact kf p (mem_erase.mp hp).1
    · subst hp; rfl
  · intro h
    have hoe := occ_erase h t.fullname r.tasks nd
    have hs : occ h [(t.fullname, t)] = if t.hash = h then 1 else 0 := by
      by_cases e : t.hash = h <;> simp [occ, e]
    simp only [add, occ_append]
    rw [cnt_incr, hs]
    have h1 := ex h
    have h4 := ex t.hash
    cases hl : lookup t.fullname r.tasks with
    | none =>
      rw [hl] at hoe
      simp only [] at hoe ⊢
      by_cases e : h = t.hash
      · subst e; rw [if_pos rfl, if_pos rfl]; omega
      · have e' : ¬ t.hash = h := fun x => e x.symm
        rw [if_neg e, if_neg e']; omega
    | some old =>
      rw [hl] at hoe
      simp only [] at hoe ⊢
      have h2 := cnt_decr old.hash h r.counts
      have h3 := cnt_decr old.hash t.hash r.counts
      by_cases e : h = t.hash
      · subst e
        rw [if_pos rfl, if_pos rfl]
        by_cases e2 : old.hash = t.hash
        · rw [e2] at hoe h3 ⊢; simp only [↓reduceIte] at hoe h3; omega
        · have e2' : ¬ t.hash = old.hash := fun x => e2 x.symm
          simp only [e2, e2', ↓reduceIte] at hoe h3; omega
      · have e' : ¬ t.hash = h := fun x => e x.symm
        rw [if_neg e, if_neg e']
        by_cases e2 : old.hash = h
        · rw [e2] at hoe h2 ⊢; simp only [↓reduceIte] at hoe h2; omega
        · have e2' : ¬ h = old.hash := fun x => e2 x.symm
          simp only [e2, e2', ↓reduceIte] at hoe h2; omega
  · simp only [add]
    apply pos_incr
    cases lookup t.fullname r.tasks with
    | none => exact pos
    | some old => exact pos_decr _ _ pos

theorem erase_decr_inv (old : String) (t : Task) (r : Reg) (hi : Inv r) (hl : lookup old r.tasks = some t) :
    Inv ⟨erase old r.tasks, decr t.hash r.counts⟩ := by
  obtain ⟨nd, kf, ex, pos⟩ := hi
  refine ⟨(keys_erase_sublist _ _).nodup nd, fun p hp => kf p (mem_erase.mp hp).1, ?_, pos_decr _ _ pos⟩
  intro h
  have hoe := occ_erase h old r.tasks nd
  rw [hl] at hoe
  simp only [] at hoe ⊢
  rw [cnt_decr]
  have h1 := ex h
  by_cases e : h = t.hash
  · subst e; simp only [↓reduceIte] at hoe ⊢; omega
  · have e' : ¬ t.hash = h := fun x => e x.symm
    simp only [e, e', ↓reduceIte] at hoe ⊢; omega

theorem rename_inv (old ns name : String) (r r' : Reg) (t' : Task) (hi : Inv r)
    (h : rename old ns name r = .ok (t', r')) : Inv r' := by
  unfold rename at h
  cases hl : lookup old r.tasks with
  | none => rw [hl] at h; simp at h
  | some t =>
    rw [hl] at h
    simp only [Except.ok.injEq, Prod.mk.injEq] at h
    rw [← h.2]
    exact add_inv _ _ (erase_decr_inv old t r hi hl)

theorem occ_map_setWrapped (h : H) (oid : Nat) (p : String) (l : List (String × Task)) :
    occ h (l.map fun (k, t) => if t.oid = oid then (k, { t with wrapped := some p }) else (k, t)) = occ h l := by
  induction l with
  | nil => rfl
  | cons q rest ih =>
    obtain ⟨k, t⟩ := q
    simp only [occ, List.map_cons, List.filter_cons] at ih ⊢
    by_cases e : t.oid = oid <;> by_cases e2 : t.hash = h <;> simp [e, e2, ih]

theorem setWrapped_inv (oid : Nat) (p : String) (r : Reg) (hi : Inv r) : Inv (setWrapped oid p r) := by
  obtain ⟨nd, kf, ex, pos⟩ := hi
  refine ⟨?_, ?_, ?_, pos⟩
  · have : (setWrapped oid p r).tasks.map (·.1) = r.tasks.map (·.1) := by
      simp only [setWrapped, List.map_map]
      apply List.map_congr_left
      intro q _
      obtain ⟨k, t⟩ := q
      by_cases e : t.oid = oid <;> simp [e]
    rw [this]; exact nd
  · intro q hq
    simp only [setWrapped, List.mem_map] at hq
    obtain ⟨⟨k, t⟩, hm, he⟩ := hq
    have := kf _ hm
    by_cases e : t.oid = oid
    · simp only [e, if_true] at he; rw [← he]; simpa [Task.fullname] using this
    · simp only [e, if_false] at he; rw [← he]; exact this
  · intro h
    simp only [setWrapped]
    rw [occ_map_setWrapped]; exact ex h

theorem recursiveRename_inv (fuel : Nat) : ∀ (t : Task) (suffix : String) (r : Reg), Inv r →
    Inv (recursiveRename fuel t suffix r).1 := by
  induction fuel with
  | zero => intro t s r hi; simpa [recursiveRename] using hi
  | succ n ih =>
    intro t s r hi
    unfold recursiveRename
    cases hw : t.wrapped with
    | none =>
      simp only []
      cases hr : rename t.fullname (if t.ns ≠ "" then t.ns ++ "." ++ s else s) t.name r with
      | error e => simpa using hi
      | ok v => obtain ⟨t', r2⟩ := v; simpa using rename_inv _ _ _ _ _ _ hi hr
    | some w =>
      simp only []
      cases hg : get w r with
      | none => simpa using hi
      | some it =>
        simp only []
        have hin := ih it s r hi
        cases hrr : recursiveRename n it s r with
        | mk r' res =>
          rw [hrr] at hin
          cases res with
          | error e => simpa using hin
          | ok p =>
            simp only []
            have h2 := setWrapped_inv t.oid p r' hin
            cases hr : rename t.fullname (if t.ns ≠ "" then t.ns ++ "." ++ s else s) t.name (setWrapped t.oid p r') with
            | error e => simpa using h2
            | ok v => obtain ⟨t', r2⟩ := v; simpa using rename_inv _ _ _ _ _ _ h2 hr

theorem wrap_inv (t : Task) (w : String) (woid : Nat) (wh : H → H) (r : Reg) (hi : Inv r) :
    Inv (wrap t w woid wh r).1 := by
  unfold wrap
  have h1 := recursiveRename_inv (r.tasks.length + 1) t w r hi
  cases hrr : recursiveRename (r.tasks.length + 1) t w r with
  | mk r1 res =>
    rw [hrr] at h1
    cases res with
    | error e => simpa using h1
    | ok p => simp only []; exact add_inv _ _ h1

theorem step_inv (r : Reg) (op : Op) (hi : Inv r) : Inv (step r op) := by
  cases op with
  | define t => exact add_inv t r hi
  | rename o ns n =>
    simp only [step]
    cases hr : rename o ns n r with
    | error e => simpa using hi
    | ok v => obtain ⟨t', r'⟩ := v; simpa using rename_inv _ _ _ _ _ _ hi hr
  | wrap target w woid wh =>
    simp only [step]
    cases hg : get target r with
    | none => simpa using hi
    | some t => simpa using wrap_inv t w woid wh r hi
  | getName n => exact hi
  | getHash h => exact hi
  | iterate => exact hi

/-- under the invariant, the by-hash lookup misses exactly the hashes whose count is zero (absent) -/
theorem getByHash_none_iff (r : Reg) (hi : Inv r) (h : H) : getByHash h r = none ↔ cnt h r.counts = 0 := by
  rw [hi.exact h]
  simp only [getByHash, Option.map_eq_none_iff, List.find?_eq_none, occ, List.length_eq_zero_iff, List.filter_eq_nil_iff]
  constructor
  · intro hh p hp; simpa using hh p hp
  · intro hh p hp; simpa using hh p hp

theorem getByHash_some (r : Reg) (h : H) (t : Task) (hs : getByHash h r = some t) :
    t.hash = h ∧ ∃ k, (k, t) ∈ r.tasks := by
  simp only [getByHash, Option.map_eq_some_iff] at hs
  obtain ⟨p, hp, rfl⟩ := hs
  have h1 := List.find?_some hp
  have h2 := List.mem_of_find?_eq_some hp
  exact ⟨by simpa using h1, p.1, h2⟩

theorem foldl_inv (ops : List Op) : ∀ r, Inv r → Inv (ops.foldl step r) := by
  induction ops with
  | nil => intro r hi; exact hi
  | cons op rest ih => intro r hi; exact ih _ (step_inv r op hi)

theorem run_inv (ops : List Op) : Inv (run ops) := foldl_inv ops _ inv_empty

/-- with unique keys, membership and lookup agree -/
theorem lookup_of_mem {β : Type} {k : String} {v : β} {l : List (String × β)} (nd : (l.map (·.1)).Nodup)
    (h : (k, v) ∈ l) : lookup k l = some v := by
  induction l with
  | nil => simp at h
  | cons q rest ih =>
    obtain ⟨k', v'⟩ := q
    simp only [List.map_cons, List.nodup_cons] at nd
    rcases List.mem_cons.mp h with e | e
    · simp only [Prod.mk.injEq] at e; simp [lookup, e.1, e.2]
    · have : k' ≠ k := by
        intro ek; subst ek
        exact nd.1 (List.mem_map.mpr ⟨(k', v), e, rfl⟩)
      simp [lookup, this, ih nd.2 e]

/-! ### names and the computation of `recursive_rename` on plain / once-wrapped tasks -/

theorem lookup_append {β : Type} (k : String) (a b : List (String × β)) :
    lookup k (a ++ b) = match lookup k a with | some v => some v | none => lookup k b := by
  induction a with
  | nil => simp [lookup]
  | cons q rest ih =>
    obtain ⟨k', v⟩ := q
    by_cases h : k' = k <;> simp [lookup, h, ih]

/-- the hidden name differs from the visible one -/
theorem hidden_ne_visible (ns name w : String) (hw : w ≠ "") :
    fullname (if ns ≠ "" then ns ++ "." ++ w else w) name ≠ fullname ns name := by
  intro h
  have hl := congrArg String.length h
  by_cases e : ns = ""
  · subst e
    simp [fullname, hw, String.length_append] at hl
  · have : ns ++ "." ++ w ≠ "" := by
      intro h2
      have := congrArg String.length h2
      simp [String.length_append] at this
    simp only [fullname, e, this, if_false, ne_eq, not_false_eq_true, if_true, String.length_append] at hl
    have h1 : ("." : String).length = 1 := by decide
    omega

theorem get_add_self (t : Task) (r : Reg) : get t.fullname (add t r) = some t := by
  simp [get, add, lookup_append, lookup_erase_self, lookup]

theorem get_add_ne (t : Task) (r : Reg) (k : String) (h : k ≠ t.fullname) : get k (add t r) = get k r := by
  have h' : ¬ t.fullname = k := fun e => h e.symm
  simp only [get, add, lookup_append, lookup_erase_ne h, lookup, h', if_false]
  cases lookup k r.tasks <;> rfl

/-- `namespace.suffix` as computed by `recursive_rename` -/
def sfx (ns w : String) : String := if ns ≠ "" then ns ++ "." ++ w else w

theorem fullname_length (ns name : String) :
    (fullname ns name).length = if ns = "" then name.length else ns.length + 1 + name.length := by
  have h1 : (".": String).length = 1 := by decide
  by_cases e : ns = "" <;> simp [fullname, e, String.length_append, h1]

theorem sfx_length (ns w : String) : (sfx ns w).length = if ns = "" then w.length else ns.length + 1 + w.length := by
  have h1 : (".": String).length = 1 := by decide
  by_cases e : ns = "" <;> simp [sfx, e, String.length_append, h1]

theorem sfx_ne_empty (ns w : String) (hw : w ≠ "") : sfx ns w ≠ "" := by
  intro h
  have := congrArg String.length h
  rw [sfx_length] at this
  by_cases e : ns = ""
  · simp [e] at this; exact hw this
  · simp [e] at this

theorem get_setWrapped (k : String) (oid : Nat) (p : String) (r : Reg) :
    get k (setWrapped oid p r) = (get k r).map (fun t => if t.oid = oid then { t with wrapped := some p } else t) := by
  simp only [get, setWrapped]
  induction r.tasks with
  | nil => rfl
  | cons q rest ih =>
    obtain ⟨k', t⟩ := q
    by_cases h : k' = k <;> by_cases e : t.oid = oid <;> simp [lookup, h, e, ih]

theorem fullname_sfx_length (ns name w : String) (hw : w ≠ "") :
    (fullname (sfx ns w) name).length = (fullname ns name).length + w.length + 1 := by
  have hne := sfx_ne_empty ns w hw
  rw [fullname_length, fullname_length, sfx_length]
  by_cases e : ns = ""
  · subst e; simp [hne]; omega
  · simp [e, hne]; omega

/-- hiding a registered plain task: the computation of `recursive_rename` -/
theorem recursiveRename_plain (fuel : Nat) (r : Reg) (t : Task) (w : String)
    (hreg : get t.fullname r = some t) (hplain : t.wrapped = none) :
    recursiveRename (fuel + 1) t w r =
      (add { t with ns := sfx t.ns w } ⟨erase t.fullname r.tasks, decr t.hash r.counts⟩,
       .ok (fullname (sfx t.ns w) t.name)) := by
  simp only [get] at hreg
  simp only [recursiveRename, hplain, rename, hreg, sfx]
  rfl

theorem recursiveRename_wrapped (fuel : Nat) (r r' : Reg) (t it : Task) (w p q : String)
    (hw : t.wrapped = some p) (hg : get p r = some it) (hin : recursiveRename fuel it w r = (r', .ok q)) :
    recursiveRename (fuel + 1) t w r =
      match rename t.fullname (sfx t.ns w) t.name (setWrapped t.oid q r') with
      | .error e => (setWrapped t.oid q r', .error e)
      | .ok (t', r2) => (r2, .ok t'.fullname) := by
  rw [recursiveRename]
  simp only [hw, hg, hin, sfx]
  split <;> simp_all

theorem get_erase_ne (k k' : String) (r : Reg) (c : List (H × Nat)) (h : k' ≠ k) :
    get k' ⟨erase k r.tasks, c⟩ = get k' r := by
  simp [get, lookup_erase_ne h]


end RedunModel.Registry
