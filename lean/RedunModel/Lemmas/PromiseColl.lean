/-
Lemmas about the collectors of the promise machine (`Promise.all`, `wait_promises`):
* `OInv` — origins: the promise a wrapped callback / a `wrapper` continuation settles is always a chained promise,
           a collector's target is a promise created by that collector (so nothing else in the library settles it);
* `LInv` — at most one registration loop per collector, at the position recorded in the collector;
* `RInv` — the collector's closure state (`num_done`, `results`) agrees with the registration accounting of
           `RedunModel.Lemmas.Promise.Inv` (which callbacks have been invoked, with what).
Each is shown to be preserved by the primitives of the machine; the composition over `step` is in
`RedunModel.Lemmas.PromiseSpec`.
-/
import RedunModel.Lemmas.Promise
namespace RedunModel.Promise

/-- the promise a callback settles (`wrap`: the chained promise of its `then()` call) -/
def Cb.q (c : Cb) : Nat := match c.kind with | .wrap _ q => q | .direct q => q

/-- the callback is on some promise's list or waiting in some running notification loop -/
def InSys (s : State) (c : Cb) : Prop :=
  (∃ (p : Nat) (pr : Prom) (b : Br), s.heap[p]? = some pr ∧ c ∈ pick b pr) ∨ (∃ v todo, Frame.notify v todo ∈ s.stack ∧ c ∈ todo)

/-- states that differ only in fields that hold no callbacks -/
theorem InSys_of {s s' : State} {c} (h : InSys s' c) (hh : s'.heap = s.heap)
    (hs : ∀ v todo, Frame.notify v todo ∈ s'.stack → Frame.notify v todo ∈ s.stack) : InSys s c := by
  rcases h with ⟨p, pr, b, hp, hc⟩ | ⟨v, todo, hm, hc⟩
  · exact .inl ⟨p, pr, b, hh ▸ hp, hc⟩
  · exact .inr ⟨v, todo, hs v todo hm, hc⟩

theorem InSys_settle {s : State} {b q v c} (h : InSys (settle b q v s) c) : InSys s c := by
  rcases settle_cases b q v s with e | ⟨pr, hq, hp, e⟩
  · rwa [e] at h
  · rw [e] at h
    rcases h with ⟨p, pr', b', hp', hc⟩ | ⟨v', todo, hm, hc⟩
    · simp only [List.getElem?_set] at hp'
      by_cases hpq : q = p
      · simp [hpq] at hp'; obtain ⟨_, rfl⟩ := hp'; cases b' <;> simp [pick] at hc
      · simp [hpq] at hp'; exact .inl ⟨p, pr', b', hp', hc⟩
    · simp only [List.mem_cons] at hm
      rcases hm with hm | hm
      · cases hm; exact .inl ⟨q, pr, b, hq, hc⟩
      · exact .inr ⟨v', todo, hm, hc⟩

theorem InSys_thenOp {s : State} {p r j c} (h : InSys (thenOp p r j s) c) :
    InSys s c ∨ (p < s.heap.length ∧ ∃ b f, c = mkCb s.regs.length b f s.heap.length ∧ f = (match b with | .res => r | .rej => j)) := by
  rcases thenOp_cases p r j s with ⟨_, e⟩ | ⟨pr, hp, hcase⟩
  · rw [e] at h; exact .inl (InSys_of h rfl (fun _ _ h => h))
  have hplt : p < s.heap.length := (List.getElem?_eq_some_iff.mp hp).1
  rcases hcase with ⟨hst, e⟩ | ⟨b, v, hst, e⟩
  · rw [e] at h
    rcases h with ⟨p', pr', b', hp', hc⟩ | ⟨v', todo, hm, hc⟩
    · rcases (heap_then_lookup _ _ _ _ hplt _ _).mp hp' with ⟨rfl, rfl⟩ | ⟨hne, hp'⟩ | ⟨rfl, rfl⟩
      · cases b' <;> simp only [pick, List.mem_append, List.mem_singleton] at hc <;> rcases hc with hc | hc
        · exact .inl (.inl ⟨_, pr, .res, hp, hc⟩)
        · exact .inr ⟨hplt, .res, r, hc, rfl⟩
        · exact .inl (.inl ⟨_, pr, .rej, hp, hc⟩)
        · exact .inr ⟨hplt, .rej, j, hc, rfl⟩
      · exact .inl (.inl ⟨p', pr', b', hp', hc⟩)
      · rw [pick_empty] at hc; cases hc
    · exact .inl (.inr ⟨v', todo, hm, hc⟩)
  · rw [e] at h
    rcases h with ⟨p', pr', b', hp', hc⟩ | ⟨v', todo, hm, hc⟩
    · rcases (heap_then_lookup _ _ _ _ hplt _ _).mp hp' with ⟨rfl, rfl⟩ | ⟨hne, hp'⟩ | ⟨rfl, rfl⟩
      · cases b' <;> simp [pick] at hc
      · exact .inl (.inl ⟨p', pr', b', hp', hc⟩)
      · rw [pick_empty] at hc; cases hc
    · simp only [List.mem_cons] at hm
      rcases hm with hm | hm
      · cases hm
        simp only [List.mem_append, List.mem_singleton] at hc
        rcases hc with hc | hc
        · exact .inl (.inl ⟨p, pr, b, hp, hc⟩)
        · exact .inr ⟨hplt, b, _, hc, rfl⟩
      · exact .inl (.inr ⟨v', todo, hm, hc⟩)

theorem InSys_newProm {s : State} {o c} (h : InSys (newProm o s) c) : InSys s c := by
  rcases h with ⟨p, pr, b, hp, hc⟩ | h
  · rcases (getElem?_snoc_eq_some _ _ _ _).mp hp with hp | ⟨_, rfl⟩
    · exact .inl ⟨p, pr, b, hp, hc⟩
    · rw [pick_empty] at hc; cases hc
  · exact .inr h


/-! ### exact status bookkeeping -/

theorem status_settle_ne {s : State} {b q v t} (h : t ≠ q) : status (settle b q v s) t = status s t := by
  rcases settle_cases b q v s with e | ⟨pr, hq, hp, e⟩
  · rw [e]
  · rw [e]; unfold status; simp only [List.getElem?_set]; simp [Ne.symm h]

theorem status_thenOp {s : State} {p r j t} (h : t < s.heap.length) : status (thenOp p r j s) t = status s t := by
  rcases thenOp_cases p r j s with ⟨_, e⟩ | ⟨pr, hp, ⟨hst, e⟩ | ⟨b, v, hst, e⟩⟩
  · rw [e]; rfl
  all_goals
    rw [e]; unfold status
    have hplt : p < s.heap.length := (List.getElem?_eq_some_iff.mp hp).1
    simp only [List.getElem?_set]
    by_cases hpt : p = t
    · subst hpt; simp [hp, hst]; omega
    · simp [hpt, List.getElem?_append_left h]

theorem status_newProm {s : State} {o t} (h : t < s.heap.length) : status (newProm o s) t = status s t := by
  unfold status newProm; simp [List.getElem?_append_left h]

theorem lt_of_origin {s : State} {p o} (h : origin s p = some o) : p < s.heap.length := lt_of_getElem?_map h

/-! ### origins: which code may settle which promise -/

/-- the promise an adoption callback (`promise.do_resolve` passed by `wrapper`) settles is a chained one -/
def AdoptOk (s : State) (c : Cb) : Prop :=
  ∀ b p q, c.kind = .wrap (.adopt b p) q → origin s p = some .chained

structure OInv (s : State) : Prop where
  cbs : ∀ c, InSys s c → origin s c.q = some .chained
  adp : ∀ c, InSys s c → AdoptOk s c
  fin : ∀ r q, Frame.finish r q ∈ s.stack → origin s q = some .chained
  wrp : ∀ arg acts out q, Frame.script arg acts (.wrapper out q) ∈ s.stack → origin s q = some .chained
  ctor : ∀ arg acts out p, Frame.script arg acts (.ctor out p) ∈ s.stack → origin s p = some .user
  coll : ∀ (a : Nat) (r : Coll), s.colls[a]? = some r → origin s r.target = some (.coll a)

/-- generic transfer: nothing new holds a promise reference and the old references keep their origin -/
theorem OInv.transfer {s s' : State} (O : OInv s) (hx : Ext s s')
    (hc : ∀ c, InSys s' c → InSys s c ∨ (origin s' c.q = some .chained ∧ AdoptOk s' c))
    (hf : ∀ f, f ∈ s'.stack → f ∈ s.stack ∨ (∃ v todo, f = .notify v todo) ∨ (∃ m a i rest, f = .loop m a i rest) ∨
        (∃ r q, f = .finish r q ∧ origin s' q = some .chained) ∨
        (∃ arg acts out q, f = .script arg acts (.wrapper out q) ∧ origin s' q = some .chained) ∨
        (∃ arg acts out p, f = .script arg acts (.ctor out p) ∧ origin s' p = some .user) ∨
        (∃ arg acts, f = .script arg acts .top))
    (hr : ∀ (a : Nat) (r : Coll), s'.colls[a]? = some r →
        (∃ r', s.colls[a]? = some r' ∧ r'.target = r.target) ∨ origin s' r.target = some (.coll a)) : OInv s' := by
  refine ⟨?_, ?_, ?_, ?_, ?_, ?_⟩
  · intro c h
    rcases hc c h with h | h
    · exact hx.orig _ _ (O.cbs c h)
    · exact h.1
  · intro c h
    rcases hc c h with h | h
    · intro b p q hk; exact hx.orig _ _ (O.adp c h b p q hk)
    · exact h.2
  · intro r q h
    rcases hf _ h with h | ⟨_, _, h⟩ | ⟨_, _, _, _, h⟩ | ⟨_, _, h, ho⟩ | ⟨_, _, _, _, h, _⟩ | ⟨_, _, _, _, h, _⟩ | ⟨_, _, h⟩
    · exact hx.orig _ _ (O.fin r q h)
    all_goals first | (cases h; done) | (cases h; exact ho)
  · intro arg acts out q h
    rcases hf _ h with h | ⟨_, _, h⟩ | ⟨_, _, _, _, h⟩ | ⟨_, _, h, _⟩ | ⟨_, _, _, _, h, ho⟩ | ⟨_, _, _, _, h, _⟩ | ⟨_, _, h⟩
    · exact hx.orig _ _ (O.wrp arg acts out q h)
    all_goals first | (cases h; done) | (cases h; exact ho)
  · intro arg acts out p h
    rcases hf _ h with h | ⟨_, _, h⟩ | ⟨_, _, _, _, h⟩ | ⟨_, _, h, _⟩ | ⟨_, _, _, _, h, _⟩ | ⟨_, _, _, _, h, ho⟩ | ⟨_, _, h⟩
    · exact hx.orig _ _ (O.ctor arg acts out p h)
    all_goals first | (cases h; done) | (cases h; exact ho)
  · intro a r h
    rcases hr a r h with ⟨r', h', ht⟩ | h
    · rw [← ht]; exact hx.orig _ _ (O.coll a r' h')
    · exact h

/-! ### field-wise effect of the two heap primitives -/

theorem settle_colls (b q v) (s : State) : (settle b q v s).colls = s.colls := by
  rcases settle_cases b q v s with e | ⟨_, _, _, e⟩ <;> rw [e]
theorem settle_regs (b q v) (s : State) : (settle b q v s).regs = s.regs := by
  rcases settle_cases b q v s with e | ⟨_, _, _, e⟩ <;> rw [e]
theorem settle_log (b q v) (s : State) : (settle b q v s).log = s.log := by
  rcases settle_cases b q v s with e | ⟨_, _, _, e⟩ <;> rw [e]
theorem settle_heap_length (b q v) (s : State) : (settle b q v s).heap.length = s.heap.length := by
  rcases settle_cases b q v s with e | ⟨_, _, _, e⟩ <;> rw [e]; simp
theorem settle_stack (b q v) (s : State) :
    (settle b q v s).stack = s.stack ∨ ∃ todo, (settle b q v s).stack = .notify v todo :: s.stack := by
  rcases settle_cases b q v s with e | ⟨pr, _, _, e⟩ <;> rw [e]
  · exact .inl rfl
  · exact .inr ⟨_, rfl⟩

theorem thenOp_colls (p r j) (s : State) : (thenOp p r j s).colls = s.colls := by
  rcases thenOp_cases p r j s with ⟨_, e⟩ | ⟨pr, _, ⟨_, e⟩ | ⟨_, _, _, e⟩⟩ <;> rw [e] <;> rfl
theorem thenOp_stack (p r j) (s : State) :
    (thenOp p r j s).stack = s.stack ∨ ∃ v todo, (thenOp p r j s).stack = .notify v todo :: s.stack := by
  rcases thenOp_cases p r j s with ⟨_, e⟩ | ⟨pr, _, ⟨_, e⟩ | ⟨_, _, _, e⟩⟩ <;> rw [e]
  · exact .inl rfl
  · exact .inl rfl
  · exact .inr ⟨_, _, rfl⟩
theorem thenOp_regs {p r j} {s : State} (hp : p < s.heap.length) : (thenOp p r j s).regs = s.regs ++ [p] := by
  rcases thenOp_cases p r j s with ⟨h, _⟩ | ⟨pr, _, ⟨_, e⟩ | ⟨_, _, _, e⟩⟩
  · rw [List.getElem?_eq_none_iff] at h; omega
  · rw [e]
  · rw [e]
theorem thenOp_heap_length {p r j} {s : State} (hp : p < s.heap.length) :
    (thenOp p r j s).heap.length = s.heap.length + 1 := by
  rcases thenOp_cases p r j s with ⟨h, _⟩ | ⟨pr, _, ⟨_, e⟩ | ⟨_, _, _, e⟩⟩
  · rw [List.getElem?_eq_none_iff] at h; omega
  · rw [e]; simp
  · rw [e]; simp
/-- calls recorded in the log are not affected by `then` (it can only add a `badRef` note) -/
theorem thenOp_calls (p r j) (s : State) (rid b) : calls rid b (thenOp p r j s).log = calls rid b s.log := by
  rcases thenOp_cases p r j s with ⟨_, e⟩ | ⟨pr, _, ⟨_, e⟩ | ⟨_, _, _, e⟩⟩ <;> rw [e]
  simp [emit, calls_cons, Event.isInv]
theorem thenOp_mem_log (p r j) (s : State) (e : Event) (he : e ≠ .badRef) :
    e ∈ (thenOp p r j s).log ↔ e ∈ s.log := by
  rcases thenOp_cases p r j s with ⟨_, h⟩ | ⟨pr, _, ⟨_, h⟩ | ⟨_, _, _, h⟩⟩ <;> rw [h]
  simp only [emit, List.mem_cons]
  constructor
  · rintro (h | h)
    · exact absurd h he
    · exact h
  · exact .inr

theorem origin_thenOp_new {p r j} {s : State} (hp : p < s.heap.length) :
    origin (thenOp p r j s) s.heap.length = some .chained := by
  rcases thenOp_cases p r j s with ⟨h, _⟩ | ⟨pr, _, ⟨_, e⟩ | ⟨_, _, _, e⟩⟩
  · rw [List.getElem?_eq_none_iff] at h; omega
  all_goals
    rw [e]; unfold origin
    simp only [List.getElem?_set]
    have : ¬ p = s.heap.length := by omega
    simp [this]

theorem mkCb_q (rid b f q) : (mkCb rid b f q).q = q := by
  unfold mkCb Cb.q; cases f <;> rfl

theorem OInv_settle {s : State} (O : OInv s) (b q v) : OInv (settle b q v s) := by
  refine O.transfer (Ext_settle b q v s) (fun c h => .inl (InSys_settle h)) ?_ ?_
  · intro f hf
    rcases settle_stack b q v s with e | ⟨todo, e⟩ <;> rw [e] at hf
    · exact .inl hf
    · simp only [List.mem_cons] at hf
      rcases hf with rfl | hf
      · exact .inr (.inl ⟨_, _, rfl⟩)
      · exact .inl hf
  · intro a r h; rw [settle_colls] at h; exact .inl ⟨r, h, rfl⟩

theorem OInv_thenOp {s : State} (O : OInv s) (p r j)
    (hadp : ∀ b p', (r = some (.adopt b p') ∨ j = some (.adopt b p')) → origin s p' = some .chained) :
    OInv (thenOp p r j s) := by
  refine O.transfer (Ext_thenOp p r j s) ?_ ?_ ?_
  · intro c h
    rcases InSys_thenOp h with h | ⟨hp, b, f, rfl, hf⟩
    · exact .inl h
    · rw [mkCb_q]
      refine .inr ⟨origin_thenOp_new hp, ?_⟩
      intro b' p' q hk
      cases f with
      | none => simp [mkCb] at hk
      | some g =>
        simp only [mkCb, CbKind.wrap.injEq] at hk
        obtain ⟨rfl, _⟩ := hk
        refine (Ext_thenOp p r j s).orig _ _ (hadp b' p' ?_)
        cases b <;> simp_all
  · intro f hf
    rcases thenOp_stack p r j s with e | ⟨v, todo, e⟩ <;> rw [e] at hf
    · exact .inl hf
    · simp only [List.mem_cons] at hf
      rcases hf with rfl | hf
      · exact .inr (.inl ⟨_, _, rfl⟩)
      · exact .inl hf
  · intro a r h; rw [thenOp_colls] at h; exact .inl ⟨r, h, rfl⟩

theorem OInv_newProm {s : State} (O : OInv s) (o) : OInv (newProm o s) :=
  O.transfer (Ext_newProm o s) (fun c h => .inl (InSys_newProm h)) (fun f hf => .inl hf)
    (fun a r h => .inl ⟨r, h, rfl⟩)

/-- changes that touch neither the heap nor (except as described) the stack and the targets of collectors -/
theorem OInv.same_heap {s s' : State} (O : OInv s) (hh : s'.heap = s.heap)
    (hf : ∀ f, f ∈ s'.stack → f ∈ s.stack ∨ (∃ m a i rest, f = .loop m a i rest) ∨
        (∃ r q, f = .finish r q ∧ origin s q = some .chained) ∨
        (∃ arg acts out q, f = .script arg acts (.wrapper out q) ∧ origin s q = some .chained) ∨
        (∃ arg acts out p, f = .script arg acts (.ctor out p) ∧ origin s p = some .user) ∨
        (∃ arg acts, f = .script arg acts .top))
    (hr : ∀ (a : Nat) (r : Coll), s'.colls[a]? = some r → ∃ r', s.colls[a]? = some r' ∧ r'.target = r.target) :
    OInv s' := by
  have ho : ∀ p, origin s' p = origin s p := fun p => by unfold origin; rw [hh]
  refine O.transfer (Ext.of_heap_eq hh) ?_ ?_ (fun a r h => .inl (hr a r h))
  · intro c h
    refine .inl (InSys_of h hh ?_)
    intro v todo hm
    rcases hf _ hm with h | ⟨_, _, _, _, h⟩ | ⟨_, _, h, _⟩ | ⟨_, _, _, _, h, _⟩ | ⟨_, _, _, _, h, _⟩ | ⟨_, _, h⟩
    · exact h
    all_goals cases h
  · intro f hm
    rcases hf _ hm with h | h | ⟨r, q, h, h'⟩ | ⟨a1, a2, a3, a4, h, h'⟩ | ⟨a1, a2, a3, a4, h, h'⟩ | h
    · exact .inl h
    · exact .inr (.inr (.inl h))
    · exact .inr (.inr (.inr (.inl ⟨r, q, h, (ho q).trans h'⟩)))
    · exact .inr (.inr (.inr (.inr (.inl ⟨a1, a2, a3, a4, h, (ho a4).trans h'⟩))))
    · exact .inr (.inr (.inr (.inr (.inr (.inl ⟨a1, a2, a3, a4, h, (ho a4).trans h'⟩)))))
    · exact .inr (.inr (.inr (.inr (.inr (.inr h)))))

/-! ### the loops of `Promise.all` / `wait_promises` -/

def isLoop (a : Nat) : Frame → Bool
  | .loop _ a' _ _ => a' == a
  | _ => false
def loopCnt (a : Nat) (st : List Frame) : Nat := st.countP (isLoop a)

structure LInv (s : State) : Prop where
  frame : ∀ m a i rest, Frame.loop m a i rest ∈ s.stack → ∃ r, s.colls[a]? = some r ∧ r.mode = m ∧
    i = r.rids.length ∧ rest = r.subs.drop i ∧ ∀ p ∈ rest, p < s.heap.length
  cnt : ∀ a, loopCnt a s.stack ≤ 1
  run : ∀ (a : Nat) (r : Coll), s.colls[a]? = some r → r.rids.length < r.subs.length → loopCnt a s.stack = 1

theorem loopCnt_cons (a f st) : loopCnt a (f :: st) = loopCnt a st + if isLoop a f then 1 else 0 := by
  simp [loopCnt, List.countP_cons]

/-- stack changes that neither add nor remove loop frames, heap that does not shrink, same collectors -/
theorem LInv.transfer {s s' : State} (L : LInv s) (hc : s'.colls = s.colls) (hl : s.heap.length ≤ s'.heap.length)
    (hm : ∀ m a i rest, Frame.loop m a i rest ∈ s'.stack → Frame.loop m a i rest ∈ s.stack)
    (hn : ∀ a, loopCnt a s'.stack = loopCnt a s.stack) : LInv s' := by
  refine ⟨?_, ?_, ?_⟩
  · intro m a i rest h
    obtain ⟨r, h1, h2, h3, h4, h5⟩ := L.frame m a i rest (hm m a i rest h)
    exact ⟨r, hc ▸ h1, h2, h3, h4, fun p hp => Nat.lt_of_lt_of_le (h5 p hp) hl⟩
  · intro a; rw [hn]; exact L.cnt a
  · intro a r h hlt; rw [hn]; exact L.run a r (hc ▸ h) hlt

theorem LInv_settle {s : State} (L : LInv s) (b q v) : LInv (settle b q v s) := by
  refine L.transfer (settle_colls ..) (by rw [settle_heap_length]; exact Nat.le_refl _) ?_ ?_
  · intro m a i rest h
    rcases settle_stack b q v s with e | ⟨todo, e⟩ <;> rw [e] at h
    · exact h
    · simpa using h
  · intro a
    rcases settle_stack b q v s with e | ⟨todo, e⟩ <;> rw [e]
    simp [loopCnt_cons, isLoop]

theorem LInv_thenOp {s : State} (L : LInv s) (p r j) : LInv (thenOp p r j s) := by
  refine L.transfer (thenOp_colls ..) (Ext_thenOp p r j s).len ?_ ?_
  · intro m a i rest h
    rcases thenOp_stack p r j s with e | ⟨v, todo, e⟩ <;> rw [e] at h
    · exact h
    · simpa using h
  · intro a
    rcases thenOp_stack p r j s with e | ⟨v, todo, e⟩ <;> rw [e]
    simp [loopCnt_cons, isLoop]

theorem LInv_newProm {s : State} (L : LInv s) (o) : LInv (newProm o s) :=
  L.transfer rfl (Ext_newProm o s).len (fun _ _ _ _ h => h) (fun _ => rfl)

theorem LInv.push {s : State} (L : LInv s) (f : Frame) (hf : ∀ m a i rest, f ≠ .loop m a i rest) : LInv (push f s) := by
  refine L.transfer rfl (Nat.le_refl _) ?_ ?_
  · intro m a i rest h
    simp only [Promise.push, List.mem_cons] at h
    rcases h with h | h
    · exact absurd h.symm (hf m a i rest)
    · exact h
  · intro a
    simp only [Promise.push, loopCnt_cons]
    cases f with
    | loop m a' i rest => exact absurd rfl (hf m a' i rest)
    | _ => simp [isLoop]

theorem LInv.emit {s : State} (L : LInv s) (e : Event) : LInv (emit e s) :=
  L.transfer rfl (Nat.le_refl _) (fun _ _ _ _ h => h) (fun _ => rfl)

/-- popping a frame that is not a loop with inputs left -/
theorem LInv.pop {s : State} (L : LInv s) {f rest} (hs : s.stack = f :: rest)
    (hf : ∀ m a i p ps, f ≠ .loop m a i (p :: ps)) : LInv { s with stack := rest } := by
  refine ⟨?_, ?_, ?_⟩
  · intro m a i rest' h
    exact L.frame m a i rest' (by rw [hs]; exact List.mem_cons_of_mem _ h)
  · intro a
    have := L.cnt a
    rw [hs, loopCnt_cons] at this
    show loopCnt a rest ≤ 1
    omega
  · intro a r h hlt
    have h1 := L.run a r h hlt
    rw [hs, loopCnt_cons] at h1
    show loopCnt a rest = 1
    by_cases hl : isLoop a f = true
    · -- the popped frame is the (finished) loop of `a`: then its collector is complete
      exfalso
      cases f with
      | loop m a' i rest' =>
        simp only [isLoop, beq_iff_eq] at hl
        subst hl
        obtain ⟨r', h1', _, h3, h4, _⟩ := L.frame m a' i rest' (by rw [hs]; exact List.mem_cons_self ..)
        rw [h] at h1'; cases h1'
        cases rest' with
        | nil =>
          have : (r.subs.drop i).length = 0 := by rw [← h4]; rfl
          rw [List.length_drop] at this
          omega
        | cons p ps => exact hf m a' i p ps rfl
      | _ => simp [isLoop] at hl
    · simp [hl] at h1; exact h1

/-! ### the closure state of `Promise.all` / `wait_promises` against the registration accounting -/

/-- "input number .. has reported" as seen by the collector's counter -/
def doneP (m : Mode) (log : List Event) (rid : Nat) : Bool :=
  match m with
  | .all => decide (calls rid .res log = 1)
  | .wait => decide (calls rid .res log + calls rid .rej log = 1)

/-- what a callback that is one of the library's own closures must be registered as -/
def RidOk (colls : List Coll) (c : Cb) : Fn → Prop
  | .allThen a i => c.br = .res ∧ ∃ r, colls[a]? = some r ∧ r.mode = .all ∧ r.rids[i]? = some c.rid
  | .allFail a => c.br = .rej ∧ ∃ r, colls[a]? = some r ∧ r.mode = .all ∧ c.rid ∈ r.rids
  | .waitDone a => ∃ r, colls[a]? = some r ∧ r.mode = .wait ∧ c.rid ∈ r.rids
  | _ => True

structure RInv (s : State) : Prop where
  len : ∀ (a : Nat) (r : Coll), s.colls[a]? = some r →
    r.rids.length ≤ r.subs.length ∧ (r.mode = .all → r.results.length = r.subs.length)
  reg : ∀ (a : Nat) (r : Coll) (i rid : Nat), s.colls[a]? = some r → r.rids[i]? = some rid →
    ∃ p, r.subs[i]? = some p ∧ s.regs[rid]? = some p
  inc : ∀ (a : Nat) (r : Coll), s.colls[a]? = some r → r.rids.Pairwise (· < ·)
  done : ∀ (a : Nat) (r : Coll), s.colls[a]? = some r → r.numDone = r.rids.countP (doneP r.mode s.log)
  res : ∀ (a : Nat) (r : Coll) (i rid : Nat) (v : Val), s.colls[a]? = some r → r.mode = .all →
    r.rids[i]? = some rid → Event.invoke rid .res v ∈ s.log → r.results[i]? = some v
  kind : ∀ (a : Nat) (r : Coll) (i : Nat) (c : Cb), s.colls[a]? = some r → InSys s c → r.rids[i]? = some c.rid →
    ∃ q, c.kind = .wrap (loopFn r.mode a i c.br) q
  rid : ∀ (c : Cb) (f : Fn) (q : Nat), InSys s c → c.kind = .wrap f q → RidOk s.colls c f

theorem countP_congr_mem {α} {p q : α → Bool} {l : List α} (h : ∀ x ∈ l, p x = q x) : l.countP p = l.countP q := by
  induction l with
  | nil => rfl
  | cons x xs ih =>
    simp only [List.countP_cons]
    rw [ih (fun y hy => h y (List.mem_cons_of_mem _ hy)), h x (List.mem_cons_self ..)]

theorem doneP_congr {m log log' rid} (h : ∀ b, calls rid b log' = calls rid b log) : doneP m log' rid = doneP m log rid := by
  cases m <;> simp [doneP, h]

/-- same collectors, registrations only added, same calls; callbacks that are new to the system must be
accounted for by the caller -/
theorem RInv.transfer {s s' : State} (R : RInv s) (hc : s'.colls = s.colls)
    (hregs : ∀ (rid p : Nat), s.regs[rid]? = some p → s'.regs[rid]? = some p)
    (hcalls : ∀ rid b, calls rid b s'.log = calls rid b s.log)
    (hinv : ∀ rid v, Event.invoke rid .res v ∈ s'.log → Event.invoke rid .res v ∈ s.log)
    (hk : ∀ (a : Nat) (r : Coll) (i : Nat) (c : Cb), s.colls[a]? = some r → InSys s' c → ¬ InSys s c →
      r.rids[i]? = some c.rid → ∃ q, c.kind = .wrap (loopFn r.mode a i c.br) q)
    (hr : ∀ (c : Cb) (f : Fn) (q : Nat), InSys s' c → ¬ InSys s c → c.kind = .wrap f q → RidOk s.colls c f) :
    RInv s' := by
  refine ⟨?_, ?_, ?_, ?_, ?_, ?_, ?_⟩
  · intro a r h; exact R.len a r (hc ▸ h)
  · intro a r i rid h h'
    obtain ⟨p, h1, h2⟩ := R.reg a r i rid (hc ▸ h) h'
    exact ⟨p, h1, hregs _ _ h2⟩
  · intro a r h; exact R.inc a r (hc ▸ h)
  · intro a r h
    rw [R.done a r (hc ▸ h)]
    exact (countP_congr_mem (fun rid _ => doneP_congr (fun b => hcalls rid b))).symm
  · intro a r i rid v h hm h' hi
    exact R.res a r i rid v (hc ▸ h) hm h' (hinv rid v hi)
  · intro a r i c h hs h'
    by_cases hold : InSys s c
    · exact R.kind a r i c (hc ▸ h) hold h'
    · exact hk a r i c (hc ▸ h) hs hold h'
  · intro c f q hs hkind
    rw [hc]
    by_cases hold : InSys s c
    · exact R.rid c f q hold hkind
    · exact hr c f q hs hold hkind

theorem RInv_settle {s : State} (R : RInv s) (b q v) : RInv (settle b q v s) :=
  R.transfer (settle_colls ..) (fun _ _ h => by rw [settle_regs]; exact h) (fun _ _ => by rw [settle_log])
    (fun _ _ h => by rw [settle_log] at h; exact h)
    (fun _ _ _ _ _ h hn => absurd (InSys_settle h) hn) (fun _ _ _ h hn => absurd (InSys_settle h) hn)

theorem RInv_newProm {s : State} (R : RInv s) (o) : RInv (newProm o s) :=
  R.transfer rfl (fun _ _ h => h) (fun _ _ => rfl) (fun _ _ h => h)
    (fun _ _ _ _ _ h hn => absurd (InSys_newProm h) hn) (fun _ _ _ h hn => absurd (InSys_newProm h) hn)

/-- any change of the stack that does not add a notification loop -/
theorem RInv.restack {s : State} (R : RInv s) (st : List Frame)
    (hs : ∀ v todo, Frame.notify v todo ∈ st → Frame.notify v todo ∈ s.stack) : RInv { s with stack := st } :=
  R.transfer rfl (fun _ _ h => h) (fun _ _ => rfl) (fun _ _ h => h)
    (fun _ _ _ _ _ h hn => absurd (InSys_of (s := s) h rfl hs) hn) (fun _ _ _ h hn => absurd (InSys_of (s := s) h rfl hs) hn)

theorem RInv.emit {s : State} (R : RInv s) (e : Event) (he : ∀ rid b v, e ≠ .invoke rid b v) : RInv (emit e s) := by
  have hz : ∀ rid b, Event.isInv rid b e = false := by
    intro rid b; cases e with
    | invoke r b' v => exact absurd rfl (he r b' v)
    | _ => rfl
  refine R.transfer rfl (fun _ _ h => h) (fun rid b => by simp [Promise.emit, calls_cons, hz]) ?_
    (fun _ _ _ _ _ h hn => absurd (InSys_of h rfl (fun _ _ h => h)) hn)
    (fun _ _ _ h hn => absurd (InSys_of h rfl (fun _ _ h => h)) hn)
  intro rid v h
  simp only [Promise.emit, List.mem_cons] at h
  rcases h with h | h
  · exact absurd h.symm (he rid .res v)
  · exact h

/-- a `then()` whose callbacks are not the library's collector closures (user functions, adoption, defaults) -/
theorem RInv_thenOp {s : State} (I : Inv s) (R : RInv s) (p r j)
    (hr : ∀ f, r = some f ∨ j = some f → (∀ a i, f ≠ .allThen a i) ∧ (∀ a, f ≠ .allFail a) ∧ (∀ a, f ≠ .waitDone a)) :
    RInv (thenOp p r j s) := by
  by_cases hp : ¬ p < s.heap.length
  · have : thenOp p r j s = Promise.emit .badRef s := by
      rcases thenOp_cases p r j s with ⟨_, e⟩ | ⟨pr, h, _⟩
      · exact e
      · exact absurd (List.getElem?_eq_some_iff.mp h).1 hp
    rw [this]; exact R.emit _ (by intros; simp)
  have hp : p < s.heap.length := Classical.not_not.mp hp
  have hnew : ∀ c, InSys (thenOp p r j s) c → ¬ InSys s c →
      c.rid = s.regs.length ∧ ∃ b f, c = mkCb s.regs.length b f s.heap.length ∧ f = (match b with | .res => r | .rej => j) := by
    intro c h hn
    rcases InSys_thenOp h with h | ⟨_, b, f, rfl, hf⟩
    · exact absurd h hn
    · exact ⟨rfl, b, f, rfl, hf⟩
  refine R.transfer (thenOp_colls ..) ?_ (fun rid b => thenOp_calls ..) ?_ ?_ ?_
  · intro rid p' h; rw [thenOp_regs hp]; exact (getElem?_snoc_eq_some _ _ _ _).mpr (.inl h)
  · intro rid v h; exact (thenOp_mem_log p r j s _ (by simp)).mp h
  · intro a r' i c hcoll hs hn hrid
    obtain ⟨h1, _⟩ := hnew c hs hn
    obtain ⟨p', _, h2⟩ := R.reg a r' i c.rid hcoll hrid
    rw [h1, List.getElem?_eq_none (Nat.le_refl _)] at h2; cases h2
  · intro c f q hs hn hkind
    obtain ⟨_, b, f', rfl, hf⟩ := hnew c hs hn
    cases f' with
    | none => simp [mkCb] at hkind
    | some g =>
      simp only [mkCb, CbKind.wrap.injEq] at hkind
      obtain ⟨rfl, _⟩ := hkind
      have := hr g (by cases b <;> simp_all)
      cases g with
      | allThen a i => exact absurd rfl (this.1 a i)
      | allFail a => exact absurd rfl (this.2.1 a)
      | waitDone a => exact absurd rfl (this.2.2 a)
      | _ => trivial

theorem RidOk_mono {colls colls' : List Coll} {c f}
    (h : ∀ (a : Nat) (r : Coll), colls[a]? = some r → ∃ r', colls'[a]? = some r' ∧ r'.mode = r.mode ∧
      ∀ (i rid : Nat), r.rids[i]? = some rid → r'.rids[i]? = some rid)
    (hk : RidOk colls c f) : RidOk colls' c f := by
  cases f with
  | allThen a i =>
    obtain ⟨h1, r, h2, h3, h4⟩ := hk
    obtain ⟨r', h5, h6, h7⟩ := h a r h2
    exact ⟨h1, r', h5, h6 ▸ h3, h7 _ _ h4⟩
  | allFail a =>
    obtain ⟨h1, r, h2, h3, h4⟩ := hk
    obtain ⟨r', h5, h6, h7⟩ := h a r h2
    obtain ⟨i, hi⟩ := List.getElem?_of_mem h4
    exact ⟨h1, r', h5, h6 ▸ h3, List.mem_of_getElem? (h7 _ _ hi)⟩
  | waitDone a =>
    obtain ⟨r, h2, h3, h4⟩ := hk
    obtain ⟨r', h5, h6, h7⟩ := h a r h2
    obtain ⟨i, hi⟩ := List.getElem?_of_mem h4
    exact ⟨r', h5, h6 ▸ h3, List.mem_of_getElem? (h7 _ _ hi)⟩
  | user _ => trivial
  | adopt _ _ => trivial

/-! ### `Promise.all(ps)` / `wait_promises(ps)`: a new collector -/

def newColl (m : Mode) (ps : List Nat) (s : State) : Coll :=
  { mode := m, target := s.heap.length, subs := ps,
    results := (match m with | .all => List.replicate ps.length Val.none | .wait => []), numDone := 0 }

def withColl (m : Mode) (ps : List Nat) (s : State) : State :=
  { newProm (.coll s.colls.length) s with colls := s.colls ++ [newColl m ps s] }

theorem collect_eq (m ps) (s : State) : collect m ps s =
    if refsOk ps s then
      (if ps.isEmpty then settle .res s.heap.length (.list []) (withColl m ps s)
       else push (.loop m s.colls.length 0 ps) (withColl m ps s))
    else emit .badRef s := rfl

theorem Ext_withColl (m ps) (s : State) : Ext s (withColl m ps s) :=
  (Ext_newProm (.coll s.colls.length) s).trans (Ext.of_heap_eq rfl)

theorem OInv_withColl {s : State} (O : OInv s) (m ps) : OInv (withColl m ps s) := by
  refine O.transfer (Ext_withColl m ps s) (fun c h => .inl (InSys_newProm (InSys_of h rfl (fun _ _ h => h))))
    (fun f h => .inl h) ?_
  intro a r h
  rcases (getElem?_snoc_eq_some _ _ _ _).mp h with h | ⟨rfl, rfl⟩
  · exact .inl ⟨r, h, rfl⟩
  · right
    unfold origin withColl newProm newColl
    simp

theorem refsOk_lt {ps : List Nat} {s : State} (h : refsOk ps s = true) : ∀ p ∈ ps, p < s.heap.length := by
  intro p hp
  simp only [refsOk, List.all_eq_true, decide_eq_true_eq] at h
  exact h p hp

theorem LInv_withColl_frames {s : State} (L : LInv s) (m ps) :
    ∀ m' a i rest, Frame.loop m' a i rest ∈ s.stack → ∃ r, (withColl m ps s).colls[a]? = some r ∧ r.mode = m' ∧
      i = r.rids.length ∧ rest = r.subs.drop i ∧ ∀ p ∈ rest, p < (withColl m ps s).heap.length := by
  intro m' a i rest h
  obtain ⟨r, h1, h2⟩ := L.frame m' a i rest h
  refine ⟨r, (getElem?_snoc_eq_some _ _ _ _).mpr (.inl h1), h2.1, h2.2.1, h2.2.2.1, fun p hp => ?_⟩
  have := h2.2.2.2 p hp
  simp only [withColl, newProm, List.length_append, List.length_singleton]; omega

/-- no loop of a collector that does not exist yet is running -/
theorem LInv.no_future_loop {s : State} (L : LInv s) {a} (ha : s.colls.length ≤ a) : loopCnt a s.stack = 0 := by
  unfold loopCnt
  rw [List.countP_eq_zero]
  intro f hf
  cases f with
  | loop m a' i rest =>
    simp only [isLoop, beq_iff_eq]
    intro h; subst h
    obtain ⟨r, h1, _⟩ := L.frame m a' i rest hf
    have := (List.getElem?_eq_some_iff.mp h1).1
    omega
  | _ => simp [isLoop]

theorem LInv_collect {s : State} (L : LInv s) (m ps) : LInv (collect m ps s) := by
  rw [collect_eq]
  split
  · next hrefs =>
    split
    · next hemp =>
      have hps : ps = [] := by simpa using hemp
      refine LInv_settle (s := withColl m ps s) ⟨LInv_withColl_frames L m ps, L.cnt, ?_⟩ _ _ _
      intro a r h hlt
      rcases (getElem?_snoc_eq_some _ _ _ _).mp h with h | ⟨rfl, rfl⟩
      · exact L.run a r h hlt
      · simp [newColl, hps] at hlt
    · next hne =>
      refine ⟨?_, ?_, ?_⟩
      · intro m' a i rest h
        simp only [push, List.mem_cons] at h
        rcases h with h | h
        · cases h
          refine ⟨newColl m ps s, by simp [withColl, push], rfl, rfl, rfl, fun p hp => ?_⟩
          have := refsOk_lt hrefs p hp
          simp only [withColl, newProm, push, List.length_append, List.length_singleton]; omega
        · exact LInv_withColl_frames L m ps m' a i rest h
      · intro a
        simp only [push, loopCnt_cons, isLoop]
        by_cases ha : s.colls.length = a
        · subst ha
          have : loopCnt s.colls.length (withColl m ps s).stack = 0 := L.no_future_loop (Nat.le_refl _)
          simp [this]
        · have := L.cnt a
          simp [ha]; exact this
      · intro a r h hlt
        simp only [push, loopCnt_cons, isLoop]
        rcases (getElem?_snoc_eq_some _ _ _ _).mp h with h | ⟨rfl, rfl⟩
        · have hne' : s.colls.length ≠ a := by
            have := (List.getElem?_eq_some_iff.mp h).1; omega
          simp [hne']; exact L.run a r h hlt
        · have : loopCnt s.colls.length (withColl m ps s).stack = 0 := L.no_future_loop (Nat.le_refl _)
          simp [this]
  · exact L.emit _

theorem OInv.emit {s : State} (O : OInv s) (e) : OInv (emit e s) :=
  O.same_heap rfl (fun _ h => .inl h) (fun a r h => ⟨r, h, rfl⟩)

theorem OInv_collect {s : State} (O : OInv s) (m ps) : OInv (collect m ps s) := by
  rw [collect_eq]
  split
  · split
    · exact OInv_settle (OInv_withColl O m ps) _ _ _
    · refine (OInv_withColl O m ps).same_heap rfl ?_ (fun a r h => ⟨r, h, rfl⟩)
      intro f hf
      simp only [push, List.mem_cons] at hf
      rcases hf with rfl | hf
      · exact .inr (.inl ⟨_, _, _, _, rfl⟩)
      · exact .inl hf
  · exact O.emit _

theorem RInv_withColl {s : State} (R : RInv s) (m ps) : RInv (withColl m ps s) := by
  have hsys : ∀ c, InSys (withColl m ps s) c → InSys s c :=
    fun c h => InSys_newProm (InSys_of (s := newProm (.coll s.colls.length) s) h rfl (fun _ _ h => h))
  have hlook : ∀ (a : Nat) (r : Coll), (withColl m ps s).colls[a]? = some r →
      s.colls[a]? = some r ∨ (a = s.colls.length ∧ r = newColl m ps s) := by
    intro a r h
    rcases (getElem?_snoc_eq_some _ _ _ _).mp h with h | ⟨h1, h2⟩
    · exact .inl h
    · exact .inr ⟨h1, h2.symm⟩
  refine ⟨?_, ?_, ?_, ?_, ?_, ?_, ?_⟩
  · intro a r h
    rcases hlook a r h with h | ⟨_, rfl⟩
    · exact R.len a r h
    · cases m <;> simp [newColl]
  · intro a r i rid h h'
    rcases hlook a r h with h | ⟨_, rfl⟩
    · exact R.reg a r i rid h h'
    · simp [newColl] at h'
  · intro a r h
    rcases hlook a r h with h | ⟨_, rfl⟩
    · exact R.inc a r h
    · simp [newColl]
  · intro a r h
    rcases hlook a r h with h | ⟨_, rfl⟩
    · exact R.done a r h
    · simp [newColl]
  · intro a r i rid v h hm h' hi
    rcases hlook a r h with h | ⟨_, rfl⟩
    · exact R.res a r i rid v h hm h' hi
    · simp [newColl] at h'
  · intro a r i c h hs h'
    rcases hlook a r h with h | ⟨_, rfl⟩
    · exact R.kind a r i c h (hsys c hs) h'
    · simp [newColl] at h'
  · intro c f q hs hk
    refine RidOk_mono ?_ (R.rid c f q (hsys c hs) hk)
    intro a r h
    exact ⟨r, (getElem?_snoc_eq_some _ _ _ _).mpr (.inl h), rfl, fun _ _ h => h⟩

theorem RInv.push {s : State} (R : RInv s) (f : Frame) (hf : ∀ v todo, f ≠ .notify v todo) : RInv (push f s) := by
  refine R.restack (f :: s.stack) ?_
  intro v todo h
  simp only [List.mem_cons] at h
  rcases h with h | h
  · exact absurd h.symm (hf v todo)
  · exact h

theorem RInv_collect {s : State} (R : RInv s) (m ps) : RInv (collect m ps s) := by
  rw [collect_eq]
  split
  · split
    · exact RInv_settle (RInv_withColl R m ps) _ _ _
    · exact (RInv_withColl R m ps).push _ (by intros; simp)
  · exact R.emit _ (by intros; simp)

/-! ### one turn of the registration loop -/

theorem note_eq {s : State} {a r} (h : s.colls[a]? = some r) :
    note a s = { s with colls := s.colls.set a { r with rids := r.rids ++ [s.regs.length] } } := by
  unfold note; rw [h]

theorem set_lookup {α} (l : List α) (a : Nat) (x : α) (ha : a < l.length) (a' : Nat) (y : α) :
    (l.set a x)[a']? = some y ↔ (a' = a ∧ y = x) ∨ (a' ≠ a ∧ l[a']? = some y) := by
  rw [List.getElem?_set]
  by_cases h : a = a'
  · subst h; simp [ha]; exact eq_comm
  · have h' : a' ≠ a := fun e => h e.symm
    simp [h, h']

/-- a registered rid is smaller than the number of registrations -/
theorem RInv.rid_lt {s : State} (R : RInv s) {a : Nat} {r : Coll} {i rid : Nat} (h : s.colls[a]? = some r) (h' : r.rids[i]? = some rid) :
    rid < s.regs.length := by
  obtain ⟨p, _, h2⟩ := R.reg a r i rid h h'
  exact (List.getElem?_eq_some_iff.mp h2).1

theorem Inv.insys_lt {s : State} (I : Inv s) {c} (h : InSys s c) : c.rid < s.regs.length := by
  rcases h with ⟨p, pr, b, hp, hc⟩ | ⟨v, todo, hm, hc⟩
  · exact (List.getElem?_eq_some_iff.mp (I.owner p pr hp b c hc).2).1
  · obtain ⟨p, pr, h, _⟩ := I.frames v todo hm c hc
    exact (List.getElem?_eq_some_iff.mp h).1

structure LoopTop (s : State) (m : Mode) (a i p : Nat) (ps rest : List Nat) (stk : List Frame) (r : Coll) : Prop where
  stack : s.stack = .loop m a i (p :: ps) :: stk
  coll : s.colls[a]? = some r
  mode : r.mode = m
  idx : i = r.rids.length
  drop : p :: ps = r.subs.drop i
  refs : ∀ p' ∈ p :: ps, p' < s.heap.length

theorem LInv.loopTop {s : State} (L : LInv s) {m a i p ps stk} (hs : s.stack = .loop m a i (p :: ps) :: stk) :
    ∃ r, LoopTop s m a i p ps [] stk r := by
  obtain ⟨r, h1, h2, h3, h4, h5⟩ := L.frame m a i (p :: ps) (by rw [hs]; exact List.mem_cons_self ..)
  exact ⟨r, hs, h1, h2, h3, h4, h5⟩

def advanced (s : State) (m : Mode) (a i p : Nat) (ps : List Nat) (stk : List Frame) : State :=
  thenOp p (some (loopFn m a i .res)) (some (loopFn m a i .rej)) (push (.loop m a (i + 1) ps) (note a { s with stack := stk }))

theorem drop_succ_of_cons {α} {l : List α} {i x xs} (h : x :: xs = l.drop i) : l[i]? = some x ∧ xs = l.drop (i + 1) := by
  have h1 : l[i]? = some x := by
    have := List.getElem?_drop (xs := l) (i := i) (j := 0)
    rw [← h] at this; simpa using this.symm
  refine ⟨h1, ?_⟩
  have : l.drop (i + 1) = (l.drop i).drop 1 := by rw [List.drop_drop]
  rw [this, ← h]; rfl

theorem OInv_advanced {s : State} (O : OInv s) {m a i p ps stk r} (T : LoopTop s m a i p ps [] stk r) :
    OInv (advanced s m a i p ps stk) := by
  unfold advanced
  refine OInv_thenOp ?_ _ _ _ (by intro b p' h; cases m <;> simp [loopFn] at h)
  have hlt : a < s.colls.length := (List.getElem?_eq_some_iff.mp T.coll).1
  rw [note_eq (s := { s with stack := stk }) T.coll]
  refine O.same_heap rfl ?_ ?_
  · intro f hf
    simp only [push, List.mem_cons] at hf
    rcases hf with rfl | hf
    · exact .inr (.inl ⟨_, _, _, _, rfl⟩)
    · exact .inl (by rw [T.stack]; exact List.mem_cons_of_mem _ hf)
  · intro a' r' h
    rcases (set_lookup _ _ _ hlt _ _).mp h with ⟨rfl, rfl⟩ | ⟨_, h⟩
    · exact ⟨r, T.coll, rfl⟩
    · exact ⟨r', h, rfl⟩

theorem LInv_advanced {s : State} (L : LInv s) {m a i p ps stk r} (T : LoopTop s m a i p ps [] stk r) :
    LInv (advanced s m a i p ps stk) := by
  unfold advanced
  apply LInv_thenOp
  have hlt : a < s.colls.length := (List.getElem?_eq_some_iff.mp T.coll).1
  rw [note_eq (s := { s with stack := stk }) T.coll]
  have hcnt0 : loopCnt a stk = 0 := by
    have := L.cnt a
    rw [T.stack, loopCnt_cons] at this
    simp [isLoop] at this; omega
  obtain ⟨hsub, hdrop⟩ := drop_succ_of_cons T.drop
  refine ⟨?_, ?_, ?_⟩
  · intro m' a' i' rest' h
    simp only [push, List.mem_cons] at h
    rcases h with h | h
    · cases h
      refine ⟨_, (set_lookup _ _ _ hlt _ _).mpr (.inl ⟨rfl, rfl⟩), T.mode, ?_, ?_, ?_⟩
      · simp [T.idx]
      · exact hdrop
      · intro p' hp'; exact T.refs p' (List.mem_cons_of_mem _ hp')
    · have hne : a' ≠ a := by
        intro e; subst e
        have : loopCnt a' stk ≥ 1 := by
          unfold loopCnt
          exact List.countP_pos_iff.mpr ⟨_, h, by simp [isLoop]⟩
        omega
      obtain ⟨r', h1, h2⟩ := L.frame m' a' i' rest' (by rw [T.stack]; exact List.mem_cons_of_mem _ h)
      exact ⟨r', (set_lookup _ _ _ hlt _ _).mpr (.inr ⟨hne, h1⟩), h2⟩
  · intro a'
    have := L.cnt a'
    rw [T.stack, loopCnt_cons] at this
    simpa [push, loopCnt_cons, isLoop] using this
  · intro a' r' h hlt'
    rcases (set_lookup _ _ _ hlt _ _).mp h with ⟨rfl, rfl⟩ | ⟨hne, h⟩
    · simp [push, loopCnt_cons, isLoop, hcnt0]
    · have := L.run a' r' h hlt'
      rw [T.stack, loopCnt_cons] at this
      simpa [push, loopCnt_cons, isLoop] using this

theorem doneP_fresh {s : State} (I : Inv s) (m) : doneP m s.log s.regs.length = false := by
  have h1 := (I.fresh (Nat.le_refl s.regs.length) .res).2
  have h2 := (I.fresh (Nat.le_refl s.regs.length) .rej).2
  cases m <;> simp [doneP, h1, h2]

theorem getElem?_snoc_cases {α} {l : List α} {x y : α} {i : Nat} (h : (l ++ [x])[i]? = some y) :
    l[i]? = some y ∨ (i = l.length ∧ y = x) := by
  rcases (getElem?_snoc_eq_some _ _ _ _).mp h with h | ⟨h1, h2⟩
  · exact .inl h
  · exact .inr ⟨h1, h2.symm⟩

theorem RInv_advanced {s : State} (I : Inv s) (R : RInv s) {m a i p ps stk r} (T : LoopTop s m a i p ps [] stk r) :
    RInv (advanced s m a i p ps stk) := by
  have hlt : a < s.colls.length := (List.getElem?_eq_some_iff.mp T.coll).1
  have hp : p < s.heap.length := T.refs p (List.mem_cons_self ..)
  obtain ⟨hsub, hdrop⟩ := drop_succ_of_cons T.drop
  have hi : i < r.subs.length := (List.getElem?_eq_some_iff.mp hsub).1
  -- the state the `then()` call is made in
  let s2 : State := push (.loop m a (i + 1) ps) (note a { s with stack := stk })
  have hs2 : s2 = push (.loop m a (i + 1) ps)
      { s with stack := stk, colls := s.colls.set a { r with rids := r.rids ++ [s.regs.length] } } := by
    show push _ (note a _) = _
    rw [note_eq (s := { s with stack := stk }) T.coll]
  have hadv : advanced s m a i p ps stk = thenOp p (some (loopFn m a i .res)) (some (loopFn m a i .rej)) s2 := rfl
  have h2heap : s2.heap = s.heap := by rw [hs2]; rfl
  have h2regs : s2.regs = s.regs := by rw [hs2]; rfl
  have h2log : s2.log = s.log := by rw [hs2]; rfl
  have h2colls : s2.colls = s.colls.set a { r with rids := r.rids ++ [s.regs.length] } := by rw [hs2]; rfl
  have hp2 : p < s2.heap.length := by rw [h2heap]; exact hp
  have hsys2 : ∀ c, InSys s2 c → InSys s c := by
    intro c h
    refine InSys_of h h2heap ?_
    intro v todo hm
    rw [hs2] at hm
    simp only [push, List.mem_cons] at hm
    rcases hm with hm | hm
    · cases hm
    · rw [T.stack]; exact List.mem_cons_of_mem _ hm
  have hsys : ∀ c, InSys (advanced s m a i p ps stk) c →
      InSys s c ∨ ∃ b, c = mkCb s.regs.length b (some (loopFn m a i b)) s.heap.length := by
    intro c h
    rw [hadv] at h
    rcases InSys_thenOp h with h | ⟨_, b, f, hc, hf⟩
    · exact .inl (hsys2 c h)
    · right; refine ⟨b, ?_⟩
      rw [hc, h2regs, h2heap, hf]; cases b <;> rfl
  have hcolls : (advanced s m a i p ps stk).colls = s.colls.set a { r with rids := r.rids ++ [s.regs.length] } := by
    rw [hadv, thenOp_colls, h2colls]
  have hregs : (advanced s m a i p ps stk).regs = s.regs ++ [p] := by
    rw [hadv, thenOp_regs hp2, h2regs]
  have hcalls : ∀ rid b, calls rid b (advanced s m a i p ps stk).log = calls rid b s.log := by
    intro rid b; rw [hadv, thenOp_calls, h2log]
  have hinv : ∀ rid v, Event.invoke rid .res v ∈ (advanced s m a i p ps stk).log → Event.invoke rid .res v ∈ s.log := by
    intro rid v h; rw [hadv] at h
    have := (thenOp_mem_log p _ _ s2 _ (by simp)).mp h
    rwa [h2log] at this
  have hlook : ∀ (a' : Nat) (x : Coll), (advanced s m a i p ps stk).colls[a']? = some x →
      (a' = a ∧ x = { r with rids := r.rids ++ [s.regs.length] }) ∨ (a' ≠ a ∧ s.colls[a']? = some x) := by
    intro a' x h; rw [hcolls] at h; exact (set_lookup _ _ _ hlt _ _).mp h
  have hregs' : ∀ (rid p' : Nat), s.regs[rid]? = some p' → (advanced s m a i p ps stk).regs[rid]? = some p' := by
    intro rid p' h; rw [hregs]; exact (getElem?_snoc_eq_some _ _ _ _).mpr (.inl h)
  have hold_lt : ∀ k rid, r.rids[k]? = some rid → rid < s.regs.length := fun k rid h => R.rid_lt T.coll h
  refine ⟨?_, ?_, ?_, ?_, ?_, ?_, ?_⟩
  · intro a' x h
    rcases hlook a' x h with ⟨rfl, rfl⟩ | ⟨_, h⟩
    · have := R.len a' r T.coll
      refine ⟨?_, this.2⟩
      simp only [List.length_append, List.length_singleton]
      rw [← T.idx]; omega
    · exact R.len a' x h
  · intro a' x k rid h h'
    rcases hlook a' x h with ⟨rfl, rfl⟩ | ⟨_, h⟩
    · rcases getElem?_snoc_cases h' with h' | ⟨hk, rfl⟩
      · obtain ⟨p', h1, h2⟩ := R.reg a' r k rid T.coll h'
        exact ⟨p', h1, hregs' _ _ h2⟩
      · refine ⟨p, ?_, ?_⟩
        · rw [hk, ← T.idx]; exact hsub
        · rw [hregs]; simp
    · obtain ⟨p', h1, h2⟩ := R.reg a' x k rid h h'
      exact ⟨p', h1, hregs' _ _ h2⟩
  · intro a' x h
    rcases hlook a' x h with ⟨rfl, rfl⟩ | ⟨_, h⟩
    · show (r.rids ++ [s.regs.length]).Pairwise (· < ·)
      rw [List.pairwise_append]
      refine ⟨R.inc a' r T.coll, by simp, ?_⟩
      intro x hx y hy
      simp only [List.mem_singleton] at hy; subst hy
      obtain ⟨k, hk⟩ := List.getElem?_of_mem hx
      exact hold_lt k x hk
    · exact R.inc a' x h
  · intro a' x h
    rcases hlook a' x h with ⟨rfl, rfl⟩ | ⟨_, h⟩
    · show r.numDone = (r.rids ++ [s.regs.length]).countP (doneP r.mode _)
      rw [List.countP_append, R.done a' r T.coll]
      have h0 : doneP r.mode (advanced s m a' i p ps stk).log s.regs.length = false := by
        rw [doneP_congr (fun b => hcalls _ b)]; exact doneP_fresh I _
      simp only [List.countP_cons, List.countP_nil, h0]
      simp
      exact countP_congr_mem (fun rid _ => (doneP_congr (fun b => hcalls rid b)).symm)
    · rw [R.done a' x h]
      exact countP_congr_mem (fun rid _ => (doneP_congr (fun b => hcalls rid b)).symm)
  · intro a' x k rid v h hm h' hiv
    have hiv' := hinv rid v hiv
    rcases hlook a' x h with ⟨rfl, rfl⟩ | ⟨_, h⟩
    · rcases getElem?_snoc_cases h' with h' | ⟨_, rfl⟩
      · exact R.res a' r k rid v T.coll hm h' hiv'
      · exfalso
        obtain ⟨p', pr, h1, _⟩ := I.logs _ _ _ hiv'
        rw [List.getElem?_eq_none (Nat.le_refl _)] at h1; cases h1
    · exact R.res a' x k rid v h hm h' hiv'
  · intro a' x k c h hs h'
    rcases hsys c hs with hold | ⟨b, rfl⟩
    · have hc_lt := I.insys_lt hold
      rcases hlook a' x h with ⟨rfl, rfl⟩ | ⟨_, h⟩
      · rcases getElem?_snoc_cases h' with h' | ⟨_, he⟩
        · exact R.kind a' r k c T.coll hold h'
        · omega
      · exact R.kind a' x k c h hold h'
    · simp only [mkCb_rid] at h'
      rcases hlook a' x h with ⟨rfl, rfl⟩ | ⟨_, h⟩
      · rcases getElem?_snoc_cases h' with h' | ⟨hk, _⟩
        · have := hold_lt k _ h'; omega
        · refine ⟨s.heap.length, ?_⟩
          simp only [mkCb]
          rw [hk, ← T.idx, T.mode]
      · have := R.rid_lt h h'; omega
  · intro c f q hs hk
    have hmono : ∀ (a' : Nat) (x : Coll), s.colls[a']? = some x → ∃ x', (advanced s m a i p ps stk).colls[a']? = some x' ∧
        x'.mode = x.mode ∧ ∀ (k rid : Nat), x.rids[k]? = some rid → x'.rids[k]? = some rid := by
      intro a' x h
      rw [hcolls]
      by_cases ha : a' = a
      · subst ha
        rw [T.coll] at h; cases h
        exact ⟨_, (set_lookup _ _ _ hlt _ _).mpr (.inl ⟨rfl, rfl⟩), rfl,
          fun k rid hk => (getElem?_snoc_eq_some _ _ _ _).mpr (.inl hk)⟩
      · exact ⟨x, (set_lookup _ _ _ hlt _ _).mpr (.inr ⟨ha, h⟩), rfl, fun _ _ h => h⟩
    rcases hsys c hs with hold | ⟨b, rfl⟩
    · exact RidOk_mono hmono (R.rid c f q hold hk)
    · simp only [mkCb, CbKind.wrap.injEq] at hk
      obtain ⟨rfl, _⟩ := hk
      have hmine : (advanced s m a i p ps stk).colls[a]? = some { r with rids := r.rids ++ [s.regs.length] } := by
        rw [hcolls]; exact (set_lookup _ _ _ hlt _ _).mpr (.inl ⟨rfl, rfl⟩)
      have hlast : (r.rids ++ [s.regs.length])[i]? = some s.regs.length := by
        rw [T.idx]; simp
      cases m <;> cases b <;> simp only [loopFn, RidOk, mkCb_rid, mkCb_br]
      · exact ⟨trivial, _, hmine, T.mode, hlast⟩
      · exact ⟨trivial, _, hmine, T.mode, by simp⟩
      · exact ⟨_, hmine, T.mode, by simp⟩
      · exact ⟨_, hmine, T.mode, by simp⟩

/-! ### a callback is taken from a notification loop and invoked -/

def invoked (s : State) (v : Val) (c : Cb) (todo : List Cb) (stk : List Frame) : State :=
  { s with stack := .notify v todo :: stk, log := .invoke c.rid c.br v :: s.log }

theorem InSys_invoked {s : State} {v c todo stk c'} (hs : s.stack = .notify v (c :: todo) :: stk)
    (h : InSys (invoked s v c todo stk) c') : InSys s c' := by
  rcases h with ⟨p, pr, b, hp, hc⟩ | ⟨v', todo', hm, hc⟩
  · exact .inl ⟨p, pr, b, hp, hc⟩
  · simp only [invoked, List.mem_cons] at hm
    rcases hm with hm | hm
    · cases hm; exact .inr ⟨v, c :: todo, by rw [hs]; exact List.mem_cons_self .., List.mem_cons_of_mem _ hc⟩
    · exact .inr ⟨v', todo', by rw [hs]; exact List.mem_cons_of_mem _ hm, hc⟩

theorem OInv_invoked {s : State} (O : OInv s) {v c todo stk} (hs : s.stack = .notify v (c :: todo) :: stk) :
    OInv (invoked s v c todo stk) := by
  refine O.transfer (Ext.of_heap_eq rfl) (fun c' h => .inl (InSys_invoked hs h)) ?_ (fun a r h => .inl ⟨r, h, rfl⟩)
  intro f hf
  simp only [invoked, List.mem_cons] at hf
  rcases hf with rfl | hf
  · exact .inr (.inl ⟨_, _, rfl⟩)
  · exact .inl (by rw [hs]; exact List.mem_cons_of_mem _ hf)

theorem LInv_invoked {s : State} (L : LInv s) {v c todo stk} (hs : s.stack = .notify v (c :: todo) :: stk) :
    LInv (invoked s v c todo stk) := by
  refine L.transfer rfl (Nat.le_refl _) ?_ ?_
  · intro m a i rest h
    simp only [invoked, List.mem_cons] at h
    rcases h with h | h
    · cases h
    · rw [hs]; exact List.mem_cons_of_mem _ h
  · intro a; rw [hs]; simp [invoked, loopCnt_cons, isLoop]

theorem countP_flip {l : List Nat} {P P' : Nat → Bool} {x : Nat} (hnd : l.Pairwise (· < ·)) (hx : x ∈ l)
    (hne : ∀ y ∈ l, y ≠ x → P' y = P y) (h0 : P x = false) (h1 : P' x = true) :
    l.countP P' = l.countP P + 1 := by
  induction l with
  | nil => cases hx
  | cons y ys ih =>
    rw [List.pairwise_cons] at hnd
    simp only [List.countP_cons]
    by_cases hxy : x = y
    · subst hxy
      have : ys.countP P' = ys.countP P := by
        apply countP_congr_mem
        intro z hz
        exact hne z (List.mem_cons_of_mem _ hz) (by have := hnd.1 z hz; omega)
      rw [this, h0, h1]; simp
    · have hx' : x ∈ ys := by
        rcases List.mem_cons.mp hx with h | h
        · exact absurd h hxy
        · exact h
      rw [ih hnd.2 hx' (fun z hz hzx => hne z (List.mem_cons_of_mem _ hz) hzx)]
      rw [hne y (List.mem_cons_self ..) (fun e => hxy e.symm)]
      omega

/-- what the accounting invariant says about the callback at the head of a notification loop -/
theorem Inv.head_uncalled {s : State} (I : Inv s) {v c todo stk} (hs : s.stack = .notify v (c :: todo) :: stk) :
    InSys s c ∧ SettledAs s c.rid c.br v ∧ ∀ b, calls c.rid b s.log = 0 := by
  have hm : Frame.notify v (c :: todo) ∈ s.stack := by rw [hs]; exact List.mem_cons_self ..
  have hset := I.frames v (c :: todo) hm c (List.mem_cons_self ..)
  refine ⟨.inr ⟨v, c :: todo, hm, List.mem_cons_self ..⟩, hset, ?_⟩
  obtain ⟨p, pr, h1, h2, h3⟩ := hset
  intro b
  by_cases hb : b = c.br
  · subst hb
    have := (I.acct c.rid p pr h1 h2).2 c.br v h3
    rw [hs, stackCnt_cons] at this
    simp only [frameCnt, cnt_cons] at this
    simp at this
    omega
  · exact (I.stack_zero h1 h2 (b := b) (by intro v' h'; rw [h3] at h'; cases h'; exact hb rfl)).2

theorem calls_invoked {s : State} {v c todo stk} (rid b) :
    calls rid b (invoked s v c todo stk).log = calls rid b s.log + if c.rid = rid ∧ c.br = b then 1 else 0 := by
  simp [invoked, calls_cons, Event.isInv]

/-- the callback is not one of a collector's closures that count (`allThen`, `waitDone`): the collectors'
counters still agree with the log -/
theorem RInv_invoked_other {s : State} (I : Inv s) (R : RInv s) {v c todo stk}
    (hs : s.stack = .notify v (c :: todo) :: stk)
    (hk : ∀ f q, c.kind = .wrap f q → (∀ a i, f ≠ .allThen a i) ∧ (∀ a, f ≠ .waitDone a)) :
    RInv (invoked s v c todo stk) := by
  obtain ⟨hcs, _, _⟩ := I.head_uncalled hs
  -- a collector that registered `c` would have made it one of the excluded closures, except `allFail`
  have hmem : ∀ (a : Nat) (r : Coll) (k : Nat), s.colls[a]? = some r → r.rids[k]? = some c.rid → r.mode = .all ∧ c.br = .rej := by
    intro a r k h h'
    obtain ⟨q, hq⟩ := R.kind a r k c h hcs h'
    have := hk _ _ hq
    cases hm : r.mode <;> cases hb : c.br <;> simp [loopFn, hm, hb] at this
    exact ⟨rfl, rfl⟩
  refine ⟨R.len, R.reg, R.inc, ?_, ?_, ?_, ?_⟩
  · intro a r h
    rw [R.done a r h]
    apply countP_congr_mem
    intro rid hrid
    obtain ⟨k, hk'⟩ := List.getElem?_of_mem hrid
    by_cases he : c.rid = rid
    · subst he
      obtain ⟨hm, hb⟩ := hmem a r k h hk'
      simp [doneP, hm, calls_invoked, hb]
    · apply (doneP_congr ?_).symm
      intro b; simp [calls_invoked, he]
  · intro a r k rid v' h hm h' hiv
    simp only [invoked, List.mem_cons] at hiv
    rcases hiv with hiv | hiv
    · simp only [Event.invoke.injEq] at hiv
      obtain ⟨h1, h2, _⟩ := hiv
      have := (hmem a r k h (h1 ▸ h')).2
      rw [← h2] at this; cases this
    · exact R.res a r k rid v' h hm h' hiv
  · intro a r k c' h hs' h'
    exact R.kind a r k c' h (InSys_invoked hs hs') h'
  · intro c' f q hs' hk'
    exact R.rid c' f q (InSys_invoked hs hs') hk'

theorem pairwise_lt_inj {l : List Nat} (h : l.Pairwise (· < ·)) {k i x : Nat} (hk : l[k]? = some x) (hi : l[i]? = some x) :
    k = i := by
  induction l generalizing k i with
  | nil => simp at hk
  | cons y ys ih =>
    rw [List.pairwise_cons] at h
    cases k with
    | zero =>
      cases i with
      | zero => rfl
      | succ i =>
        simp at hk hi; subst hk
        have := h.1 _ (List.mem_of_getElem? hi); omega
    | succ k =>
      cases i with
      | zero =>
        simp at hk hi; subst hi
        have := h.1 _ (List.mem_of_getElem? hk); omega
      | succ i =>
        simp at hk hi
        rw [ih h.2 hk hi]

theorem calls_pos_of_mem {rid b v} {log : List Event} (h : Event.invoke rid b v ∈ log) : 1 ≤ calls rid b log := by
  unfold calls
  exact List.countP_pos_iff.mpr ⟨_, h, by simp [Event.isInv]⟩

def setColl (s : State) (a : Nat) (r : Coll) : State := { s with colls := s.colls.set a r }

theorem InSys_setColl {s : State} {a r c} (h : InSys (setColl s a r) c) : InSys s c :=
  InSys_of h rfl (fun _ _ h => h)

/-- `allThen(i, v)` of collector `a`: the callback leaves the loop, `results[i] = v`, `num_done += 1` -/
theorem RInv_invoked_allThen {s : State} (I : Inv s) (R : RInv s) {v c todo stk a i q r}
    (hs : s.stack = .notify v (c :: todo) :: stk) (hk : c.kind = .wrap (.allThen a i) q) (hr : s.colls[a]? = some r) :
    RInv (setColl (invoked s v c todo stk) a { r with results := r.results.set i v, numDone := r.numDone + 1 }) := by
  obtain ⟨hcs, _, hzero⟩ := I.head_uncalled hs
  obtain ⟨hbr, r0, hr0, hmode, hrid⟩ := R.rid c _ q hcs hk
  rw [hr] at hr0; cases hr0
  have hlt : a < s.colls.length := (List.getElem?_eq_some_iff.mp hr).1
  have hlook : ∀ (a' : Nat) (x : Coll),
      (setColl (invoked s v c todo stk) a { r with results := r.results.set i v, numDone := r.numDone + 1 }).colls[a']? = some x →
      (a' = a ∧ x = { r with results := r.results.set i v, numDone := r.numDone + 1 }) ∨ (a' ≠ a ∧ s.colls[a']? = some x) :=
    fun a' x h => (set_lookup _ _ _ hlt _ _).mp h
  have hsys : ∀ c', InSys (setColl (invoked s v c todo stk) a { r with results := r.results.set i v, numDone := r.numDone + 1 }) c' →
      InSys s c' := fun c' h => InSys_invoked hs (InSys_setColl h)
  -- no other collector registered `c`
  have hother : ∀ (a' : Nat) (x : Coll) (k : Nat), a' ≠ a → s.colls[a']? = some x → x.rids[k]? ≠ some c.rid := by
    intro a' x k hne h h'
    obtain ⟨q', hq'⟩ := R.kind a' x k c h hcs h'
    rw [hk] at hq'
    cases hm : x.mode <;> simp [loopFn, hm, hbr] at hq'
    exact hne hq'.1.1.symm
  have hcalls : ∀ rid b, calls rid b (invoked s v c todo stk).log =
      calls rid b s.log + if c.rid = rid ∧ c.br = b then 1 else 0 := fun rid b => calls_invoked rid b
  refine ⟨?_, ?_, ?_, ?_, ?_, ?_, ?_⟩
  · intro a' x h
    rcases hlook a' x h with ⟨rfl, rfl⟩ | ⟨_, h⟩
    · have := R.len a' r hr
      exact ⟨this.1, fun hm => by simp [this.2 hm]⟩
    · exact R.len a' x h
  · intro a' x k rid h h'
    rcases hlook a' x h with ⟨rfl, rfl⟩ | ⟨_, h⟩
    · exact R.reg a' r k rid hr h'
    · exact R.reg a' x k rid h h'
  · intro a' x h
    rcases hlook a' x h with ⟨rfl, rfl⟩ | ⟨_, h⟩
    · exact R.inc a' r hr
    · exact R.inc a' x h
  · intro a' x h
    rcases hlook a' x h with ⟨rfl, rfl⟩ | ⟨hne, h⟩
    · show r.numDone + 1 = r.rids.countP (doneP r.mode (invoked s v c todo stk).log)
      rw [R.done a' r hr]
      refine (countP_flip (R.inc a' r hr) (List.mem_of_getElem? hrid) ?_ ?_ ?_).symm
      · intro y _ hy
        apply doneP_congr; intro b
        have : ¬ c.rid = y := fun e => hy e.symm
        simp [hcalls, this]
      · simp [doneP, hmode, hzero]
      · simp [doneP, hmode, hcalls, hbr, hzero]
    · show x.numDone = x.rids.countP (doneP x.mode (invoked s v c todo stk).log)
      rw [R.done a' x h]
      apply countP_congr_mem
      intro rid hrid'
      obtain ⟨k, hk'⟩ := List.getElem?_of_mem hrid'
      have : ¬ c.rid = rid := fun e => hother a' x k hne h (e ▸ hk')
      apply (doneP_congr ?_).symm
      intro b; simp [hcalls, this]
  · intro a' x k rid v' h hm h' hiv
    have hiv' : (rid = c.rid ∧ v' = v) ∨ Event.invoke rid .res v' ∈ s.log := by
      simp only [setColl, invoked, List.mem_cons, Event.invoke.injEq] at hiv
      rcases hiv with ⟨h1, _, h3⟩ | hiv
      · exact .inl ⟨h1, h3⟩
      · exact .inr hiv
    rcases hlook a' x h with ⟨rfl, rfl⟩ | ⟨hne, hx⟩
    · have hlen := (R.len a' r hr)
      have hi_lt : i < r.results.length := by
        rw [hlen.2 hmode]
        have := (List.getElem?_eq_some_iff.mp hrid).1
        omega
      show (r.results.set i v)[k]? = some v'
      rcases hiv' with ⟨rfl, rfl⟩ | hold
      · have := pairwise_lt_inj (R.inc a' r hr) h' hrid
        subst this
        simp [hi_lt]
      · have hki : k ≠ i := by
          intro e; subst e
          rw [hrid] at h'; cases h'
          have := calls_pos_of_mem hold
          have := hzero .res
          omega
        rw [List.getElem?_set_ne (fun e => hki e.symm)]
        exact R.res a' r k rid v' hr hm h' hold
    · rcases hiv' with ⟨rfl, rfl⟩ | hold
      · exact absurd h' (hother a' x k hne hx)
      · exact R.res a' x k rid v' hx hm h' hold
  · intro a' x k c' h hs' h'
    rcases hlook a' x h with ⟨rfl, rfl⟩ | ⟨_, h⟩
    · exact R.kind a' r k c' hr (hsys c' hs') h'
    · exact R.kind a' x k c' h (hsys c' hs') h'
  · intro c' f q' hs' hk'
    refine RidOk_mono ?_ (R.rid c' f q' (hsys c' hs') hk')
    intro a' x h
    by_cases ha : a' = a
    · subst ha
      rw [hr] at h; cases h
      exact ⟨_, (set_lookup _ _ _ hlt _ _).mpr (.inl ⟨rfl, rfl⟩), rfl, fun _ _ h => h⟩
    · exact ⟨x, (set_lookup _ _ _ hlt _ _).mpr (.inr ⟨ha, h⟩), rfl, fun _ _ h => h⟩

/-- `done(_)` of wait-collector `a`: the callback leaves the loop, `num_done += 1` -/
theorem RInv_invoked_waitDone {s : State} (I : Inv s) (R : RInv s) {v c todo stk a q r}
    (hs : s.stack = .notify v (c :: todo) :: stk) (hk : c.kind = .wrap (.waitDone a) q) (hr : s.colls[a]? = some r) :
    RInv (setColl (invoked s v c todo stk) a { r with numDone := r.numDone + 1 }) := by
  obtain ⟨hcs, _, hzero⟩ := I.head_uncalled hs
  obtain ⟨r0, hr0, hmode, hrid⟩ := R.rid c _ q hcs hk
  rw [hr] at hr0; cases hr0
  have hlt : a < s.colls.length := (List.getElem?_eq_some_iff.mp hr).1
  have hlook : ∀ (a' : Nat) (x : Coll),
      (setColl (invoked s v c todo stk) a { r with numDone := r.numDone + 1 }).colls[a']? = some x →
      (a' = a ∧ x = { r with numDone := r.numDone + 1 }) ∨ (a' ≠ a ∧ s.colls[a']? = some x) :=
    fun a' x h => (set_lookup _ _ _ hlt _ _).mp h
  have hsys : ∀ c', InSys (setColl (invoked s v c todo stk) a { r with numDone := r.numDone + 1 }) c' →
      InSys s c' := fun c' h => InSys_invoked hs (InSys_setColl h)
  have hother : ∀ (a' : Nat) (x : Coll) (k : Nat), a' ≠ a → s.colls[a']? = some x → x.rids[k]? ≠ some c.rid := by
    intro a' x k hne h h'
    obtain ⟨q', hq'⟩ := R.kind a' x k c h hcs h'
    rw [hk] at hq'
    cases hm : x.mode <;> cases hb : c.br <;> simp [loopFn, hm, hb] at hq'
    all_goals exact hne hq'.1.symm
  have hcalls : ∀ rid b, calls rid b (invoked s v c todo stk).log =
      calls rid b s.log + if c.rid = rid ∧ c.br = b then 1 else 0 := fun rid b => calls_invoked rid b
  refine ⟨?_, ?_, ?_, ?_, ?_, ?_, ?_⟩
  · intro a' x h
    rcases hlook a' x h with ⟨rfl, rfl⟩ | ⟨_, h⟩
    · exact R.len a' r hr
    · exact R.len a' x h
  · intro a' x k rid h h'
    rcases hlook a' x h with ⟨rfl, rfl⟩ | ⟨_, h⟩
    · exact R.reg a' r k rid hr h'
    · exact R.reg a' x k rid h h'
  · intro a' x h
    rcases hlook a' x h with ⟨rfl, rfl⟩ | ⟨_, h⟩
    · exact R.inc a' r hr
    · exact R.inc a' x h
  · intro a' x h
    rcases hlook a' x h with ⟨rfl, rfl⟩ | ⟨hne, hx⟩
    · show r.numDone + 1 = r.rids.countP (doneP r.mode (invoked s v c todo stk).log)
      rw [R.done a' r hr]
      refine (countP_flip (R.inc a' r hr) hrid ?_ ?_ ?_).symm
      · intro y _ hy
        apply doneP_congr; intro b
        have : ¬ c.rid = y := fun e => hy e.symm
        simp [hcalls, this]
      · simp [doneP, hmode, hzero]
      · cases hb : c.br <;> simp [doneP, hmode, hcalls, hb, hzero]
    · show x.numDone = x.rids.countP (doneP x.mode (invoked s v c todo stk).log)
      rw [R.done a' x hx]
      apply countP_congr_mem
      intro rid hrid'
      obtain ⟨k, hk'⟩ := List.getElem?_of_mem hrid'
      have : ¬ c.rid = rid := fun e => hother a' x k hne hx (e ▸ hk')
      apply (doneP_congr ?_).symm
      intro b; simp [hcalls, this]
  · intro a' x k rid v' h hm h' hiv
    have hiv' : (rid = c.rid ∧ v' = v) ∨ Event.invoke rid .res v' ∈ s.log := by
      simp only [setColl, invoked, List.mem_cons, Event.invoke.injEq] at hiv
      rcases hiv with ⟨h1, _, h3⟩ | hiv
      · exact .inl ⟨h1, h3⟩
      · exact .inr hiv
    rcases hlook a' x h with ⟨rfl, rfl⟩ | ⟨hne, hx⟩
    · rw [hmode] at hm; cases hm
    · rcases hiv' with ⟨rfl, rfl⟩ | hold
      · exact absurd h' (hother a' x k hne hx)
      · exact R.res a' x k rid v' hx hm h' hold
  · intro a' x k c' h hs' h'
    rcases hlook a' x h with ⟨rfl, rfl⟩ | ⟨_, h⟩
    · exact R.kind a' r k c' hr (hsys c' hs') h'
    · exact R.kind a' x k c' h (hsys c' hs') h'
  · intro c' f q' hs' hk'
    refine RidOk_mono ?_ (R.rid c' f q' (hsys c' hs') hk')
    intro a' x h
    by_cases ha : a' = a
    · subst ha
      rw [hr] at h; cases h
      exact ⟨_, (set_lookup _ _ _ hlt _ _).mpr (.inl ⟨rfl, rfl⟩), rfl, fun _ _ h => h⟩
    · exact ⟨x, (set_lookup _ _ _ hlt _ _).mpr (.inr ⟨ha, h⟩), rfl, fun _ _ h => h⟩

end RedunModel.Promise
