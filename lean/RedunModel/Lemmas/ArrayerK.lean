import RedunModel.Lemmas.ArrayerB
namespace RedunModel.Arrayer

theorem length_flat_dset_append (d : Dict (List Job)) (k : Nat) (extra : List Job) :
    (flat (dset d k ((dget d k).getD [] ++ extra))).length = (flat d).length + extra.length := by
  induction d with
  | nil => simp [dset, flat, dget]
  | cons e r ih =>
    obtain ⟨k0, v0⟩ := e
    simp only [dset, dget]
    split
    · simp [flat]; omega
    · simp only [flat, List.map_cons, List.flatten_cons, List.length_append] at ih ⊢; rw [ih]; omega

theorem length_flat_derase (d : Dict (List Job)) (k : Nat) (js : List Job)
    (hn : (dkeys d).Nodup) (hg : dget d k = some js) :
    (flat d).length = js.length + (flat (derase d k)).length := by
  induction d with
  | nil => simp at hg
  | cons e r ih =>
    obtain ⟨k0, v0⟩ := e
    simp only [dget] at hg
    simp only [dkeys, List.map_cons, List.nodup_cons] at hn
    simp only [derase]
    split
    · rename_i h; subst h; simp at hg; subst hg
      rw [derase_of_not_mem r k0 hn.1]; simp [flat]
    · rename_i h; simp [h] at hg
      have := ih hn.2 hg
      simp only [flat, List.map_cons, List.flatten_cons, List.length_append] at this ⊢; omega

/-- jobs taken out of `pending` whose removal has not been subtracted from `num_pending` yet -/
def debt (m : Mon) : Nat :=
  match m.pc with
  | .p185 | .p183x | .p188 | .p189 | .p190 => m.jobs.length
  | .p191 | .p193 | .p194 => m.jobs.length + m.remainder.length
  | .p195 | .p193x | .p197 | .p198 | .p199 | .p201 | .pdLock | .p203 => m.jobs.length
  | _ => 0

/-- jobs appended by `add_job` whose `num_pending += 1` has not run yet -/
def credit (a : Adder) : Int :=
  match a.pc with
  | .a165 | .a166 => 1
  | _ => 0

structure InvK (p : Params) (s : State) : Prop where
  cnt : s.num + credit s.ad = ((flat s.pending).length : Int) + (debt s.mon : Int)
  rem190 : s.mon.pc = .p190 → s.mon.remainder = s.mon.jobs.drop p.maxSize

theorem invK_init (p : Params) (jobs : List Job) : InvK p (init jobs) := by
  unfold init; split <;> constructor <;> simp [flat, debt, credit]

theorem credit_nextCall (a : Adder) : credit (nextCall a) = 0 := by
  rcases nextCall_pc a with h | h <;> simp [credit, h]

set_option maxHeartbeats 2000000 in
theorem invK_stepS (c : Cfg) (p : Params) (s s' : State) (hA : InvA c s) (h : InvK p s)
    (hs : stepS p s = some s') : InvK p s' := by
  obtain ⟨pending, stamps, num, lock, clock, submitted, errors, added, started, ⟨apc, cur, todo⟩, mon⟩ := s
  obtain ⟨hS, hM, lS, lM, c1, c2, c3, sp⟩ := hA
  obtain ⟨cnt, r190⟩ := h
  have hn := credit_nextCall ⟨apc, cur, todo⟩
  simp only at hS hM lS lM c1 c2 c3 sp cnt r190
  cases apc <;> simp only [stepS] at hs <;> (try split at hs) <;> simp at hs <;> (try subst hs)
  all_goals (constructor <;> simp only [credit, length_flat_dset_append] at * )
  all_goals first
    | assumption
    | grind [debt, monAlive]

set_option maxHeartbeats 4000000 in
theorem invK_stepM (c : Cfg) (hc : c.lockDec = true) (p : Params) (s s' : State) (hA : InvA c s) (hB : InvB s) (h : InvK p s)
    (hs : stepM c p s = some s') : InvK p s' := by
  obtain ⟨pending, stamps, num, lock, clock, submitted, errors, added, started, ad, ⟨mpc, currtime, iterUsed, iterRest, descr, isStale, acc, stales, jobs', remainder, timestamp, loopJobs, job, decRead, err⟩⟩ := s
  obtain ⟨hS, hM, lS, lM, c1, c2, c3, sp⟩ := hA
  obtain ⟨kn, st, a5⟩ := hB
  obtain ⟨cnt, r190⟩ := h
  simp only at hS hM lS lM c1 c2 c3 sp kn st a5 cnt r190
  cases mpc <;> simp only [stepM, iterNext, afterScan, afterScanErr, decEntry, hc] at hs <;> (try split at hs) <;> (try split at hs) <;> simp at hs <;> (try subst hs)
  all_goals (constructor <;> simp only [debt, length_flat_dset_append] at * )
  all_goals first
    | assumption
    | (rename_i hg; have := length_flat_derase _ _ _ kn hg; grind)
    | (have h := r190 trivial; subst h; simp only [List.length_take, List.length_drop] at *; grind)
    | grind
end RedunModel.Arrayer
