import RedunModel.Lemmas.MonitorLocked
namespace RedunModel.MonitorLocked

def rest (s : State) : List Job :=
  match s.sph with
  | .ins => s.cur :: s.todo
  | _ => s.todo

structure InvC (jobs : List Job) (s : State) : Prop where
  cons : ∀ j, s.submitted.count j = s.pending.count j + s.reported.count j
  prog : jobs = s.submitted ++ rest s

theorem invC_init (jobs : List Job) : InvC jobs (init jobs) := by
  unfold init; split <;> constructor <;> simp [rest]

theorem count_erase_of_mem (l : List Job) (a j : Job) (h : l.contains a = true) :
    (l.erase a).count j + (if a = j then 1 else 0) = l.count j := by
  have hm : a ∈ l := by simpa using h
  induction l with
  | nil => simp at hm
  | cons x r ih =>
    by_cases hx : x = a
    · subst hx; simp [List.count_cons]
    · have hr : a ∈ r := by
        rcases List.mem_cons.1 hm with h | h
        · exact absurd h.symm hx
        · exact h
      have := ih (by simpa using hr) hr
      have hxa : (x == a) = false := by simp [hx]
      simp only [List.erase_cons, hxa, List.count_cons]
      simp only [Bool.false_eq_true, if_false, List.count_cons] at this ⊢; omega

theorem invC_stepS (jobs : List Job) (s s' : State) (h : InvC jobs s) (hs : stepS s = some s') : InvC jobs s' := by
  obtain ⟨flag, pending, lock, reported, submitted, sph, cur, todo, mon, old⟩ := s
  obtain ⟨h1, h2⟩ := h
  simp only at h1 h2
  cases sph <;> simp only [stepS] at hs <;> (try split at hs) <;> simp at hs <;> (try subst hs)
  all_goals (try (simp only [finishS]; split))
  all_goals (constructor <;> simp only [rest] at * )
  all_goals first
    | assumption
    | grind

theorem invC_stepMon (jobs : List Job) (s s' : State) (me : Tid) (m m' : Mon) (h : InvC jobs s)
    (hs : stepMon s me m = some (s', m')) :
    (∀ j, s'.submitted.count j = s'.pending.count j + s'.reported.count j) ∧ s'.submitted = s.submitted ∧
      s'.sph = s.sph ∧ s'.cur = s.cur ∧ s'.todo = s.todo := by
  obtain ⟨flag, pending, lock, reported, submitted, sph, cur, todo, mon, old⟩ := s
  obtain ⟨mph, iter, mcur⟩ := m
  obtain ⟨h1, h2⟩ := h
  simp only at h1 h2
  cases mph <;> simp only [stepMon] at hs <;> (try split at hs) <;> simp at hs <;> (try (obtain ⟨hs1, hs2⟩ := hs; subst hs1; subst hs2))
  all_goals (refine ⟨?_, rfl, rfl, rfl, rfl⟩)
  all_goals first
    | exact h1
    | (intro j; rename_i hc; have := count_erase_of_mem _ _ j hc; have := h1 j; simp only [List.count_append, List.count_cons, List.count_nil] at *; grind)

theorem invC_step (jobs : List Job) (s s' : State) (t : Tid) (h : InvC jobs s) (hs : step s t = some s') : InvC jobs s' := by
  cases t with
  | S => exact invC_stepS jobs s s' h hs
  | M =>
    simp only [step] at hs
    split at hs
    · simp at hs
    · rename_i s'' m' hm; simp at hs; subst hs
      obtain ⟨a, b, c, d, e⟩ := invC_stepMon jobs s s'' .M s.mon m' h hm
      exact ⟨a, by simp only [rest] at *; rw [b, c, d, e]; exact h.prog⟩
  | O k =>
    simp only [step] at hs
    split at hs
    · simp at hs
    · rename_i m hk
      split at hs
      · simp at hs
      · rename_i s'' m' hm; simp at hs; subst hs
        obtain ⟨a, b, c, d, e⟩ := invC_stepMon jobs s s'' (.O k) m m' h hm
        exact ⟨a, by simp only [rest] at *; rw [b, c, d, e]; exact h.prog⟩

theorem reachable_invC {jobs : List Job} {s : State} (h : Reachable jobs s) : InvC jobs s := by
  induction h with
  | init => exact invC_init jobs
  | step t _ hs ih => exact invC_step jobs _ _ t ih hs

/-- the submitter reaches `done` only with an empty to-do list -/
structure InvT (s : State) : Prop where
  doneNil : s.sph = .done → s.todo = []

theorem invT_stepS (s s' : State) (h : InvT s) (hs : stepS s = some s') : InvT s' := by
  obtain ⟨flag, pending, lock, reported, submitted, sph, cur, todo, mon, old⟩ := s
  obtain ⟨h1⟩ := h
  simp only at h1
  cases sph <;> simp only [stepS] at hs <;> (try split at hs) <;> simp at hs <;> (try subst hs)
  all_goals (try (simp only [finishS]; split))
  all_goals (constructor; simp_all)

theorem reachable_invT {jobs : List Job} {s : State} (h : Reachable jobs s) : InvT s := by
  induction h with
  | init => unfold init; split <;> constructor <;> simp
  | @step s0 s1 t hr hs ih =>
    cases t with
    | S => exact invT_stepS s0 s1 ih hs
    | M =>
      simp only [step] at hs
      split at hs
      · simp at hs
      · rename_i s'' m' hm; simp at hs; subst hs
        obtain ⟨_, _, c, _, e⟩ := invC_stepMon jobs s0 s'' .M s0.mon m' (reachable_invC hr) hm
        exact ⟨by simp only; rw [c, e]; exact ih.doneNil⟩
    | O k =>
      simp only [step] at hs
      split at hs
      · simp at hs
      · rename_i m hk
        split at hs
        · simp at hs
        · rename_i s'' m' hm; simp at hs; subst hs
          obtain ⟨_, _, c, _, e⟩ := invC_stepMon jobs s0 s'' (.O k) m m' (reachable_invC hr) hm
          exact ⟨by simp only; rw [c, e]; exact ih.doneNil⟩

theorem todo_nil_of_done {jobs : List Job} {s : State} (h : Reachable jobs s) (hd : s.sph = .done) : s.todo = [] :=
  (reachable_invT h).doneNil hd

theorem reachable_run (jobs : List Job) (sched : List Tid) :
    ∀ s, Reachable jobs s → Reachable jobs (run s sched) := by
  induction sched with
  | nil => intro s h; exact h
  | cons t ts ih =>
    intro s h
    simp only [run]
    split
    · rename_i s' hs; exact ih s' (Reachable.step t h hs)
    · exact ih s h
end RedunModel.MonitorLocked
