/-
Composition of the collector invariants of `RedunModel.Lemmas.PromiseColl` over every machine step and every
operation (`CInv`), and the invariant of the collectors' target promises (`TInv`): unless user code settled the
target itself, it is pending while inputs are outstanding (and, for `Promise.all`, none has been seen rejected),
fulfilled with the collected results exactly when all have reported, rejected with the error of the first `fail`
callback that ran.  `Reach.ginv`: all of this holds in every reachable state.
-/
import RedunModel.Lemmas.PromiseColl
namespace RedunModel.Promise

/-! ### the three collector invariants together, through every step -/

structure CInv (s : State) : Prop where
  i : Inv s
  o : OInv s
  l : LInv s
  r : RInv s

theorem OInv.push {s : State} (O : OInv s) (f : Frame)
    (hf : (∃ r q, f = .finish r q ∧ origin s q = some .chained) ∨
        (∃ arg acts out q, f = .script arg acts (.wrapper out q) ∧ origin s q = some .chained) ∨
        (∃ arg acts out p, f = .script arg acts (.ctor out p) ∧ origin s p = some .user) ∨
        (∃ arg acts, f = .script arg acts .top)) : OInv (push f s) := by
  refine O.same_heap rfl ?_ (fun a r h => ⟨r, h, rfl⟩)
  intro f' h
  simp only [Promise.push, List.mem_cons] at h
  rcases h with rfl | h
  · exact .inr (.inr hf)
  · exact .inl h

theorem OInv.pop {s : State} (O : OInv s) {f rest} (hs : s.stack = f :: rest) : OInv { s with stack := rest } :=
  O.same_heap rfl (fun f' h => .inl (by rw [hs]; exact List.mem_cons_of_mem _ h)) (fun a r h => ⟨r, h, rfl⟩)

theorem RInv.pop {s : State} (R : RInv s) {f rest} (hs : s.stack = f :: rest) : RInv { s with stack := rest } :=
  R.restack rest (fun v todo h => by rw [hs]; exact List.mem_cons_of_mem _ h)

theorem CInv.pop {s : State} (C : CInv s) {f rest} (hs : s.stack = f :: rest)
    (hn : ∀ rid b, frameCnt rid b f = 0) (hl : ∀ m a i p ps, f ≠ .loop m a i (p :: ps)) :
    CInv { s with stack := rest } :=
  ⟨C.i.pop hs hn, C.o.pop hs, C.l.pop hs hl, C.r.pop hs⟩

theorem CInv.emit {s : State} (C : CInv s) (e : Event) (he : ∀ rid b v, e ≠ .invoke rid b v) : CInv (emit e s) :=
  ⟨C.i.emit e he, C.o.emit e, C.l.emit e, C.r.emit e he⟩

theorem CInv_settle {s : State} (C : CInv s) (b q v) : CInv (settle b q v s) :=
  ⟨Inv_settle C.i b q v, OInv_settle C.o b q v, LInv_settle C.l b q v, RInv_settle C.r b q v⟩

theorem CInv_newProm {s : State} (C : CInv s) (o) : CInv (newProm o s) :=
  ⟨Inv_newProm C.i o, OInv_newProm C.o o, LInv_newProm C.l o, RInv_newProm C.r o⟩

theorem CInv_thenOp {s : State} (C : CInv s) (p r j)
    (hr : ∀ f, r = some f ∨ j = some f → (∀ a i, f ≠ .allThen a i) ∧ (∀ a, f ≠ .allFail a) ∧ (∀ a, f ≠ .waitDone a))
    (hadp : ∀ b p', (r = some (.adopt b p') ∨ j = some (.adopt b p')) → origin s p' = some .chained) :
    CInv (thenOp p r j s) :=
  ⟨Inv_thenOp C.i p r j, OInv_thenOp C.o p r j hadp, LInv_thenOp C.l p r j, RInv_thenOp C.i C.r p r j hr⟩

theorem CInv_collect {s : State} (C : CInv s) (m ps) : CInv (collect m ps s) :=
  ⟨Inv_collect C.i m ps, OInv_collect C.o m ps, LInv_collect C.l m ps, RInv_collect C.r m ps⟩

/-- pushing a `wrapper` continuation / a function body for a chained promise, or a top-level body -/
theorem CInv.push {s : State} (C : CInv s) (f : Frame)
    (hf : (∃ r q, f = .finish r q ∧ origin s q = some .chained) ∨
        (∃ arg acts out q, f = .script arg acts (.wrapper out q) ∧ origin s q = some .chained) ∨
        (∃ arg acts out p, f = .script arg acts (.ctor out p) ∧ origin s p = some .user) ∨
        (∃ arg acts, f = .script arg acts .top)) : CInv (push f s) := by
  have h1 : ∀ v todo, f ≠ .notify v todo := by
    intro v todo e; subst e
    rcases hf with ⟨_, _, h, _⟩ | ⟨_, _, _, _, h, _⟩ | ⟨_, _, _, _, h, _⟩ | ⟨_, _, h⟩ <;> cases h
  have h2 : ∀ m a i rest, f ≠ .loop m a i rest := by
    intro m a i rest e; subst e
    rcases hf with ⟨_, _, h, _⟩ | ⟨_, _, _, _, h, _⟩ | ⟨_, _, _, _, h, _⟩ | ⟨_, _, h⟩ <;> cases h
  exact ⟨C.i.push f h1, C.o.push f hf, C.l.push f h2, C.r.push f h1⟩

theorem CInv_finish {s : State} (C : CInv s) (r q) (hq : origin s q = some .chained) : CInv (finish r q s) := by
  unfold finish
  split
  · refine CInv_thenOp (C.emit _ (by intros; simp)) _ _ _ ?_ ?_
    · intro f hf
      rcases hf with hf | hf <;> cases hf <;> simp
    · intro b p' h
      rcases h with h | h <;> cases h <;> exact hq
  · exact CInv_settle C _ _ _

/-- what the continuation of a function body refers to -/
def KontOk (s : State) : Kont → Prop
  | .wrapper _ q => origin s q = some .chained
  | .ctor _ p => origin s p = some .user
  | .top => True

theorem CInv_kont {s : State} (C : CInv s) (arg k) (hk : KontOk s k) : CInv (kont arg k s) := by
  unfold kont
  split
  · exact C
  · exact CInv_finish C _ _ hk
  · exact CInv_finish C _ _ hk
  · exact CInv_settle C _ _ _
  · exact CInv_settle C _ _ _
  · exact C

theorem origin_newProm_new (o) (s : State) : origin (newProm o s) s.heap.length = some o := by
  simp [origin, newProm]

theorem CInv_act {s : State} (C : CInv s) (arg a) : CInv (act arg a s) := by
  unfold act
  split
  · rename_i p r j
    refine CInv_thenOp C _ _ _ ?_ ?_
    · intro f hf
      rcases hf with hf | hf
      · cases r <;> simp at hf; subst hf; simp
      · cases j <;> simp at hf; subst hf; simp
    · intro b p' h
      rcases h with h | h
      · cases r <;> simp at h
      · cases j <;> simp at h
  · split
    · exact CInv_settle (C.emit _ (by intros; simp)) _ _ _
    · exact C.emit _ (by intros; simp)
  · split
    · exact CInv_settle (C.emit _ (by intros; simp)) _ _ _
    · exact C.emit _ (by intros; simp)
  · exact CInv_newProm C _
  · refine (CInv_newProm C _).push _ (.inr (.inr (.inl ⟨_, _, _, _, rfl, ?_⟩)))
    exact origin_newProm_new _ _
  · exact CInv_collect C _ _
  · exact CInv_collect C _ _

theorem OInv.setColl {s : State} (O : OInv s) {a r r'} (h : s.colls[a]? = some r) (ht : r'.target = r.target) :
    OInv (setColl s a r') := by
  have hlt : a < s.colls.length := (List.getElem?_eq_some_iff.mp h).1
  refine O.same_heap rfl (fun f hf => .inl hf) ?_
  intro a' x hx
  rcases (set_lookup _ _ _ hlt _ _).mp hx with ⟨rfl, rfl⟩ | ⟨_, hx⟩
  · exact ⟨r, h, ht.symm⟩
  · exact ⟨x, hx, rfl⟩

theorem LInv.setColl {s : State} (L : LInv s) {a r r'} (h : s.colls[a]? = some r) (hm : r'.mode = r.mode)
    (hr : r'.rids = r.rids) (hs : r'.subs = r.subs) : LInv (setColl s a r') := by
  have hlt : a < s.colls.length := (List.getElem?_eq_some_iff.mp h).1
  refine ⟨?_, L.cnt, ?_⟩
  · intro m a' i rest hf
    obtain ⟨x, h1, h2, h3, h4, h5⟩ := L.frame m a' i rest hf
    by_cases ha : a' = a
    · subst ha
      rw [h] at h1; cases h1
      exact ⟨r', (set_lookup _ _ _ hlt _ _).mpr (.inl ⟨rfl, rfl⟩), hm ▸ h2, hr ▸ h3, by rw [hs]; exact h4, h5⟩
    · exact ⟨x, (set_lookup _ _ _ hlt _ _).mpr (.inr ⟨ha, h1⟩), h2, h3, h4, h5⟩
  · intro a' x hx hlt'
    rcases (set_lookup _ _ _ hlt _ _).mp hx with ⟨rfl, rfl⟩ | ⟨_, hx⟩
    · exact L.run a' r h (by rw [← hr, ← hs]; exact hlt')
    · exact L.run a' x hx hlt'

theorem origin_of_cb {s : State} (O : OInv s) {c f q} (hc : InSys s c) (hk : c.kind = .wrap f q) :
    origin s q = some .chained := by
  have := O.cbs c hc
  unfold Cb.q at this; rw [hk] at this; exact this

theorem invoke_eq (s : State) (v c todo stk) :
    invoke c v (push (.notify v todo) { s with stack := stk }) = invokeBody c v (invoked s v c todo stk) := rfl

theorem CInv_invoked_other {s : State} (C : CInv s) {v c todo stk}
    (hs : s.stack = .notify v (c :: todo) :: stk)
    (hk : ∀ f q, c.kind = .wrap f q → (∀ a i, f ≠ .allThen a i) ∧ (∀ a, f ≠ .waitDone a)) :
    CInv (invoked s v c todo stk) :=
  ⟨C.i.notify_step hs, OInv_invoked C.o hs, LInv_invoked C.l hs, RInv_invoked_other C.i C.r hs hk⟩

theorem origin_invoked (s : State) (v c todo stk) (p) : origin (invoked s v c todo stk) p = origin s p := rfl
theorem origin_emit (s : State) (e p) : origin (emit e s) p = origin s p := rfl
theorem origin_setColl (s : State) (a r p) : origin (setColl s a r) p = origin s p := rfl

theorem CInv_invokeBody {s : State} (C : CInv s) {v c todo stk} (hs : s.stack = .notify v (c :: todo) :: stk) :
    CInv (invokeBody c v (invoked s v c todo stk)) := by
  obtain ⟨hcs, _, _⟩ := C.i.head_uncalled hs
  unfold invokeBody
  split
  · next q hk =>
    exact CInv_settle (CInv_invoked_other C hs (by intro f q' h; rw [hk] at h; cases h)) _ _ _
  · next f q hk =>
    have hoq : origin s q = some .chained := origin_of_cb C.o hcs hk
    unfold callFn
    split
    · -- user function
      have C1 := CInv_invoked_other C hs (by intro f q' h; rw [hk] at h; cases h; simp)
      exact (C1.emit _ (by intros; simp)).push _ (.inr (.inl ⟨_, _, _, _, rfl, hoq⟩))
    · -- bound method passed by the user
      have C1 := CInv_invoked_other C hs (by intro f q' h; rw [hk] at h; cases h; simp)
      exact CInv_settle ((C1.emit _ (by intros; simp)).push _ (.inl ⟨_, _, rfl, hoq⟩)) _ _ _
    · -- adoption
      have C1 := CInv_invoked_other C hs (by intro f q' h; rw [hk] at h; cases h; simp)
      exact CInv_settle (C1.push _ (.inl ⟨_, _, rfl, hoq⟩)) _ _ _
    · -- Promise.all: then(i, v)
      next a i =>
      obtain ⟨_, r, hr, _, _⟩ := C.r.rid c _ q hcs hk
      have hr' : (invoked s v c todo stk).colls[a]? = some r := hr
      rw [hr']
      dsimp only
      have C2 : CInv (setColl (invoked s v c todo stk) a { r with results := r.results.set i v, numDone := r.numDone + 1 }) :=
        ⟨(C.i.notify_step hs).setColls _, (OInv_invoked C.o hs).setColl hr' rfl,
          (LInv_invoked C.l hs).setColl hr' rfl rfl rfl, RInv_invoked_allThen C.i C.r hs hk hr⟩
      have C3 := C2.push (.finish .none q) (.inl ⟨_, _, rfl, hoq⟩)
      split
      · exact CInv_settle C3 _ _ _
      · exact C3
    · -- Promise.all: fail(e)
      next a =>
      obtain ⟨_, r, hr, _, _⟩ := C.r.rid c _ q hcs hk
      have hr' : (invoked s v c todo stk).colls[a]? = some r := hr
      rw [hr']
      have C1 := CInv_invoked_other C hs (by intro f q' h; rw [hk] at h; cases h; simp)
      exact CInv_settle (C1.push _ (.inl ⟨_, _, rfl, hoq⟩)) _ _ _
    · -- wait_promises: done(_)
      next a =>
      obtain ⟨r, hr, _, _⟩ := C.r.rid c _ q hcs hk
      have hr' : (invoked s v c todo stk).colls[a]? = some r := hr
      rw [hr']
      dsimp only
      have C2 : CInv (setColl (invoked s v c todo stk) a { r with numDone := r.numDone + 1 }) :=
        ⟨(C.i.notify_step hs).setColls _, (OInv_invoked C.o hs).setColl hr' rfl,
          (LInv_invoked C.l hs).setColl hr' rfl rfl rfl, RInv_invoked_waitDone C.i C.r hs hk hr⟩
      have C3 := C2.push (.finish .none q) (.inl ⟨_, _, rfl, hoq⟩)
      split
      · exact CInv_settle C3 _ _ _
      · exact C3

theorem CInv_advanced {s : State} (C : CInv s) {m a i p ps stk} (hs : s.stack = .loop m a i (p :: ps) :: stk) :
    CInv (advanced s m a i p ps stk) := by
  obtain ⟨r, T⟩ := C.l.loopTop hs
  refine ⟨?_, OInv_advanced C.o T, LInv_advanced C.l T, RInv_advanced C.i C.r T⟩
  unfold advanced
  exact Inv_thenOp ((Inv_note (C.i.pop hs (by intros; rfl)) _).push _ (by intros; simp)) _ _ _

theorem CInv_step {s s' : State} (C : CInv s) (h : step s = some s') : CInv s' := by
  unfold step at h
  split at h
  · simp at h
  · next f rest hst =>
    dsimp only at h
    split at h <;> simp only [Option.some.injEq] at h <;> subst h
    · exact C.pop hst (by intros; rfl) (by intros; simp)
    · rw [invoke_eq]; exact CInv_invokeBody C hst
    · exact CInv_finish (C.pop hst (by intros; rfl) (by intros; simp)) _ _
        (C.o.fin _ _ (by rw [hst]; exact List.mem_cons_self ..))
    · next arg k =>
      refine CInv_kont (C.pop hst (by intros; rfl) (by intros; simp)) _ _ ?_
      cases k with
      | wrapper out q => exact C.o.wrp _ _ _ _ (by rw [hst]; exact List.mem_cons_self ..)
      | ctor out p => exact C.o.ctor _ _ _ _ (by rw [hst]; exact List.mem_cons_self ..)
      | top => trivial
    · next arg a acts k =>
      refine CInv_act ((C.pop hst (by intros; rfl) (by intros; simp)).push _ ?_) _ _
      cases k with
      | wrapper out q =>
        exact .inr (.inl ⟨_, _, _, _, rfl, C.o.wrp _ _ _ _ (by rw [hst]; exact List.mem_cons_self ..)⟩)
      | ctor out p =>
        exact .inr (.inr (.inl ⟨_, _, _, _, rfl, C.o.ctor _ _ _ _ (by rw [hst]; exact List.mem_cons_self ..)⟩))
      | top => exact .inr (.inr (.inr ⟨_, _, rfl⟩))
    · exact C.pop hst (by intros; rfl) (by intros; simp)
    · exact CInv_advanced C hst

theorem CInv_init : CInv init := by
  have hno : ∀ c, ¬ InSys init c := by
    intro c h
    rcases h with ⟨p, pr, b, hp, _⟩ | ⟨v, todo, hm, _⟩
    · simp [init] at hp
    · simp [init] at hm
  refine ⟨Inv_init, ⟨?_, ?_, ?_, ?_, ?_, ?_⟩, ⟨?_, ?_, ?_⟩, ⟨?_, ?_, ?_, ?_, ?_, ?_, ?_⟩⟩
  · intro c h; exact absurd h (hno c)
  · intro c h; exact absurd h (hno c)
  · intro r q h; simp [init] at h
  · intro _ _ _ _ h; simp [init] at h
  · intro _ _ _ _ h; simp [init] at h
  · intro a r h; simp [init] at h
  · intro _ _ _ _ h; simp [init] at h
  · intro a; simp [init, loopCnt]
  · intro a r h; simp [init] at h
  · intro a r h; simp [init] at h
  · intro a r _ _ h; simp [init] at h
  · intro a r h; simp [init] at h
  · intro a r h; simp [init] at h
  · intro a r _ _ _ h; simp [init] at h
  · intro a r _ _ h; simp [init] at h
  · intro c f q h; exact absurd h (hno c)

/-! ### what the collector's target promise looks like -/

/-- `e` is the error the first of the collector's `fail` callbacks was invoked with (log: newest first) -/
def FirstFail (rids : List Nat) (e : Val) (log : List Event) : Prop :=
  ∃ l1 rid l2, log = l1 ++ Event.invoke rid .rej e :: l2 ∧ rid ∈ rids ∧ ∀ rid' ∈ rids, calls rid' .rej l2 = 0

def TOk (s : State) (r : Coll) : Prop :=
  match r.mode with
  | .all =>
    (status s r.target = some .pending → r.numDone < r.subs.length ∧ ∀ rid ∈ r.rids, calls rid .rej s.log = 0) ∧
    (∀ v, status s r.target = some (.settled .res v) → v = .list r.results ∧ r.numDone = r.subs.length) ∧
    (∀ e, status s r.target = some (.settled .rej e) → FirstFail r.rids e s.log)
  | .wait =>
    (status s r.target = some .pending → r.numDone < r.subs.length) ∧
    (∀ b v, status s r.target = some (.settled b v) →
      b = .res ∧ v = .list (r.subs.map .prom) ∧ r.numDone = r.subs.length)

/-- unless user code settled the target itself, its state is the one the collector's closures gave it -/
def TInv (s : State) : Prop :=
  ∀ (a : Nat) (r : Coll), s.colls[a]? = some r → Event.direct r.target ∉ s.log → TOk s r

theorem calls_append (rid b) (l1 l2 : List Event) : calls rid b (l1 ++ l2) = calls rid b l1 + calls rid b l2 := by
  simp [calls, List.countP_append]

theorem FirstFail.mono {rids extra : List Nat} {e : Val} {log pre : List Event} (h : FirstFail rids e log)
    (hx : ∀ rid ∈ extra, calls rid .rej log = 0) : FirstFail (rids ++ extra) e (pre ++ log) := by
  obtain ⟨l1, rid, l2, h1, h2, h3⟩ := h
  refine ⟨pre ++ l1, rid, l2, by rw [h1, List.append_assoc], List.mem_append_left _ h2, ?_⟩
  intro rid' hr
  rcases List.mem_append.mp hr with hr | hr
  · exact h3 rid' hr
  · have := hx rid' hr
    rw [h1, calls_append, calls_cons] at this
    omega

/-- the target and the closure state are untouched; the log grew by entries that are not rejections of the
collector's inputs; the loop may have registered further (so far uncalled) inputs -/
theorem TOk.transfer {s s' : State} {r r' : Coll} {pre : List Event} {extra : List Nat} (h : TOk s r)
    (hst : status s' r.target = status s r.target)
    (hm : r'.mode = r.mode) (ht : r'.target = r.target) (hn : r'.numDone = r.numDone) (hs : r'.subs = r.subs)
    (hres : r'.results = r.results) (hrids : r'.rids = r.rids ++ extra)
    (hlog : s'.log = pre ++ s.log) (hpre : r.mode = .all → ∀ rid ∈ r'.rids, calls rid .rej pre = 0)
    (hextra : ∀ rid ∈ extra, calls rid .rej s.log = 0) : TOk s' r' := by
  unfold TOk at *
  rw [hm, ht, hn, hs, hres, hst]
  cases hmode : r.mode <;> simp only [hmode] at h ⊢
  · refine ⟨?_, h.2.1, ?_⟩
    · intro hp
      refine ⟨(h.1 hp).1, ?_⟩
      intro rid hr
      rw [hlog, calls_append, hpre hmode rid hr]
      rw [hrids] at hr
      rcases List.mem_append.mp hr with hr | hr
      · simpa using (h.1 hp).2 rid hr
      · simpa using hextra rid hr
    · intro e he
      rw [hrids, hlog]
      exact (h.2.2 e he).mono hextra
  · exact h

theorem TInv.same {s s' : State} {pre : List Event} (T : TInv s) (hc : s'.colls = s.colls)
    (hlog : s'.log = pre ++ s.log) (hpre : ∀ rid b, calls rid b pre = 0)
    (hst : ∀ (a : Nat) (r : Coll), s.colls[a]? = some r → Event.direct r.target ∉ s'.log →
      status s' r.target = status s r.target) : TInv s' := by
  intro a r h hd
  rw [hc] at h
  have hd' : Event.direct r.target ∉ s.log := fun hm => hd (by rw [hlog]; exact List.mem_append_right _ hm)
  exact (T a r h hd').transfer (extra := []) (hst a r h hd) rfl rfl rfl rfl rfl (by simp) hlog
    (fun _ rid _ => hpre rid .rej) (by simp)

theorem OInv.target_lt {s : State} (O : OInv s) {a : Nat} {r : Coll} (h : s.colls[a]? = some r) : r.target < s.heap.length :=
  lt_of_origin (O.coll a r h)

/-- settling a promise that is not a collector's target, or one the user settles himself -/
theorem TInv_settle {s : State} (O : OInv s) (T : TInv s) (b q v)
    (hq : (∀ a, origin s q ≠ some (.coll a)) ∨ Event.direct q ∈ s.log) : TInv (settle b q v s) := by
  refine T.same (pre := []) (settle_colls ..) (by rw [settle_log]; rfl) (by intros; rfl) ?_
  intro a r h hd
  by_cases ht : r.target = q
  · exfalso
    rcases hq with hq | hq
    · exact hq a (ht ▸ O.coll a r h)
    · rw [settle_log] at hd; exact hd (ht ▸ hq)
  · exact status_settle_ne ht

theorem TInv_thenOp {s : State} (O : OInv s) (T : TInv s) (p r j) : TInv (thenOp p r j s) := by
  rcases thenOp_cases p r j s with ⟨_, e⟩ | ⟨pr, hp, _⟩
  · rw [e]
    exact T.same (pre := [.badRef]) rfl rfl (by intros; rfl) (fun _ _ _ _ => rfl)
  · have hplt : p < s.heap.length := (List.getElem?_eq_some_iff.mp hp).1
    have hlog : (thenOp p r j s).log = s.log := by
      rcases thenOp_cases p r j s with ⟨h, _⟩ | ⟨_, _, ⟨_, e⟩ | ⟨_, _, _, e⟩⟩
      · rw [hp] at h; cases h
      · rw [e]
      · rw [e]
    exact T.same (pre := []) (thenOp_colls ..) (by rw [hlog]; rfl) (by intros; rfl)
      (fun a r' h _ => status_thenOp (O.target_lt h))

theorem TInv_newProm {s : State} (O : OInv s) (T : TInv s) (o) : TInv (newProm o s) :=
  T.same (pre := []) rfl rfl (by intros; rfl) (fun a r h _ => status_newProm (O.target_lt h))

theorem TInv.emit {s : State} (T : TInv s) (e : Event) (he : ∀ rid b v, e ≠ .invoke rid b v) : TInv (emit e s) := by
  refine T.same (pre := [e]) rfl rfl ?_ (fun _ _ _ _ => rfl)
  intro rid b
  cases e with
  | invoke r b' v => exact absurd rfl (he r b' v)
  | _ => rfl

theorem TInv.restack {s : State} (T : TInv s) (st : List Frame) : TInv { s with stack := st } :=
  T.same (pre := []) rfl rfl (by intros; rfl) (fun _ _ _ _ => rfl)

/-- the three invariants of collectors plus the target invariant -/
structure GInv (s : State) : Prop where
  c : CInv s
  t : TInv s

theorem GInv.pop {s : State} (G : GInv s) {f rest} (hs : s.stack = f :: rest)
    (hn : ∀ rid b, frameCnt rid b f = 0) (hl : ∀ m a i p ps, f ≠ .loop m a i (p :: ps)) :
    GInv { s with stack := rest } := ⟨G.c.pop hs hn hl, G.t.restack rest⟩

theorem GInv.emit {s : State} (G : GInv s) (e : Event) (he : ∀ rid b v, e ≠ .invoke rid b v) : GInv (emit e s) :=
  ⟨G.c.emit e he, G.t.emit e he⟩

theorem GInv.push {s : State} (G : GInv s) (f : Frame)
    (hf : (∃ r q, f = .finish r q ∧ origin s q = some .chained) ∨
        (∃ arg acts out q, f = .script arg acts (.wrapper out q) ∧ origin s q = some .chained) ∨
        (∃ arg acts out p, f = .script arg acts (.ctor out p) ∧ origin s p = some .user) ∨
        (∃ arg acts, f = .script arg acts .top)) : GInv (push f s) := ⟨G.c.push f hf, G.t.restack _⟩

theorem GInv_settle {s : State} (G : GInv s) (b q v)
    (hq : (∀ a, origin s q ≠ some (.coll a)) ∨ Event.direct q ∈ s.log) : GInv (settle b q v s) :=
  ⟨CInv_settle G.c b q v, TInv_settle G.c.o G.t b q v hq⟩

theorem GInv_newProm {s : State} (G : GInv s) (o) : GInv (newProm o s) :=
  ⟨CInv_newProm G.c o, TInv_newProm G.c.o G.t o⟩

theorem GInv_thenOp {s : State} (G : GInv s) (p r j)
    (hr : ∀ f, r = some f ∨ j = some f → (∀ a i, f ≠ .allThen a i) ∧ (∀ a, f ≠ .allFail a) ∧ (∀ a, f ≠ .waitDone a))
    (hadp : ∀ b p', (r = some (.adopt b p') ∨ j = some (.adopt b p')) → origin s p' = some .chained) :
    GInv (thenOp p r j s) := ⟨CInv_thenOp G.c p r j hr hadp, TInv_thenOp G.c.o G.t p r j⟩

theorem not_coll_of {s : State} {q o} (h : origin s q = some o) (ho : ∀ a, o ≠ .coll a) :
    ∀ a, origin s q ≠ some (.coll a) := by
  intro a h'; rw [h] at h'; cases h'; exact ho a rfl

theorem GInv_finish {s : State} (G : GInv s) (r q) (hq : origin s q = some .chained) : GInv (finish r q s) := by
  unfold finish
  split
  · refine GInv_thenOp (G.emit _ (by intros; simp)) _ _ _ ?_ ?_
    · intro f hf
      rcases hf with hf | hf <;> cases hf <;> simp
    · intro b p' h
      rcases h with h | h <;> cases h <;> exact hq
  · exact GInv_settle G _ _ _ (.inl (not_coll_of hq (by intros; simp)))

theorem GInv_kont {s : State} (G : GInv s) (arg k) (hk : KontOk s k) : GInv (kont arg k s) := by
  unfold kont
  split
  · exact G
  · exact GInv_finish G _ _ hk
  · exact GInv_finish G _ _ hk
  · exact GInv_settle G _ _ _ (.inl (not_coll_of hk (by intros; simp)))
  · exact GInv_settle G _ _ _ (.inl (not_coll_of hk (by intros; simp)))
  · exact G

theorem status_settle_pending {s : State} {q} (hs : status s q = some .pending) (b v) :
    status (settle b q v s) q = some (.settled b v) := by
  unfold status at hs
  cases hq : s.heap[q]? with
  | none => simp [hq] at hs
  | some pr =>
    simp only [hq, Option.map_some, Option.some.injEq] at hs
    have hlt : q < s.heap.length := (List.getElem?_eq_some_iff.mp hq).1
    unfold settle
    rw [hq]
    simp only [hs, status, List.getElem?_set, hlt, if_true, Option.map_some]

theorem status_settle_settled {s : State} {q b0 v0} (hs : status s q = some (.settled b0 v0)) (b v) :
    settle b q v s = s := by
  unfold status at hs
  unfold settle
  cases hq : s.heap[q]? with
  | none => rfl
  | some pr =>
    simp only [hq, Option.map_some, Option.some.injEq] at hs
    simp [hs]

theorem status_withColl_new (m ps) (s : State) : status (withColl m ps s) s.heap.length = some .pending := by
  simp [status, withColl, newProm]

theorem status_withColl_old {m ps} {s : State} {t} (h : t < s.heap.length) :
    status (withColl m ps s) t = status s t := status_newProm h

theorem TInv_collect {s : State} (O : OInv s) (T : TInv s) (m ps) : TInv (collect m ps s) := by
  rw [collect_eq]
  by_cases hrefs : refsOk ps s = true
  case neg => rw [if_neg hrefs]; exact T.emit _ (by intros; simp)
  rw [if_pos hrefs]
  -- the records of the state with the new collector
  have hlook : ∀ (a : Nat) (r : Coll), (withColl m ps s).colls[a]? = some r →
      s.colls[a]? = some r ∨ (a = s.colls.length ∧ r = newColl m ps s) := by
    intro a r h
    rcases (getElem?_snoc_eq_some _ _ _ _).mp h with h | ⟨h1, h2⟩
    · exact .inl h
    · exact .inr ⟨h1, h2.symm⟩
  have hold : ∀ (a : Nat) (r : Coll), s.colls[a]? = some r → Event.direct r.target ∉ s.log →
      ∀ s' : State, s'.log = s.log → status s' r.target = status s r.target → TOk s' r := by
    intro a r h hd s' hl hst
    exact (T a r h hd).transfer (pre := []) (extra := []) hst rfl rfl rfl rfl rfl (by simp) (by rw [hl]; rfl)
      (by intros; rfl) (by simp)
  split
  · next hemp =>
    have hps : ps = [] := by simpa using hemp
    intro a r h hd
    rw [settle_colls] at h
    rw [settle_log] at hd
    rcases hlook a r h with h | ⟨_, rfl⟩
    · have hlt := O.target_lt h
      refine hold a r h hd _ (by rw [settle_log]; rfl) ?_
      rw [status_settle_ne (by omega), status_withColl_old hlt]
    · have hst : status (settle .res s.heap.length (.list []) (withColl m ps s)) (newColl m ps s).target =
          some (.settled .res (.list [])) := status_settle_pending (status_withColl_new m ps s) _ _
      unfold TOk
      rw [hst]
      cases m <;> simp [newColl, hps]
  · next hne =>
    intro a r h hd
    rcases hlook a r h with h | ⟨_, rfl⟩
    · have hlt := O.target_lt h
      exact hold a r h hd _ rfl (status_withColl_old (m := m) (ps := ps) hlt)
    · have hst : status (push (.loop m s.colls.length 0 ps) (withColl m ps s)) (newColl m ps s).target = some .pending :=
        status_withColl_new m ps s
      have hpos : 0 < ps.length := by
        cases ps with
        | nil => simp at hne
        | cons => simp
      unfold TOk
      rw [hst]
      cases m <;> simp [newColl, hpos]

theorem TInv_advanced {s : State} (I : Inv s) (O : OInv s) (L : LInv s) (T : TInv s) {m a i p ps stk}
    (hs : s.stack = .loop m a i (p :: ps) :: stk) : TInv (advanced s m a i p ps stk) := by
  obtain ⟨r, TT⟩ := L.loopTop hs
  have hlt : a < s.colls.length := (List.getElem?_eq_some_iff.mp TT.coll).1
  have hp : p < s.heap.length := TT.refs p (List.mem_cons_self ..)
  let s2 : State := push (.loop m a (i + 1) ps) (note a { s with stack := stk })
  have hs2 : s2 = push (.loop m a (i + 1) ps)
      { s with stack := stk, colls := s.colls.set a { r with rids := r.rids ++ [s.regs.length] } } := by
    show push _ (note a _) = _
    rw [note_eq (s := { s with stack := stk }) TT.coll]
  have hadv : advanced s m a i p ps stk = thenOp p (some (loopFn m a i .res)) (some (loopFn m a i .rej)) s2 := rfl
  have h2heap : s2.heap = s.heap := by rw [hs2]; rfl
  have hlog : (advanced s m a i p ps stk).log = s.log := by
    rw [hadv]
    rcases thenOp_cases p (some (loopFn m a i .res)) (some (loopFn m a i .rej)) s2 with ⟨h, _⟩ | ⟨_, _, ⟨_, e⟩ | ⟨_, _, _, e⟩⟩
    · rw [List.getElem?_eq_none_iff, h2heap] at h; omega
    · rw [e, hs2]; rfl
    · rw [e, hs2]; rfl
  have hcolls : (advanced s m a i p ps stk).colls = s.colls.set a { r with rids := r.rids ++ [s.regs.length] } := by
    rw [hadv, thenOp_colls, hs2]; rfl
  have hstat : ∀ t, t < s.heap.length → status (advanced s m a i p ps stk) t = status s t := by
    intro t ht
    rw [hadv, status_thenOp (by rw [h2heap]; exact ht)]
    unfold status; rw [h2heap]
  intro a' x h hd
  rw [hcolls] at h
  rw [hlog] at hd
  rcases (set_lookup _ _ _ hlt _ _).mp h with ⟨rfl, rfl⟩ | ⟨_, h⟩
  · refine (T a' r TT.coll hd).transfer (pre := []) (extra := [s.regs.length]) (hstat _ (O.target_lt TT.coll))
      rfl rfl rfl rfl rfl rfl (by rw [hlog]; rfl) (by intros; rfl) ?_
    intro rid hr
    simp only [List.mem_singleton] at hr; subst hr
    exact (I.fresh (Nat.le_refl _) .rej).2
  · exact (T a' x h hd).transfer (pre := []) (extra := []) (hstat _ (O.target_lt h))
      rfl rfl rfl rfl rfl (by simp) (by rw [hlog]; rfl) (by intros; rfl) (by simp)

/-! ### the target invariant through a callback invocation -/

/-- records none of whose `fail` callbacks is the one being invoked keep their target invariant -/
theorem TOk_invoked {s : State} (T : TInv s) {v c todo stk} {a : Nat} {x : Coll} (h : s.colls[a]? = some x)
    (hd : Event.direct x.target ∉ s.log)
    (hnot : x.mode = .all → ∀ rid ∈ x.rids, ¬(c.rid = rid ∧ c.br = .rej)) :
    TOk (invoked s v c todo stk) x := by
  refine (T a x h hd).transfer (pre := [.invoke c.rid c.br v]) (extra := []) rfl rfl rfl rfl rfl rfl (by simp) rfl ?_ (by simp)
  intro hm rid hr
  have := hnot hm rid hr
  simp only [calls_cons, Event.isInv, Bool.and_eq_true, beq_iff_eq]
  simp [this]; rfl

theorem direct_invoked {s : State} {v c todo stk t} (h : Event.direct t ∉ (invoked s v c todo stk).log) :
    Event.direct t ∉ s.log := fun hm => h (List.mem_cons_of_mem _ hm)

theorem TInv_invoked {s : State} (T : TInv s) {v c todo stk}
    (hnot : ∀ (a : Nat) (x : Coll), s.colls[a]? = some x → x.mode = .all → ∀ rid ∈ x.rids, ¬(c.rid = rid ∧ c.br = .rej)) :
    TInv (invoked s v c todo stk) :=
  fun a x h hd => TOk_invoked T h (direct_invoked hd) (hnot a x h)

theorem countP_lt_length_of {α} {l : List α} {P : α → Bool} {x : α} (hx : x ∈ l) (hp : P x = false) :
    l.countP P < l.length := by
  induction l with
  | nil => cases hx
  | cons y ys ih =>
    simp only [List.countP_cons, List.length_cons]
    rcases List.mem_cons.mp hx with rfl | h
    · simp only [hp]
      have := List.countP_le_length (p := P) (l := ys)
      simp; omega
    · have := ih h
      split <;> omega

/-- the collector whose closure is about to run has not counted all its inputs yet -/
theorem RInv.not_complete {s : State} (I : Inv s) (R : RInv s) {v c todo stk} (hs : s.stack = .notify v (c :: todo) :: stk)
    {a : Nat} {r : Coll} (hr : s.colls[a]? = some r) (hc : c.rid ∈ r.rids) : r.numDone < r.subs.length := by
  obtain ⟨_, _, hzero⟩ := I.head_uncalled hs
  have h1 : r.rids.countP (doneP r.mode s.log) < r.rids.length := by
    apply countP_lt_length_of hc
    cases r.mode <;> simp [doneP, hzero]
  rw [← R.done a r hr] at h1
  have := (R.len a r hr).1
  omega

theorem origin_ne_of_coll {s : State} (O : OInv s) {a a' : Nat} {r x : Coll} (hr : s.colls[a]? = some r)
    (hx : s.colls[a']? = some x) (hne : a' ≠ a) : x.target ≠ r.target := by
  intro e
  have h1 := O.coll a r hr
  have h2 := O.coll a' x hx
  rw [e, h1] at h2
  simp at h2; exact hne h2.symm

/-- a callback that is not a `fail` closure of `Promise.all` does not disturb any target invariant -/
theorem TInv_invoked_nofail {s : State} (C : CInv s) (T : TInv s) {v c todo stk}
    (hs : s.stack = .notify v (c :: todo) :: stk)
    (hk : ∀ f q, c.kind = .wrap f q → ∀ a, f ≠ .allFail a) : TInv (invoked s v c todo stk) := by
  obtain ⟨hcs, _, _⟩ := C.i.head_uncalled hs
  refine TInv_invoked T ?_
  intro a x h hm rid hr ⟨h1, h2⟩
  obtain ⟨k, hk'⟩ := List.getElem?_of_mem hr
  obtain ⟨q, hq⟩ := C.r.kind a x k c h hcs (h1 ▸ hk')
  rw [hm, h2] at hq
  exact hk _ _ hq a rfl

/-- statuses of the promises after the (optional) settlement that ends a collector closure -/
theorem status_after {s2 : State} {t t' : Nat} {b v} (h : t' ≠ t) : status (settle b t v s2) t' = status s2 t' :=
  status_settle_ne h

theorem TInv_allThen {s : State} (C : CInv s) (T : TInv s) {v c todo stk a i q r}
    (hs : s.stack = .notify v (c :: todo) :: stk) (hk : c.kind = .wrap (.allThen a i) q) (hr : s.colls[a]? = some r) :
    let r' : Coll := { r with results := r.results.set i v, numDone := r.numDone + 1 }
    let s2 := push (.finish .none q) (setColl (invoked s v c todo stk) a r')
    TInv (if r.numDone + 1 = (r.results.set i v).length then settle .res r.target (.list (r.results.set i v)) s2 else s2) := by
  intro r' s2
  obtain ⟨hcs, _, hzero⟩ := C.i.head_uncalled hs
  obtain ⟨hbr, r0, hr0, hmode, hrid⟩ := C.r.rid c _ q hcs hk
  rw [hr] at hr0; cases hr0
  have hlt : a < s.colls.length := (List.getElem?_eq_some_iff.mp hr).1
  have T1 : TInv (invoked s v c todo stk) := TInv_invoked_nofail C T hs (by intro f q' h; rw [hk] at h; cases h; simp)
  have hnc := C.r.not_complete C.i hs hr (List.mem_of_getElem? hrid)
  have hlen := C.r.len a r hr
  have hreslen : (r.results.set i v).length = r.subs.length := by simp [hlen.2 hmode]
  have hs2log : s2.log = (invoked s v c todo stk).log := rfl
  have hs2st : ∀ t, status s2 t = status s t := fun t => rfl
  have hs2colls : s2.colls = s.colls.set a r' := rfl
  -- the final state
  have key : ∀ sf : State, sf.log = s2.log → sf.colls = s2.colls →
      (∀ t, t ≠ r.target → status sf t = status s t) →
      ((status s r.target = some .pending ∧ r.numDone + 1 = r.subs.length ∧
          status sf r.target = some (.settled .res (.list (r.results.set i v)))) ∨
       ((status s r.target ≠ some .pending ∨ r.numDone + 1 ≠ r.subs.length) ∧ status sf r.target = status s r.target)) →
      TInv sf := by
    intro sf hl hc hst hfin a' x hx hd
    rw [hc, hs2colls] at hx
    rw [hl, hs2log] at hd
    rcases (set_lookup _ _ _ hlt _ _).mp hx with ⟨rfl, rfl⟩ | ⟨hne, hx⟩
    · have T0 := T1 a' r hr hd
      unfold TOk at T0 ⊢
      simp only [hmode] at T0
      show (match r.mode with | .all => _ | .wait => _)
      simp only [hmode]
      have e1 : status (invoked s v c todo stk) r.target = status s r.target := rfl
      rw [e1] at T0
      rcases hfin with ⟨hp, hn, hf⟩ | ⟨hor, hf⟩
      · show (status sf r.target = some .pending → _) ∧ _
        rw [hf]
        refine ⟨(by intro h; cases h), ?_, (by intro e h; cases h)⟩
        intro v' h'
        simp only [Option.some.injEq, Status.settled.injEq, true_and] at h'
        exact ⟨h'.symm, hn⟩
      · show (status sf r.target = some .pending → _) ∧ _
        rw [hf]
        refine ⟨?_, ?_, ?_⟩
        · intro hp
          have hn : r.numDone + 1 ≠ r.subs.length := by
            rcases hor with h | h
            · exact absurd hp h
            · exact h
          refine ⟨by show r.numDone + 1 < r.subs.length; omega, ?_⟩
          intro rid hr'
          rw [hl, hs2log]
          exact (T0.1 hp).2 rid hr'
        · intro v' h'
          have := (T0.2.1 v' h').2
          omega
        · intro e h'
          rw [hl, hs2log]
          exact T0.2.2 e h'
    · have hd' : Event.direct x.target ∉ (invoked s v c todo stk).log := hd
      refine (T1 a' x hx hd').transfer (pre := []) (extra := []) ?_ rfl rfl rfl rfl rfl (by simp)
        (by rw [hl, hs2log]; rfl) (by intros; rfl) (by simp)
      rw [hst _ (origin_ne_of_coll C.o hr hx hne)]; rfl
  split
  · next hn =>
    rw [hreslen] at hn
    cases hst : status s r.target with
    | none => exact absurd (lt_of_getElem?_map (C.o.coll a r hr)) (by
        have : r.target < s.heap.length := C.o.target_lt hr
        unfold status at hst
        rw [List.getElem?_eq_getElem this] at hst; simp at hst)
    | some st =>
      cases st with
      | pending =>
        refine key _ (by rw [settle_log]) (by rw [settle_colls]) (fun t ht => by rw [status_settle_ne ht]; rfl) ?_
        exact .inl ⟨hst, hn, status_settle_pending (by rw [hs2st]; exact hst) _ _⟩
      | settled b0 v0 =>
        have hnoop : settle .res r.target (.list (r.results.set i v)) s2 = s2 :=
          status_settle_settled (b0 := b0) (v0 := v0) (by rw [hs2st]; exact hst) _ _
        rw [hnoop]
        exact key s2 rfl rfl (fun t _ => rfl) (.inr ⟨.inl (by rw [hst]; simp), by rw [hs2st]⟩)
  · next hn =>
    rw [hreslen] at hn
    exact key s2 rfl rfl (fun t _ => rfl) (.inr ⟨.inr hn, rfl⟩)

theorem status_some_of_lt {s : State} {t} (h : t < s.heap.length) : ∃ st, status s t = some st := by
  unfold status; rw [List.getElem?_eq_getElem h]; exact ⟨_, rfl⟩

theorem TInv_waitDone {s : State} (C : CInv s) (T : TInv s) {v c todo stk a q r}
    (hs : s.stack = .notify v (c :: todo) :: stk) (hk : c.kind = .wrap (.waitDone a) q) (hr : s.colls[a]? = some r) :
    let r' : Coll := { r with numDone := r.numDone + 1 }
    let s2 := push (.finish .none q) (setColl (invoked s v c todo stk) a r')
    TInv (if r.numDone + 1 = r.subs.length then settle .res r.target (.list (r.subs.map .prom)) s2 else s2) := by
  intro r' s2
  obtain ⟨hcs, _, hzero⟩ := C.i.head_uncalled hs
  obtain ⟨r0, hr0, hmode, hrid⟩ := C.r.rid c _ q hcs hk
  rw [hr] at hr0; cases hr0
  have hlt : a < s.colls.length := (List.getElem?_eq_some_iff.mp hr).1
  have T1 : TInv (invoked s v c todo stk) := TInv_invoked_nofail C T hs (by intro f q' h; rw [hk] at h; cases h; simp)
  have hnc := C.r.not_complete C.i hs hr hrid
  have hs2log : s2.log = (invoked s v c todo stk).log := rfl
  have hs2st : ∀ t, status s2 t = status s t := fun t => rfl
  have hs2colls : s2.colls = s.colls.set a r' := rfl
  have key : ∀ sf : State, sf.log = s2.log → sf.colls = s2.colls →
      (∀ t, t ≠ r.target → status sf t = status s t) →
      ((status s r.target = some .pending ∧ r.numDone + 1 = r.subs.length ∧
          status sf r.target = some (.settled .res (.list (r.subs.map .prom)))) ∨
       ((status s r.target ≠ some .pending ∨ r.numDone + 1 ≠ r.subs.length) ∧ status sf r.target = status s r.target)) →
      TInv sf := by
    intro sf hl hc hst hfin a' x hx hd
    rw [hc, hs2colls] at hx
    rw [hl, hs2log] at hd
    rcases (set_lookup _ _ _ hlt _ _).mp hx with ⟨rfl, rfl⟩ | ⟨hne, hx⟩
    · have T0 := T1 a' r hr hd
      unfold TOk at T0 ⊢
      simp only [hmode] at T0
      show (match r.mode with | .all => _ | .wait => _)
      simp only [hmode]
      have e1 : status (invoked s v c todo stk) r.target = status s r.target := rfl
      rw [e1] at T0
      rcases hfin with ⟨hp, hn, hf⟩ | ⟨hor, hf⟩
      · show (status sf r.target = some .pending → _) ∧ _
        rw [hf]
        refine ⟨(by intro h; cases h), ?_⟩
        intro b' v' h'
        simp only [Option.some.injEq, Status.settled.injEq] at h'
        exact ⟨h'.1.symm, h'.2.symm, hn⟩
      · show (status sf r.target = some .pending → _) ∧ _
        rw [hf]
        refine ⟨?_, ?_⟩
        · intro hp
          have hn : r.numDone + 1 ≠ r.subs.length := by
            rcases hor with h | h
            · exact absurd hp h
            · exact h
          show r.numDone + 1 < r.subs.length
          omega
        · intro b' v' h'
          have := (T0.2 b' v' h').2.2
          omega
    · have hd' : Event.direct x.target ∉ (invoked s v c todo stk).log := hd
      refine (T1 a' x hx hd').transfer (pre := []) (extra := []) ?_ rfl rfl rfl rfl rfl (by simp)
        (by rw [hl, hs2log]; rfl) (by intros; rfl) (by simp)
      rw [hst _ (origin_ne_of_coll C.o hr hx hne)]; rfl
  obtain ⟨st, hst⟩ := status_some_of_lt (C.o.target_lt hr)
  split
  · next hn =>
    cases st with
    | pending =>
      refine key _ (by rw [settle_log]) (by rw [settle_colls]) (fun t ht => by rw [status_settle_ne ht]; rfl) ?_
      exact .inl ⟨hst, hn, status_settle_pending (by rw [hs2st]; exact hst) _ _⟩
    | settled b0 v0 =>
      have hnoop : settle .res r.target (.list (r.subs.map .prom)) s2 = s2 :=
        status_settle_settled (b0 := b0) (v0 := v0) (by rw [hs2st]; exact hst) _ _
      rw [hnoop]
      exact key s2 rfl rfl (fun t _ => rfl) (.inr ⟨.inl (by rw [hst]; simp), by rw [hs2st]⟩)
  · next hn =>
    exact key s2 rfl rfl (fun t _ => rfl) (.inr ⟨.inr hn, rfl⟩)

theorem TInv_allFail {s : State} (C : CInv s) (T : TInv s) {v c todo stk a q r}
    (hs : s.stack = .notify v (c :: todo) :: stk) (hk : c.kind = .wrap (.allFail a) q) (hr : s.colls[a]? = some r) :
    TInv (settle .rej r.target v (push (.finish .none q) (invoked s v c todo stk))) := by
  obtain ⟨hcs, _, hzero⟩ := C.i.head_uncalled hs
  obtain ⟨hbr, r0, hr0, hmode, hrid⟩ := C.r.rid c _ q hcs hk
  rw [hr] at hr0; cases hr0
  have hnc := C.r.not_complete C.i hs hr hrid
  let s2 := push (.finish .none q) (invoked s v c todo stk)
  have hs2st : ∀ t, status s2 t = status s t := fun t => rfl
  have hlog : (settle .rej r.target v s2).log = .invoke c.rid .rej v :: s.log := by
    rw [settle_log]; show Event.invoke c.rid c.br v :: s.log = _; rw [hbr]
  intro a' x hx hd
  rw [settle_colls] at hx
  have hx' : s.colls[a']? = some x := hx
  rw [hlog] at hd
  have hd0 : Event.direct x.target ∉ s.log := fun hm => hd (List.mem_cons_of_mem _ hm)
  by_cases hne : a' = a
  · subst hne
    rw [hr] at hx'; cases hx'
    have T0 := T a' r hr hd0
    unfold TOk at T0 ⊢
    simp only [hmode] at T0 ⊢
    obtain ⟨st, hst⟩ := status_some_of_lt (C.o.target_lt hr)
    cases st with
    | pending =>
      have hf : status (settle .rej r.target v s2) r.target = some (.settled .rej v) :=
        status_settle_pending (by rw [hs2st]; exact hst) _ _
      rw [hf]
      refine ⟨(by intro h; cases h), (by intro v' h; cases h), ?_⟩
      intro e he
      simp only [Option.some.injEq, Status.settled.injEq, true_and] at he
      subst he
      rw [hlog]
      exact ⟨[], c.rid, s.log, rfl, hrid, (T0.1 hst).2⟩
    | settled b0 v0 =>
      have hnoop : settle .rej r.target v s2 = s2 :=
        status_settle_settled (b0 := b0) (v0 := v0) (by rw [hs2st]; exact hst) _ _
      rw [hnoop, hs2st, hst]
      refine ⟨(by intro h; cases h), ?_, ?_⟩
      · intro v' h'
        have := (T0.2.1 v' (by rw [hst]; exact h')).2
        omega
      · intro e h'
        have := T0.2.2 e (by rw [hst]; exact h')
        have h2 := this.mono (pre := [.invoke c.rid c.br v]) (extra := []) (by simp)
        have h3 : FirstFail r.rids e (Event.invoke c.rid c.br v :: s.log) := by simpa using h2
        exact h3
  · have hnot : x.mode = .all → ∀ rid ∈ x.rids, ¬(c.rid = rid ∧ c.br = .rej) := by
      intro hm rid hr' ⟨h1, _⟩
      obtain ⟨k, hk'⟩ := List.getElem?_of_mem hr'
      obtain ⟨q', hq'⟩ := C.r.kind a' x k c hx' hcs (h1 ▸ hk')
      rw [hk, hm, hbr] at hq'
      simp [loopFn] at hq'
      exact hne hq'.1.symm
    have T0 := TOk_invoked (v := v) (c := c) (todo := todo) (stk := stk) T hx' hd0 hnot
    refine T0.transfer (pre := []) (extra := []) ?_ rfl rfl rfl rfl rfl (by simp) (by rw [settle_log]; rfl)
      (by intros; rfl) (by simp)
    rw [status_settle_ne (origin_ne_of_coll C.o hr hx' hne)]; rfl

theorem GInv_invokeBody {s : State} (G : GInv s) {v c todo stk} (hs : s.stack = .notify v (c :: todo) :: stk) :
    GInv (invokeBody c v (invoked s v c todo stk)) := by
  refine ⟨CInv_invokeBody G.c hs, ?_⟩
  have C := G.c
  obtain ⟨hcs, _, _⟩ := C.i.head_uncalled hs
  have O1 : OInv (invoked s v c todo stk) := OInv_invoked C.o hs
  unfold invokeBody
  split
  · next q hk =>
    have T1 := TInv_invoked_nofail C G.t hs (by intro f q' h; rw [hk] at h; cases h)
    have hoq : origin s q = some .chained := by
      have := C.o.cbs c hcs; unfold Cb.q at this; rw [hk] at this; exact this
    exact TInv_settle O1 T1 _ _ _ (.inl (not_coll_of (s := invoked s v c todo stk) hoq (by intros; simp)))
  · next f q hk =>
    have hoq : origin s q = some .chained := origin_of_cb C.o hcs hk
    unfold callFn
    split
    · have T1 := TInv_invoked_nofail C G.t hs (by intro f q' h; rw [hk] at h; cases h; simp)
      exact (T1.emit _ (by intros; simp)).restack _
    · next b p =>
      have T1 := TInv_invoked_nofail C G.t hs (by intro f q' h; rw [hk] at h; cases h; simp)
      have O2 : OInv (push (.finish v q) (emit (.direct p) (invoked s v c todo stk))) :=
        (O1.emit _).push _ (.inl ⟨_, _, rfl, hoq⟩)
      exact TInv_settle O2 ((T1.emit _ (by intros; simp)).restack _) _ _ _ (.inr (List.mem_cons_self ..))
    · next b p =>
      have T1 := TInv_invoked_nofail C G.t hs (by intro f q' h; rw [hk] at h; cases h; simp)
      have O2 : OInv (push (.finish v q) (invoked s v c todo stk)) := O1.push _ (.inl ⟨_, _, rfl, hoq⟩)
      have hop : origin s p = some .chained := C.o.adp c hcs b p q hk
      exact TInv_settle O2 (T1.restack _) _ _ _ (.inl (not_coll_of (s := push _ (invoked s v c todo stk)) hop (by intros; simp)))
    · next a i =>
      obtain ⟨_, r, hr, _, _⟩ := C.r.rid c _ q hcs hk
      have hr' : (invoked s v c todo stk).colls[a]? = some r := hr
      rw [hr']
      exact TInv_allThen C G.t hs hk hr
    · next a =>
      obtain ⟨_, r, hr, _, _⟩ := C.r.rid c _ q hcs hk
      have hr' : (invoked s v c todo stk).colls[a]? = some r := hr
      rw [hr']
      exact TInv_allFail C G.t hs hk hr
    · next a =>
      obtain ⟨r, hr, _, _⟩ := C.r.rid c _ q hcs hk
      have hr' : (invoked s v c todo stk).colls[a]? = some r := hr
      rw [hr']
      exact TInv_waitDone C G.t hs hk hr

theorem GInv_act {s : State} (G : GInv s) (arg a) : GInv (act arg a s) := by
  refine ⟨CInv_act G.c arg a, ?_⟩
  unfold act
  split
  · exact TInv_thenOp G.c.o G.t _ _ _
  · split
    · exact TInv_settle (G.c.o.emit _) (G.t.emit _ (by intros; simp)) _ _ _ (.inr (List.mem_cons_self ..))
    · exact G.t.emit _ (by intros; simp)
  · split
    · exact TInv_settle (G.c.o.emit _) (G.t.emit _ (by intros; simp)) _ _ _ (.inr (List.mem_cons_self ..))
    · exact G.t.emit _ (by intros; simp)
  · exact TInv_newProm G.c.o G.t _
  · exact (TInv_newProm G.c.o G.t _).restack _
  · exact TInv_collect G.c.o G.t _ _
  · exact TInv_collect G.c.o G.t _ _

theorem GInv_step {s s' : State} (G : GInv s) (h : step s = some s') : GInv s' := by
  have hc := CInv_step G.c h
  unfold step at h
  split at h
  · simp at h
  · next f rest hst =>
    dsimp only at h
    split at h <;> simp only [Option.some.injEq] at h <;> subst h
    · exact G.pop hst (by intros; rfl) (by intros; simp)
    · rw [invoke_eq]; exact GInv_invokeBody G hst
    · exact GInv_finish (G.pop hst (by intros; rfl) (by intros; simp)) _ _
        (G.c.o.fin _ _ (by rw [hst]; exact List.mem_cons_self ..))
    · next arg k =>
      refine GInv_kont (G.pop hst (by intros; rfl) (by intros; simp)) _ _ ?_
      cases k with
      | wrapper out q => exact G.c.o.wrp _ _ _ _ (by rw [hst]; exact List.mem_cons_self ..)
      | ctor out p => exact G.c.o.ctor _ _ _ _ (by rw [hst]; exact List.mem_cons_self ..)
      | top => trivial
    · next arg a acts k =>
      refine GInv_act ((G.pop hst (by intros; rfl) (by intros; simp)).push _ ?_) _ _
      cases k with
      | wrapper out q =>
        exact .inr (.inl ⟨_, _, _, _, rfl, G.c.o.wrp _ _ _ _ (by rw [hst]; exact List.mem_cons_self ..)⟩)
      | ctor out p =>
        exact .inr (.inr (.inl ⟨_, _, _, _, rfl, G.c.o.ctor _ _ _ _ (by rw [hst]; exact List.mem_cons_self ..)⟩))
      | top => exact .inr (.inr (.inr ⟨_, _, rfl⟩))
    · exact G.pop hst (by intros; rfl) (by intros; simp)
    · exact ⟨hc, TInv_advanced G.c.i G.c.o G.c.l G.t hst⟩

theorem GInv_init : GInv init := ⟨CInv_init, by intro a r h; simp [init] at h⟩

theorem Evolves.ginv {s s' : State} (h : Evolves s s') (G : GInv s) : GInv s' := by
  induction h with
  | refl => exact G
  | step _ hs ih => exact GInv_step ih hs
  | op arg a _ ih => exact GInv_act ih arg a

theorem Reach.ginv {s : State} (h : Reach s) : GInv s := Evolves.ginv h GInv_init

/-! ### reading the invariants when nothing is running -/

theorem exists_invoke_of_calls_pos {rid b} {log : List Event} (h : 0 < calls rid b log) :
    ∃ v, Event.invoke rid b v ∈ log := by
  unfold calls at h
  obtain ⟨e, he, hp⟩ := List.countP_pos_iff.mp h
  cases e with
  | invoke r b' v =>
    simp only [Event.isInv, Bool.and_eq_true, beq_iff_eq] at hp
    obtain ⟨rfl, rfl⟩ := hp
    exact ⟨v, he⟩
  | _ => simp [Event.isInv] at hp

theorem status_of_settledAs {s : State} {rid b v p} (h : SettledAs s rid b v) (hr : s.regs[rid]? = some p) :
    status s p = some (.settled b v) := by
  obtain ⟨p', pr, h1, h2, h3⟩ := h
  rw [hr] at h1; cases h1
  simp [status, h2, h3]

/-- what the accounting says about registration `rid` on promise `p` once nothing is running -/
theorem Inv.quiet_calls {s : State} (I : Inv s) (hq : s.stack = []) {rid p : Nat} (hr : s.regs[rid]? = some p) :
    (status s p = some .pending → ∀ b, calls rid b s.log = 0) ∧
    (∀ b v, status s p = some (.settled b v) → calls rid b s.log = 1 ∧ ∀ b', b' ≠ b → calls rid b' s.log = 0) := by
  have hlt := I.regs_lt rid p hr
  have hp : s.heap[p]? = some s.heap[p] := List.getElem?_eq_getElem hlt
  constructor
  · intro hst b
    have : s.heap[p].st = .pending := by simpa [status, hp] using hst
    exact (I.stack_zero hr hp (by simp [this])).2
  · intro b v hst
    have hst' : s.heap[p].st = .settled b v := by simpa [status, hp] using hst
    constructor
    · have := (I.acct rid p _ hr hp).2 b v hst'
      rw [hq] at this; simpa [stackCnt] using this
    · intro b' hb
      exact (I.stack_zero hr hp (by intro v' h'; rw [hst'] at h'; cases h'; exact hb rfl)).2

structure Quiet (s : State) (a : Nat) (r : Coll) : Prop where
  full : r.rids.length = r.subs.length
  pair : ∀ (i p : Nat), r.subs[i]? = some p → ∃ rid, r.rids[i]? = some rid ∧ s.regs[rid]? = some p
  back : ∀ rid ∈ r.rids, ∃ (i p : Nat), r.subs[i]? = some p ∧ s.regs[rid]? = some p

/-- when nothing is running the loop of every collector has visited all its inputs -/
theorem GInv.quiet {s : State} (G : GInv s) (hq : s.stack = []) {a : Nat} {r : Coll} (hr : s.colls[a]? = some r) :
    Quiet s a r := by
  have hlen := (G.c.r.len a r hr).1
  have hfull : r.rids.length = r.subs.length := by
    by_cases h : r.rids.length < r.subs.length
    · have := G.c.l.run a r hr h
      rw [hq] at this; simp [loopCnt] at this
    · omega
  refine ⟨hfull, ?_, ?_⟩
  · intro i p hp
    have hi : i < r.rids.length := by rw [hfull]; exact (List.getElem?_eq_some_iff.mp hp).1
    obtain ⟨p', h1, h2⟩ := G.c.r.reg a r i _ hr (List.getElem?_eq_getElem hi)
    rw [hp] at h1; cases h1
    exact ⟨_, List.getElem?_eq_getElem hi, h2⟩
  · intro rid hrid
    obtain ⟨i, hi⟩ := List.getElem?_of_mem hrid
    obtain ⟨p, h1, h2⟩ := G.c.r.reg a r i rid hr hi
    exact ⟨i, p, h1, h2⟩

/-! ### a collector keeps its inputs, its kind and the promise it returned -/

def CExt (s s' : State) : Prop :=
  ∀ (a : Nat) (r : Coll), s.colls[a]? = some r →
    ∃ r', s'.colls[a]? = some r' ∧ r'.mode = r.mode ∧ r'.subs = r.subs ∧ r'.target = r.target

theorem CExt.refl (s : State) : CExt s s := fun _ r h => ⟨r, h, rfl, rfl, rfl⟩
theorem CExt.trans {a b c : State} (h1 : CExt a b) (h2 : CExt b c) : CExt a c := by
  intro i r h
  obtain ⟨r1, e1, m1, s1, t1⟩ := h1 i r h
  obtain ⟨r2, e2, m2, s2, t2⟩ := h2 i r1 e1
  exact ⟨r2, e2, m2.trans m1, s2.trans s1, t2.trans t1⟩
theorem CExt.of_eq {s s' : State} (h : s'.colls = s.colls) : CExt s s' := fun _ r hr => ⟨r, h ▸ hr, rfl, rfl, rfl⟩
theorem CExt.after {a b c : State} (h2 : CExt b c) (h : b.colls = a.colls) : CExt a c := (CExt.of_eq h).trans h2

theorem CExt_set {s : State} {a r r'} (h : s.colls[a]? = some r) (hm : r'.mode = r.mode) (hs : r'.subs = r.subs)
    (ht : r'.target = r.target) : CExt s { s with colls := s.colls.set a r' } := by
  have hlt : a < s.colls.length := (List.getElem?_eq_some_iff.mp h).1
  intro a' x hx
  by_cases ha : a' = a
  · subst ha; rw [h] at hx; cases hx
    exact ⟨r', (set_lookup _ _ _ hlt _ _).mpr (.inl ⟨rfl, rfl⟩), hm, hs, ht⟩
  · exact ⟨x, (set_lookup _ _ _ hlt _ _).mpr (.inr ⟨ha, hx⟩), rfl, rfl, rfl⟩

theorem CExt_settle (b q v) (s : State) : CExt s (settle b q v s) := CExt.of_eq (settle_colls ..)
theorem CExt_thenOp (p r j) (s : State) : CExt s (thenOp p r j s) := CExt.of_eq (thenOp_colls ..)

theorem CExt_finish (r q) (s : State) : CExt s (finish r q s) := by
  unfold finish; split
  · exact (CExt_thenOp _ _ _ _).after rfl
  · exact CExt_settle _ _ _ _

theorem CExt_note (a) (s : State) : CExt s (note a s) := by
  unfold note; split
  · exact CExt.refl s
  · next r h => exact CExt_set h rfl rfl rfl

theorem CExt_callFn (f q v) (s : State) : CExt s (callFn f q v s) := by
  unfold callFn
  split
  · exact CExt.of_eq rfl
  · exact (CExt_settle _ _ _ _).after rfl
  · exact (CExt_settle _ _ _ _).after rfl
  · split
    · exact CExt.refl s
    · next r h =>
      dsimp only
      split
      · exact (CExt_set (r' := { r with results := r.results.set _ v, numDone := r.numDone + 1 }) h rfl rfl rfl).trans ((CExt_settle _ _ _ _).after rfl)
      · exact (CExt_set (r' := { r with results := r.results.set _ v, numDone := r.numDone + 1 }) h rfl rfl rfl).trans (CExt.of_eq rfl)
  · split
    · exact CExt.refl s
    · exact (CExt_settle _ _ _ _).after rfl
  · split
    · exact CExt.refl s
    · next r h =>
      dsimp only
      split
      · exact (CExt_set (r' := { r with numDone := r.numDone + 1 }) h rfl rfl rfl).trans ((CExt_settle _ _ _ _).after rfl)
      · exact (CExt_set (r' := { r with numDone := r.numDone + 1 }) h rfl rfl rfl).trans (CExt.of_eq rfl)

theorem CExt_invoke (c v) (s : State) : CExt s (invoke c v s) := by
  unfold invoke invokeBody
  split
  · exact (CExt_settle _ _ _ _).after rfl
  · exact (CExt_callFn _ _ _ _).after rfl

theorem CExt_collect (m ps) (s : State) : CExt s (collect m ps s) := by
  have h1 : CExt s (withColl m ps s) := by
    intro a r h
    exact ⟨r, (getElem?_snoc_eq_some _ _ _ _).mpr (.inl h), rfl, rfl, rfl⟩
  rw [collect_eq]
  split
  · split
    · exact h1.trans (CExt_settle _ _ _ _)
    · exact h1.trans (CExt.of_eq rfl)
  · exact CExt.of_eq rfl

theorem CExt_act (arg a) (s : State) : CExt s (act arg a s) := by
  unfold act
  split
  · exact CExt_thenOp _ _ _ _
  · split
    · exact (CExt_settle _ _ _ _).after rfl
    · exact CExt.of_eq rfl
  · split
    · exact (CExt_settle _ _ _ _).after rfl
    · exact CExt.of_eq rfl
  · exact CExt.of_eq rfl
  · exact CExt.of_eq rfl
  · exact CExt_collect _ _ _
  · exact CExt_collect _ _ _

theorem CExt_kont (arg k) (s : State) : CExt s (kont arg k s) := by
  unfold kont
  split
  · exact CExt.refl s
  · exact CExt_finish _ _ _
  · exact CExt_finish _ _ _
  · exact CExt_settle _ _ _ _
  · exact CExt_settle _ _ _ _
  · exact CExt.refl s

theorem CExt_step {s s' : State} (h : step s = some s') : CExt s s' := by
  unfold step at h
  split at h
  · simp at h
  · next f rest hst =>
    have pop : CExt s { s with stack := rest } := CExt.of_eq rfl
    dsimp only at h
    split at h <;> simp only [Option.some.injEq] at h <;> subst h
    · exact pop
    · exact pop.trans ((CExt_invoke _ _ _).after rfl)
    · exact pop.trans (CExt_finish _ _ _)
    · exact pop.trans (CExt_kont _ _ _)
    · exact pop.trans ((CExt_act _ _ _).after rfl)
    · exact pop
    · exact pop.trans ((CExt_note _ _).trans ((CExt_thenOp _ _ _ _).after rfl))

theorem Evolves.cext {s s' : State} (h : Evolves s s') : CExt s s' := by
  induction h with
  | refl => exact CExt.refl _
  | step _ hs ih => exact ih.trans (CExt_step hs)
  | op arg a _ ih => exact ih.trans (CExt_act arg a _)

/-- what `Promise.all(ps)` / `wait_promises(ps)` creates -/
theorem collect_creates {m ps} {s : State} (h : refsOk ps s = true) :
    ∃ r, (collect m ps s).colls[s.colls.length]? = some r ∧ r.mode = m ∧ r.subs = ps ∧ r.target = s.heap.length ∧
      (collect m ps s).heap.length = s.heap.length + 1 := by
  rw [collect_eq, if_pos h]
  split
  · refine ⟨newColl m ps s, ?_, rfl, rfl, rfl, ?_⟩
    · rw [settle_colls]; simp [withColl]
    · rw [settle_heap_length]; simp [withColl, newProm]
  · exact ⟨newColl m ps s, by simp [withColl, push], rfl, rfl, rfl, by simp [withColl, newProm, push]⟩


end RedunModel.Promise
