/-
Lemmas about the promise machine (`RedunModel.Model.Promise`):
* `Ext`      — settled outcomes are permanent and the heap only grows, for every machine operation;
* `Inv`      — the accounting invariant of registered callbacks (each `then()` call contributes one callback per
               branch; it is on its promise's list while the promise is pending, and after settlement the one of
               the matching branch is either waiting in exactly one notification loop or has been invoked exactly
               once), preserved by every step and every top-level operation.
-/
import RedunModel.Model.Promise
namespace RedunModel.Promise

def status (s : State) (p : Nat) : Option Status := (s.heap[p]?).map (·.st)

def pick (b : Br) (pr : Prom) : List Cb := match b with | .res => pr.resolvers | .rej => pr.rejectors

theorem settle_cases (b : Br) (q : Nat) (v : Val) (s : State) :
    settle b q v s = s ∨ ∃ pr, s.heap[q]? = some pr ∧ pr.st = .pending ∧
      settle b q v s = { s with heap := s.heap.set q ⟨.settled b v, [], [], pr.origin⟩,
                                stack := .notify v (pick b pr) :: s.stack } := by
  unfold settle
  split
  · exact .inl rfl
  · next pr h =>
    split
    · next hp => exact .inr ⟨pr, h, hp, by cases b <;> rfl⟩
    · exact .inl rfl

/-- the three shapes of a `then` on an existing promise -/
theorem thenOp_cases (p : Nat) (r j : Option Fn) (s : State) :
    (s.heap[p]? = none ∧ thenOp p r j s = emit .badRef s) ∨
    ∃ pr, s.heap[p]? = some pr ∧
      ((pr.st = .pending ∧ thenOp p r j s =
          { s with heap := (s.heap ++ [({ origin := .chained } : Prom)]).set p ⟨.pending, pr.resolvers ++ [mkCb s.regs.length .res r s.heap.length],
                                                             pr.rejectors ++ [mkCb s.regs.length .rej j s.heap.length], pr.origin⟩,
                   regs := s.regs ++ [p], during := s.during ++ [waiting p s] }) ∨
       (∃ b v, pr.st = .settled b v ∧ thenOp p r j s =
          { s with heap := (s.heap ++ [({ origin := .chained } : Prom)]).set p ⟨.settled b v, [], [], pr.origin⟩,
                   regs := s.regs ++ [p], during := s.during ++ [waiting p s],
                   stack := .notify v (pick b pr ++ [mkCb s.regs.length b (match b with | .res => r | .rej => j) s.heap.length]) :: s.stack })) := by
  unfold thenOp
  cases hp : s.heap[p]? with
  | none => exact .inl ⟨rfl, rfl⟩
  | some pr =>
    refine .inr ⟨pr, rfl, ?_⟩
    cases hst : pr.st with
    | pending => exact .inl ⟨rfl, by simp [hst]⟩
    | settled b v =>
      refine .inr ⟨b, v, rfl, ?_⟩
      cases b <;> simp [hst, pick]

def origin (s : State) (p : Nat) : Option Origin := (s.heap[p]?).map (·.origin)

/-- settled statuses are kept, the heap only grows, promises keep their origin -/
structure Ext (s s' : State) : Prop where
  len : s.heap.length ≤ s'.heap.length
  keep : ∀ p b v, status s p = some (.settled b v) → status s' p = some (.settled b v)
  orig : ∀ p o, origin s p = some o → origin s' p = some o

theorem Ext.refl (s : State) : Ext s s := ⟨Nat.le_refl _, fun _ _ _ h => h, fun _ _ h => h⟩
theorem Ext.trans {a b c : State} (h1 : Ext a b) (h2 : Ext b c) : Ext a c :=
  ⟨Nat.le_trans h1.1 h2.1, fun p b' v h => h2.2 p b' v (h1.2 p b' v h), fun p o h => h2.3 p o (h1.3 p o h)⟩
theorem Ext.of_heap_eq {s s' : State} (h : s'.heap = s.heap) : Ext s s' := by
  refine ⟨?_, ?_, ?_⟩
  · rw [h]; exact Nat.le_refl _
  · unfold status; rw [h]; exact fun _ _ _ h => h
  · unfold origin; rw [h]; exact fun _ _ h => h

theorem lt_of_getElem?_map {α β} {l : List α} {f : α → β} {i : Nat} {y : β} (h : (l[i]?).map f = some y) : i < l.length := by
  cases h' : l[i]? with
  | none => simp [h'] at h
  | some x => exact (List.getElem?_eq_some_iff.mp h').1

theorem Ext_settle (b q v) (s : State) : Ext s (settle b q v s) := by
  rcases settle_cases b q v s with h | ⟨pr, hq, hp, h⟩
  · rw [h]; exact Ext.refl s
  · rw [h]
    refine ⟨by simp, fun p b' v' hs => ?_, fun p o hs => ?_⟩
    · unfold status at *
      simp only [List.getElem?_set]
      by_cases hpq : q = p
      · subst hpq; simp [hq, hp] at hs
      · simpa [hpq] using hs
    · unfold origin at *
      simp only [List.getElem?_set]
      by_cases hpq : q = p
      · subst hpq
        have hlt : q < s.heap.length := (List.getElem?_eq_some_iff.mp hq).1
        simp [hq] at hs; simp [hlt, hs]
      · simpa [hpq] using hs

theorem Ext_thenOp (p r j) (s : State) : Ext s (thenOp p r j s) := by
  rcases thenOp_cases p r j s with ⟨_, h⟩ | ⟨pr, hp, ⟨hst, h⟩ | ⟨b, v, hst, h⟩⟩
  · rw [h]; exact Ext.of_heap_eq rfl
  all_goals
    rw [h]
    have hlt : p < s.heap.length := (List.getElem?_eq_some_iff.mp hp).1
    refine ⟨by simp, fun p' b' v' hs => ?_, fun p' o hs => ?_⟩
    · unfold status at *
      have hlt' : p' < s.heap.length := lt_of_getElem?_map hs
      simp only [List.getElem?_set]
      by_cases hpq : p = p'
      · subst hpq; simp [hp] at hs; rw [hst] at hs
        cases hs
        try (simp; omega)
      · simp [hpq, List.getElem?_append_left hlt']; simpa using hs
    · unfold origin at *
      have hlt' : p' < s.heap.length := lt_of_getElem?_map hs
      simp only [List.getElem?_set]
      by_cases hpq : p = p'
      · subst hpq; simp [hp] at hs; simp [hs]; omega
      · simp [hpq, List.getElem?_append_left hlt']; simpa using hs

theorem Ext_push (f) (s : State) : Ext s (push f s) := Ext.of_heap_eq rfl
theorem Ext_emit (e) (s : State) : Ext s (emit e s) := Ext.of_heap_eq rfl

theorem Ext_newProm (o) (s : State) : Ext s (newProm o s) := by
  refine ⟨by simp [newProm], fun p b v hs => ?_, fun p o' hs => ?_⟩
  · unfold status newProm at *
    have hlt : p < s.heap.length := lt_of_getElem?_map hs
    simpa [List.getElem?_append_left hlt] using hs
  · unfold origin newProm at *
    have hlt : p < s.heap.length := lt_of_getElem?_map hs
    simpa [List.getElem?_append_left hlt] using hs

theorem Ext_finish (r q) (s : State) : Ext s (finish r q s) := by
  unfold finish
  split
  · exact (Ext_emit _ s).trans (Ext_thenOp _ _ _ _)
  · exact Ext_settle _ _ _ _

theorem Ext_note (a) (s : State) : Ext s (note a s) := by
  unfold note; split
  · exact Ext.refl s
  · exact Ext.of_heap_eq rfl

theorem Ext_callFn (f q v) (s : State) : Ext s (callFn f q v s) := by
  unfold callFn
  split
  · exact Ext.of_heap_eq rfl
  · exact ((Ext_emit _ s).trans (Ext_push _ _)).trans (Ext_settle _ _ _ _)
  · exact (Ext_push _ s).trans (Ext_settle _ _ _ _)
  · split
    · exact Ext.refl s
    · dsimp only
      split
      · exact Ext.trans (b := _) (by exact Ext.of_heap_eq rfl) (Ext_settle _ _ _ _)
      · exact Ext.of_heap_eq rfl
  · split
    · exact Ext.refl s
    · exact (Ext_push _ s).trans (Ext_settle _ _ _ _)
  · split
    · exact Ext.refl s
    · dsimp only
      split
      · exact Ext.trans (b := _) (by exact Ext.of_heap_eq rfl) (Ext_settle _ _ _ _)
      · exact Ext.of_heap_eq rfl

theorem Ext_invoke (c v) (s : State) : Ext s (invoke c v s) := by
  unfold invoke invokeBody
  split
  · exact (Ext_emit _ s).trans (Ext_settle _ _ _ _)
  · exact (Ext_emit _ s).trans (Ext_callFn _ _ _ _)

theorem Ext_collect (m ps) (s : State) : Ext s (collect m ps s) := by
  unfold collect
  split
  · dsimp only
    split
    · refine (Ext_newProm (.coll s.colls.length) s).trans ?_; refine Ext.trans ?_ (Ext_settle _ _ _ _); exact Ext.of_heap_eq rfl
    · exact (Ext_newProm (.coll s.colls.length) s).trans (Ext.of_heap_eq rfl)
  · exact Ext_emit _ _

theorem Ext_act (arg a) (s : State) : Ext s (act arg a s) := by
  unfold act
  split
  · exact Ext_thenOp _ _ _ _
  · split
    · exact (Ext_emit _ s).trans (Ext_settle _ _ _ _)
    · exact Ext_emit _ _
  · split
    · exact (Ext_emit _ s).trans (Ext_settle _ _ _ _)
    · exact Ext_emit _ _
  · exact Ext_newProm _ s
  · exact (Ext_newProm _ s).trans (Ext_push _ _)
  · exact Ext_collect _ _ _
  · exact Ext_collect _ _ _

theorem Ext_kont (arg k) (s : State) : Ext s (kont arg k s) := by
  unfold kont
  split
  · exact Ext.refl s
  · exact Ext_finish _ _ _
  · exact Ext_finish _ _ _
  · exact Ext_settle _ _ _ _
  · exact Ext_settle _ _ _ _
  · exact Ext.refl s

theorem Ext_step {s s' : State} (h : step s = some s') : Ext s s' := by
  unfold step at h
  split at h
  · simp at h
  · next f rest hst =>
    have pop : Ext s { s with stack := rest } := Ext.of_heap_eq rfl
    dsimp only at h
    split at h <;> simp only [Option.some.injEq] at h <;> subst h
    · exact pop
    · exact pop.trans ((Ext_push _ _).trans (Ext_invoke _ _ _))
    · exact pop.trans (Ext_finish _ _ _)
    · exact pop.trans (Ext_kont _ _ _)
    · exact pop.trans ((Ext_push _ _).trans (Ext_act _ _ _))
    · exact pop
    · exact pop.trans (((Ext_note _ _).trans (Ext_push _ _)).trans (Ext_thenOp _ _ _ _))

/-! ### accounting of registered callbacks -/

def Cb.is (rid : Nat) (b : Br) (c : Cb) : Bool := c.rid == rid && c.br == b
def cnt (rid : Nat) (b : Br) (l : List Cb) : Nat := l.countP (Cb.is rid b)
def frameCnt (rid : Nat) (b : Br) : Frame → Nat
  | .notify _ todo => cnt rid b todo
  | _ => 0
def stackCnt (rid : Nat) (b : Br) (st : List Frame) : Nat := (st.map (frameCnt rid b)).sum
def Event.isInv (rid : Nat) (b : Br) : Event → Bool
  | .invoke r b' _ => r == rid && b' == b
  | _ => false
def calls (rid : Nat) (b : Br) (log : List Event) : Nat := log.countP (Event.isInv rid b)

/-- the `then()` call number `rid` was made on a promise that is settled on branch `b` with `v` -/
def SettledAs (s : State) (rid : Nat) (b : Br) (v : Val) : Prop :=
  ∃ p pr, s.regs[rid]? = some p ∧ s.heap[p]? = some pr ∧ pr.st = .settled b v

structure Inv (s : State) : Prop where
  regs_lt : ∀ (rid p : Nat), s.regs[rid]? = some p → p < s.heap.length
  owner : ∀ (p : Nat) (pr : Prom), s.heap[p]? = some pr → ∀ b, ∀ c ∈ pick b pr, c.br = b ∧ s.regs[c.rid]? = some p
  clean : ∀ (p : Nat) (pr : Prom) (b : Br) (v : Val), s.heap[p]? = some pr → pr.st = .settled b v → pr.resolvers = [] ∧ pr.rejectors = []
  frames : ∀ v todo, Frame.notify v todo ∈ s.stack → ∀ c ∈ todo, SettledAs s c.rid c.br v
  logs : ∀ (rid : Nat) (b : Br) (v : Val), Event.invoke rid b v ∈ s.log → SettledAs s rid b v
  acct : ∀ (rid p : Nat) (pr : Prom), s.regs[rid]? = some p → s.heap[p]? = some pr →
    (pr.st = .pending → cnt rid .res pr.resolvers = 1 ∧ cnt rid .rej pr.rejectors = 1) ∧
    (∀ b v, pr.st = .settled b v → stackCnt rid b s.stack + calls rid b s.log = 1)

theorem cnt_zero_of {rid b} {l : List Cb} (h : ∀ c ∈ l, ¬(c.rid = rid ∧ c.br = b)) : cnt rid b l = 0 := by
  unfold cnt
  rw [List.countP_eq_zero]
  intro c hc
  have := h c hc
  simpa [Cb.is] using this

theorem cnt_append (rid b) (l1 l2 : List Cb) : cnt rid b (l1 ++ l2) = cnt rid b l1 + cnt rid b l2 := by
  simp [cnt, List.countP_append]

theorem cnt_single (rid b) (c : Cb) : cnt rid b [c] = if c.rid = rid ∧ c.br = b then 1 else 0 := by
  simp [cnt, Cb.is, List.countP_cons]

theorem cnt_cons (rid b) (c : Cb) (l) : cnt rid b (c :: l) = cnt rid b l + if c.rid = rid ∧ c.br = b then 1 else 0 := by
  simp [cnt, Cb.is, List.countP_cons]

theorem stackCnt_cons (rid b f st) : stackCnt rid b (f :: st) = frameCnt rid b f + stackCnt rid b st := by
  simp [stackCnt]

theorem stackCnt_zero_of {rid b} {st : List Frame}
    (h : ∀ v todo, Frame.notify v todo ∈ st → ∀ c ∈ todo, ¬(c.rid = rid ∧ c.br = b)) : stackCnt rid b st = 0 := by
  induction st with
  | nil => rfl
  | cons f st ih =>
    rw [stackCnt_cons, ih (fun v todo hm => h v todo (List.mem_cons_of_mem _ hm))]
    cases f with
    | notify v todo => simp [frameCnt]; exact cnt_zero_of (h v todo (List.mem_cons_self ..))
    | _ => rfl

theorem calls_zero_of {rid b} {log : List Event} (h : ∀ v, Event.invoke rid b v ∉ log) : calls rid b log = 0 := by
  unfold calls
  rw [List.countP_eq_zero]
  intro e he
  cases e with
  | invoke r b' v =>
    simp only [Event.isInv, Bool.and_eq_true, beq_iff_eq, not_and]
    intro h1 h2; subst h1; subst h2; exact h v he
  | _ => simp [Event.isInv]

theorem calls_cons (rid b e log) : calls rid b (e :: log) = calls rid b log + if Event.isInv rid b e then 1 else 0 := by
  simp [calls, List.countP_cons]

theorem SettledAs.not_pending {s : State} {rid b v p pr} (h : SettledAs s rid b v) (hr : s.regs[rid]? = some p)
    (hp : s.heap[p]? = some pr) : pr.st = .settled b v := by
  obtain ⟨p', pr', h1, h2, h3⟩ := h
  rw [hr] at h1; cases h1; rw [hp] at h2; cases h2; exact h3

/-- nothing is waiting or has run for a `then()` whose promise is pending, or on the other branch -/
theorem Inv.stack_zero {s : State} (I : Inv s) {rid p pr b} (hr : s.regs[rid]? = some p) (hp : s.heap[p]? = some pr)
    (hne : ∀ v, pr.st ≠ .settled b v) : stackCnt rid b s.stack = 0 ∧ calls rid b s.log = 0 := by
  constructor
  · apply stackCnt_zero_of
    intro v todo hm c hc ⟨h1, h2⟩
    have := (I.frames v todo hm c hc)
    rw [h1, h2] at this
    exact hne v (this.not_pending hr hp)
  · apply calls_zero_of
    intro v hm
    exact hne v ((I.logs rid b v hm).not_pending hr hp)

theorem Inv.fresh {s : State} (I : Inv s) {rid} (hr : s.regs.length ≤ rid) (b) :
    stackCnt rid b s.stack = 0 ∧ calls rid b s.log = 0 := by
  have hn : s.regs[rid]? = none := List.getElem?_eq_none hr
  constructor
  · apply stackCnt_zero_of
    intro v todo hm c hc ⟨h1, h2⟩
    obtain ⟨p, pr, h, _⟩ := I.frames v todo hm c hc
    rw [h1, hn] at h; cases h
  · apply calls_zero_of
    intro v hm
    obtain ⟨p, pr, h, _⟩ := I.logs rid b v hm
    rw [hn] at h; cases h

theorem SettledAs.mono {s s' : State} {rid b v} (h : SettledAs s rid b v) (hx : Ext s s')
    (hr : ∀ (rid p : Nat), s.regs[rid]? = some p → s'.regs[rid]? = some p) : SettledAs s' rid b v := by
  obtain ⟨p, pr, h1, h2, h3⟩ := h
  have := hx.2 p b v (by simp [status, h2, h3])
  unfold status at this
  cases h' : s'.heap[p]? with
  | none => simp [h'] at this
  | some pr' => simp [h'] at this; exact ⟨p, pr', hr _ _ h1, h', this⟩

theorem Inv_settle {s : State} (I : Inv s) (b q v) : Inv (settle b q v s) := by
  rcases settle_cases b q v s with h | ⟨pr, hq, hpend, h⟩
  · rw [h]; exact I
  have hx : Ext s (settle b q v s) := Ext_settle b q v s
  rw [h] at hx ⊢
  have hqlt : q < s.heap.length := (List.getElem?_eq_some_iff.mp hq).1
  have hmono : ∀ {rid b' v'}, SettledAs s rid b' v' → SettledAs _ rid b' v' := fun h => h.mono hx (fun _ _ h => h)
  refine ⟨?_, ?_, ?_, ?_, ?_, ?_⟩
  · intro rid p hr; simpa using I.regs_lt rid p hr
  · intro p pr' hp b' c hc
    simp only [List.getElem?_set] at hp
    by_cases hpq : q = p
    · simp [hpq] at hp; obtain ⟨_, rfl⟩ := hp; cases b' <;> simp [pick] at hc
    · simp [hpq] at hp; exact I.owner p pr' hp b' c hc
  · intro p pr' b' v' hp hst
    simp only [List.getElem?_set] at hp
    by_cases hpq : q = p
    · simp [hpq] at hp; obtain ⟨_, rfl⟩ := hp; exact ⟨rfl, rfl⟩
    · simp [hpq] at hp; exact I.clean p pr' b' v' hp hst
  · intro v' todo hm c hc
    simp only [List.mem_cons] at hm
    rcases hm with hm | hm
    · cases hm
      obtain ⟨h1, h2⟩ := I.owner q pr hq b c hc
      refine ⟨q, ⟨.settled b v, [], [], pr.origin⟩, h2, by simp [hqlt], by rw [h1]⟩
    · exact hmono (I.frames v' todo hm c hc)
  · intro rid b' v' hm; exact hmono (I.logs rid b' v' hm)
  · intro rid p pr' hr hp
    simp only [List.getElem?_set] at hp
    by_cases hpq : q = p
    · subst hpq
      simp [hqlt] at hp; subst hp
      refine ⟨by simp, ?_⟩
      intro b' v' hst
      simp only [Status.settled.injEq] at hst
      obtain ⟨rfl, rfl⟩ := hst
      have hz := I.stack_zero hr hq (b := b) (by simp [hpend])
      have h1 := (I.acct rid q pr hr hq).1 hpend
      simp only [stackCnt_cons, frameCnt]
      have : cnt rid b (pick b pr) = 1 := by cases b <;> simp [pick, h1.1, h1.2]
      omega
    · simp [hpq] at hp
      refine ⟨(I.acct rid p pr' hr hp).1, ?_⟩
      intro b' v' hst
      have := (I.acct rid p pr' hr hp).2 b' v' hst
      simp only [stackCnt_cons, frameCnt]
      have hz : cnt rid b' (pick b pr) = 0 := by
        apply cnt_zero_of
        intro c hc ⟨h1, _⟩
        have := (I.owner q pr hq b c hc).2
        rw [h1, hr] at this; cases this; exact hpq rfl
      omega

theorem getElem?_snoc_eq_some {α} (l : List α) (x y : α) (i : Nat) :
    (l ++ [x])[i]? = some y ↔ l[i]? = some y ∨ (i = l.length ∧ x = y) := by
  by_cases h : i < l.length
  · rw [List.getElem?_append_left h]
    constructor
    · exact .inl
    · rintro (h' | ⟨h', _⟩)
      · exact h'
      · omega
  · rw [List.getElem?_append_right (by omega)]
    have hn : l[i]? = none := List.getElem?_eq_none (by omega)
    rw [hn]
    by_cases h2 : i = l.length
    · subst h2; simp
    · have : i - l.length ≠ 0 := by omega
      cases hk : i - l.length with
      | zero => omega
      | succ k => simp [h2]

theorem heap_then_lookup (h : List Prom) (p : Nat) (x x0 : Prom) (hplt : p < h.length) (p' : Nat) (pr' : Prom) :
    ((h ++ [x0]).set p x)[p']? = some pr' ↔
      (p' = p ∧ pr' = x) ∨ (p' ≠ p ∧ h[p']? = some pr') ∨ (p' = h.length ∧ pr' = x0) := by
  rw [List.getElem?_set]
  by_cases hpp : p = p'
  · subst hpp
    simp only [if_true, List.length_append, List.length_singleton]
    have : p < h.length + 1 := by omega
    simp only [this, if_true, Option.some.injEq, ne_eq, not_true_eq_false, false_and, false_or, true_and]
    constructor
    · intro h'; exact .inl h'.symm
    · rintro (h' | ⟨h', _⟩)
      · exact h'.symm
      · omega
  · simp only [hpp, if_false, getElem?_snoc_eq_some]
    have hpp' : p' ≠ p := fun h => hpp h.symm
    constructor
    · rintro (h' | ⟨h1, h2⟩)
      · exact .inr (.inl ⟨hpp', h'⟩)
      · exact .inr (.inr ⟨h1, h2.symm⟩)
    · rintro (⟨h', _⟩ | ⟨_, h'⟩ | ⟨h1, h2⟩)
      · exact absurd h' hpp'
      · exact .inl h'
      · exact .inr ⟨h1, h2.symm⟩

theorem mkCb_rid (rid b f q) : (mkCb rid b f q).rid = rid := rfl
theorem mkCb_br (rid b f q) : (mkCb rid b f q).br = b := rfl

theorem pick_empty (b o) : pick b ({ origin := o } : Prom) = [] := by cases b <;> rfl

theorem Inv_thenOp {s : State} (I : Inv s) (p r j) : Inv (thenOp p r j s) := by
  have hx : Ext s (thenOp p r j s) := Ext_thenOp p r j s
  rcases thenOp_cases p r j s with ⟨_, h⟩ | ⟨pr, hp, hcase⟩
  · rw [h]; exact ⟨I.regs_lt, I.owner, I.clean, I.frames, fun rid b v hm => by
      simp only [emit, List.mem_cons] at hm
      rcases hm with hm | hm
      · cases hm
      · exact I.logs rid b v hm, I.acct⟩
  have hplt : p < s.heap.length := (List.getElem?_eq_some_iff.mp hp).1
  have hregs : ∀ (rid p' : Nat), s.regs[rid]? = some p' → (s.regs ++ [p])[rid]? = some p' :=
    fun rid p' h => (getElem?_snoc_eq_some _ _ _ _).mpr (.inl h)
  have hregs_lt : ∀ (rid p' : Nat), (s.regs ++ [p])[rid]? = some p' → p' < s.heap.length := by
    intro rid p' hr
    rcases (getElem?_snoc_eq_some _ _ _ _).mp hr with hr | ⟨_, rfl⟩
    · exact I.regs_lt rid p' hr
    · exact hplt
  have hne_of : ∀ {rid p'}, s.regs[rid]? = some p' → s.regs.length ≠ rid := by
    intro rid p' hr; have := (List.getElem?_eq_some_iff.mp hr).1; omega
  -- old callbacks never carry the new registration number
  have hold : ∀ b, ∀ c ∈ pick b pr, c.rid ≠ s.regs.length := by
    intro b c hc hEq
    have := (I.owner p pr hp b c hc).2
    rw [hEq, List.getElem?_eq_none (Nat.le_refl _)] at this; cases this
  rcases hcase with ⟨hst, h⟩ | ⟨b, v, hst, h⟩
  · -- pending: both lists grow
    rw [h] at hx ⊢
    have hmono : ∀ {rid b' v'}, SettledAs s rid b' v' → SettledAs _ rid b' v' := fun h => h.mono hx hregs
    refine ⟨?_, ?_, ?_, ?_, ?_, ?_⟩
    · intro rid p' hr
      have := hregs_lt rid p' hr
      simp only [List.length_set, List.length_append, List.length_singleton]; omega
    · intro p' pr' hp' b' c hc
      rcases (heap_then_lookup _ _ _ _ hplt _ _).mp hp' with ⟨rfl, rfl⟩ | ⟨hne, hp'⟩ | ⟨rfl, rfl⟩
      · have hc' : c ∈ pick b' pr ∨ ∃ f, c = mkCb s.regs.length b' f s.heap.length := by
          cases b' <;> simp only [pick, List.mem_append, List.mem_singleton] at hc ⊢ <;> rcases hc with hc | hc
          all_goals first | exact .inl hc | exact .inr ⟨_, hc⟩
        rcases hc' with hc' | ⟨f, rfl⟩
        · have := I.owner _ pr hp b' c hc'; exact ⟨this.1, hregs _ _ this.2⟩
        · exact ⟨rfl, by simp [mkCb_rid]⟩
      · have := I.owner p' pr' hp' b' c hc; exact ⟨this.1, hregs _ _ this.2⟩
      · rw [pick_empty] at hc; cases hc
    · intro p' pr' b' v' hp' hst'
      rcases (heap_then_lookup _ _ _ _ hplt _ _).mp hp' with ⟨rfl, rfl⟩ | ⟨hne, hp'⟩ | ⟨rfl, rfl⟩
      · cases hst'
      · exact I.clean p' pr' b' v' hp' hst'
      · exact ⟨rfl, rfl⟩
    · intro v' todo hm c hc; exact hmono (I.frames v' todo hm c hc)
    · intro rid b' v' hm; exact hmono (I.logs rid b' v' hm)
    · intro rid p' pr' hr hp'
      have hr' := (getElem?_snoc_eq_some _ _ _ _).mp hr
      rcases (heap_then_lookup _ _ _ _ hplt _ _).mp hp' with ⟨rfl, rfl⟩ | ⟨hne, hp'⟩ | ⟨rfl, rfl⟩
      · refine ⟨fun _ => ?_, fun b' v' h' => by cases h'⟩
        simp only [cnt_append, cnt_single, mkCb_rid, mkCb_br]
        rcases hr' with hr' | ⟨rfl, _⟩
        · have := (I.acct rid _ pr hr' hp).1 hst
          simp [hne_of hr', this.1, this.2]
        · have h1 : cnt s.regs.length .res pr.resolvers = 0 :=
            cnt_zero_of (fun c hc hh => hold .res c hc hh.1)
          have h2 : cnt s.regs.length .rej pr.rejectors = 0 :=
            cnt_zero_of (fun c hc hh => hold .rej c hc hh.1)
          simp [h1, h2]
      · rcases hr' with hr' | ⟨rfl, rfl⟩
        · exact I.acct rid p' pr' hr' hp'
        · exact absurd rfl hne
      · have := hregs_lt rid _ hr; omega
  · -- settled: the new callback is scheduled at once
    rw [h] at hx ⊢
    have hcl := I.clean p pr b v hp hst
    have hpick : pick b pr = [] := by cases b <;> simp [pick, hcl.1, hcl.2]
    have hmono : ∀ {rid b' v'}, SettledAs s rid b' v' → SettledAs _ rid b' v' := fun h => h.mono hx hregs
    refine ⟨?_, ?_, ?_, ?_, ?_, ?_⟩
    · intro rid p' hr
      have := hregs_lt rid p' hr
      simp only [List.length_set, List.length_append, List.length_singleton]; omega
    · intro p' pr' hp' b' c hc
      rcases (heap_then_lookup _ _ _ _ hplt _ _).mp hp' with ⟨rfl, rfl⟩ | ⟨hne, hp'⟩ | ⟨rfl, rfl⟩
      · cases b' <;> simp [pick] at hc
      · have := I.owner p' pr' hp' b' c hc; exact ⟨this.1, hregs _ _ this.2⟩
      · rw [pick_empty] at hc; cases hc
    · intro p' pr' b' v' hp' hst'
      rcases (heap_then_lookup _ _ _ _ hplt _ _).mp hp' with ⟨rfl, rfl⟩ | ⟨hne, hp'⟩ | ⟨rfl, rfl⟩
      · exact ⟨rfl, rfl⟩
      · exact I.clean p' pr' b' v' hp' hst'
      · exact ⟨rfl, rfl⟩
    · intro v' todo hm c hc
      simp only [List.mem_cons] at hm
      rcases hm with hm | hm
      · cases hm
        rw [hpick] at hc
        simp only [List.nil_append, List.mem_singleton] at hc
        subst hc
        refine ⟨p, ⟨.settled b v, [], [], pr.origin⟩, ?_, ?_, rfl⟩
        · simp [mkCb_rid]
        · exact (heap_then_lookup _ _ _ _ hplt _ _).mpr (.inl ⟨rfl, rfl⟩)
      · exact hmono (I.frames v' todo hm c hc)
    · intro rid b' v' hm; exact hmono (I.logs rid b' v' hm)
    · intro rid p' pr' hr hp'
      have hr' := (getElem?_snoc_eq_some _ _ _ _).mp hr
      simp only [stackCnt_cons, frameCnt, hpick, List.nil_append, cnt_single, mkCb_rid, mkCb_br]
      rcases (heap_then_lookup _ _ _ _ hplt _ _).mp hp' with ⟨rfl, rfl⟩ | ⟨hne, hp'⟩ | ⟨rfl, rfl⟩
      · refine ⟨fun h' => (by cases h'), ?_⟩
        intro b' v' h'
        cases h'
        rcases hr' with hr' | ⟨rfl, _⟩
        · have := (I.acct rid _ pr hr' hp).2 b v hst
          simp [hne_of hr']; exact this
        · have := I.fresh (Nat.le_refl s.regs.length) b
          simp [this.1, this.2]
      · rcases hr' with hr' | ⟨rfl, rfl⟩
        · have := I.acct rid p' pr' hr' hp'
          refine ⟨this.1, fun b' v' h' => ?_⟩
          have := this.2 b' v' h'
          simp [hne_of hr']; exact this
        · exact absurd rfl hne
      · have := hregs_lt rid _ hr; omega

theorem Inv.congr {s s' : State} (I : Inv s) (h1 : s'.heap = s.heap) (h2 : s'.regs = s.regs)
    (h3 : s'.stack = s.stack) (h4 : s'.log = s.log) : Inv s' := by
  obtain ⟨heap, colls, regs, during, stack, log⟩ := s
  obtain ⟨heap', colls', regs', during', stack', log'⟩ := s'
  simp only at h1 h2 h3 h4
  subst h1 h2 h3 h4
  exact ⟨I.1, I.2, I.3, I.4, I.5, I.6⟩

theorem Inv.pop {s : State} (I : Inv s) {f rest} (hs : s.stack = f :: rest) (hf : ∀ rid b, frameCnt rid b f = 0) :
    Inv { s with stack := rest } := by
  refine ⟨I.regs_lt, I.owner, I.clean, ?_, I.logs, ?_⟩
  · intro v todo hm c hc
    exact I.frames v todo (by rw [hs]; exact List.mem_cons_of_mem _ hm) c hc
  · intro rid p pr hr hp
    have := I.acct rid p pr hr hp
    refine ⟨this.1, fun b v h => ?_⟩
    have := this.2 b v h
    rw [hs, stackCnt_cons, hf] at this
    simpa using this

theorem Inv.push {s : State} (I : Inv s) (f : Frame) (hf : ∀ v todo, f ≠ .notify v todo) : Inv (push f s) := by
  have hz : ∀ rid b, frameCnt rid b f = 0 := by
    intro rid b; cases f with
    | notify v todo => exact absurd rfl (hf v todo)
    | _ => rfl
  refine ⟨I.regs_lt, I.owner, I.clean, ?_, I.logs, ?_⟩
  · intro v todo hm c hc
    simp only [Promise.push, List.mem_cons] at hm
    rcases hm with hm | hm
    · exact absurd hm.symm (hf v todo)
    · exact I.frames v todo hm c hc
  · intro rid p pr hr hp
    have := I.acct rid p pr hr hp
    refine ⟨this.1, fun b v h => ?_⟩
    have := this.2 b v h
    simp only [Promise.push, stackCnt_cons, hz]
    simpa using this

theorem Inv.emit {s : State} (I : Inv s) (e : Event) (he : ∀ rid b v, e ≠ .invoke rid b v) : Inv (emit e s) := by
  have hz : ∀ rid b, Event.isInv rid b e = false := by
    intro rid b; cases e with
    | invoke r b' v => exact absurd rfl (he r b' v)
    | _ => rfl
  refine ⟨I.regs_lt, I.owner, I.clean, I.frames, ?_, ?_⟩
  · intro rid b v hm
    simp only [Promise.emit, List.mem_cons] at hm
    rcases hm with hm | hm
    · exact absurd hm.symm (he rid b v)
    · exact I.logs rid b v hm
  · intro rid p pr hr hp
    have := I.acct rid p pr hr hp
    refine ⟨this.1, fun b v h => ?_⟩
    have := this.2 b v h
    simp only [Promise.emit, calls_cons, hz]
    simpa using this

theorem Inv_newProm {s : State} (I : Inv s) (o) : Inv (newProm o s) := by
  have hx := Ext_newProm o s
  have hmono : ∀ {rid b' v'}, SettledAs s rid b' v' → SettledAs (newProm o s) rid b' v' :=
    fun h => h.mono hx (fun _ _ h => h)
  refine ⟨?_, ?_, ?_, ?_, ?_, ?_⟩
  · intro rid p hr
    have := I.regs_lt rid p hr
    simp only [newProm, List.length_append, List.length_singleton]; omega
  · intro p pr hp b c hc
    rcases (getElem?_snoc_eq_some _ _ _ _).mp hp with hp | ⟨_, rfl⟩
    · exact I.owner p pr hp b c hc
    · rw [pick_empty] at hc; cases hc
  · intro p pr b v hp hst
    rcases (getElem?_snoc_eq_some _ _ _ _).mp hp with hp | ⟨_, rfl⟩
    · exact I.clean p pr b v hp hst
    · exact ⟨rfl, rfl⟩
  · intro v todo hm c hc; exact hmono (I.frames v todo hm c hc)
  · intro rid b v hm; exact hmono (I.logs rid b v hm)
  · intro rid p pr hr hp
    rcases (getElem?_snoc_eq_some _ _ _ _).mp hp with hp | ⟨rfl, rfl⟩
    · exact I.acct rid p pr hr hp
    · have := I.regs_lt rid _ hr; omega

/-- the head of a notification loop: the callback leaves the frame and is recorded as invoked -/
theorem Inv.notify_step {s : State} (I : Inv s) {v c todo rest} (hs : s.stack = .notify v (c :: todo) :: rest) :
    Inv { s with stack := .notify v todo :: rest, log := .invoke c.rid c.br v :: s.log } := by
  refine ⟨I.regs_lt, I.owner, I.clean, ?_, ?_, ?_⟩
  · intro v' todo' hm c' hc'
    simp only [List.mem_cons] at hm
    rcases hm with hm | hm
    · cases hm
      exact I.frames v (c :: todo) (by rw [hs]; exact List.mem_cons_self ..) c' (List.mem_cons_of_mem _ hc')
    · exact I.frames v' todo' (by rw [hs]; exact List.mem_cons_of_mem _ hm) c' hc'
  · intro rid b v' hm
    simp only [List.mem_cons] at hm
    rcases hm with hm | hm
    · cases hm
      exact I.frames v (c :: todo) (by rw [hs]; exact List.mem_cons_self ..) c (List.mem_cons_self ..)
    · exact I.logs rid b v' hm
  · intro rid p pr hr hp
    have := I.acct rid p pr hr hp
    refine ⟨this.1, fun b v' h => ?_⟩
    have := this.2 b v' h
    rw [hs] at this
    simp only [stackCnt_cons, frameCnt, cnt_cons, calls_cons, Event.isInv] at this ⊢
    by_cases hc : c.rid = rid ∧ c.br = b
    · simp [hc] at this ⊢; omega
    · have hc' : ¬ (c.rid == rid && c.br == b) = true := by simpa using hc
      simp [hc, hc'] at this ⊢; omega

theorem Inv.setColls {s : State} (I : Inv s) (a) : Inv { s with colls := a } := I.congr rfl rfl rfl rfl

theorem Inv_note {s : State} (I : Inv s) (a) : Inv (note a s) := by
  unfold note; split
  · exact I
  · exact I.setColls _

theorem Inv_finish {s : State} (I : Inv s) (r q) : Inv (finish r q s) := by
  unfold finish
  split
  · exact Inv_thenOp (I.emit _ (by intros; simp)) _ _ _
  · exact Inv_settle I _ _ _

theorem Inv_callFn {s : State} (I : Inv s) (f q v) : Inv (callFn f q v s) := by
  unfold callFn
  split
  · exact (I.emit _ (by intros; simp)).push _ (by intros; simp)
  · exact Inv_settle ((I.emit _ (by intros; simp)).push _ (by intros; simp)) _ _ _
  · exact Inv_settle (I.push _ (by intros; simp)) _ _ _
  · split
    · exact I
    · dsimp only
      split
      · exact Inv_settle ((I.setColls _).push _ (by intros; simp)) _ _ _
      · exact (I.setColls _).push _ (by intros; simp)
  · split
    · exact I
    · exact Inv_settle (I.push _ (by intros; simp)) _ _ _
  · split
    · exact I
    · dsimp only
      split
      · exact Inv_settle ((I.setColls _).push _ (by intros; simp)) _ _ _
      · exact (I.setColls _).push _ (by intros; simp)

theorem Inv_invokeBody {s : State} (I : Inv s) (c v) : Inv (invokeBody c v s) := by
  unfold invokeBody
  split
  · exact Inv_settle I _ _ _
  · exact Inv_callFn I _ _ _

theorem Inv_collect {s : State} (I : Inv s) (m ps) : Inv (collect m ps s) := by
  unfold collect
  split
  · dsimp only
    split
    · exact Inv_settle ((Inv_newProm I _).setColls _) _ _ _
    · exact ((Inv_newProm I _).setColls _).push _ (by intros; simp)
  · exact I.emit _ (by intros; simp)

theorem Inv_act {s : State} (I : Inv s) (arg a) : Inv (act arg a s) := by
  unfold act
  split
  · exact Inv_thenOp I _ _ _
  · split
    · exact Inv_settle (I.emit _ (by intros; simp)) _ _ _
    · exact I.emit _ (by intros; simp)
  · split
    · exact Inv_settle (I.emit _ (by intros; simp)) _ _ _
    · exact I.emit _ (by intros; simp)
  · exact Inv_newProm I _
  · exact (Inv_newProm I _).push _ (by intros; simp)
  · exact Inv_collect I _ _
  · exact Inv_collect I _ _

theorem Inv_kont {s : State} (I : Inv s) (arg k) : Inv (kont arg k s) := by
  unfold kont
  split
  · exact I
  · exact Inv_finish I _ _
  · exact Inv_finish I _ _
  · exact Inv_settle I _ _ _
  · exact Inv_settle I _ _ _
  · exact I

theorem Inv_step {s s' : State} (I : Inv s) (h : step s = some s') : Inv s' := by
  unfold step at h
  split at h
  · simp at h
  · next f rest hst =>
    dsimp only at h
    split at h <;> simp only [Option.some.injEq] at h <;> subst h
    · exact I.pop hst (by intros; rfl)
    · exact Inv_invokeBody (I.notify_step hst) _ _
    · exact Inv_finish (I.pop hst (by intros; rfl)) _ _
    · exact Inv_kont (I.pop hst (by intros; rfl)) _ _
    · exact Inv_act ((I.pop hst (by intros; rfl)).push _ (by intros; simp)) _ _
    · exact I.pop hst (by intros; rfl)
    · exact Inv_thenOp ((Inv_note (I.pop hst (by intros; rfl)) _).push _ (by intros; simp)) _ _ _

theorem Inv_init : Inv init := by
  refine ⟨?_, ?_, ?_, ?_, ?_, ?_⟩ <;> simp [init]

/-! ### histories -/

/-- `s'` is reached from `s` by machine steps and (top-level or scripted) operations, in any interleaving. -/
inductive Evolves : State → State → Prop
  | refl (s : State) : Evolves s s
  | step {s s' s'' : State} : Evolves s s' → step s' = some s'' → Evolves s s''
  | op {s s' : State} (arg : Val) (a : Act) : Evolves s s' → Evolves s (act arg a s')

/-- reachable from the empty world -/
def Reach (s : State) : Prop := Evolves init s

theorem Evolves.ext {s s' : State} (h : Evolves s s') : Ext s s' := by
  induction h with
  | refl => exact Ext.refl _
  | step _ hs ih => exact ih.trans (Ext_step hs)
  | op arg a _ ih => exact ih.trans (Ext_act arg a _)

theorem Evolves.inv {s s' : State} (h : Evolves s s') (I : Inv s) : Inv s' := by
  induction h with
  | refl => exact I
  | step _ hs ih => exact Inv_step ih hs
  | op arg a _ ih => exact Inv_act ih arg a

theorem Reach.inv {s : State} (h : Reach s) : Inv s := Evolves.inv h Inv_init

theorem Evolves.trans {a b c : State} (h1 : Evolves a b) (h2 : Evolves b c) : Evolves a c := by
  induction h2 with
  | refl => exact h1
  | step _ hs ih => exact .step ih hs
  | op arg x _ ih => exact .op arg x ih

theorem Evolves.run (n : Nat) {s s' : State} (h : Evolves s s') : Evolves s (run n s') := by
  induction n generalizing s' with
  | zero => exact h
  | succ n ih =>
    unfold Promise.run
    split
    · exact h
    · next s'' hs => exact ih (.step h hs)

theorem Evolves.exec (fuel : Nat) (a : Act) {s s' : State} (h : Evolves s s') : Evolves s (exec fuel a s') :=
  Evolves.run fuel (.op .none a h)

theorem Evolves.execAll (fuel : Nat) (ops : List Act) {s s' : State} (h : Evolves s s') :
    Evolves s (execAll fuel ops s') := by
  induction ops generalizing s' with
  | nil => exact h
  | cons a ops ih => exact ih (h.exec fuel a)

/-- whatever the driver computes is a reachable state -/
theorem Reach.execAll (fuel : Nat) (ops : List Act) : Reach (execAll fuel ops init) :=
  Evolves.execAll fuel ops (.refl _)

end RedunModel.Promise
