import RedunModel.Model.Monitor
namespace RedunModel.Monitor

/-- the job a Glue submission thread holds between `popleft()` and `running_glue_jobs[job_id] = job` -/
def handOf (u : Sub) : List Job :=
  match u.ph with
  | .mid _ | .promote => [u.cur]
  | _ => []

def inHandL (subs : List Sub) : List Job := (subs.map handOf).flatten
def inHand (s : State) : List Job := inHandL s.subs

def rest (s : State) : List Job := if s.sph = .ins then s.cur :: s.todo else s.todo

theorem sNops_ne_ins (r : List Lbl) (k : List Lbl → SPh) (next : SPh) (hk : ∀ r, k r ≠ .ins) (hn : next ≠ .ins) :
    sNops r k next ≠ .ins := by
  unfold sNops; split
  · exact hn
  · exact hk _

@[simp] theorem sNops_pre (r : List Lbl) : (sNops r .pre .test = .ins) = False :=
  eq_false (sNops_ne_ins r _ _ (by simp) (by simp))
@[simp] theorem sNops_setPre (r : List Lbl) : (sNops r .setPre .set = .ins) = False :=
  eq_false (sNops_ne_ins r _ _ (by simp) (by simp))
@[simp] theorem sNops_newPre (r : List Lbl) : (sNops r .newPre .new = .ins) = False :=
  eq_false (sNops_ne_ins r _ _ (by simp) (by simp))

structure InvC (jobs : List Job) (s : State) : Prop where
  cons : ∀ j, s.submitted.count j = s.queue.count j + s.pending.count j + (inHand s).count j + s.reported.count j
    + s.dropped.count j
  prog : jobs = s.submitted ++ rest s

theorem invC_init (jobs : List Job) : InvC jobs (init jobs) := by
  unfold init; split <;> constructor <;> simp [rest, inHand, inHandL, State.subs]

theorem count_erase_of_mem (l : List Job) (a j : Job) (h : l.contains a = true) :
    (l.erase a).count j + (if a = j then 1 else 0) = l.count j := by
  have hm : a ∈ l := by simpa using h
  induction l with
  | nil => simp at hm
  | cons x r ih =>
    by_cases hx : x = a
    · subst hx; simp [List.count_cons]
    · have hr : a ∈ r := by
        rcases List.mem_cons.1 hm with h | h
        · exact absurd h.symm hx
        · exact h
      have := ih (by simpa using hr) hr
      have hxa : (x == a) = false := by simp [hx]
      simp only [List.erase_cons, hxa, List.count_cons]
      simp only [Bool.false_eq_true, if_false, List.count_cons] at this ⊢; omega

theorem inHandL_append (a b : List Sub) : inHandL (a ++ b) = inHandL a ++ inHandL b := by
  simp [inHandL]

theorem inHandL_toList_map (o : Option Sub) (f : Sub → Sub) (hf : ∀ u, handOf (f u) = handOf u) :
    inHandL (o.map f).toList = inHandL o.toList := by
  cases o <;> simp [inHandL, hf]

theorem count_inHandL_set (l : List Sub) (k : Nat) (u u' : Sub) (j : Job) (h : l[k]? = some u) :
    (inHandL (l.set k u')).count j + (handOf u).count j = (inHandL l).count j + (handOf u').count j := by
  induction l generalizing k with
  | nil => simp at h
  | cons x r ih =>
    cases k with
    | zero =>
      simp at h; subst h
      simp [inHandL, List.count_append]; omega
    | succ k =>
      simp at h
      have := ih k h
      simp only [inHandL, List.set_cons_succ, List.map_cons, List.flatten_cons, List.count_append] at this ⊢
      omega

theorem handOf_start (V : Variant) (u : Sub) :
    handOf (if u.ph = .unstarted then { u with ph := uNops V.uPre .pre .outer } else u) = handOf u := by
  split
  · rename_i h; simp only [handOf, h, uNops]; cases V.uPre <;> rfl
  · rfl

theorem finishS_cons (s : State) :
    (finishS s).submitted = s.submitted ∧ (finishS s).queue = s.queue ∧ (finishS s).pending = s.pending ∧
    inHand (finishS s) = inHand s ∧ (finishS s).reported = s.reported ∧ (finishS s).dropped = s.dropped := by
  unfold finishS; split <;> simp [inHand, State.subs]

theorem finishS_rest (s : State) (h : s.sph ≠ .ins) : rest (finishS s) = rest s := by
  unfold finishS; split <;> simp_all [rest]

theorem invC_finishS (jobs : List Job) (s : State) (hne : s.sph ≠ .ins) (h : InvC jobs s) : InvC jobs (finishS s) := by
  obtain ⟨a, b, c, d, e, f⟩ := finishS_cons s
  refine ⟨?_, ?_⟩
  · intro j; rw [a, b, c, d, e, f]; exact h.cons j
  · rw [a, finishS_rest s hne]; exact h.prog

/-- a state that differs from `s` only in thread-control fields keeps the conservation invariant -/
theorem invC_congr (jobs : List Job) (s t : State) (h : InvC jobs s)
    (h1 : t.submitted = s.submitted) (h2 : t.queue = s.queue) (h3 : t.pending = s.pending)
    (h4 : inHand t = inHand s) (h5 : t.reported = s.reported) (h6 : rest t = rest s)
    (h7 : t.dropped = s.dropped := by rfl) : InvC jobs t := by
  refine ⟨?_, ?_⟩
  · intro j; rw [h1, h2, h3, h4, h5, h7]; exact h.cons j
  · rw [h1, h6]; exact h.prog

set_option linter.unusedSimpArgs false in
set_option maxHeartbeats 2000000 in
theorem invC_stepS (V : Variant) (jobs : List Job) (s s' : State) (h : InvC jobs s) (hs : stepS V s = some s') :
    InvC jobs s' := by
  obtain ⟨flag, pending, queue, arrAlive, reported, crashes, submitted, hit, sph, cur, todo, mons, subs⟩ := s
  cases sph
  case ins =>
    obtain ⟨h1, h2⟩ := h
    simp only [stepS] at hs
    repeat' split at hs
    all_goals (simp at hs; subst hs; constructor)
    all_goals first
      | (intro j; have := h1 j; simp only [inHand, State.subs, List.count_append] at *; omega)
      | simp_all [rest]
  case startSub =>
    simp only [stepS, Option.some.injEq] at hs; subst hs
    apply invC_finishS
    · simp
    · apply invC_congr jobs _ _ h <;> try rfl
      · simp only [inHand, State.subs, inHandL_append]
        rw [inHandL_toList_map _ _ (handOf_start V)]
  all_goals (simp only [stepS] at hs; repeat' split at hs)
  all_goals (try (simp only [Option.some.injEq, reduceCtorEq] at hs))
  all_goals (try subst hs)
  all_goals first
    | (apply invC_finishS; (first | simp | skip); apply invC_congr jobs _ _ h <;> simp [inHand, rest, inHandL, handOf, State.subs])
    | (apply invC_congr jobs _ _ h <;> simp [inHand, rest, inHandL, handOf, State.subs])

set_option maxHeartbeats 2000000 in
theorem stepMon_effect (V : Variant) (s s' : State) (k : Bool) (m m' : Mon) (hs : stepMon V s k m = some (s', m')) :
    s'.submitted = s.submitted ∧ s'.queue = s.queue ∧ s'.oldSubs = s.oldSubs ∧ s'.sub = s.sub ∧ s'.sph = s.sph ∧
    s'.cur = s.cur ∧ s'.todo = s.todo ∧ s'.old = s.old ∧ s'.mon = s.mon ∧
    ((s'.pending = s.pending ∧ s'.reported = s.reported ∧ s'.dropped = s.dropped) ∨
     (∃ c, s.pending.contains c = true ∧ s'.pending = s.pending.erase c ∧
        ((s'.reported = s.reported ++ [c] ∧ s'.dropped = s.dropped) ∨ (s'.reported = s.reported ∧ s'.dropped = s.dropped ++ [c])))) := by
  obtain ⟨ph, iter, cur, idx⟩ := m
  cases ph <;> simp only [stepMon] at hs
  case post r =>
    cases r with
    | nil => simp at hs
    | cons x r' =>
      obtain ⟨l, op⟩ := x
      cases op <;> simp only at hs <;> (try split at hs) <;> simp at hs <;> obtain ⟨h1, h2⟩ := hs <;> subst h1 <;> simp
  case proc =>
    split at hs
    · -- injected fault
      split at hs
      · rename_i hc
        simp only [Option.some.injEq, Prod.mk.injEq] at hs
        obtain ⟨h1, h2⟩ := hs; subst h1
        have hc' : s.pending.contains cur = true := by simp at hc; simpa using hc.2
        exact ⟨rfl, rfl, rfl, rfl, rfl, rfl, rfl, rfl, rfl, Or.inr ⟨cur, hc', rfl, Or.inr ⟨rfl, rfl⟩⟩⟩
      · simp only [Option.some.injEq, Prod.mk.injEq] at hs
        obtain ⟨h1, h2⟩ := hs; subst h1; simp
    · split at hs
      · rename_i hc; simp at hs; obtain ⟨h1, h2⟩ := hs; subst h1
        exact ⟨rfl, rfl, rfl, rfl, rfl, rfl, rfl, rfl, rfl, Or.inr ⟨cur, by simpa using hc, rfl, Or.inl ⟨rfl, rfl⟩⟩⟩
      · simp at hs; obtain ⟨h1, h2⟩ := hs; subst h1; simp
  all_goals ((repeat' split at hs) <;> simp at hs <;> (try (obtain ⟨h1, h2⟩ := hs; subst h1; simp)))

theorem invC_of_monEffect (jobs : List Job) (s s'' t : State) (h : InvC jobs s)
    (e : s''.submitted = s.submitted ∧ s''.queue = s.queue ∧ s''.oldSubs = s.oldSubs ∧ s''.sub = s.sub ∧ s''.sph = s.sph ∧
      s''.cur = s.cur ∧ s''.todo = s.todo ∧ s''.old = s.old ∧ s''.mon = s.mon ∧
      ((s''.pending = s.pending ∧ s''.reported = s.reported ∧ s''.dropped = s.dropped) ∨
       (∃ c, s.pending.contains c = true ∧ s''.pending = s.pending.erase c ∧
          ((s''.reported = s.reported ++ [c] ∧ s''.dropped = s.dropped) ∨ (s''.reported = s.reported ∧ s''.dropped = s.dropped ++ [c])))))
    (t1 : t.submitted = s''.submitted) (t2 : t.queue = s''.queue) (t3 : t.oldSubs = s''.oldSubs) (t4 : t.sub = s''.sub)
    (t5 : t.sph = s''.sph) (t6 : t.cur = s''.cur) (t7 : t.todo = s''.todo) (t8 : t.pending = s''.pending)
    (t9 : t.reported = s''.reported) (t10 : t.dropped = s''.dropped := by rfl) : InvC jobs t := by
  obtain ⟨e1, e2, e3, e3', e4, e5, e6, _, _, e7⟩ := e
  refine ⟨?_, ?_⟩
  · intro j
    have := h.cons j
    simp only [inHand, State.subs] at *
    rw [t1, t2, t3, t4, t8, t9, t10, e1, e2, e3, e3']
    rcases e7 with ⟨p1, p2, p3⟩ | ⟨c, hc, p1, ⟨p2, p3⟩ | ⟨p2, p3⟩⟩
    · rw [p1, p2, p3]; exact this
    all_goals
      rw [p1, p2, p3]
      have h3 := count_erase_of_mem s.pending c j hc
      simp only [List.count_append, List.count_cons, List.count_nil]
      by_cases hcj : c = j
      · subst hcj; simp at h3 ⊢; omega
      · have : (c == j) = false := by simp [hcj]
        simp [hcj, this] at h3 ⊢; omega
  · have := h.prog
    simp only [rest] at *
    rw [t1, t5, t6, t7, e1, e4, e5, e6]; exact this

theorem invC_stepM (V : Variant) (jobs : List Job) (s s' : State) (k : Nat) (h : InvC jobs s) (hs : stepM V s k = some s') :
    InvC jobs s' := by
  simp only [stepM] at hs
  split at hs
  · rename_i m hk
    split at hs
    · simp at hs
    · rename_i s'' m' hm
      simp at hs; subst hs
      exact invC_of_monEffect jobs s s'' _ h (stepMon_effect V s s'' false m m' hm) rfl rfl rfl rfl rfl rfl rfl rfl rfl
  · split at hs
    · split at hs
      · simp at hs
      · rename_i m hmon
        split at hs
        · simp at hs
        · rename_i s'' m' hm
          simp at hs; subst hs
          exact invC_of_monEffect jobs s s'' _ h (stepMon_effect V s s'' true m m' hm) rfl rfl rfl rfl rfl rfl rfl rfl rfl
    · simp at hs

theorem handOf_uNops_mid (r : List Lbl) (c : Job) : handOf { ph := uNops r .mid .promote, cur := c } = [c] := by
  unfold uNops; split <;> rfl
theorem handOf_uNops_pre (r : List Lbl) (c : Job) : handOf { ph := uNops r .pre .outer, cur := c } = [] := by
  unfold uNops; split <;> rfl
theorem handOf_uNops_post (r : List Lbl) (c : Job) : handOf { ph := uNops r .post .inner, cur := c } = [] := by
  unfold uNops; split <;> rfl
theorem handOf_uNops_sleep (r : List Lbl) (c : Job) : handOf { ph := uNops r .sleep .outer, cur := c } = [] := by
  unfold uNops; split <;> rfl

/-- effect of one submission-thread step on the job containers -/
theorem stepSub_effect (V : Variant) (s s' : State) (u u' : Sub) (hs : stepSub V s u = some (s', u')) :
    s'.submitted = s.submitted ∧ s'.reported = s.reported ∧ s'.dropped = s.dropped ∧ s'.oldSubs = s.oldSubs ∧ s'.sub = s.sub ∧ s'.sph = s.sph ∧
    s'.cur = s.cur ∧ s'.todo = s.todo ∧
    ((s'.queue = s.queue ∧ s'.pending = s.pending ∧ handOf u' = handOf u) ∨
     (∃ c, s.queue = c :: s'.queue ∧ s'.pending = s.pending ∧ handOf u = [] ∧ handOf u' = [c]) ∨
     (∃ c, s'.queue = s.queue ∧ s'.pending = s.pending ++ [c] ∧ handOf u = [c] ∧ handOf u' = [])) := by
  obtain ⟨ph, cur⟩ := u
  cases ph <;> simp only [stepSub] at hs
  case pop =>
    split at hs
    · simp at hs
    · rename_i j r hq
      simp at hs; obtain ⟨h1, h2⟩ := hs; subst h1; subst h2
      refine ⟨rfl, rfl, rfl, rfl, rfl, rfl, rfl, rfl, Or.inr (Or.inl ⟨j, hq, rfl, rfl, handOf_uNops_mid _ _⟩)⟩
  case promote =>
    simp at hs; obtain ⟨h1, h2⟩ := hs; subst h1; subst h2
    exact ⟨rfl, rfl, rfl, rfl, rfl, rfl, rfl, rfl, Or.inr (Or.inr ⟨cur, rfl, rfl, rfl, handOf_uNops_post _ _⟩)⟩
  case mid r =>
    simp at hs; obtain ⟨h1, h2⟩ := hs; subst h1; subst h2
    exact ⟨rfl, rfl, rfl, rfl, rfl, rfl, rfl, rfl, Or.inl ⟨rfl, rfl, handOf_uNops_mid _ _⟩⟩
  all_goals ((repeat' split at hs) <;> simp at hs <;> (try (obtain ⟨h1, h2⟩ := hs; subst h1; subst h2)))
  all_goals (refine ⟨rfl, rfl, rfl, rfl, rfl, rfl, rfl, rfl, Or.inl ⟨rfl, rfl, ?_⟩⟩)
  all_goals (first | rfl | exact handOf_uNops_pre _ _ | exact handOf_uNops_post _ _ | exact handOf_uNops_sleep _ _)

/-- conservation is kept when one submission thread `u` (whose hand is counted in `hand`) makes a step -/
theorem invC_of_subEffect (jobs : List Job) (s s'' t : State) (u u' : Sub) (h : InvC jobs s)
    (e : s''.submitted = s.submitted ∧ s''.reported = s.reported ∧ s''.dropped = s.dropped ∧ s''.oldSubs = s.oldSubs ∧ s''.sub = s.sub ∧ s''.sph = s.sph ∧
      s''.cur = s.cur ∧ s''.todo = s.todo ∧
      ((s''.queue = s.queue ∧ s''.pending = s.pending ∧ handOf u' = handOf u) ∨
       (∃ c, s.queue = c :: s''.queue ∧ s''.pending = s.pending ∧ handOf u = [] ∧ handOf u' = [c]) ∨
       (∃ c, s''.queue = s.queue ∧ s''.pending = s.pending ++ [c] ∧ handOf u = [c] ∧ handOf u' = [])))
    (hset : ∀ j, (inHand t).count j + (handOf u).count j = (inHand s).count j + (handOf u').count j)
    (t1 : t.submitted = s''.submitted) (t2 : t.queue = s''.queue) (t5 : t.sph = s''.sph) (t6 : t.cur = s''.cur)
    (t7 : t.todo = s''.todo) (t8 : t.pending = s''.pending) (t9 : t.reported = s''.reported)
    (t10 : t.dropped = s''.dropped := by rfl) : InvC jobs t := by
  obtain ⟨e1, e2, e2', _, _, e4, e5, e6, e7⟩ := e
  refine ⟨?_, ?_⟩
  · intro j
    have h0 := h.cons j
    have hs := hset j
    rw [t1, t2, t8, t9, t10, e1, e2, e2']
    rcases e7 with ⟨p1, p2, p3⟩ | ⟨c, p1, p2, p3, p4⟩ | ⟨c, p1, p2, p3, p4⟩
    · rw [p1, p2]; rw [p3] at hs; omega
    · rw [p2]; rw [p1] at h0; rw [p3, p4] at hs
      simp only [List.count_cons, List.count_nil] at *; omega
    · rw [p1, p2]; rw [p3, p4] at hs
      simp only [List.count_append, List.count_cons, List.count_nil] at *; omega
  · have := h.prog
    simp only [rest] at *
    rw [t1, t5, t6, t7, e1, e4, e5, e6]; exact this

theorem invC_stepU (V : Variant) (jobs : List Job) (s s' : State) (k : Nat) (h : InvC jobs s) (hs : stepU V s k = some s') :
    InvC jobs s' := by
  simp only [stepU] at hs
  split at hs
  · rename_i u hk
    split at hs
    · simp at hs
    · rename_i s'' u' hu
      simp at hs; subst hs
      have e := stepSub_effect V s s'' u u' hu
      refine invC_of_subEffect jobs s s'' _ u u' h e ?_ rfl rfl rfl rfl rfl rfl rfl
      intro j
      have hset := count_inHandL_set s.oldSubs k u u' j hk
      simp only [inHand, State.subs, inHandL_append, List.count_append]
      rw [e.2.2.2.1, e.2.2.2.2.1]; omega
  · split at hs
    · split at hs
      · simp at hs
      · rename_i u hsub
        split at hs
        · simp at hs
        · rename_i s'' u' hu
          simp at hs; subst hs
          have e := stepSub_effect V s s'' u u' hu
          refine invC_of_subEffect jobs s s'' _ u u' h e ?_ rfl rfl rfl rfl rfl rfl rfl
          intro j
          simp only [inHand, State.subs, inHandL_append, List.count_append]
          rw [e.2.2.2.1, hsub]
          simp [inHandL]; omega
    · simp at hs

theorem invC_stepA (V : Variant) (jobs : List Job) (s s' : State) (h : InvC jobs s) (hs : stepA V s = some s') : InvC jobs s' := by
  simp only [stepA] at hs
  split at hs
  · simp at hs; subst hs
    refine ⟨?_, ?_⟩
    · intro j
      have := h.cons j
      have hq := congrArg (List.count j) (List.take_append_drop (if V.arrMax = 0 then s.queue.length else V.arrMax) s.queue)
      simp only [inHand, State.subs, List.count_append] at *; omega
    · exact h.prog
  · simp at hs

theorem invC_step (V : Variant) (jobs : List Job) (s s' : State) (e : Ev) (h : InvC jobs s) (hs : step V s e = some s') :
    InvC jobs s' := by
  cases e with
  | S => exact invC_stepS V jobs s s' h hs
  | M k => exact invC_stepM V jobs s s' k h hs
  | U k => exact invC_stepU V jobs s s' k h hs
  | A => exact invC_stepA V jobs s s' h hs
  | F =>
    simp only [step] at hs
    split at hs
    · simp at hs
    · simp only [Option.some.injEq] at hs; subst hs
      exact ⟨h.cons, h.prog⟩
  | L j =>
    simp only [step] at hs
    split at hs
    · simp only [Option.some.injEq] at hs; subst hs
      exact ⟨h.cons, h.prog⟩
    · simp at hs
  | O j g =>
    simp only [step, Option.some.injEq] at hs; subst hs
    exact ⟨h.cons, h.prog⟩

theorem reachable_invC {V : Variant} {jobs : List Job} {s : State} (h : Reachable V jobs s) : InvC jobs s := by
  induction h with
  | init => exact invC_init jobs
  | step e _ hs ih => exact invC_step V jobs _ _ e ih hs
end RedunModel.Monitor
