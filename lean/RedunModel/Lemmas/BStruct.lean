/-
Helper lemmas for the bencode model (C14): decimal digits and unique parsing.
-/
import RedunModel.Model.BStruct
namespace RedunModel.BStruct

def ofDigits (ds : List UInt8) : Nat := ds.foldl (fun acc d => acc * 10 + (d.toNat - 48)) 0
def IsDigit (d : UInt8) : Prop := 48 ≤ d.toNat ∧ d.toNat ≤ 57

theorem digitByte_toNat (n : Nat) (h : n < 10) : (digitByte n).toNat = 48 + n := by
  simp [digitByte, UInt8.toNat_ofNat']; omega

theorem natDigits_isDigit (n : Nat) : ∀ d ∈ natDigits n, IsDigit d := by
  unfold IsDigit
  fun_induction natDigits n with
  | case1 n h => intro d hd; simp at hd; subst hd; rw [digitByte_toNat n h]; omega
  | case2 n h ih =>
    intro d hd
    simp at hd
    rcases hd with hd | hd
    · exact ih d hd
    · subst hd; rw [digitByte_toNat _ (by omega)]; omega

theorem ofDigits_append (a : List UInt8) (d : UInt8) : ofDigits (a ++ [d]) = ofDigits a * 10 + (d.toNat - 48) := by
  simp [ofDigits, List.foldl_append]

theorem ofDigits_natDigits (n : Nat) : ofDigits (natDigits n) = n := by
  fun_induction natDigits n with
  | case1 n h => simp [ofDigits, digitByte_toNat n h]
  | case2 n h ih => rw [ofDigits_append, ih, digitByte_toNat _ (by omega)]; omega

theorem natDigits_inj {a b : Nat} (h : natDigits a = natDigits b) : a = b := by
  have := congrArg ofDigits h
  simpa [ofDigits_natDigits] using this

theorem natDigits_ne_nil (n : Nat) : natDigits n ≠ [] := by
  fun_induction natDigits n <;> simp

theorem natDigits_head (n : Nat) : ∃ c t, natDigits n = c :: t ∧ IsDigit c := by
  cases h : natDigits n with
  | nil => exact absurd h (natDigits_ne_nil n)
  | cons c t => exact ⟨c, t, rfl, natDigits_isDigit n c (by simp [h])⟩

/-- splitting at the first byte outside a class is unique -/
theorem split_unique {P : UInt8 → Prop} (c : UInt8) (hc : ¬ P c) :
    ∀ (xs ys r1 r2 : List UInt8), (∀ x ∈ xs, P x) → (∀ y ∈ ys, P y) →
      xs ++ c :: r1 = ys ++ c :: r2 → xs = ys ∧ r1 = r2 := by
  intro xs
  induction xs with
  | nil =>
    intro ys r1 r2 _ hy h
    cases ys with
    | nil => simpa using h
    | cons y ys =>
      simp at h
      exact absurd (h.1 ▸ hy y (by simp)) hc
  | cons x xs ih =>
    intro ys r1 r2 hx hy h
    cases ys with
    | nil =>
      simp at h
      exact absurd (h.1 ▸ hx x (by simp)) hc
    | cons y ys =>
      simp at h
      obtain ⟨rfl, h⟩ := h
      have := ih ys r1 r2 (fun a ha => hx a (by simp [ha])) (fun a ha => hy a (by simp [ha])) h
      simp [this.1, this.2]

theorem not_digit_58 : ¬ IsDigit 58 := by unfold IsDigit; decide
theorem not_digit_101 : ¬ IsDigit 101 := by unfold IsDigit; decide
theorem not_digit_45 : ¬ IsDigit 45 := by unfold IsDigit; decide

/-- `<len>:<bytes>` parses uniquely. -/
theorem encBytes_unique (a b r1 r2 : List UInt8) (h : encBytes a ++ r1 = encBytes b ++ r2) :
    a = b ∧ r1 = r2 := by
  unfold encBytes at h
  simp only [List.append_assoc, List.cons_append] at h
  have := split_unique (P := IsDigit) 58 not_digit_58 _ _ _ _ (natDigits_isDigit _) (natDigits_isDigit _) h
  have hl : a.length = b.length := natDigits_inj this.1
  exact List.append_inj this.2 hl

theorem intDigits_unique (a b : Int) (r1 r2 : List UInt8)
    (h : intDigits a ++ 101 :: r1 = intDigits b ++ 101 :: r2) : a = b ∧ r1 = r2 := by
  unfold intDigits at h
  by_cases ha : a < 0 <;> by_cases hb : b < 0 <;> simp only [ha, hb, if_true, if_false] at h
  · simp only [List.cons_append, List.cons.injEq, true_and] at h
    have := split_unique (P := IsDigit) 101 not_digit_101 _ _ _ _ (natDigits_isDigit _) (natDigits_isDigit _) h
    have h2 := natDigits_inj this.1
    exact ⟨by omega, this.2⟩
  · obtain ⟨c, t, hc, hd⟩ := natDigits_head b.toNat
    rw [hc] at h; simp at h
    exact absurd (h.1 ▸ hd) not_digit_45
  · obtain ⟨c, t, hc, hd⟩ := natDigits_head a.toNat
    rw [hc] at h; simp at h
    exact absurd (h.1 ▸ hd) not_digit_45
  · have := split_unique (P := IsDigit) 101 not_digit_101 _ _ _ _ (natDigits_isDigit _) (natDigits_isDigit _) h
    have h2 := natDigits_inj this.1
    exact ⟨by omega, this.2⟩

/-- no encoding starts with the terminator `e` -/
theorem enc_head_ne_e (v : BVal) : ∃ c t, enc v = c :: t ∧ c ≠ 101 := by
  cases v with
  | int z => exact ⟨105, _, by simp only [enc]; rfl, by decide⟩
  | bytes b =>
    obtain ⟨c, t, hc, hd⟩ := natDigits_head b.length
    refine ⟨c, t ++ 58 :: b, by simp [enc, encBytes, hc], ?_⟩
    intro h; subst h; exact not_digit_101 hd
  | list l => exact ⟨108, encList l, by simp only [enc], by decide⟩
  | dict d => exact ⟨100, encDict d, by simp only [enc], by decide⟩

theorem encBytes_head_ne_e (b : List UInt8) : ∃ c t, encBytes b = c :: t ∧ c ≠ 101 := by
  obtain ⟨c, t, hc, hd⟩ := natDigits_head b.length
  refine ⟨c, t ++ 58 :: b, by simp [encBytes, hc], ?_⟩
  intro h; subst h; exact not_digit_101 hd

mutual
  theorem enc_unique : ∀ (a b : BVal) (r1 r2 : List UInt8), enc a ++ r1 = enc b ++ r2 → a = b ∧ r1 = r2
    | .int x, b, r1, r2, h => by
      cases b with
      | int y =>
        simp only [enc, List.cons_append, List.append_assoc, List.cons.injEq, true_and] at h
        have := intDigits_unique x y r1 r2 (by simpa using h)
        exact ⟨by rw [this.1], this.2⟩
      | bytes y =>
        exfalso
        obtain ⟨c, t, hc, hd⟩ := natDigits_head y.length
        simp [enc, encBytes, hc] at h
        exact (by unfold IsDigit at hd; rw [← h.1] at hd; revert hd; decide)
      | list l => simp [enc] at h
      | dict d => simp [enc] at h
    | .bytes x, b, r1, r2, h => by
      cases b with
      | int y =>
        exfalso
        obtain ⟨c, t, hc, hd⟩ := natDigits_head x.length
        simp [enc, encBytes, hc] at h
        exact (by unfold IsDigit at hd; rw [h.1] at hd; revert hd; decide)
      | bytes y =>
        simp only [enc] at h
        have := encBytes_unique x y r1 r2 h
        exact ⟨by rw [this.1], this.2⟩
      | list l =>
        exfalso
        obtain ⟨c, t, hc, hd⟩ := natDigits_head x.length
        simp [enc, encBytes, hc] at h
        exact (by unfold IsDigit at hd; rw [h.1] at hd; revert hd; decide)
      | dict d =>
        exfalso
        obtain ⟨c, t, hc, hd⟩ := natDigits_head x.length
        simp [enc, encBytes, hc] at h
        exact (by unfold IsDigit at hd; rw [h.1] at hd; revert hd; decide)
    | .list x, b, r1, r2, h => by
      cases b with
      | int y => simp [enc] at h
      | bytes y =>
        exfalso
        obtain ⟨c, t, hc, hd⟩ := natDigits_head y.length
        simp [enc, encBytes, hc] at h
        exact (by unfold IsDigit at hd; rw [← h.1] at hd; revert hd; decide)
      | list y =>
        simp only [enc, List.cons_append, List.cons.injEq, true_and] at h
        have := encList_unique x y r1 r2 h
        exact ⟨by rw [this.1], this.2⟩
      | dict d => simp [enc] at h
    | .dict x, b, r1, r2, h => by
      cases b with
      | int y => simp [enc] at h
      | bytes y =>
        exfalso
        obtain ⟨c, t, hc, hd⟩ := natDigits_head y.length
        simp [enc, encBytes, hc] at h
        exact (by unfold IsDigit at hd; rw [← h.1] at hd; revert hd; decide)
      | list y => simp [enc] at h
      | dict y =>
        simp only [enc, List.cons_append, List.cons.injEq, true_and] at h
        have := encDict_unique x y r1 r2 h
        exact ⟨by rw [this.1], this.2⟩
  theorem encList_unique : ∀ (a b : BList) (r1 r2 : List UInt8), encList a ++ r1 = encList b ++ r2 → a = b ∧ r1 = r2
    | .nil, b, r1, r2, h => by
      cases b with
      | nil => simpa [encList] using h
      | cons v t =>
        exfalso
        obtain ⟨c, t', hc, hne⟩ := enc_head_ne_e v
        simp [encList, hc] at h
        exact hne h.1.symm
    | .cons v t, b, r1, r2, h => by
      cases b with
      | nil =>
        exfalso
        obtain ⟨c, t', hc, hne⟩ := enc_head_ne_e v
        simp [encList, hc] at h
        exact hne h.1
      | cons w u =>
        simp only [encList, List.append_assoc] at h
        have h1 := enc_unique v w _ _ h
        have h2 := encList_unique t u r1 r2 h1.2
        exact ⟨by rw [h1.1, h2.1], h2.2⟩
  theorem encDict_unique : ∀ (a b : BDict) (r1 r2 : List UInt8), encDict a ++ r1 = encDict b ++ r2 → a = b ∧ r1 = r2
    | .nil, b, r1, r2, h => by
      cases b with
      | nil => simpa [encDict] using h
      | cons k v t =>
        exfalso
        obtain ⟨c, t', hc, hne⟩ := encBytes_head_ne_e k
        simp [encDict, hc] at h
        exact hne h.1.symm
    | .cons k v t, b, r1, r2, h => by
      cases b with
      | nil =>
        exfalso
        obtain ⟨c, t', hc, hne⟩ := encBytes_head_ne_e k
        simp [encDict, hc] at h
        exact hne h.1
      | cons k' w u =>
        simp only [encDict, List.append_assoc] at h
        have h0 := encBytes_unique k k' _ _ h
        have h1 := enc_unique v w _ _ h0.2
        have h2 := encDict_unique t u r1 r2 h1.2
        exact ⟨by rw [h0.1, h1.1, h2.1], h2.2⟩
end

end RedunModel.BStruct
