/-
Helper lemmas for the bencode model (C14): decimal digits and unique parsing.
-/
import RedunModel.Model.BStruct
namespace RedunModel.BStruct

def ofDigits (ds : List UInt8) : Nat := ds.foldl (fun acc d => acc * 10 + (d.toNat - 48)) 0
def IsDigit (d : UInt8) : Prop := 48 ≤ d.toNat ∧ d.toNat ≤ 57

theorem digitByte_toNat (n : Nat) (h : n < 10) : (digitByte n).toNat = 48 + n := by
  simp [digitByte, UInt8.toNat_ofNat']; omega

theorem natDigits_isDigit (n : Nat) : ∀ d ∈ natDigits n, IsDigit d := by
  unfold IsDigit
  fun_induction natDigits n with
  | case1 n h => intro d hd; simp at hd; subst hd; rw [digitByte_toNat n h]; omega
  | case2 n h ih =>
    intro d hd
    simp at hd
    rcases hd with hd | hd
    · exact ih d hd
    · subst hd; rw [digitByte_toNat _ (by omega)]; omega

theorem ofDigits_append (a : List UInt8) (d : UInt8) : ofDigits (a ++ [d]) = ofDigits a * 10 + (d.toNat - 48) := by
  simp [ofDigits, List.foldl_append]

theorem ofDigits_natDigits (n : Nat) : ofDigits (natDigits n) = n := by
  fun_induction natDigits n with
  | case1 n h => simp [ofDigits, digitByte_toNat n h]
  | case2 n h ih => rw [ofDigits_append, ih, digitByte_toNat _ (by omega)]; omega

theorem natDigits_inj {a b : Nat} (h : natDigits a = natDigits b) : a = b := by
  have := congrArg ofDigits h
  simpa [ofDigits_natDigits] using this

theorem natDigits_ne_nil (n : Nat) : natDigits n ≠ [] := by
  fun_induction natDigits n <;> simp

theorem natDigits_head (n : Nat) : ∃ c t, natDigits n = c :: t ∧ IsDigit c := by
  cases h : natDigits n with
  | nil => exact absurd h (natDigits_ne_nil n)
  | cons c t => exact ⟨c, t, rfl, natDigits_isDigit n c (by simp [h])⟩

/-- splitting at the first byte outside a class is unique -/
theorem split_unique {P : UInt8 → Prop} (c : UInt8) (hc : ¬ P c) :
    ∀ (xs ys r1 r2 : List UInt8), (∀ x ∈ xs, P x) → (∀ y ∈ ys, P y) →
      xs ++ c :: r1 = ys ++ c :: r2 → xs = ys ∧ r1 = r2 := by
  intro xs
  induction xs with
  | nil =>
    intro ys r1 r2 _ hy h
    cases ys with
    | nil => simpa using h
    | cons y ys =>
      simp at h
      exact absurd (h.1 ▸ hy y (by simp)) hc
  | cons x xs ih =>
    intro ys r1 r2 hx hy h
    cases ys with
    | nil =>
      simp at h
      exact absurd (h.1 ▸ hx x (by simp)) hc
    | cons y ys =>
      simp at h
      obtain ⟨rfl, h⟩ := h
      have := ih ys r1 r2 (fun a ha => hx a (by simp [ha])) (fun a ha => hy a (by simp [ha])) h
      simp [this.1, this.2]

theorem not_digit_58 : ¬ IsDigit 58 := by unfold IsDigit; decide
theorem not_digit_101 : ¬ IsDigit 101 := by unfold IsDigit; decide
theorem not_digit_45 : ¬ IsDigit 45 := by unfold IsDigit; decide

/-- `<len>:<bytes>` parses uniquely. -/
theorem encBytes_unique (a b r1 r2 : List UInt8) (h : encBytes a ++ r1 = encBytes b ++ r2) :
    a = b ∧ r1 = r2 := by
  unfold encBytes at h
  simp only [List.append_assoc, List.cons_append] at h
  have := split_unique (P := IsDigit) 58 not_digit_58 _ _ _ _ (natDigits_isDigit _) (natDigits_isDigit _) h
  have hl : a.length = b.length := natDigits_inj this.1
  exact List.append_inj this.2 hl

theorem intDigits_unique (a b : Int) (r1 r2 : List UInt8)
    (h : intDigits a ++ 101 :: r1 = intDigits b ++ 101 :: r2) : a = b ∧ r1 = r2 := by
  unfold intDigits at h
  by_cases ha : a < 0 <;> by_cases hb : b < 0 <;> simp only [ha, hb, if_true, if_false] at h
  · simp only [List.cons_append, List.cons.injEq, true_and] at h
    have := split_unique (P := IsDigit) 101 not_digit_101 _ _ _ _ (natDigits_isDigit _) (natDigits_isDigit _) h
    have h2 := natDigits_inj this.1
    exact ⟨by omega, this.2⟩
  · obtain ⟨c, t, hc, hd⟩ := natDigits_head b.toNat
    rw [hc] at h; simp at h
    exact absurd (h.1 ▸ hd) not_digit_45
  · obtain ⟨c, t, hc, hd⟩ := natDigits_head a.toNat
    rw [hc] at h; simp at h
    exact absurd (h.1 ▸ hd) not_digit_45
  · have := split_unique (P := IsDigit) 101 not_digit_101 _ _ _ _ (natDigits_isDigit _) (natDigits_isDigit _) h
    have h2 := natDigits_inj this.1
    exact ⟨by omega, this.2⟩

/-- no encoding starts with the terminator `e` -/
theorem enc_head_ne_e (v : BVal) : ∃ c t, enc v = c :: t ∧ c ≠ 101 := by
  cases v with
  | int z => exact ⟨105, _, by simp only [enc]; rfl, by decide⟩
  | bytes b =>
    obtain ⟨c, t, hc, hd⟩ := natDigits_head b.length
    refine ⟨c, t ++ 58 :: b, by simp [enc, encBytes, hc], ?_⟩
    intro h; subst h; exact not_digit_101 hd
  | list l => exact ⟨108, encList l, by simp only [enc], by decide⟩
  | dict d => exact ⟨100, encDict d, by simp only [enc], by decide⟩

theorem encBytes_head_ne_e (b : List UInt8) : ∃ c t, encBytes b = c :: t ∧ c ≠ 101 := by
  obtain ⟨c, t, hc, hd⟩ := natDigits_head b.length
  refine ⟨c, t ++ 58 :: b, by simp [encBytes, hc], ?_⟩
  intro h; subst h; exact not_digit_101 hd

mutual
  theorem enc_unique : ∀ (a b : BVal) (r1 r2 : List UInt8), enc a ++ r1 = enc b ++ r2 → a = b ∧ r1 = r2
    | .int x, b, r1, r2, h => by
      cases b with
      | int y =>
        simp only [enc, List.cons_append, List.append_assoc, List.cons.injEq, true_and] at h
        have := intDigits_unique x y r1 r2 (by simpa using h)
        exact ⟨by rw [this.1], this.2⟩
      | bytes y =>
        exfalso
        obtain ⟨c, t, hc, hd⟩ := natDigits_head y.length
        simp [enc, encBytes, hc] at h
        exact (by unfold IsDigit at hd; rw [← h.1] at hd; revert hd; decide)
      | list l => simp [enc] at h
      | dict d => simp [enc] at h
    | .bytes x, b, r1, r2, h => by
      cases b with
      | int y =>
        exfalso
        obtain ⟨c, t, hc, hd⟩ := natDigits_head x.length
        simp [enc, encBytes, hc] at h
        exact (by unfold IsDigit at hd; rw [h.1] at hd; revert hd; decide)
      | bytes y =>
        simp only [enc] at h
        have := encBytes_unique x y r1 r2 h
        exact ⟨by rw [this.1], this.2⟩
      | list l =>
        exfalso
        obtain ⟨c, t, hc, hd⟩ := natDigits_head x.length
        simp [enc, encBytes, hc] at h
        exact (by unfold IsDigit at hd; rw [h.1] at hd; revert hd; decide)
      | dict d =>
        exfalso
        obtain ⟨c, t, hc, hd⟩ := natDigits_head x.length
        simp [enc, encBytes, hc] at h
        exact (by unfold IsDigit at hd; rw [h.1] at hd; revert hd; decide)
    | .list x, b, r1, r2, h => by
      cases b with
      | int y => simp [enc] at h
      | bytes y =>
        exfalso
        obtain ⟨c, t, hc, hd⟩ := natDigits_head y.length
        simp [enc, encBytes, hc] at h
        exact (by unfold IsDigit at hd; rw [← h.1] at hd; revert hd; decide)
      | list y =>
        simp only [enc, List.cons_append, List.cons.injEq, true_and] at h
        have := encList_unique x y r1 r2 h
        exact ⟨by rw [this.1], this.2⟩
      | dict d => simp [enc] at h
    | .dict x, b, r1, r2, h => by
      cases b with
      | int y => simp [enc] at h
      | bytes y =>
        exfalso
        obtain ⟨c, t, hc, hd⟩ := natDigits_head y.length
        simp [enc, encBytes, hc] at h
        exact (by unfold IsDigit at hd; rw [← h.1] at hd; revert hd; decide)
      | list y => simp [enc] at h
      | dict y =>
        simp only [enc, List.cons_append, List.cons.injEq, true_and] at h
        have := encDict_unique x y r1 r2 h
        exact ⟨by rw [this.1], this.2⟩
  theorem encList_unique : ∀ (a b : BList) (r1 r2 : List UInt8), encList a ++ r1 = encList b ++ r2 → a = b ∧ r1 = r2
    | .nil, b, r1, r2, h => by
      cases b with
      | nil => simpa [encList] using h
      | cons v t =>
        exfalso
        obtain ⟨c, t', hc, hne⟩ := enc_head_ne_e v
        simp [encList, hc] at h
        exact hne h.1.symm
    | .cons v t, b, r1, r2, h => by
      cases b with
      | nil =>
        exfalso
        obtain ⟨c, t', hc, hne⟩ := enc_head_ne_e v
        simp [encList, hc] at h
        exact hne h.1
      | cons w u =>
        simp only [encList, List.append_assoc] at h
        have h1 := enc_unique v w _ _ h
        have h2 := encList_unique t u r1 r2 h1.2
        exact ⟨by rw [h1.1, h2.1], h2.2⟩
  theorem encDict_unique : ∀ (a b : BDict) (r1 r2 : List UInt8), encDict a ++ r1 = encDict b ++ r2 → a = b ∧ r1 = r2
    | .nil, b, r1, r2, h => by
      cases b with
      | nil => simpa [encDict] using h
      | cons k v t =>
        exfalso
        obtain ⟨c, t', hc, hne⟩ := encBytes_head_ne_e k
        simp [encDict, hc] at h
        exact hne h.1.symm
    | .cons k v t, b, r1, r2, h => by
      cases b with
      | nil =>
        exfalso
        obtain ⟨c, t', hc, hne⟩ := encBytes_head_ne_e k
        simp [encDict, hc] at h
        exact hne h.1
      | cons k' w u =>
        simp only [encDict, List.append_assoc] at h
        have h0 := encBytes_unique k k' _ _ h
        have h1 := enc_unique v w _ _ h0.2
        have h2 := encDict_unique t u r1 r2 h1.2
        exact ⟨by rw [h0.1, h1.1, h2.1], h2.2⟩
end

/-! ### `bytesLt` is a strict total order -/

theorem bytesLt_irrefl : ∀ a : List UInt8, bytesLt a a = false
  | [] => by simp [bytesLt]
  | a :: as => by simp [bytesLt, bytesLt_irrefl as]

theorem bytesLt_trans : ∀ {a b c : List UInt8}, bytesLt a b = true → bytesLt b c = true → bytesLt a c = true
  | [], [], _, h, _ => by simp [bytesLt] at h
  | [], _ :: _, [], _, h => by simp [bytesLt] at h
  | [], _ :: _, _ :: _, _, _ => by simp [bytesLt]
  | _ :: _, [], _, h, _ => by simp [bytesLt] at h
  | _ :: _, _ :: _, [], _, h => by simp [bytesLt] at h
  | x :: xs, y :: ys, z :: zs, h1, h2 => by
    simp only [bytesLt] at h1 h2 ⊢
    have ih := @bytesLt_trans xs ys zs
    simp only [UInt8.lt_iff_toNat_lt] at h1 h2 ⊢
    split at h1
    · split at h2
      · rw [if_pos (by omega)]
      · split at h2
        · simp at h2
        · rw [if_pos (by omega)]
    · split at h1
      · simp at h1
      · split at h2
        · rw [if_pos (by omega)]
        · split at h2
          · simp at h2
          · rw [if_neg (by omega), if_neg (by omega)]; exact ih h1 h2

theorem bytesLt_tri : ∀ {a b : List UInt8}, a ≠ b → bytesLt a b = true ∨ bytesLt b a = true
  | [], [], h => absurd rfl h
  | [], _ :: _, _ => by simp [bytesLt]
  | _ :: _, [], _ => by simp [bytesLt]
  | x :: xs, y :: ys, h => by
    simp only [bytesLt]
    simp only [UInt8.lt_iff_toNat_lt]
    by_cases h1 : x.toNat < y.toNat
    · simp [h1]
    · by_cases h2 : y.toNat < x.toNat
      · simp [h2]
      · have : x = y := UInt8.toNat_inj.mp (by omega)
        subst this
        simp only [h1, if_false]
        exact bytesLt_tri (fun e => h (by rw [e]))

theorem bytesLt_asymm {a b : List UInt8} (h : bytesLt a b = true) : bytesLt b a = false := by
  cases h2 : bytesLt b a with
  | false => rfl
  | true => have := bytesLt_trans h h2; rw [bytesLt_irrefl] at this; cases this

/-! ### `sorted(items)` = insertion in any order (distinct keys) -/

theorem insertItem_comm (k1 k2 : List UInt8) (v1 v2 : BVal) (hne : k1 ≠ k2) :
    ∀ d : BDict, insertItem k1 v1 (insertItem k2 v2 d) = insertItem k2 v2 (insertItem k1 v1 d)
  | .nil => by
    rcases bytesLt_tri hne with h | h
    · simp [insertItem, h, bytesLt_asymm h]
    · simp [insertItem, h, bytesLt_asymm h]
  | .cons k' v' t => by
    have ih := insertItem_comm k1 k2 v1 v2 hne t
    cases h1 : bytesLt k1 k' <;> cases h2 : bytesLt k2 k'
    · simp [insertItem, h1, h2, ih]
    · have : bytesLt k1 k2 = false := by
        cases h : bytesLt k1 k2 with
        | false => rfl
        | true => rw [bytesLt_trans h h2] at h1; cases h1
      simp [insertItem, h1, h2, this]
    · have : bytesLt k2 k1 = false := by
        cases h : bytesLt k2 k1 with
        | false => rfl
        | true => rw [bytesLt_trans h h1] at h2; cases h2
      simp [insertItem, h1, h2, this]
    · rcases bytesLt_tri hne with h | h
      · simp [insertItem, h1, h2, h, bytesLt_asymm h]
      · simp [insertItem, h1, h2, h, bytesLt_asymm h]

theorem keyKind_ne_zero {k : PyKey} {kk : Nat} {kb : List UInt8} (h : keyKind k = some (kk, kb)) : kk ≠ 0 := by
  cases k <;> simp [keyKind] at h <;> omega

/-- Python-key distinctness of an item list: no two items have the same `str`/`bytes` key
(`.other` keys make `norm` fail whatever the order, so nothing is asked of them). -/
def DistinctKeys (kvs : List (PyKey × PyVal)) : Prop :=
  kvs.Pairwise (fun a b => keyKind a.1 = none ∨ keyKind b.1 = none ∨ keyKind a.1 ≠ keyKind b.1)

theorem normDict_perm {kvs kvs' : List (PyKey × PyVal)} (hp : kvs.Perm kvs') (hd : DistinctKeys kvs) :
    ∀ kind, normDict (PyDict.ofItems kvs) kind = normDict (PyDict.ofItems kvs') kind := by
  induction hp with
  | nil => intro _; rfl
  | cons x _ ih =>
    intro kind
    obtain ⟨k, v⟩ := x
    have hd' := (List.pairwise_cons.mp hd).2
    simp only [PyDict.ofItems, normDict]
    cases keyKind k with
    | none => rfl
    | some p => simp only [ih hd']
  | swap x y l =>
    intro kind
    obtain ⟨kx, vx⟩ := x
    obtain ⟨ky, vy⟩ := y
    have hxy := (List.pairwise_cons.mp hd).1 (kx, vx) (by simp)
    simp only [PyDict.ofItems, normDict]
    cases hx : keyKind kx with
    | none =>
      cases hy : keyKind ky with
      | none => rfl
      | some q =>
        obtain ⟨qk, qb⟩ := q
        simp only []
        split
        · rfl
        · cases norm vy <;> simp
    | some p =>
      obtain ⟨pk, pb⟩ := p
      cases hy : keyKind ky with
      | none =>
        simp only []
        split
        · rfl
        · cases norm vx <;> simp
      | some q =>
        obtain ⟨qk, qb⟩ := q
        have hp0 := keyKind_ne_zero hx
        have hq0 := keyKind_ne_zero hy
        simp only []
        by_cases hpq : pk = qk
        · subst hpq
          have hb : qb ≠ pb := by
            intro e; subst e
            rcases hxy with h | h | h
            · simp [hy] at h
            · simp [hx] at h
            · exact h (by rw [hx, hy])
          by_cases hk : kind ≠ 0 ∧ kind ≠ pk
          · simp [hk]
          · simp only [hk, if_false, ne_eq, not_true_eq_false, and_false]
            cases norm vy <;> cases norm vx <;> simp
            cases normDict (PyDict.ofItems l) pk <;> simp
            exact insertItem_comm _ _ _ _ hb _
        · have hpq' : qk ≠ pk := fun e => hpq e.symm
          simp only [ne_eq, hp0, hq0, not_false_eq_true, hpq, hpq', true_and, if_true]
          split
          · split
            · rfl
            · cases norm vx <;> simp
          · split
            · cases norm vy <;> simp
            · cases norm vx <;> cases norm vy <;> simp
  | trans h1 _ ih1 ih2 =>
    intro kind
    have hd2 : DistinctKeys _ := (h1.pairwise_iff (by
      intro a b h; rcases h with h | h | h
      · exact Or.inr (Or.inl h)
      · exact Or.inl h
      · exact Or.inr (Or.inr (fun e => h e.symm)))).mp hd
    rw [ih1 hd, ih2 hd2]

/-! ### the result of `norm` has strictly increasing dict keys -/

def BDict.keys : BDict → List (List UInt8)
  | .nil => []
  | .cons k _ t => k :: BDict.keys t

def BDict.items : BDict → List (List UInt8 × BVal)
  | .nil => []
  | .cons k v t => (k, v) :: BDict.items t

def PyDict.keys : PyDict → List PyKey
  | .nil => []
  | .cons k _ t => k :: PyDict.keys t

mutual
  /-- every dict inside has strictly increasing keys -/
  def WF : BVal → Prop
    | .int _ => True
    | .bytes _ => True
    | .list l => WFList l
    | .dict d => WFDict d
  def WFList : BList → Prop
    | .nil => True
    | .cons v t => WF v ∧ WFList t
  def WFDict : BDict → Prop
    | .nil => True
    | .cons k v t => WF v ∧ (∀ k' ∈ BDict.keys t, bytesLt k k' = true) ∧ WFDict t
end

mutual
  /-- every dict inside has pairwise distinct keys (as Python dicts do) -/
  def PyDistinct : PyVal → Prop
    | .list l => PyDistinctList l
    | .tuple l => PyDistinctList l
    | .dict d => PyDistinctDict d
    | _ => True
  def PyDistinctList : PyList → Prop
    | .nil => True
    | .cons v t => PyDistinct v ∧ PyDistinctList t
  def PyDistinctDict : PyDict → Prop
    | .nil => True
    | .cons k v t => PyDistinct v ∧ k ∉ PyDict.keys t ∧ PyDistinctDict t
end

theorem keys_insertItem (k : List UInt8) (v : BVal) (x : List UInt8) :
    ∀ d : BDict, x ∈ BDict.keys (insertItem k v d) ↔ x = k ∨ x ∈ BDict.keys d
  | .nil => by simp [insertItem, BDict.keys]
  | .cons k' v' t => by
    have ih := keys_insertItem k v x t
    simp only [insertItem]
    split
    · simp [BDict.keys]
    · simp only [BDict.keys, List.mem_cons, ih]
      constructor
      · rintro (h | h | h) <;> simp [h]
      · rintro (h | h | h) <;> simp [h]

theorem wfDict_insertItem (k : List UInt8) (v : BVal) (hv : WF v) :
    ∀ d : BDict, WFDict d → k ∉ BDict.keys d → WFDict (insertItem k v d)
  | .nil, _, _ => by simp [insertItem, WFDict, hv, BDict.keys]
  | .cons k' v' t, hd, hk => by
    simp only [WFDict] at hd
    simp only [BDict.keys, List.mem_cons, not_or] at hk
    simp only [insertItem]
    split
    · rename_i hlt
      simp only [WFDict, hv, hd, true_and, BDict.keys, List.mem_cons, and_true]
      constructor
      · intro x hx
        rcases hx with rfl | hx
        · exact hlt
        · exact bytesLt_trans hlt (hd.2.1 x hx)
      · exact hd.2.1
    · rename_i hlt
      have hlt' : bytesLt k' k = true := by
        rcases bytesLt_tri hk.1 with h | h
        · exact absurd h hlt
        · exact h
      simp only [WFDict, hd.1, true_and]
      refine ⟨?_, wfDict_insertItem k v hv t hd.2.2 hk.2⟩
      intro x hx
      rcases (keys_insertItem k v x t).mp hx with rfl | hx
      · exact hlt'
      · exact hd.2.1 x hx

theorem keyKind_inj {a b : PyKey} {p : Nat × List UInt8} (ha : keyKind a = some p) (hb : keyKind b = some p) : a = b := by
  cases a <;> cases b <;> simp [keyKind] at ha hb <;> (try (rw [← ha] at hb; simp at hb)) <;> simp_all


theorem keys_normDict : ∀ (d : PyDict) (kind : Nat) (r : BDict), kind ≠ 0 → normDict d kind = some r →
    ∀ kb ∈ BDict.keys r, ∃ k' ∈ PyDict.keys d, keyKind k' = some (kind, kb)
  | .nil, kind, r, _, h => by
    simp [normDict] at h; subst h; simp [BDict.keys]
  | .cons k v t, kind, r, hk, h => by
    simp only [normDict] at h
    cases hkk : keyKind k with
    | none => simp [hkk] at h
    | some p =>
      obtain ⟨kk, kb0⟩ := p
      simp only [hkk] at h
      split at h
      · cases h
      · rename_i hc
        have hkind : kind = kk := by
          by_cases e : kind = kk
          · exact e
          · exact absurd ⟨hk, e⟩ hc
        subst hkind
        cases hv : norm v with
        | none => simp [hv] at h
        | some v' =>
          cases ht : normDict t kind with
          | none => simp [hv, ht] at h
          | some t' =>
            simp [hv, ht] at h
            subst h
            intro kb hkb
            rcases (keys_insertItem kb0 v' kb t').mp hkb with rfl | hkb
            · exact ⟨k, by simp [PyDict.keys], hkk⟩
            · obtain ⟨k', hk', hkk'⟩ := keys_normDict t kind t' hk ht kb hkb
              exact ⟨k', by simp [PyDict.keys, hk'], hkk'⟩

mutual
  theorem norm_wf : ∀ (x : PyVal) (v : BVal), PyDistinct x → norm x = some v → WF v
    | .int z, v, _, h => by simp [norm] at h; subst h; simp [WF]
    | .bool _, v, _, h => by simp [norm] at h
    | .none, v, _, h => by simp [norm] at h
    | .float, v, _, h => by simp [norm] at h
    | .str u, v, _, h => by simp [norm] at h; subst h; simp [WF]
    | .bytes u, v, _, h => by simp [norm] at h; subst h; simp [WF]
    | .list l, v, hd, h => by
      simp only [norm, Option.map_eq_some_iff] at h
      obtain ⟨l', hl, rfl⟩ := h
      simp only [PyDistinct] at hd
      simp only [WF]; exact normList_wf l l' hd hl
    | .tuple l, v, hd, h => by
      simp only [norm, Option.map_eq_some_iff] at h
      obtain ⟨l', hl, rfl⟩ := h
      simp only [PyDistinct] at hd
      simp only [WF]; exact normList_wf l l' hd hl
    | .dict d, v, hd, h => by
      simp only [norm, Option.map_eq_some_iff] at h
      obtain ⟨d', hl, rfl⟩ := h
      simp only [PyDistinct] at hd
      simp only [WF]; exact normDict_wf d 0 d' hd hl
  theorem normList_wf : ∀ (l : PyList) (r : BList), PyDistinctList l → normList l = some r → WFList r
    | .nil, r, _, h => by simp [normList] at h; subst h; simp [WFList]
    | .cons x t, r, hd, h => by
      simp only [PyDistinctList] at hd
      simp only [normList] at h
      cases hx : norm x with
      | none => simp [hx] at h
      | some x' =>
        cases ht : normList t with
        | none => simp [hx, ht] at h
        | some t' =>
          simp [hx, ht] at h; subst h
          simp only [WFList]
          exact ⟨norm_wf x x' hd.1 hx, normList_wf t t' hd.2 ht⟩
  theorem normDict_wf : ∀ (d : PyDict) (kind : Nat) (r : BDict), PyDistinctDict d → normDict d kind = some r → WFDict r
    | .nil, kind, r, _, h => by simp [normDict] at h; subst h; simp [WFDict]
    | .cons k v t, kind, r, hd, h => by
      simp only [PyDistinctDict] at hd
      simp only [normDict] at h
      cases hkk : keyKind k with
      | none => simp [hkk] at h
      | some p =>
        obtain ⟨kk, kb0⟩ := p
        simp only [hkk] at h
        split at h
        · cases h
        · cases hv : norm v with
          | none => simp [hv] at h
          | some v' =>
            cases ht : normDict t kk with
            | none => simp [hv, ht] at h
            | some t' =>
              simp [hv, ht] at h
              subst h
              apply wfDict_insertItem kb0 v' (norm_wf v v' hd.1 hv) t' (normDict_wf t kk t' hd.2.2 ht)
              intro hmem
              obtain ⟨k', hk', hkk'⟩ := keys_normDict t kk t' (keyKind_ne_zero hkk) ht kb0 hmem
              have := keyKind_inj hkk' hkk
              subst this
              exact hd.2.1 hk'
end

end RedunModel.BStruct
