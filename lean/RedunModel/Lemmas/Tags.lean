/-
Lemmas for `RedunModel.Model.Tags`: the invariant of the tag tables, what the tail of `record_tags`
(`commit`), the walk down the edit graph and the three commands do to it, and the refinement of the
key-value reference.  Property theorems are in `RedunModel.Props.C24`.
-/
import RedunModel.Model.Tags
namespace RedunModel.Tags

theorem mem_insertSorted (a x : Nat) (l : List Nat) : x ∈ insertSorted a l ↔ x = a ∨ x ∈ l := by
  induction l with
  | nil => simp [insertSorted]
  | cons b l ih =>
    simp only [insertSorted]
    split <;> simp [ih] <;> grind

theorem mem_sortIds (x : Nat) (l : List Nat) : x ∈ sortIds l ↔ x ∈ l := by
  induction l with
  | nil => simp [sortIds]
  | cons b l ih => simp [sortIds, mem_insertSorted, ih]

theorem sortIds_nil : sortIds [] = [] := rfl
theorem sortIds_single (i : Nat) : sortIds [i] = [i] := rfl

theorem sortIds_eq_nil {l : List Nat} : sortIds l = [] ↔ l = [] := by
  constructor
  · intro h
    cases l with
    | nil => rfl
    | cons a l =>
      have : a ∈ sortIds (a :: l) := (mem_sortIds _ _).2 (by simp)
      rw [h] at this; simp at this
  · intro h; subst h; rfl

theorem mem_dedup (x : Pre) (l : List Pre) : x ∈ dedup l ↔ x ∈ l := by
  induction l with
  | nil => simp [dedup]
  | cons a l ih =>
    simp only [dedup, List.mem_cons, List.mem_filter, ih, decide_eq_true_eq]
    by_cases h : x = a <;> simp [h]

theorem lookup_eq_some {st : St} {p : Pre} {i : Nat} (h : st.lookup p = some i) :
    ∃ r ∈ st.rows, r.pre = p ∧ r.id = i := by
  unfold St.lookup at h
  cases hf : st.rows.find? (fun r => decide (r.pre = p)) with
  | none => simp [hf] at h
  | some r =>
    simp [hf] at h
    have h1 := List.find?_some hf
    have h2 := List.mem_of_find?_eq_some hf
    exact ⟨r, h2, by simpa using h1, h⟩

theorem lookup_eq_none {st : St} {p : Pre} : st.lookup p = none ↔ ∀ r ∈ st.rows, r.pre ≠ p := by
  unfold St.lookup
  simp [List.find?_eq_none]

theorem lookup_of_mem {st : St} (hinj : ∀ r ∈ st.rows, ∀ r' ∈ st.rows, r.pre = r'.pre → r = r')
    {r : Row} (hr : r ∈ st.rows) : st.lookup r.pre = some r.id := by
  cases h : st.lookup r.pre with
  | none => exact absurd rfl (lookup_eq_none.1 h r hr)
  | some i =>
    obtain ⟨r', hr', hp, hi⟩ := lookup_eq_some h
    have := hinj r' hr' r hr hp
    subst this; rw [hi]

theorem hasChild_iff {st : St} {i : Nat} : st.hasChild i = true ↔ ∃ c, (i, c) ∈ st.edges := by
  unfold St.hasChild
  simp only [List.any_eq_true, decide_eq_true_eq]
  constructor
  · rintro ⟨⟨a, c⟩, hm, rfl⟩; exact ⟨c, hm⟩
  · rintro ⟨c, hm⟩; exact ⟨(i, c), hm, rfl⟩

theorem mem_addEdge {st : St} {e x : Nat × Nat} : x ∈ (st.addEdge e).edges ↔ x ∈ st.edges ∨ x = e := by
  unfold St.addEdge
  split
  · constructor
    · intro h; exact Or.inl h
    · rintro (h | h); exact h; subst h; assumption
  · simp

theorem addEdge_rows (st : St) (e : Nat × Nat) : (st.addEdge e).rows = st.rows ∧ (st.addEdge e).next = st.next := by
  unfold St.addEdge; split <;> simp

theorem mem_addEdges {st : St} {es : List (Nat × Nat)} {x : Nat × Nat} :
    x ∈ (st.addEdges es).edges ↔ x ∈ st.edges ∨ x ∈ es := by
  induction es generalizing st with
  | nil => simp [St.addEdges]
  | cons e es ih => simp only [St.addEdges, ih, mem_addEdge, List.mem_cons]; grind

theorem addEdges_rows (st : St) (es : List (Nat × Nat)) :
    (st.addEdges es).rows = st.rows ∧ (st.addEdges es).next = st.next := by
  induction es generalizing st with
  | nil => simp [St.addEdges]
  | cons e es ih => simp only [St.addEdges]; rw [(ih _).1, (ih _).2]; exact addEdge_rows st e

theorem mem_candEdges {st : St} {pres : List Pre} {parents : List Nat} {a c : Nat} :
    (a, c) ∈ st.candEdges pres parents ↔ a ∈ parents ∧ ∃ p ∈ pres, st.lookup p = some c := by
  unfold St.candEdges
  simp only [List.mem_flatMap]
  constructor
  · rintro ⟨p, hp, h⟩
    cases hl : st.lookup p with
    | none => simp [hl] at h
    | some i =>
      simp [hl] at h
      obtain ⟨x, hx, rfl, rfl⟩ := h
      exact ⟨hx, p, hp, hl⟩
  · rintro ⟨ha, p, hp, hl⟩
    exact ⟨p, hp, by simp [hl, ha]⟩


structure Struct (st : St) : Prop where
  idLt : ∀ r ∈ st.rows, r.id < st.next
  idInj : ∀ r ∈ st.rows, ∀ r' ∈ st.rows, r.id = r'.id → r = r'
  preInj : ∀ r ∈ st.rows, ∀ r' ∈ st.rows, r.pre = r'.pre → r = r'

/-- what `insertAll` adds -/
structure Added (st st1 : St) (ps : List Pre) (extra : List Row) : Prop where
  rows : st1.rows = st.rows ++ extra
  edges : st1.edges = st.edges
  next : st.next ≤ st1.next
  cur : ∀ x ∈ extra, x.cur = true
  pre : ∀ x ∈ extra, x.pre ∈ ps
  fresh : ∀ x ∈ extra, ∀ r ∈ st.rows, r.pre ≠ x.pre
  idGe : ∀ x ∈ extra, st.next ≤ x.id

theorem insertTag_spec (st : St) (p : Pre) (hs : Struct st) :
    Struct (st.insertTag p) ∧ (∃ extra, Added st (st.insertTag p) [p] extra) ∧ ∃ r ∈ (st.insertTag p).rows, r.pre = p := by
  unfold St.insertTag
  cases hl : st.lookup p with
  | some i =>
    obtain ⟨r, hr, hp, _⟩ := lookup_eq_some hl
    exact ⟨hs, ⟨[], by constructor <;> simp⟩, r, hr, hp⟩
  | none =>
    have hn := lookup_eq_none.1 hl
    refine ⟨?_, ⟨[⟨st.next, p, true⟩], ?_⟩, ⟨st.next, p, true⟩, by simp, rfl⟩
    · constructor
      · intro r hr
        simp only [List.mem_append, List.mem_singleton] at hr
        rcases hr with hr | rfl
        · have := hs.idLt r hr; simp; omega
        · simp
      · intro r hr r' hr' hid
        simp only [List.mem_append, List.mem_singleton] at hr hr'
        rcases hr with hr | rfl <;> rcases hr' with hr' | rfl
        · exact hs.idInj r hr r' hr' hid
        · have := hs.idLt r hr; simp at hid; omega
        · have := hs.idLt r' hr'; simp at hid; omega
        · rfl
      · intro r hr r' hr' hpre
        simp only [List.mem_append, List.mem_singleton] at hr hr'
        rcases hr with hr | rfl <;> rcases hr' with hr' | rfl
        · exact hs.preInj r hr r' hr' hpre
        · exact absurd hpre (hn r hr)
        · exact absurd hpre.symm (hn r' hr')
        · rfl
    · constructor <;> simp
      intro r hr; exact hn r hr

theorem insertAll_spec (st : St) (ps : List Pre) (hs : Struct st) :
    Struct (st.insertAll ps) ∧ (∃ extra, Added st (st.insertAll ps) ps extra) ∧
      ∀ p ∈ ps, ∃ r ∈ (st.insertAll ps).rows, r.pre = p := by
  induction ps generalizing st with
  | nil => exact ⟨hs, ⟨[], by constructor <;> simp [St.insertAll]⟩, by simp⟩
  | cons p ps ih =>
    obtain ⟨hs1, ⟨e1, ha1⟩, r1, hr1, hp1⟩ := insertTag_spec st p hs
    obtain ⟨hs2, ⟨e2, ha2⟩, hall⟩ := ih (st.insertTag p) hs1
    simp only [St.insertAll]
    refine ⟨hs2, ⟨e1 ++ e2, ?_⟩, ?_⟩
    · constructor
      · rw [ha2.rows, ha1.rows, List.append_assoc]
      · rw [ha2.edges, ha1.edges]
      · have := ha1.next; have := ha2.next; omega
      · intro x hx
        rcases List.mem_append.1 hx with h | h
        · exact ha1.cur x h
        · exact ha2.cur x h
      · intro x hx
        rcases List.mem_append.1 hx with h | h
        · have := ha1.pre x h; simp at this; simp [this]
        · exact List.mem_cons_of_mem _ (ha2.pre x h)
      · intro x hx r hr
        rcases List.mem_append.1 hx with h | h
        · exact ha1.fresh x h r hr
        · exact ha2.fresh x h r (by rw [ha1.rows]; exact List.mem_append_left _ hr)
      · intro x hx
        rcases List.mem_append.1 hx with h | h
        · exact ha1.idGe x h
        · have := ha2.idGe x h; have := ha1.next; omega
    · intro q hq
      rcases List.mem_cons.1 hq with rfl | hq
      · refine ⟨r1, ?_, hp1⟩
        rw [ha2.rows]; exact List.mem_append_left _ hr1
      · exact hall q hq

structure Inv (st : St) : Prop extends Struct st where
  parLt : ∀ r ∈ st.rows, ∀ p ∈ r.pre.parents, p < r.id
  parEx : ∀ r ∈ st.rows, ∀ p ∈ r.pre.parents, ∃ q ∈ st.rows, q.id = p
  edgeIff : ∀ p c, (p, c) ∈ st.edges ↔ ∃ r ∈ st.rows, r.id = c ∧ p ∈ r.pre.parents
  curIff : ∀ r ∈ st.rows, (r.cur = true ↔ st.hasChild r.id = false)

def inval (ps : List Nat) (r : Row) : Row := if r.id ∈ ps then { r with cur := false } else r

theorem inval_id (ps : List Nat) (r : Row) : (inval ps r).id = r.id := by unfold inval; split <;> rfl
theorem inval_pre (ps : List Nat) (r : Row) : (inval ps r).pre = r.pre := by unfold inval; split <;> rfl
theorem inval_cur (ps : List Nat) (r : Row) : (inval ps r).cur = (r.cur && decide (r.id ∉ ps)) := by
  unfold inval; split <;> simp [*]

theorem invalidate_rows (st : St) (ps : List Nat) : (st.invalidate ps).rows = st.rows.map (inval ps) := rfl

theorem edge_lt_next {st : St} (hi : Inv st) {a c : Nat} (h : (a, c) ∈ st.edges) : a < st.next ∧ a < c ∧ c < st.next := by
  obtain ⟨r, hr, hid, hp⟩ := (hi.edgeIff a c).1 h
  obtain ⟨q, hq, hqid⟩ := hi.parEx r hr a hp
  have := hi.idLt q hq
  have := hi.idLt r hr
  have := hi.parLt r hr a hp
  omega

/-- what the tail of `record_tags` does -/
structure Committed (st st' : St) (pres : List Pre) (parents : List Nat) (extra : List Row) : Prop where
  rows : st'.rows = (st.rows ++ extra).map (inval parents)
  next : st.next ≤ st'.next
  cur : ∀ x ∈ extra, x.cur = true
  pre : ∀ x ∈ extra, x.pre ∈ pres
  fresh : ∀ x ∈ extra, ∀ r ∈ st.rows, r.pre ≠ x.pre
  idGe : ∀ x ∈ extra, st.next ≤ x.id
  edgesMono : ∀ e ∈ st.edges, e ∈ st'.edges
  has : ∀ p ∈ pres, ∃ r ∈ st.rows ++ extra, r.pre = p

theorem commit_spec (st : St) (pres : List Pre) (parents : List Nat) (hi : Inv st)
    (hP1 : ∀ par ∈ parents, ∃ q ∈ st.rows, q.id = par)
    (hP2 : ∀ p ∈ pres, ∀ x, x ∈ p.parents ↔ x ∈ parents)
    (hP3 : pres = [] → ∀ par ∈ parents, st.hasChild par = true) :
    Inv (st.commit pres parents) ∧ ∃ extra, Committed st (st.commit pres parents) pres parents extra := by
  obtain ⟨hs1, ⟨extra, ha⟩, hhas⟩ := insertAll_spec st pres hi.toStruct
  -- abbreviations
  have hrows : (st.commit pres parents).rows = (st.rows ++ extra).map (inval parents) := by
    simp only [St.commit, invalidate_rows, (addEdges_rows _ _).1, ha.rows]
  have hnext : (st.commit pres parents).next = (st.insertAll pres).next := by
    simp only [St.commit, St.invalidate, (addEdges_rows _ _).2]
  have hedges : ∀ a c, (a, c) ∈ (st.commit pres parents).edges ↔
      (a, c) ∈ st.edges ∨ (a ∈ parents ∧ ∃ p ∈ pres, (st.insertAll pres).lookup p = some c) := by
    intro a c
    simp only [St.commit, St.invalidate, mem_addEdges, mem_candEdges, ha.edges]
  have hparLtNext : ∀ par ∈ parents, par < st.next := by
    intro par hpar
    obtain ⟨q, hq, rfl⟩ := hP1 par hpar
    exact hi.idLt q hq
  have hmem : ∀ r', r' ∈ (st.commit pres parents).rows ↔ ∃ r ∈ st.rows ++ extra, r' = inval parents r := by
    intro r'; rw [hrows]; simp only [List.mem_map]; constructor
    · rintro ⟨r, hr, rfl⟩; exact ⟨r, hr, rfl⟩
    · rintro ⟨r, hr, rfl⟩; exact ⟨r, hr, rfl⟩
  have hrows1 : (st.insertAll pres).rows = st.rows ++ extra := ha.rows
  refine ⟨?_, extra, ?_⟩
  · constructor
    · constructor
      · intro r' hr'
        obtain ⟨r, hr, rfl⟩ := (hmem r').1 hr'
        rw [inval_id, hnext]; exact hs1.idLt r (by rw [hrows1]; exact hr)
      · intro a ha' b hb' hid
        obtain ⟨r, hr, rfl⟩ := (hmem a).1 ha'
        obtain ⟨r2, hr2, rfl⟩ := (hmem b).1 hb'
        rw [inval_id, inval_id] at hid
        have := hs1.idInj r (by rw [hrows1]; exact hr) r2 (by rw [hrows1]; exact hr2) hid
        rw [this]
      · intro a ha' b hb' hpre
        obtain ⟨r, hr, rfl⟩ := (hmem a).1 ha'
        obtain ⟨r2, hr2, rfl⟩ := (hmem b).1 hb'
        rw [inval_pre, inval_pre] at hpre
        have := hs1.preInj r (by rw [hrows1]; exact hr) r2 (by rw [hrows1]; exact hr2) hpre
        rw [this]
    · -- parLt
      intro r' hr' p hp
      obtain ⟨r, hr, rfl⟩ := (hmem r').1 hr'
      rw [inval_pre] at hp; rw [inval_id]
      rcases List.mem_append.1 hr with h | h
      · exact hi.parLt r h p hp
      · have h1 := ha.idGe r h
        have h2 := hparLtNext p ((hP2 r.pre (ha.pre r h) p).1 hp)
        omega
    · -- parEx
      intro r' hr' p hp
      obtain ⟨r, hr, rfl⟩ := (hmem r').1 hr'
      rw [inval_pre] at hp
      have : ∃ q ∈ st.rows, q.id = p := by
        rcases List.mem_append.1 hr with h | h
        · exact hi.parEx r h p hp
        · exact hP1 p ((hP2 r.pre (ha.pre r h) p).1 hp)
      obtain ⟨q, hq, hqid⟩ := this
      exact ⟨inval parents q, (hmem _).2 ⟨q, List.mem_append_left _ hq, rfl⟩, by rw [inval_id]; exact hqid⟩
    · -- edgeIff
      intro a c
      rw [hedges]
      constructor
      · rintro (h | ⟨hpar, p, hp, hl⟩)
        · obtain ⟨r, hr, hid, hpp⟩ := (hi.edgeIff a c).1 h
          exact ⟨inval parents r, (hmem _).2 ⟨r, List.mem_append_left _ hr, rfl⟩, by rw [inval_id]; exact hid,
            by rw [inval_pre]; exact hpp⟩
        · obtain ⟨r, hr, hpre, hid⟩ := lookup_eq_some hl
          rw [hrows1] at hr
          exact ⟨inval parents r, (hmem _).2 ⟨r, hr, rfl⟩, by rw [inval_id]; exact hid,
            by rw [inval_pre, hpre]; exact (hP2 p hp a).2 hpar⟩
      · rintro ⟨r', hr', hid, hpp⟩
        obtain ⟨r, hr, rfl⟩ := (hmem r').1 hr'
        rw [inval_id] at hid; rw [inval_pre] at hpp
        rcases List.mem_append.1 hr with h | h
        · exact Or.inl ((hi.edgeIff a c).2 ⟨r, h, hid, hpp⟩)
        · refine Or.inr ⟨(hP2 r.pre (ha.pre r h) a).1 hpp, r.pre, ha.pre r h, ?_⟩
          have := lookup_of_mem hs1.preInj (r := r) (by rw [hrows1]; exact hr)
          rw [this, hid]
    · -- curIff
      intro r' hr'
      obtain ⟨r, hr, rfl⟩ := (hmem r').1 hr'
      rw [inval_id, inval_cur]
      have hch : (st.commit pres parents).hasChild r.id = true ↔
          st.hasChild r.id = true ∨ (r.id ∈ parents ∧ pres ≠ []) := by
        rw [hasChild_iff, hasChild_iff]
        constructor
        · rintro ⟨c, hc⟩
          rcases (hedges r.id c).1 hc with h | ⟨h1, p, hp, _⟩
          · exact Or.inl ⟨c, h⟩
          · exact Or.inr ⟨h1, by intro h; subst h; simp at hp⟩
        · rintro (⟨c, hc⟩ | ⟨h1, h2⟩)
          · exact ⟨c, (hedges r.id c).2 (Or.inl hc)⟩
          · cases pres with
            | nil => exact absurd rfl h2
            | cons p ps =>
              obtain ⟨q, hq, hqp⟩ := hhas p (by simp)
              have := lookup_of_mem hs1.preInj hq
              rw [hqp] at this
              exact ⟨q.id, (hedges r.id q.id).2 (Or.inr ⟨h1, p, by simp, this⟩)⟩
      rcases List.mem_append.1 hr with h | h
      · have hc := hi.curIff r h
        by_cases hpar : r.id ∈ parents
        · have : (st.commit pres parents).hasChild r.id = true := by
            rw [hch]
            by_cases hp : pres = []
            · exact Or.inl (hP3 hp r.id hpar)
            · exact Or.inr ⟨hpar, hp⟩
          simp [hpar, this]
        · have : (st.commit pres parents).hasChild r.id = st.hasChild r.id := by
            cases h1 : st.hasChild r.id with
            | true => exact hch.2 (Or.inl h1)
            | false =>
              cases h2 : (st.commit pres parents).hasChild r.id with
              | false => rfl
              | true =>
                rcases hch.1 h2 with h3 | ⟨h3, _⟩
                · rw [h1] at h3; exact absurd h3 (by simp)
                · exact absurd h3 hpar
          rw [this]; simp [hpar]
          cases h1 : r.cur <;> cases h2 : st.hasChild r.id <;> simp_all
      · have hge := ha.idGe r h
        have hnp : r.id ∉ parents := fun hp => by have := hparLtNext _ hp; omega
        have hnc : st.hasChild r.id = false := by
          cases h1 : st.hasChild r.id with
          | false => rfl
          | true =>
            obtain ⟨c, hc⟩ := hasChild_iff.1 h1
            have := (edge_lt_next hi hc).1; omega
        have : (st.commit pres parents).hasChild r.id = false := by
          cases h2 : (st.commit pres parents).hasChild r.id with
          | false => rfl
          | true =>
            rcases hch.1 h2 with h3 | ⟨h3, _⟩
            · rw [hnc] at h3; exact absurd h3 (by simp)
            · exact absurd h3 hnp
        simp [this, hnp, ha.cur r h]
  · constructor
    · exact hrows
    · rw [hnext]; exact ha.next
    · exact ha.cur
    · exact ha.pre
    · exact ha.fresh
    · exact ha.idGe
    · intro e he
      obtain ⟨a, c⟩ := e
      exact (hedges a c).2 (Or.inl he)
    · intro p hp
      obtain ⟨r, hr, hrp⟩ := hhas p hp
      exact ⟨r, by rw [← hrows1]; exact hr, hrp⟩

/-- `st'` extends `st` by current rows satisfying `P`; existing rows are unchanged, edits only grow. -/
structure Ext (P : Row → Prop) (st st' : St) : Prop where
  rows : ∃ extra, st'.rows = st.rows ++ extra ∧ ∀ x ∈ extra, x.cur = true ∧ P x
  edges : ∀ e ∈ st.edges, e ∈ st'.edges
  next : st.next ≤ st'.next

theorem Ext.refl (P : Row → Prop) (st : St) : Ext P st st :=
  ⟨⟨[], by simp⟩, fun _ h => h, Nat.le_refl _⟩

theorem Ext.trans {P : Row → Prop} {a b c : St} (h1 : Ext P a b) (h2 : Ext P b c) : Ext P a c := by
  obtain ⟨e1, hr1, hp1⟩ := h1.rows
  obtain ⟨e2, hr2, hp2⟩ := h2.rows
  refine ⟨⟨e1 ++ e2, by rw [hr2, hr1, List.append_assoc], ?_⟩, fun e he => h2.edges e (h1.edges e he),
    Nat.le_trans h1.next h2.next⟩
  intro x hx
  rcases List.mem_append.1 hx with h | h
  · exact hp1 x h
  · exact hp2 x h

theorem Ext.mem {P : Row → Prop} {a b : St} (h : Ext P a b) {r : Row} (hr : r ∈ a.rows) : r ∈ b.rows := by
  obtain ⟨e, hr1, _⟩ := h.rows
  rw [hr1]; exact List.mem_append_left _ hr

theorem Ext.hasChild {P : Row → Prop} {a b : St} (h : Ext P a b) {i : Nat} (hc : a.hasChild i = true) :
    b.hasChild i = true := by
  obtain ⟨c, hc⟩ := hasChild_iff.1 hc
  exact hasChild_iff.2 ⟨c, h.edges _ hc⟩

theorem Ext.mono {P Q : Row → Prop} {a b : St} (h : Ext P a b) (hpq : ∀ x, P x → Q x) : Ext Q a b := by
  obtain ⟨e, hr, hp⟩ := h.rows
  exact ⟨⟨e, hr, fun x hx => ⟨(hp x hx).1, hpq x (hp x hx).2⟩⟩, h.edges, h.next⟩

theorem map_inval_eq (rows : List Row) (ps : List Nat) (h : ∀ r ∈ rows, r.id ∈ ps → r.cur = false) :
    rows.map (inval ps) = rows := by
  induction rows with
  | nil => rfl
  | cons r rs ih =>
    simp only [List.map_cons]
    rw [ih (fun r' hr' => h r' (List.mem_cons_of_mem _ hr'))]
    congr 1
    unfold inval
    split
    · next hm =>
      have := h r (by simp) hm
      cases r; simp_all
    · rfl

/-- committing with already superseded parents leaves every existing row as it is -/
theorem commit_superseded (st : St) (pres : List Pre) (parents : List Nat) (hi : Inv st)
    (hP1 : ∀ par ∈ parents, ∃ q ∈ st.rows, q.id = par)
    (hP2 : ∀ p ∈ pres, ∀ x, x ∈ p.parents ↔ x ∈ parents)
    (hP3 : ∀ par ∈ parents, st.hasChild par = true) :
    Inv (st.commit pres parents) ∧ Ext (fun x => x.pre ∈ pres) st (st.commit pres parents) ∧
      ∀ p ∈ pres, ∃ r ∈ (st.commit pres parents).rows, r.pre = p := by
  obtain ⟨hinv, extra, hc⟩ := commit_spec st pres parents hi hP1 hP2 (fun _ => hP3)
  have hparLt : ∀ par ∈ parents, par < st.next := by
    intro par hpar
    obtain ⟨q, hq, rfl⟩ := hP1 par hpar
    exact hi.idLt q hq
  have hrows : (st.commit pres parents).rows = st.rows ++ extra := by
    rw [hc.rows]
    apply map_inval_eq
    intro r hr hpar
    rcases List.mem_append.1 hr with h | h
    · have := (hi.curIff r h)
      have h3 := hP3 _ hpar
      cases hcur : r.cur with
      | false => rfl
      | true => rw [this.1 hcur] at h3; exact absurd h3 (by simp)
    · have := hc.idGe r h; have := hparLt _ hpar; omega
  refine ⟨hinv, ⟨⟨extra, hrows, fun x hx => ⟨hc.cur x hx, hc.pre x hx⟩⟩, hc.edgesMono, hc.next⟩, ?_⟩
  intro p hp
  obtain ⟨r, hr, hrp⟩ := hc.has p hp
  exact ⟨r, by rw [hrows]; exact hr, hrp⟩

theorem walk_spec (f : Nat) (st : St) (e k v : String) (i : Nat) (hi : Inv st)
    (hrow : ∃ q ∈ st.rows, q.id = i) (hch : st.hasChild i = true) (hf : st.next ≤ f + i) :
    ∃ st', walk f st e k v i = .ok st' ∧ Inv st' ∧
      Ext (fun x => x.pre.ent = e ∧ x.pre.key = k ∧ x.pre.val = v ∧ x.pre.parents ≠ []) st st' ∧
      ∃ r ∈ st'.rows, r.cur = true ∧ r.pre.ent = e ∧ r.pre.key = k ∧ r.pre.val = v := by
  induction f generalizing i with
  | zero =>
    obtain ⟨q, hq, rfl⟩ := hrow
    have := hi.idLt q hq; omega
  | succ f ih =>
    have hP1 : ∀ par ∈ sortIds [i], ∃ q ∈ st.rows, q.id = par := by
      intro par hpar; simp [sortIds, insertSorted] at hpar; subst hpar; exact hrow
    have hP3 : ∀ par ∈ sortIds [i], st.hasChild par = true := by
      intro par hpar; simp [sortIds, insertSorted] at hpar; subst hpar; exact hch
    have hfin : ∀ (hns : (match st.lookup ⟨e, k, v, sortIds [i]⟩ with | some j => st.hasChild j | none => false) = false),
        ∃ st', Except.ok (st.commit [⟨e, k, v, sortIds [i]⟩] (sortIds [i])) = Except.ok (ε := Err) st' ∧ Inv st' ∧
        Ext (fun x => x.pre.ent = e ∧ x.pre.key = k ∧ x.pre.val = v ∧ x.pre.parents ≠ []) st st' ∧
        ∃ r ∈ st'.rows, r.cur = true ∧ r.pre.ent = e ∧ r.pre.key = k ∧ r.pre.val = v := by
      intro hns
      obtain ⟨hinv, hext, hhas⟩ := commit_superseded st [⟨e, k, v, sortIds [i]⟩] (sortIds [i]) hi hP1
        (by intro p hp x; simp at hp; subst hp; rfl) hP3
      refine ⟨_, rfl, hinv, hext.mono ?_, ?_⟩
      · intro x hx; simp at hx; rw [hx]; simp [sortIds, insertSorted]
      · obtain ⟨r, hr, hrp⟩ := hhas ⟨e, k, v, sortIds [i]⟩ (by simp)
        refine ⟨r, hr, ?_, by rw [hrp], by rw [hrp], by rw [hrp]⟩
        -- r is current: either new, or existing without child
        obtain ⟨extra, hrows, hex⟩ := hext.rows
        rw [hrows] at hr
        rcases List.mem_append.1 hr with h | h
        · have hl := lookup_of_mem hi.preInj h
          rw [hrp] at hl
          rw [hl] at hns
          exact (hi.curIff r h).2 hns
        · exact (hex r h).1
    simp only [walk]
    cases hl : st.lookup ⟨e, k, v, sortIds [i]⟩ with
    | none => exact hfin (by rw [hl])
    | some j =>
      cases hcj : st.hasChild j with
      | false =>
        have := hfin (by rw [hl]; exact hcj)
        simpa [hcj] using this
      | true =>
        obtain ⟨rj, hrj, hrjp, hrjid⟩ := lookup_eq_some hl
        have hij : i < j := by
          have := hi.parLt rj hrj i (by rw [hrjp]; simp [sortIds, insertSorted])
          omega
        obtain ⟨st', hw, hinv', hext', r, hr, hrcur, hre, hrk, hrv⟩ :=
          ih j ⟨rj, hrj, hrjid⟩ hcj (by omega)
        simp only [hw, hcj, if_true]
        obtain ⟨hinv2, hext2, _⟩ := commit_superseded st' [] (sortIds [i]) hinv'
          (by intro par hpar; obtain ⟨q, hq, hqid⟩ := hP1 par hpar; exact ⟨q, hext'.mem hq, hqid⟩)
          (by intro p hp; simp at hp)
          (by intro par hpar; exact hext'.hasChild (hP3 par hpar))
        refine ⟨_, rfl, hinv2, hext'.trans (hext2.mono (by intro x hx; simp at hx)), r, hext2.mem hr, hrcur, hre, hrk, hrv⟩

theorem superseded_iff {st : St} {p : Pre} :
    st.superseded p = true ↔ ∃ i, st.lookup p = some i ∧ st.hasChild i = true := by
  unfold St.superseded
  cases h : st.lookup p with
  | none => simp
  | some i => simp

theorem walkAll_spec (st0 : St) (ent : String) (st : St) (sup : List Pre) (hi : Inv st)
    (hsub : ∀ r ∈ st0.rows, r ∈ st.rows) (hedge : ∀ e ∈ st0.edges, e ∈ st.edges)
    (hsup : ∀ p ∈ sup, st0.superseded p = true) :
    ∃ st', walkAll st0 ent st sup = .ok st' ∧ Inv st' ∧
      Ext (fun x => x.pre.ent = ent ∧ (∃ p ∈ sup, x.pre.key = p.key ∧ x.pre.val = p.val) ∧ x.pre.parents ≠ []) st st' ∧
      ∀ p ∈ sup, ∃ r ∈ st'.rows, r.cur = true ∧ r.pre.ent = ent ∧ r.pre.key = p.key ∧ r.pre.val = p.val := by
  induction sup generalizing st with
  | nil => exact ⟨st, rfl, hi, Ext.refl _ _, by simp⟩
  | cons p ps ih =>
    obtain ⟨i, hl, hc⟩ := superseded_iff.1 (hsup p (by simp))
    obtain ⟨ri, hri, _, hrid⟩ := lookup_eq_some hl
    have hc' : st.hasChild i = true := by
      obtain ⟨c, hc⟩ := hasChild_iff.1 hc
      exact hasChild_iff.2 ⟨c, hedge _ hc⟩
    obtain ⟨st1, hw, hinv1, hext1, r1, hr1, hr1c, hr1e, hr1k, hr1v⟩ :=
      walk_spec (st.next + 1) st ent p.key p.val i hi ⟨ri, hsub ri hri, hrid⟩ hc' (by omega)
    obtain ⟨st2, hw2, hinv2, hext2, hcov2⟩ := ih st1 hinv1 (fun r hr => hext1.mem (hsub r hr))
      (fun e he => hext1.edges e (hedge e he)) (fun q hq => hsup q (List.mem_cons_of_mem _ hq))
    refine ⟨st2, ?_, hinv2, ?_, ?_⟩
    · simp only [walkAll, hl, hw, hw2]
    · refine (hext1.mono ?_).trans (hext2.mono ?_)
      · rintro x ⟨h1, h2, h3, h4⟩; exact ⟨h1, ⟨p, by simp, h2, h3⟩, h4⟩
      · rintro x ⟨h1, ⟨q, hq, h2⟩, h4⟩; exact ⟨h1, ⟨q, List.mem_cons_of_mem _ hq, h2⟩, h4⟩
    · intro q hq
      rcases List.mem_cons.1 hq with rfl | hq
      · exact ⟨r1, hext2.mem hr1, hr1c, hr1e, hr1k, hr1v⟩
      · exact hcov2 q hq

/-- A tag proposed with a non-empty set of parents that are all current is new. -/
theorem lookup_none_of_current_parents {st : St} (hi : Inv st) {p : Pre} (hne : p.parents ≠ [])
    (hcur : ∀ par ∈ p.parents, ∃ r ∈ st.rows, r.id = par ∧ r.cur = true) : st.lookup p = none := by
  rw [lookup_eq_none]
  intro r hr hrp
  cases hpp : p.parents with
  | nil => exact hne hpp
  | cons par rest =>
    have hmem : par ∈ p.parents := by rw [hpp]; simp
    obtain ⟨q, hq, hqid, hqc⟩ := hcur par hmem
    have hedge : (par, r.id) ∈ st.edges := (hi.edgeIff par r.id).2 ⟨r, hr, rfl, by rw [hrp]; exact hmem⟩
    have : st.hasChild q.id = true := hasChild_iff.2 ⟨r.id, by rw [hqid]; exact hedge⟩
    rw [(hi.curIff q hq).1 hqc] at this
    exact absurd this (by simp)

theorem mem_current {st : St} {e k v : String} :
    (k, v) ∈ st.current e ↔ ∃ r ∈ st.rows, r.cur = true ∧ r.pre.ent = e ∧ r.pre.key = k ∧ r.pre.val = v := by
  unfold St.current
  simp only [List.mem_map, List.mem_filter, Bool.and_eq_true, decide_eq_true_eq, Prod.mk.injEq]
  constructor
  · rintro ⟨r, ⟨hr, hc, he⟩, hk, hv⟩; exact ⟨r, hr, hc, he, hk, hv⟩
  · rintro ⟨r, hr, hc, he, hk, hv⟩; exact ⟨r, ⟨hr, hc, he⟩, hk, hv⟩

theorem record_add (st : St) (ent : String) (kvs : List (String × String)) (upd new : Bool) (hi : Inv st)
    (hne : kvs ≠ []) (hnew : (new || upd) = true)
    (hpar : upd = true → st.currentWithKeys ent (kvs.map (·.1)) = []) :
    ∃ st', st.record ent kvs [] upd new = .ok st' ∧ Inv st' ∧
      Ext (fun x => x.pre.ent = ent ∧ (x.pre.key, x.pre.val) ∈ kvs) st st' ∧
      ∀ kv ∈ kvs, ∃ r ∈ st'.rows, r.cur = true ∧ r.pre.ent = ent ∧ r.pre.key = kv.1 ∧ r.pre.val = kv.2 := by
  have hpars : sortIds (if upd = true then [] ++ st.currentWithKeys ent (kvs.map (·.1)) else []) = [] := by
    cases upd with
    | false => rfl
    | true => simp [hpar rfl, sortIds]
  have hemp : kvs.isEmpty = false := by cases kvs <;> simp_all
  unfold St.record
  simp only [hemp, hpars, hnew, if_true, Bool.false_eq_true, if_false]
  generalize hpres : dedup (kvs.map fun kv => (⟨ent, kv.1, kv.2, []⟩ : Pre)) = pres
  have hpresmem : ∀ p, p ∈ pres ↔ ∃ kv ∈ kvs, p = ⟨ent, kv.1, kv.2, []⟩ := by
    intro p; rw [← hpres, mem_dedup]; simp only [List.mem_map]
    constructor
    · rintro ⟨kv, h, rfl⟩; exact ⟨kv, h, rfl⟩
    · rintro ⟨kv, h, rfl⟩; exact ⟨kv, h, rfl⟩
  obtain ⟨st1, hw, hinv1, hext1, hcov1⟩ := walkAll_spec st ent st (pres.filter fun p => st.superseded p) hi
    (fun _ h => h) (fun _ h => h) (by intro p hp; exact (List.mem_filter.1 hp).2)
  simp only [hw]
  obtain ⟨hinv2, hext2, hhas2⟩ := commit_superseded st1 (pres.filter fun p => !st.superseded p) [] hinv1
    (by simp) (by
      intro p hp x
      obtain ⟨kv, _, rfl⟩ := (hpresmem p).1 (List.mem_filter.1 hp).1
      simp) (by simp)
  refine ⟨_, rfl, hinv2, ?_, ?_⟩
  · refine (hext1.mono ?_).trans (hext2.mono ?_)
    · rintro x ⟨h1, ⟨p, hp, hk, hv⟩, _⟩
      obtain ⟨kv, hkv, rfl⟩ := (hpresmem p).1 (List.mem_filter.1 hp).1
      refine ⟨h1, ?_⟩
      rw [hk, hv]; exact hkv
    · intro x hx
      obtain ⟨kv, hkv, h⟩ := (hpresmem x.pre).1 (List.mem_filter.1 hx).1
      rw [h]; exact ⟨rfl, hkv⟩
  · intro kv hkv
    have hp : (⟨ent, kv.1, kv.2, []⟩ : Pre) ∈ pres := (hpresmem _).2 ⟨kv, hkv, rfl⟩
    cases hs : st.superseded ⟨ent, kv.1, kv.2, []⟩ with
    | true =>
      obtain ⟨r, hr, h⟩ := hcov1 ⟨ent, kv.1, kv.2, []⟩ (List.mem_filter.2 ⟨hp, hs⟩)
      exact ⟨r, hext2.mem hr, h⟩
    | false =>
      obtain ⟨r, hr, hrp⟩ := hhas2 ⟨ent, kv.1, kv.2, []⟩ (List.mem_filter.2 ⟨hp, by simp [hs]⟩)
      refine ⟨r, hr, ?_, by rw [hrp], by rw [hrp], by rw [hrp]⟩
      obtain ⟨e2, hrows2, hex2⟩ := hext2.rows
      obtain ⟨e1, hrows1, hex1⟩ := hext1.rows
      rw [hrows2, hrows1] at hr
      rcases List.mem_append.1 hr with h | h
      · rcases List.mem_append.1 h with h | h
        · have hl := lookup_of_mem hi.preInj h
          rw [hrp] at hl
          have : st.hasChild r.id = false := by
            unfold St.superseded at hs; rw [hl] at hs; exact hs
          exact (hi.curIff r h).2 this
        · exact (hex1 r h).1
      · exact (hex2 r h).1

theorem id_mem_filter {st : St} (hs : Struct st) {r : Row} (hr : r ∈ st.rows) (f : Row → Bool) :
    r.id ∈ (st.rows.filter f).map (·.id) ↔ f r = true := by
  simp only [List.mem_map, List.mem_filter]
  constructor
  · rintro ⟨r', ⟨hr', hf⟩, hid⟩
    have := hs.idInj r' hr' r hr hid
    subst this; exact hf
  · intro hf; exact ⟨r, ⟨hr, hf⟩, rfl⟩

theorem current_committed {st st' : St} {pres : List Pre} {parents : List Nat} {extra : List Row}
    (hc : Committed st st' pres parents extra) (hparLt : ∀ par ∈ parents, par < st.next) (e k v : String) :
    (k, v) ∈ st'.current e ↔
      (∃ r ∈ st.rows, r.cur = true ∧ r.id ∉ parents ∧ r.pre.ent = e ∧ r.pre.key = k ∧ r.pre.val = v) ∨
      (∃ x ∈ extra, x.pre.ent = e ∧ x.pre.key = k ∧ x.pre.val = v) := by
  rw [mem_current, hc.rows]
  constructor
  · rintro ⟨r', hr', hcur, he, hk, hv⟩
    obtain ⟨r, hr, rfl⟩ := List.mem_map.1 hr'
    rw [inval_cur] at hcur; rw [inval_pre] at he hk hv
    simp only [Bool.and_eq_true, decide_eq_true_eq] at hcur
    rcases List.mem_append.1 hr with h | h
    · exact Or.inl ⟨r, h, hcur.1, hcur.2, he, hk, hv⟩
    · exact Or.inr ⟨r, h, he, hk, hv⟩
  · rintro (⟨r, hr, hcur, hnp, he, hk, hv⟩ | ⟨x, hx, he, hk, hv⟩)
    · refine ⟨inval parents r, List.mem_map.2 ⟨r, List.mem_append_left _ hr, rfl⟩, ?_, ?_, ?_, ?_⟩
      · rw [inval_cur]; simp [hcur, hnp]
      · rw [inval_pre]; exact he
      · rw [inval_pre]; exact hk
      · rw [inval_pre]; exact hv
    · have hnp : x.id ∉ parents := fun h => by have := hparLt _ h; have := hc.idGe x hx; omega
      refine ⟨inval parents x, List.mem_map.2 ⟨x, List.mem_append_right _ hx, rfl⟩, ?_, ?_, ?_, ?_⟩
      · rw [inval_cur]; simp [hc.cur x hx, hnp]
      · rw [inval_pre]; exact he
      · rw [inval_pre]; exact hk
      · rw [inval_pre]; exact hv

theorem mem_currentWithKeys {st : St} {ent : String} {keys : List String} {par : Nat}
    (h : par ∈ st.currentWithKeys ent keys) :
    ∃ r ∈ st.rows, r.id = par ∧ r.cur = true ∧ r.pre.ent = ent ∧ r.pre.key ∈ keys := by
  unfold St.currentWithKeys at h
  simp only [List.mem_map, List.mem_filter, Bool.and_eq_true, decide_eq_true_eq] at h
  obtain ⟨r, ⟨hr, ⟨hc, he⟩, hk⟩, hid⟩ := h
  exact ⟨r, hr, hid, hc, he, hk⟩

theorem mem_currentMatching {st : St} {ent : String} {pairs : List (String × String)} {keys : List String} {par : Nat}
    (h : par ∈ st.currentMatching ent pairs keys) :
    ∃ r ∈ st.rows, r.id = par ∧ r.cur = true ∧ r.pre.ent = ent ∧ ((r.pre.key, r.pre.val) ∈ pairs ∨ r.pre.key ∈ keys) := by
  unfold St.currentMatching at h
  simp only [List.mem_map, List.mem_filter, Bool.and_eq_true, Bool.or_eq_true, decide_eq_true_eq] at h
  obtain ⟨r, ⟨hr, ⟨hc, he⟩, hk⟩, hid⟩ := h
  exact ⟨r, hr, hid, hc, he, hk⟩

/-- `record_tags` called with a set of parents that are all current (and at least one tag row): the tail runs
directly on all tag rows. -/
theorem record_current (st : St) (ent : String) (kvs : List (String × String)) (parents0 : List Nat) (upd new : Bool)
    (hi : Inv st) (hne : kvs ≠ [])
    (hcur : ∀ par ∈ (if upd = true then parents0 ++ st.currentWithKeys ent (kvs.map (·.1)) else parents0),
      ∃ r ∈ st.rows, r.id = par ∧ r.cur = true)
    (hnn : (new || upd) = true → (if upd = true then parents0 ++ st.currentWithKeys ent (kvs.map (·.1)) else parents0) ≠ []) :
    let parents := sortIds (if upd = true then parents0 ++ st.currentWithKeys ent (kvs.map (·.1)) else parents0)
    let pres := dedup (kvs.map fun kv => (⟨ent, kv.1, kv.2, parents⟩ : Pre))
    st.record ent kvs parents0 upd new = .ok (st.commit pres parents) ∧ Inv (st.commit pres parents) ∧
      ∃ extra, Committed st (st.commit pres parents) pres parents extra := by
  intro parents pres
  have hemp : kvs.isEmpty = false := by cases kvs <;> simp_all
  have hpresmem : ∀ p, p ∈ pres ↔ ∃ kv ∈ kvs, p = ⟨ent, kv.1, kv.2, parents⟩ := by
    intro p; simp only [pres, mem_dedup, List.mem_map]
    constructor
    · rintro ⟨kv, h, rfl⟩; exact ⟨kv, h, rfl⟩
    · rintro ⟨kv, h, rfl⟩; exact ⟨kv, h, rfl⟩
  have hpresne : pres ≠ [] := by
    cases kvs with
    | nil => exact absurd rfl hne
    | cons kv _ =>
      intro h
      have : (⟨ent, kv.1, kv.2, parents⟩ : Pre) ∈ pres := (hpresmem _).2 ⟨kv, by simp, rfl⟩
      rw [h] at this; simp at this
  have hcur' : ∀ par ∈ parents, ∃ r ∈ st.rows, r.id = par ∧ r.cur = true := by
    intro par hpar; exact hcur par ((mem_sortIds _ _).1 hpar)
  obtain ⟨hinv, hex⟩ := commit_spec st pres parents hi
    (fun par hpar => by obtain ⟨r, hr, hid, _⟩ := hcur' par hpar; exact ⟨r, hr, hid⟩)
    (by intro p hp x; obtain ⟨kv, _, rfl⟩ := (hpresmem p).1 hp; exact Iff.rfl)
    (fun h => absurd h hpresne)
  refine ⟨?_, hinv, hex⟩
  unfold St.record
  simp only [hemp, Bool.false_eq_true, if_false]
  cases hnew : (new || upd) with
  | false => simp only [Bool.false_eq_true, if_false]; rfl
  | true =>
    simp only [if_true]
    have hparne : parents ≠ [] := fun h => hnn hnew (sortIds_eq_nil.1 h)
    have hfresh : ∀ p ∈ pres, st.superseded p = false := by
      intro p hp
      obtain ⟨kv, _, rfl⟩ := (hpresmem p).1 hp
      have := lookup_none_of_current_parents hi (p := ⟨ent, kv.1, kv.2, parents⟩) hparne hcur'
      unfold St.superseded; rw [this]
    have h1 : (pres.filter fun p => st.superseded p) = [] := by
      rw [List.filter_eq_nil_iff]; intro p hp; simp [hfresh p hp]
    have h2 : (pres.filter fun p => !st.superseded p) = pres := by
      rw [List.filter_eq_self]; intro p hp; simp [hfresh p hp]
    show (match walkAll st ent st (pres.filter fun p => st.superseded p) with
      | .ok st' => Except.ok (st'.commit (pres.filter fun p => !st.superseded p) parents)
      | .error e => .error e) = _
    rw [h1, h2]; rfl

def Op.ent : Op → String
  | .add e _ => e
  | .update e _ => e
  | .rm e _ _ => e

/-- the entity of a command is a real record id (the empty id is reserved for delete markers) -/
def Op.WF (op : Op) : Prop := op.ent ≠ ""

/-- the current pairs of every real entity are those of the reference (as sets) -/
def Agree (st : St) (sp : Spec) : Prop :=
  ∀ e k v, e ≠ "" → ((k, v) ∈ st.current e ↔ (e, k, v) ∈ sp)

theorem current_ext {P : Row → Prop} {st st' : St} (h : Ext P st st') (e k v : String) :
    (k, v) ∈ st'.current e ↔ (k, v) ∈ st.current e ∨
      ∃ x ∈ st'.rows, x ∉ st.rows ∧ x.cur = true ∧ P x ∧ x.pre.ent = e ∧ x.pre.key = k ∧ x.pre.val = v := by
  obtain ⟨extra, hrows, hex⟩ := h.rows
  rw [mem_current, mem_current]
  constructor
  · rintro ⟨r, hr, hc, he, hk, hv⟩
    by_cases hm : r ∈ st.rows
    · exact Or.inl ⟨r, hm, hc, he, hk, hv⟩
    · rw [hrows] at hr
      rcases List.mem_append.1 hr with h' | h'
      · exact absurd h' hm
      · exact Or.inr ⟨r, by rw [hrows]; exact List.mem_append_right _ h', hm, hc, (hex r h').2, he, hk, hv⟩
  · rintro (⟨r, hr, hc, he, hk, hv⟩ | ⟨x, hx, _, hc, _, he, hk, hv⟩)
    · exact ⟨r, h.mem hr, hc, he, hk, hv⟩
    · exact ⟨x, hx, hc, he, hk, hv⟩

theorem step_add (st : St) (sp : Spec) (e : String) (kvs : List (String × String)) (hi : Inv st)
    (ha : Agree st sp) :
    ∃ st', st.step (.add e kvs) = .ok st' ∧ Inv st' ∧ Agree st' (sp.step (.add e kvs)) ∧
      ∀ kv ∈ kvs, (kv.1, kv.2) ∈ st'.current e := by
  by_cases hne : kvs = []
  · subst hne
    exact ⟨st, by simp [St.step, St.record], hi, by simpa [Spec.step] using ha, by simp⟩
  · obtain ⟨st', hrec, hinv, hext, hcov⟩ := record_add st e kvs false true hi hne rfl (by simp)
    refine ⟨st', hrec, hinv, ?_, ?_⟩
    · intro e' k v he'
      rw [current_ext hext, ha e' k v he']
      simp only [Spec.step, List.mem_append, List.mem_map]
      constructor
      · rintro (h | ⟨x, _, _, _, ⟨hxe, hxkv⟩, he, hk, hv⟩)
        · exact Or.inl h
        · refine Or.inr ⟨(x.pre.key, x.pre.val), hxkv, ?_⟩
          simp [← hxe, he, hk, hv]
      · rintro (h | ⟨kv, hkv, heq⟩)
        · exact Or.inl h
        · simp only [Prod.mk.injEq] at heq
          obtain ⟨h1, h2, h3⟩ := heq
          by_cases hold : (e', k, v) ∈ sp
          · exact Or.inl hold
          · obtain ⟨r, hr, hc, hre, hrk, hrv⟩ := hcov kv hkv
            have hcur' : (k, v) ∈ st'.current e' := mem_current.2 ⟨r, hr, hc, by rw [hre, h1], by rw [hrk, h2], by rw [hrv, h3]⟩
            rcases (current_ext hext e' k v).1 hcur' with h | h
            · exact absurd ((ha e' k v he').1 h) hold
            · exact Or.inr h
    · intro kv hkv
      obtain ⟨r, hr, hc, hre, hrk, hrv⟩ := hcov kv hkv
      exact mem_current.2 ⟨r, hr, hc, hre, hrk, hrv⟩

theorem step_update (st : St) (sp : Spec) (e : String) (kvs : List (String × String)) (hi : Inv st)
    (ha : Agree st sp) :
    ∃ st', st.step (.update e kvs) = .ok st' ∧ Inv st' ∧ Agree st' (sp.step (.update e kvs)) := by
  by_cases hne : kvs = []
  · subst hne
    refine ⟨st, by simp [St.step, St.record], hi, ?_⟩
    intro e' k v he'
    rw [ha e' k v he']
    simp [Spec.step]
  by_cases hpar : st.currentWithKeys e (kvs.map (·.1)) = []
  · obtain ⟨st', hrec, hinv, hext, hcov⟩ := record_add st e kvs true false hi hne rfl (fun _ => hpar)
    refine ⟨st', hrec, hinv, ?_⟩
    intro e' k v he'
    rw [current_ext hext, ha e' k v he']
    simp only [Spec.step, List.mem_append, List.mem_map, List.mem_filter]
    -- nothing of `e` with one of the keys is current, so the filter removes nothing
    have hnone : ∀ k' v', (e, k', v') ∈ sp → e ≠ "" → k' ∉ kvs.map (·.1) := by
      intro k' v' hsp hee hk'
      obtain ⟨r, hr, hc, hre, hrk, _⟩ := mem_current.1 ((ha e k' v' hee).2 hsp)
      have : r.id ∈ st.currentWithKeys e (kvs.map (·.1)) := by
        unfold St.currentWithKeys
        exact (id_mem_filter hi.toStruct hr _).2 (by simp [hc, hre, hrk]; simpa using hk')
      rw [hpar] at this; simp at this
    constructor
    · rintro (h | ⟨x, _, _, _, ⟨hxe, hxkv⟩, he, hk, hv⟩)
      · refine Or.inl ⟨h, ?_⟩
        by_cases hee : e' = e
        · subst hee
          have := hnone k v h he'
          simpa using this
        · simp [hee]
      · refine Or.inr ⟨(x.pre.key, x.pre.val), hxkv, ?_⟩
        simp [← hxe, he, hk, hv]
    · rintro (⟨h, _⟩ | ⟨kv, hkv, heq⟩)
      · exact Or.inl h
      · simp only [Prod.mk.injEq] at heq
        obtain ⟨h1, h2, h3⟩ := heq
        by_cases hold : (e', k, v) ∈ sp
        · exact Or.inl hold
        · obtain ⟨r, hr, hc, hre, hrk, hrv⟩ := hcov kv hkv
          have hcur' : (k, v) ∈ st'.current e' := mem_current.2 ⟨r, hr, hc, by rw [hre, h1], by rw [hrk, h2], by rw [hrv, h3]⟩
          rcases (current_ext hext e' k v).1 hcur' with h | h
          · exact absurd ((ha e' k v he').1 h) hold
          · exact Or.inr h
  · have hrc := record_current st e kvs [] true false hi hne
      (by
        intro par hp
        simp only [if_true, List.nil_append] at hp
        obtain ⟨r, hr, hid, hc, _⟩ := mem_currentWithKeys hp
        exact ⟨r, hr, hid, hc⟩)
      (by intro _; simpa using hpar)
    simp only [if_true, List.nil_append] at hrc
    obtain ⟨hrec, hinv, extra, hcm⟩ := hrc
    refine ⟨_, hrec, hinv, ?_⟩
    intro e' k v he'
    have hparLt : ∀ par ∈ sortIds (st.currentWithKeys e (kvs.map (·.1))), par < st.next := by
      intro par hp
      obtain ⟨r, hr, hid, _⟩ := mem_currentWithKeys ((mem_sortIds _ _).1 hp)
      rw [← hid]; exact hi.idLt r hr
    rw [current_committed hcm hparLt]
    simp only [Spec.step, List.mem_append, List.mem_map, List.mem_filter]
    constructor
    · rintro (⟨r, hr, hc, hnp, hre, hrk, hrv⟩ | ⟨x, hx, hxe, hxk, hxv⟩)
      · left
        refine ⟨(ha e' k v he').1 (mem_current.2 ⟨r, hr, hc, hre, hrk, hrv⟩), ?_⟩
        rw [mem_sortIds] at hnp
        unfold St.currentWithKeys at hnp
        rw [id_mem_filter hi.toStruct hr] at hnp
        simp only [hc, hre, hrk, Bool.true_and, Bool.and_eq_true, decide_eq_true_eq, not_and] at hnp
        simp only [Bool.not_eq_true', Bool.and_eq_false_iff, decide_eq_false_iff_not]
        by_cases hee : e' = e
        · right; simpa using hnp hee
        · left; exact hee
      · right
        have := hcm.pre x hx
        rw [mem_dedup] at this
        obtain ⟨kv, hkv, hp⟩ := List.mem_map.1 this
        refine ⟨kv, hkv, ?_⟩
        rw [← hxe, ← hxk, ← hxv, ← hp]
    · rintro (⟨hsp, hnk⟩ | ⟨kv, hkv, heq⟩)
      · left
        obtain ⟨r, hr, hc, hre, hrk, hrv⟩ := mem_current.1 ((ha e' k v he').2 hsp)
        refine ⟨r, hr, hc, ?_, hre, hrk, hrv⟩
        rw [mem_sortIds]
        unfold St.currentWithKeys
        rw [id_mem_filter hi.toStruct hr]
        simp only [hc, hre, hrk, Bool.true_and, Bool.and_eq_true, decide_eq_true_eq, not_and]
        intro hee
        simp only [Bool.not_eq_true', Bool.and_eq_false_iff, decide_eq_false_iff_not] at hnk
        rcases hnk with h | h
        · exact absurd hee h
        · simpa using h
      · right
        simp only [Prod.mk.injEq] at heq
        obtain ⟨h1, h2, h3⟩ := heq
        have hp : (⟨e, kv.1, kv.2, sortIds (st.currentWithKeys e (kvs.map (·.1)))⟩ : Pre) ∈
            dedup (kvs.map fun kv => (⟨e, kv.1, kv.2, sortIds (st.currentWithKeys e (kvs.map (·.1)))⟩ : Pre)) := by
          rw [mem_dedup]; exact List.mem_map.2 ⟨kv, hkv, rfl⟩
        obtain ⟨r, hr, hrp⟩ := hcm.has _ hp
        rcases List.mem_append.1 hr with h | h
        · exfalso
          have hfresh := lookup_none_of_current_parents hi
            (p := ⟨e, kv.1, kv.2, sortIds (st.currentWithKeys e (kvs.map (·.1)))⟩)
            (by simpa [sortIds_eq_nil] using hpar)
            (by
              intro par hp
              obtain ⟨r, hr, hid, hc, _⟩ := mem_currentWithKeys ((mem_sortIds _ _).1 hp)
              exact ⟨r, hr, hid, hc⟩)
          exact lookup_eq_none.1 hfresh r h hrp
        · exact ⟨r, h, by rw [hrp, h1], by rw [hrp, h2], by rw [hrp, h3]⟩

theorem step_rm (st : St) (sp : Spec) (e : String) (pairs : List (String × String)) (keys : List String)
    (hi : Inv st) (ha : Agree st sp) :
    ∃ st', st.step (.rm e pairs keys) = .ok st' ∧ Inv st' ∧ Agree st' (sp.step (.rm e pairs keys)) := by
  have hrc := record_current st "" [deleteKV] (st.currentMatching e pairs keys) false false hi (by simp)
    (by
      intro par hp
      simp only [Bool.false_eq_true, if_false] at hp
      obtain ⟨r, hr, hid, hc, _⟩ := mem_currentMatching hp
      exact ⟨r, hr, hid, hc⟩)
    (by simp)
  simp only [Bool.false_eq_true, if_false] at hrc
  obtain ⟨hrec, hinv, extra, hcm⟩ := hrc
  refine ⟨_, hrec, hinv, ?_⟩
  intro e' k v he'
  have hparLt : ∀ par ∈ sortIds (st.currentMatching e pairs keys), par < st.next := by
    intro par hp
    obtain ⟨r, hr, hid, _⟩ := mem_currentMatching ((mem_sortIds _ _).1 hp)
    rw [← hid]; exact hi.idLt r hr
  rw [current_committed hcm hparLt]
  simp only [Spec.step, List.mem_filter]
  constructor
  · rintro (⟨r, hr, hc, hnp, hre, hrk, hrv⟩ | ⟨x, hx, hxe, _, _⟩)
    · refine ⟨(ha e' k v he').1 (mem_current.2 ⟨r, hr, hc, hre, hrk, hrv⟩), ?_⟩
      rw [mem_sortIds] at hnp
      unfold St.currentMatching at hnp
      rw [id_mem_filter hi.toStruct hr] at hnp
      simp only [hc, hre, hrk, hrv, Bool.true_and, Bool.and_eq_true, Bool.or_eq_true, decide_eq_true_eq, not_and] at hnp
      simp only [Bool.not_eq_true', Bool.and_eq_false_iff, decide_eq_false_iff_not, Bool.or_eq_false_iff]
      by_cases hee : e' = e
      · right; simpa using hnp hee
      · left; exact hee
    · exfalso
      have := hcm.pre x hx
      rw [mem_dedup] at this
      simp [deleteKV] at this
      rw [this] at hxe
      exact he' hxe.symm
  · rintro ⟨hsp, hnk⟩
    left
    obtain ⟨r, hr, hc, hre, hrk, hrv⟩ := mem_current.1 ((ha e' k v he').2 hsp)
    refine ⟨r, hr, hc, ?_, hre, hrk, hrv⟩
    rw [mem_sortIds]
    unfold St.currentMatching
    rw [id_mem_filter hi.toStruct hr]
    simp only [hc, hre, hrk, hrv, Bool.true_and, Bool.and_eq_true, Bool.or_eq_true, decide_eq_true_eq, not_and]
    intro hee
    simp only [Bool.not_eq_true', Bool.and_eq_false_iff, decide_eq_false_iff_not, Bool.or_eq_false_iff] at hnk
    rcases hnk with h | h
    · exact absurd hee h
    · simpa using h

end RedunModel.Tags
