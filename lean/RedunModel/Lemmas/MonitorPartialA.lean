/-
Lemmas for the `partial` theorem of property C10 on `RedunModel.Model.Monitor` (the executors as
found): well-formed exit paths, phase classes, the hand-off invariant `InvP` that holds as long as no
job has been recorded while a monitor was on its way out, and its preservation by the scheduler thread.
-/
import RedunModel.Lemmas.Monitor
namespace RedunModel.Monitor
set_option linter.unusedSimpArgs false

/-! ### well-formed exit paths -/
def harmless : PostOp → Bool
  | .nop | .tSet | .tAlive | .tNotMe | .join => true
  | _ => false

/-- the part of the exit path after `is_running = False`: no further write to the protocol state
(`arrayer.stop()` only where `_start` tests thread liveness, i.e. the whole exit path is the window) -/
def afterOk (tt : Bool) : List (Lbl × PostOp) → Bool
  | [] => true
  | (_, op) :: r => (harmless op || (tt && op == .arrStop)) && afterOk tt r

/-- an exit path: log/`stop()`/`arrayer.stop()` lines, then `is_running = False`, then `afterOk` -/
def postOk (tt : Bool) : List (Lbl × PostOp) → Bool
  | [] => false
  | (_, .clearFlag) :: r => afterOk tt r
  | (_, .nop) :: r => postOk tt r
  | (_, .arrStop) :: r => postOk tt r
  | _ => false

structure WF (V : Variant) : Prop where
  noGlue : V.glue = false
  post : postOk V.testThread V.post = true

theorem wf_docker : WF docker := ⟨rfl, by decide⟩
theorem wf_awsBatch : WF awsBatch := ⟨rfl, by decide⟩
theorem wf_k8s : WF k8s := ⟨rfl, by decide⟩
theorem wf_gcpBatch : WF gcpBatch := ⟨rfl, by decide⟩

theorem postOk_any (tt : Bool) (r : List (Lbl × PostOp)) (h : postOk tt r = true) :
    r.any (fun x => x.2 == .clearFlag) = true := by
  induction r with
  | nil => simp [postOk] at h
  | cons x r ih =>
    obtain ⟨l, op⟩ := x
    cases op <;> simp_all [postOk]

theorem postOk_not_after (tt : Bool) (r : List (Lbl × PostOp)) (h : postOk tt r = true) : afterOk tt r = false := by
  induction r with
  | nil => simp [postOk] at h
  | cons x r ih =>
    obtain ⟨l, op⟩ := x
    cases op <;> simp_all [postOk, afterOk, harmless]

/-! ### phase classes -/
def preExit : MPh → Bool
  | .unstarted | .pre _ | .loop | .bodyPre _ | .snap | .snapPost _ | .forHead | .procPre _ | .proc
  | .procPost _ | .sleep _ => true
  | _ => false

def iterPh : MPh → Bool
  | .snapPost _ | .forHead | .procPre _ | .proc | .procPost _ => true
  | _ => false

def curPh : MPh → Bool
  | .procPre _ | .proc => true
  | _ => false

def sCover : SPh → Bool
  | .call | .pre _ | .test | .setPre _ | .set | .newPre _ | .new | .start => true
  | _ => false

def sFlagged : SPh → Bool
  | .newPre _ | .new | .start => true
  | _ => false

def sStarting : SPh → Bool
  | .setPre _ | .set | .newPre _ | .new => true
  | _ => false

def sGlue : SPh → Bool
  | .testMon | .testSub | .newSub | .startSub => true
  | _ => false

/-- phase of the thread `self._thread` refers to (`dead` when there is none yet) -/
def lph (s : State) : MPh := match s.mon with | some m => m.ph | none => .dead
def liter (s : State) : List Job := match s.mon with | some m => m.iter | none => []
def lcur (s : State) : Job := match s.mon with | some m => m.cur | none => 0

/-- the hand-off invariant of the code as found, valid as long as no job has been recorded while a
monitor was on its way out (`hit = false`) -/
structure InvP (V : Variant) (s : State) : Prop where
  noSubs : s.sub = none ∧ s.oldSubs = []
  oldOk : ∀ m ∈ s.old, m.ph = .dead ∨ ∃ r, m.ph = .post r ∧ afterOk false r = true
  flagT : s.flag = true → sFlagged s.sph = true ∨ preExit (lph s) = true ∨ ∃ r, lph s = .post r ∧ postOk V.testThread r = true
  flagF : s.flag = false → sFlagged s.sph = false ∧ (lph s = .dead ∨ ∃ r, lph s = .post r ∧ afterOk V.testThread r = true)
  window : ∀ r, lph s = .post r → (V.testThread = true ∨ postOk V.testThread r = true) → s.pending = [] ∧ s.queue = []
  cover : (s.pending ≠ [] ∨ s.queue ≠ []) → (s.flag = true ∧ preExit (lph s) = true) ∨ sCover s.sph = true
  unst : lph s = .unstarted → s.sph = .start
  postShape : ∀ r, lph s = .post r → postOk V.testThread r = true ∨ afterOk V.testThread r = true
  noExc : ∀ r, lph s ≠ .exc r
  iterIn : iterPh (lph s) = true → (∀ j ∈ liter s, j ∈ s.pending) ∧ (liter s).Nodup
  curIn : curPh (lph s) = true → lcur s ∈ s.pending ∧ lcur s ∉ liter s
  noGlueS : sGlue s.sph = false
  startsDead : sStarting s.sph = true → lph s = .dead ∨ ∃ r, lph s = .post r ∧ afterOk false r = true
  atStart : s.sph = .start → lph s = .unstarted
  notArmed : s.armed = false


theorem invP_init (V : Variant) (jobs : List Job) : InvP V (init jobs) := by
  unfold init; split <;> constructor <;> simp [lph, liter, lcur, sFlagged, preExit, iterPh, curPh, sCover, sGlue, sStarting]

theorem sNops_class (r : List Lbl) :
    (sCover (sNops r .pre .test) = true ∧ sFlagged (sNops r .pre .test) = false ∧ sStarting (sNops r .pre .test) = false ∧
      sGlue (sNops r .pre .test) = false ∧ sNops r .pre .test ≠ .start) ∧
    (sCover (sNops r .setPre .set) = true ∧ sFlagged (sNops r .setPre .set) = false ∧ sStarting (sNops r .setPre .set) = true ∧
      sGlue (sNops r .setPre .set) = false ∧ sNops r .setPre .set ≠ .start) ∧
    (sCover (sNops r .newPre .new) = true ∧ sFlagged (sNops r .newPre .new) = true ∧ sStarting (sNops r .newPre .new) = true ∧
      sGlue (sNops r .newPre .new) = false ∧ sNops r .newPre .new ≠ .start) := by
  cases r <;> simp [sNops, sCover, sFlagged, sStarting, sGlue]

theorem finishS_class (s : State) :
    ((finishS s).sph = .done ∨ (finishS s).sph = .ins) ∧ (finishS s).flag = s.flag ∧ (finishS s).pending = s.pending ∧
    (finishS s).queue = s.queue ∧ (finishS s).mon = s.mon ∧ (finishS s).old = s.old ∧ (finishS s).sub = s.sub ∧
    (finishS s).oldSubs = s.oldSubs ∧ (finishS s).armed = s.armed := by
  unfold finishS; split <;> simp

theorem lastMonAlive_eq (s : State) : lastMonAlive s = (lph s != .unstarted && lph s != .dead) := by
  unfold lastMonAlive lph; cases s.mon <;> simp [monAlive]

theorem exiting_false_of_any (V : Variant) (s : State) (h : s.mons.any (exiting V) = false) :
    ∀ r, lph s = .post r → ¬ (V.testThread = true ∨ postOk V.testThread r = true) := by
  intro r hr hc
  unfold lph at hr
  cases hm : s.mon with
  | none => simp [hm] at hr
  | some m =>
    simp [hm] at hr
    have : exiting V m = false := by
      simp [State.mons, hm] at h; exact h.2
    simp [exiting, hr] at this
    rcases hc with hc | hc
    · simp [hc] at this
    · have h2 := postOk_any _ _ hc
      obtain ⟨a, ha⟩ := by simpa using h2
      exact this.2 a _ ha rfl

theorem afterOk_mono (r : List (Lbl × PostOp)) (h : afterOk false r = true) (tt : Bool) : afterOk tt r = true := by
  induction r with
  | nil => rfl
  | cons x r ih => obtain ⟨l, op⟩ := x; simp_all [afterOk]

/-- rebuild the invariant for a state whose scheduler phase changed and nothing else -/
theorem invP_sph (V : Variant) (s : State) (ph : SPh) (h : InvP V s)
    (h8 : sFlagged ph = sFlagged s.sph) (h9 : sCover s.sph = true → sCover ph = true)
    (h10 : ph = .start ↔ s.sph = .start) (h11 : sGlue ph = false)
    (h12 : sStarting ph = true → sStarting s.sph = true) : InvP V { s with sph := ph } := by
  obtain ⟨a, b, c, d, e, f, g, i, j, k, l, m, n, o, na⟩ := h
  constructor <;> simp only [lph, liter, lcur, h8] at * <;> try assumption
  · intro hne; rcases f hne with hf | hf
    · exact Or.inl hf
    · exact Or.inr (h9 hf)
  · intro hu; exact h10.2 (g hu)
  · intro hst; exact n (h12 hst)
  · intro hst; exact o (h10.1 hst)

/-- the end of a `_submit` call: the scheduler thread stops vouching for the recorded job -/
theorem invP_finishS (V : Variant) (s : State) (h : InvP V s)
    (hc : (s.pending ≠ [] ∨ s.queue ≠ []) → s.flag = true ∧ preExit (lph s) = true)
    (hf : s.flag = true → preExit (lph s) = true ∨ ∃ r, lph s = .post r ∧ postOk V.testThread r = true)
    (hu : lph s ≠ .unstarted) : InvP V (finishS s) := by
  obtain ⟨a, b, c, d, e, f, g, i, j, k, l, m, n, o, na⟩ := h
  obtain ⟨h0, h1, h2, h3, h4, h5, h6, h7, h8⟩ := finishS_class s
  constructor <;> simp only [lph, liter, lcur, h1, h2, h3, h4, h5, h6, h7, h8] at * <;> (try assumption)
  · intro hfl; rcases h0 with h0 | h0 <;> simp [h0, sFlagged] <;> exact hf hfl
  · intro hfl; rcases h0 with h0 | h0 <;> simp [h0, sFlagged] <;> exact (d hfl).2
  · intro hne; exact Or.inl (hc hne)
  · intro hun; exact absurd hun hu
  · rcases h0 with h0 | h0 <;> simp [h0, sGlue]
  · rcases h0 with h0 | h0 <;> simp [h0, sStarting]
  · rcases h0 with h0 | h0 <;> simp [h0]

theorem mph_cases (ph : MPh) : preExit ph = true ∨ ph = .dead ∨ (∃ r, ph = .post r) ∨ (∃ r, ph = .exc r) := by
  cases ph <;> simp [preExit]

theorem mNops_pre_class (r : List Lbl) :
    preExit (mNops r .pre .loop) = true ∧ iterPh (mNops r .pre .loop) = false ∧ curPh (mNops r .pre .loop) = false ∧
    mNops r .pre .loop ≠ .unstarted ∧ mNops r .pre .loop ≠ .dead ∧ (∀ x, mNops r .pre .loop ≠ .post x) ∧
    (∀ x, mNops r .pre .loop ≠ .exc x) := by
  cases r <;> simp [mNops, preExit, iterPh, curPh]

theorem mNops_bodyPre_class (r : List Lbl) :
    preExit (mNops r .bodyPre .snap) = true ∧ iterPh (mNops r .bodyPre .snap) = false ∧ curPh (mNops r .bodyPre .snap) = false ∧
    mNops r .bodyPre .snap ≠ .unstarted ∧ mNops r .bodyPre .snap ≠ .dead ∧ (∀ x, mNops r .bodyPre .snap ≠ .post x) ∧
    (∀ x, mNops r .bodyPre .snap ≠ .exc x) := by
  cases r <;> simp [mNops, preExit, iterPh, curPh]

theorem mNops_snapPost_class (r : List Lbl) :
    preExit (mNops r .snapPost .forHead) = true ∧ iterPh (mNops r .snapPost .forHead) = true ∧ curPh (mNops r .snapPost .forHead) = false ∧
    mNops r .snapPost .forHead ≠ .unstarted ∧ mNops r .snapPost .forHead ≠ .dead ∧ (∀ x, mNops r .snapPost .forHead ≠ .post x) ∧
    (∀ x, mNops r .snapPost .forHead ≠ .exc x) := by
  cases r <;> simp [mNops, preExit, iterPh, curPh]

theorem mNops_procPre_class (r : List Lbl) :
    preExit (mNops r .procPre .proc) = true ∧ iterPh (mNops r .procPre .proc) = true ∧ curPh (mNops r .procPre .proc) = true ∧
    mNops r .procPre .proc ≠ .unstarted ∧ mNops r .procPre .proc ≠ .dead ∧ (∀ x, mNops r .procPre .proc ≠ .post x) ∧
    (∀ x, mNops r .procPre .proc ≠ .exc x) := by
  cases r <;> simp [mNops, preExit, iterPh, curPh]

theorem mNops_procPost_class (r : List Lbl) :
    preExit (mNops r .procPost .forHead) = true ∧ iterPh (mNops r .procPost .forHead) = true ∧ curPh (mNops r .procPost .forHead) = false ∧
    mNops r .procPost .forHead ≠ .unstarted ∧ mNops r .procPost .forHead ≠ .dead ∧ (∀ x, mNops r .procPost .forHead ≠ .post x) ∧
    (∀ x, mNops r .procPost .forHead ≠ .exc x) := by
  cases r <;> simp [mNops, preExit, iterPh, curPh]

theorem mNops_sleep_class (r : List Lbl) :
    preExit (mNops r .sleep .loop) = true ∧ iterPh (mNops r .sleep .loop) = false ∧ curPh (mNops r .sleep .loop) = false ∧
    mNops r .sleep .loop ≠ .unstarted ∧ mNops r .sleep .loop ≠ .dead ∧ (∀ x, mNops r .sleep .loop ≠ .post x) ∧
    (∀ x, mNops r .sleep .loop ≠ .exc x) := by
  cases r <;> simp [mNops, preExit, iterPh, curPh]

theorem mPost_class (r : List (Lbl × PostOp)) :
    preExit (mPost r) = false ∧ iterPh (mPost r) = false ∧ curPh (mPost r) = false ∧ mPost r ≠ .unstarted ∧
    (∀ x, mPost r ≠ .exc x) ∧ ((r = [] ∧ mPost r = .dead) ∨ (r ≠ [] ∧ mPost r = .post r)) := by
  cases r <;> simp [mPost, preExit, iterPh, curPh]

theorem postOk_ne_nil (tt : Bool) (r : List (Lbl × PostOp)) (h : postOk tt r = true) : r ≠ [] := by
  cases r <;> simp_all [postOk]

/-- a monitor that is past `is_running = False` only runs lines that leave the protocol state alone -/
theorem stepMon_harmless (V : Variant) (s s' : State) (b : Bool) (m m' : Mon)
    (h : m.ph = .dead ∨ ∃ r, m.ph = .post r ∧ afterOk false r = true) (hs : stepMon V s b m = some (s', m')) :
    s' = s ∧ (m'.ph = .dead ∨ ∃ r, m'.ph = .post r ∧ afterOk false r = true) := by
  obtain ⟨ph, iter, cur, idx⟩ := m
  rcases h with h | ⟨r, h, hr⟩
  · simp only at h; subst h; simp [stepMon] at hs
  · simp only at h; subst h
    cases r with
    | nil => simp [stepMon] at hs
    | cons x r' =>
      obtain ⟨l, op⟩ := x
      have hc := mPost_class r'
      cases op <;> simp only [afterOk, harmless, Bool.false_and, Bool.or_false, Bool.true_and, Bool.false_eq_true] at hr
      all_goals (simp only [stepMon] at hs; (try split at hs) <;> simp at hs <;> obtain ⟨h1, h2⟩ := hs <;> subst h1 <;> subst h2)
      all_goals (refine ⟨rfl, ?_⟩; simp only; grind)

theorem sFlagged_cases (ph : SPh) : sFlagged ph = true → sStarting ph = true ∨ ph = .start := by
  cases ph <;> simp [sFlagged, sStarting]

theorem lastMonAlive_mk (flag pending queue arrAlive reported crashes submitted hit sph cur todo old mon oldSubs sub armed faulted dropped pre gone) :
    lastMonAlive ⟨flag, pending, queue, arrAlive, reported, crashes, submitted, hit, sph, cur, todo, old, mon, oldSubs, sub, armed, faulted, dropped, pre, gone⟩
      = (match mon with | some m => (m.ph != .unstarted && m.ph != .dead) | none => false) := by
  cases mon <;> simp [lastMonAlive, monAlive]

set_option maxHeartbeats 8000000 in
theorem invP_stepS (V : Variant) (hW : WF V) (s s' : State) (h : InvP V s) (hs : stepS V s = some s')
    (hh : s'.hit = false) : InvP V s' := by
  have hpo := postOk_not_after V.testThread
  have hmono := afterOk_mono
  cases hsph : s.sph
  case ins =>
    simp only [stepS, hsph, hW.noGlue, Bool.false_eq_true, ↓reduceIte] at hs
    have hex : s.mons.any (exiting V) = false := by
      (repeat' split at hs) <;> (simp only [Option.some.injEq] at hs; subst hs; simp at hh; simpa using hh.2)
    have hwin := exiting_false_of_any V s hex
    obtain ⟨a, b, c, d, e, f, g, i, j, k, l, m, n, o, na⟩ := h
    (repeat' split at hs) <;> (simp only [Option.some.injEq] at hs; subst hs) <;>
      constructor <;> simp only [lph, liter, lcur, hsph, sFlagged, sCover, sGlue, sStarting] at * <;> (try assumption) <;> grind
  case call =>
    simp only [stepS, hsph, Option.some.injEq] at hs; subst hs
    have := (sNops_class V.sPre).1
    exact invP_sph V _ _ h (by rw [this.2.1, hsph]; rfl) (by simp [this]) (by simp [this, hsph]) (by simp [this]) (by simp [this])
  case pre r =>
    simp only [stepS, hsph, Option.some.injEq] at hs; subst hs
    have := (sNops_class r.tail).1
    exact invP_sph V _ _ h (by rw [this.2.1, hsph]; rfl) (by simp [this]) (by simp [this, hsph]) (by simp [this]) (by simp [this])
  case setPre r =>
    simp only [stepS, hsph, Option.some.injEq] at hs; subst hs
    have := (sNops_class r.tail).2.1
    exact invP_sph V _ _ h (by rw [this.2.1, hsph]; rfl) (by simp [this]) (by simp [this, hsph]) (by simp [this]) (by simp [hsph, sStarting])
  case newPre r =>
    simp only [stepS, hsph, Option.some.injEq] at hs; subst hs
    have := (sNops_class r.tail).2.2
    exact invP_sph V _ _ h (by rw [this.2.1, hsph]; rfl) (by simp [this]) (by simp [this, hsph]) (by simp [this]) (by simp [hsph, sStarting])
  case done => simp [stepS, hsph] at hs
  case testMon => have := h.noGlueS; simp [hsph, sGlue] at this
  case testSub => have := h.noGlueS; simp [hsph, sGlue] at this
  case newSub => have := h.noGlueS; simp [hsph, sGlue] at this
  case startSub => have := h.noGlueS; simp [hsph, sGlue] at this
  case ret =>
    simp only [stepS, hsph, Option.some.injEq] at hs; subst hs
    obtain ⟨a, b, c, d, e, f, g, i, j, k, l, m, n, o, na⟩ := h
    apply invP_finishS V s ⟨a, b, c, d, e, f, g, i, j, k, l, m, n, o, na⟩ <;>
      simp only [lph, liter, lcur, hsph, sFlagged, sCover, sGlue, sStarting] at * <;> grind
  case test =>
    obtain ⟨flag, pending, queue, arrAlive, reported, crashes, submitted, hit, sph, cur, todo, old, mon, oldSubs, sub, armed, faulted, dropped, pre, gone⟩ := s
    simp only at hsph; subst hsph
    obtain ⟨c1, c2, c3, c4, c5⟩ := (sNops_class V.sSetPre).2.1
    have hfin := invP_finishS V ⟨flag, pending, queue, arrAlive, reported, crashes, submitted, hit, .test, cur, todo, old, mon, oldSubs, sub, armed, faulted, dropped, pre, gone⟩ h
    obtain ⟨a, b, c, d, e, f, g, i, j, k, l, m, n, o, na⟩ := h
    simp only [stepS, hW.noGlue, Bool.false_eq_true, ↓reduceIte, lastMonAlive_mk] at hs
    cases mon with
    | none =>
      simp only [lph, liter, lcur, sFlagged, sCover, sGlue, sStarting] at *
      by_cases htt : V.testThread = true <;> simp only [htt, ↓reduceIte, Bool.false_eq_true] at hs
      all_goals (repeat' split at hs)
      all_goals (simp only [Option.some.injEq, reduceCtorEq] at hs)
      all_goals (try subst hs)
      all_goals first
        | (apply hfin <;> grind [preExit])
        | (constructor <;> simp only [lph, liter, lcur, c1, c2, c3, c4, sFlagged, sCover, sGlue, sStarting] at * <;> (try assumption) <;> grind [preExit])
    | some mm =>
      obtain ⟨mph, iter, mcur, idx⟩ := mm
      have hph := mph_cases mph
      simp only [lph, liter, lcur, sFlagged, sCover, sGlue, sStarting] at *
      by_cases htt : V.testThread = true <;> simp only [htt, ↓reduceIte, Bool.false_eq_true] at hs
      all_goals (repeat' split at hs)
      all_goals (simp only [Option.some.injEq, reduceCtorEq] at hs)
      all_goals (try subst hs)
      all_goals first
        | (apply hfin <;> grind [preExit])
        | (constructor <;> simp only [lph, liter, lcur, c1, c2, c3, c4, sFlagged, sCover, sGlue, sStarting] at * <;> (try assumption) <;> grind [preExit])
  case set =>
    obtain ⟨flag, pending, queue, arrAlive, reported, crashes, submitted, hit, sph, cur, todo, old, mon, oldSubs, sub, armed, faulted, dropped, pre, gone⟩ := s
    simp only at hsph; subst hsph
    obtain ⟨c1, c2, c3, c4, c5⟩ := (sNops_class V.sNewPre).2.2
    obtain ⟨a, b, c, d, e, f, g, i, j, k, l, m, n, o, na⟩ := h
    simp only [stepS, hW.noGlue, Bool.false_eq_true, ↓reduceIte, Option.some.injEq] at hs
    subst hs
    cases mon with
    | none =>
      constructor <;> simp only [lph, liter, lcur, c1, c2, c3, c4, sFlagged, sCover, sGlue, sStarting] at * <;> (try assumption) <;> grind [preExit]
    | some mm =>
      obtain ⟨mph, iter, mcur, idx⟩ := mm
      have hph := mph_cases mph
      constructor <;> simp only [lph, liter, lcur, c1, c2, c3, c4, sFlagged, sCover, sGlue, sStarting] at * <;> (try assumption) <;> grind [preExit]
  case new =>
    obtain ⟨flag, pending, queue, arrAlive, reported, crashes, submitted, hit, sph, cur, todo, old, mon, oldSubs, sub, armed, faulted, dropped, pre, gone⟩ := s
    simp only at hsph; subst hsph
    obtain ⟨a, b, c, d, e, f, g, i, j, k, l, m, n, o, na⟩ := h
    simp only [stepS, Option.some.injEq] at hs
    subst hs
    cases mon with
    | none =>
      constructor <;> simp only [lph, liter, lcur, sFlagged, sCover, sGlue, sStarting, Option.toList] at * <;> (try assumption) <;>
        grind [preExit, iterPh, curPh]
    | some mm =>
      obtain ⟨mph, iter, mcur, idx⟩ := mm
      have hph := mph_cases mph
      constructor <;> simp only [lph, liter, lcur, sFlagged, sCover, sGlue, sStarting, Option.toList] at * <;> (try assumption) <;>
        grind [preExit, iterPh, curPh]
  case start =>
    obtain ⟨flag, pending, queue, arrAlive, reported, crashes, submitted, hit, sph, cur, todo, old, mon, oldSubs, sub, armed, faulted, dropped, pre, gone⟩ := s
    simp only at hsph; subst hsph
    obtain ⟨a, b, c, d, e, f, g, i, j, k, l, m, n, o, na⟩ := h
    simp only [stepS, hW.noGlue, Bool.false_eq_true, ↓reduceIte, Option.some.injEq] at hs
    subst hs
    obtain ⟨q1, q2, q3, q4, q5, q6, q7⟩ := mNops_pre_class V.mPre
    cases mon with
    | none => simp [lph] at o
    | some mm =>
      obtain ⟨mph, iter, mcur, idx⟩ := mm
      simp only [lph] at o
      have hm : mph = .unstarted := o trivial
      subst hm
      obtain ⟨h0, h1, h2, h3, h4, h5, h6, h7, h8⟩ := finishS_class
        ⟨flag, pending, queue, arrAlive, reported, crashes, submitted, hit, .start, cur, todo, old,
          Option.map (fun m => if m.ph = MPh.unstarted then { m with ph := mNops V.mPre .pre .loop } else m)
            (some ⟨.unstarted, iter, mcur, idx⟩), oldSubs, sub, armed, faulted, dropped, pre, gone⟩
      constructor <;> simp only [lph, liter, lcur, h1, h2, h3, h4, h5, h6, h7, h8, Option.map, ↓reduceIte] at * <;> (try assumption)
      all_goals (rcases h0 with h0 | h0 <;> simp only [h0, sFlagged, sCover, sGlue, sStarting] at * <;> grind [preExit])

end RedunModel.Monitor
