import RedunModel.Model.MonitorLocked
namespace RedunModel.MonitorLocked

def holdsS : SPh → Bool
  | .test | .set | .new | .start | .unlock => true
  | _ => false

def holdsM : MPh → Bool
  | .test | .clear | .unlockExit | .unlock => true
  | _ => false

/-- the monitor thread will take (or is taking) another loop test before it can leave -/
def active : MPh → Bool
  | .unstarted | .lock | .test | .clear | .unlock | .snap | .forHead | .proc => true
  | _ => false

structure Inv (s : State) : Prop where
  oldDead : ∀ m ∈ s.old, m.ph = .dead
  lockS : s.lock = some .S ↔ holdsS s.sph = true
  lockM : s.lock = some .M ↔ holdsM s.mon.ph = true
  lockO : ∀ k, s.lock ≠ some (.O k)
  flagT : s.flag = true → s.sph = .new ∨ active s.mon.ph = true
  flagF : s.flag = false → (s.mon.ph = .unlockExit ∨ s.mon.ph = .dead) ∧ s.sph ≠ .new ∧ s.sph ≠ .start
  unst : s.mon.ph = .unstarted → s.sph = .start
  startsDead : (s.sph = .set ∨ s.sph = .new) → s.mon.ph = .dead
  cover : s.pending ≠ [] → s.flag = true ∨ s.sph = .lock ∨ s.sph = .test ∨ s.sph = .set
  exitOk : (s.mon.ph = .clear ∨ s.mon.ph = .unlockExit) → s.pending = [] ∨ s.sph = .lock

theorem inv_init (jobs : List Job) : Inv (init jobs) := by
  unfold init; split <;> constructor <;> simp [holdsS, holdsM, active]

theorem finishS_sph (s : State) : (finishS s).sph = .done ∨ (finishS s).sph = .ins := by
  unfold finishS; split <;> simp

set_option maxHeartbeats 2000000 in
theorem inv_stepS (s s' : State) (h : Inv s) (hs : stepS s = some s') : Inv s' := by
  obtain ⟨flag, pending, lock, reported, submitted, sph, cur, todo, ⟨mph, iter, mcur⟩, old⟩ := s
  obtain ⟨h1, h2, h3, h4, h5, h6, h7, h8, h9, h10⟩ := h
  simp only at h1 h2 h3 h4 h5 h6 h7 h8 h9 h10
  cases sph <;> simp only [stepS] at hs <;> (try split at hs) <;> simp at hs <;> (try subst hs)
  all_goals (try (simp only [finishS]; split))
  all_goals (constructor <;> simp only [holdsS] at * )
  all_goals first
    | assumption
    | grind [holdsM, active]

set_option maxHeartbeats 2000000 in
theorem inv_stepM (s s' : State) (m' : Mon) (h : Inv s) (hs : stepMon s .M s.mon = some (s', m')) :
    Inv { s' with mon := m' } := by
  obtain ⟨flag, pending, lock, reported, submitted, sph, cur, todo, ⟨mph, iter, mcur⟩, old⟩ := s
  obtain ⟨h1, h2, h3, h4, h5, h6, h7, h8, h9, h10⟩ := h
  simp only at h1 h2 h3 h4 h5 h6 h7 h8 h9 h10
  cases mph <;> simp only [stepMon] at hs <;> (try split at hs) <;> simp at hs <;> (try (obtain ⟨hs1, hs2⟩ := hs; subst hs1; subst hs2))
  all_goals (constructor <;> simp only [holdsM, active] at * )
  all_goals first
    | assumption
    | grind [holdsS, List.erase_eq_nil_iff]

theorem inv_stepO (s s' : State) (k : Nat) (m m' : Mon) (h : Inv s) (hk : s.old[k]? = some m)
    (hs : stepMon s (.O k) m = some (s', m')) : False := by
  have hd := h.oldDead m (List.mem_of_getElem? hk)
  simp [stepMon, hd] at hs

theorem inv_step (s s' : State) (t : Tid) (h : Inv s) (hs : step s t = some s') : Inv s' := by
  cases t with
  | S => exact inv_stepS s s' h hs
  | M =>
    simp only [step] at hs
    split at hs
    · simp at hs
    · rename_i s'' m' hm; simp at hs; subst hs; exact inv_stepM s s'' m' h hm
  | O k =>
    simp only [step] at hs
    split at hs
    · simp at hs
    · rename_i m hk
      split at hs
      · simp at hs
      · rename_i s'' m' hm; exact (inv_stepO s s'' k m m' h hk hm).elim

theorem reachable_inv {jobs : List Job} {s : State} (h : Reachable jobs s) : Inv s := by
  induction h with
  | init => exact inv_init jobs
  | step t _ hs ih => exact inv_step _ _ t ih hs
end RedunModel.MonitorLocked
