/-
Lemmas about nested values (`RedunModel.Model.Nested`).
-/
import RedunModel.Model.Nested
namespace RedunModel.Nested
namespace NV
variable {α β γ : Type}

/-- Induction over nested values with the natural hypothesis for the child lists. -/
theorem ind {motive : NV α → Prop}
    (leaf : ∀ a, motive (.leaf a))
    (list : ∀ xs, (∀ x ∈ xs, motive x) → motive (.list xs))
    (tuple : ∀ xs, (∀ x ∈ xs, motive x) → motive (.tuple xs))
    (ntuple : ∀ c xs, (∀ x ∈ xs, motive x) → motive (.ntuple c xs))
    (set : ∀ xs, (∀ x ∈ xs, motive x) → motive (.set xs))
    (dict : ∀ ks vs, (∀ x ∈ ks, motive x) → (∀ x ∈ vs, motive x) → motive (.dict ks vs))
    (dcls : ∀ c xs, (∀ x ∈ xs, motive x) → motive (.dcls c xs))
    (v : NV α) : motive v :=
  NV.rec (motive_1 := motive) (motive_2 := fun xs => ∀ x ∈ xs, motive x)
    leaf list tuple ntuple set dict dcls
    (by intro x hx; cases hx)
    (by
      intro h t ih iht x hx
      cases hx with
      | head => exact ih
      | tail _ hm => exact iht x hm)
    v

/-! ### the list helpers are the obvious maps -/
theorem mapNVs_eq (f : α → β) (xs : List (NV α)) : mapNVs f xs = xs.map (mapNV f) := by
  induction xs with
  | nil => rfl
  | cons x xs ih => simp [mapNVs, ih]

theorem leavesDfsL_eq (xs : List (NV α)) : leavesDfsL xs = (xs.map leavesDfs).flatten := by
  induction xs with
  | nil => rfl
  | cons x xs ih => simp [leavesDfsL, ih]

theorem visitedEach_eq (xs : List (NV α)) : visitedEach xs = xs.map visited := by
  induction xs with
  | nil => rfl
  | cons x xs ih => simp [visitedEach, ih]

theorem sizes_eq (xs : List (NV α)) : sizes xs = (xs.map size).sum := by
  induction xs with
  | nil => rfl
  | cons x xs ih => simp [sizes, ih]

theorem WFs_iff (xs : List (NV α)) : WFs xs ↔ ∀ x ∈ xs, WF x := by
  induction xs with
  | nil => simp [WFs]
  | cons x xs ih => simp [WFs, ih]

/-! ### functor laws -/
theorem map_eq_self {g : γ → γ} {xs : List γ} (h : ∀ x ∈ xs, g x = x) : xs.map g = xs := by
  rw [List.map_congr_left (g := id) (by simpa using h)]; simp

theorem mapNV_id (v : NV α) : mapNV id v = v := by
  induction v using ind <;> simp only [mapNV, mapNVs_eq] <;> try rfl
  all_goals simp_all [map_eq_self]

theorem mapNV_comp (g : β → γ) (f : α → β) (v : NV α) : mapNV g (mapNV f v) = mapNV (g ∘ f) v := by
  induction v using ind <;> simp only [mapNV, mapNVs_eq, List.map_map] <;> try rfl
  all_goals simp_all [List.map_congr_left]

/-- The shape is untouched by mapping. -/
theorem shape_mapNV (f : α → β) (v : NV α) : shape (mapNV f v) = shape v := by
  simp only [shape, mapNV_comp]

/-! ### leaves -/
theorem leavesDfs_mapNV (f : α → β) (v : NV α) : leavesDfs (mapNV f v) = (leavesDfs v).map f := by
  induction v using ind <;> simp only [mapNV, leavesDfs, mapNVs_eq, leavesDfsL_eq, List.map_map, List.map_flatten, List.map_append] <;> try rfl
  all_goals simp_all [List.map_congr_left, Function.comp_def]

theorem leaves_mapNV (f : α → β) (v : NV α) : leaves (mapNV f v) = (leaves v).map f := by
  simp [leaves, leavesDfs_mapNV]

/-! ### the explicit-stack iterator -/
theorem leaves_node (xs : List (NV α)) :
    (leavesDfsL xs).reverse = xs.reverse.flatMap leaves := by
  induction xs with
  | nil => rfl
  | cons x xs ih => simp [leavesDfsL, ih, leaves, List.flatMap_append]

/-- The stack machine yields, for a stack `st` (top first), the `leaves` of its entries in order. -/
theorem iterLoop_eq (st : List (NV α)) : iterLoop st = st.flatMap leaves := by
  fun_induction iterLoop st <;> simp_all [List.flatMap_append, List.flatMap_cons]
  all_goals simp [leaves, leavesDfs, leaves_node]

/-! ### the order in which `map_nested_value` visits the leaves -/
theorem interleave_perm {γ : Type} (as bs : List γ) : (interleave as bs).Perm (as ++ bs) := by
  fun_induction interleave as bs with
  | case1 a as b bs ih =>
    refine (List.Perm.cons a ?_)
    refine ((List.Perm.cons b ih).trans ?_)
    exact (List.perm_middle (a := b) (l₁ := as) (l₂ := bs)).symm
  | case2 bs => simp
  | case3 as _ => simp

theorem pick_perm {γ : Type} (fl : List Bool) (xs : List γ) :
    (pick true fl xs ++ pick false fl xs).Perm xs := by
  induction xs generalizing fl with
  | nil => simp [pick]
  | cons x xs ih =>
    cases fl with
    | nil => simp [pick]
    | cons b fl =>
      cases b
      · simpa [pick] using (List.perm_middle (a := x)).trans (List.Perm.cons x (ih fl))
      · simpa [pick] using ih fl

theorem flatten_map_perm {γ δ : Type} {g h : γ → List δ} {xs : List γ} (H : ∀ x ∈ xs, (g x).Perm (h x)) :
    (xs.map g).flatten.Perm (xs.map h).flatten := by
  induction xs with
  | nil => simp
  | cons x xs ih =>
    simp only [List.map_cons, List.flatten_cons]
    exact List.Perm.append (H x (by simp)) (ih (fun y hy => H y (by simp [hy])))

theorem map_interleave {γ δ : Type} (g : γ → δ) (as bs : List γ) :
    (interleave as bs).map g = interleave (as.map g) (bs.map g) := by
  fun_induction interleave as bs <;> simp_all [interleave]

theorem map_pick {γ δ : Type} (g : γ → δ) (w : Bool) (fl : List Bool) (xs : List γ) :
    (pick w fl xs).map g = pick w fl (xs.map g) := by
  fun_induction pick w fl xs <;> simp_all [pick]

theorem visited_mapNV (f : α → β) (v : NV α) : visited (mapNV f v) = (visited v).map f := by
  induction v using ind <;>
    simp only [mapNV, visited, mapNVs_eq, visitedEach_eq, List.map_map, List.map_flatten, List.map_append,
      map_interleave, map_pick] <;> try rfl
  all_goals simp_all [List.map_congr_left, Function.comp_def]

theorem visited_perm_leavesDfs (v : NV α) : (visited v).Perm (leavesDfs v) := by
  induction v using ind with
  | leaf a => simp [visited, leavesDfs]
  | list xs ih => simpa only [visited, leavesDfs, visitedEach_eq, leavesDfsL_eq] using flatten_map_perm ih
  | tuple xs ih => simpa only [visited, leavesDfs, visitedEach_eq, leavesDfsL_eq] using flatten_map_perm ih
  | ntuple c xs ih => simpa only [visited, leavesDfs, visitedEach_eq, leavesDfsL_eq] using flatten_map_perm ih
  | set xs ih => simpa only [visited, leavesDfs, visitedEach_eq, leavesDfsL_eq] using flatten_map_perm ih
  | dict ks vs ihk ihv =>
    simp only [visited, leavesDfs, visitedEach_eq, leavesDfsL_eq]
    refine (List.Perm.flatten (interleave_perm _ _)).trans ?_
    rw [List.flatten_append]
    exact List.Perm.append (flatten_map_perm ihk) (flatten_map_perm ihv)
  | dcls c xs ih =>
    simp only [visited, leavesDfs, visitedEach_eq, leavesDfsL_eq]
    rw [← List.flatten_append]
    exact (List.Perm.flatten (pick_perm _ _)).trans (flatten_map_perm ih)

/-- `map_nested_value` applies `func` to exactly the leaves `iter_nested_value` yields (as multisets;
the two orders differ: mirror-image depth-first vs. left-to-right with interleaved dict items). -/
theorem visited_perm_leaves (v : NV α) : (visited v).Perm (leaves v) :=
  (visited_perm_leavesDfs v).trans (List.reverse_perm _).symm

/-! ### a nested value is determined by its shape and its leaves -/
theorem length_leavesDfs_shape (v : NV α) : (leavesDfs (shape v)).length = (leavesDfs v).length := by
  simp [shape, leavesDfs_mapNV]

theorem length_leavesDfs_of_shape {a : NV α} {b : NV β} (h : shape a = shape b) :
    (leavesDfs a).length = (leavesDfs b).length := by
  rw [← length_leavesDfs_shape a, ← length_leavesDfs_shape b, h]

theorem shape_fun : (shape : NV α → NV Unit) = mapNV (fun _ => ()) := rfl

theorem shapes_list_iff (xs : List (NV α)) (ys : List (NV β)) :
    xs.map shape = ys.map shape ↔ shape (.list xs) = shape (.list ys) := by
  simp [shape_fun, shape, mapNV, mapNVs_eq]

theorem lists_eq_of_shape_leaves {xs ys : List (NV α)}
    (ih : ∀ x ∈ xs, ∀ y : NV α, shape x = shape y → leavesDfs x = leavesDfs y → x = y)
    (hs : xs.map shape = ys.map shape)
    (hl : (xs.map leavesDfs).flatten = (ys.map leavesDfs).flatten) : xs = ys := by
  induction xs generalizing ys with
  | nil => cases ys with
    | nil => rfl
    | cons y ys => simp at hs
  | cons x xs ihx =>
    cases ys with
    | nil => simp at hs
    | cons y ys =>
      simp only [List.map_cons, List.cons.injEq] at hs
      simp only [List.map_cons, List.flatten_cons] at hl
      obtain ⟨h1, h2⟩ := List.append_inj hl (length_leavesDfs_of_shape hs.1)
      rw [ih x (by simp) y hs.1 h1, ihx (fun z hz => ih z (by simp [hz])) hs.2 h2]

theorem eq_of_shape_leavesDfs (a b : NV α) (hs : shape a = shape b) (hl : leavesDfs a = leavesDfs b) : a = b := by
  induction a using ind generalizing b with
  | leaf x =>
    cases b <;> simp_all [shape, mapNV, leavesDfs]
  | list xs ih =>
    cases b <;> simp [shape, mapNV, mapNVs_eq] at hs
    simp only [leavesDfs, leavesDfsL_eq] at hl
    rw [lists_eq_of_shape_leaves ih (by simpa [shape_fun] using hs) hl]
  | tuple xs ih =>
    cases b <;> simp [shape, mapNV, mapNVs_eq] at hs
    simp only [leavesDfs, leavesDfsL_eq] at hl
    rw [lists_eq_of_shape_leaves ih (by simpa [shape_fun] using hs) hl]
  | ntuple c xs ih =>
    cases b <;> simp [shape, mapNV, mapNVs_eq] at hs
    simp only [leavesDfs, leavesDfsL_eq] at hl
    rw [lists_eq_of_shape_leaves ih (by simpa [shape_fun] using hs.2) hl, hs.1]
  | set xs ih =>
    cases b <;> simp [shape, mapNV, mapNVs_eq] at hs
    simp only [leavesDfs, leavesDfsL_eq] at hl
    rw [lists_eq_of_shape_leaves ih (by simpa [shape_fun] using hs) hl]
  | dict ks vs ihk ihv =>
    cases b <;> simp [shape, mapNV, mapNVs_eq] at hs
    rename_i ks' vs'
    simp only [leavesDfs, leavesDfsL_eq] at hl
    have hk : ks.map shape = ks'.map shape := by simpa [shape_fun] using hs.1
    have hlen : ((ks.map leavesDfs).flatten).length = ((ks'.map leavesDfs).flatten).length := by
      have := length_leavesDfs_of_shape ((shapes_list_iff ks ks').1 hk)
      simpa only [leavesDfs, leavesDfsL_eq] using this
    obtain ⟨h1, h2⟩ := List.append_inj hl hlen
    rw [lists_eq_of_shape_leaves ihk hk h1, lists_eq_of_shape_leaves ihv (by simpa [shape_fun] using hs.2) h2]
  | dcls c xs ih =>
    cases b <;> simp [shape, mapNV, mapNVs_eq] at hs
    simp only [leavesDfs, leavesDfsL_eq] at hl
    rw [lists_eq_of_shape_leaves ih (by simpa [shape_fun] using hs.2) hl, hs.1]

end NV
end RedunModel.Nested
