/-
Helper lemmas for the configuration model (C35): escaping `$` is inverted by interpolation and accepted by
`before_set`; `str.replace` without an occurrence; reading back an escaped two-level dictionary; the loop of
`get_config_dict` over the leaves of the nested sections.
-/
import RedunModel.Model.Config
namespace RedunModel.Config

/-! value level: escaping -/

theorem loop_escape (cfg : Cfg) (d : Nat) (sect : Str) (map : Str → Option Str) (s : Str) :
    loop cfg d (escape s) sect map = .ok s := by
  induction s with
  | nil => rw [escape, loop]
  | cons c t ih =>
    by_cases hc : c = '$'
    · subst hc
      simp only [escape, if_true]
      rw [loop.eq_def]
      simp [ih]
    · simp only [escape, hc, if_false]
      rw [loop.eq_def]
      simp [hc, ih]

theorem removeDD_cons_ne (c : Char) (t : Str) (h : c ≠ '$') : removeDD (c :: t) = c :: removeDD t := by
  rw [removeDD]
  · intro t' e; exact absurd e h

theorem removeDD_escape (s : Str) : '$' ∉ removeDD (escape s) := by
  induction s with
  | nil => simp [escape, removeDD]
  | cons c t ih =>
    by_cases hc : c = '$'
    · subst hc; simp only [escape, if_true, removeDD]; exact ih
    · simp only [escape, hc, if_false]
      rw [removeDD_cons_ne c _ hc]
      simp [ih, Ne.symm hc]

theorem removeRefsAux_no_dollar (n : Nat) (s : Str) (h : '$' ∉ s) : removeRefsAux n s = s := by
  induction n generalizing s with
  | zero => rfl
  | succ n ih =>
    cases s with
    | nil => rfl
    | cons c t =>
      have hc : c ≠ '$' := fun e => h (by simp [e])
      have ht : '$' ∉ t := fun e => h (by simp [e])
      rw [removeRefsAux]
      · rw [ih t ht]
      · intro t' e; exact absurd e hc

theorem beforeSetOk_escape (s : Str) : beforeSetOk (escape s) = true := by
  unfold beforeSetOk removeRefs
  rw [removeRefsAux_no_dollar _ _ (removeDD_escape s)]
  simp [removeDD_escape s]

/-! replace -/

theorem replaceAux_no_infix (pat rep : Str) (hp : pat ≠ []) (n : Nat) (s : Str) (h : ¬ pat <:+: s) :
    replaceAux pat rep n s = s := by
  induction n generalizing s with
  | zero => rfl
  | succ n ih =>
    cases s with
    | nil => simp [replaceAux, hp]
    | cons c t =>
      have hpre : pat.isPrefixOf (c :: t) = false := by
        cases hh : pat.isPrefixOf (c :: t) with
        | false => rfl
        | true => exact absurd (List.IsPrefix.isInfix (List.isPrefixOf_iff_prefix.mp hh)) h
      have ht : ¬ pat <:+: t := fun hi => h (by
        obtain ⟨a, b, e⟩ := hi
        exact ⟨c :: a, b, by simp [← e]⟩)
      simp only [replaceAux, hp, if_false, hpre, Bool.false_eq_true]
      rw [ih t ht]

theorem replaceAll_no_infix (pat rep s : Str) (hp : pat ≠ []) (h : ¬ pat <:+: s) : replaceAll pat rep s = s :=
  replaceAux_no_infix pat rep hp _ s h

/-! dictionaries -/

def escOpts (o : Opts) : Opts := o.map fun kv => (kv.1, escape kv.2)
def escD (D : List (Str × Opts)) : List (Str × Opts) := D.map fun s => (s.1, escOpts s.2)

theorem setKey_not_mem {α : Type} (kids : List (Str × α)) (k : Str) (v : α) (h : k ∉ kids.map (·.1)) :
    setKey kids k v = kids ++ [(k, v)] := by
  induction kids with
  | nil => rfl
  | cons p t ih =>
    obtain ⟨k', v'⟩ := p
    simp only [List.map_cons, List.mem_cons, not_or] at h
    simp only [setKey, Ne.symm h.1, if_false, ih h.2, List.cons_append]

theorem lookup_mem_nodup {α : Type} (l : List (Str × α)) (h : (l.map (·.1)).Nodup) (p : Str × α) (hp : p ∈ l) :
    l.lookup p.1 = some p.2 := by
  induction l with
  | nil => simp at hp
  | cons q t ih =>
    have ⟨hk, ht⟩ := List.nodup_cons.mp h
    obtain ⟨qk, qv⟩ := q
    rcases List.mem_cons.mp hp with e | hm
    · subst e; simp [List.lookup]
    · have : ¬ p.1 = qk := fun e => hk (List.mem_map.mpr ⟨p, hm, e⟩)
      have e' : (p.1 == qk) = false := by simp [this]
      simp only [List.lookup, e']
      exact ih ht hm

theorem lookup_none_of_not_mem {α : Type} (l : List (Str × α)) (k : Str) (h : k ∉ l.map (·.1)) :
    l.lookup k = none := by
  induction l with
  | nil => rfl
  | cons q t ih =>
    obtain ⟨qk, qv⟩ := q
    simp only [List.map_cons, List.mem_cons, not_or] at h
    have e' : (k == qk) = false := by simp [h.1]
    simp only [List.lookup, e']
    exact ih h.2

/-- `set` of an escaped value into the last section -/
theorem readOpts_escaped (pre : List (Str × Opts)) (dflt : Opts) (s : Str) (hs1 : s ≠ []) (hs2 : s ≠ defaultSect)
    (hpre : s ∉ pre.map (·.1)) (opts : Opts) :
    ∀ cur : Opts, ((cur ++ opts).map (·.1)).Nodup →
      readOpts ⟨dflt, pre ++ [(s, cur)]⟩ s (escOpts opts) = .ok ⟨dflt, pre ++ [(s, cur ++ escOpts opts)]⟩ := by
  induction opts with
  | nil => intro cur _; simp [escOpts, readOpts]
  | cons kv t ih =>
    intro cur hnd
    obtain ⟨k, v⟩ := kv
    have hk : k ∉ cur.map (·.1) := by
      intro hm
      rw [List.map_append, List.map_cons] at hnd
      have := (List.nodup_append.mp hnd).2.2 k hm k (by simp)
      exact this rfl
    have hset : setOpt ⟨dflt, pre ++ [(s, cur)]⟩ s k (escape v) = ⟨dflt, pre ++ [(s, cur ++ [(k, escape v)])]⟩ := by
      simp only [setOpt, hs1, hs2, or_self, if_false, List.map_append, List.map_cons, List.map_nil, if_true]
      congr 1
      congr 1
      · conv => rhs; rw [← List.map_id pre]
        apply List.map_congr_left
        intro q hq
        have : q.1 ≠ s := fun e => hpre (e ▸ List.mem_map_of_mem hq)
        simp [this]
      · rw [setKey_not_mem cur k _ hk]
    simp only [escOpts, List.map_cons, readOpts, beforeSetOk_escape, Bool.true_eq_false, and_false, if_false]
    rw [hset]
    have := ih (cur ++ [(k, escape v)]) (by
      have : ((cur ++ [(k, escape v)]) ++ t).map (·.1) = (cur ++ (k, v) :: t).map (·.1) := by simp
      rw [this]; exact hnd)
    simp only [escOpts] at this
    rw [this]
    simp

theorem addSection_fresh (dflt : Opts) (secs : List (Str × Opts)) (s : Str) (hs2 : s ≠ defaultSect)
    (h : s ∉ secs.map (·.1)) : addSection ⟨dflt, secs⟩ s = ⟨dflt, secs ++ [(s, [])]⟩ := by
  have : (secs.any fun q => q.1 == s) = false := by
    rw [List.any_eq_false]
    intro q hq
    have : q.1 ≠ s := fun e => h (e ▸ List.mem_map_of_mem hq)
    simp [this]
  simp [addSection, hs2, this]

/-- Hypotheses on a two-level dictionary: what a Python dict of dicts coming out of `get_config_dict` satisfies. -/
structure GoodDict (D : List (Str × Opts)) : Prop where
  names_nodup : (D.map (·.1)).Nodup
  no_empty : [] ∉ D.map (·.1)
  no_default : defaultSect ∉ D.map (·.1)
  keys_nodup : ∀ s ∈ D, (s.2.map (·.1)).Nodup

theorem readDictInto_escaped (dflt : Opts) (D : List (Str × Opts)) :
    ∀ pre : List (Str × Opts), GoodDict D → (∀ n ∈ D.map (·.1), n ∉ pre.map (·.1)) →
      readDictInto ⟨dflt, pre⟩ (escD D) = .ok ⟨dflt, pre ++ escD D⟩ := by
  induction D with
  | nil => intro pre _ _; simp [escD, readDictInto]
  | cons s t ih =>
    intro pre hg hdis
    obtain ⟨n, o⟩ := s
    have hn1 : n ≠ [] := fun e => hg.no_empty (by simp [e])
    have hn2 : n ≠ defaultSect := fun e => hg.no_default (by simp [e])
    have hn3 : n ∉ pre.map (·.1) := hdis n (by simp)
    simp only [escD, List.map_cons, readDictInto]
    rw [addSection_fresh dflt pre n hn2 hn3]
    have := readOpts_escaped pre dflt n hn1 hn2 hn3 o [] (by simpa using hg.keys_nodup (n, o) (by simp))
    simp only [List.nil_append] at this
    rw [this]
    have hg' : GoodDict t := {
      names_nodup := (List.nodup_cons.mp (by simpa using hg.names_nodup)).2
      no_empty := fun h => hg.no_empty (by simp at h ⊢; exact Or.inr h)
      no_default := fun h => hg.no_default (by simp at h ⊢; exact Or.inr h)
      keys_nodup := fun s hs => hg.keys_nodup s (List.mem_cons_of_mem _ hs) }
    have := ih (pre ++ [(n, escOpts o)]) hg' (by
      intro m hm
      have hnd := List.nodup_cons.mp (by simpa using hg.names_nodup : (n :: t.map (·.1)).Nodup)
      simp only [List.map_append, List.map_cons, List.map_nil, List.mem_append, List.mem_singleton, not_or]
      refine ⟨hdis m (by simp at hm ⊢; exact Or.inr hm), ?_⟩
      intro e; subst e; exact hnd.1 hm)
    simp only [escD] at this
    simp only []
    rw [this]
    simp

theorem mapMExcept_map_ok {β : Type} (f : Str → Except Err (Str × β)) (l : List (Str × β))
    (h : ∀ p ∈ l, f p.1 = .ok p) : mapMExcept f (l.map (·.1)) = .ok l := by
  induction l with
  | nil => rfl
  | cons p t ih =>
    simp only [List.map_cons, mapMExcept, h p (by simp)]
    rw [ih (fun q hq => h q (List.mem_cons_of_mem _ hq))]

theorem escOpts_keys (o : Opts) : (escOpts o).map (·.1) = o.map (·.1) := by
  simp [escOpts, List.map_map, Function.comp]

/-- Reading back a section of escaped values yields exactly the unescaped values, in any environment. -/
theorem sectionItems_escaped (secs : List (Str × Opts)) (env : Opts) (n : Str) (o : Opts) (hn : n ≠ defaultSect)
    (hl : secs.lookup n = some (escOpts o)) (hnd : (o.map (·.1)).Nodup) :
    sectionItems ⟨[], secs⟩ env n = .ok o := by
  unfold sectionItems sectionKeys
  simp only [hl, List.map_nil, List.filter_nil, List.append_nil, escOpts_keys]
  apply mapMExcept_map_ok
  intro p hp
  have hmem : (p.1, escape p.2) ∈ escOpts o := List.mem_map.mpr ⟨p, hp, rfl⟩
  have hlk := lookup_mem_nodup (escOpts o) (by rw [escOpts_keys]; exact hnd) _ hmem
  simp only [getItem, rawGet, sectionOpts, hn, if_false, hl, hlk, orElse, loop_escape]

theorem escD_names (D : List (Str × Opts)) : (escD D).map (·.1) = D.map (·.1) := by
  simp [escD, List.map_map, Function.comp]

/-- Reading the escaped two-level dictionary gives a configuration whose effective items are the dictionary. -/
theorem readDict_escaped_aux (D : List (Str × Opts)) (hg : GoodDict D) (t : List (Str × Node))
    (hparse : parseSections (D.map (·.1)) [] = .ok t) :
    readDict (escD D) = .ok ⟨[], escD D⟩ ∧
    ∀ (env : Opts), ∀ s ∈ D, sectionItems ⟨[], escD D⟩ env s.1 = .ok s.2 := by
  constructor
  · unfold readDict
    rw [readDictInto_escaped [] D [] hg (by simp)]
    simp only [List.nil_append, escD_names, hparse]
  · intro env s hs
    have hn : s.1 ≠ defaultSect := fun e => hg.no_default (e ▸ List.mem_map_of_mem hs)
    apply sectionItems_escaped _ env s.1 s.2 hn _ (hg.keys_nodup s hs)
    have hmem : (s.1, escOpts s.2) ∈ escD D := List.mem_map.mpr ⟨s, hs, rfl⟩
    exact lookup_mem_nodup (escD D) (by rw [escD_names]; exact hg.names_nodup) _ hmem

/-! get_config_dict -/

def CfgWF (cfg : Cfg) : Prop :=
  (cfg.defaults.map (·.1)).Nodup ∧ ∀ s ∈ cfg.sections, (s.2.map (·.1)).Nodup

theorem mem_of_lookup' {α : Type} {k : Str} {l : List (Str × α)} {v : α} (h : l.lookup k = some v) : (k, v) ∈ l := by
  induction l with
  | nil => simp at h
  | cons q t ih =>
    obtain ⟨qk, qv⟩ := q
    by_cases e : k = qk
    · subst e; simp [List.lookup] at h; simp [h]
    · have e' : (k == qk) = false := by simp [e]
      simp only [List.lookup, e'] at h
      exact List.mem_cons_of_mem _ (ih h)

theorem sectionKeys_nodup (cfg : Cfg) (h : CfgWF cfg) (f : Str) : (sectionKeys cfg f).Nodup := by
  unfold sectionKeys
  cases hl : cfg.sections.lookup f with
  | none => simp
  | some o =>
    simp only []
    apply List.nodup_append.mpr
    refine ⟨h.2 (f, o) (mem_of_lookup' hl), List.Nodup.sublist List.filter_sublist h.1, ?_⟩
    intro x hx y hy e
    subst e
    have := (List.mem_filter.mp hy).2
    simp only [Bool.not_eq_true', List.any_eq_false, beq_iff_eq] at this
    obtain ⟨p, hp, e⟩ := List.mem_map.mp hx
    exact this p hp e

theorem mapMExcept_keys {α : Type} (g : Str → Except Err (Str × α)) (hg : ∀ k p, g k = .ok p → p.1 = k)
    (l : List Str) (r : List (Str × α)) (h : mapMExcept g l = .ok r) : r.map (·.1) = l := by
  induction l generalizing r with
  | nil => simp [mapMExcept] at h; subst h; rfl
  | cons k t ih =>
    simp only [mapMExcept] at h
    cases hk : g k with
    | error e => simp [hk] at h
    | ok v =>
      simp only [hk] at h
      cases hm : mapMExcept g t with
      | error e => simp [hm] at h
      | ok r' =>
        simp only [hm, Except.ok.injEq] at h
        subst h
        simp [ih r' hm, hg k v hk]

theorem sectionItems_keys (cfg : Cfg) (env : Opts) (f : Str) (it : Opts) (h : sectionItems cfg env f = .ok it) :
    it.map (·.1) = sectionKeys cfg f := by
  unfold sectionItems at h
  refine mapMExcept_keys _ ?_ _ _ h
  intro k p hp
  split at hp
  · cases hp; rfl
  · cases hp

/-- one step of the loop over the leaves in `get_config_dict` (no `replace_config_dir`) -/
def dictStep (cfg : Cfg) (env : Opts) (acc : Except Err (List (Str × Opts))) (pf : Str × Str) :
    Except Err (List (Str × Opts)) :=
  match acc with
  | .error e => .error e
  | .ok res =>
    match sectionItems cfg env pf.2 with
    | .error e => .error e
    | .ok items => .ok (setKey res pf.1 (items.map fun kv => (kv.1, escape kv.2)))

theorem foldl_dictStep_error (cfg : Cfg) (env : Opts) (e : Err) (l : List (Str × Str)) :
    l.foldl (dictStep cfg env) (.error e) = .error e := by
  induction l with
  | nil => rfl
  | cons p t ih => simp only [List.foldl_cons, dictStep, ih]

theorem foldl_dictStep_ok (cfg : Cfg) (env : Opts) (flat : List (Str × Str)) :
    ∀ (R D' : List (Str × Opts)), flat.foldl (dictStep cfg env) (.ok (escD R)) = .ok D' →
      (flat.map (·.1)).Nodup → (∀ p ∈ flat.map (·.1), p ∉ R.map (·.1)) →
      ∃ U : List (Str × Opts), D' = escD (R ++ U) ∧ U.map (·.1) = flat.map (·.1) ∧
        ∀ pf ∈ flat, ∃ it, sectionItems cfg env pf.2 = .ok it ∧ (pf.1, it) ∈ U := by
  induction flat with
  | nil =>
    intro R D' h _ _
    simp only [List.foldl_nil, Except.ok.injEq] at h
    exact ⟨[], by simp [h], rfl, by simp⟩
  | cons pf t ih =>
    intro R D' h hnd hdis
    simp only [List.foldl_cons] at h
    cases hi : sectionItems cfg env pf.2 with
    | error e =>
      simp only [dictStep, hi] at h
      rw [foldl_dictStep_error] at h
      cases h
    | ok it =>
      have hfresh : pf.1 ∉ (escD R).map (·.1) := by rw [escD_names]; exact hdis pf.1 (by simp)
      have hstep : dictStep cfg env (.ok (escD R)) pf = .ok (escD (R ++ [(pf.1, it)])) := by
        simp only [dictStep, hi]
        rw [setKey_not_mem _ _ _ hfresh]
        simp [escD, escOpts]
      rw [hstep] at h
      have hnd' := List.nodup_cons.mp (by simpa using hnd : (pf.1 :: t.map (·.1)).Nodup)
      obtain ⟨U, hU1, hU2, hU3⟩ := ih (R ++ [(pf.1, it)]) D' h hnd'.2 (by
        intro p hp
        simp only [List.map_append, List.map_cons, List.map_nil, List.mem_append, List.mem_singleton, not_or]
        refine ⟨hdis p (by simp at hp ⊢; exact Or.inr hp), ?_⟩
        intro e; subst e; exact hnd'.1 hp)
      refine ⟨(pf.1, it) :: U, by simp [hU1], by simp [hU2], ?_⟩
      intro q hq
      rcases List.mem_cons.mp hq with e | hm
      · subst e; exact ⟨it, hi, by simp⟩
      · obtain ⟨it', h1, h2⟩ := hU3 q hm
        exact ⟨it', h1, List.mem_cons_of_mem _ h2⟩

/-- What the trie of section names has to satisfy for the dictionary to be re-readable (discharged for
distinct, prefix-free section names by `goodPaths_of_prefixFree`). -/
structure GoodPaths (flat : List (Str × Str)) : Prop where
  nodup : (flat.map (·.1)).Nodup
  no_empty : [] ∉ flat.map (·.1)
  no_default : defaultSect ∉ flat.map (·.1)
  parses : ∃ t, parseSections (flat.map (·.1)) [] = .ok t

theorem getConfigDict_roundtrip (cfg : Cfg) (env env' : Opts) (localDir : Str) (trie : List (Str × Node))
    (D' : List (Str × Opts)) (hwf : CfgWF cfg)
    (hp : parseSections (cfg.sections.map (·.1)) [] = .ok trie)
    (hflat : GoodPaths (flattenKids none trie))
    (hd : getConfigDict cfg env localDir none = .ok D') :
    ∃ cfg', readDict D' = .ok cfg' ∧ cfg'.defaults = [] ∧
      cfg'.sections.map (·.1) = (flattenKids none trie).map (·.1) ∧
      ∀ pf ∈ flattenKids none trie, sectionItems cfg' env' pf.1 = sectionItems cfg env pf.2 := by
  unfold getConfigDict at hd
  simp only [hp] at hd
  have hd' : (flattenKids none trie).foldl (dictStep cfg env) (.ok (escD [])) = .ok D' := hd
  obtain ⟨U, hU1, hU2, hU3⟩ := foldl_dictStep_ok cfg env _ [] D' hd' hflat.nodup (by simp)
  simp only [List.nil_append] at hU1
  have hg : GoodDict U := {
    names_nodup := hU2 ▸ hflat.nodup
    no_empty := hU2 ▸ hflat.no_empty
    no_default := hU2 ▸ hflat.no_default
    keys_nodup := by
      intro s hs
      obtain ⟨pf, hpf, e⟩ := List.mem_map.mp (hU2 ▸ List.mem_map_of_mem (f := (·.1)) hs : s.1 ∈ (flattenKids none trie).map (·.1))
      obtain ⟨it, hit, hmem⟩ := hU3 pf hpf
      have hnd : (U.map (·.1)).Nodup := hU2 ▸ hflat.nodup
      have h1 := lookup_mem_nodup U hnd s hs
      have h2 := lookup_mem_nodup U hnd (pf.1, it) hmem
      simp only [] at h2
      rw [e, h1] at h2
      cases h2
      rw [sectionItems_keys cfg env pf.2 _ hit]
      exact sectionKeys_nodup cfg hwf pf.2 }
  obtain ⟨t', ht'⟩ := hflat.parses
  have ⟨h1, h2⟩ := readDict_escaped_aux U hg t' (hU2 ▸ ht')
  refine ⟨⟨[], escD U⟩, hU1 ▸ h1, rfl, by simp [escD_names, hU2], ?_⟩
  intro pf hpf
  obtain ⟨it, hit, hmem⟩ := hU3 pf hpf
  rw [hit]
  exact h2 env' (pf.1, it) hmem

end RedunModel.Config
